(* C04 at connection level: c04_vsock_ack_ok (Conn/C04_Pred.v) against EVERY trace of the model.
   FALSE as written, in two ways (witnesses at the end of the file); under the guard c04_peer_ok of
   Conn/C04_Guard.v (at most WRAP_TOLERANCE sequence-carrying packets, 16-bit sequence numbers, no ST_DATA
   numbered at or above an ST_FIN) it is a theorem of every trace from vsock_new on a valid configuration:
   c04_vsock_ack_guarded_trace.
   The invariant: last_consumed = base + K where K = the number of slots the reassembly queue has consumed so far
   (Rx_Proofs.consumed), every number base+1 .. base+K was delivered, every slot held out of order stands for a
   delivered ST_DATA number, and every datagram of a poll acknowledges last_consumed as it was when the
   datagram was built (the receive-side relation RX of Conn/C17_TraceLemmas.v). *)
From Utp Require Rx.Rx_Slots.
From Utp Require Import Base.Prelude Wire.SeqNr Wire.SeqNr_Proofs Wire.Header Wire.Header_Proofs Rtt.Rtte Mtu.SegSizes
  Rx.Rx Rx.Rx_Proofs Tx.Ring Tx.Segments Conn.Recovery Conn.Msg Conn.VSockRec Conn.VSock Conn.VSockRun Conn.VObs
  Conn.VSock_Lemmas Conn.VSock_LemmasStep Conn.VSock_LemmasTx Conn.VSock_LemmasFin Conn.C17_Pred Conn.C17_Proofs
  Conn.VSock_LemmasIn Conn.C17_StepLemmas Conn.C17_Step Conn.C04_Pred Conn.C04_Guard Conn.C17_TraceLemmas.

(* ------------------------------------------------------------------ 16-bit arithmetic *)
Lemma wadd16_range a b : 0 <= wadd16 a b < M16.
Proof. unfold wadd16, M16. lia. Qed.

Lemma wadd16_wadd16 b x y : wadd16 (wadd16 b x) y = wadd16 b (x + y).
Proof. unfold wadd16, M16. lia. Qed.

Lemma wadd16_mod b x : wadd16 b (x mod M16) = wadd16 b x.
Proof. unfold wadd16, M16. lia. Qed.

Lemma wadd16_0 b : 0 <= b < M16 -> wadd16 b 0 = b.
Proof. unfold wadd16, M16. lia. Qed.

Lemma wsub16_wadd16 b k : 0 <= k < M16 -> wsub16 (wadd16 b k) b = k.
Proof. unfold wsub16, wadd16, M16. lia. Qed.

(* the sequence number is the reference plus the offset the code computes, whatever the tolerance says *)
Lemma seq_sub_wadd a c : 0 <= a < M16 -> 0 <= c < M16 -> wadd16 c (seq_sub a c) = a.
Proof.
  intros Ha Hc. unfold seq_sub, seq_nr_offset, wadd16, wsub16, WRAP_TOLERANCE, M16 in *.
  destruct (Z.ltb_spec a c); [destruct (Z.leb_spec ((a - c) mod 65536) 1024)|
    destruct (Z.eqb_spec a c); [|destruct (Z.leb_spec ((c - a) mod 65536) 1024)]]; lia.
Qed.

Lemma seq_sub_small b k1 k2 :
  0 <= k1 <= WRAP_TOLERANCE -> 0 <= k2 <= WRAP_TOLERANCE ->
  seq_sub (wadd16 b k2) (wadd16 b k1) = k2 - k1.
Proof.
  intros H1 H2. unfold seq_sub. apply offset_true_distance_pair.
  - apply wadd16_range.
  - apply wadd16_range.
  - unfold WRAP_TOLERANCE. lia.
  - unfold WRAP_TOLERANCE in *. lia.
  - unfold wadd16, M16. lia.
Qed.

Lemma seq_sub_base b k : 0 <= b < M16 -> 0 <= k <= WRAP_TOLERANCE -> seq_sub (wadd16 b k) b = k.
Proof.
  intros Hb Hk. rewrite <- (wadd16_0 b Hb) at 2. rewrite seq_sub_small; unfold WRAP_TOLERANCE in *; lia.
Qed.

(* ------------------------------------------------------------------ the reassembly queue *)
(* the slots from the consumed position on stand for delivered ST_DATA numbers; g = slots ever popped,
   c = slots ever consumed, base + (absolute index + 1) = the sequence number of a slot *)
Definition slots_rcv (Rd : list Z) (b g c : Z) (data : list slot) : Prop :=
  forall (i : nat) sl, nth_error data i = Some sl -> slot_is_default sl = false ->
    c <= g + Z.of_nat i -> In (wadd16 b (g + Z.of_nat i + 1)) Rd.

Lemma slots_rcv_mono Rd Rd' b g c c' data :
  slots_rcv Rd b g c data -> incl Rd Rd' -> c <= c' -> slots_rcv Rd' b g c' data.
Proof. intros H Hi Hc i sl Hn Hd Hge. apply Hi. eapply H; eauto. lia. Qed.

Lemma slots_rcv_dshift Rd b c (r r' : rx) :
  dshift r r' -> slots_rcv Rd b (g_base r) c (ooq_data r) -> slots_rcv Rd b (g_base r') c (ooq_data r').
Proof.
  intros [Hg Hs] H i sl Hn Hd Hge. specialize (Hs i sl Hn Hd).
  specialize (H _ sl Hs Hd).
  replace (g_base r + Z.of_nat (i + Z.to_nat (g_base r' - g_base r))) with (g_base r' + Z.of_nat i) in H by lia.
  apply H. exact Hge.
Qed.

Lemma slots_rcv_set_nth Rd b g c data e m :
  slots_rcv Rd b g c data ->
  (c <= g + Z.of_nat e -> In (wadd16 b (g + Z.of_nat e + 1)) Rd) ->
  slots_rcv Rd b g c (set_nth data e m).
Proof.
  intros H He i sl Hn Hd Hge. rewrite Rx_Slots.nth_error_set_nth in Hn.
  destruct (Nat.eqb_spec i e) as [->|Hne]; [apply He; exact Hge|]. eapply H; eauto.
Qed.

(* one accepted packet: what ooq_add_remove does to the positions *)
Lemma ooq_consumed_shape (s : rx) k p off s1 n bb :
  rx_inv s -> 0 <= off -> ooq_add_remove s k p off = (s1, ArConsumed n bb) ->
  exists m,
    let e := Z.to_nat (off + filled_front s) in
    ooq_data s1 = set_nth (ooq_data s) e m /\ slot_is_default m = false /\
    (e < length (ooq_data s))%nat /\
    g_base s1 = g_base s /\ filled_front s1 = filled_front s + n /\ ooq_len s1 = ooq_len s + 1 /\
    0 <= n /\ (off = 0 -> 1 <= n) /\ (0 < off -> n = 0) /\
    (forall j : nat, Z.of_nat j < n ->
       exists sl, nth_error (ooq_data s1) (Z.to_nat (filled_front s) + j) = Some sl /\ slot_is_default sl = false).
Proof.
  intros Hinv Hoff H. pose proof (inv_ff_bounds s Hinv) as Hb.
  destruct (ooq_add_remove_cases _ _ _ _ _ _ H) as [[_ F]|(m & old & Hn & Hod & Hmd & Hfull & _ & Hs)]; [contradiction|].
  cbv zeta in Hs. destruct Hs as [-> Hr]. injection Hr as -> _.
  set (e := Z.to_nat (off + filled_front s)) in *. set (ffn := Z.to_nat (filled_front s)) in *.
  set (data' := set_nth (ooq_data s) e m) in *.
  assert (He : (e < length (ooq_data s))%nat) by (apply nth_error_Some; rewrite Hn; discriminate).
  pose proof (twf_n_nonneg (skipn ffn data')) as Hnn.
  exists m. cbn [set_ooq ooq_data g_base filled_front ooq_len].
  split; [reflexivity|]. split; [exact Hmd|]. split; [exact He|]. split; [reflexivity|].
  split; [reflexivity|]. split; [reflexivity|]. split; [lia|].
  assert (Hlen' : length data' = length (ooq_data s)) by apply set_nth_length.
  split; [|split].
  - intro H0. assert (Ee : e = ffn) by (unfold e, ffn; rewrite H0; reflexivity).
    (* the new slot is the first of the run *)
    destruct (skipn ffn data') as [|x xs] eqn:Esk.
    { exfalso. assert (length (skipn ffn data') = 0%nat) by (rewrite Esk; reflexivity).
      rewrite skipn_length in H1. lia. }
    assert (Hx : nth_error data' ffn = Some x).
    { rewrite <- (Nat.add_0_r ffn). rewrite <- Rx_Slots.nth_error_skipn. rewrite Esk. reflexivity. }
    unfold data' in Hx. rewrite Rx_Slots.nth_error_set_nth in Hx. rewrite <- Ee, Nat.eqb_refl, Hn in Hx.
    injection Hx as <-. unfold twf_n. rewrite twf_cons. rewrite Hmd. cbn [fst].
    pose proof (twf_n_nonneg xs). unfold twf_n in *. lia.
  - intro Hpos. assert (Hlt : (ffn < e)%nat) by (unfold e, ffn; lia).
    (* the hole at filled_front is still there *)
    assert (Hfc : filled_front s < ooq_capacity s).
    { unfold ooq_is_full in Hfull. apply Z.eqb_neq in Hfull. lia. }
    pose proof (hole_at_filled_front s Hinv Hfc) as Hh. fold ffn in Hh.
    destruct (skipn ffn data') as [|x xs] eqn:Esk; [reflexivity|].
    assert (Hx : nth_error data' ffn = Some x).
    { rewrite <- (Nat.add_0_r ffn). rewrite <- Rx_Slots.nth_error_skipn. rewrite Esk. reflexivity. }
    unfold data' in Hx. rewrite Rx_Slots.nth_error_set_nth in Hx.
    destruct (Nat.eqb_spec ffn e); [lia|].
    rewrite (nth_error_nth _ _ slot_default Hx) in Hh.
    unfold twf_n. rewrite twf_cons. rewrite Hh. reflexivity.
  - intros j Hj.
    assert (Hlt : (j < length (skipn ffn data'))%nat).
    { pose proof (twf_n_nonneg (skipn ffn data')). lia. }
    destruct (nth_error (skipn ffn data') j) as [sl|] eqn:Ej; [|apply nth_error_None in Ej; lia].
    exists sl. split; [rewrite <- Rx_Slots.nth_error_skipn; exact Ej|].
    rewrite <- (nth_error_nth _ _ slot_default Ej). apply front_filled. exact Hj.
Qed.

(* everything but ArConsumed leaves the queue alone *)
Lemma ooq_not_consumed (s : rx) k p off s1 r :
  ooq_add_remove s k p off = (s1, r) -> (forall n b, r <> ArConsumed n b) -> s1 = s.
Proof.
  intros H Hn. destruct (ooq_add_remove_cases _ _ _ _ _ _ H) as [[E _]|(m & old & _ & _ & _ & _ & _ & Hs)]; [exact E|].
  cbv zeta in Hs. destruct Hs as [_ Hr]. exfalso. eapply Hn; exact Hr.
Qed.

(* UserRx::add_remove = the queue's add_remove, then possibly a flush *)
Lemma rx_add_remove_shape (s : rx) k p off s2 ar w :
  rx_add_remove s k p off = (s2, ar, w) ->
  exists s1 r, ooq_add_remove s k p off = (s1, r) /\ (ar = UarPanic \/ (ar = UarOk r /\ rxrel s1 s2)).
Proof.
  unfold rx_add_remove. destruct (ooq_add_remove s k p off) as [s1 r] eqn:E.
  intro H. exists s1, r. split; [reflexivity|].
  assert (Hplain : (s1, UarOk r, @nil wake) = (s2, ar, w) -> ar = UarPanic \/ (ar = UarOk r /\ rxrel s1 s2)).
  { intro X; injection X as <- <- _. right. split; [reflexivity|apply rxrel_refl]. }
  destruct r as [n b| | | | |]; try (apply Hplain; exact H).
  destruct ((0 <? n) && ooq_is_full s1); [|apply Hplain; exact H].
  destruct (rx_flush s1) as [[s2' fr] w2] eqn:Ef. destruct fr as [fb|].
  - injection H as <- <- _. right. split; [reflexivity|]. eapply rx_flush_rxrel; exact Ef.
  - injection H as _ <- _. left. reflexivity.
Qed.

Lemma rx_read_ooq (s : rx) n s' r w :
  rx_inv s -> rx_read s n = (s', r, w) ->
  rx_inv s' /\ ooq_data s' = ooq_data s /\ filled_front s' = filled_front s /\ ooq_len s' = ooq_len s /\
  g_base s' = g_base s.
Proof.
  intros Hinv H. destruct (rx_read_spec _ _ _ _ _ Hinv H) as (Hinv' & _).
  split; [exact Hinv'|]. revert H. unfold rx_read.
  destruct (read_loop _ s n []) as [[[s1 out] dead] err] eqn:E.
  assert (Hq : q_inv s) by (destruct Hinv as (_ & _ & _ & _ & _ & Hq & _); exact Hq).
  destruct (read_loop_spec _ _ _ _ _ _ _ _ Hq E) as (_ & _ & Hso & _).
  destruct Hso as (S1 & S2 & S3 & _ & _ & S6 & _).
  destruct err; [intro H; injection H as <- _ _; auto|].
  destruct out; [destruct (is_eof s1); [|destruct dead]|]; intro H; injection H as <- _ _; cbn; auto.
Qed.

Section WithCC.
Context {CC : Type} (cci : cc_iface CC).
Notation vsock := (vsock CC).

(* ------------------------------------------------------------------ the state table, what this proof needs *)
Definition tbl_st (r : table_res (CC:=CC)) : vsock :=
  match r with TblDrop s | TblErr s _ | TblContinue s => s end.

Lemma state_table_keep (s : vsock) h :
  let s1 := tbl_st (state_table s h) in
  v_last_consumed s1 = v_last_consumed s /\ v_rx s1 = v_rx s /\ v_out s1 = v_out s /\ v_inbox s1 = v_inbox s.
Proof.
  unfold state_table, restart_remote_inactivity_timer.
  destruct (ch_type h); destruct (v_state s);
    repeat match goal with |- context [if ?c then _ else _] => destruct c end;
    cbn [tbl_st]; vsimpl; auto.
Qed.

(* an ST_DATA never moves the state past the peer's FIN; a continued message is not processed in Closed *)
Lemma state_table_data_rf (s s1 : vsock) h :
  ch_type h = ST_DATA -> state_table s h = TblContinue s1 ->
  is_remote_fin_or_later (v_state s) = false -> is_remote_fin_or_later (v_state s1) = false.
Proof.
  intros Ht. unfold state_table, restart_remote_inactivity_timer. rewrite Ht.
  destruct (v_state s) eqn:Es; cbn [is_remote_fin_or_later]; try discriminate;
    repeat match goal with |- context [if ?c then _ else _] => destruct c end;
    intro H; try discriminate; injection H as <-; vsimpl; rewrite ?Es; auto.
Qed.

Lemma state_table_continue_not_closed (s s1 : vsock) h :
  state_table s h = TblContinue s1 -> v_state s <> Closed.
Proof.
  unfold state_table. intros H E. rewrite E in H.
  destruct (ch_type h); try discriminate.
Qed.

(* a continued ST_FIN before the peer's FIN was seen is in sequence, and the state after it is past the FIN *)
Lemma state_table_fin (s s1 : vsock) h :
  ch_type h = ST_FIN -> state_table s h = TblContinue s1 ->
  is_remote_fin_or_later (v_state s) = false ->
  ch_seq h = wadd16 (v_last_consumed s) 1 /\ is_remote_fin_or_later (v_state s1) = true.
Proof.
  intros Ht. unfold state_table, restart_remote_inactivity_timer. rewrite Ht.
  destruct (v_state s) eqn:Es; cbn [is_remote_fin_or_later]; try discriminate;
    repeat match goal with
    | |- context [if negb (?a =? ?b) then _ else _] => destruct (Z.eqb_spec a b); cbn [negb]
    | |- context [if ?c then _ else _] => destruct c
    end;
    intro H; try discriminate; injection H as <-; vsimpl; rewrite ?Es; auto.
Qed.

(* LastAck after the table: it was LastAck before, or this is the peer's FIN, continued *)
Lemma state_table_last_ack (s : vsock) h f r :
  v_state (tbl_st (state_table s h)) = LastAck f r ->
  v_state s = LastAck f r \/
  (ch_type h = ST_FIN /\ is_remote_fin_or_later (v_state s) = false /\
   exists s1, state_table s h = TblContinue s1).
Proof.
  unfold state_table, restart_remote_inactivity_timer.
  destruct (ch_type h) eqn:Et; destruct (v_state s) eqn:Es;
    repeat match goal with |- context [if ?c then _ else _] => destruct c end;
    cbn [tbl_st]; vsimpl; rewrite ?Es; intro H; try discriminate; auto;
    right; (split; [reflexivity|]; split; [reflexivity|]; eexists; reflexivity).
Qed.

Lemma state_table_rf_mono (s : vsock) h :
  is_remote_fin_or_later (v_state s) = true ->
  is_remote_fin_or_later (v_state (tbl_st (state_table s h))) = true.
Proof.
  unfold state_table, restart_remote_inactivity_timer.
  destruct (ch_type h) eqn:Et; destruct (v_state s) eqn:Es; cbn [is_remote_fin_or_later]; try discriminate;
    repeat match goal with |- context [if ?c then _ else _] => destruct c end;
    cbn [tbl_st]; vsimpl; rewrite ?Es; auto.
Qed.

(* ------------------------------------------------------------------ the invariant of one poll *)
Definition msg_carries (m : msg) : bool := carries_seq (m_hdr m) (Z.of_nat (length (m_payload m))).
Definition msg_is_fin (m : msg) : bool := ptype_eqb (ch_type (m_hdr m)) ST_FIN.

Fixpoint cntc (l : list msg) : Z :=
  match l with [] => 0 | m :: r => (if msg_carries m then 1 else 0) + cntc r end.

Lemma cntc_nonneg l : 0 <= cntc l.
Proof. induction l as [|m r IH]; cbn [cntc]; [lia|]. destruct (msg_carries m); lia. Qed.

Lemma cntc_app a b : cntc (a ++ b) = cntc a + cntc b.
Proof. induction a as [|m r IH]; cbn [app cntc]; lia. Qed.

Section Poll.
Variable b : Z.
Variables Rd Rf : list Z.
Hypothesis Hb : 0 <= b < M16.
Hypothesis G3 : forall d f, In d Rd -> In f Rf -> c04_pos b d < c04_pos b f.
Hypothesis Htol : Z.of_nat (length Rd + length Rf) <= WRAP_TOLERANCE.

Record PI (s : vsock) (K : Z) : Prop := {
  pi_K : 0 <= K;
  pi_lc : v_last_consumed s = wadd16 b K;
  pi_contig : forall i, 1 <= i <= K -> In (wadd16 b i) Rd \/ In (wadd16 b i) Rf;
  pi_rx : rx_inv (v_rx s);
  pi_slots : is_remote_fin_or_later (v_state s) = false ->
             K = consumed (v_rx s) /\ slots_rcv Rd b (g_base (v_rx s)) K (ooq_data (v_rx s));
  pi_la : forall f r, v_state s = LastAck f r -> In (v_last_consumed s) Rf;
  pi_inbox : forall m, In m (v_inbox s) -> msg_carries m = true ->
             0 <= ch_seq (m_hdr m) < M16 /\
             (if msg_is_fin m then In (ch_seq (m_hdr m)) Rf else In (ch_seq (m_hdr m)) Rd);
  pi_count : K + (ooq_len (v_rx s) - filled_front (v_rx s)) + cntc (v_inbox s)
             <= Z.of_nat (length Rd + length Rf)
}.

Lemma PI_K_tol s K : PI s K -> 0 <= K <= WRAP_TOLERANCE.
Proof.
  intro P. destruct P. pose proof (inv_ff_bounds _ pi_rx0). pose proof (cntc_nonneg (v_inbox s)). lia.
Qed.

(* the acknowledgement numbers of the datagrams of this poll, newest first: base + K_i, K_i non-decreasing in
   time, between lo and hi *)
Fixpoint AckL (lo hi : Z) (out : list packet) : Prop :=
  match out with
  | [] => lo <= hi
  | p :: older => exists Kp, ch_ack (p_hdr p) = wadd16 b Kp /\ ch_type (p_hdr p) <> ST_SYN /\ Kp <= hi /\
                             AckL lo Kp older
  end.

Lemma AckL_mono lo hi hi' out : AckL lo hi out -> hi <= hi' -> AckL lo hi' out.
Proof.
  destruct out as [|p older]; cbn [AckL]; [lia|].
  intros (Kp & A1 & A2 & A3 & A4) H. exists Kp. repeat split; auto. lia.
Qed.

Lemma AckL_lo_hi lo hi out : AckL lo hi out -> lo <= hi.
Proof.
  revert hi. induction out as [|p older IH]; intros hi; cbn [AckL]; [auto|].
  intros (Kp & _ & _ & A3 & A4). specialize (IH _ A4). lia.
Qed.

Lemma AckL_app lo K l out :
  AckL lo K out -> Forall (ackp (wadd16 b K)) l -> AckL lo K (l ++ out).
Proof.
  intros H. induction l as [|p l IH]; intro F; [exact H|].
  inversion F as [|? ? (Ha & Ht) F']; subst. cbn [app AckL]. exists K.
  split; [exact Ha|]. split; [exact Ht|]. split; [lia|apply IH; exact F'].
Qed.

Definition PO (lo : Z) (s : vsock) : Prop := exists K, PI s K /\ AckL lo K (v_out s).

Lemma PI_RX (s s' : vsock) K : RX s s' -> PI s K -> PI s' K.
Proof.
  intros (A1 & A2 & A3 & A4 & A5 & _) P. destruct P.
  destruct A5 as (R1 & R2 & R3 & R4 & R5 & R6).
  pose proof (strel_remote_fin _ _ A4) as Hrf.
  constructor; try assumption.
  - congruence.
  - auto.
  - rewrite Hrf. intro Hn. destruct (pi_slots0 Hn) as [C S]. split; [congruence|].
    eapply slots_rcv_dshift; eauto.
  - intros f r Hs. rewrite A1. rewrite Hs in A4. apply strel_last_ack in A4. eapply pi_la0; eauto.
  - rewrite A2. exact pi_inbox0.
  - rewrite A2. lia.
Qed.

Lemma PO_RX lo (s s' : vsock) : RX s s' -> PO lo s -> PO lo s'.
Proof.
  intros Hr (K & P & A). exists K. split; [eapply PI_RX; eauto|].
  destruct Hr as (A1 & _ & _ & _ & _ & l & A6 & A7 & _). rewrite A6. apply AckL_app; [exact A|].
  destruct P. rewrite <- pi_lc0. exact A7.
Qed.

Lemma PO_closed lo (s : vsock) : PO lo s -> v_inbox_closed s = true -> PO lo (set_state s Closed).
Proof.
  intros (K & P & A) _. exists K. split; [|exact A]. destruct P.
  constructor; vsimpl; try assumption; [discriminate|discriminate].
Qed.

(* ---- rebuilding the invariant ---- *)
Lemma PI_fin (s0 s' : vsock) K :
  PI s0 K -> v_last_consumed s' = v_last_consumed s0 -> rxrel (v_rx s0) (v_rx s') ->
  v_inbox s' = v_inbox s0 ->
  (is_remote_fin_or_later (v_state s') = false -> is_remote_fin_or_later (v_state s0) = false) ->
  (forall f r, v_state s' = LastAck f r -> In (v_last_consumed s0) Rf) -> PI s' K.
Proof.
  intros P E1 (R1 & R2 & R3 & R4 & R5 & R6) E3 Hrf Hla. destruct P.
  constructor; try assumption.
  - congruence.
  - auto.
  - intro Hn. destruct (pi_slots0 (Hrf Hn)) as [C S]. split; [congruence|].
    eapply slots_rcv_dshift; eauto.
  - intros f r Hs. rewrite E1. eapply Hla; eauto.
  - rewrite E3. exact pi_inbox0.
  - rewrite E3. lia.
Qed.

Lemma pos_wadd16 k : 0 <= k < M16 -> c04_pos b (wadd16 b k) = k.
Proof. intro H. unfold c04_pos. apply wsub16_wadd16. exact H. Qed.

(* ---- an ST_DATA handed to the reassembly queue ---- *)
Lemma PI_data (s2 s5 : vsock) (m : msg) K rx1 r w :
  PI s2 K ->
  (m_payload m <> [] ->
   K + (ooq_len (v_rx s2) - filled_front (v_rx s2)) + 1 + cntc (v_inbox s2) <= Z.of_nat (length Rd + length Rf)) ->
  ch_type (m_hdr m) = ST_DATA ->
  (m_payload m <> [] -> 0 <= ch_seq (m_hdr m) < M16 /\ In (ch_seq (m_hdr m)) Rd) ->
  (is_remote_fin_or_later (v_state s2) = true -> In (v_last_consumed s2) Rf) ->
  let off := seq_sub (ch_seq (m_hdr m)) (wadd16 (v_last_consumed s2) 1) in
  0 <= off ->
  rx_add_remove (v_rx s2) KData (m_payload m) off = (rx1, UarOk r, w) ->
  v_rx s5 = rx1 -> v_inbox s5 = v_inbox s2 -> v_state s5 = v_state s2 ->
  v_last_consumed s5 = match r with
                       | ArConsumed n _ => wadd16 (v_last_consumed s2) (n mod M16)
                       | _ => v_last_consumed s2
                       end ->
  exists K', K <= K' /\ PI s5 K'.
Proof.
  intros P Hcnt Ht Hm Hrfin off Hoff Hra E1 E2 E3 E4.
  pose proof (PI_K_tol _ _ P) as HK. destruct P.
  destruct (rx_add_remove_shape _ _ _ _ _ _ _ Hra) as (r1 & r0 & Hooq & [Hp|[Hr Hrel]]); [discriminate|].
  injection Hr as <-.
  assert (Hinv1 : rx_inv r1) by (eapply ooq_add_remove_inv; eauto).
  destruct r as [n bb| | | | |].
  2-6: (assert (Er : r1 = v_rx s2) by (eapply ooq_not_consumed; [exact Hooq|intros; discriminate]);
        exists K; split; [lia|];
        apply (PI_fin s2 s5 K); [constructor; assumption|exact E4|rewrite E1, <- Er; exact Hrel|exact E2|
                                 rewrite E3; auto|rewrite E3; exact pi_la0]).
  (* ArConsumed n bb *)
  destruct (ooq_consumed_shape _ _ _ _ _ _ _ pi_rx0 Hoff Hooq)
    as (sl0 & Hd & Hsl0 & He & Hg & Hff & Hlen & Hn0 & Hn1 & Hnz & Hrun).
  cbv zeta in Hd, He.
  pose proof (inv_ff_bounds _ pi_rx0) as Hb0.
  (* the payload is not empty: the packet carries its number *)
  assert (Hpl : m_payload m <> []).
  { destruct (ooq_add_remove_cases _ _ _ _ _ _ Hooq) as [[_ F]|(mm & old & _ & _ & _ & _ & Hsh & _)]; [contradiction|].
    intro E. rewrite E in Hooq. unfold ooq_add_remove in Hooq.
    destruct (ooq_is_full (v_rx s2)); [discriminate|]. destruct (_ <=? _); discriminate. }
  destruct (Hm Hpl) as [Hrange HinRd]. specialize (Hcnt Hpl).
  assert (Hlc : 0 <= v_last_consumed s2 < M16) by (rewrite pi_lc0; apply wadd16_range).
  assert (Hseq : ch_seq (m_hdr m) = wadd16 b (K + 1 + off)).
  { pose proof (seq_sub_wadd (ch_seq (m_hdr m)) (wadd16 (v_last_consumed s2) 1) Hrange (wadd16_range _ _)) as X.
    fold off in X. rewrite <- X, pi_lc0, !wadd16_wadd16. f_equal. lia. }
  destruct (is_remote_fin_or_later (v_state s2)) eqn:Erf.
  - (* past the peer's FIN: nothing is consumed (a run would start at a number above the FIN) *)
    assert (Hnz0 : n = 0).
    { destruct (Z.eq_dec off 0) as [E0|N0]; [|apply Hnz; lia]. exfalso.
      assert (Hla : In (v_last_consumed s2) Rf) by (apply Hrfin; reflexivity).
      rewrite E0, Z.add_0_r in Hseq.
      pose proof (G3 _ _ HinRd Hla) as Hg3. rewrite Hseq, pi_lc0 in Hg3.
      rewrite !pos_wadd16 in Hg3 by (unfold WRAP_TOLERANCE, M16 in *; lia). lia. }
    subst n. exists K. split; [lia|].
    constructor; try assumption.
    + rewrite E4, pi_lc0. rewrite wadd16_wadd16. f_equal. unfold M16. lia.
    + rewrite E1. destruct Hrel as (X & _). auto.
    + rewrite E3, Erf. discriminate.
    + intros f r Hs. rewrite E4. replace (wadd16 (v_last_consumed s2) (0 mod M16)) with (v_last_consumed s2)
        by (unfold wadd16, M16 in *; lia). rewrite E3 in Hs. eapply pi_la0; eauto.
    + rewrite E2. exact pi_inbox0.
    + rewrite E1, E2. destruct Hrel as (_ & _ & X & _). lia.
  - (* before the peer's FIN *)
    destruct (pi_slots0 eq_refl) as [Hc Hs].
    exists (K + n). split; [lia|].
    assert (Hs0 : slots_rcv Rd b (g_base r1) K (ooq_data r1)).
    { rewrite Hg, Hd.
      apply slots_rcv_set_nth; [exact Hs|]. intros _.
      replace (g_base (v_rx s2) + Z.of_nat (Z.to_nat (off + filled_front (v_rx s2))) + 1) with (K + 1 + off)
        by (unfold consumed in Hc; lia).
      rewrite <- Hseq. exact HinRd. }
    assert (Hs1 : slots_rcv Rd b (g_base r1) (K + n) (ooq_data r1))
      by (apply (slots_rcv_mono Rd Rd b _ K (K + n)); [exact Hs0|apply incl_refl|lia]).
    constructor.
    + lia.
    + rewrite E4, pi_lc0. rewrite wadd16_mod, wadd16_wadd16. reflexivity.
    + intros i Hi. destruct (Z_le_gt_dec i K) as [Hle|Hgt]; [apply pi_contig0; lia|]. left.
      destruct (Hrun (Z.to_nat (i - K - 1)) ltac:(lia)) as (sl & Hnth & Hsl).
      specialize (Hs0 _ sl Hnth Hsl).
      replace (g_base r1 + Z.of_nat (Z.to_nat (filled_front (v_rx s2)) + Z.to_nat (i - K - 1)) + 1) with i in Hs0
        by (unfold consumed in Hc; lia).
      apply Hs0. unfold consumed in Hc. lia.
    + rewrite E1. destruct Hrel as (X & _). auto.
    + intros _. rewrite E1. destruct Hrel as (_ & X2 & _ & _ & _ & X6). split.
      * rewrite X2. unfold consumed in *. lia.
      * eapply slots_rcv_dshift; eauto.
    + intros f r Hst. rewrite E3 in Hst. rewrite Hst in Erf. discriminate.
    + rewrite E2. exact pi_inbox0.
    + rewrite E1, E2. destruct Hrel as (_ & _ & X & _). lia.
Qed.

(* ---- the peer's FIN, in sequence, handed to the reassembly queue ---- *)
Lemma PI_finacc (s2 s5 : vsock) (m : msg) K rx1 r w :
  PI s2 K ->
  K + (ooq_len (v_rx s2) - filled_front (v_rx s2)) + 1 + cntc (v_inbox s2) <= Z.of_nat (length Rd + length Rf) ->
  In (ch_seq (m_hdr m)) Rf -> ch_seq (m_hdr m) = wadd16 (v_last_consumed s2) 1 ->
  rx_add_remove (v_rx s2) KFin (m_payload m) 0 = (rx1, UarOk r, w) ->
  v_rx s5 = rx1 -> v_inbox s5 = v_inbox s2 -> is_remote_fin_or_later (v_state s5) = true ->
  v_last_consumed s5 = ch_seq (m_hdr m) ->
  PI s5 (K + 1).
Proof.
  intros P Hcnt HinRf Hseq Hra E1 E2 E3 E4. destruct P.
  destruct (rx_add_remove_spec _ _ _ _ _ _ _ pi_rx0 (Z.le_refl 0) Hra) as (Hinv' & _).
  destruct (rx_add_remove_shape _ _ _ _ _ _ _ Hra) as (r1 & r0 & Hooq & [Hp|[Hr Hrel]]); [discriminate|].
  injection Hr as <-.
  assert (Hx : ooq_len r1 - filled_front r1 <= ooq_len (v_rx s2) - filled_front (v_rx s2)).
  { destruct r as [n bb| | | | |].
    2-6: (assert (Er : r1 = v_rx s2) by (eapply ooq_not_consumed; [exact Hooq|intros; discriminate]);
          rewrite Er; lia).
    destruct (ooq_consumed_shape _ _ _ _ _ _ _ pi_rx0 (Z.le_refl 0) Hooq)
      as (sl0 & _ & _ & _ & _ & Hff & Hlen & _ & Hn1 & _). specialize (Hn1 eq_refl). lia. }
  assert (Hlc5 : v_last_consumed s5 = wadd16 b (K + 1)).
  { rewrite E4, Hseq, pi_lc0, wadd16_wadd16. reflexivity. }
  constructor.
  - lia.
  - exact Hlc5.
  - intros i Hi. destruct (Z_le_gt_dec i K) as [Hle|Hgt]; [apply pi_contig0; lia|].
    right. replace i with (K + 1) by lia. rewrite <- Hlc5, E4. exact HinRf.
  - rewrite E1. exact Hinv'.
  - rewrite E3. discriminate.
  - intros f r' _. rewrite E4. exact HinRf.
  - rewrite E2. exact pi_inbox0.
  - rewrite E1, E2. destruct Hrel as (_ & _ & X & _). lia.
Qed.

(* ---- one incoming message, by the parts of Conn/VSock_LemmasIn.v ---- *)
Lemma pim_ack_keep (s1 s2 : vsock) h res :
  pim_ack cci s1 h = Some (s2, res) ->
  v_last_consumed s2 = v_last_consumed s1 /\ v_rx s2 = v_rx s1 /\ v_inbox s2 = v_inbox s1 /\
  v_out s2 = v_out s1 /\ v_state s2 = v_state s1.
Proof.
  unfold pim_ack. destruct (remove_up_to_ack _ _ _ _) as [segs1 res0].
  destruct (match is_recovering _, _ with | false, Some rtt => _ | _, _ => _ end) as [rtte1|]; [|discriminate].
  destruct (cc_on_ack _ _ _ _ _) as [cc3|]; [|discriminate].
  destruct (recovery_on_ack _ _ _ _ _ _ _ _) as [[[rec1 segs2] cc4]|]; [|discriminate].
  intro H; injection H as <- _. vsimpl. auto.
Qed.

Definition stPO (lo : Z) {A} (r : step A) : Prop :=
  match r with SOk s' _ | SErr s' _ => PO lo s' | SPanic => True end.

Lemma PO_pim_data lo (s2 : vsock) m res K :
  PI s2 K -> AckL lo K (v_out s2) ->
  ch_type (m_hdr m) = ST_DATA ->
  (m_payload m <> [] ->
   0 <= ch_seq (m_hdr m) < M16 /\ In (ch_seq (m_hdr m)) Rd /\
   K + (ooq_len (v_rx s2) - filled_front (v_rx s2)) + 1 + cntc (v_inbox s2) <= Z.of_nat (length Rd + length Rf)) ->
  (is_remote_fin_or_later (v_state s2) = true -> In (v_last_consumed s2) Rf) ->
  stPO lo (pim_data cci s2 m res (seq_sub (ch_seq (m_hdr m)) (wadd16 (v_last_consumed s2) 1))).
Proof.
  intros P2 A2 Ety Hpl Hrfin. unfold pim_data.
  destruct (Z.ltb_spec (seq_sub (ch_seq (m_hdr m)) (wadd16 (v_last_consumed s2) 1)) 0) as [Hneg|Hoff].
  { cbn [stPO]. exists K. unfold force_immediate_ack. split; [|vsimpl; exact A2].
    destruct P2. constructor; vsimpl; assumption. }
  cbv zeta.
  match goal with |- context [rx_add_remove (v_rx ?x)] => set (s3 := x) end.
  assert (F3 : v_last_consumed s3 = v_last_consumed s2 /\ v_rx s3 = v_rx s2 /\ v_inbox s3 = v_inbox s2 /\
               v_out s3 = v_out s2 /\ v_state s3 = v_state s2) by (subst s3; vsimpl; auto).
  assert (P3 : PI s3 K) by (destruct P2; subst s3; constructor; vsimpl; assumption).
  clearbody s3. destruct F3 as (F31 & F32 & F33 & F34 & F35).
  destruct (rx_add_remove _ _ _ _) as [[rx1 ar] w] eqn:Era.
  destruct ar as [r|]; [|exact I].
  rewrite <- F31 in Era, Hoff.
  assert (Hpl3 : m_payload m <> [] -> 0 <= ch_seq (m_hdr m) < M16 /\ In (ch_seq (m_hdr m)) Rd).
  { intro Hne. destruct (Hpl Hne) as (X1 & X2 & _). auto. }
  assert (Hcnt3 : m_payload m <> [] ->
                  K + (ooq_len (v_rx s3) - filled_front (v_rx s3)) + 1 + cntc (v_inbox s3)
                  <= Z.of_nat (length Rd + length Rf)).
  { intro Hne. rewrite F32, F33. destruct (Hpl Hne) as (_ & _ & X). exact X. }
  assert (Hrfin3 : is_remote_fin_or_later (v_state s3) = true -> In (v_last_consumed s3) Rf)
    by (rewrite F35, F31; exact Hrfin).
  destruct (add_err r) eqn:Eerr.
  { pose proof (PI_data s3 (add_wakes (set_rx s3 rx1) (rx_wakes w)) m K rx1 r w P3 Hcnt3 Ety Hpl3 Hrfin3 Hoff Era) as X.
    destruct X as (K' & HK' & P'); try (unfold add_wakes; vsimpl; reflexivity).
    { unfold add_wakes; vsimpl. destruct r; try reflexivity. discriminate. }
    cbn [stPO]. exists K'. split; [exact P'|]. unfold add_wakes; vsimpl. rewrite F34. eapply AckL_mono; eauto. }
  match goal with |- context [ooq_is_empty (v_rx ?x)] => set (s5 := x) end.
  assert (P5 : exists K', K <= K' /\ PI s5 K').
  { apply (PI_data s3 s5 m K rx1 r w P3 Hcnt3 Ety Hpl3 Hrfin3 Hoff Era);
      subst s5; destruct r; unfold add_wakes, restart_remote_inactivity_timer; vsimpl; try reflexivity. }
  assert (O5 : v_out s5 = v_out s2).
  { subst s5; destruct r; unfold add_wakes, restart_remote_inactivity_timer; vsimpl; exact F34. }
  clearbody s5. destruct P5 as (K' & HK' & P5).
  assert (PO5 : PO lo s5) by (exists K'; split; [exact P5|rewrite O5; eapply AckL_mono; eauto]).
  destruct (negb _ || negb _); [|exact PO5].
  assert (PO6 : PO lo (force_immediate_ack s5)).
  { destruct PO5 as (K5 & Q5 & A5). exists K5. unfold force_immediate_ack. split; [|vsimpl; exact A5].
    destruct Q5. constructor; vsimpl; assumption. }
  pose proof (send_ack_RX (force_immediate_ack s5)) as Hsa.
  destruct (send_ack _) as [s6 b6|s6 e6|]; cbn [sbind stR stPO] in *; [| |exact I]; eapply PO_RX; eauto.
Qed.

Lemma PO_pim_fin lo (s0 s2 : vsock) m res K :
  PI s0 K -> AckL lo K (v_out s0) ->
  v_last_consumed s2 = v_last_consumed s0 -> v_rx s2 = v_rx s0 -> v_inbox s2 = v_inbox s0 ->
  v_out s2 = v_out s0 ->
  is_remote_fin_or_later (v_state s2) = true ->
  In (ch_seq (m_hdr m)) Rf -> ch_seq (m_hdr m) = wadd16 (v_last_consumed s0) 1 ->
  K + (ooq_len (v_rx s0) - filled_front (v_rx s0)) + 1 + cntc (v_inbox s0) <= Z.of_nat (length Rd + length Rf) ->
  stPO lo (pim_fin s2 m res (seq_sub (ch_seq (m_hdr m)) (wadd16 (v_last_consumed s2) 1)) false).
Proof.
  intros P0 A0 F21 F22 F23 F24 Hrf HinRf Hseq Hcnt1. unfold pim_fin. cbv zeta.
  rewrite F21, <- Hseq, seq_sub_refl. cbn [negb andb Z.leb Z.compare].
  destruct (rx_add_remove _ _ _ _) as [[rx1 ar] w] eqn:Era.
  destruct ar as [r|]; [|exact I].
  assert (Era0 : rx_add_remove (v_rx s0) KFin (m_payload m) 0 = (rx1, UarOk r, w)).
  { rewrite <- Era. unfold force_immediate_ack. vsimpl. rewrite F22. reflexivity. }
  assert (Hfin : forall s5 : vsock, v_rx s5 = rx1 -> v_inbox s5 = v_inbox s0 -> v_state s5 = v_state s2 ->
                   v_last_consumed s5 = ch_seq (m_hdr m) -> v_out s5 = v_out s0 -> PO lo s5).
  { intros s5 E1 E2 E3 E4 E5. exists (K + 1). split.
    - apply (PI_finacc s0 s5 m K rx1 r w P0 Hcnt1 HinRf Hseq Era0 E1 E2); [rewrite E3; exact Hrf|exact E4].
    - rewrite E5. eapply AckL_mono; [exact A0|lia]. }
  destruct (add_err r).
  - cbn [stPO]. apply Hfin; unfold add_wakes, force_immediate_ack; vsimpl; auto.
  - destruct (mark_vsock_closed _) as [tx1 w2].
    cbn [stPO]. apply Hfin; unfold add_wakes, force_immediate_ack; vsimpl; auto.
Qed.

Lemma PO_msg lo (s : vsock) m rest : PO lo s -> v_inbox s = m :: rest ->
  match process_incoming_message cci (set_inbox s rest) m with
  | SOk s' _ | SErr s' _ => PO lo s'
  | SPanic => True
  end.
Proof.
  intros (K & P & A) Hin.
  assert (Hm : msg_carries m = true ->
               0 <= ch_seq (m_hdr m) < M16 /\
               (if msg_is_fin m then In (ch_seq (m_hdr m)) Rf else In (ch_seq (m_hdr m)) Rd)).
  { destruct P. apply pi_inbox0. rewrite Hin. left. reflexivity. }
  assert (Hcnt : K + (ooq_len (v_rx s) - filled_front (v_rx s)) + (if msg_carries m then 1 else 0) + cntc rest
                 <= Z.of_nat (length Rd + length Rf)).
  { destruct P. rewrite Hin in pi_count0. cbn [cntc] in pi_count0. lia. }
  assert (P0 : PI (set_inbox s rest) K).
  { destruct P. constructor; vsimpl; try assumption.
    - intros m' Hm'. apply pi_inbox0. rewrite Hin. right. exact Hm'.
    - destruct (msg_carries m); lia. }
  clear P. set (s0 := set_inbox s rest) in *.
  assert (A0 : AckL lo K (v_out s0)) by exact A.
  assert (Hcnt0 : K + (ooq_len (v_rx s0) - filled_front (v_rx s0)) + (if msg_carries m then 1 else 0) +
                  cntc (v_inbox s0) <= Z.of_nat (length Rd + length Rf)) by exact Hcnt.
  clearbody s0. clear A Hcnt Hin.
  change (stPO lo (process_incoming_message cci s0 m)).
  rewrite process_incoming_message_eq.
  pose proof (state_table_keep s0 (m_hdr m)) as Tk. cbv zeta in Tk. destruct Tk as (T1 & T2 & T3 & T4).
  pose proof (state_table_last_ack s0 (m_hdr m)) as Tl.
  (* a state reached without consuming anything *)
  assert (Hsame : forall s' : vsock, v_last_consumed s' = v_last_consumed s0 -> v_rx s' = v_rx s0 ->
            v_inbox s' = v_inbox s0 -> v_out s' = v_out s0 ->
            (is_remote_fin_or_later (v_state s') = false -> is_remote_fin_or_later (v_state s0) = false) ->
            (forall f r, v_state s' = LastAck f r -> In (v_last_consumed s0) Rf) -> PO lo s').
  { intros s' E1 E2 E3 E4 Hrf Hla. exists K. split; [|rewrite E4; exact A0].
    apply (PI_fin s0 s' K P0 E1); [rewrite E2; apply rxrel_refl|exact E3|exact Hrf|exact Hla]. }
  assert (Hrfm : forall s1, tbl_st (state_table s0 (m_hdr m)) = s1 ->
                 is_remote_fin_or_later (v_state s1) = false -> is_remote_fin_or_later (v_state s0) = false).
  { intros s1 E1 H1. destruct (is_remote_fin_or_later (v_state s0)) eqn:E0; [|reflexivity].
    pose proof (state_table_rf_mono s0 (m_hdr m) E0) as G. rewrite E1 in G. congruence. }
  destruct (state_table s0 (m_hdr m)) as [s1|s1 e|s1] eqn:Et; cbn [tbl_st] in *.
  - (* dropped *)
    cbn [stPO]. apply Hsame; auto; [apply Hrfm; reflexivity|].
    intros f r Hs. destruct (Tl f r Hs) as [H0|(_ & _ & s1' & Hc)]; [|discriminate].
    destruct P0. eapply pi_la0; eauto.
  - cbn [stPO]. apply Hsame; auto; [apply Hrfm; reflexivity|].
    intros f r Hs. destruct (Tl f r Hs) as [H0|(_ & _ & s1' & Hc)]; [|discriminate].
    destruct P0. eapply pi_la0; eauto.
  - (* continued *)
    unfold pim_cont. destruct (pim_ack cci s1 (m_hdr m)) as [[s2 res]|] eqn:Eack; [|exact I].
    destruct (pim_ack_keep _ _ _ _ Eack) as (G1 & G2 & Gi3 & G4 & G5).
    assert (F21 : v_last_consumed s2 = v_last_consumed s0) by congruence.
    assert (F22 : v_rx s2 = v_rx s0) by congruence.
    assert (F23 : v_inbox s2 = v_inbox s0) by congruence.
    assert (F24 : v_out s2 = v_out s0) by congruence.
    assert (Hla1 : ch_type (m_hdr m) <> ST_FIN -> forall f r, v_state s2 = LastAck f r -> In (v_last_consumed s0) Rf).
    { intros Hnf f r Hs. rewrite G5 in Hs. destruct (Tl f r Hs) as [H0|(Hf & _)]; [|contradiction].
      destruct P0. eapply pi_la0; eauto. }
    assert (Hrf2 : is_remote_fin_or_later (v_state s2) = false -> is_remote_fin_or_later (v_state s0) = false).
    { rewrite G5. apply Hrfm. reflexivity. }
    cbv zeta.
    destruct (ch_type (m_hdr m)) eqn:Ety.
    + (* ST_DATA *)
      assert (P2 : PI s2 K).
      { apply (PI_fin s0 s2 K P0 F21); [rewrite F22; apply rxrel_refl|exact F23|exact Hrf2|apply Hla1; discriminate]. }
      apply (PO_pim_data lo s2 m res K P2); [rewrite F24; exact A0|exact Ety| |].
      * intro Hne.
        assert (Hc : msg_carries m = true).
        { unfold msg_carries, carries_seq. rewrite Ety. destruct (m_payload m); [contradiction|reflexivity]. }
        specialize (Hm Hc). unfold msg_is_fin in Hm. rewrite Ety in Hm. cbn [ptype_eqb] in Hm.
        destruct Hm as [X1 X2]. split; [exact X1|]. split; [exact X2|].
        rewrite F22, F23. rewrite Hc in Hcnt0. lia.
      * rewrite F21, G5. intro H1.
        assert (H0 : is_remote_fin_or_later (v_state s0) = true).
        { destruct (is_remote_fin_or_later (v_state s0)) eqn:E0; [reflexivity|].
          rewrite (state_table_data_rf s0 s1 (m_hdr m) Ety Et E0) in H1. discriminate. }
        pose proof (state_table_continue_not_closed _ _ _ Et) as Hnc.
        destruct (v_state s0) eqn:Es0; try discriminate; [|contradiction].
        destruct P0. eapply pi_la0; eauto.
    + (* ST_FIN *)
      destruct (is_remote_fin_or_later (v_state s0)) eqn:Erf0.
      { (* the peer's FIN again: only an ACK is forced *)
        unfold pim_fin. cbn [negb andb stPO]. unfold force_immediate_ack. apply Hsame; vsimpl; auto.
        intros f r Hs. rewrite G5 in Hs. destruct (Tl f r Hs) as [H0|(_ & Hn & _)]; [|congruence].
        destruct P0. eapply pi_la0; eauto. }
      destruct (state_table_fin s0 s1 (m_hdr m) Ety Et Erf0) as [Hseq Hrf1'].
      assert (Hc1 : msg_carries m = true) by (unfold msg_carries, carries_seq; rewrite Ety; reflexivity).
      specialize (Hm Hc1). unfold msg_is_fin in Hm. rewrite Ety in Hm. cbn [ptype_eqb] in Hm.
      rewrite Hc1 in Hcnt0.
      apply (PO_pim_fin lo s0 s2 m res K P0 A0 F21 F22 F23 F24); [rewrite G5; exact Hrf1'|apply Hm|exact Hseq|lia].
    + cbn [stPO]. apply Hsame; auto. apply Hla1; discriminate.
    + cbn [stPO]. apply Hsame; auto. apply Hla1; discriminate.
    + cbn [stPO]. apply Hsame; auto. apply Hla1; discriminate.
Qed.

End Poll.
(* ------------------------------------------------------------------ the datagrams of one poll *)
Lemma contiguous_ok recv b n :
  (forall i, 1 <= i <= Z.of_nat n -> In (wadd16 b i) recv) -> contiguous recv b n = true.
Proof.
  induction n as [|n IH]; intro H; [reflexivity|]. cbn [contiguous]. apply andb_true_iff. split.
  - apply existsb_exists. exists (wadd16 b (Z.of_nat (S n))). split; [apply H; lia|apply Z.eqb_refl].
  - apply IH. intros i Hi. apply H. lia.
Qed.

Lemma ack_scan_app l1 l2 recv b last :
  ack_scan (l1 ++ l2) recv b last =
  match ack_scan l1 recv b last with Some l' => ack_scan l2 recv b l' | None => None end.
Proof.
  revert last. induction l1 as [|p r IH]; intro last; [reflexivity|]. cbn [app ack_scan].
  destruct (pkt_acks p); [|apply IH].
  destruct (ack_honest recv b (ch_ack (fq_hdr p)) && (0 <=? seq_sub (ch_ack (fq_hdr p)) last)); [apply IH|reflexivity].
Qed.

Lemma ack_scan_AckL b recv : 0 <= b < M16 ->
  forall out lo hi, AckL b lo hi out -> 0 <= lo -> hi <= WRAP_TOLERANCE ->
  (forall i, 1 <= i <= hi -> In (wadd16 b i) recv) ->
  exists Kn, ack_scan (map fpacket_of (rev out)) recv b (wadd16 b lo) = Some (wadd16 b Kn) /\ lo <= Kn <= hi.
Proof.
  intros Hb. induction out as [|p older IH]; intros lo hi A Hlo Hhi Hc; cbn [AckL] in A.
  - exists lo. split; [reflexivity|lia].
  - destruct A as (Kp & Ha & Ht & Hle & A').
    destruct (IH lo Kp A' Hlo ltac:(lia) ltac:(intros i Hi; apply Hc; lia)) as (K1 & E1 & HK1).
    cbn [rev]. rewrite map_app, ack_scan_app, E1. cbn [map ack_scan].
    assert (Hpa : pkt_acks (fpacket_of p) = true).
    { unfold pkt_acks. cbn [fpacket_of fq_hdr]. destruct (ch_type (p_hdr p)); try reflexivity. contradiction. }
    rewrite Hpa. cbn [fpacket_of fq_hdr]. rewrite Ha.
    assert (Hh : ack_honest recv b (wadd16 b Kp) = true).
    { unfold ack_honest. rewrite (seq_sub_base b Kp Hb) by lia.
      destruct (Z.ltb_spec Kp 0); [lia|]. destruct (Kp <=? 1000); [|reflexivity].
      apply contiguous_ok. intros i Hi. apply Hc. lia. }
    rewrite Hh. rewrite seq_sub_small by lia.
    destruct (Z.leb_spec 0 (Kp - K1)); [|lia]. cbn [andb]. exists Kp. split; [reflexivity|lia].
Qed.

(* ------------------------------------------------------------------ the trace invariant *)
Definition TI (b : Z) (recv Rd Rf : list Z) (last : Z) (s : vsock) : Prop :=
  0 <= b < M16 /\
  (forall d f, In d Rd -> In f Rf -> c04_pos b d < c04_pos b f) /\
  Z.of_nat (length Rd + length Rf) <= WRAP_TOLERANCE /\
  (forall x, In x Rd \/ In x Rf -> In x recv) /\
  exists K Kl, PI b Rd Rf s K /\ last = wadd16 b Kl /\ 0 <= Kl <= K.

(* fields the invariant reads *)
Lemma PI_fields b Rd Rf (s s' : vsock) K :
  PI b Rd Rf s K -> v_last_consumed s' = v_last_consumed s -> v_rx s' = v_rx s -> v_inbox s' = v_inbox s ->
  v_state s' = v_state s -> PI b Rd Rf s' K.
Proof.
  intros P E1 E2 E3 E4. destruct P. constructor; rewrite ?E1, ?E2, ?E3, ?E4; assumption.
Qed.

Lemma PI_rx_ooq b Rd Rf (s s' : vsock) K :
  PI b Rd Rf s K -> v_last_consumed s' = v_last_consumed s -> v_inbox s' = v_inbox s -> v_state s' = v_state s ->
  rx_inv (v_rx s') -> ooq_data (v_rx s') = ooq_data (v_rx s) -> filled_front (v_rx s') = filled_front (v_rx s) ->
  ooq_len (v_rx s') = ooq_len (v_rx s) -> g_base (v_rx s') = g_base (v_rx s) -> PI b Rd Rf s' K.
Proof.
  intros P E1 E3 E4 Hinv D1 D2 D3 D4. destruct P. constructor; rewrite ?E1, ?E3, ?E4; try assumption.
  - intro Hn. destruct (pi_slots0 Hn) as [C S]. unfold consumed in *. rewrite D1, D2, D4. auto.
  - rewrite D2, D3. assumption.
Qed.

Lemma c04_poll_step b recv Rd Rf last (s : vsock) sc s' r :
  TI b recv Rd Rf last s -> poll cci (VSockRec.set_sends s sc) = (s', r) ->
  exists last', ack_scan (map fpacket_of (rev (v_out s'))) recv b last = Some last' /\
                TI b recv Rd Rf last' s'.
Proof.
  intros (Hb & G3 & Htol & Hrecv & K & Kl & P & -> & HKl) E.
  assert (H0 : PO b Rd Rf Kl (poll_init (VSockRec.set_sends s sc))).
  { exists K. split; [|cbn [AckL v_out poll_init]; unfold poll_init; vsimpl; cbn [AckL]; lia].
    eapply PI_fields; [exact P|reflexivity..]. }
  pose proof (poll_Inv cci (PO b Rd Rf Kl) (PO_RX b Rd Rf G3 Htol Kl) (PO_msg b Rd Rf Hb G3 Htol Kl) (PO_closed b Rd Rf Kl)
                _ _ _ E H0) as (K' & P' & A').
  pose proof (PI_K_tol b Rd Rf G3 Htol _ _ P') as HK'.
  destruct (ack_scan_AckL b recv Hb (v_out s') Kl K' A' ltac:(lia) ltac:(lia)) as (Kn & En & HKn).
  { intros i Hi. apply Hrecv. destruct P'. apply pi_contig0. exact Hi. }
  exists (wadd16 b Kn). split; [exact En|].
  split; [exact Hb|]. split; [exact G3|]. split; [exact Htol|]. split; [exact Hrecv|].
  exists K', Kn. split; [exact P'|]. split; [reflexivity|lia].
Qed.

(* a delivery: the lists grow as the guard reads them *)
Lemma TI_deliver b recv Rd Rf last (s : vsock) m :
  TI b recv Rd Rf last s ->
  let h := m_hdr m in
  let plen := Z.of_nat (length (m_payload m)) in
  (if carries_seq h plen then
     u16_ok (ch_seq h) && (Z.of_nat (length Rd + length Rf) <? WRAP_TOLERANCE) &&
     (if ptype_eqb (ch_type h) ST_FIN
      then forallb (fun d => c04_pos b d <? c04_pos b (ch_seq h)) Rd
      else forallb (fun f => c04_pos b (ch_seq h) <? c04_pos b f) Rf)
   else true) = true ->
  TI b (if carries_seq h plen then ch_seq h :: recv else recv)
       (if carries_seq h plen then (if ptype_eqb (ch_type h) ST_FIN then Rd else ch_seq h :: Rd) else Rd)
       (if carries_seq h plen then (if ptype_eqb (ch_type h) ST_FIN then ch_seq h :: Rf else Rf) else Rf)
       last (vstep_state cci s (VoDeliver m)).
Proof.
  intros (Hb & G3 & Htol & Hrecv & K & Kl & P & Hl & HKl) h plen Hg.
  set (s' := vstep_state cci s (VoDeliver m)).
  assert (Hs' : v_last_consumed s' = v_last_consumed s /\ v_rx s' = v_rx s /\ v_state s' = v_state s /\
                (v_inbox s' = v_inbox s \/ v_inbox s' = v_inbox s ++ [m])).
  { unfold s', vstep_state. cbn [vstep]. destruct (v_inbox_closed s); cbn [fst]; vsimpl; auto. }
  destruct Hs' as (S1 & S2 & S3 & S4).
  assert (Hcm : msg_carries m = carries_seq h plen) by reflexivity.
  destruct (carries_seq h plen) eqn:Ec.
  - apply andb_true_iff in Hg. destruct Hg as [Hg Hg3]. apply andb_true_iff in Hg. destruct Hg as [Hu Hlen].
    unfold u16_ok in Hu. apply andb_true_iff in Hu. destruct Hu as [Hu1 Hu2].
    apply Z.leb_le in Hu1. apply Z.ltb_lt in Hu2, Hlen.
    set (Rd' := if ptype_eqb (ch_type h) ST_FIN then Rd else ch_seq h :: Rd).
    set (Rf' := if ptype_eqb (ch_type h) ST_FIN then ch_seq h :: Rf else Rf).
    assert (Hid : incl Rd Rd') by (unfold Rd'; destruct (ptype_eqb _ _); [apply incl_refl|apply incl_tl, incl_refl]).
    assert (Hif : incl Rf Rf') by (unfold Rf'; destruct (ptype_eqb _ _); [apply incl_tl, incl_refl|apply incl_refl]).
    assert (Hlen' : Z.of_nat (length Rd' + length Rf') = Z.of_nat (length Rd + length Rf) + 1).
    { unfold Rd', Rf'. destruct (ptype_eqb _ _); cbn [length]; lia. }
    assert (Hnew : if msg_is_fin m then In (ch_seq h) Rf' else In (ch_seq h) Rd').
    { unfold msg_is_fin, Rd', Rf'. fold h. destruct (ptype_eqb _ _); left; reflexivity. }
    split; [exact Hb|]. split.
    { intros d f Hd Hf. unfold Rd', Rf' in Hd, Hf. destruct (ptype_eqb (ch_type h) ST_FIN).
      - destruct Hf as [<-|Hf]; [|apply G3; assumption].
        rewrite forallb_forall in Hg3. specialize (Hg3 d Hd). apply Z.ltb_lt in Hg3. exact Hg3.
      - destruct Hd as [<-|Hd]; [|apply G3; assumption].
        rewrite forallb_forall in Hg3. specialize (Hg3 f Hf). apply Z.ltb_lt in Hg3. exact Hg3. }
    split; [unfold WRAP_TOLERANCE in *; lia|]. split.
    { intros x [Hx|Hx]; unfold Rd', Rf' in Hx; destruct (ptype_eqb (ch_type h) ST_FIN);
        try (destruct Hx as [<-|Hx]; [left; reflexivity|]); right; apply Hrecv; auto. }
    exists K, Kl. split; [|split; assumption]. destruct P. constructor; rewrite ?S1, ?S2, ?S3; try assumption.
    + intros i Hi. destruct (pi_contig0 i Hi); [left; apply Hid|right; apply Hif]; assumption.
    + intro Hn. destruct (pi_slots0 Hn) as [C S]. split; [exact C|]. eapply slots_rcv_mono; [exact S|exact Hid|lia].
    + intros f r Hs. apply Hif. eapply pi_la0; eauto.
    + intros m' Hm' Hc'.
      assert (Hold : In m' (v_inbox s) -> 0 <= ch_seq (m_hdr m') < M16 /\
                     (if msg_is_fin m' then In (ch_seq (m_hdr m')) Rf' else In (ch_seq (m_hdr m')) Rd')).
      { intro Hi. destruct (pi_inbox0 m' Hi Hc') as [X1 X2]. split; [exact X1|].
        destruct (msg_is_fin m'); [apply Hif|apply Hid]; exact X2. }
      destruct S4 as [S4|S4]; rewrite S4 in Hm'; [apply Hold; exact Hm'|].
      apply in_app_or in Hm'. destruct Hm' as [Hm'|[<-|[]]]; [apply Hold; exact Hm'|].
      split; [fold h; lia|exact Hnew].
    + rewrite Hlen'. destruct S4 as [S4|S4]; rewrite S4; [lia|]. rewrite cntc_app. cbn [cntc]. rewrite Hcm. lia.
  - split; [exact Hb|]. split; [exact G3|]. split; [exact Htol|]. split; [exact Hrecv|].
    exists K, Kl. split; [|split; assumption]. destruct P. constructor; rewrite ?S1, ?S2, ?S3; try assumption.
    + intros m' Hm' Hc'. destruct S4 as [S4|S4]; rewrite S4 in Hm'; [apply pi_inbox0; assumption|].
      apply in_app_or in Hm'. destruct Hm' as [Hm'|[<-|[]]]; [apply pi_inbox0; assumption|].
      rewrite Hcm in Hc'. discriminate.
    + destruct S4 as [S4|S4]; rewrite S4; [lia|]. rewrite cntc_app. cbn [cntc]. rewrite Hcm. lia.
Qed.

(* the events of the application, the clock and the path limit *)
Lemma TI_other b recv Rd Rf last (s : vsock) o :
  match o with VoPoll _ | VoDeliver _ => False | _ => True end ->
  TI b recv Rd Rf last s -> TI b recv Rd Rf last (vstep_state cci s o).
Proof.
  intros Ho (Hb & G3 & Htol & Hrecv & K & Kl & P & Hl & HKl).
  split; [exact Hb|]. split; [exact G3|]. split; [exact Htol|]. split; [exact Hrecv|].
  exists K, Kl. split; [|split; assumption].
  unfold vstep_state. destruct o; try contradiction; cbn [vstep].
  - eapply PI_fields; [exact P|reflexivity..].
  - eapply PI_fields; [exact P|reflexivity..].
  - eapply PI_fields; [exact P|reflexivity..].
  - destruct (writer_dropped _); [exact P|]. destruct (poll_write _ _) as [[tx1 r] w].
    eapply PI_fields; [exact P|reflexivity..].
  - destruct (writer_dropped _); [exact P|]. destruct (poll_flush _) as [[tx1 r] w].
    eapply PI_fields; [exact P|reflexivity..].
  - destruct (writer_dropped _); [exact P|]. destruct (poll_shutdown _) as [[tx1 r] w].
    eapply PI_fields; [exact P|reflexivity..].
  - destruct (reader_dropped _); [exact P|]. destruct (rx_read _ _) as [[rx1 r] w] eqn:Er.
    cbn [fst]. assert (Hinv : rx_inv (v_rx s)) by (destruct P; assumption).
    destruct (rx_read_ooq _ _ _ _ _ Hinv Er) as (I1 & D1 & D2 & D3 & D4).
    eapply PI_rx_ooq; [exact P|reflexivity..|exact I1|exact D1|exact D2|exact D3|exact D4].
  - destruct (reader_dropped _); [exact P|]. destruct (rx_drop_reader _) as [rx1 w] eqn:Er.
    cbn [fst]. unfold rx_drop_reader in Er. injection Er as <- _.
    assert (Hinv : rx_inv (v_rx s)) by (destruct P; assumption).
    eapply PI_rx_ooq; [exact P|reflexivity..| |reflexivity|reflexivity|reflexivity|reflexivity].
    vsimpl. unfold rx_inv in *. cbn [set_flags ooq_data ooq_capacity filled_front ooq_len ooq_len_bytes q q_len_bytes
      q_capacity last_remaining_rx_window g_base]. exact Hinv.
  - destruct (drop_writer _) as [tx1 w]. eapply PI_fields; [exact P|reflexivity..].
Qed.

(* ------------------------------------------------------------------ the walk *)
Lemma ack_trace_other st r recv b last :
  (forall h n, fs_event st <> FeDeliver h n) -> (forall sc, fs_event st <> FePoll sc) ->
  c04_ack_trace (st :: r) recv b last = c04_ack_trace r recv b last.
Proof.
  intros N1 N2. cbn [c04_ack_trace]. destruct (fs_event st); try reflexivity;
    [exfalso; eapply N2; reflexivity|exfalso; eapply N1; reflexivity].
Qed.

Lemma guard_scan_other st r b rd rf :
  (forall h n, fs_event st <> FeDeliver h n) ->
  c04_guard_scan (st :: r) b rd rf = c04_guard_scan r b rd rf.
Proof.
  intros N1. cbn [c04_guard_scan]. destruct (fs_event st); try reflexivity. exfalso; eapply N1; reflexivity.
Qed.

Lemma ack_trace_poll st r recv b last sc res pk w a :
  fs_event st = FePoll sc -> fs_result st = FrPoll res pk w a ->
  c04_ack_trace (st :: r) recv b last =
  match ack_scan pk recv b last with Some last' => c04_ack_trace r recv b last' | None => false end.
Proof. intros E1 E2. cbn [c04_ack_trace]. rewrite E1, E2. reflexivity. Qed.

Lemma ack_trace_deliver st r recv b last h n :
  fs_event st = FeDeliver h n ->
  c04_ack_trace (st :: r) recv b last =
  c04_ack_trace r (if carries_seq h n then ch_seq h :: recv else recv) b last.
Proof. intros E1. cbn [c04_ack_trace]. rewrite E1. reflexivity. Qed.

Lemma guard_scan_deliver st r b rd rf h n :
  fs_event st = FeDeliver h n ->
  c04_guard_scan (st :: r) b rd rf =
  if carries_seq h n then
    u16_ok (ch_seq h) && (Z.of_nat (length rd + length rf) <? WRAP_TOLERANCE) &&
    (if ptype_eqb (ch_type h) ST_FIN
     then forallb (fun d => c04_pos b d <? c04_pos b (ch_seq h)) rd && c04_guard_scan r b rd (ch_seq h :: rf)
     else forallb (fun f => c04_pos b (ch_seq h) <? c04_pos b f) rf && c04_guard_scan r b (ch_seq h :: rd) rf)
  else c04_guard_scan r b rd rf.
Proof. intros E1. cbn [c04_guard_scan]. rewrite E1. reflexivity. Qed.

Lemma vstep_event_other (s : vsock) o :
  match o with VoPoll _ | VoDeliver _ => False | _ => True end ->
  (forall h n, fs_event (fstep_of cci s o) <> FeDeliver h n) /\
  (forall sc, fs_event (fstep_of cci s o) <> FePoll sc) /\
  poll_finished (snd (fst (fst (vstep cci s o)))) = false.
Proof.
  intro Ho. rewrite fstep_of_event. pose proof (vstep_other cci s o) as V.
  destruct o; try contradiction; cbn [fevent_of];
    (split; [discriminate|split; [discriminate|]]); try (apply V); reflexivity.
Qed.

Theorem c04_walk : forall ops (s : vsock) b recv Rd Rf last,
  TI b recv Rd Rf last s ->
  c04_guard_scan (ftrace cci s ops) b Rd Rf = true ->
  c04_ack_trace (ftrace cci s ops) recv b last = true.
Proof.
  induction ops as [|o ops IH]; intros s b recv Rd Rf last Hi Hg; [reflexivity|].
  rewrite ftrace_cons in Hg |- *.
  assert (Hcase : (exists sc, o = VoPoll sc) \/ (exists m, o = VoDeliver m) \/
                  match o with VoPoll _ | VoDeliver _ => False | _ => True end)
    by (destruct o; eauto).
  destruct Hcase as [[sc ->]|[[m ->]|Ho]].
  - (* poll *)
    destruct (poll cci (VSockRec.set_sends s sc)) as [s' r] eqn:E.
    destruct (c04_poll_step b recv Rd Rf last s sc s' r Hi E) as (last' & Es & Hi').
    assert (Hf : snd (fst (fst (vstep cci s (VoPoll sc)))) = VrPoll r (rev (v_out s')) (rev (v_wakes s')) (v_arm_in s')).
    { cbn [vstep]. rewrite E. reflexivity. }
    assert (Hs : vstep_state cci s (VoPoll sc) = s').
    { unfold vstep_state. cbn [vstep]. rewrite E. reflexivity. }
    rewrite Hf, Hs in Hg |- *.
    rewrite (ack_trace_poll _ _ recv b last sc r (map fpacket_of (rev (v_out s'))) (rev (v_wakes s')) (v_arm_in s'));
      [|rewrite (fstep_of_poll cci s sc s' r E); reflexivity..].
    rewrite guard_scan_other in Hg by (rewrite (fstep_of_poll cci s sc s' r E); discriminate).
    rewrite Es. unfold poll_finished in Hg |- *. destruct r; try reflexivity.
    eapply IH; eauto.
  - (* deliver *)
    assert (Hf : poll_finished (snd (fst (fst (vstep cci s (VoDeliver m))))) = false).
    { cbn [vstep]. destruct (v_inbox_closed s); reflexivity. }
    rewrite Hf in Hg |- *.
    assert (Ev : fs_event (fstep_of cci s (VoDeliver m)) = FeDeliver (m_hdr m) (Z.of_nat (length (m_payload m))))
      by (rewrite fstep_of_event; reflexivity).
    rewrite (ack_trace_deliver _ _ _ _ _ _ _ Ev). rewrite (guard_scan_deliver _ _ _ _ _ _ _ Ev) in Hg.
    pose proof (TI_deliver b recv Rd Rf last s m Hi) as Hd. cbv zeta in Hd.
    destruct (carries_seq (m_hdr m) (Z.of_nat (length (m_payload m)))) eqn:Ec.
    + apply andb_true_iff in Hg. destruct Hg as [Hg1 Hg2].
      destruct (ptype_eqb (ch_type (m_hdr m)) ST_FIN) eqn:Ef.
      * apply andb_true_iff in Hg2. destruct Hg2 as [Hg2 Hg3].
        eapply IH; [apply Hd; rewrite Hg1, Hg2; reflexivity|exact Hg3].
      * apply andb_true_iff in Hg2. destruct Hg2 as [Hg2 Hg3].
        eapply IH; [apply Hd; rewrite Hg1, Hg2; reflexivity|exact Hg3].
    + eapply IH; [apply Hd; reflexivity|exact Hg].
  - (* the application, the clock, the path limit, the channel *)
    destruct (vstep_event_other s o Ho) as (N1 & N2 & N3).
    rewrite N3 in Hg |- *. rewrite (ack_trace_other _ _ _ _ _ N1 N2). rewrite (guard_scan_other _ _ _ _ _ N1) in Hg.
    eapply IH; [apply TI_other; eassumption|exact Hg].
Qed.

(* ------------------------------------------------------------------ from vsock_new *)
Lemma vsock_new_TI mk c (s0 : vsock) :
  C10_Pred.vconfig_ok c = true -> vsock_new cci mk c = Some s0 ->
  TI (v_last_consumed s0) [] [] [] (v_last_consumed s0) s0.
Proof.
  intros Hc Hn.
  assert (Hcfg : 0 <= vc_remote_seq c < M16 /\ 1 <= vc_rx_buf c).
  { unfold C10_Pred.vconfig_ok in Hc. repeat (apply andb_true_iff in Hc; destruct Hc as [Hc ?]).
    repeat match goal with H : (_ <=? _) = true |- _ => apply Z.leb_le in H
                         | H : (_ <? _) = true |- _ => apply Z.ltb_lt in H end. lia. }
  destruct Hcfg as [Hrs Hrb].
  revert Hn. unfold vsock_new.
  destruct (match (if vc_incoming c then None else _) with Some r => _ | None => _ end); [|discriminate].
  intro H; injection H as <-. cbn [v_last_consumed].
  set (b := if vc_incoming c then vc_remote_seq c else wsub16 (vc_remote_seq c) 1).
  assert (Hb : 0 <= b < M16) by (unfold b; destruct (vc_incoming c); [exact Hrs|unfold wsub16, M16; lia]).
  split; [exact Hb|]. split; [intros d f []|]. split; [cbn; unfold WRAP_TOLERANCE; lia|].
  split; [intros x [[]|[]]|].
  exists 0, 0. split; [|split; [rewrite wadd16_0; [reflexivity|exact Hb]|lia]].
  constructor; cbn [v_last_consumed v_rx v_state v_inbox].
  - lia.
  - fold b. rewrite wadd16_0; [reflexivity|exact Hb].
  - intros i Hi. lia.
  - apply build_inv; [|lia].
    change (0 < mss (ss_new {| cfg_ipv4 := vc_ipv4 c; cfg_link_mtu := vc_link_mtu c; cfg_cooldown := 3 |})).
    apply Z.lt_le_trans with 1; [lia|apply mss_ss_new_pos].
  - intros _. split; [reflexivity|]. intros i sl Hnth Hd _. exfalso.
    unfold rx_build in Hnth. cbn [ooq_data] in Hnth. apply Rx_Slots.nth_error_repeat in Hnth. subst sl. discriminate.
  - intros f r0 Hs. destruct (vc_incoming c); discriminate.
  - intros m [].
  - unfold rx_build. cbn [ooq_len filled_front cntc length]. lia.
Qed.

Theorem c04_vsock_ack_guarded_trace : forall mk c cfg (s0 : vsock) ops,
  C10_Pred.vconfig_ok c = true -> vsock_new cci mk c = Some s0 ->
  c04_vsock_ack_guarded cfg (ftrace cci s0 ops) = true.
Proof.
  intros mk c cfg s0 ops Hc Hn. unfold c04_vsock_ack_guarded.
  destruct (c04_peer_ok cfg (ftrace cci s0 ops)) eqn:Hg; [|reflexivity].
  unfold c04_peer_ok, c04_vsock_ack_ok in *.
  destruct ops as [|o ops]; [reflexivity|].
  rewrite ftrace_cons in Hg |- *. rewrite fstep_of_pre in Hg |- *.
  cbn [fp_of_vsock f_last_consumed] in Hg |- *.
  rewrite <- ftrace_cons in Hg |- *.
  apply (c04_walk (o :: ops) s0 (v_last_consumed s0) [] [] [] (v_last_consumed s0)); [|exact Hg].
  eapply vsock_new_TI; eauto.
Qed.

End WithCC.

(* ------------------------------------------------------------------ the guard, in its two parts *)
Lemma guard_split : forall tr b rd rf,
  c04_guard_scan tr b rd rf =
  c04_tol_scan tr (Z.of_nat (length rd + length rf)) && c04_order_scan tr b rd rf.
Proof.
  induction tr as [|st r IH]; intros b rd rf; [reflexivity|].
  cbn [c04_guard_scan c04_tol_scan c04_order_scan].
  destruct (fs_event st); try apply IH.
  destruct (carries_seq h plen); [|apply IH].
  rewrite !IH. cbn [length].
  replace (Z.of_nat (length rd + S (length rf))) with (Z.of_nat (length rd + length rf) + 1) by lia.
  replace (Z.of_nat (S (length rd) + length rf)) with (Z.of_nat (length rd + length rf) + 1) by lia.
  generalize (forallb (fun d => c04_pos b d <? c04_pos b (ch_seq h)) rd).
  generalize (forallb (fun f => c04_pos b (ch_seq h) <? c04_pos b f) rf).
  generalize (c04_order_scan r b rd (ch_seq h :: rf)). generalize (c04_order_scan r b (ch_seq h :: rd) rf).
  generalize (c04_tol_scan r (Z.of_nat (length rd + length rf) + 1)).
  generalize (u16_ok (ch_seq h)). generalize (Z.of_nat (length rd + length rf) <? WRAP_TOLERANCE).
  generalize (ptype_eqb (ch_type h) ST_FIN).
  intros [] [] [] [] [] [] [] []; reflexivity.
Qed.

Lemma peer_ok_split cfg tr : c04_peer_ok cfg tr = c04_tol_ok cfg tr && negb (c04_d22_class cfg tr).
Proof.
  unfold c04_peer_ok, c04_tol_ok, c04_d22_class. destruct tr as [|st r]; [reflexivity|].
  rewrite guard_split. cbn [length Nat.add Z.of_nat]. rewrite negb_involutive. reflexivity.
Qed.

Section Or22.
Context {CC : Type} (cci : cc_iface CC).

Theorem c04_vsock_ack_or_d22_trace : forall mk c cfg (s0 : vsock CC) ops,
  C10_Pred.vconfig_ok c = true -> vsock_new cci mk c = Some s0 ->
  c04_vsock_ack_or_d22 cfg (ftrace cci s0 ops) = true.
Proof.
  intros mk c cfg s0 ops Hc Hn. unfold c04_vsock_ack_or_d22.
  destruct (c04_tol_ok cfg (ftrace cci s0 ops)) eqn:Ht; [|reflexivity].
  destruct (c04_d22_class cfg (ftrace cci s0 ops)) eqn:Hd; [apply orb_true_r|].
  rewrite orb_false_r.
  pose proof (c04_vsock_ack_guarded_trace cci mk c cfg s0 ops Hc Hn) as G. unfold c04_vsock_ack_guarded in G.
  rewrite peer_ok_split, Ht, Hd in G. exact G.
Qed.
End Or22.

(* ================================================================== witnesses *)
Definition c04_cfg (rseq : Z) : vconfig :=
  {| vc_incoming := false; vc_ipv4 := true; vc_link_mtu := 1500; vc_rx_buf := 1048576;
     vc_tx_init := 32768; vc_tx_max := 1048576; vc_nagle := true; vc_max_retx := 5;
     vc_inactivity := 10000000000; vc_wait_last_ack := true; vc_mtu_probe_max_retx := 1;
     vc_isn := 100; vc_remote_seq := rseq; vc_remote_conn_id := 7; vc_remote_wnd := 1048576;
     vc_remote_ts := 0; vc_syn_sent := 1000000000; vc_now0 := 1000000000 |}.

Definition c04_msg (t : ptype) (seq ack : Z) (pl : list Z) : msg :=
  {| m_hdr := {| ch_type := t; ch_conn_id := 0; ch_ts := 6; ch_ts_diff := 0; ch_wnd := 1048576;
                 ch_seq := seq; ch_ack := ack; ch_sack := None; ch_close_reason := None |};
     m_payload := pl |}.

Definition c04_run (cfg : vconfig) (ops : list vop) : list fstep :=
  match vsock_new (fixed_cc 4096) (fun _ _ => tt) cfg with
  | Some s0 => ftrace (fixed_cc 4096) s0 ops
  | None => []
  end.

(* (2) a peer that sends ST_DATA above its own FIN: 2 and 4 arrive out of order, then the FIN numbered 1 (it
   consumes slot 0 and the slot of 2 behind it, last_consumed = 1); an ST_DATA numbered 2 again, acknowledging our
   FIN, is accepted on the LastAck -> Closed transition, lands in the empty slot where 3 would be and is counted
   together with the slot of 4: the endpoint acknowledges 3, which never arrived.  The real code does the same. *)
Definition c04_after_fin_ops : list vop :=
  [VoDeliver (c04_msg ST_DATA 2 100 [5; 5]); VoDeliver (c04_msg ST_DATA 4 100 [6; 6]);
   VoDeliver (c04_msg ST_FIN 1 100 []); VoPoll [];
   VoDeliver (c04_msg ST_DATA 2 101 [7; 7]); VoPoll []].

Definition c04_after_fin_b : bool :=
  let cfg := c04_cfg 1 in
  let tr := c04_run cfg c04_after_fin_ops in
  negb (c04_vsock_ack_ok cfg tr) && C10_Pred.vconfig_ok cfg &&
  negb (c04_peer_ok cfg tr) && c04_vsock_ack_guarded cfg tr &&
  c04_tol_ok cfg tr && c04_d22_class cfg tr &&
  match rev tr with
  | st :: _ => match fs_result st with
               | FrPoll PollReadyOk [p] _ _ => (ch_ack (fq_hdr p) =? 3) && (f_last_consumed (fs_post st) =? 3)
               | _ => false
               end
  | [] => false
  end.

Theorem c04_after_fin_shape : c04_after_fin_b = true.
Proof. vm_compute. reflexivity. Qed.

Theorem c04_vsock_ack_ok_refuted_after_fin :
  exists cfg ops s0,
    C10_Pred.vconfig_ok cfg = true /\
    vsock_new (fixed_cc 4096) (fun _ _ => tt) cfg = Some s0 /\
    c04_vsock_ack_ok cfg (ftrace (fixed_cc 4096) s0 ops) = false.
Proof.
  exists (c04_cfg 1), c04_after_fin_ops.
  destruct (vsock_new (fixed_cc 4096) (fun _ _ => tt) (c04_cfg 1)) as [s0|] eqn:E; [|vm_compute in E; discriminate].
  exists s0. split; [reflexivity|]. split; [reflexivity|].
  pose proof c04_after_fin_shape as H. unfold c04_after_fin_b, c04_run in H. cbv zeta in H. rewrite E in H.
  repeat (apply andb_true_iff in H; destruct H as [H _]).
  apply negb_true_iff in H. exact H.
Qed.

(* (1) beyond the tolerance: the connection starts at 65534; 1025 two-byte ST_DATA numbered 65535, 0, 1, ... are
   delivered and one poll consumes them all: the acknowledgement 1023 lies 1025 above the base across the wrap,
   seq_sub reads the distance as negative and the predicate fails although every number was delivered *)
Fixpoint c04_delivs (n : nat) (seq : Z) : list vop :=
  match n with O => [] | S n' => VoDeliver (c04_msg ST_DATA seq 100 [7; 7]) :: c04_delivs n' (wadd16 seq 1) end.

Definition c04_wrap_b : bool :=
  let cfg := c04_cfg 65535 in
  let tr := c04_run cfg (c04_delivs 1025 65535 ++ [VoPoll []]) in
  negb (c04_vsock_ack_ok cfg tr) && C10_Pred.vconfig_ok cfg &&
  negb (c04_peer_ok cfg tr) &&
  match rev tr with
  | st :: _ => match fs_result st with
               | FrPoll PollPending [p] _ _ => ch_ack (fq_hdr p) =? 1023
               | _ => false
               end
  | [] => false
  end &&
  (* one delivery less: inside the tolerance, the guard holds and so does the predicate *)
  (let tr' := c04_run cfg (c04_delivs 1024 65535 ++ [VoPoll []]) in
   c04_peer_ok cfg tr' && c04_vsock_ack_ok cfg tr').

Theorem c04_wrap_shape : c04_wrap_b = true.
Proof. vm_compute. reflexivity. Qed.

Theorem c04_vsock_ack_ok_refuted_wrap :
  exists cfg ops s0,
    C10_Pred.vconfig_ok cfg = true /\
    vsock_new (fixed_cc 4096) (fun _ _ => tt) cfg = Some s0 /\
    c04_vsock_ack_ok cfg (ftrace (fixed_cc 4096) s0 ops) = false.
Proof.
  exists (c04_cfg 65535), (c04_delivs 1025 65535 ++ [VoPoll []]).
  destruct (vsock_new (fixed_cc 4096) (fun _ _ => tt) (c04_cfg 65535)) as [s0|] eqn:E; [|vm_compute in E; discriminate].
  exists s0. split; [reflexivity|]. split; [reflexivity|].
  pose proof c04_wrap_shape as H. unfold c04_wrap_b, c04_run in H. cbv zeta in H. rewrite E in H.
  repeat (apply andb_true_iff in H; destruct H as [H _]).
  apply negb_true_iff in H. exact H.
Qed.

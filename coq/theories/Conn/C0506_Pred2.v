(* C05 / C06 — further boolean predicates over observed steps and traces (Conn/VObs), added after the
   seeded-change runs showed clauses of the property text that no predicate stated.  Model-only file.
   MONITORED on every implementation trace; the function-level theorems of C05_Proofs / C06_Proofs are what
   is proved about the model. *)
From Utp Require Import Base.Prelude Wire.SeqNr Wire.Header Rtt.Rtte Tx.Segments Tx.Ring Conn.Recovery Conn.Msg
  Conn.VSockRun Conn.VObs Conn.C05_Pred Conn.C06_Pred.

(* ---- C06: "A segment the peer has acknowledged (cumulatively or selectively) is never retransmitted".
   A packet emitted by a poll names, in the table as it was BEFORE the poll, either nothing (a new segment),
   or a segment not yet marked delivered.  (The ACKs of the poll are processed before anything is sent, so
   a segment delivered before the poll is delivered when the poll sends.) *)
Definition c06_no_resend_acked (cfg : vconfig) (st : fstep) : bool :=
  match fs_event st, fs_result st with
  | FePoll _, FrPoll _ pkts _ _ =>
      if tol_ok (fs_pre st) then
        forallb (fun p => match fseg_of_seq (fs_pre st) (ch_seq (fq_hdr p)) with
                          | Some g => negb (fg_delivered g)
                          | None => true
                          end) (filter fq_is_data pkts)
      else true
  | _, _ => true
  end.

(* ---- C05: "immediately after a retransmission timeout it sends a single segment until NEW data is
   acknowledged".  The single-segment mode (rto_retransmissions > 0) may end in a poll only if that poll's
   ACKs made progress: the left edge moved, or a segment of the pre table that was not delivered is now
   delivered (newly SACKed) — or an expired MTU probe was popped (boundary B6: max_ss lowered). *)
Fixpoint count_delivered (l : list fseg) : Z :=
  match l with [] => 0 | g :: r => (if fg_delivered g then 1 else 0) + count_delivered r end.

Definition c05_rto_exit_ok (cfg : vconfig) (st : fstep) : bool :=
  match fs_event st, fs_result st with
  | FePoll _, FrPoll PollPending _ _ _ =>
      let pre := fs_pre st in let post := fs_post st in
      if (0 <? f_rto_retx pre) && (f_rto_retx post =? 0) && tol_ok pre then
        negb (f_snd_una post =? f_snd_una pre) ||
        (count_delivered (f_segs pre) <? count_delivered (firstn (length (f_segs pre)) (f_segs post))) ||
        (f_max_ss post <? f_max_ss pre)
      else true
  | _, _ => true
  end.

(* ---- C05: "Before the first loss event its outstanding bytes never exceed two segments plus the bytes
   acknowledged so far".  Trace level.  Loss event = the RTO branch fired (rto_retransmissions grew) or fast
   recovery was entered; the trace is judged up to that point.  Outstanding = undelivered payload of the
   segments that were sent; acknowledged so far = bytes removed by cumulative ACKs + delivered (SACKed)
   payload still in the table, each byte once.  Two segments = 2 * the largest segment size in use so far
   (set_mss rescales the window when the size grows); one byte of slack per processed ACK covers the
   float truncation of Cubic::window() (boundary B3). *)
Fixpoint sent_undelivered (l : list fseg) : Z :=
  match l with
  | [] => 0
  | g :: r => (if fg_delivered g || (fg_sent_kind g =? 0) then 0 else fg_size g) + sent_undelivered r
  end.

Fixpoint delivered_bytes (l : list fseg) : Z :=
  match l with [] => 0 | g :: r => (if fg_delivered g then fg_size g else 0) + delivered_bytes r end.

Definition loss_event (st : fstep) : bool :=
  (f_rto_retx (fs_pre st) <? f_rto_retx (fs_post st)) || phase_recovering (f_recovery (fs_post st)) ||
  match f_recovery (fs_post st) with IgnoringUntilRecoveryPoint _ => true | _ => false end.

Fixpoint slow_start_scan (tr : list fstep) (base_removed mss_hi acks : Z) : bool :=
  match tr with
  | [] => true
  | st :: r =>
      if loss_event st then true
      else
        let post := fs_post st in
        let mss_hi' := Z.max mss_hi (f_mss post) in
        let acks' := acks + match fs_event st with FeDeliver _ _ => 1 | _ => 0 end in
        let acked := (f_seg_removed post - base_removed) + delivered_bytes (f_segs post) in
        (if tol_ok post
         then sent_undelivered (f_segs post) <=? 2 * mss_hi' + acked + acks'
         else true) &&
        slow_start_scan r base_removed mss_hi' acks'
  end.

Definition c05_slow_start_ok (cfg : vconfig) (tr : list fstep) : bool :=
  match tr with
  | [] => true
  | st :: _ => slow_start_scan tr (f_seg_removed (fs_pre st)) (f_mss (fs_pre st)) 0
  end.

(* Reusable Hoare-style lemmas about the transmit path of the connection model
   (send_data, the three parts of send_tx_queue, the segment table as the sender uses it).
   Used by Conn/C05_Proofs.v and Conn/C06_Proofs.v.  Definitions here are proof devices
   (copies of local `let`s of the frozen model, shown equal to it by reflexivity). *)
From Utp Require Import Base.Prelude Wire.SeqNr Wire.SeqNr_Proofs Wire.Header Rtt.Rtte Rtt.Rtte_Proofs
  Mtu.SegSizes Rx.Rx Tx.Ring Tx.Ring_Proofs Tx.Segments Tx.Segments_Proofs
  Conn.Recovery Conn.Msg Conn.VSockRec Conn.VSock.

Arguments SOk {CC A}. Arguments SErr {CC A}. Arguments SPanic {CC A}.

(* ------------------------------------------------------------------ list helpers *)
Lemma nth_error_update_nth {A} (f : A -> A) : forall (l : list A) n m,
  nth_error (update_nth l n f) m =
  if Nat.eqb n m then option_map f (nth_error l m) else nth_error l m.
Proof.
  induction l as [|x xs IH]; intros [|n] [|m]; cbn [update_nth nth_error Nat.eqb option_map]; try reflexivity.
  all: try (destruct (Nat.eqb _ _); reflexivity).
  apply IH.
Qed.

Lemma update_nth_length {A} (f : A -> A) : forall (l : list A) n, length (update_nth l n f) = length l.
Proof. induction l as [|x xs IH]; intros [|n]; cbn [update_nth length]; auto. Qed.

Lemma map_update_nth {A B} (g : A -> B) (f : A -> A) :
  (forall x, g (f x) = g x) -> forall l n, map g (update_nth l n f) = map g l.
Proof.
  intro H. induction l as [|x xs IH]; intros [|n]; cbn [update_nth map]; try reflexivity.
  - rewrite H. reflexivity.
  - rewrite IH. reflexivity.
Qed.

Lemma enum_from_nth {A} : forall (l : list A) i j x,
  In (j, x) (enum_from i l) -> (i <= j)%nat /\ nth_error l (j - i) = Some x.
Proof.
  induction l as [|y ys IH]; intros i j x; cbn [enum_from In]; [tauto|].
  intros [H|H].
  - injection H as <- <-. rewrite Nat.sub_diag. split; [lia|reflexivity].
  - destruct (IH _ _ _ H) as [Hle Hn]. split; [lia|].
    replace (j - i)%nat with (S (j - S i)) by lia. exact Hn.
Qed.

Lemma nth_error_skipn {A} : forall n (l : list A) k, nth_error (skipn n l) k = nth_error l (n + k).
Proof.
  induction n as [|n IH]; intros [|x xs] k; cbn [skipn plus nth_error]; try reflexivity.
  - destruct k; reflexivity.
  - apply IH.
Qed.

(* ------------------------------------------------------------------ the sender's view of the table *)
(* what the sender reads of a segment when it builds a datagram: everything but the
   sent-status and the loss flags *)
Definition dview (g : seg) : Z * Z * bool := (sg_size g, sg_abs g, sg_delivered g).

Definition dshape (t : segments) : Z * Z * list (Z * Z * bool) :=
  (ss_snd_una t, ss_removed t, map dview (ss_segs t)).

Lemma on_sent_dshape t i now : dshape (on_sent t i now) = dshape t.
Proof.
  unfold dshape, on_sent, Segments.set_segs; cbn [ss_snd_una ss_removed ss_segs].
  rewrite map_update_nth; [reflexivity|]. intro x; reflexivity.
Qed.

(* a for_sending item names the undelivered segment at its index, with the sequence number and
   the ring offset the table assigns to it *)
Definition item_ok (t : segments) (f : for_sending) : Prop :=
  nth_error (map dview (ss_segs t)) (fs_idx f) = Some (sg_size (fs_seg f), sg_abs (fs_seg f), false) /\
  sg_delivered (fs_seg f) = false /\
  fs_seq f = wadd16 (ss_snd_una t) (Z.of_nat (fs_idx f) mod M16) /\
  fs_payload_offset f = sg_abs (fs_seg f) - ss_removed t.

Lemma item_ok_dshape t t' f : dshape t' = dshape t -> item_ok t f -> item_ok t' f.
Proof.
  unfold dshape, item_ok. intro H; injection H as H1 H2 H3. rewrite H1, H2, H3. tauto.
Qed.

Lemma iter_item_ok t st f : In f (iter_for_sending t st) -> item_ok t f.
Proof.
  unfold iter_for_sending. intro H. apply filter_In in H. destruct H as [Hin Hnd].
  apply negb_true_iff in Hnd. apply in_map_iff in Hin. destruct Hin as ([i g] & <- & Hin).
  cbn [fs_seg fs_idx fs_seq fs_payload_offset] in *.
  apply enum_from_nth in Hin. destruct Hin as [Hle Hn]. rewrite nth_error_skipn in Hn.
  replace (_ + (i - _))%nat with i in Hn by lia.
  unfold item_ok; cbn [fs_seg fs_idx fs_seq fs_payload_offset].
  repeat split; try assumption; try reflexivity.
  rewrite nth_error_map, Hn. cbn [option_map]. unfold dview. rewrite Hnd. reflexivity.
Qed.

(* the head of the unrestricted iterator is the FIRST undelivered segment of the table *)
Lemma filter_head {A} (p : A -> bool) : forall l x r,
  filter p l = x :: r -> exists pre post, l = pre ++ x :: post /\ forallb (fun y => negb (p y)) pre = true /\ p x = true.
Proof.
  induction l as [|y ys IH]; intros x r; cbn [filter]; [discriminate|].
  destruct (p y) eqn:Ep.
  - intro H; injection H as <- _. exists [], ys. cbn. auto.
  - intro H. destruct (IH _ _ H) as (pre & post & -> & Hpre & Hx).
    exists (y :: pre), post. cbn [app forallb]. rewrite Ep, Hpre. auto.
Qed.

Lemma enum_from_app {A} : forall (a b : list A) i,
  enum_from i (a ++ b) = enum_from i a ++ enum_from (i + length a) b.
Proof.
  induction a as [|x xs IH]; intros b i; cbn [app enum_from length].
  - rewrite Nat.add_0_r. reflexivity.
  - rewrite IH. replace (S i + length xs)%nat with (i + S (length xs))%nat by lia. reflexivity.
Qed.

Lemma enum_from_length {A} : forall (l : list A) i, length (enum_from i l) = length l.
Proof. induction l as [|x xs IH]; intro i; cbn [enum_from length]; auto. Qed.

Lemma nth_enum_from_In {A} : forall (l : list A) i j x,
  nth_error l j = Some x -> In ((i + j)%nat, x) (enum_from i l).
Proof.
  induction l as [|y ys IH]; intros i j x Hn; [destruct j; discriminate|].
  destruct j as [|j]; cbn [nth_error enum_from In] in *.
  - injection Hn as ->. left. f_equal. lia.
  - right. replace (i + S j)%nat with (S i + j)%nat by lia. apply IH. exact Hn.
Qed.

Lemma iter_head_first_undelivered t f rest :
  iter_for_sending t None = f :: rest ->
  item_ok t f /\
  (forall j g, (j < fs_idx f)%nat -> nth_error (ss_segs t) j = Some g -> sg_delivered g = true).
Proof.
  intro H. split; [apply (iter_item_ok t None); rewrite H; left; reflexivity|].
  unfold iter_for_sending in H. cbn [skipn] in H.
  apply filter_head in H. destruct H as (pre & post & Hl & Hpre & _).
  (* split the enumerated table at the head *)
  assert (Hsplit : exists a g b, ss_segs t = a ++ g :: b /\ length a = fs_idx f /\
                    map (fun '(i, s) => {| fs_idx := i; fs_seq := wadd16 (ss_snd_una t) (Z.of_nat i mod M16);
                                           fs_payload_offset := sg_abs s - ss_removed t; fs_seg := s |})
                        (enum_from 0 a) = pre).
  { remember (ss_segs t) as l eqn:El. clear El.
    assert (Hgen : forall (l : list seg) i pre0,
      map (fun '(i, s) => {| fs_idx := i; fs_seq := wadd16 (ss_snd_una t) (Z.of_nat i mod M16);
                             fs_payload_offset := sg_abs s - ss_removed t; fs_seg := s |})
          (enum_from i l) = pre0 ++ f :: post ->
      exists a g b, l = a ++ g :: b /\ (i + length a)%nat = fs_idx f /\
        map (fun '(i, s) => {| fs_idx := i; fs_seq := wadd16 (ss_snd_una t) (Z.of_nat i mod M16);
                               fs_payload_offset := sg_abs s - ss_removed t; fs_seg := s |})
            (enum_from i a) = pre0).
    { clear. induction l as [|x xs IH]; intros i pre0; cbn [enum_from map].
      - destruct pre0; discriminate.
      - destruct pre0 as [|p ps]; cbn [app].
        + intro H; injection H as Hf _. exists [], x, xs. cbn [app length enum_from map].
          rewrite <- Hf. cbn [fs_idx]. split; [reflexivity|]. split; [lia|reflexivity].
        + intro H; injection H as Hp Hrest. destruct (IH _ _ Hrest) as (a & g & b & -> & Hi & Hm).
          exists (x :: a), g, b. cbn [app length enum_from map]. split; [reflexivity|].
          split; [lia|]. rewrite Hp, Hm. reflexivity. }
    destruct (Hgen l 0%nat pre Hl) as (a & g & b & E & Hi & Hm). exists a, g, b. auto. }
  destruct Hsplit as (a & g & b & Hs & Hlen & Hm).
  intros j g0 Hj Hn. rewrite Hs in Hn. rewrite nth_error_app1 in Hn by lia.
  subst pre. rewrite forallb_forall in Hpre.
  assert (Hin : In (j, g0) (enum_from 0 a)) by (apply (nth_enum_from_In a 0%nat j g0 Hn)).
  specialize (Hpre _ (in_map _ _ _ Hin)). cbn [fs_seg] in Hpre.
  rewrite negb_involutive in Hpre. exact Hpre.
Qed.

(* ------------------------------------------------------------------ send_data *)
Section WithCC.
Context {CC : Type} (cci : cc_iface CC).
Notation vsock := (vsock CC).

Definition step_st {A} (r : step A) : option vsock :=
  match r with SOk s _ => Some s | SErr s _ => Some s | SPanic => None end.

(* the fields no part of the data-sending path touches *)
Definition sd_frame (s s' : vsock) : Prop :=
  v_tx s' = v_tx s /\ v_cc s' = v_cc s /\ v_last_remote_window s' = v_last_remote_window s /\
  v_recovery s' = v_recovery s /\ v_rto_retransmissions s' = v_rto_retransmissions s /\
  v_opts s' = v_opts s /\ v_now s' = v_now s /\ v_rtte s' = v_rtte s /\ v_ss s' = v_ss s /\
  v_state s' = v_state s /\ v_restart s' = v_restart s /\
  v_last_remote_timestamp s' = v_last_remote_timestamp s /\ v_socket_created s' = v_socket_created s /\
  v_conn_id_send s' = v_conn_id_send s /\ v_last_consumed s' = v_last_consumed s /\ v_rx s' = v_rx s.

Lemma sd_frame_refl s : sd_frame s s.
Proof. unfold sd_frame. repeat split. Qed.

Lemma sd_frame_trans s1 s2 s3 : sd_frame s1 s2 -> sd_frame s2 s3 -> sd_frame s1 s3.
Proof.
  unfold sd_frame. intros H1 H2.
  repeat match goal with H : _ /\ _ |- _ => destruct H end.
  repeat split; congruence.
Qed.

Lemma next_send_frame s sz s1 o : next_send s sz = (s1, o) ->
  sd_frame s s1 /\ v_out s1 = v_out s /\ v_segs s1 = v_segs s /\
  v_last_sent_seq_nr s1 = v_last_sent_seq_nr s /\ v_t_retransmit s1 = v_t_retransmit s /\
  v_transport_pending s1 = v_transport_pending s /\ v_seq_nr s1 = v_seq_nr s /\
  v_t_inactivity s1 = v_t_inactivity s.
Proof.
  unfold next_send. destruct (v_sends s) as [|o0 r] eqn:Es.
  - destruct (v_emsg_limit s) as [m|]; [destruct (m <? sz)|]; intro H; injection H as <- <-;
      (split; [apply sd_frame_refl|repeat split]).
  - assert (Hf : sd_frame s (set_sends s r)) by (unfold sd_frame; vsimpl; repeat split).
    destruct o0; [destruct (v_emsg_limit s) as [m|]; [destruct (m <? sz)|]| | |];
      intro H; injection H as <- <-; (split; [exact Hf|vsimpl; repeat split]).
Qed.

(* the ST_DATA header send_data! builds *)
Definition data_hdr (s : vsock) (h : chdr) (f : for_sending) : chdr :=
  let ts := timestamp_microseconds s in
  {| ch_type := ST_DATA; ch_conn_id := ch_conn_id h; ch_ts := ts;
     ch_ts_diff := (ts - v_last_remote_timestamp s) mod M32;
     ch_wnd := ch_wnd h; ch_seq := fs_seq f; ch_ack := ch_ack h;
     ch_sack := None; ch_close_reason := None |}.

Definition data_payload (s : vsock) (f : for_sending) : list Z :=
  firstn (Z.to_nat (sg_size (fs_seg f))) (skipn (Z.to_nat (fs_payload_offset f)) (ring (v_tx s))).

Definition data_pkt (s : vsock) (h : chdr) (f : for_sending) : packet :=
  {| p_hdr := data_hdr s h f; p_payload := data_payload s f |}.

Lemma data_pkt_frame s s' h f : sd_frame s s' -> data_pkt s' h f = data_pkt s h f.
Proof.
  unfold sd_frame. intro H. repeat match goal with H : _ /\ _ |- _ => destruct H end.
  unfold data_pkt, data_hdr, data_payload, timestamp_microseconds. congruence.
Qed.

Definition sd_unchanged (s s' : vsock) : Prop :=
  sd_frame s s' /\ v_out s' = v_out s /\ v_segs s' = v_segs s /\
  v_last_sent_seq_nr s' = v_last_sent_seq_nr s /\ v_t_retransmit s' = v_t_retransmit s /\
  v_seq_nr s' = v_seq_nr s /\ v_t_inactivity s' = v_t_inactivity s.

Lemma send_data_spec s h f :
  match send_data s h f with
  | SOk s' SdSent =>
      sd_frame s s' /\
      v_out s' = data_pkt s h f :: v_out s /\
      v_segs s' = on_sent (v_segs s) (fs_idx f) (v_now s) /\
      v_last_sent_seq_nr s' =
        (if seq_gt (fs_seq f) (v_last_sent_seq_nr s) then fs_seq f else v_last_sent_seq_nr s) /\
      v_t_retransmit s' = timer_arm (v_t_retransmit s) (v_now s) (retransmission_timeout (v_rtte s)) false /\
      v_transport_pending s' = v_transport_pending s /\
      seg_retransmit_count (fs_seg f) <> o_max_retx (v_opts s) /\
      0 <= fs_payload_offset f /\
      fs_payload_offset f + sg_size (fs_seg f) <= Z.of_nat (length (ring (v_tx s)))
  | SOk s' SdPending => sd_unchanged s s' /\ v_transport_pending s' = true
  | SOk s' SdEmsgsize => sd_unchanged s s' /\ v_transport_pending s' = v_transport_pending s
  | SErr s' e => sd_unchanged s s' /\ v_transport_pending s' = v_transport_pending s /\
                 (e = ErrMaxRetransmissionsReached -> s' = s)
  | SPanic => True
  end.
Proof.
  unfold send_data.
  destruct (Z.eqb_spec (seg_retransmit_count (fs_seg f)) (o_max_retx (v_opts s))) as [He|Hne].
  { unfold sd_unchanged. split; [split; [apply sd_frame_refl|repeat split]|split; reflexivity]. }
  destruct (Z.ltb_spec (fs_payload_offset f) 0) as [Hneg|Hoff]; [exact I|].
  destruct (Z.ltb_spec (Z.of_nat (length (ring (v_tx s)))) (fs_payload_offset f)) as [Hb1|Hb1].
  { unfold sd_unchanged. split; [split; [apply sd_frame_refl|repeat split]|split; [reflexivity|discriminate]]. }
  destruct (Z.ltb_spec (Z.of_nat (length (ring (v_tx s)))) (fs_payload_offset f + sg_size (fs_seg f))) as [Hb2|Hb2].
  { unfold sd_unchanged. split; [split; [apply sd_frame_refl|repeat split]|split; [reflexivity|discriminate]]. }
  destruct (next_send s (20 + sg_size (fs_seg f))) as [s1 o] eqn:En.
  destruct (next_send_frame _ _ _ _ En) as (Hf & Ho & Hsg & Hls & Htr & Htp & Hsq & Hti).
  destruct o.
  - (* TSent *)
    set (hd := {| ch_type := ST_DATA; ch_conn_id := ch_conn_id h; ch_ts := timestamp_microseconds s;
                  ch_ts_diff := _; ch_wnd := ch_wnd h; ch_seq := fs_seq f; ch_ack := ch_ack h;
                  ch_sack := None; ch_close_reason := None |}).
    assert (Hf' := Hf). unfold sd_frame in Hf'.
    destruct Hf' as (F1 & F2 & F3 & F4 & F5 & F6 & F7 & F8 & F9 & F10 & F11 & F12 & F13 & F14 & F15 & F16).
    unfold on_packet_sent, emit.
    (* two nested tests since the repair of D13: last_sent moves, seq_nr is only raised *)
    split.
    { destruct (seq_gt (fs_seq f) _); [destruct (seq_gt (wadd16 (fs_seq f) 1) _)|];
        unfold sd_frame; vsimpl; repeat split; assumption. }
    split.
    { destruct (seq_gt (fs_seq f) _); [destruct (seq_gt (wadd16 (fs_seq f) 1) _)|];
        vsimpl; rewrite Ho; reflexivity. }
    split.
    { destruct (seq_gt (fs_seq f) _); [destruct (seq_gt (wadd16 (fs_seq f) 1) _)|];
        vsimpl; rewrite Hsg, F7; reflexivity. }
    split.
    { rewrite <- Hls. destruct (seq_gt (fs_seq f) _); [destruct (seq_gt (wadd16 (fs_seq f) 1) _)|];
        vsimpl; reflexivity. }
    split.
    { destruct (seq_gt (fs_seq f) _); [destruct (seq_gt (wadd16 (fs_seq f) 1) _)|];
        vsimpl; rewrite Htr, F7, F8; reflexivity. }
    split.
    { destruct (seq_gt (fs_seq f) _); [destruct (seq_gt (wadd16 (fs_seq f) 1) _)|];
        vsimpl; exact Htp. }
    split; [exact Hne|]. split; [exact Hoff|exact Hb2].
  - (* TPending *)
    unfold sd_unchanged. unfold sd_frame in *. vsimpl. tauto.
  - unfold sd_unchanged. tauto.
  - unfold sd_unchanged. split; [tauto|]. split; [exact Htp|discriminate].
Qed.

(* ------------------------------------------------------------------ the loops *)
Fixpoint fs_bytes (l : list for_sending) : Z :=
  match l with [] => 0 | f :: r => sg_size (fs_seg f) + fs_bytes r end.

Lemma fs_bytes_app a b : fs_bytes (a ++ b) = fs_bytes a + fs_bytes b.
Proof. induction a as [|x xs IH]; cbn [app fs_bytes]; lia. Qed.

(* what send_data checked before it emitted the datagram of item f *)
Definition sent_ok (s : vsock) (f : for_sending) : Prop :=
  seg_retransmit_count (fs_seg f) <> o_max_retx (v_opts s) /\ 0 <= fs_payload_offset f /\
  fs_payload_offset f + sg_size (fs_seg f) <= Z.of_nat (length (ring (v_tx s))).

Lemma sent_ok_frame s s' f : sd_frame s s' -> sent_ok s' f -> sent_ok s f.
Proof.
  unfold sd_frame, sent_ok. intros H. repeat match goal with H : _ /\ _ |- _ => destruct H end.
  congruence.
Qed.

Definition on_sent_all (t : segments) (now : Z) (sent : list for_sending) : segments :=
  fold_left (fun t f => on_sent t (fs_idx f) now) sent t.

Lemma on_sent_all_dshape now : forall sent t, dshape (on_sent_all t now sent) = dshape t.
Proof.
  induction sent as [|f r IH]; intro t; cbn [on_sent_all fold_left]; [reflexivity|].
  fold (on_sent_all (on_sent t (fs_idx f) now) now r). rewrite IH. apply on_sent_dshape.
Qed.

(* what a run of send_data calls leaves behind: `sent` = the items whose datagram went out *)
Definition emitted (s s' : vsock) (h : chdr) (sent : list for_sending) : Prop :=
  sd_frame s s' /\
  v_out s' = rev (map (data_pkt s h) sent) ++ v_out s /\
  v_segs s' = on_sent_all (v_segs s) (v_now s) sent /\
  Forall (sent_ok s) sent /\
  (sent = [] -> v_last_sent_seq_nr s' = v_last_sent_seq_nr s /\ v_t_retransmit s' = v_t_retransmit s).

Lemma emitted_nil s s' h : sd_unchanged s s' -> emitted s s' h [].
Proof.
  unfold sd_unchanged, emitted. intros (Hf & Ho & Hs & Hl & Ht & _).
  cbn [map rev app on_sent_all fold_left].
  split; [exact Hf|]. split; [exact Ho|]. split; [exact Hs|]. split; [constructor|]. intros _. split; assumption.
Qed.

Lemma emitted_cons s s1 s' h f sent :
  sd_frame s s1 -> v_out s1 = data_pkt s h f :: v_out s ->
  v_segs s1 = on_sent (v_segs s) (fs_idx f) (v_now s) -> sent_ok s f ->
  emitted s1 s' h sent -> emitted s s' h (f :: sent).
Proof.
  intros Hf Ho Hs Hok (Hf2 & Ho2 & Hs2 & Hok2 & _). unfold emitted.
  split; [eapply sd_frame_trans; eauto|].
  split.
  { rewrite Ho2, Ho. cbn [map rev]. rewrite <- app_assoc. cbn [app].
    f_equal. rewrite (map_ext _ _ (fun g => data_pkt_frame s s1 h g Hf)). reflexivity. }
  split.
  { rewrite Hs2, Hs. cbn [on_sent_all fold_left].
    assert (v_now s1 = v_now s) as -> by (unfold sd_frame in Hf; tauto). reflexivity. }
  split.
  { constructor; [exact Hok|]. eapply Forall_impl; [|exact Hok2]. intros g; apply sent_ok_frame; exact Hf. }
  discriminate.
Qed.

Lemma new_data_loop_spec : forall items s h rem s',
  0 <= rem -> step_st (new_data_loop items s h rem) = Some s' ->
  exists sent rest, items = sent ++ rest /\ emitted s s' h sent /\ fs_bytes sent <= rem.
Proof.
  induction items as [|f rest IH]; intros s h rem s' Hrem; cbn [new_data_loop].
  - cbn [step_st]. intro H; injection H as <-. exists [], []. split; [reflexivity|].
    split; [apply emitted_nil; unfold sd_unchanged; repeat split; apply sd_frame_refl|cbn; lia].
  - destruct (Z.ltb_spec rem (sg_size (fs_seg f))) as [Hlt|Hge].
    { cbn [step_st]. intro H; injection H as <-. exists [], (f :: rest). split; [reflexivity|].
      split; [apply emitted_nil; unfold sd_unchanged; repeat split; apply sd_frame_refl|cbn; lia]. }
    pose proof (send_data_spec s h f) as Hsd.
    destruct (send_data s h f) as [s1 [| |]|s1 e|] eqn:Esd.
    + destruct Hsd as (Hf & Ho & Hs & Hl & Ht & Htp & Hne & Hoff & Hb).
      intro H. destruct (IH s1 h (rem - sg_size (fs_seg f)) s' ltac:(lia) H) as (sent & rest' & -> & Hem & Hb').
      exists (f :: sent), rest'. split; [reflexivity|].
      split; [eapply emitted_cons; eauto; unfold sent_ok; auto|cbn [fs_bytes]; lia].
    + cbn [step_st]. intro H; injection H as <-. exists [], (f :: rest). split; [reflexivity|].
      split; [apply emitted_nil; tauto|cbn; lia].
    + cbn [step_st]. intro H; injection H as <-. exists [], (f :: rest). split; [reflexivity|].
      split; [apply emitted_nil; tauto|cbn; lia].
    + cbn [step_st]. intro H; injection H as <-. exists [], (f :: rest). split; [reflexivity|].
      split; [apply emitted_nil; tauto|cbn; lia].
    + discriminate.
Qed.

(* a zero budget stops the loop at its first item when that item has a positive size *)
Lemma new_data_loop_zero items (s : vsock) h :
  Forall (fun f => 1 <= sg_size (fs_seg f)) items -> new_data_loop items s h 0 = SOk s None.
Proof.
  destruct items as [|f rest]; cbn [new_data_loop]; [reflexivity|].
  intro H. inversion H as [|? ? H1 _]; subst.
  destruct (Z.ltb_spec 0 (sg_size (fs_seg f))); [reflexivity|lia].
Qed.

Lemma recovery_loop_spec : forall items s h mss0 st s',
  step_st (recovery_loop items s h mss0 st) = Some s' ->
  exists sent, incl sent items /\ emitted s s' h sent /\
    (rl_total st = 0 -> forall f rest, items = f :: rest ->
       match send_data s h f with SOk _ SdSent => exists sent', sent = f :: sent' | _ => sent = [] end).
Proof.
  induction items as [|f rest IH]; intros s h mss0 st s'; cbn [recovery_loop].
  - cbn [step_st]. intro H; injection H as <-. exists []. split; [apply incl_nil_l|].
    split; [apply emitted_nil; unfold sd_unchanged; repeat split; apply sd_frame_refl|].
    intros _ f rest H; discriminate.
  - destruct (Z.eqb_spec (rl_total st) 0) as [Ht0|Htn]; cbn [orb negb].
    + (* the first retransmission of this recovery goes through unconditionally *)
      replace (0 <? rl_total st) with false by (symmetry; apply Z.ltb_ge; lia). cbn [andb].
      pose proof (send_data_spec s h f) as Hsd.
      destruct (send_data s h f) as [s1 [| |]|s1 e|] eqn:Esd.
      * destruct Hsd as (Hf & Ho & Hs & Hl & Htr & Htp & Hne & Hoff & Hb).
        intro H. destruct (IH _ _ _ _ _ H) as (sent & Hincl & Hem & _).
        exists (f :: sent). split; [apply incl_cons; [left; reflexivity|apply incl_tl; exact Hincl]|].
        split; [eapply emitted_cons; eauto; unfold sent_ok; auto|].
        intros _ f0 rest0 E; injection E as <- <-. rewrite Esd. eauto.
      * cbn [step_st]. intro H; injection H as <-. exists []. split; [apply incl_nil_l|].
        split; [apply emitted_nil; tauto|]. intros _ f0 rest0 E; injection E as <- <-. rewrite Esd. reflexivity.
      * cbn [step_st]. intro H; injection H as <-. exists []. split; [apply incl_nil_l|].
        split; [apply emitted_nil; tauto|]. intros _ f0 rest0 E; injection E as <- <-. rewrite Esd. reflexivity.
      * cbn [step_st]. intro H; injection H as <-. exists []. split; [apply incl_nil_l|].
        split; [apply emitted_nil; tauto|]. intros _ f0 rest0 E; injection E as <- <-. rewrite Esd. reflexivity.
      * discriminate.
    + destruct (negb (mss0 <? rl_cwnd st)) eqn:Ec.
      { cbn [step_st]. intro H; injection H as <-. exists []. split; [apply incl_nil_l|].
        split; [apply emitted_nil; unfold sd_unchanged; repeat split; apply sd_frame_refl|]. intro; contradiction. }
      destruct ((0 <? rl_total st) && negb (sg_lost (fs_seg f))).
      { intro H. destruct (IH _ _ _ _ _ H) as (sent & Hincl & Hem & _).
        exists sent. split; [apply incl_tl; exact Hincl|]. split; [exact Hem|]. intro; contradiction. }
      destruct ((0 <? rl_total st) && negb (sg_sacks_after (fs_seg f))).
      { cbn [step_st]. intro H; injection H as <-. exists []. split; [apply incl_nil_l|].
        split; [apply emitted_nil; unfold sd_unchanged; repeat split; apply sd_frame_refl|]. intro; contradiction. }
      pose proof (send_data_spec s h f) as Hsd.
      destruct (send_data s h f) as [s1 [| |]|s1 e|] eqn:Esd.
      * destruct Hsd as (Hf & Ho & Hs & Hl & Htr & Htp & Hne & Hoff & Hb).
        intro H. destruct (IH _ _ _ _ _ H) as (sent & Hincl & Hem & _).
        exists (f :: sent). split; [apply incl_cons; [left; reflexivity|apply incl_tl; exact Hincl]|].
        split; [eapply emitted_cons; eauto; unfold sent_ok; auto|]. intro; contradiction.
      * cbn [step_st]. intro H; injection H as <-. exists []. split; [apply incl_nil_l|].
        split; [apply emitted_nil; tauto|]. intro; contradiction.
      * cbn [step_st]. intro H; injection H as <-. exists []. split; [apply incl_nil_l|].
        split; [apply emitted_nil; tauto|]. intro; contradiction.
      * cbn [step_st]. intro H; injection H as <-. exists []. split; [apply incl_nil_l|].
        split; [apply emitted_nil; tauto|]. intro; contradiction.
      * discriminate.
Qed.

(* ------------------------------------------------------------------ send_tx_queue, by parts *)
(* copies of the three local parts of send_tx_queue; send_tx_queue_eq shows (by computation) that
   the model's function is their composition *)
Definition rto_branch (s : vsock) (h : chdr) : step bool :=
  if timer_expired (v_t_retransmit s) (v_now s) then
    match iter_for_sending (v_segs s) None with
    | f :: _ =>
        match send_data s h f with
        | SPanic => SPanic
        | SErr s1 e => SErr s1 e
        | SOk s1 SdEmsgsize => SErr s1 ErrSend
        | SOk s1 SdPending => SOk s1 true
        | SOk s1 SdSent =>
            let s2o := if negb (sg_probe (fs_seg f)) then on_rto_reactions cci s1 else Some s1 in
            match s2o with
            | None => SPanic
            | Some s2 =>
                let s3 := set_t_retransmit s2 (timer_arm (v_t_retransmit s2) (v_now s2)
                                                 (retransmission_timeout (v_rtte s2)) true) in
                SOk (set_rto_retransmissions (set_last_sent_seq_nr s3 (fs_seq f))
                                             (v_rto_retransmissions s3 + 1)) false
            end
        end
    | [] =>
        match our_fin_if_unacked (v_state s) with
        | Some fin =>
            if v_last_sent_seq_nr s =? fin then
              let s1 := set_last_sent_seq_nr s (wsub16 (v_last_sent_seq_nr s) 1) in
              sbind (maybe_send_fin s1) (fun s2 sent =>
                if sent then
                  match on_rto_reactions cci s2 with
                  | None => SPanic
                  | Some s3 =>
                      SOk (set_t_retransmit s3 (timer_arm (v_t_retransmit s3) (v_now s3)
                                                  (retransmission_timeout (v_rtte s3)) true)) false
                  end
                else SOk s2 false)
            else SOk (set_t_retransmit s None) false
        | None => SOk (set_t_retransmit s None) false
        end
    end
  else SOk s false.

Definition rec_items (s : vsock) (rc : recovering) : list for_sending :=
  take_while (fun f => seq_le (fs_seq f) (rc_recovery_point rc))
    (skip_while (fun f => seq_le (fs_seq f) (rc_high_rxt rc))
       (firstn (Z.to_nat (ss_sack_depth (v_segs s) + 1)) (iter_for_sending (v_segs s) None))).

Definition rec_st0 (rc : recovering) : rec_loop_st :=
  {| rl_high_rxt := rc_high_rxt rc; rl_total := rc_total_retx rc;
     rl_pipe := rc_pipe rc; rl_cwnd := rec_cwnd rc; rl_sent := 0 |}.

Definition rec_after (rc : recovering) (h : chdr) (mss0 : Z) (s1 : vsock) (res : rec_loop_st * bool) : step bool :=
  let rp := rc_recovery_point rc in
  let '(st, early) := res in
  let rc1 := {| rc_recovery_point := rp; rc_high_rxt := rl_high_rxt st;
                rc_total_retx := rl_total st; rc_pipe := rl_pipe st;
                rc_recalc := rc_recalc rc; rc_cwnd := rc_cwnd rc |} in
  let s2 := set_recovering s1 rc1 in
  if early then SOk s2 true
  else
    let s3 :=
      if rl_cwnd st <? mss0 then
        match rc_recalc rc with
        | Some t => set_t_recovery_pipe s2 (Some t)
        | None =>
            if 0 <? rl_sent st then
              set_t_recovery_pipe s2
                (timer_arm (v_t_recovery_pipe s2) (v_now s2)
                   (calc_pipe_expiry (roundtrip_time (v_rtte s2))) true)
            else s2
        end
      else s2 in
    match our_fin_if_unacked (v_state s3) with
    | Some our_fin =>
        if rl_high_rxt st =? wsub16 our_fin 1 then
          let rc2 := {| rc_recovery_point := rp; rc_high_rxt := our_fin;
                        rc_total_retx := rl_total st + 1; rc_pipe := rl_pipe st;
                        rc_recalc := rc_recalc rc; rc_cwnd := rc_cwnd rc |} in
          SOk (set_recovering (set_last_sent_seq_nr s3 (wsub16 our_fin 1)) rc2) true
        else SOk s3 false
    | None => SOk s3 false
    end.

Definition rec_branch (s : vsock) (h : chdr) : step bool :=
  match rv_phase (v_recovery s) with
  | Recovering rc =>
      sbind (recovery_loop (rec_items s rc) s h (mss (v_ss s)) (rec_st0 rc))
            (rec_after rc h (mss (v_ss s)))
  | _ => SOk s false
  end.

Definition new_remaining (s : vsock) : Z :=
  match remaining_cwnd (v_recovery s) (v_last_remote_window s) with
  | Some r => r
  | None => sat_sub (Z.min (cc_window cci (v_cc s)) (v_last_remote_window s))
                    (calc_flight_size (v_segs s) (v_last_sent_seq_nr s))
  end.

Definition new_items (s : vsock) : list for_sending :=
  iter_for_sending (v_segs s) (Some (wadd16 (v_last_sent_seq_nr s) 1)).

Definition new_after (s1 : vsock) (too_long : option (Z * Z)) : step unit :=
  match too_long with
  | None => SOk s1 tt
  | Some (seq, size) =>
      let '(segs', popped) := pop_mtu_probe (v_segs s1) seq in
      if popped then
        SOk (set_restart
               (set_ss (set_segs s1 segs')
                       (disarm_cooldown (on_probe_failed (v_ss s1) size))) true) tt
      else SErr s1 (ErrBug BugEmsgSizeNoProbe)
  end.

Definition new_branch (s : vsock) (h : chdr) : step unit :=
  sbind (new_data_loop (new_items s) s h (new_remaining s)) new_after.

Definition after_rto_k (h : chdr) (s : vsock) (ret : bool) : step unit :=
  if ret then SOk s tt
  else if 0 <? v_rto_retransmissions s then SOk s tt
  else match ss_segs (v_segs s) with
       | [] => SOk s tt
       | _ :: _ => sbind (rec_branch s h) (fun s ret => if ret then SOk s tt else new_branch s h)
       end.

Lemma send_tx_queue_eq s :
  send_tx_queue cci s =
  if v_transport_pending s then SOk s tt
  else sbind (rto_branch s (outgoing_header s)) (after_rto_k (outgoing_header s)).
Proof. reflexivity. Qed.

(* the fields the datagram of an item depends on *)
Definition pk_frame (s s' : vsock) : Prop :=
  v_tx s' = v_tx s /\ v_now s' = v_now s /\ v_socket_created s' = v_socket_created s /\
  v_last_remote_timestamp s' = v_last_remote_timestamp s /\ v_opts s' = v_opts s.

Lemma pk_frame_refl s : pk_frame s s.
Proof. unfold pk_frame; repeat split. Qed.
Lemma pk_frame_trans a b c : pk_frame a b -> pk_frame b c -> pk_frame a c.
Proof. unfold pk_frame. intros (A1&A2&A3&A4&A5) (B1&B2&B3&B4&B5). repeat split; congruence. Qed.
Lemma sd_pk_frame s s' : sd_frame s s' -> pk_frame s s'.
Proof. unfold sd_frame, pk_frame. tauto. Qed.
Lemma data_pkt_pk_frame s s' h f : pk_frame s s' -> data_pkt s' h f = data_pkt s h f.
Proof.
  unfold pk_frame. intros (A1&A2&A3&A4&A5).
  unfold data_pkt, data_hdr, data_payload, timestamp_microseconds. congruence.
Qed.
Lemma sent_ok_pk_frame s s' f : pk_frame s s' -> sent_ok s' f -> sent_ok s f.
Proof. unfold pk_frame, sent_ok. intros (A1&A2&A3&A4&A5). congruence. Qed.

(* ------------------------------------------------------------------ control packets, FIN *)
Definition ctrl_pkt (s : vsock) (h : chdr) : packet :=
  {| p_hdr := hdr_with h (ch_type h) (ch_seq h) (fit_sack s (ch_sack h)); p_payload := [] |}.

Lemma send_control_packet_spec s h :
  match send_control_packet s h with
  | SOk s' true =>
      sd_frame s s' /\ v_out s' = ctrl_pkt s h :: v_out s /\ v_segs s' = v_segs s /\
      v_last_sent_seq_nr s' = v_last_sent_seq_nr s /\ v_t_retransmit s' = v_t_retransmit s /\
      v_seq_nr s' = v_seq_nr s /\ v_transport_pending s = false
  | SOk s' false => sd_unchanged s s'
  | SErr s' _ => sd_unchanged s s'
  | SPanic => True
  end.
Proof.
  unfold send_control_packet.
  destruct (v_transport_pending s) eqn:Ep.
  { unfold sd_unchanged. repeat split; apply sd_frame_refl. }
  destruct (next_send s _) as [s1 o] eqn:En.
  destruct (next_send_frame _ _ _ _ En) as (Hf & Ho & Hsg & Hls & Htr & Htp & Hsq & Hti).
  assert (Hf' := Hf). unfold sd_frame in Hf'.
  destruct Hf' as (F1 & F2 & F3 & F4 & F5 & F6 & F7 & F8 & F9 & F10 & F11 & F12 & F13 & F14 & F15 & F16).
  destruct o.
  - unfold on_packet_sent, emit, ctrl_pkt. split; [unfold sd_frame; vsimpl; repeat split; assumption|].
    vsimpl. rewrite Ho. repeat split; assumption.
  - unfold sd_unchanged, sd_frame. vsimpl. repeat split; assumption.
  - unfold sd_unchanged. repeat split; assumption.
  - unfold sd_unchanged. repeat split; assumption.
Qed.

Definition fin_pkt (s : vsock) (seq : Z) : packet :=
  ctrl_pkt s (hdr_with (outgoing_header s) ST_FIN seq None).

Lemma maybe_send_fin_spec s :
  match maybe_send_fin s with
  | SOk s' true =>
      exists seq, our_fin_if_unacked (v_state s) = Some seq /\ seq_sub seq (v_last_sent_seq_nr s) = 1 /\
        sd_frame s s' /\ v_out s' = fin_pkt s seq :: v_out s /\ v_segs s' = v_segs s /\
        v_last_sent_seq_nr s' = seq /\
        v_t_retransmit s' = timer_arm (v_t_retransmit s) (v_now s) (retransmission_timeout (v_rtte s)) false /\
        v_seq_nr s' = v_seq_nr s /\ v_transport_pending s = false
  | SOk s' false => sd_unchanged s s'
  | SErr s' _ => sd_unchanged s s'
  | SPanic => True
  end.
Proof.
  unfold maybe_send_fin.
  assert (Hrefl : sd_unchanged s s) by (unfold sd_unchanged; repeat split; apply sd_frame_refl).
  destruct (v_transport_pending s) eqn:Ep; [exact Hrefl|].
  destruct (our_fin_if_unacked (v_state s)) as [seq|] eqn:Ef; [|exact Hrefl].
  destruct (Z.eqb_spec (seq_sub seq (v_last_sent_seq_nr s)) 1) as [He|Hne]; cbn [negb]; [|exact Hrefl].
  pose proof (send_control_packet_spec s (hdr_with (outgoing_header s) ST_FIN seq None)) as Hc.
  destruct (send_control_packet s _) as [s1 [|]|s1 e|]; cbn [sbind]; try exact Hc.
  destruct Hc as (Hf & Ho & Hsg & Hls & Htr & Hsq & Hp).
  assert (Hf' := Hf). unfold sd_frame in Hf'.
  destruct Hf' as (F1 & F2 & F3 & F4 & F5 & F6 & F7 & F8 & F9 & F10 & F11 & F12 & F13 & F14 & F15 & F16).
  exists seq. split; [reflexivity|]. split; [exact He|].
  split; [unfold sd_frame; vsimpl; repeat split; assumption|].
  vsimpl. unfold fin_pkt. rewrite Ho, Htr, F7, F8. repeat split; assumption.
Qed.

Lemma on_rto_reactions_spec s s' :
  on_rto_reactions cci s = Some s' ->
  on_rto_timeout (v_rtte s) = Some (v_rtte s') /\
  v_cc s' = cc_on_rto cci (v_cc s) (v_now s) /\
  v_recovery s' = recovery_on_rto_timeout (v_recovery s) (v_last_sent_seq_nr s) /\
  v_out s' = v_out s /\ v_segs s' = v_segs s /\ v_tx s' = v_tx s /\
  v_last_remote_window s' = v_last_remote_window s /\
  v_rto_retransmissions s' = v_rto_retransmissions s /\ v_t_retransmit s' = v_t_retransmit s /\
  v_now s' = v_now s /\ v_last_sent_seq_nr s' = v_last_sent_seq_nr s /\ v_opts s' = v_opts s /\
  v_state s' = v_state s /\ v_ss s' = v_ss s /\ v_transport_pending s' = v_transport_pending s /\
  pk_frame s s'.
Proof.
  unfold on_rto_reactions. destruct (on_rto_timeout (v_rtte s)) as [rt|]; [|discriminate].
  intro H; injection H as <-. unfold pk_frame. vsimpl. repeat split.
Qed.

(* ------------------------------------------------------------------ the RTO part *)
Lemma timer_arm_restart t now d : timer_arm t now d true = Some (now + d).
Proof. destruct t; reflexivity. Qed.

Inductive rto_outcome (s : vsock) (h : chdr) (r : step bool) (s' : vsock) : Prop :=
| RtoQuiet :
    v_out s' = v_out s -> sd_frame s s' -> v_segs s' = v_segs s ->
    (v_last_sent_seq_nr s' = v_last_sent_seq_nr s \/ iter_for_sending (v_segs s) None = []) ->
    (timer_expired (v_t_retransmit s) (v_now s) = false -> r = SOk s false) ->
    (forall f rest, timer_expired (v_t_retransmit s) (v_now s) = true ->
                    iter_for_sending (v_segs s) None = f :: rest -> r <> SOk s' false) ->
    rto_outcome s h r s'
| RtoData (f : for_sending) (rest : list for_sending) :
    timer_expired (v_t_retransmit s) (v_now s) = true ->
    iter_for_sending (v_segs s) None = f :: rest ->
    r = SOk s' false ->
    v_out s' = data_pkt s h f :: v_out s ->
    sent_ok s f ->
    v_segs s' = on_sent (v_segs s) (fs_idx f) (v_now s) ->
    v_rto_retransmissions s' = v_rto_retransmissions s + 1 ->
    v_last_sent_seq_nr s' = fs_seq f ->
    v_tx s' = v_tx s -> v_opts s' = v_opts s -> v_now s' = v_now s ->
    v_last_remote_window s' = v_last_remote_window s -> v_state s' = v_state s ->
    (if sg_probe (fs_seg f)
     then v_rtte s' = v_rtte s /\ v_cc s' = v_cc s /\ v_recovery s' = v_recovery s
     else on_rto_timeout (v_rtte s) = Some (v_rtte s') /\
          v_cc s' = cc_on_rto cci (v_cc s) (v_now s) /\
          (is_recovering (v_recovery s) = false -> v_recovery s' = v_recovery s)) ->
    v_t_retransmit s' = Some (v_now s + retransmission_timeout (v_rtte s')) ->
    pk_frame s s' ->
    rto_outcome s h r s'
| RtoFin (fin : Z) :
    timer_expired (v_t_retransmit s) (v_now s) = true ->
    iter_for_sending (v_segs s) None = [] ->
    our_fin_if_unacked (v_state s) = Some fin -> v_last_sent_seq_nr s = fin ->
    r = SOk s' false ->
    v_out s' = fin_pkt (set_last_sent_seq_nr s (wsub16 fin 1)) fin :: v_out s ->
    v_segs s' = v_segs s ->
    v_rto_retransmissions s' = v_rto_retransmissions s ->
    v_last_sent_seq_nr s' = fin ->
    v_tx s' = v_tx s -> v_opts s' = v_opts s -> v_now s' = v_now s ->
    on_rto_timeout (v_rtte s) = Some (v_rtte s') ->
    v_t_retransmit s' = Some (v_now s + retransmission_timeout (v_rtte s')) ->
    pk_frame s s' ->
    rto_outcome s h r s'.

Lemma recovery_on_rto_not_recovering r ls : is_recovering r = false -> recovery_on_rto_timeout r ls = r.
Proof. unfold is_recovering, recovery_on_rto_timeout. destruct (rv_phase r); [reflexivity|reflexivity|discriminate]. Qed.

Lemma rto_branch_spec s h s' :
  step_st (rto_branch s h) = Some s' -> rto_outcome s h (rto_branch s h) s'.
Proof.
  unfold rto_branch.
  destruct (timer_expired (v_t_retransmit s) (v_now s)) eqn:Eexp.
  2:{ cbn [step_st]. intro H; injection H as <-. apply RtoQuiet; auto using sd_frame_refl; intros; congruence. }
  destruct (iter_for_sending (v_segs s) None) as [|f rest] eqn:Eit.
  - (* nothing to retransmit: FIN or switch the timer off *)
    assert (Hoff : step_st (SOk (A:=bool) (set_t_retransmit s None) false) = Some s' ->
                   rto_outcome s h (SOk (set_t_retransmit s None) false) s').
    { cbn [step_st]. intro H; injection H as <-. apply RtoQuiet; vsimpl; auto; try congruence; try (intros; congruence).
      unfold sd_frame; vsimpl; repeat split. }
    destruct (our_fin_if_unacked (v_state s)) as [fin|] eqn:Efin; [|exact Hoff].
    destruct (Z.eqb_spec (v_last_sent_seq_nr s) fin) as [Hls|Hls]; [|exact Hoff].
    set (s1 := set_last_sent_seq_nr s (wsub16 (v_last_sent_seq_nr s) 1)).
    pose proof (maybe_send_fin_spec s1) as Hm.
    assert (Hf1 : sd_frame s s1) by (unfold sd_frame, s1; vsimpl; repeat split).
    destruct (maybe_send_fin s1) as [s2 [|]|s2 e|] eqn:Em; cbn [sbind].
    + destruct Hm as (seq & Hfin2 & Hsub & Hf & Ho & Hsg & Hl2 & Htr & Hsq & Hp).
      unfold s1 in Hfin2; vsimpl. rewrite Efin in Hfin2. injection Hfin2 as <-.
      destruct (on_rto_reactions cci s2) as [s3|] eqn:Er; [|discriminate].
      destruct (on_rto_reactions_spec _ _ Er) as (R1 & R2 & R3 & R4 & R5 & R6 & R7 & R8 & R9 & R10 & R11 & R12 & R13 & R14 & R15 & RP).
      assert (Hf' := Hf). unfold sd_frame in Hf'.
      destruct Hf' as (F1 & F2 & F3 & F4 & F5 & F6 & F7 & F8 & F9 & F10 & F11 & F12 & F13 & F14 & F15 & F16).
      cbn [step_st]. intro H; injection H as <-.
      assert (PK : pk_frame s s3).
      { destruct RP as (Q1&Q2&Q3&Q4&Q5). clear - Q1 Q2 Q3 Q4 Q5 F1 F7 F13 F12 F6. unfold pk_frame. subst s1. vsimpl.
        repeat split; congruence. }
      eapply (RtoFin _ _ _ _ fin); vsimpl; auto; try congruence.
      * rewrite R4, Ho. unfold s1. rewrite Hls. reflexivity.
      * rewrite R5, Hsg. reflexivity.
      * rewrite R8, F5. reflexivity.
      * rewrite R6, F1. reflexivity.
      * rewrite R12, F6. reflexivity.
      * rewrite R10, F7. reflexivity.
      * rewrite <- R1. rewrite F8. reflexivity.
      * rewrite timer_arm_restart. rewrite R10, F7. reflexivity.
    + cbn [step_st]. intro H; injection H as <-. destruct Hm as (Hf & Ho & Hsg & Hl2 & Htr & _).
      apply RtoQuiet; auto; try congruence; try (intros; congruence); eapply sd_frame_trans; eauto.
    + cbn [step_st]. intro H; injection H as <-. destruct Hm as (Hf & Ho & Hsg & Hl2 & Htr & _).
      apply RtoQuiet; auto; try congruence; try (intros; congruence); eapply sd_frame_trans; eauto.
    + discriminate.
  - pose proof (send_data_spec s h f) as Hsd.
    destruct (send_data s h f) as [s1 [| |]|s1 e|] eqn:Esd.
    + destruct Hsd as (Hf & Ho & Hs & Hl & Htr & Htp & Hne & Hoff & Hb).
      assert (Hf' := Hf). unfold sd_frame in Hf'.
      destruct Hf' as (F1 & F2 & F3 & F4 & F5 & F6 & F7 & F8 & F9 & F10 & F11 & F12 & F13 & F14 & F15 & F16).
      destruct (sg_probe (fs_seg f)) eqn:Epr; cbn [negb].
      * cbn [step_st]. intro H; injection H as <-.
        eapply (RtoData _ _ _ _ f rest); vsimpl; auto; try (unfold sent_ok; auto; fail);
          try (unfold pk_frame; vsimpl; repeat split; assumption).
        -- rewrite F5; reflexivity.
        -- rewrite Epr. auto.
        -- rewrite timer_arm_restart, F7. reflexivity.
      * destruct (on_rto_reactions cci s1) as [s2|] eqn:Er; [|discriminate].
        destruct (on_rto_reactions_spec _ _ Er) as (R1 & R2 & R3 & R4 & R5 & R6 & R7 & R8 & R9 & R10 & R11 & R12 & R13 & R14 & R15 & RP).
        cbn [step_st]. intro H; injection H as <-.
        assert (PK : pk_frame s s2).
        { destruct RP as (Q1&Q2&Q3&Q4&Q5). unfold pk_frame. repeat split; congruence. }
        eapply (RtoData _ _ _ _ f rest); vsimpl; auto; try congruence; try (unfold sent_ok; auto; fail);
          try (destruct PK as (Q1&Q2&Q3&Q4&Q5); unfold pk_frame; vsimpl; repeat split; assumption).
        -- rewrite Epr. split; [rewrite <- R1, F8; reflexivity|]. split; [rewrite R2, F2, F7; reflexivity|].
           intro Hnr. rewrite R3, F4. apply recovery_on_rto_not_recovering. exact Hnr.
        -- rewrite timer_arm_restart, R10, F7. reflexivity.
    + cbn [step_st]. intro H; injection H as <-. destruct Hsd as ((Hf & Ho & Hsg & Hl2 & Htr & _) & _).
      apply RtoQuiet; auto; try congruence; intros; discriminate.
    + cbn [step_st]. intro H; injection H as <-. destruct Hsd as ((Hf & Ho & Hsg & Hl2 & Htr & _) & _).
      apply RtoQuiet; auto; try congruence; intros; discriminate.
    + cbn [step_st]. intro H; injection H as <-. destruct Hsd as ((Hf & Ho & Hsg & Hl2 & Htr & _) & _).
      apply RtoQuiet; auto; try congruence; intros; discriminate.
    + discriminate.
Qed.

(* ------------------------------------------------------------------ recovery part, new-data part *)
Lemma rec_after_spec rc h mss0 s1 res s' :
  step_st (rec_after rc h mss0 s1 res) = Some s' ->
  pk_frame s1 s' /\ v_out s' = v_out s1 /\ v_segs s' = v_segs s1 /\ v_cc s' = v_cc s1 /\
  v_last_remote_window s' = v_last_remote_window s1 /\ v_ss s' = v_ss s1 /\
  v_rto_retransmissions s' = v_rto_retransmissions s1 /\ v_rtte s' = v_rtte s1 /\
  v_t_retransmit s' = v_t_retransmit s1 /\ v_state s' = v_state s1 /\
  is_recovering (v_recovery s') = true.
Proof.
  unfold rec_after. destruct res as [st early].
  destruct early.
  { cbn [step_st]. intro H; injection H as <-. unfold set_recovering, pk_frame, is_recovering. vsimpl.
    cbn [rv_phase]. repeat split. }
  set (s2 := set_recovering s1 _).
  set (s3 := if rl_cwnd st <? mss0 then _ else s2).
  assert (H3 : pk_frame s1 s3 /\ v_out s3 = v_out s1 /\ v_segs s3 = v_segs s1 /\ v_cc s3 = v_cc s1 /\
               v_last_remote_window s3 = v_last_remote_window s1 /\ v_ss s3 = v_ss s1 /\
               v_rto_retransmissions s3 = v_rto_retransmissions s1 /\ v_rtte s3 = v_rtte s1 /\
               v_t_retransmit s3 = v_t_retransmit s1 /\ v_state s3 = v_state s1 /\
               is_recovering (v_recovery s3) = true).
  { unfold s3, s2, set_recovering, pk_frame, is_recovering.
    destruct (rl_cwnd st <? mss0); [destruct (rc_recalc rc); [|destruct (0 <? rl_sent st)]|];
      vsimpl; cbn [rv_phase]; repeat split. }
  clearbody s3. destruct H3 as (P & A1 & A2 & A3 & A4 & A5 & A6 & A7 & A8 & A9 & A10).
  destruct P as (P1 & P2 & P3 & P4 & P5).
  destruct (our_fin_if_unacked (v_state s3)) as [fin|].
  - destruct (rl_high_rxt st =? wsub16 fin 1); cbn [step_st]; intro H; injection H as <-.
    + unfold set_recovering, pk_frame, is_recovering. vsimpl. cbn [rv_phase].
      repeat split; assumption.
    + unfold pk_frame. repeat split; assumption.
  - cbn [step_st]; intro H; injection H as <-. unfold pk_frame. repeat split; assumption.
Qed.

Lemma rec_branch_spec s h s' :
  step_st (rec_branch s h) = Some s' ->
  (is_recovering (v_recovery s) = false /\ rec_branch s h = SOk s false /\ s' = s) \/
  exists rc sent s1,
    rv_phase (v_recovery s) = Recovering rc /\ incl sent (rec_items s rc) /\ emitted s s1 h sent /\
    pk_frame s1 s' /\ v_out s' = v_out s1 /\ v_segs s' = v_segs s1 /\ v_cc s' = v_cc s1 /\
    v_last_remote_window s' = v_last_remote_window s1 /\
    v_rto_retransmissions s' = v_rto_retransmissions s1 /\ v_state s' = v_state s1 /\
    (rc_total_retx rc = 0 -> forall f rest, rec_items s rc = f :: rest ->
       match send_data s h f with SOk _ SdSent => exists sent', sent = f :: sent' | _ => sent = [] end).
Proof.
  unfold rec_branch, is_recovering. destruct (rv_phase (v_recovery s)) as [rp|d|rc] eqn:Eph.
  - cbn [step_st]. intro H; injection H as <-. left. auto.
  - cbn [step_st]. intro H; injection H as <-. left. auto.
  - intro H. right. exists rc.
    destruct (recovery_loop (rec_items s rc) s h (mss (v_ss s)) (rec_st0 rc)) as [s1 res|s1 e|] eqn:El;
      cbn [sbind] in H.
    + assert (Hl : step_st (recovery_loop (rec_items s rc) s h (mss (v_ss s)) (rec_st0 rc)) = Some s1)
        by (rewrite El; reflexivity).
      destruct (recovery_loop_spec _ _ _ _ _ _ Hl) as (sent & Hincl & Hem & Hfirst).
      destruct (rec_after_spec _ _ _ _ _ _ H) as (P & A1 & A2 & A3 & A4 & A5 & A6 & A7 & A8 & A9 & A10).
      exists sent, s1. split; [reflexivity|]. split; [exact Hincl|]. split; [exact Hem|].
      repeat (split; [assumption|]). exact Hfirst.
    + cbn [step_st] in H. injection H as <-.
      assert (Hl : step_st (recovery_loop (rec_items s rc) s h (mss (v_ss s)) (rec_st0 rc)) = Some s1)
        by (rewrite El; reflexivity).
      destruct (recovery_loop_spec _ _ _ _ _ _ Hl) as (sent & Hincl & Hem & Hfirst).
      exists sent, s1. split; [reflexivity|]. split; [exact Hincl|]. split; [exact Hem|].
      split; [apply pk_frame_refl|]. repeat (split; [reflexivity|]). exact Hfirst.
    + discriminate.
Qed.

Lemma new_remaining_nonneg s : 0 <= new_remaining s.
Proof.
  unfold new_remaining, remaining_cwnd. destruct (rv_phase (v_recovery s)); unfold sat_sub; lia.
Qed.

Lemma new_after_spec s1 tl s' :
  step_st (new_after s1 tl) = Some s' ->
  pk_frame s1 s' /\ v_out s' = v_out s1 /\ v_cc s' = v_cc s1 /\
  v_last_remote_window s' = v_last_remote_window s1 /\
  v_rto_retransmissions s' = v_rto_retransmissions s1 /\ v_recovery s' = v_recovery s1 /\
  v_t_retransmit s' = v_t_retransmit s1 /\ v_rtte s' = v_rtte s1 /\ v_state s' = v_state s1 /\
  (tl = None -> s' = s1).
Proof.
  unfold new_after. destruct tl as [[seq size]|].
  - destruct (pop_mtu_probe (v_segs s1) seq) as [segs' popped]. destruct popped; cbn [step_st];
      intro H; injection H as <-; unfold pk_frame; vsimpl; repeat split; discriminate.
  - cbn [step_st]; intro H; injection H as <-. unfold pk_frame; repeat split.
Qed.

Lemma new_branch_spec s h s' :
  step_st (new_branch s h) = Some s' ->
  exists sent rest s1,
    new_items s = sent ++ rest /\ emitted s s1 h sent /\ fs_bytes sent <= new_remaining s /\
    pk_frame s1 s' /\ v_out s' = v_out s1 /\ v_cc s' = v_cc s1 /\
    v_last_remote_window s' = v_last_remote_window s1 /\
    v_rto_retransmissions s' = v_rto_retransmissions s1 /\ v_recovery s' = v_recovery s1 /\
    v_t_retransmit s' = v_t_retransmit s1 /\ v_rtte s' = v_rtte s1 /\ v_state s' = v_state s1.
Proof.
  unfold new_branch.
  destruct (new_data_loop (new_items s) s h (new_remaining s)) as [s1 tl|s1 e|] eqn:El; cbn [sbind].
  - intro H.
    assert (Hl : step_st (new_data_loop (new_items s) s h (new_remaining s)) = Some s1) by (rewrite El; reflexivity).
    destruct (new_data_loop_spec _ _ _ _ _ (new_remaining_nonneg s) Hl) as (sent & rest & E & Hem & Hb).
    destruct (new_after_spec _ _ _ H) as (P & A1 & A2 & A3 & A4 & A5 & A6 & A7 & A8 & _).
    exists sent, rest, s1. split; [exact E|]. split; [exact Hem|]. split; [exact Hb|].
    repeat (split; [assumption|]). assumption.
  - cbn [step_st]. intro H; injection H as <-.
    assert (Hl : step_st (new_data_loop (new_items s) s h (new_remaining s)) = Some s1) by (rewrite El; reflexivity).
    destruct (new_data_loop_spec _ _ _ _ _ (new_remaining_nonneg s) Hl) as (sent & rest & E & Hem & Hb).
    exists sent, rest, s1. split; [exact E|]. split; [exact Hem|]. split; [exact Hb|].
    split; [apply pk_frame_refl|]. repeat (split; [reflexivity|]). reflexivity.
  - discriminate.
Qed.

(* nothing undelivered at all => every restricted iterator is empty too *)
Lemma filter_nil_iff {A} (p : A -> bool) l : filter p l = [] <-> (forall x, In x l -> p x = false).
Proof.
  induction l as [|y ys IH]; cbn [filter In]; [tauto|].
  destruct (p y) eqn:E; split.
  - discriminate.
  - intro H. specialize (H y (or_introl eq_refl)). congruence.
  - intros H x [<-|Hx]; [exact E|]. apply IH; assumption.
  - intro H. apply IH. intros x Hx. apply H. right; exact Hx.
Qed.

Lemma iter_none_nil t st : iter_for_sending t None = [] -> iter_for_sending t st = [].
Proof.
  unfold iter_for_sending. cbn [skipn]. rewrite !filter_nil_iff. intros H f Hf.
  apply in_map_iff in Hf. destruct Hf as ([i g] & <- & Hin). cbn [fs_seg].
  apply enum_from_nth in Hin. destruct Hin as [Hle Hn]. rewrite nth_error_skipn in Hn.
  pose proof (nth_enum_from_In (ss_segs t) 0%nat _ _ Hn) as Hin0.
  specialize (H _ (in_map _ _ _ Hin0)). cbn [fs_seg] in H. exact H.
Qed.

(* ------------------------------------------------------------------ everything one call emits *)
Lemma In_take_while {A} (p : A -> bool) x : forall l, In x (take_while p l) -> In x l.
Proof.
  induction l as [|y ys IH]; cbn [take_while In]; [tauto|]. destruct (p y); cbn [In]; [|intros []].
  intros [<-|H]; [left; reflexivity|right; apply IH; exact H].
Qed.

Lemma In_skip_while {A} (p : A -> bool) x : forall l, In x (skip_while p l) -> In x l.
Proof.
  induction l as [|y ys IH]; cbn [skip_while In]; [tauto|]. destruct (p y); cbn [In]; [|tauto].
  intro H. right. apply IH. exact H.
Qed.

Lemma In_firstn {A} (x : A) : forall n l, In x (firstn n l) -> In x l.
Proof.
  induction n as [|n IH]; intros [|y ys]; cbn [firstn In]; try tauto.
  intros [<-|H]; [left; reflexivity|right; apply IH; exact H].
Qed.

Lemma rec_items_incl (s : vsock) rc : incl (rec_items s rc) (iter_for_sending (v_segs s) None).
Proof.
  unfold rec_items. intros x H. apply In_take_while in H. apply In_skip_while in H.
  apply In_firstn in H. exact H.
Qed.

Lemma Forall_incl {A} (P : A -> Prop) a b : incl a b -> Forall P b -> Forall P a.
Proof. intros Hi Hb. apply Forall_forall. intros x Hx. rewrite Forall_forall in Hb. apply Hb, Hi, Hx. Qed.

Lemma iter_all_item_ok t st : Forall (item_ok t) (iter_for_sending t st).
Proof. apply Forall_forall. intros f Hf. eapply iter_item_ok; eauto. Qed.

(* the datagrams of one send_tx_queue call: at most one FIN (only from the RTO part, and then no
   data), and ST_DATA datagrams each built from an undelivered segment that is in the table at
   entry, with the sequence number and the ring offset the table assigns to it *)
Definition stq_emits (s s' : vsock) (ctl : list packet) (sent : list for_sending) : Prop :=
  v_out s' = rev (map (data_pkt s (outgoing_header s)) sent) ++ ctl ++ v_out s /\
  Forall (item_ok (v_segs s)) sent /\ Forall (sent_ok s) sent /\
  (ctl = [] \/ (sent = [] /\ exists fin, ctl = [fin_pkt (set_last_sent_seq_nr s (wsub16 fin 1)) fin])).

Lemma rec_new_emits h s1 s' :
  step_st (sbind (rec_branch s1 h) (fun s ret => if ret then SOk s tt else new_branch s h)) = Some s' ->
  exists sent, v_out s' = rev (map (data_pkt s1 h) sent) ++ v_out s1 /\
    Forall (item_ok (v_segs s1)) sent /\ Forall (sent_ok s1) sent /\ pk_frame s1 s'.
Proof.
  intro H.
  assert (Hrec : forall s2, step_st (rec_branch s1 h) = Some s2 ->
            exists sent_r, v_out s2 = rev (map (data_pkt s1 h) sent_r) ++ v_out s1 /\
              Forall (item_ok (v_segs s1)) sent_r /\ Forall (sent_ok s1) sent_r /\ pk_frame s1 s2 /\
              dshape (v_segs s2) = dshape (v_segs s1)).
  { intros s2 Hs2.
    destruct (rec_branch_spec _ _ _ Hs2) as [(_ & _ & ->)|(rc & sent & s1' & Eph & Hincl & Hem & P & A1 & A2 & _)].
    - exists []. cbn [map rev app]. repeat split; auto using pk_frame_refl.
    - destruct Hem as (Hf & Ho & Hsg & Hok & Hnil). exists sent.
      split; [congruence|].
      split; [eapply Forall_incl; [exact Hincl|]; eapply Forall_incl; [apply rec_items_incl|apply iter_all_item_ok]|].
      split; [exact Hok|]. split; [eapply pk_frame_trans; [apply sd_pk_frame; exact Hf|exact P]|].
      rewrite A2, Hsg. apply on_sent_all_dshape. }
  destruct (rec_branch s1 h) as [s2 ret|s2 e|] eqn:Erb; cbn [sbind] in H; [| |discriminate].
  - destruct (Hrec s2 eq_refl) as (sent_r & Ho & Hit & Hok & P & Hd).
    destruct ret.
    { cbn [step_st] in H. injection H as <-. exists sent_r. auto. }
    destruct (new_branch_spec _ _ _ H) as (sent_n & rest & s3 & E & (Hf3 & Ho3 & Hsg3 & Hok3 & _) & _ & P3 & A1 & _).
    exists (sent_r ++ sent_n).
    assert (P13 : pk_frame s1 s3) by (eapply pk_frame_trans; [exact P|apply sd_pk_frame; exact Hf3]).
    split.
    { rewrite A1, Ho3, Ho, map_app, rev_app_distr, <- app_assoc. f_equal.
      f_equal. apply map_ext. intro g. apply data_pkt_pk_frame. exact P. }
    split.
    { apply Forall_app. split; [exact Hit|].
      assert (Hn : Forall (item_ok (v_segs s2)) sent_n).
      { eapply Forall_incl; [|apply (iter_all_item_ok (v_segs s2) (Some (wadd16 (v_last_sent_seq_nr s2) 1)))].
        unfold new_items in E. rewrite E. apply incl_appl, incl_refl. }
      eapply Forall_impl; [|exact Hn]. intro g. apply item_ok_dshape. symmetry. exact Hd. }
    split.
    { apply Forall_app. split; [exact Hok|]. eapply Forall_impl; [|exact Hok3]. intro g. apply sent_ok_pk_frame. exact P. }
    eapply pk_frame_trans; [exact P13|exact P3].
  - cbn [step_st] in H. injection H as <-. destruct (Hrec s2 eq_refl) as (sent_r & Ho & Hit & Hok & P & Hd).
    exists sent_r. auto.
Qed.

Lemma send_tx_queue_emits s s' :
  0 <= v_rto_retransmissions s ->
  step_st (send_tx_queue cci s) = Some s' ->
  exists ctl sent, stq_emits s s' ctl sent /\ pk_frame s s'.
Proof.
  intros Hcnt. rewrite send_tx_queue_eq. unfold stq_emits.
  destruct (v_transport_pending s).
  { cbn [step_st]. intro H; injection H as <-. exists [], []. cbn [map rev app].
    repeat split; auto using pk_frame_refl. }
  set (h := outgoing_header s).
  destruct (rto_branch s h) as [s1 ret|s1 e|] eqn:Er; cbn [sbind]; [| |discriminate].
  - assert (Hs : step_st (rto_branch s h) = Some s1) by (rewrite Er; reflexivity).
    pose proof (rto_branch_spec _ _ _ Hs) as Ho. rewrite Er in Ho.
    (* the later parts, started from a state s1 whose table and ring are those of s *)
    assert (Hlater : forall pre, v_out s1 = pre ++ v_out s -> pk_frame s s1 -> dshape (v_segs s1) = dshape (v_segs s) ->
              (pre = [] \/ (iter_for_sending (v_segs s1) None = [] /\
                            exists fin, pre = [fin_pkt (set_last_sent_seq_nr s (wsub16 fin 1)) fin])) ->
              step_st (after_rto_k h s1 ret) = Some s' ->
              exists ctl sent,
                (v_out s' = rev (map (data_pkt s h) sent) ++ ctl ++ v_out s /\
                 Forall (item_ok (v_segs s)) sent /\ Forall (sent_ok s) sent /\
                 (ctl = [] \/ (sent = [] /\ exists fin, ctl = [fin_pkt (set_last_sent_seq_nr s (wsub16 fin 1)) fin]))) /\
                pk_frame s s').
    { intros pre Hpre P Hd Hctl. unfold after_rto_k.
      match goal with |- _ -> ?G => assert (Hstop : step_st (SOk (A:=unit) s1 tt) = Some s' -> G) end.
      { cbn [step_st]. intro H; injection H as <-. exists pre, []. cbn [map rev app].
        split; [|exact P]. split; [exact Hpre|]. split; [constructor|]. split; [constructor|].
        destruct Hctl as [->|(_ & fin & ->)]; [left; reflexivity|right; eauto]. }
      destruct ret; [exact Hstop|].
      destruct (0 <? v_rto_retransmissions s1); [exact Hstop|].
      destruct (ss_segs (v_segs s1)) as [|g0 gs] eqn:Esg; [exact Hstop|].
      intro H. destruct (rec_new_emits _ _ _ H) as (sent & Ho2 & Hit & Hok & P2).
      destruct Hctl as [->|(Hnil & fin & ->)].
      - exists [], sent. cbn [app] in *. split; [|eapply pk_frame_trans; eauto].
        split; [rewrite Ho2, Hpre; f_equal; f_equal; apply map_ext; intro g; apply data_pkt_pk_frame; exact P|].
        split; [eapply Forall_impl; [|exact Hit]; intro g; apply item_ok_dshape; symmetry; exact Hd|].
        split; [eapply Forall_impl; [|exact Hok]; intro g; apply sent_ok_pk_frame; exact P|]. left; reflexivity.
      - (* nothing undelivered: no data can follow the FIN *)
        assert (sent = []).
        { destruct sent as [|f0 r0]; [reflexivity|exfalso]. inversion Hit as [|? ? Hf0 _]; subst.
          destruct Hf0 as (Hn & _).
          (* an item_ok segment is undelivered and in the table, so the unrestricted iterator is not empty *)
          rewrite nth_error_map in Hn. destruct (nth_error (ss_segs (v_segs s1)) (fs_idx f0)) as [g|] eqn:Eg; [|discriminate].
          cbn [option_map] in Hn. unfold dview in Hn. injection Hn as _ _ Hdel.
          unfold iter_for_sending in Hnil. cbn [skipn] in Hnil. rewrite filter_nil_iff in Hnil.
          pose proof (nth_enum_from_In _ 0%nat _ _ Eg) as Hin.
          specialize (Hnil _ (in_map _ _ _ Hin)). cbn [fs_seg] in Hnil. rewrite Hdel in Hnil. discriminate. }
        subst sent. cbn [map rev app] in Ho2.
        exists [fin_pkt (set_last_sent_seq_nr s (wsub16 fin 1)) fin], []. cbn [map rev app].
        split; [|eapply pk_frame_trans; eauto].
        split; [rewrite Ho2, Hpre; reflexivity|]. split; [constructor|]. split; [constructor|]. right; eauto. }
    destruct Ho as [Ho Hf Hsg Hls Hne Hnq
                   | f rest Hexp Hit Hr Ho Hok Hsg Hrto Hls Htx Hop Hnow Hrw Hst Hpr Htr P
                   | fin Hexp Hit Hfin Hls Hr Ho Hsg Hrto Hls' Htx Hop Hnow Hrt Htr P].
    + intro H. apply (Hlater []); auto; [apply sd_pk_frame; exact Hf|rewrite Hsg; reflexivity].
    + injection Hr as ->. unfold after_rto_k.
      destruct (Z.ltb_spec 0 (v_rto_retransmissions s1)) as [Hpos|Hz]; [|exfalso; lia].
      cbn [step_st]. intro H; injection H as <-.
      exists [], [f]. cbn [map rev app].
      split; [|exact P]. split; [exact Ho|]. split; [constructor; [|constructor]; apply (iter_item_ok _ None); rewrite Hit; left; reflexivity|].
      split; [constructor; [exact Hok|constructor]|left; reflexivity].
    + injection Hr as ->. intro H.
      apply (Hlater [fin_pkt (set_last_sent_seq_nr s (wsub16 fin 1)) fin]); auto.
      * rewrite Hsg; reflexivity.
      * right. split; [rewrite Hsg; exact Hit|eauto].
  - cbn [step_st]. intro H; injection H as <-.
    assert (Hs : step_st (rto_branch s h) = Some s1) by (rewrite Er; reflexivity).
    pose proof (rto_branch_spec _ _ _ Hs) as Ho. rewrite Er in Ho.
    destruct Ho as [Ho Hf _ _ _ _
                   | f' rest' _ _ Hr _ _ _ _ _ _ _ _ _ _ _ _ _
                   | fin _ _ _ _ Hr _ _ _ _ _ _ _ _ _ _]; try discriminate.
    exists [], []. cbn [map rev app]. split; [|apply sd_pk_frame; exact Hf].
    split; [exact Ho|]. split; [constructor|]. split; [constructor|left; reflexivity].
Qed.

End WithCC.

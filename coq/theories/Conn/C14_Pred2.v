(* C14 at connection level — the emission clause with the header extension counted.  Model-only file.
   "No datagram larger than the configured link MTU allows is ever emitted": the uTP part of every
   datagram of a poll — the 20-byte header, the 10-byte selective-ACK extension when present, the
   payload — is at most 20 + the payload ceiling (= link MTU - IP header - UDP header whenever the
   link MTU leaves room for one payload byte, Props/C14.c14_ceiling_datagram); and a datagram that
   carries the extension carries no payload.  (c14_datagram_ok of Conn/C14C08_Pred.v bounds the
   payload alone.) *)
From Utp Require Import Base.Prelude Wire.SeqNr Wire.Header Mtu.SegSizes Tx.Segments Conn.Recovery Conn.Msg
  Conn.VSockRun Conn.VObs Conn.C10_Pred.

Definition SACK_EXT_LEN : Z := 10.

Definition fq_wire_len (p : fpacket) : Z :=
  UTP_HEADER + (match ch_sack (fq_hdr p) with Some _ => SACK_EXT_LEN | None => 0 end) + fq_plen p.

Definition c14_wire_ok (cfg : vconfig) (st : fstep) : bool :=
  match fs_result st with
  | FrPoll _ pkts _ _ =>
      forallb (fun p => (fq_wire_len p <=? UTP_HEADER + ceiling_of (ss_config_of cfg)) &&
                        (match ch_sack (fq_hdr p) with Some _ => fq_plen p =? 0 | None => true end)) pkts
  | _ => true
  end.

(* C05: every segment of the table holds at least one byte - an invariant of every state reached through
   Pending polls ([sp_vstep_live]); with it the zero-window clause: a zero budget sends nothing. *)
From Utp Require Import Base.Prelude Wire.SeqNr Wire.Header Rtt.Rtte Mtu.SegSizes Rx.Rx Tx.Ring
  Tx.Segments Tx.Segments_Proofs Conn.Recovery Conn.Msg Conn.VSockRec Conn.VSock Conn.VSockRun Conn.VObs
  Conn.VSock_Lemmas Conn.VSock_LemmasTx Conn.VSock_LemmasIn Conn.VSock_LemmasStep Conn.VSock_PollAux
  Conn.C17_StepLemmas Conn.C07_Proofs Conn.C05_Pred Conn.C05_Proofs Conn.C05_StepLemmas.

Definition lpos (l : list seg) : Prop := Forall (fun g => 1 <= sg_size g) l.

Lemma ev_lpos l l' : Forall2 seg_ev l l' -> lpos l -> lpos l'.
Proof.
  unfold lpos. induction 1 as [|x y xs ys (_ & Hs & _) _ IH]; intro H; [constructor|].
  inversion H; subst. constructor; [lia|auto].
Qed.

Lemma lpos_app a b : lpos (a ++ b) <-> lpos a /\ lpos b.
Proof. unfold lpos. apply Forall_app. Qed.

Lemma remove_up_to_ack_pos t now ack sk t' r :
  remove_up_to_ack t now ack sk = (t', r) -> segs_pos t -> segs_pos t'.
Proof.
  intros H Hp. destruct (remove_up_to_ack_struct _ _ _ _ _ _ H) as (a & b & d & E & Hev & _).
  unfold segs_pos in *. fold (lpos (ss_segs t)) in Hp. fold (lpos (ss_segs t')).
  rewrite E in Hp. apply lpos_app in Hp. destruct Hp as [_ Hb].
  apply (ev_lpos _ _ Hev) in Hb. apply lpos_app in Hb. apply Hb.
Qed.

Lemma calc_pipe_pos t hr hd rtt now t' p rc :
  calc_pipe t hr hd rtt now = Some (t', p, rc) -> segs_pos t -> segs_pos t'.
Proof. intros H Hp. destruct (calc_pipe_ev _ _ _ _ _ _ _ _ H) as (Hev & _). exact (ev_lpos _ _ Hev Hp). Qed.

Lemma on_sent_pos t i now : segs_pos t -> segs_pos (on_sent t i now).
Proof.
  unfold segs_pos, on_sent, Segments.set_segs; cbn [ss_segs]. intro H.
  assert (E : map sg_size (update_nth (ss_segs t) i (fun s => seg_on_sent s now)) = map sg_size (ss_segs t))
    by (apply map_update_nth; intro x; reflexivity).
  revert E H. generalize (update_nth (ss_segs t) i (fun s => seg_on_sent s now)) as l'.
  generalize (ss_segs t) as l. induction l as [|x xs IH]; intros [|y ys] E H; cbn [map] in E; try discriminate.
  - constructor.
  - injection E as E1 E2. inversion H; subst. constructor; [lia|eapply IH; eauto].
Qed.

Lemma last_and_init_pos (l init : list seg) g : last_and_init l = Some (init, g) -> lpos l -> lpos init.
Proof.
  intros H Hp. apply Segments_ProofsOut.last_and_init_app in H. rewrite H in Hp. apply lpos_app in Hp. apply Hp.
Qed.

Lemma pop_mtu_probe_pos t q t' b : pop_mtu_probe t q = (t', b) -> segs_pos t -> segs_pos t'.
Proof.
  unfold pop_mtu_probe. destruct (last_and_init (ss_segs t)) as [[init g]|] eqn:E.
  - destruct (_ && _); intro H; injection H as <- _; [|auto].
    intro Hp. unfold segs_pos, Segments.set_segs; cbn [ss_segs]. eapply last_and_init_pos; eauto.
  - intro H; injection H as <- _. auto.
Qed.

Lemma pop_expired_pos t to mr t' pe : pop_expired_mtu_probe t to mr = (t', pe) -> segs_pos t -> segs_pos t'.
Proof.
  unfold pop_expired_mtu_probe. destruct (last_and_init (ss_segs t)) as [[init g]|] eqn:E.
  - destruct (sg_delivered g); [intro H; injection H as <- _; auto|].
    destruct (to && sg_probe g && (mr <=? seg_retransmit_count g));
      [|destruct (sg_probe g); intro H; injection H as <- _; auto].
    intro H; injection H as <- _. intro Hp. unfold segs_pos, Segments.set_segs; cbn [ss_segs].
    eapply last_and_init_pos; eauto.
  - intro H; injection H as <- _. auto.
Qed.

(* sizes and the range of snd_una together *)
Definition tpos (t : segments) : Prop := segs_pos t /\ 0 <= ss_snd_una t < M16.

Lemma remove_up_to_ack_tpos t now ack sk t' r :
  remove_up_to_ack t now ack sk = (t', r) -> tpos t -> tpos t'.
Proof.
  intros H [Hp _]. split; [eapply remove_up_to_ack_pos; eauto|].
  destruct (remove_up_to_ack_struct _ _ _ _ _ _ H) as (a & b & d & _ & _ & _ & E).
  rewrite E. unfold wadd16, M16. lia.
Qed.

Lemma calc_pipe_tpos t hr hd rtt now t' p rc :
  calc_pipe t hr hd rtt now = Some (t', p, rc) -> tpos t -> tpos t'.
Proof.
  intros H [Hp Hu]. split; [eapply calc_pipe_pos; eauto|].
  destruct (calc_pipe_ev _ _ _ _ _ _ _ _ H) as (_ & E & _). rewrite E. exact Hu.
Qed.

Lemma on_sent_tpos t i now : tpos t -> tpos (on_sent t i now).
Proof. intros [Hp Hu]. split; [apply on_sent_pos; exact Hp|exact Hu]. Qed.

Lemma pop_mtu_probe_tpos t q t' b : pop_mtu_probe t q = (t', b) -> tpos t -> tpos t'.
Proof.
  intros H [Hp Hu]. split; [eapply pop_mtu_probe_pos; eauto|].
  unfold pop_mtu_probe in H. destruct (last_and_init (ss_segs t)) as [[init g]|].
  - destruct (_ && _); injection H as <- _; exact Hu.
  - injection H as <- _; exact Hu.
Qed.

Lemma pop_expired_tpos t to mr t' pe : pop_expired_mtu_probe t to mr = (t', pe) -> tpos t -> tpos t'.
Proof.
  intros H [Hp Hu]. split; [eapply pop_expired_pos; eauto|].
  unfold pop_expired_mtu_probe in H. destruct (last_and_init (ss_segs t)) as [[init g]|].
  - destruct (sg_delivered g); [injection H as <- _; exact Hu|].
    destruct (to && sg_probe g && (mr <=? seg_retransmit_count g));
      [|destruct (sg_probe g)]; injection H as <- _; exact Hu.
  - injection H as <- _; exact Hu.
Qed.

Lemma segment_loop_una : forall fuel nagle ss segs rm rwr ss' segs' rm',
  segment_loop fuel nagle ss segs rm rwr = Some (ss', segs', rm') -> ss_snd_una segs' = ss_snd_una segs.
Proof.
  induction fuel as [|b fuel IH]; intros nagle ss segs rm rwr ss' segs' rm'; cbn [segment_loop].
  - intro H; injection H as _ <- _. reflexivity.
  - destruct (_ && _); [|intro H; injection H as _ <- _; reflexivity].
    destruct (next_segment_size ss) as [[ss1 sz]|]; [|discriminate].
    destruct (nagle && _ && _); [intro H; injection H as _ <- _; reflexivity|].
    destruct (mss ss1 <? _).
    + intro H; injection H as _ <- _. reflexivity.
    + intro H. apply IH in H. rewrite H. reflexivity.
Qed.

Section WithCC.
Context {CC : Type} (cci : cc_iface CC).
Notation vsock := (vsock CC).

Definition sp (s : vsock) : Prop := 1 <= mss (v_ss s) /\ tpos (v_segs s).
Definition spR (s s' : vsock) : Prop := sp s -> sp s'.

Lemma spR_refl s : spR s s.
Proof. intro H; exact H. Qed.
Lemma spR_trans a b c : spR a b -> spR b c -> spR a c.
Proof. intros F G H. auto. Qed.

Lemma spR_same (s s' : vsock) : v_ss s' = v_ss s -> v_segs s' = v_segs s -> spR s s'.
Proof. intros E1 E2 H. unfold sp. rewrite E1, E2. exact H. Qed.

Lemma SQ_spR (s s' : vsock) : SQ s s' -> spR s s'.
Proof. intros (_&_&_&_&_&A6&_&_&_&A10&_). apply spR_same; assumption. Qed.

Lemma stk_SQ_spR {A} (s : vsock) (m : step A) : stk SQ s m -> stRk spR s m.
Proof. destruct m; cbn [stk stRk]; auto using SQ_spR. Qed.

Ltac sp_same := apply spR_same; exact eq_refl.

Lemma recovery_on_ack_pos r h segs ls cc now rtt r' segs' cc' :
  recovery_on_ack cci r h segs ls cc now rtt = Some (r', segs', cc') -> tpos segs -> tpos segs'.
Proof.
  intros H Hp. unfold recovery_on_ack in H. cbn [rv_phase] in H. destruct (rv_phase r).
  - destruct (seq_ge _ _); inversion H; subst; exact Hp.
  - destruct (ss_segs segs) eqn:Es; [inversion H; subst; exact Hp|].
    match type of H with match ?c with _ => _ end = _ => destruct c as [[dup' la']|] end; [|discriminate].
    destruct (_ <? _); [inversion H; subst; exact Hp|].
    destruct (calc_pipe _ _ _ _ _) as [[[sg pipe] recalc]|] eqn:Ec; [|discriminate].
    inversion H; subst. eapply calc_pipe_tpos; eauto.
  - destruct (seq_ge _ _); inversion H; subst; exact Hp.
Qed.

Lemma pim_ack_spR s1 h s2 res : pim_ack cci s1 h = Some (s2, res) -> spR s1 s2.
Proof.
  unfold pim_ack. destruct (remove_up_to_ack _ _ _ _) as [segs1 res0] eqn:Er.
  destruct (match is_recovering (v_recovery s1) with true => _ | false => _ end) as [rtte1|]; [|discriminate].
  destruct (cc_on_ack cci _ _ _ _) as [cc3|]; [|discriminate].
  destruct (recovery_on_ack cci _ _ _ _ _ _ _) as [[[rec1 segs2] cc4]|] eqn:Eo; [|discriminate].
  intro H; injection H as <- _. intros [H1 H2]. unfold sp. vsimpl_goal. split.
  - pose proof (mss_on_payload_delivered (v_ss s1) (ar_max_acked_payload res0)). lia.
  - eapply recovery_on_ack_pos; [exact Eo|]. eapply remove_up_to_ack_tpos; eauto.
Qed.

Lemma pim_data_spR s2 m res offset : stRk spR s2 (pim_data cci s2 m res offset).
Proof.
  unfold pim_data. destruct (offset <? 0).
  { cbn [stRk]. unfold force_immediate_ack. sp_same. }
  cbv zeta.
  destruct (rx_add_remove _ KData (m_payload m) offset) as [[rx1 ar] w].
  set (s4 := add_wakes _ _).
  assert (H4 : spR s2 s4).
  { unfold s4, add_wakes. intros [H1 H2]. unfold sp. vsimpl_goal. split; [|exact H2].
    pose proof (mss_on_payload_delivered (v_ss s2) (Z.of_nat (length (m_payload m)))). lia. }
  clearbody s4.
  destruct ar as [r|]; [|exact I].
  destruct (add_err r); [exact I|].
  set (s5 := match r with ArConsumed _ _ => _ | _ => s4 end).
  assert (H5 : spR s2 s5).
  { eapply spR_trans; [exact H4|]. unfold s5, restart_remote_inactivity_timer. destruct r; sp_same. }
  clearbody s5.
  destruct (_ || _); [|exact H5].
  pose proof (send_ack_SQ (force_immediate_ack s5)) as Ha.
  destruct (send_ack (force_immediate_ack s5)) as [s6 b|s6 e|]; cbn [sbind stk stRk] in *; auto.
  eapply spR_trans; [exact H5|]. eapply spR_trans; [|apply SQ_spR; exact Ha].
  unfold force_immediate_ack. sp_same.
Qed.

Lemma pim_fin_spR s2 m res offset seen : stRk spR s2 (pim_fin s2 m res offset seen).
Proof.
  unfold pim_fin. cbv zeta. destruct (_ && _).
  - destruct (rx_add_remove _ KFin _ _) as [[rx1 ar] w].
    destruct ar as [r|]; [|exact I].
    destruct (add_err r); [exact I|].
    destruct (mark_vsock_closed _) as [tx1 w2]. cbn [stRk].
    unfold add_wakes, force_immediate_ack. sp_same.
  - cbn [stRk]. unfold force_immediate_ack. sp_same.
Qed.

Lemma stRk_weaken (R : vsock -> vsock -> Prop) (Rt : forall a b c, R a b -> R b c -> R a c)
  {A} (m : step A) s0 s : R s0 s -> stRk R s m -> stRk R s0 m.
Proof. intros H Hm. destruct m; cbn [stRk] in *; auto. eapply Rt; eauto. Qed.

Lemma stRk_bind (R : vsock -> vsock -> Prop) (Rt : forall a b c, R a b -> R b c -> R a c)
  {A X} (m : step A) (f : vsock -> A -> step X) s :
  stRk R s m -> (forall s1 a, stRk R s1 (f s1 a)) -> stRk R s (sbind m f).
Proof.
  intros Hm Hf. destruct m as [s1 a|s1 e|]; cbn [sbind stRk] in *; auto.
  specialize (Hf s1 a). destruct (f s1 a); cbn [stRk] in *; auto. eapply Rt; eauto.
Qed.

Lemma state_table_spR (s : vsock) h : spR s (tbl_state (state_table s h)).
Proof.
  unfold state_table, restart_remote_inactivity_timer.
  destruct (ch_type h); destruct (v_state s); cbn [tbl_state negb];
    repeat (match goal with |- context [if ?c then _ else _] => destruct c end);
    cbn [tbl_state]; sp_same.
Qed.

Lemma process_incoming_message_spR s m : stRk spR s (process_incoming_message cci s m).
Proof.
  rewrite process_incoming_message_eq.
  pose proof (state_table_spR s (m_hdr m)) as Ht.
  destruct (state_table s (m_hdr m)) as [s1|s1 e|s1]; cbn [tbl_state] in Ht; [exact Ht|exact I|].
  eapply (stRk_weaken spR spR_trans); [exact Ht|].
  unfold pim_cont. destruct (pim_ack cci s1 (m_hdr m)) as [[s2 res]|] eqn:Ea; [|exact I].
  pose proof (pim_ack_spR _ _ _ _ Ea) as H2. cbv zeta.
  destruct (ch_type (m_hdr m)); try exact H2.
  - eapply (stRk_weaken spR spR_trans); [exact H2|apply pim_data_spR].
  - eapply (stRk_weaken spR spR_trans); [exact H2|apply pim_fin_spR].
Qed.

Lemma maybe_send_fin_spR (s : vsock) : stRk spR s (maybe_send_fin s).
Proof.
  pose proof (maybe_send_fin_spec s) as H.
  destruct (maybe_send_fin s) as [s' [|]|s' e|]; cbn [stRk]; auto.
  - destruct H as (seq & _ & _ & Hf & _ & Hsg & _).
    unfold sd_frame in Hf. destruct Hf as (F1 & F2 & F3 & F4 & F5 & F6 & F7 & F8 & F9 & _).
    apply spR_same; assumption.
  - apply SQ_spR, sd_unchanged_SQ. exact H.
Qed.

Lemma recv_loop_spR : forall fuel (s : vsock) acc, stRk spR s (recv_loop cci fuel s acc).
Proof.
  assert (Hbase : forall (s : vsock) (acc : on_ack_result),
    stRk spR s
      (if v_inbox_closed s
       then sbind (maybe_send_fin (transition_to_fin_wait_1 s))
                  (fun s2 _ => SOk (set_state s2 Closed) (acc, true))
       else SOk (set_inbox_waker s true) (acc, false))).
  { intros s acc. destruct (v_inbox_closed s); [|cbn [stRk]; sp_same].
    eapply (stRk_weaken spR spR_trans); [apply SQ_spR, transition_to_fin_wait_1_SQ|].
    apply (stRk_bind spR spR_trans); [apply maybe_send_fin_spR|]. intros s2 _. cbn [stRk]. sp_same. }
  induction fuel as [|m0 fuel IH]; intros s acc; cbn [recv_loop];
    destruct (v_inbox s) as [|m rest] eqn:Ei; try apply Hbase; try exact I.
  eapply (stRk_weaken spR spR_trans) with (s := set_inbox s rest); [sp_same|].
  apply (stRk_bind spR spR_trans); [apply process_incoming_message_spR|].
  intros s1 r. destruct (_ || _); [apply spR_refl|apply IH].
Qed.

Lemma process_all_spR (s : vsock) : stRk spR s (process_all_incoming_messages cci s).
Proof.
  rewrite process_all_eq. apply (stRk_bind spR spR_trans); [apply recv_loop_spR|].
  intros s1 [r early]. rewrite pa_tail_eq.
  apply (stRk_bind spR spR_trans).
  - unfold pa_trunc.
    assert (F2 : spR s1 (pa_reset r s1)).
    { unfold pa_reset. destruct (_ || _); [|apply spR_refl].
      destruct (ss_segs _); [destruct (our_fin_if_unacked _)|]; unfold restart_remote_inactivity_timer; sp_same. }
    eapply (stRk_weaken spR spR_trans); [exact F2|].
    destruct (0 <? _); [|apply spR_refl]. cbv zeta.
    assert (Ha : spR (pa_reset r s1) (acked_counts_as_sent (pa_reset r s1))).
    { unfold acked_counts_as_sent. destruct (seq_gt _ _ && seq_lt _ _); [sp_same|apply spR_refl]. }
    revert Ha. generalize (acked_counts_as_sent (pa_reset r s1)). intros s2' Ha.
    destruct (truncate_front _ _) as [tx1 tr]. destruct tr; [|exact I].
    destruct (wake_writer tx1) as [tx2 w]. cbn [stRk]. eapply spR_trans; [exact Ha|]. unfold add_wakes. sp_same.
  - intros s3 _. unfold pa_pipe. destruct (rv_phase _); try apply spR_refl.
    destruct (calc_pipe _ _ _ _ _) as [[[segs' pipe] recalc]|] eqn:Ec; [|exact I].
    cbn [stRk]. intros [H1 H2]. unfold sp, set_recovering. vsimpl_goal. split; [exact H1|].
    eapply calc_pipe_tpos; eauto.
Qed.

Lemma split_spR (s : vsock) : stRk spR s (split_tx_queue_into_segments cci s).
Proof.
  unfold split_tx_queue_into_segments. cbv zeta.
  destruct (_ =? 0); [cbn [stRk]; sp_same|].
  match goal with |- stRk _ _ (if is_remote_fin_or_later (v_state ?x) then _ else _) =>
    set (sx := x) end.
  assert (F : spR s sx).
  { subst sx. destruct (_ && _); [|apply spR_refl]. destruct (grow _ _) as [tx1 g]. destruct g.
    - destruct (wake_writer tx1) as [tx2 w]. unfold add_wakes. sp_same.
    - sp_same. }
  clearbody sx.
  destruct (is_remote_fin_or_later _); [exact F|].
  destruct (pop_expired_mtu_probe _ _ _) as [segs1 pe] eqn:Ep.
  assert (Hcont : forall (tl : Z) (s2 : vsock), spR s s2 ->
    stRk spR s
      (if tl <? ss_len_bytes (v_segs s2) then SErr s2 (ErrBug BugInBufferComputations)
       else match segment_loop (ring (v_tx s2)) (o_nagle (v_opts s2)) (v_ss s2) (v_segs s2)
                    (tl - ss_len_bytes (v_segs s2)) (v_last_remote_window s2) with
            | Some (ss', segs', remaining) =>
                SOk (set_unsegmented (VSockRec.set_segs (set_ss s2 ss') segs') remaining) tt
            | None => SPanic
            end)).
  { intros tl s2 F2. destruct (_ <? _); [exact I|].
    destruct (segment_loop _ _ _ _ _ _) as [[[ss' segs'] rem]|] eqn:El; [|exact I].
    cbn [stRk]. intro H0. destruct (F2 H0) as [H1 [H2 H3]].
    destruct (segment_loop_pos _ _ _ _ _ _ _ _ _ H1 H2 El) as [P1 P2].
    unfold sp. vsimpl_goal. split; [unfold mss in *; lia|].
    split; [exact P1|rewrite (segment_loop_una _ _ _ _ _ _ _ _ _ El); exact H3]. }
  destruct pe.
  - apply Hcont. eapply spR_trans; [exact F|].
    intros [H1 H2]. pose proof (pop_expired_tpos _ _ _ _ _ Ep H2) as P.
    unfold sp. destruct (seq_gt _ _); vsimpl_goal; (split; [rewrite mss_on_probe_failed; exact H1|exact P]).
  - cbn [stRk]. eapply spR_trans; [exact F|]. sp_same.
  - apply Hcont. exact F.
Qed.

Lemma send_data_spR (s : vsock) h f : stRk spR s (send_data s h f).
Proof.
  pose proof (send_data_spec s h f) as H.
  destruct (send_data s h f) as [s' [| |]|s' e|]; cbn [stRk]; auto.
  - destruct H as (Hf & _ & Hs & _). unfold sd_frame in Hf.
    destruct Hf as (F1 & F2 & F3 & F4 & F5 & F6 & F7 & F8 & F9 & _).
    intros [H1 H2]. unfold sp. rewrite F9, Hs. split; [exact H1|apply on_sent_tpos; exact H2].
  - apply SQ_spR, sd_unchanged_SQ. apply H.
  - apply SQ_spR, sd_unchanged_SQ. apply H.
Qed.

Lemma recovery_loop_spR : forall items (s : vsock) h mss0 st,
  stRk spR s (recovery_loop items s h mss0 st).
Proof.
  induction items as [|f rest IH]; intros s h mss0 st; cbn [recovery_loop].
  - apply spR_refl.
  - destruct (negb _); [apply spR_refl|].
    destruct (_ && negb (sg_lost _)); [apply IH|].
    destruct (_ && negb (sg_sacks_after _)); [apply spR_refl|].
    pose proof (send_data_spR s h f) as F.
    destruct (send_data s h f) as [s1 r|s1 e|]; cbn [stRk] in *; auto.
    destruct r; cbn [stRk]; auto.
    eapply (stRk_weaken spR spR_trans); [exact F|apply IH].
Qed.

Lemma new_data_loop_spR : forall items (s : vsock) h rem,
  stRk spR s (new_data_loop items s h rem).
Proof.
  induction items as [|f rest IH]; intros s h rem; cbn [new_data_loop].
  - apply spR_refl.
  - destruct (_ <? _); [apply spR_refl|].
    pose proof (send_data_spR s h f) as F.
    destruct (send_data s h f) as [s1 r|s1 e|]; cbn [stRk] in *; auto.
    destruct r; cbn [stRk]; auto.
    eapply (stRk_weaken spR spR_trans); [exact F|apply IH].
Qed.

Lemma send_tx_queue_spR (s : vsock) : stRk spR s (send_tx_queue cci s).
Proof.
  rewrite send_tx_queue_eq. destruct (v_transport_pending s); [apply spR_refl|].
  apply (stRk_bind spR spR_trans).
  - unfold rto_branch. destruct (timer_expired _ _); [|apply spR_refl].
    destruct (iter_for_sending _ _) as [|f l].
    + destruct (our_fin_if_unacked _); [|cbn [stRk]; sp_same].
      destruct (_ =? _); [|cbn [stRk]; sp_same].
      eapply (stRk_weaken spR spR_trans) with (s := set_last_sent_seq_nr s (wsub16 (v_last_sent_seq_nr s) 1));
        [sp_same|].
      apply (stRk_bind spR spR_trans); [apply maybe_send_fin_spR|].
      intros s1 a. destruct a; [|apply spR_refl].
      destruct (on_rto_reactions cci s1) as [s3|] eqn:E; [|exact I].
      destruct (on_rto_reactions_spec _ _ _ E) as (R1 & R2 & R3 & R4 & R5 & R6 & R7 & R8 & R9 & R10 & R11 & R12 & R13 & R14 & _).
      cbn [stRk]. eapply spR_trans; [apply spR_same; [exact R14|exact R5]|]. sp_same.
    + pose proof (send_data_spR s (outgoing_header s) f) as Hd.
      destruct (send_data _ _ f) as [s1 r|s1 e|]; cbn [stRk] in *; auto.
      destruct r; cbn [stRk]; auto.
      cbv zeta.
      match goal with |- stRk _ _ (match ?o with _ => _ end) => destruct o as [s2|] eqn:E end; [|exact I].
      assert (F2 : spR s1 s2).
      { destruct (negb _); [|injection E as <-; apply spR_refl].
        destruct (on_rto_reactions_spec _ _ _ E) as (R1 & R2 & R3 & R4 & R5 & R6 & R7 & R8 & R9 & R10 & R11 & R12 & R13 & R14 & _).
        apply spR_same; assumption. }
      cbn [stRk]. eapply spR_trans; [exact Hd|]. eapply spR_trans; [exact F2|]. sp_same.
  - intros s1 ret. unfold after_rto_k. destruct ret; [apply spR_refl|].
    destruct (0 <? _); [apply spR_refl|]. destruct (ss_segs _); [apply spR_refl|].
    apply (stRk_bind spR spR_trans).
    + unfold rec_branch. destruct (rv_phase _) as [rp|d|rc]; try apply spR_refl.
      apply (stRk_bind spR spR_trans); [apply recovery_loop_spR|].
      intros s2 res.
      destruct (rec_after rc (outgoing_header s) (mss (v_ss s1)) s2 res) as [s' b|s' e|] eqn:E; cbn [stRk]; auto.
      assert (Hs : step_st (rec_after rc (outgoing_header s) (mss (v_ss s1)) s2 res) = Some s') by (rewrite E; reflexivity).
      destruct (rec_after_spec _ _ _ _ _ _ Hs) as (P & A1 & A2 & A3 & A4 & A5 & _).
      apply spR_same; assumption.
    + intros s2 ret. destruct ret; [apply spR_refl|].
      unfold new_branch. apply (stRk_bind spR spR_trans); [apply new_data_loop_spR|].
      intros s3 tl. unfold new_after. destruct tl as [[sq sz]|]; [|apply spR_refl].
      destruct (pop_mtu_probe _ _) as [segs' popped] eqn:Ep. destruct popped; cbn [stRk]; [|exact I].
      intros [H1 H2]. unfold sp. vsimpl_goal. split; [exact H1|]. eapply pop_mtu_probe_tpos; eauto.
Qed.

(* ------------------------------------------------------------------ a whole Pending poll, every live event *)
Theorem poll_pending_sp (s s' : vsock) : poll cci s = (s', PollPending) -> sp s -> sp s'.
Proof.
  intros H Hs.
  assert (Hi : sp (poll_init s)) by exact Hs.
  revert Hi. change (spR (poll_init s) s').
  apply (poll_Rp cci spR spR_refl spR_trans) in H.
  - destruct H as [[_ H]|(sa & sb & b & G1 & G2 & G3 & _ & _ & _ & ->)]; [exact H|].
    eapply spR_trans; [exact G1|]. eapply spR_trans; [exact G3|]. apply SQ_spR, poll_tail_SQ.
  - intro s0. apply SQ_spR, poll_start_SQ.
  - intro s0. apply stk_SQ_spR, maybe_send_syn_ack_SQ.
  - intro s0. apply stk_SQ_spR, send_ack_SQ.
  - apply process_all_spR.
  - intros s0 rx1 fb w _. apply SQ_spR, add_wakes_rx_SQ.
  - apply split_spR.
  - apply send_tx_queue_spR.
  - intro s0. apply SQ_spR, transition_to_fin_wait_1_SQ.
  - apply maybe_send_fin_spR.
  - intro s0. apply stk_SQ_spR, maybe_send_ack_SQ.
Qed.

Lemma sp_vstep_live (s : vsock) o :
  sp s -> poll_finished (vstep_out cci s o) = false -> sp (vstep_state cci s o).
Proof.
  intros Hp Hl. destruct o; try exact Hp.
  - destruct (poll cci (VSockRec.set_sends s script)) as [s' r] eqn:E.
    destruct (vstep_poll cci s script s' r E) as [V1 V2]. rewrite V1. rewrite V2 in Hl.
    destruct r; try discriminate. eapply poll_pending_sp; [exact E|exact Hp].
  - unfold vstep_state. cbn [vstep]. destruct (v_inbox_closed s); exact Hp.
  - unfold vstep_state. cbn [vstep]. destruct (writer_dropped (v_tx s)); [exact Hp|].
    destruct (poll_write (v_tx s) buf) as [[tx1 r] w]. exact Hp.
  - unfold vstep_state. cbn [vstep]. destruct (writer_dropped (v_tx s)); [exact Hp|].
    destruct (poll_flush (v_tx s)) as [[tx1 r] w]. exact Hp.
  - unfold vstep_state. cbn [vstep]. destruct (writer_dropped (v_tx s)); [exact Hp|].
    destruct (poll_shutdown (v_tx s)) as [[tx1 r] w]. exact Hp.
  - unfold vstep_state. cbn [vstep]. destruct (reader_dropped (v_rx s)); [exact Hp|].
    destruct (rx_read (v_rx s) n) as [[rx1 r] w]. exact Hp.
  - unfold vstep_state. cbn [vstep]. destruct (reader_dropped (v_rx s)); [exact Hp|].
    destruct (rx_drop_reader (v_rx s)) as [rx1 w]. exact Hp.
  - unfold vstep_state. cbn [vstep]. destruct (drop_writer (v_tx s)) as [tx1 w]. exact Hp.
Qed.

Lemma sp_vsock_new mk c s : 0 <= vc_isn c < M16 -> vsock_new cci mk c = Some s -> sp s.
Proof.
  intros Hi H. split; [eapply mss_pos_vsock_new; exact H|].
  unfold vsock_new in H.
  destruct (match (if vc_incoming c then None else _) with Some r => _ | None => _ end); [|discriminate].
  inversion H; subst. unfold tpos, segs_pos, segments_new. cbn [v_segs ss_segs ss_snd_una].
  split; [constructor|]. destruct (vc_incoming c); [exact Hi|unfold wadd16, M16; lia].
Qed.

End WithCC.

(* C05, zero-window clause at full strength: refutation witness (known class D16).
   The faithful model — and the real code, see known_findings.json — transmits a NEVER-SENT segment
   into a zero window when the retransmission timer fires: the ACK that closed the window re-armed the
   timer because the segment table was not empty, and the RTO branch of send_tx_queue sends the first
   undelivered segment whatever its history.
   case: vsock out 1 1500 1048576 32768 1048576 0 5 10000000000 1 1 100 1 7 1048576 5 1000000
         W3000,0 P M2,1,101,0,10,0,0,- P T3000000000 P *)
From Utp Require Import Base.Prelude Wire.SeqNr Wire.Header Rtt.Rtte Mtu.SegSizes Rx.Rx Tx.Ring Tx.Segments
  Conn.Recovery Conn.Msg Conn.VSockRec Conn.VSock Conn.VSockRun Conn.VObs Conn.C10_Pred Conn.VSock_Inv
  Conn.C10_Proofs Conn.C05_Pred.

Definition d16_cfg : vconfig :=
  {| vc_incoming := false; vc_ipv4 := true; vc_link_mtu := 1500; vc_rx_buf := 1048576;
     vc_tx_init := 32768; vc_tx_max := 1048576; vc_nagle := false; vc_max_retx := 5;
     vc_inactivity := 10000000000; vc_wait_last_ack := true; vc_mtu_probe_max_retx := 1;
     vc_isn := 100; vc_remote_seq := 1; vc_remote_conn_id := 7; vc_remote_wnd := 1048576;
     vc_remote_ts := 5; vc_syn_sent := 0; vc_now0 := 1000000 |}.

Definition d16_ack : msg :=
  {| m_hdr := {| ch_type := ST_STATE; ch_conn_id := 0; ch_ts := 10; ch_ts_diff := 0; ch_wnd := 0;
                 ch_seq := 1; ch_ack := 101; ch_sack := None; ch_close_reason := None |};
     m_payload := [] |}.

Definition d16_ops : list vop :=
  [VoWrite (repeat 0 (Z.to_nat 3000)); VoPoll []; VoDeliver d16_ack; VoPoll [];
   VoSetNow 3000000000; VoPoll []].

Lemma zero_window_new_payload_refuted :
  exists w cfg ops,
    vconfig_ok cfg = true /\ Forall op_msg_ok ops /\
    forallb (c05_zero_window_strict cfg) (wtrace w cfg ops) = false /\
    existsb (c05_d16_class cfg) (wtrace w cfg ops) = true /\
    (* everywhere outside the known class the strict clause holds on this trace *)
    forallb (fun st => c05_zero_window_strict cfg st || c05_d16_class cfg st) (wtrace w cfg ops) = true.
Proof.
  exists 1056, d16_cfg, d16_ops.
  split; [vm_compute; reflexivity|]. split.
  { repeat constructor. }
  split; [vm_compute; reflexivity|]. split; vm_compute; reflexivity.
Qed.

(* C05 (d), slow start: the assumption the trace predicate c05_slow_start_ok needs about the abstract
   congestion controller, as an explicit hypothesis on the interface, and what follows from it for every
   sequence of controller calls the connection makes before the first loss event.
   PARTIAL: the connection-level statement (c05_slow_start_ok on every trace) is NOT proved here; see the
   comment at the end. *)
From Utp Require Import Base.Prelude Conn.Recovery.

Section WithCC.
Context {CC : Type} (cci : cc_iface CC) (mk : Z -> Z -> CC).

(* the calls process_incoming_message makes before any loss event *)
Inductive ss_op := SsSetMss (m : Z) | SsSetWnd (w : Z) | SsAck (now len rtt : Z).

Fixpoint ss_run (c : CC) (ops : list ss_op) : option CC :=
  match ops with
  | [] => Some c
  | SsSetMss m :: r => ss_run (cc_set_mss cci c m) r
  | SsSetWnd w :: r => ss_run (cc_set_remote_window cci c w) r
  | SsAck now len rtt :: r =>
      match cc_on_ack cci c now len rtt with Some c' => ss_run c' r | None => None end
  end.

Fixpoint ss_mss_hi (mh : Z) (ops : list ss_op) : Z :=
  match ops with [] => mh | SsSetMss m :: r => ss_mss_hi (Z.max mh m) r | _ :: r => ss_mss_hi mh r end.
Fixpoint ss_bytes (ops : list ss_op) : Z :=
  match ops with [] => 0 | SsAck _ len _ :: r => len + ss_bytes r | _ :: r => ss_bytes r end.
Fixpoint ss_acks (ops : list ss_op) : Z :=
  match ops with [] => 0 | SsAck _ _ _ :: r => 1 + ss_acks r | _ :: r => ss_acks r end.
Definition ss_ops_ok (ops : list ss_op) : Prop :=
  Forall (fun o => match o with SsAck _ len _ => 0 <= len | _ => True end) ops.

(* the hypothesis: some invariant I c mss_hi bytes acks of the controller state bounds the window by
   two segments plus the bytes acknowledged plus one byte of rounding slack per ACK, and is kept by the
   three calls (slow-start growth; set_mss rescales, never resets) *)
Definition cc_ss_ok : Prop :=
  exists I : CC -> Z -> Z -> Z -> Prop,
    (forall now m, 1 <= m -> I (mk now m) m 0 0) /\
    (forall c mh b k, I c mh b k -> cc_window cci c <= 2 * mh + b + k) /\
    (forall c mh b k m, I c mh b k -> I (cc_set_mss cci c m) (Z.max mh m) b k) /\
    (forall c mh b k w, I c mh b k -> I (cc_set_remote_window cci c w) mh b k) /\
    (forall c mh b k now len rtt c', I c mh b k -> 0 <= len ->
        cc_on_ack cci c now len rtt = Some c' -> I c' mh (b + len) (k + 1)).

Theorem ss_window_bound : cc_ss_ok ->
  forall now m ops c, 1 <= m -> ss_ops_ok ops -> ss_run (mk now m) ops = Some c ->
  cc_window cci c <= 2 * ss_mss_hi m ops + ss_bytes ops + ss_acks ops.
Proof.
  intros (I & I0 & Iw & Im & Ir & Ia) now m ops c Hm Hok Hrun.
  assert (G : forall ops c0 mh b k c, I c0 mh b k -> ss_ops_ok ops -> ss_run c0 ops = Some c ->
             I c (ss_mss_hi mh ops) (b + ss_bytes ops) (k + ss_acks ops)).
  { clear - Im Ir Ia. induction ops as [|o r IH]; intros c0 mh b k c H0 Hok Hrun.
    - cbn in *. injection Hrun as <-. rewrite !Z.add_0_r. exact H0.
    - inversion Hok as [|? ? Ho Hok']; subst. destruct o as [m'|w|now len rtt]; cbn [ss_run ss_mss_hi ss_bytes ss_acks] in *.
      + eapply IH; [apply Im; exact H0|exact Hok'|exact Hrun].
      + eapply IH; [apply Ir; exact H0|exact Hok'|exact Hrun].
      + destruct (cc_on_ack cci c0 now len rtt) as [c1|] eqn:E; [|discriminate].
        pose proof (IH c1 mh (b + len) (k + 1) c (Ia _ _ _ _ _ _ _ _ H0 Ho E) Hok' Hrun) as H.
        replace (b + (len + ss_bytes r)) with (b + len + ss_bytes r) by lia.
        replace (k + (1 + ss_acks r)) with (k + 1 + ss_acks r) by lia. exact H. }
  specialize (G ops (mk now m) m 0 0 c (I0 now m Hm) Hok Hrun). apply Iw in G. lia.
Qed.

End WithCC.

(* the hypothesis is satisfiable: the ideal slow-start controller, window = 2 * mss_hi + bytes acknowledged *)
Definition ideal_ss : cc_iface (Z * Z) :=
  {| cc_window := fun c => 2 * fst c + snd c; cc_sshthresh := fun _ => 0;
     cc_set_mss := fun c m => (Z.max (fst c) m, snd c); cc_smss := fun c => fst c;
     cc_on_recovered := fun c _ _ => c;
     cc_on_ack := fun c _ len _ => Some (fst c, snd c + len); cc_on_rto := fun c _ => c;
     cc_on_enter_recovery := fun c _ => c; cc_set_remote_window := fun c _ => c |}.

Example ideal_ss_ok : cc_ss_ok ideal_ss (fun _ m => (m, 0)).
Proof.
  exists (fun c mh b k => fst c = mh /\ snd c = b /\ 0 <= k).
  split; [intros now m Hm; cbn [fst snd]; repeat split; lia|].
  split; [intros c mh b k (A & B0 & C0); cbv [ideal_ss cc_window]; lia|].
  split; [intros c mh b k m (A & B0 & C0); cbv [ideal_ss cc_set_mss]; cbn [fst snd]; repeat split; try lia; congruence|].
  split; [intros c mh b k w H; exact H|].
  intros c mh b k now len rtt c' (A & B0 & C0) Hl H. cbv [ideal_ss cc_on_ack] in H. injection H as <-.
  cbn [fst snd]. repeat split; try lia; congruence.
Qed.

(* What is missing for c05_slow_start_ok on every trace (open):
   (1) the connection-level accounting "sent-and-undelivered payload <= the largest window seen so far" across
       polls needs the never-sent-suffix shape of the table and last_sent_seq_nr within the table (the clause
       of c05_fp_ok that is monitored, not proved: a peer acknowledging unsent data breaks it);
   (2) the controller calls of a trace are exactly an ss_run (set_mss / set_remote_window / on_ack per message,
       until on_rto / on_enter_recovery = the first loss event of the predicate) with ss_bytes <= the
       predicate's `acked` and ss_acks <= its count of deliveries - a bookkeeping induction over ftrace;
   (3) for CUBIC the hypothesis cc_ss_ok is the byte-level bound of C15 (window' <= window + len + 1), which
       Props/C15 has only in MSS units (c15_slow_start_growth_partial).
   The per-poll part is proved: c05_window_ok2 bounds what one poll sends by the window it leaves. *)

(* C14 and C08 at connection level — boolean predicates over observed steps (Conn/VObs).  Model-only file.
   MONITORED on every implementation trace (the component-level theorems of Mtu/SegSizes_Proofs and the
   function-level theorems about the poll are what is proved about the model). *)
From Utp Require Import Base.Prelude Wire.SeqNr Wire.Header Mtu.SegSizes Tx.Segments Conn.Recovery Conn.Msg
  Conn.VSockRun Conn.VObs Conn.C10_Pred Conn.C05_Pred.

(* ---- C14 "No datagram larger than the configured link MTU allows is ever emitted (whatever sizes the
   peer uses)": every datagram of a poll carries at most the payload ceiling implied by the link MTU
   (link - IP header - UDP header - uTP header, at least 1) and no extension beyond the 20-byte header is
   counted here (SACK extensions only ride on payload-less ST_STATE packets). *)
Definition c14_datagram_ok (cfg : vconfig) (st : fstep) : bool :=
  match fs_result st with
  | FrPoll _ pkts _ _ => forallb (fun p => fq_plen p <=? ceiling_of (ss_config_of cfg)) pkts
  | _ => true
  end.

(* ---- C14 "ordinary segments never exceed the largest payload size already proven deliverable (or the
   protocol minimum), at most one oversized probe is outstanding and it is the newest segment": on the
   table a poll leaves behind, an undelivered segment flagged as probe is larger than the proven size and
   is the last one; every other undelivered segment is at most the proven size. *)
Fixpoint c14_table_ok (l : list fseg) : bool :=
  match l with
  | [] => true
  | g :: r =>
      (if negb (fg_delivered g) && fg_probe g then match r with [] => true | _ => false end else true) &&
      c14_table_ok r
  end.

(* segments cut by this poll (they start at or beyond the end of the table as it was before): a segment is
   a probe exactly when it is larger than the proven size in force *)
Definition c14_new_segment_ok (pre_end mss : Z) (g : fseg) : bool :=
  if pre_end <=? fg_abs g then Bool.eqb (fg_probe g) (mss <? fg_size g) else true.

Definition c14_segments_ok (cfg : vconfig) (st : fstep) : bool :=
  match fs_result st with
  | FrPoll PollPending _ _ _ =>
      let f := fs_post st in
      c14_table_ok (f_segs f) &&
      forallb (c14_new_segment_ok (f_seg_offset (fs_pre st)) (f_mss f)) (f_segs f) &&
      (floor_of (ss_config_of cfg) <=? f_mss f) && (f_mss f <=? f_max_ss f) &&
      (f_max_ss f <=? ceiling_of (ss_config_of cfg))
  | _ => true
  end.

(* ---- C08 "Once the application has let go of a stream (both halves dropped, or shutdown completed) or
   the connection has failed, its background task ends within a bounded time under any network behaviour":
   a poll that leaves the connection alive in a state where its own FIN is out (FinWait1, FinWait2,
   LastAck) has a deadline armed — the inactivity / final-chance timer — so that silence from the peer
   ends the task; and the poll asked to be woken no later than that deadline. *)
Definition c08_deadline_ok (cfg : vconfig) (st : fstep) : bool :=
  match fs_event st, fs_result st with
  | FePoll _, FrPoll PollPending _ _ arm =>
      let f := fs_post st in
      if is_local_fin_or_later (f_state f) && negb (f_transport_pending f) then
        match f_t_inactivity f with
        | Some t =>
            (t <=? fs_now st + Z.max 1000000000 (vc_inactivity cfg)) &&
            match arm with
            | Some d => fs_now st + d <=? Z.max t (fs_now st)
            | None => false
            end
        | None => false
        end
      else true
  | _, _ => true
  end.

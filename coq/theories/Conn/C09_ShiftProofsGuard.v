(* C09 trace shift: the guard does not depend on the labelling — a state / scenario inside the guard
   is still inside it after the relabelling (so the claim of the clause is about the scenario, not about
   the numbers it happens to be labelled with, and the relabelling can be iterated). *)
From Utp Require Import Base.Prelude Wire.SeqNr Wire.SeqNr_Proofs Wire.Header Rtt.Rtte Mtu.SegSizes Rx.Rx Tx.Ring
  Tx.Segments Conn.Recovery Conn.Msg Conn.VSockRec Conn.VSock Conn.VSockRun Conn.VObs Conn.VSock_LemmasIn
  Conn.C09_Pred Conn.C09_Shift Conn.C09_ShiftProofsSeq Conn.C09_ShiftProofsSeg Conn.C09_ShiftProofsRec
  Conn.C09_ShiftProofsTx Conn.C09_ShiftProofsIn Conn.C09_ShiftProofsPoll.

Lemma near_shift' tol d x r : near tol (sh16 d x) (sh16 d r) = near tol x r.
Proof.
  unfold near, sh16. replace (((x + d) mod M16 - (r + d) mod M16) mod M16) with ((x - r) mod M16); [reflexivity|].
  unfold M16. lia.
Qed.

Lemma cmp_ok_shift d a b : cmp_ok a b = true -> cmp_ok (sh16 d a) (sh16 d b) = true.
Proof.
  unfold cmp_ok. intros H. apply andb_true_iff in H as [_ H].
  now rewrite !u16_ok_sh16, near_shift', H.
Qed.

Lemma eq_ok_shift d a b : eq_ok (sh16 d a) (sh16 d b) = true.
Proof. unfold eq_ok. now rewrite !u16_ok_sh16. Qed.

(* ---- Segments / Recovery ---- *)
Lemma g_remove_up_to_ack_shift d t ack sk : g_remove_up_to_ack t ack sk = true ->
  g_remove_up_to_ack (shift_segments d t) (sh16 d ack) sk = true.
Proof.
  unfold g_remove_up_to_ack. intros G. apply andb_true_iff in G as [G1 G2]. ssimpl.
  rewrite (cmp_ok_shift d _ _ G1), (cmp_ok_seq_sub d _ _ G1). cbn [andb]. cbv zeta in *.
  set (dc := if 0 <=? seq_sub ack (ss_snd_una t) then _ else 0%nat) in *.
  destruct (skipn dc (ss_segs t)); [reflexivity|]. destruct sk; [|reflexivity].
  apply andb_true_iff in G2 as [G2 G3].
  rewrite sh16_wadd16, (cmp_ok_shift d _ _ G2), (cmp_ok_seq_gt d _ _ G2). cbn [andb].
  destruct (seq_gt _ ack); [|reflexivity]. rewrite sh16_wadd16. now apply cmp_ok_shift.
Qed.

Lemma g_calc_flight_size_shift d t ls : g_calc_flight_size t ls = true ->
  g_calc_flight_size (shift_segments d t) (sh16 d ls) = true.
Proof. unfold g_calc_flight_size. ssimpl. apply cmp_ok_shift. Qed.

Lemma g_iter_for_sending_shift d t st : g_iter_for_sending t st = true ->
  g_iter_for_sending (shift_segments d t) (shift_start d st) = true.
Proof. unfold g_iter_for_sending. destruct st; [|reflexivity]. ssimpl. apply cmp_ok_shift. Qed.

Lemma g_calc_pipe_shift d t hr hd : g_calc_pipe t hr hd = true ->
  g_calc_pipe (shift_segments d t) (sh16 d hr) (sh16 d hd) = true.
Proof.
  unfold g_calc_pipe. intros G. apply andb_true_iff in G as [G1 G2]. ssimpl.
  rewrite (cmp_ok_shift d _ _ G1), (cmp_ok_seq_sub d _ _ G1). cbn [andb]. cbv zeta in *.
  rewrite forallb_forall in *. intros p Hp. rewrite sh16_wadd16. apply cmp_ok_shift. now apply G2.
Qed.

Lemma g_recovery_on_ack_shift da db r h segs ls : g_recovery_on_ack r h segs ls = true ->
  g_recovery_on_ack (shift_recovery da r) (shift_in_hdr da db h) (shift_segments da segs) (sh16 da ls) = true.
Proof.
  unfold g_recovery_on_ack. cbn [shift_recovery rv_phase rv_last_ack shift_in_hdr ch_ack]. ssimpl.
  destruct (rv_phase r) as [rp|dup|rc]; cbn [shift_rphase rc_recovery_point].
  - apply cmp_ok_shift.
  - destruct (ss_segs segs); [reflexivity|]. intros G. apply andb_true_iff in G as [G1 G2].
    apply andb_true_iff. split.
    + destruct (rv_last_ack r) as [[w a]|]; [apply eq_ok_shift|reflexivity].
    + rewrite sh16_wsub16. fold (shift_segments da segs). now apply g_calc_pipe_shift.
  - intros G. apply andb_true_iff in G as [G1 G2]. rewrite (cmp_ok_shift da _ _ G1). cbn [andb].
    fold (shift_segments da segs). now apply g_calc_flight_size_shift.
Qed.

Section G.
Variables da db dc : Z.
Context {CC : Type} (cci : cc_iface CC).
Notation vsock := (vsock CC).
Notation sh := (shift_vsock da db dc (CC:=CC)).
Notation so := (shift_out_hdr da db dc).
Notation si := (shift_in_hdr da db).
Notation sm := (shift_msg da db).
Notation sst := (shift_step da db dc (CC:=CC)).

Lemma gstep_shift {A} (fa : A -> A) (m m' : step (CC:=CC) A) (gk gk' : vsock -> A -> bool) :
  m' = sst fa m -> gstep m gk = true ->
  (forall s a, gk s a = true -> gk' (sh s) (fa a) = true) ->
  gstep m' gk' = true.
Proof.
  intros -> G H. destruct m as [s a|s e|]; cbn [gstep shift_step] in *; [now apply H|reflexivity|reflexivity].
Qed.

Lemma g_ack_to_transmit_shift (s : vsock) : g_ack_to_transmit s = true -> g_ack_to_transmit (sh s) = true.
Proof. unfold g_ack_to_transmit. rewrite pj_last_consumed, pj_last_sent_ack_nr. apply cmp_ok_shift. Qed.

Lemma g_maybe_send_fin_shift (s : vsock) : g_maybe_send_fin s = true -> g_maybe_send_fin (sh s) = true.
Proof.
  unfold g_maybe_send_fin. rewrite pj_state, our_fin_shift, pj_last_sent_seq_nr.
  destruct (our_fin_if_unacked (v_state s)); [apply cmp_ok_shift|reflexivity].
Qed.

Lemma g_send_data_shift (s : vsock) f : g_send_data s f = true -> g_send_data (sh s) (shift_fs da f) = true.
Proof.
  unfold g_send_data. intros G. apply andb_true_iff in G as [G1 G2].
  cbn [shift_fs fs_seq]. rewrite pj_last_sent_seq_nr, pj_seq_nr, sh16_wadd16.
  now rewrite (cmp_ok_shift da _ _ G1), (cmp_ok_shift da _ _ G2).
Qed.

Lemma g_recovery_loop_shift h mss0 : forall items (s : vsock) st,
  g_recovery_loop items s h mss0 st = true ->
  g_recovery_loop (map (shift_fs da) items) (sh s) (so h) mss0 (shift_rl da st) = true.
Proof.
  induction items as [|f rest IH]; intros s st G; [reflexivity|].
  cbn [map g_recovery_loop] in *.
  cbn [shift_rl rl_total rl_cwnd rl_pipe rl_sent rl_high_rxt shift_fs fs_seg fs_seq].
  destruct (negb ((rl_total st =? 0) || (mss0 <? rl_cwnd st))); [reflexivity|].
  destruct ((0 <? rl_total st) && negb (sg_lost (fs_seg f))); [now apply IH|].
  destruct ((0 <? rl_total st) && negb (sg_sacks_after (fs_seg f))); [reflexivity|].
  apply andb_true_iff in G as [G1 G2].
  change {| fs_idx := fs_idx f; fs_seq := sh16 da (fs_seq f); fs_payload_offset := fs_payload_offset f;
            fs_seg := fs_seg f |} with (shift_fs da f).
  rewrite (g_send_data_shift s f G1), (send_data_shift da db dc s h f G1). cbn [andb].
  destruct (send_data s h f) as [s1 r|s1 e|]; [|reflexivity|reflexivity].
  cbn [shift_step]. unfold idf. destruct r; try reflexivity.
  exact (IH s1 _ G2).
Qed.

Lemma g_new_data_loop_shift h : forall items (s : vsock) remaining,
  g_new_data_loop items s h remaining = true ->
  g_new_data_loop (map (shift_fs da) items) (sh s) (so h) remaining = true.
Proof.
  induction items as [|f rest IH]; intros s remaining G; [reflexivity|].
  cbn [map g_new_data_loop] in *. cbn [shift_fs fs_seg fs_seq].
  destruct (remaining <? sg_size (fs_seg f)); [reflexivity|].
  apply andb_true_iff in G as [G1 G2].
  change {| fs_idx := fs_idx f; fs_seq := sh16 da (fs_seq f); fs_payload_offset := fs_payload_offset f;
            fs_seg := fs_seg f |} with (shift_fs da f).
  rewrite (g_send_data_shift s f G1), (send_data_shift da db dc s h f G1). cbn [andb].
  destruct (send_data s h f) as [s1 r|s1 e|]; [|reflexivity|reflexivity].
  cbn [shift_step]. unfold idf. destruct r; try reflexivity.
  exact (IH s1 _ G2).
Qed.

Lemma g_stq_after_rto_shift (s : vsock) : g_stq_after_rto s = true -> g_stq_after_rto (sh s) = true.
Proof.
  unfold g_stq_after_rto. rewrite pj_t_retransmit, pj_now.
  destruct (timer_expired (v_t_retransmit s) (v_now s)); [|reflexivity].
  rewrite pj_segs, iter_for_sending_shift_none.
  destruct (iter_for_sending (v_segs s) None) as [|f l]; cbn [map]; [|apply g_send_data_shift].
  rewrite pj_state, our_fin_shift. destruct (our_fin_if_unacked (v_state s)) as [fin|]; [|reflexivity].
  intros G. apply andb_true_iff in G as [G1 G2]. pose proof G1 as G1'.
  apply andb_true_iff in G1' as [Ga Gb].
  rewrite pj_last_sent_seq_nr, eq_ok_shift, (sh16_eqb da _ _ Ga Gb). cbn [andb].
  destruct (v_last_sent_seq_nr s =? fin); [|reflexivity].
  rewrite sh16_wsub16, st_last_sent_seq_nr. now apply g_maybe_send_fin_shift.
Qed.

Lemma g_stq_rec_items_shift (s : vsock) rc : g_stq_rec_items s rc = true ->
  g_stq_rec_items (sh s) (shift_recovering da rc) = true.
Proof.
  unfold g_stq_rec_items. rewrite pj_segs, iter_for_sending_shift_none.
  cbn [shift_segments ss_sack_depth shift_recovering rc_recovery_point rc_high_rxt].
  rewrite firstn_map, !forallb_forall. intros G x Hx.
  apply in_map_iff in Hx as (y & <- & Hy). apply G in Hy. apply andb_true_iff in Hy as [H1 H2].
  cbn [shift_fs fs_seq]. now rewrite (cmp_ok_shift da _ _ H1), (cmp_ok_shift da _ _ H2).
Qed.

Lemma g_stq_new_data_shift h (s : vsock) : g_stq_new_data cci h s = true ->
  g_stq_new_data cci (so h) (sh s) = true.
Proof.
  unfold g_stq_new_data. intros G. apply andb_true_iff in G as [G G3]. apply andb_true_iff in G as [G1 G2].
  rewrite (stq_remaining_shift da db dc cci s G1), pj_recovery, pj_last_remote_window, remaining_cwnd_shift,
    pj_segs, pj_last_sent_seq_nr, sh16_wadd16.
  change (Some (sh16 da (wadd16 (v_last_sent_seq_nr s) 1)))
    with (shift_start da (Some (wadd16 (v_last_sent_seq_nr s) 1))).
  rewrite (iter_for_sending_shift da _ _ G2), (g_iter_for_sending_shift da _ _ G2),
    (g_new_data_loop_shift h _ s _ G3).
  destruct (remaining_cwnd (v_recovery s) (v_last_remote_window s)); [reflexivity|].
  now rewrite g_calc_flight_size_shift.
Qed.

Lemma g_stq_tail2_shift h (s : vsock) ret : g_stq_tail2 cci h s ret = true ->
  g_stq_tail2 cci (so h) (sh s) (idf ret) = true.
Proof. unfold g_stq_tail2, idf. destruct ret; [reflexivity|]. apply g_stq_new_data_shift. Qed.

Lemma g_stq_tail1_shift h (s : vsock) ret : g_stq_tail1 cci h s ret = true ->
  g_stq_tail1 cci (so h) (sh s) (idf ret) = true.
Proof.
  unfold g_stq_tail1, idf. intros G. destruct ret; [reflexivity|].
  rewrite pj_rto_retransmissions. destruct (0 <? v_rto_retransmissions s); [reflexivity|].
  rewrite pj_segs. cbn [shift_segments ss_segs].
  destruct (ss_segs (v_segs s)) as [|x l]; [reflexivity|].
  rewrite pj_recovery. cbn [shift_recovery rv_phase].
  destruct (rv_phase (v_recovery s)) as [rp|d|rc]; cbn [shift_rphase];
    [exact (g_stq_tail2_shift h s false G)|exact (g_stq_tail2_shift h s false G)|].
  apply andb_true_iff in G as [G G3]. apply andb_true_iff in G as [G1 G2].
  change {| rc_recovery_point := sh16 da (rc_recovery_point rc); rc_high_rxt := sh16 da (rc_high_rxt rc);
            rc_total_retx := rc_total_retx rc; rc_pipe := rc_pipe rc; rc_recalc := rc_recalc rc;
            rc_cwnd := rc_cwnd rc |} with (shift_recovering da rc).
  rewrite (g_stq_rec_items_shift s rc G1), (stq_rec_items_shift da db dc s rc G1), pj_ss.
  change (stq_rec_st0 (shift_recovering da rc)) with (shift_rl da (stq_rec_st0 rc)).
  rewrite (g_recovery_loop_shift h _ _ s _ G2). cbn [andb].
  eapply gstep_shift. { now apply recovery_loop_shift. } { exact G3. }
  intros s1 res Gr. cbv beta in Gr. apply andb_true_iff in Gr as [Gr1 Gr2].
  apply andb_true_iff. split.
  { unfold g_stq_rec_finish, shift_rlres. cbn [fst shift_rl rl_high_rxt]. apply u16_ok_sh16. }
  eapply gstep_shift. { now apply stq_rec_finish_shift. } { exact Gr2. }
  intros s2 ret Gt. now apply g_stq_tail2_shift.
Qed.

Lemma g_send_tx_queue_shift (s : vsock) : g_send_tx_queue cci s = true -> g_send_tx_queue cci (sh s) = true.
Proof.
  unfold g_send_tx_queue. rewrite pj_transport_pending. destruct (v_transport_pending s); [reflexivity|].
  intros G. apply andb_true_iff in G as [G1 G2].
  rewrite (g_stq_after_rto_shift s G1), outgoing_header_shift. cbn [andb].
  eapply gstep_shift. { now apply stq_after_rto_shift. } { exact G2. }
  intros s1 ret Gt. now apply g_stq_tail1_shift.
Qed.

Lemma g_split_shift (s : vsock) : g_split cci s = true -> g_split cci (sh s) = true.
Proof.
  unfold g_split. rewrite pj_tx. destruct (Z.of_nat (length (ring (v_tx s))) =? 0); [reflexivity|].
  cbv zeta. rewrite split_s1_shift, pj_segs, pj_t_retransmit, pj_now, pj_opts, pj_state, is_local_fin_shift, pop_expired_shift.
  cbn [snd]. destruct (snd (pop_expired_mtu_probe _ _ _)) as [rw psz| |]; cbn [shift_pe]; try reflexivity.
  rewrite pj_last_sent_seq_nr. apply cmp_ok_shift.
Qed.

Lemma g_state_table_shift (s : vsock) h : g_state_table s h = true -> g_state_table (sh s) (si h) = true.
Proof.
  unfold g_state_table. cbn [shift_in_hdr ch_ack ch_seq]. rewrite pj_state, !u16_ok_sh16. cbn [andb].
  intros G. apply andb_true_iff in G as [_ G].
  destruct (v_state s); cbn [shift_state]; try reflexivity.
  - now rewrite pj_last_consumed, !u16_ok_sh16.
  - apply andb_true_iff in G as [_ G]. now rewrite u16_ok_sh16, (cmp_ok_shift db _ _ G).
Qed.

Lemma g_pim_shift (s : vsock) m : g_pim s m = true -> g_pim (sh s) (sm m) = true.
Proof.
  unfold g_pim. cbv zeta. cbn [shift_msg m_hdr]. intros G. apply andb_true_iff in G as [G1 G2].
  rewrite (g_state_table_shift s _ G1), (state_table_shift da db dc s _ G1). cbn [andb].
  destruct (state_table s (m_hdr m)) as [s1|s1 e|s1]; cbn [shift_table_res]; [reflexivity|reflexivity|].
  apply andb_true_iff in G2 as [G2 G5]. apply andb_true_iff in G2 as [G3 G4].
  rewrite pj_segs, pj_recovery, pj_now, pj_last_sent_seq_nr, pj_last_consumed.
  cbn [shift_in_hdr ch_ack ch_sack ch_seq].
  rewrite (g_remove_up_to_ack_shift da _ _ _ G3), (remove_up_to_ack_shift da _ _ _ _ G3). cbn [fst andb].
  fold (si (m_hdr m)).
  rewrite (g_recovery_on_ack_shift da db _ _ _ _ G4). cbn [andb].
  rewrite sh16_wadd16. now apply cmp_ok_shift.
Qed.

Lemma g_recv_loop_shift : forall fuel fuel' (s : vsock),
  length fuel' = length fuel -> g_recv_loop cci fuel s = true -> g_recv_loop cci fuel' (sh s) = true.
Proof.
  induction fuel as [|x fuel IH]; intros fuel' s HL G; destruct fuel' as [|x' fuel']; try discriminate;
    cbn [g_recv_loop] in *; rewrite pj_inbox; destruct (v_inbox s) as [|m rest]; cbn [map];
    rewrite ?pj_inbox_closed.
  - destruct (v_inbox_closed s); [|reflexivity].
    rewrite transition_to_fin_wait_1_shift. now apply g_maybe_send_fin_shift.
  - reflexivity.
  - destruct (v_inbox_closed s); [|reflexivity].
    rewrite transition_to_fin_wait_1_shift. now apply g_maybe_send_fin_shift.
  - rewrite st_inbox. apply andb_true_iff in G as [G1 G2].
    rewrite (g_pim_shift _ _ G1). cbn [andb].
    eapply (gstep_shift idf). { now apply pim_shift. } { exact G2. }
    intros s1 r Gk. cbv beta in Gk.
    rewrite pj_state, state_is_closed_shift, pj_opts, pj_transport_pending.
    destruct (state_is_closed (v_state s1) (o_wait_for_last_ack (v_opts s1)) || v_transport_pending s1);
      [reflexivity|].
    apply IH; [now injection HL|assumption].
Qed.

Lemma g_acked_counts_shift (s : vsock) : g_acked_counts_as_sent s = true -> g_acked_counts_as_sent (sh s) = true.
Proof.
  unfold g_acked_counts_as_sent. intros G. apply andb_true_iff in G as [G1 G2].
  rewrite pj_segs. cbn [shift_segments ss_snd_una].
  rewrite sh16_wsub16, pj_last_sent_seq_nr, pj_seq_nr.
  now rewrite (cmp_ok_shift da _ _ G1), (cmp_ok_shift da _ _ G2).
Qed.

Lemma g_paim_pipe_shift (s3 : vsock) u : g_paim_pipe s3 u = true -> g_paim_pipe (sh s3) (idf u) = true.
Proof.
  unfold g_paim_pipe. rewrite pj_recovery. cbn [shift_recovery rv_phase].
  destruct (rv_phase (v_recovery s3)) as [rp|d|rc]; cbn [shift_rphase]; try reflexivity.
  cbn [rc_high_rxt]. rewrite pj_segs, pj_last_sent_seq_nr. apply g_calc_pipe_shift.
Qed.

Lemma g_paim_rest_shift (s1 : vsock) res : g_paim_rest s1 res = true -> g_paim_rest (sh s1) (idf res) = true.
Proof.
  unfold g_paim_rest, idf. cbv zeta. intros G. apply andb_true_iff in G as [G1 G2].
  rewrite paim_s2_shift. apply andb_true_iff. split.
  - destruct (0 <? ar_acked_segments (fst res)); [now apply g_acked_counts_shift|reflexivity].
  - eapply (gstep_shift idf). { now apply paim_s3o_shift. } { exact G2. }
    intros s3 u Gp. now apply g_paim_pipe_shift.
Qed.

Lemma g_process_all_shift (s : vsock) : g_process_all cci s = true -> g_process_all cci (sh s) = true.
Proof.
  unfold g_process_all. intros G. apply andb_true_iff in G as [G1 G2].
  assert (HL : length (paim_fuel (sh s)) = length (paim_fuel s)).
  { unfold paim_fuel. rewrite pj_inbox, !app_length, map_length. reflexivity. }
  rewrite (g_recv_loop_shift _ _ s HL G1). cbn [andb].
  eapply (gstep_shift idf). { exact (recv_loop_shift da db dc cci _ _ s _ HL G1). } { exact G2. }
  intros s1 res Gr. now apply g_paim_rest_shift.
Qed.

Lemma gbail_shift {A} (fa : A -> A) (m m' : step (CC:=CC) A) (gk gk' : vsock -> A -> bool) :
  m' = sst fa m -> gbail m gk = true ->
  (forall s a, gk s a = true -> gk' (sh s) (fa a) = true) ->
  gbail m' gk' = true.
Proof.
  intros -> G H. destruct m as [s a|s e|]; cbn [gbail shift_step] in *; [|reflexivity|reflexivity].
  rewrite pj_restart. destruct (v_restart s); [reflexivity|now apply H].
Qed.

Lemma gpend_shift {A} (fa : A -> A) (m m' : step (CC:=CC) A) (gk gk' : vsock -> A -> bool) :
  m' = sst fa m -> gpend m gk = true ->
  (forall s a, gk s a = true -> gk' (sh s) (fa a) = true) ->
  gpend m' gk' = true.
Proof.
  intros E G H. unfold gpend in *. eapply gbail_shift; [exact E|exact G|].
  intros s a Gk. cbv beta in Gk. rewrite pj_transport_pending, pj_restart.
  destruct (v_transport_pending s); [reflexivity|]. destruct (v_restart s); [reflexivity|]. now apply H.
Qed.

Lemma g_poll_body_shift (s0 : vsock) : g_poll_body cci s0 = true -> g_poll_body cci (sh s0) = true.
Proof.
  unfold g_poll_body. intros G.
  rewrite pj_env_now, st_transport_pending, st_now, st_restart.
  set (s := set_restart _ false) in *.
  eapply (gpend_shift idf). { apply maybe_send_syn_ack_shift. } { exact G. }
  clear G s. intros s u G. cbv beta in G.
  eapply (gpend_shift idf (if immediate_ack_to_transmit s then send_ack s else SOk s false)).
  { rewrite immediate_ack_shift. destruct (immediate_ack_to_transmit s); [apply send_ack_shift|reflexivity]. }
  { exact G. }
  clear G s u. intros s b G. cbv beta in G. apply andb_true_iff in G as [Ga G].
  rewrite (g_process_all_shift s Ga). cbn [andb].
  eapply (gpend_shift idf). { now apply process_all_shift. } { exact G. }
  clear Ga G s b. intros s u G. cbv beta in G.
  rewrite pj_rx. destruct (rx_flush (v_rx s)) as [[rx1 fr] w]. destruct fr as [fb|]; [|reflexivity].
  rewrite st_rx, add_wakes_shift.
  set (s' := add_wakes (set_rx s rx1) (rx_wakes w)) in *.
  rewrite pj_t_inactivity, pj_now.
  destruct (timer_expired (v_t_inactivity s') (v_now s')); [reflexivity|].
  apply andb_true_iff in G as [Ga G].
  rewrite (g_split_shift s' Ga). cbn [andb].
  eapply (gbail_shift idf). { now apply split_shift. } { exact G. }
  clear Ga G s' s u. intros s u G. cbv beta in G. apply andb_true_iff in G as [Ga G].
  rewrite (g_send_tx_queue_shift s Ga). cbn [andb].
  eapply (gpend_shift idf). { now apply send_tx_queue_shift. } { exact G. }
  clear Ga G s u. intros s u G. cbv beta zeta in G.
  rewrite should_close_shift.
  assert (E : (if should_close_on_own_initiative s then transition_to_fin_wait_1 (sh s) else sh s) =
              sh (if should_close_on_own_initiative s then transition_to_fin_wait_1 s else s)).
  { destruct (should_close_on_own_initiative s); [apply transition_to_fin_wait_1_shift|reflexivity]. }
  cbv zeta. rewrite E. clear E.
  set (s' := if should_close_on_own_initiative s then _ else s) in *.
  apply andb_true_iff in G as [Ga G].
  rewrite (g_maybe_send_fin_shift s' Ga). cbn [andb].
  eapply (gpend_shift idf). { now apply maybe_send_fin_shift. } { exact G. }
  clear Ga G s' s u. intros s b G. now apply g_ack_to_transmit_shift.
Qed.

Lemma g_poll_loop_shift : forall fuel (s : vsock), g_poll_loop cci fuel s = true ->
  g_poll_loop cci fuel (sh s) = true.
Proof.
  induction fuel as [|fuel IH]; intros s G; [reflexivity|].
  cbn [g_poll_loop] in *. apply andb_true_iff in G as [G1 G2].
  rewrite (g_poll_body_shift s G1), (poll_body_shift da db dc cci s G1). cbn [andb].
  destruct (poll_body cci s) as [s' r|s'|]; cbn [shift_body_res]; [reflexivity|now apply IH|reflexivity].
Qed.

Lemma g_poll_shift (s : vsock) : g_poll cci s = true -> g_poll cci (sh s) = true.
Proof.
  unfold g_poll. intros G.
  change (set_out (sh s) []) with (sh (set_out s [])). rewrite st_wakes, st_arm_in.
  now apply g_poll_loop_shift.
Qed.

Lemma guard_vstep_shift (s : vsock) o : c09_guard_vstep cci s o = true ->
  c09_guard_vstep cci (sh s) (shift_op da db o) = true.
Proof.
  rewrite !c09_guard_vstep_unfold. destruct o; cbn [shift_op]; try reflexivity.
  rewrite st_sends. apply g_poll_shift.
Qed.

(* the relabelled scenario is inside the guard as well *)
Theorem guard_trace_shift : forall ops (s : vsock), c09_guard_trace cci s ops = true ->
  c09_guard_trace cci (sh s) (map (shift_op da db) ops) = true.
Proof.
  induction ops as [|o rest IH]; intros s G; [reflexivity|].
  cbn [map c09_guard_trace] in *. apply andb_true_iff in G as [G1 G2].
  rewrite (guard_vstep_shift s o G1), (vstep_shift da db dc cci s o G1). cbn [andb].
  destruct (vstep cci s o) as [[[s' out] dw] sw]. cbn [shift_vres].
  rewrite poll_finished_shift. destruct (poll_finished out); [reflexivity|]. now apply IH.
Qed.

End G.

(* The RTO-mode invariant of a connection, kept by every function of a poll and by every event:
     rm s := 0 < rto_retransmissions -> the retransmission timer is armed /\ an undelivered segment exists.
   (single-segment "RTO mode" - send_tx_queue returns right after the RTO part while the counter is
   positive - is always left again: the counter is reset by the ACK / SACK bookkeeping of
   process_all_incoming_messages and by the expired-probe arm of split_tx_queue_into_segments, and
   nothing else delivers or removes a segment while it is positive.)
   Conn/C02_Step2.v uses it for c02_no_silent_stall. *)
From Utp Require Import Base.Prelude Wire.SeqNr Wire.Header Rtt.Rtte Rtt.Rtte_Proofs Mtu.SegSizes
  Rx.Rx Tx.Ring Tx.Segments Tx.Segments_Proofs Tx.Segments_ProofsOut
  Conn.Recovery Conn.Msg Conn.VSockRec Conn.VSock Conn.VSockRun Conn.VObs
  Conn.VSock_LemmasTx Conn.VSock_LemmasIn
  Conn.VSock_Lemmas Conn.VSock_LemmasStep Conn.VSock_LemmasTimers Conn.C02_SegLemmas2.

Section WithCC.
Context {CC : Type} (cci : cc_iface CC).
Notation vsock := (vsock CC).

Definition rm (s : vsock) : Prop :=
  0 < v_rto_retransmissions s -> v_t_retransmit s <> None /\ und (ss_segs (v_segs s)) = true.

Definition rmR (s s' : vsock) : Prop := rm s -> rm s'.

Lemma rmR_refl : forall s, rmR s s.
Proof. intros s H; exact H. Qed.

Lemma rmR_trans : forall a b c, rmR a b -> rmR b c -> rmR a c.
Proof. intros a b c H1 H2 H. auto. Qed.

(* the counter is kept, an armed timer stays armed, the delivered flags are kept *)
Definition sdr (s s' : vsock) : Prop :=
  v_rto_retransmissions s' = v_rto_retransmissions s /\
  (v_t_retransmit s <> None -> v_t_retransmit s' <> None) /\
  dlv (ss_segs (v_segs s')) = dlv (ss_segs (v_segs s)).

Lemma sdr_refl : forall s, sdr s s.
Proof. intros s. unfold sdr. auto. Qed.

Lemma sdr_trans : forall a b c, sdr a b -> sdr b c -> sdr a c.
Proof. unfold sdr. intros a b c (A1 & A2 & A3) (B1 & B2 & B3). repeat split; try congruence; auto. Qed.

Lemma sdr_rm : forall s s', sdr s s' -> rmR s s'.
Proof.
  intros s s' (A1 & A2 & A3) H K. rewrite A1 in K. destruct (H K) as [H1 H2].
  split; [auto|]. rewrite (und_dlv _ _ A3). exact H2.
Qed.

Lemma sdr_same : forall (s s' : vsock),
  v_rto_retransmissions s' = v_rto_retransmissions s -> v_t_retransmit s' = v_t_retransmit s ->
  v_segs s' = v_segs s -> sdr s s'.
Proof. intros s s' E1 E2 E3. unfold sdr. rewrite E1, E2, E3. auto. Qed.

Lemma sdr_armed : forall (s s' : vsock),
  v_rto_retransmissions s' = v_rto_retransmissions s -> v_t_retransmit s' <> None ->
  dlv (ss_segs (v_segs s')) = dlv (ss_segs (v_segs s)) -> sdr s s'.
Proof. intros s s' E1 E2 E3. unfold sdr. auto. Qed.

Ltac sdr_same_tac := apply sdr_same; exact eq_refl.
Ltac sdr_via H := eapply sdr_trans; [exact H | sdr_same_tac].

Notation sts := (stR sdr).
Notation stm := (stR rmR).

Lemma stR_mono : forall (R R' : vsock -> vsock -> Prop) A (s : vsock) (m : step A),
  (forall a b, R a b -> R' a b) -> stR R s m -> stR R' s m.
Proof. intros R R' A s m H K. destruct m; cbn [stR] in *; auto. Qed.

Lemma sts_stm : forall A (s : vsock) (m : step A), sts s m -> stm s m.
Proof. intros A s m. apply stR_mono. apply sdr_rm. Qed.

(* ---- the sending helpers ---- *)
Lemma next_send_sdr : forall (s : vsock) n s1 o, next_send s n = (s1, o) -> sdr s s1.
Proof.
  intros s n s1 o H. unfold next_send in H.
  repeat break_match_hyp H; inversion H; subst; try inversion Heqp; subst; sdr_same_tac.
Qed.

Lemma send_control_packet_sdr : forall (s : vsock) h, sts s (send_control_packet s h).
Proof.
  intros s h. unfold send_control_packet.
  destruct (v_transport_pending s); [apply sdr_refl|].
  destruct (next_send s _) as [s1 o] eqn:E. apply next_send_sdr in E.
  destruct o; cbn [stR]; auto; unfold on_packet_sent, emit; sdr_via E.
Qed.

Lemma send_ack_sdr : forall (s : vsock), sts s (send_ack s).
Proof. intros s. unfold send_ack. apply send_control_packet_sdr. Qed.

Lemma maybe_send_fin_sdr : forall (s : vsock), sts s (maybe_send_fin s).
Proof.
  intros s. unfold maybe_send_fin.
  destruct (v_transport_pending s); [apply sdr_refl|].
  destruct (our_fin_if_unacked (v_state s)); [|apply sdr_refl].
  destruct (negb _); [apply sdr_refl|].
  apply (stR_sbind sdr sdr_trans); [apply send_control_packet_sdr|].
  intros s1 [|]; cbn [stR]; [|apply sdr_refl].
  apply sdr_armed; try exact eq_refl. vsimpl_goal. apply timer_arm_some.
Qed.

Lemma send_data_sdr : forall (s : vsock) h f, sts s (send_data s h f).
Proof.
  intros s h f. unfold send_data.
  destruct (_ =? o_max_retx _); [apply sdr_refl|].
  destruct (_ <? 0); [exact I|].
  destruct (_ <? fs_payload_offset f); [apply sdr_refl|].
  destruct (_ <? _ + _); [apply sdr_refl|].
  destruct (next_send s _) as [s1 o] eqn:E. apply next_send_sdr in E.
  destruct o; cbn [stR]; auto; try (sdr_via E).
  eapply sdr_trans; [exact E|]. unfold on_packet_sent, emit.
  destruct (seq_gt _ _); try destruct (seq_gt _ _);
    (apply sdr_armed; [exact eq_refl | vsimpl_goal; apply timer_arm_some | vsimpl_goal; apply on_sent_dlv]).
Qed.

Lemma on_rto_reactions_sdr : forall (s s1 : vsock), on_rto_reactions cci s = Some s1 -> sdr s s1.
Proof.
  intros s s1 H. unfold on_rto_reactions in H.
  destruct (Rtte.on_rto_timeout (v_rtte s)) as [rt|]; inversion H; subst. sdr_same_tac.
Qed.

Lemma recovery_loop_sdr : forall items (s : vsock) h mss0 st,
  sts s (recovery_loop items s h mss0 st).
Proof.
  induction items as [|f rest IH]; intros s h mss0 st; cbn [recovery_loop].
  - apply sdr_refl.
  - destruct (negb _); [apply sdr_refl|].
    destruct (_ && negb (sg_lost _)); [apply IH|].
    destruct (_ && negb (sg_sacks_after _)); [apply sdr_refl|].
    pose proof (send_data_sdr s h f) as F.
    destruct (send_data s h f) as [s1 r|s1 e|]; cbn [stR] in *; auto.
    destruct r; cbn [stR]; auto.
    eapply (stR_weaken sdr sdr_trans); [exact F | apply IH].
Qed.

Lemma new_data_loop_sdr : forall items (s : vsock) h remaining,
  sts s (new_data_loop items s h remaining).
Proof.
  induction items as [|f rest IH]; intros s h remaining; cbn [new_data_loop].
  - apply sdr_refl.
  - destruct (_ <? _); [apply sdr_refl|].
    pose proof (send_data_sdr s h f) as F.
    destruct (send_data s h f) as [s1 r|s1 e|]; cbn [stR] in *; auto.
    destruct r; cbn [stR]; auto.
    eapply (stR_weaken sdr sdr_trans); [exact F | apply IH].
Qed.

Lemma set_recovering_sdr : forall (s : vsock) rc, sdr s (set_recovering s rc).
Proof. intros. unfold set_recovering. sdr_same_tac. Qed.

(* the counter alone *)
Definition rtoeq (s s' : vsock) : Prop := v_rto_retransmissions s' = v_rto_retransmissions s.

Lemma rtoeq_refl : forall s, rtoeq s s.
Proof. intros s. reflexivity. Qed.

Lemma rtoeq_trans : forall a b c, rtoeq a b -> rtoeq b c -> rtoeq a c.
Proof. unfold rtoeq. intros. congruence. Qed.

Lemma sdr_rtoeq : forall s s', sdr s s' -> rtoeq s s'.
Proof. intros s s' (A & _). exact A. Qed.

Lemma sts_ste : forall A (s : vsock) (m : step A), sts s m -> stR rtoeq s m.
Proof. intros A s m. apply stR_mono. apply sdr_rtoeq. Qed.

(* outside RTO mode the invariant is trivial as long as the counter is not touched *)
Lemma rtoeq_rm0 : forall s s', v_rto_retransmissions s <= 0 -> rtoeq s s' -> rmR s s'.
Proof. intros s s' H E _ K. unfold rtoeq in E. lia. Qed.

Lemma ste_stm0 : forall A (s : vsock) (m : step A),
  v_rto_retransmissions s <= 0 -> stR rtoeq s m -> stm s m.
Proof. intros A s m H K. destruct m; cbn [stR] in *; auto using rtoeq_rm0. Qed.

Lemma send_tx_queue_rm : forall (s : vsock), stm s (send_tx_queue cci s).
Proof.
  intros s. unfold send_tx_queue.
  destruct (v_transport_pending s); [apply rmR_refl|].
  apply (stR_sbind rmR rmR_trans).
  - destruct (timer_expired _ _); [|apply rmR_refl].
    destruct (iter_for_sending _ _) as [|f l] eqn:Eit.
    + (* nothing undelivered: the counter is not positive *)
      assert (Hz : forall s' : vsock, rtoeq s s' -> rmR s s').
      { intros s' E Hrm K. exfalso. unfold rtoeq in E. rewrite E in K. destruct (Hrm K) as [_ U].
        rewrite (iter_nil_und _ Eit) in U. discriminate. }
      destruct (our_fin_if_unacked _); [|apply Hz; reflexivity].
      destruct (_ =? _); [|apply Hz; reflexivity].
      set (s1 := set_last_sent_seq_nr s (wsub16 (v_last_sent_seq_nr s) 1)).
      pose proof (sts_ste _ _ _ (maybe_send_fin_sdr s1)) as F.
      assert (E1 : v_rto_retransmissions s1 = v_rto_retransmissions s) by reflexivity.
      clearbody s1.
      destruct (maybe_send_fin s1) as [s2 sent| |]; cbn [sbind stR] in *; auto.
      * destruct sent; [|apply Hz; unfold rtoeq in *; congruence].
        destruct (on_rto_reactions cci s2) as [s3|] eqn:Er; [|exact I].
        apply on_rto_reactions_sdr, sdr_rtoeq in Er. cbn [stR]. apply Hz.
        unfold rtoeq in *. vsimpl_goal. congruence.
      * apply Hz; unfold rtoeq in *; congruence.
    + pose proof (send_data_sdr s (outgoing_header s) f) as Hd.
      destruct (send_data _ _ f) as [s1 r|s1 e|]; cbn [stR] in *; auto using sdr_rm.
      destruct r; cbn [stR]; auto using sdr_rm.
      cbv zeta.
      match goal with |- stR _ _ (match ?o with _ => _ end) => destruct o as [s2|] eqn:E end; [|exact I].
      assert (F2 : sdr s1 s2).
      { destruct (negb _); [apply on_rto_reactions_sdr; exact E|injection E as <-; apply sdr_refl]. }
      cbn [stR]. intros _ _. vsimpl_goal. split; [apply timer_arm_some|].
      pose proof (sdr_trans _ _ _ Hd F2) as (_ & _ & D). rewrite (und_dlv _ _ D).
      eapply iter_cons_und; exact Eit.
  - intros s1 ret. destruct ret; [apply rmR_refl|].
    destruct (0 <? v_rto_retransmissions s1) eqn:Ez; [apply rmR_refl|].
    destruct (ss_segs _); [apply rmR_refl|].
    apply ste_stm0; [lia|].
    apply (stR_sbind rtoeq rtoeq_trans).
    + destruct (rv_phase _); try apply rtoeq_refl.
      apply (stR_sbind rtoeq rtoeq_trans); [apply sts_ste, recovery_loop_sdr|].
      intros s2 [st early]. cbv beta iota zeta.
      destruct early; [exact eq_refl|].
      match goal with |- stR _ _ (match our_fin_if_unacked (v_state ?y) with _ => _ end) =>
        assert (F3 : rtoeq s2 y); [|revert F3; generalize y; intros sy F3] end.
      { destruct (rl_cwnd st <? _); [|exact eq_refl]. destruct (rc_recalc _); [exact eq_refl|].
        destruct (0 <? rl_sent st); exact eq_refl. }
      destruct (our_fin_if_unacked _); [destruct (_ =? _)|]; cbn [stR]; auto.
    + intros s2 ret. destruct ret; [apply rtoeq_refl|].
      apply (stR_sbind rtoeq rtoeq_trans); [apply sts_ste, new_data_loop_sdr|].
      intros s3 tl. destruct tl as [[sq sz]|]; [|apply rtoeq_refl].
      destruct (pop_mtu_probe _ _) as [segs' popped]. destruct popped; cbn [stR]; exact eq_refl.
Qed.

Lemma maybe_send_ack_sdr : forall (s : vsock), sts s (maybe_send_ack s).
Proof.
  intros s. unfold maybe_send_ack.
  pose proof (send_ack_sdr s) as G.
  destruct (immediate_ack_to_transmit s); [exact G|].
  destruct (should_send_window_update s); [exact G|].
  destruct (timer_expired _ _).
  - destruct (ack_to_transmit s); [exact G|]. cbn [stR]. sdr_same_tac.
  - destruct (0 <? v_cbu s); cbn [stR]; sdr_same_tac.
Qed.

(* ---- segmentation ---- *)
Lemma segment_loop_app : forall fuel nagle ss segs rem rwr ss' segs' rem',
  segment_loop fuel nagle ss segs rem rwr = Some (ss', segs', rem') ->
  exists l, ss_segs segs' = ss_segs segs ++ l /\
            Forall (fun g => sg_delivered g = false /\ sg_sent g = NotSent) l /\
            ss_snd_una segs' = ss_snd_una segs /\ ss_removed segs' = ss_removed segs.
Proof.
  induction fuel as [|x fuel IH]; intros nagle ss segs rem rwr ss' segs' rem' H; cbn [segment_loop] in H.
  - inversion H; subst. exists []. rewrite app_nil_r. auto.
  - destruct (_ && _); [|inversion H; subst; exists []; rewrite app_nil_r; auto].
    destruct (next_segment_size ss) as [[ss1 sz]|]; [|discriminate].
    destruct (_ && _ && _); [inversion H; subst; exists []; rewrite app_nil_r; auto|].
    match type of H with context [enqueue segs ?len ?p] =>
      destruct (enqueue_segs segs len p) as (g & G1 & G2 & G3 & _);
      assert (Gu : ss_snd_una (enqueue segs len p) = ss_snd_una segs /\
                   ss_removed (enqueue segs len p) = ss_removed segs) by (split; reflexivity) end.
    destruct Gu as [Gu Gr].
    destruct (mss ss1 <? _).
    + inversion H; subst. exists [g]. split; [exact G1|]. split; [|split; [exact Gu|exact Gr]]. constructor; auto.
    + apply IH in H. destruct H as (l & L1 & L2 & L3 & L4). exists (g :: l).
      rewrite L1, G1, <- app_assoc. split; [reflexivity|]. split; [|split; congruence]. constructor; auto.
Qed.

Lemma split_tx_queue_into_segments_rm : forall (s : vsock),
  stm s (split_tx_queue_into_segments cci s).
Proof.
  intros s. unfold split_tx_queue_into_segments.
  destruct (_ =? 0); [cbn [stR]; apply sdr_rm; sdr_same_tac|].
  match goal with |- context [is_remote_fin_or_later (v_state ?x)] => set (s1 := x) end.
  assert (F1 : sdr s s1).
  { subst s1. destruct (_ && _); [|apply sdr_refl].
    destruct (grow _ _) as [tx1 g]. destruct g; [destruct (wake_writer tx1)|]; sdr_same_tac. }
  clearbody s1.
  destruct (is_remote_fin_or_later _); [apply sdr_rm; exact F1|].
  destruct (pop_expired_mtu_probe _ _ _) as [segs1 pe] eqn:Ep.
  assert (Hcont : forall s2 : vsock, rmR s s2 ->
    stm s
      (if Z.of_nat (length (ring (v_tx s))) <? ss_len_bytes (v_segs s2)
       then SErr s2 (ErrBug BugInBufferComputations)
       else match segment_loop (ring (v_tx s2)) (o_nagle (v_opts s2)) (v_ss s2) (v_segs s2)
                    (Z.of_nat (length (ring (v_tx s))) - ss_len_bytes (v_segs s2))
                    (v_last_remote_window s2) with
            | Some (ss', segs', remaining) =>
                SOk (set_unsegmented (VSockRec.set_segs (set_ss s2 ss') segs') remaining) tt
            | None => SPanic
            end)).
  { intros s2 F2. destruct (_ <? _); [exact F2|].
    destruct (segment_loop _ _ _ _ _ _) as [[[ss' segs'] rem']|] eqn:E; [|exact I].
    apply segment_loop_app in E. destruct E as (l & L & _). cbn [stR]. eapply rmR_trans; [exact F2|].
    intros H K. vsimpl_goal. cbn [v_rto_retransmissions set_unsegmented VSockRec.set_segs set_ss] in K.
    destruct (H K) as [H1 H2]. split; [exact H1|]. rewrite L, und_app, H2. reflexivity. }
  destruct pe.
  - apply Hcont. intros _ K. exfalso.
    destruct (seq_gt _ _); cbn [v_rto_retransmissions set_ss set_last_sent_seq_nr set_rto_retransmissions] in K; lia.
  - cbn [stR]. apply sdr_rm. sdr_via F1.
  - apply Hcont. apply sdr_rm.
    unfold pop_expired_mtu_probe in Ep.
    destruct (last_and_init _) as [[init x]|]; [|inversion Ep; subst; exact F1].
    destruct (sg_delivered x); [inversion Ep; subst; exact F1|].
    destruct (_ && _ && _); [inversion Ep|].
    destruct (sg_probe x); inversion Ep; subst; exact F1.
Qed.

(* ---- death, transitions ---- *)
Lemma mark_both_closed_sdr : forall (s : vsock), sdr s (mark_both_closed s).
Proof.
  intros s. unfold mark_both_closed.
  destruct (rx_mark_vsock_closed _); destruct (mark_vsock_closed _). sdr_same_tac.
Qed.

Lemma just_before_death_sdr : forall (s : vsock) e, sdr s (just_before_death s e).
Proof.
  intros s e. unfold just_before_death.
  match goal with |- context [mark_both_closed ?x] => set (s1 := x) end.
  assert (F1 : sdr s s1).
  { subst s1. destruct e; [destruct (rx_enqueue_error _)|]; [sdr_same_tac | apply sdr_refl]. }
  clearbody s1.
  pose proof (sdr_trans _ _ _ F1 (mark_both_closed_sdr s1)) as F2.
  set (s2 := mark_both_closed s1) in *. clearbody s2.
  destruct e; [|exact F2].
  destruct (negb _); [|exact F2].
  match goal with |- context [send_control_packet ?x ?h] =>
    pose proof (send_control_packet_sdr x h) as F4; destruct (send_control_packet x h) end;
    cbn [stR] in F4.
  - eapply sdr_trans; [exact F2|]. eapply sdr_trans; [|exact F4]. sdr_same_tac.
  - eapply sdr_trans; [exact F2|]. eapply sdr_trans; [|exact F4]. sdr_same_tac.
  - sdr_via F2.
Qed.

Lemma transition_to_fin_wait_1_sdr : forall (s : vsock), sdr s (transition_to_fin_wait_1 s).
Proof. intros s. unfold transition_to_fin_wait_1. destruct (v_state s); first [apply sdr_refl | sdr_same_tac]. Qed.

Lemma maybe_send_syn_ack_sdr : forall (s : vsock), sts s (maybe_send_syn_ack s).
Proof.
  intros s. unfold maybe_send_syn_ack.
  assert (G : forall c, sts s
     (if c =? o_max_retx (v_opts s) then SErr s ErrMaxSynAckRetransmissionsReached
      else sbind (send_ack s) (fun s1 sent =>
        if sent then SOk (set_t_syn_ack_resend (set_state s1 (SynAckSent (c + 1)))
               (timer_arm (v_t_syn_ack_resend s1) (v_now s1) SYNACK_RESEND_INTERNAL true)) tt
        else SOk s1 tt))).
  { intros c. destruct (_ =? _); [apply sdr_refl|].
    apply (stR_sbind sdr sdr_trans); [apply send_ack_sdr|].
    intros s1 [|]; cbn [stR]; [sdr_same_tac | apply sdr_refl]. }
  destruct (v_state s); try (cbn [stR]; sdr_same_tac).
  - apply G.
  - destruct (timer_expired _ _); [apply G | apply sdr_refl].
Qed.

Lemma poll_tail_sdr : forall (s : vsock), sdr s (poll_tail s).
Proof.
  intros s. unfold poll_tail, next_timer_to_poll, arm_in, add_wakes.
  repeat break_match; try (inversion Heqp; subst); sdr_same_tac.
Qed.

(* ---- incoming messages: the counters of the acknowledgement result ---- *)
Lemma state_table_sdr : forall (s : vsock) h,
  match state_table s h with TblDrop s1 | TblErr s1 _ | TblContinue s1 => sdr s s1 end.
Proof.
  intros s h. unfold state_table, restart_remote_inactivity_timer.
  repeat break_match; first [apply sdr_refl | sdr_same_tac].
Qed.

Lemma recovery_on_ack_dlv : forall r h segs ls cc now rtt r' segs' cc',
  recovery_on_ack cci r h segs ls cc now rtt = Some (r', segs', cc') ->
  dlv (ss_segs segs') = dlv (ss_segs segs).
Proof.
  intros r h segs ls cc now rtt r' segs' cc' H. unfold recovery_on_ack in H.
  cbn [rv_phase] in H. destruct (rv_phase r).
  - destruct (seq_ge _ _); inversion H; reflexivity.
  - destruct (ss_segs segs) eqn:Es; [inversion H; subst; rewrite Es; reflexivity|].
    rewrite <- Es.
    match type of H with match ?c with _ => _ end = _ => destruct c as [[dup' la']|] end; [|discriminate].
    destruct (_ <? _); [inversion H; reflexivity|].
    destruct (calc_pipe _ _ _ _ _) as [[[sg pipe] recalc]|] eqn:Ec; [|discriminate].
    inversion H; subst. eapply calc_pipe_dlv; exact Ec.
  - destruct (seq_ge _ _); inversion H; reflexivity.
Qed.

(* what one message does, with its acknowledgement result *)
Definition ackr (s s' : vsock) (r : on_ack_result) : Prop :=
  v_rto_retransmissions s' = v_rto_retransmissions s /\
  v_t_retransmit s' = v_t_retransmit s /\
  0 <= ar_acked_segments r /\ 0 <= ar_newly_sacked_segments r /\
  (ar_acked_segments r = 0 -> ar_newly_sacked_segments r = 0 ->
   dlv (ss_segs (v_segs s')) = dlv (ss_segs (v_segs s))).

Definition sameT (s s' : vsock) : Prop :=
  v_rto_retransmissions s' = v_rto_retransmissions s /\ v_t_retransmit s' = v_t_retransmit s /\
  v_segs s' = v_segs s.

Lemma sameT_refl : forall s, sameT s s.
Proof. intros s. unfold sameT. auto. Qed.

Lemma sameT_trans : forall a b c, sameT a b -> sameT b c -> sameT a c.
Proof. unfold sameT. intros a b c (A1 & A2 & A3) (B1 & B2 & B3). repeat split; congruence. Qed.

Ltac sameT_tac := unfold sameT; repeat split; exact eq_refl.
Ltac sameT_via H := eapply sameT_trans; [exact H | sameT_tac].

Lemma ackr_sameT : forall s a b r, ackr s a r -> sameT a b -> ackr s b r.
Proof.
  unfold ackr, sameT. intros s a b r (A1 & A2 & A3 & A4 & A5) (B1 & B2 & B3).
  rewrite B1, B2, B3. auto.
Qed.

Lemma next_send_sameT : forall (s : vsock) n s1 o, next_send s n = (s1, o) -> sameT s s1.
Proof.
  intros s n s1 o H. unfold next_send in H.
  repeat break_match_hyp H; inversion H; subst; try inversion Heqp; subst; sameT_tac.
Qed.

Lemma send_control_packet_sameT : forall (s : vsock) h, stR sameT s (send_control_packet s h).
Proof.
  intros s h. unfold send_control_packet.
  destruct (v_transport_pending s); [apply sameT_refl|].
  destruct (next_send s _) as [s1 o] eqn:E. apply next_send_sameT in E.
  destruct o; cbn [stR]; auto; unfold on_packet_sent, emit; sameT_via E.
Qed.

Lemma state_table_sameT : forall (s : vsock) h,
  match state_table s h with TblDrop s1 | TblErr s1 _ | TblContinue s1 => sameT s s1 end.
Proof.
  intros s h. unfold state_table, restart_remote_inactivity_timer.
  repeat break_match; first [apply sameT_refl | sameT_tac].
Qed.

Lemma pim_ack_ackr : forall (s1 s2 : vsock) h res,
  pim_ack cci s1 h = Some (s2, res) -> ackr s1 s2 res.
Proof.
  intros s1 s2 h res. unfold pim_ack.
  destruct (remove_up_to_ack _ _ _ _) as [segs1 res0] eqn:Er.
  destruct (match is_recovering (v_recovery s1) with true => _ | false => _ end) as [rtte1|]; [|discriminate].
  destruct (cc_on_ack cci _ _ _ _) as [cc3|]; [|discriminate].
  destruct (recovery_on_ack cci _ _ _ _ _ _ _) as [[[rec1 segs2] cc4]|] eqn:Ero; [|discriminate].
  intro H; injection H as <- <-.
  destruct (remove_up_to_ack_cnt _ _ _ _ _ _ Er) as (C1 & C2 & C3).
  unfold ackr. vsimpl_goal. split; [reflexivity|]. split; [reflexivity|].
  split; [exact C1|]. split; [exact C2|]. intros K1 K2.
  rewrite (recovery_on_ack_dlv _ _ _ _ _ _ _ _ _ _ Ero), (C3 K1 K2). reflexivity.
Qed.

Lemma pim_data_sameT : forall (s2 : vsock) m res offset,
  match pim_data cci s2 m res offset with
  | SOk s' r => sameT s2 s' /\ r = res
  | _ => True
  end.
Proof.
  intros s2 m res offset. unfold pim_data. destruct (offset <? 0).
  { split; [unfold force_immediate_ack; sameT_tac|reflexivity]. }
  cbv zeta.
  destruct (rx_add_remove _ KData (m_payload m) offset) as [[rx1 ar] w].
  destruct ar as [r|]; [|exact I].
  destruct (add_err r); [exact I|].
  match goal with |- context [send_ack (force_immediate_ack ?x)] => set (s5 := x) end.
  assert (F5 : sameT s2 s5).
  { subst s5. unfold restart_remote_inactivity_timer, add_wakes. destruct r; sameT_tac. }
  clearbody s5.
  destruct (_ || _); [|split; [exact F5|reflexivity]].
  unfold send_ack.
  match goal with |- context [send_control_packet ?x ?h] =>
    pose proof (send_control_packet_sameT x h) as F7; destruct (send_control_packet x h) end;
    cbn [sbind stR] in *; auto.
  split; [|reflexivity]. eapply sameT_trans; [exact F5|]. eapply sameT_trans; [|exact F7].
  unfold force_immediate_ack. sameT_tac.
Qed.

Lemma pim_fin_sameT : forall (s2 : vsock) m res offset seen,
  match pim_fin s2 m res offset seen with
  | SOk s' r => sameT s2 s' /\ r = res
  | _ => True
  end.
Proof.
  intros s2 m res offset seen. unfold pim_fin. cbv zeta. destruct (_ && _).
  - destruct (rx_add_remove _ KFin _ _) as [[rx1 ar] w].
    destruct ar as [r|]; [|exact I].
    destruct (add_err r); [exact I|].
    destruct (mark_vsock_closed _) as [tx1 w2]. split; [|reflexivity].
    unfold add_wakes, force_immediate_ack. sameT_tac.
  - split; [unfold force_immediate_ack; sameT_tac|reflexivity].
Qed.

Lemma process_incoming_message_ackr : forall (s : vsock) m,
  match process_incoming_message cci s m with
  | SOk s' r => ackr s s' r
  | _ => True
  end.
Proof.
  intros s m. rewrite process_incoming_message_eq.
  pose proof (state_table_sameT s (m_hdr m)) as T.
  destruct (state_table s (m_hdr m)) as [s1|s1 e|s1]; auto.
  { destruct T as (T1 & T2 & T3). unfold ackr. cbn [on_ack_result_default ar_acked_segments ar_newly_sacked_segments].
    rewrite T3. repeat split; auto; lia. }
  unfold pim_cont.
  destruct (pim_ack cci s1 (m_hdr m)) as [[s2 res]|] eqn:Ea; [|exact I].
  apply pim_ack_ackr in Ea.
  assert (F2 : ackr s s2 res).
  { destruct T as (T1 & T2 & T3). destruct Ea as (A1 & A2 & A3 & A4 & A5).
    unfold ackr. rewrite A1, A2, T1, T2. repeat split; auto. intros K1 K2. rewrite (A5 K1 K2), T3. reflexivity. }
  cbv zeta.
  destruct (ch_type (m_hdr m)); try exact F2.
  - pose proof (pim_data_sameT s2 m res (seq_sub (ch_seq (m_hdr m)) (wadd16 (v_last_consumed s2) 1))) as D.
    destruct (pim_data cci s2 m res _) as [s' r| |]; auto. destruct D as [D ->].
    eapply ackr_sameT; [exact F2|exact D].
  - pose proof (pim_fin_sameT s2 m res (seq_sub (ch_seq (m_hdr m)) (wadd16 (v_last_consumed s2) 1))
                              (is_remote_fin_or_later (v_state s))) as D.
    destruct (pim_fin s2 m res _ _) as [s' r| |]; auto. destruct D as [D ->].
    eapply ackr_sameT; [exact F2|exact D].
Qed.

(* the receive loop: the counters only grow; while they stay the delivered flags stay *)
Definition accr (s s' : vsock) (acc acc' : on_ack_result) : Prop :=
  v_rto_retransmissions s' = v_rto_retransmissions s /\
  (v_t_retransmit s <> None -> v_t_retransmit s' <> None) /\
  ar_acked_segments acc <= ar_acked_segments acc' /\
  ar_newly_sacked_segments acc <= ar_newly_sacked_segments acc' /\
  (ar_acked_segments acc' = ar_acked_segments acc ->
   ar_newly_sacked_segments acc' = ar_newly_sacked_segments acc ->
   dlv (ss_segs (v_segs s')) = dlv (ss_segs (v_segs s))).

Lemma recv_loop_accr : forall fuel (s : vsock) acc,
  match recv_loop cci fuel s acc with
  | SOk s' (acc', _) => accr s s' acc acc'
  | _ => True
  end.
Proof.
  assert (Hclosed : forall (s : vsock) (acc : on_ack_result),
    match sbind (maybe_send_fin (transition_to_fin_wait_1 s))
                (fun s2 _ => SOk (set_state s2 Closed) (acc, true)) with
    | SOk s' (acc', _) => accr s s' acc acc'
    | _ => True end).
  { intros s acc.
    pose proof (maybe_send_fin_sdr (transition_to_fin_wait_1 s)) as F.
    pose proof (transition_to_fin_wait_1_sdr s) as G.
    destruct (maybe_send_fin _) as [s2 b| |]; cbn [sbind stR] in *; auto.
    destruct (sdr_trans _ _ _ G F) as (A1 & A2 & A3).
    unfold accr. vsimpl_goal. repeat split; auto; lia. }
  assert (Hopen : forall (s : vsock) acc, accr s (set_inbox_waker s true) acc acc).
  { intros s acc. unfold accr. vsimpl_goal. repeat split; auto; lia. }
  induction fuel as [|x fuel IH]; intros s acc.
  - cbn [recv_loop]. destruct (v_inbox s).
    + destruct (v_inbox_closed s); [apply Hclosed|apply Hopen].
    + exact I.
  - cbn [recv_loop]. destruct (v_inbox s) as [|m rest].
    + destruct (v_inbox_closed s); [apply Hclosed|apply Hopen].
    + pose proof (process_incoming_message_ackr (set_inbox s rest) m) as P.
      destruct (process_incoming_message cci (set_inbox s rest) m) as [s1 r| |]; cbn [sbind]; auto.
      destruct P as (P1 & P2 & P3 & P4 & P5).
      cbn [v_rto_retransmissions v_t_retransmit v_segs set_inbox] in P1, P2, P5.
      assert (Hone : accr s s1 acc (result_update acc r)).
      { unfold accr, result_update. cbn [ar_acked_segments ar_newly_sacked_segments].
        split; [exact P1|]. split; [rewrite P2; auto|]. split; [lia|]. split; [lia|].
        intros K1 K2. apply P5; lia. }
      destruct (_ || _); [exact Hone|].
      specialize (IH s1 (result_update acc r)).
      destruct (recv_loop cci fuel s1 _) as [s2 [acc2 b2]| |]; auto.
      destruct Hone as (A1 & A2 & A3 & A4 & A5). destruct IH as (B1 & B2 & B3 & B4 & B5).
      unfold accr. split; [congruence|]. split; [auto|]. split; [lia|]. split; [lia|].
      intros K1 K2. rewrite B5 by lia. apply A5; lia.
Qed.

(* an error of the receive loop ends the poll with Ready: only the SOk results matter *)
Lemma process_all_incoming_messages_rm : forall (s : vsock),
  stRk rmR s (process_all_incoming_messages cci s).
Proof.
  intros s. unfold process_all_incoming_messages.
  pose proof (recv_loop_accr (v_inbox s ++ [ {| m_hdr := outgoing_header s; m_payload := [] |} ]) s
                             on_ack_result_default) as L.
  destruct (recv_loop _ _ _ _) as [s1 [r early]| |]; cbn [sbind stRk]; auto.
  apply stR_stRk.
  destruct L as (L1 & L2 & L3 & L4 & L5).
  cbn [on_ack_result_default ar_acked_segments ar_newly_sacked_segments] in L3, L4, L5.
  destruct ((0 <? ar_acked_segments r) || (0 <? ar_newly_sacked_segments r)) eqn:Eb.
  - (* the counter is reset *)
    match goal with |- context [acked_counts_as_sent ?x] => set (s2 := x) end.
    assert (Z2 : v_rto_retransmissions s2 = 0).
    { subst s2. destruct (ss_segs _); [destruct (our_fin_if_unacked _)|]; reflexivity. }
    clearbody s2.
    assert (Hz : forall (X : Type) (m : step X), stR rtoeq s2 m -> stm s m).
    { intros X m K. destruct m as [s' a|s' e|]; cbn [stR] in *; auto;
        intros _ K2; unfold rtoeq in K; lia. }
    apply Hz. apply (stR_sbind rtoeq rtoeq_trans).
    + destruct (0 <? _); [|apply rtoeq_refl].
      assert (F2' : rtoeq s2 (acked_counts_as_sent s2)).
      { unfold acked_counts_as_sent. destruct (seq_gt _ _ && seq_lt _ _); exact eq_refl. }
      apply (stR_weaken rtoeq rtoeq_trans) with (s := acked_counts_as_sent s2); [exact F2'|].
      generalize (acked_counts_as_sent s2). intro s2'.
      destruct (truncate_front _ _) as [tx1 tr].
      destruct tr; [|cbn [stR]; exact eq_refl].
      destruct (wake_writer tx1) as [tx2 w]. cbn [stR]. exact eq_refl.
    + intros s3 _. destruct (rv_phase _); try apply rtoeq_refl.
      destruct (calc_pipe _ _ _ _ _) as [[[segs' pipe] recalc]|]; [|exact I]. cbn [stR]. exact eq_refl.
  - apply orb_false_iff in Eb. destruct Eb as [Eb1 Eb2].
    assert (K1 : ar_acked_segments r = 0) by lia. assert (K2 : ar_newly_sacked_segments r = 0) by lia.
    specialize (L5 K1 K2). rewrite Eb1. cbn [sbind].
    assert (F1 : sdr s s1) by (unfold sdr; auto).
    destruct (rv_phase _); cbn [stR]; try (apply sdr_rm; exact F1).
    destruct (calc_pipe _ _ _ _ _) as [[[segs' pipe] recalc]|] eqn:Ec; [|exact I].
    cbn [stR]. apply sdr_rm. eapply sdr_trans; [exact F1|].
    unfold set_recovering. unfold sdr. vsimpl_goal. split; [reflexivity|]. split; [auto|].
    eapply calc_pipe_dlv; exact Ec.
Qed.

Lemma rx_flush_sdr : forall (s : vsock) rx1 w, sdr s (add_wakes (set_rx s rx1) w).
Proof. intros. unfold add_wakes. sdr_same_tac. Qed.

Lemma poll_start_sdr : forall (s : vsock), sdr s (poll_start s).
Proof. intros s. unfold poll_start. sdr_same_tac. Qed.

(* ------------------------------------------------------------------ a whole poll, every event *)
Theorem poll_rm : forall (s s' : vsock), poll cci s = (s', PollPending) -> rm s -> rm s'.
Proof.
  intros s s' H Hrm.
  assert (Hi : rm (poll_init s)) by exact Hrm.
  revert Hi. change (rmR (poll_init s) s').
  assert (P : pend_shape rmR (poll_init s) s').
  { apply (poll_Rp cci rmR rmR_refl rmR_trans); try exact H.
    - intro a. apply sdr_rm, poll_start_sdr.
    - intro a. apply stR_stRk, sts_stm, maybe_send_syn_ack_sdr.
    - intro a. apply stR_stRk, sts_stm, send_ack_sdr.
    - apply process_all_incoming_messages_rm.
    - intros s0 rx1 fb w _. apply sdr_rm, rx_flush_sdr.
    - intro a. apply stR_stRk, split_tx_queue_into_segments_rm.
    - intro a. apply stR_stRk, send_tx_queue_rm.
    - intro a. apply sdr_rm, transition_to_fin_wait_1_sdr.
    - intro a. apply stR_stRk, sts_stm, maybe_send_fin_sdr.
    - intro a. apply stR_stRk, sts_stm, maybe_send_ack_sdr. }
  destruct P as [[_ P]|(sa & sb & b & P1 & _ & P2 & _ & _ & _ & ->)]; [exact P|].
  eapply rmR_trans; [exact P1|]. eapply rmR_trans; [exact P2|]. apply sdr_rm, poll_tail_sdr.
Qed.

Lemma vstep_nonpoll_sdr : forall (s : vsock) o,
  match o with VoPoll _ => True | _ => sdr s (vstep_state cci s o) end.
Proof.
  intros s o. unfold vstep_state. destruct o.
  - cbn [vstep fst]. sdr_same_tac.
  - cbn [vstep fst]. sdr_same_tac.
  - exact I.
  - cbn [vstep]. destruct (v_inbox_closed s); cbn [fst]; sdr_same_tac.
  - cbn [vstep fst]. sdr_same_tac.
  - cbn [vstep]. destruct (writer_dropped _); [|destruct (poll_write _ _) as [[tx1 r] w]];
      cbn [fst]; sdr_same_tac.
  - cbn [vstep]. destruct (writer_dropped _); [|destruct (poll_flush _) as [[tx1 r] w]];
      cbn [fst]; sdr_same_tac.
  - cbn [vstep]. destruct (writer_dropped _); [|destruct (poll_shutdown _) as [[tx1 r] w]];
      cbn [fst]; sdr_same_tac.
  - cbn [vstep]. destruct (reader_dropped _); [|destruct (rx_read _ _) as [[rx1 r] w]];
      cbn [fst]; sdr_same_tac.
  - cbn [vstep]. destruct (reader_dropped _); [|destruct (rx_drop_reader _) as [rx1 w]];
      cbn [fst]; sdr_same_tac.
  - cbn [vstep]. destruct (drop_writer _) as [tx1 w]; cbn [fst]; sdr_same_tac.
Qed.

Theorem rm_vstep_live : forall (s : vsock) o,
  rm s -> poll_finished (vstep_out cci s o) = false -> rm (vstep_state cci s o).
Proof.
  intros s o Hp Hl. pose proof (vstep_nonpoll_sdr s o) as K.
  destruct o; try (apply (sdr_rm _ _ K); exact Hp).
  destruct (poll cci (VSockRec.set_sends s script)) as [s' r] eqn:E.
  destruct (vstep_poll cci s script s' r E) as [V1 V2]. rewrite V1. rewrite V2 in Hl.
  destruct r; try discriminate. eapply poll_rm; [exact E | exact Hp].
Qed.

Lemma rm_vsock_new : forall mk c s, vsock_new cci mk c = Some s -> rm s.
Proof.
  intros mk c s H. unfold vsock_new in H.
  destruct (match (if vc_incoming c then None else _) with Some r => _ | None => _ end); [|discriminate].
  inversion H; subst. unfold rm. cbn [v_rto_retransmissions]. lia.
Qed.

End WithCC.

(* C18 — Nagle, at the level of a whole poll and of every trace.
   1. [PollInv]: a predicate A kept by every function of poll_body (the segmentation being
      allowed to use what the receive loop leaves behind, Bx) holds after the poll, whatever
      its result, and at the start of every iteration of the restart loop;
   2. [TI]: positively tiled table, len_bytes = sum of the sizes, mss >= 1 — an invariant of every
      reachable state; it implies the monitored guard c18_pre of Conn/C18_Pred.v;
   3. [Core1 off0 m0]: the poll-local invariant behind c18_nagle_ok; the step and trace theorems;
   4. the completed polls: c18_off_all_segmented_ok, c18_drain_sends_ok (Conn/C18_Pred2.v). *)
From Utp Require Import Base.Prelude Wire.SeqNr Wire.Header Rtt.Rtte Mtu.SegSizes
  Rx.Rx Tx.Ring Tx.Segments Tx.Segments_Proofs Conn.Recovery Conn.Msg Conn.VSockRec Conn.VSock
  Conn.VSockRun Conn.VObs Conn.VSock_Lemmas Conn.VSock_LemmasStep Conn.VSock_LemmasReach
  Conn.C17_Step
  Conn.C18_Pred Conn.C18_Pred2 Conn.C18_Proofs Conn.C18_StepLemmas Conn.C18_StepRel Conn.C18_StepSplit.

Section WithCC.
Context {CC : Type} (cci : cc_iface CC).
Notation vsock := (vsock CC).

(* ================================================================== 1. invariants through a poll *)
Section PollInv.
Variables A Bx : vsock -> Prop.

Definition stA {X} (m : step X) : Prop :=
  match m with SOk s' _ | SErr s' _ => A s' | SPanic => True end.

Hypothesis H_start : forall s, A s -> A (poll_start s).
Hypothesis H_syn_ack : forall s, A s -> stA (maybe_send_syn_ack s).
Hypothesis H_send_ack : forall s, A s -> stA (send_ack s).
Hypothesis H_pim : forall s, A s -> stA (process_all_incoming_messages cci s).
Hypothesis H_pimB : forall s s' u, A s -> process_all_incoming_messages cci s = SOk s' u ->
  v_transport_pending s' = false -> Bx s'.
Hypothesis H_flush : forall s rx1 w, A s -> A (add_wakes (set_rx s rx1) (rx_wakes w)).
Hypothesis H_flushB : forall s rx1 w, Bx s -> Bx (add_wakes (set_rx s rx1) (rx_wakes w)).
Hypothesis H_split : forall s, A s -> Bx s -> stA (split_tx_queue_into_segments cci s).
Hypothesis H_stq : forall s, A s -> stA (send_tx_queue cci s).
Hypothesis H_fw1 : forall s, A s -> A (transition_to_fin_wait_1 s).
Hypothesis H_fin : forall s, A s -> stA (maybe_send_fin s).
Hypothesis H_msa : forall s, A s -> stA (maybe_send_ack s).
Hypothesis H_jbd : forall s e, A s -> A (just_before_death s e).
Hypothesis H_tail : forall s, A s -> A (poll_tail s).

Definition brA (r : body_res) : Prop :=
  match r with BrReturn s' _ | BrRestart s' => A s' | BrPanic => True end.

Lemma bail_A : forall X (m : step X) k,
  stA m -> (forall s1 a, A s1 -> brA (k s1 a)) -> brA (bail m k).
Proof.
  intros X m k Fm Fk. unfold bail. destruct m as [s1 a|s1 e|]; cbn [stA] in Fm.
  - destruct (v_restart s1); [exact Fm | apply Fk; exact Fm].
  - unfold die. cbn [brA]. apply H_jbd. exact Fm.
  - exact I.
Qed.

Lemma pend_A : forall X (m : step X) k,
  stA m -> (forall s1 a, A s1 -> brA (k s1 a)) -> brA (pend m k).
Proof.
  intros X m k Fm Fk. unfold pend. apply bail_A; [exact Fm|].
  intros s1 a A1. destruct (v_transport_pending s1); [exact A1|].
  destruct (v_restart s1); [exact A1 | apply Fk; exact A1].
Qed.

Theorem poll_body_A : forall s0, A s0 -> brA (poll_body cci s0).
Proof.
  intros s0 A0. unfold poll_body. fold (poll_start s0). apply H_start in A0.
  revert A0. generalize (poll_start s0). clear s0. intros s0 A0.
  apply pend_A; [apply H_syn_ack; exact A0|]. intros s1 _ A1.
  apply pend_A; [destruct (immediate_ack_to_transmit s1); [apply H_send_ack; exact A1 | exact A1]|].
  intros s2 _ A2.
  (* the receive loop: its result is needed for Bx *)
  pose proof (H_pim s2 A2) as A3. pose proof (H_pimB s2) as B3.
  unfold pend at 1, bail at 1.
  destruct (process_all_incoming_messages cci s2) as [s3 a3|s3 e3|]; cbn [stA] in A3.
  2:{ unfold die. cbn [brA]. apply H_jbd. exact A3. }
  2:{ exact I. }
  destruct (v_restart s3); [exact A3|].
  destruct (v_transport_pending s3) eqn:T3; [exact A3|].
  specialize (B3 s3 a3 A2 eq_refl T3).
  destruct (rx_flush (v_rx s3)) as [[rx1 fr] w]. destruct fr as [fb|]; [|exact I].
  pose proof (H_flush s3 rx1 w A3) as A4. pose proof (H_flushB s3 rx1 w B3) as B4.
  revert A4 B4. generalize (add_wakes (set_rx s3 rx1) (rx_wakes w)). intros s4 A4 B4.
  destruct (timer_expired _ _); [unfold die; cbn [brA]; apply H_jbd; exact A4|].
  apply bail_A; [apply H_split; assumption|]. intros s5 _ A5.
  apply pend_A; [apply H_stq; exact A5|]. intros s6 _ A6.
  assert (A7 : A (if should_close_on_own_initiative s6 then transition_to_fin_wait_1 s6 else s6)).
  { destruct (should_close_on_own_initiative s6); [apply H_fw1|]; exact A6. }
  revert A7. generalize (if should_close_on_own_initiative s6 then transition_to_fin_wait_1 s6 else s6).
  intros s7 A7.
  apply pend_A; [apply H_fin; exact A7|]. intros s8 _ A8.
  apply pend_A; [apply H_msa; exact A8|]. intros s9 _ A9.
  destruct (state_is_closed _ _).
  - cbn [brA]. apply H_jbd. exact A9.
  - pose proof (H_tail s9 A9) as F. unfold poll_tail in F.
    destruct (next_timer_to_poll _) as [sx t]. destruct t; exact F.
Qed.

Theorem poll_loop_A : forall fuel s s' r, A s -> poll_loop cci fuel s = (s', r) -> A s'.
Proof.
  induction fuel as [|fuel IH]; intros s s' r A0 H; cbn [poll_loop] in H.
  - inversion H; subst. exact A0.
  - pose proof (poll_body_A s A0) as F.
    destruct (poll_body cci s) as [s1 r1|s1|]; cbn [brA] in *.
    + inversion H; subst. exact F.
    + eapply IH; [exact F | exact H].
    + inversion H; subst. exact A0.
Qed.

Theorem poll_A : forall s s' r, A (poll_init s) -> poll cci s = (s', r) -> A s'.
Proof. intros s s' r A0 H. rewrite poll_unfold in H. eapply poll_loop_A; eauto. Qed.

(* the last iteration of a poll that returns Pending starts from a state satisfying A *)
Theorem poll_loop_last : forall fuel s s', A s -> poll_loop cci fuel s = (s', PollPending) ->
  exists s0, A s0 /\ poll_body cci s0 = BrReturn s' PollPending.
Proof.
  induction fuel as [|fuel IH]; intros s s' A0 H; cbn [poll_loop] in H; [discriminate|].
  pose proof (poll_body_A s A0) as F.
  destruct (poll_body cci s) as [s1 r1|s1|] eqn:E; cbn [brA] in *.
  - inversion H; subst. exists s. auto.
  - eapply IH; [exact F | exact H].
  - discriminate.
Qed.

Theorem poll_last : forall s s', A (poll_init s) -> poll cci s = (s', PollPending) ->
  exists s0, A s0 /\ poll_body cci s0 = BrReturn s' PollPending.
Proof. intros s s' A0 H. rewrite poll_unfold in H. eapply poll_loop_last; eauto. Qed.

End PollInv.

(* what the receive loop leaves behind when the poll goes on to segment *)
Definition Bx (s : vsock) : Prop := v_inbox s = [] \/ is_remote_fin_or_later (v_state s) = true.

Lemma closed_remote_fin : forall st w, state_is_closed st w = true -> is_remote_fin_or_later st = true.
Proof. intros st w H. destruct st; cbn [state_is_closed is_remote_fin_or_later] in *; congruence. Qed.

Lemma pim_Bx : forall (s s' : vsock) u, process_all_incoming_messages cci s = SOk s' u ->
  v_transport_pending s' = false -> Bx s'.
Proof.
  intros s s' u H T. apply process_all_D in H. destruct H as [H|[H|H]].
  - left. exact H.
  - right. eapply closed_remote_fin. exact H.
  - congruence.
Qed.

Lemma flush_Bx : forall (s : vsock) rx1 w, Bx s -> Bx (add_wakes (set_rx s rx1) (rx_wakes w)).
Proof. intros s rx1 w H. exact H. Qed.

(* ================================================================== 2. the table invariant *)
Definition TI (s : vsock) : Prop := 1 <= mss (v_ss s) /\ TIt (v_segs s).

Lemma TI_meaning : forall s : vsock,
  TI s <->
  1 <= mss (v_ss s) /\
  ss_len_bytes (v_segs s) = sum_sizes (ss_segs (v_segs s)) /\
  exists base, tiled base (ss_segs (v_segs s)) /\
               Forall (fun g => 0 < sg_size g) (ss_segs (v_segs s)) /\
               ss_offset (v_segs s) = base + sum_sizes (ss_segs (v_segs s)).
Proof. intros s. unfold TI, TIt, PT. tauto. Qed.

Lemma TI_keep : forall s s', keep s s' -> TI s -> TI s'.
Proof. intros s s' (_ & E1 & E2) H. unfold TI. rewrite E1, E2. exact H. Qed.

Lemma TI_kfl : forall s s', kfl s s' -> TI s -> TI s'.
Proof.
  intros s s' (_ & E1 & T) [M H]. split; [rewrite E1; exact M|].
  eapply TIt_trm; [apply tfl_trm, tfl_eq_le; exact T | exact H].
Qed.

Lemma TI_stx : forall s s', stx s s' -> TI s -> TI s'.
Proof.
  intros s s' H. induction H as [s|a b c _ IH1 _ IH2|s s' K R|s s' K M R P]; auto.
  - apply TI_kfl; exact K.
  - intros [M0 H]. split; [lia|]. eapply TIt_tpop; eauto.
Qed.

Lemma TI_pimrel : forall s s', pimrel s s' -> TI s -> TI s'.
Proof. intros s s' (_ & M & T & _) [M0 H]. split; [lia|]. eapply TIt_trm; eauto. Qed.

Lemma stR_inv : forall (R : vsock -> vsock -> Prop) (P : vsock -> Prop) X (s : vsock) (m : step X),
  (forall a b, R a b -> P a -> P b) -> stR R s m -> P s -> stA P m.
Proof. intros R P X s m HR H Ps. destruct m; cbn [stR stA] in *; eauto. Qed.

Lemma pre2_TIt : forall t ss t2 ss2, pre2 t ss t2 ss2 -> TIt t -> TIt t2.
Proof. intros t ss t2 ss2 (_ & [[-> _]|P]) H; [exact H | eapply TIt_tpop; eauto]. Qed.

Lemma TI_split : forall s, TI s -> stA TI (split_tx_queue_into_segments cci s).
Proof.
  intros s [M H]. pose proof (split_spec cci s) as Sp.
  destruct (split_tx_queue_into_segments cci s) as [s' u|s' e|]; cbn [stA]; [| |exact I].
  - destruct Sp as (_ & [(E1 & E2 & _)|[(E1 & E2 & _)|(t2 & ss2 & P & _ & _ & _ & L)]]).
    + unfold TI. rewrite E1, E2. auto.
    + unfold TI. rewrite E1, E2. auto.
    + pose proof (segment_loop_mss _ _ _ _ _ _ _ _ _ L) as M1. destruct P as [M2 P'].
      split; [lia|]. eapply segment_loop_TIt; [exact L | lia |].
      eapply pre2_TIt; [split; [exact M2|exact P'] | exact H].
  - destruct Sp as (_ & _ & P). pose proof P as [M2 _]. split; [lia|]. eapply pre2_TIt; eauto.
Qed.

Theorem TI_poll : forall s s' r, TI s -> poll cci s = (s', r) -> TI s'.
Proof.
  intros s s' r H E.
  apply (poll_A TI (fun _ => True)) with (s := s) (r := r); try exact E; try (intros; exact I).
  - intros s0 H0. eapply TI_keep; [apply poll_start_keep | exact H0].
  - intros s0 H0. eapply (stR_inv keepr); [|apply maybe_send_syn_ack_keepr | exact H0].
    intros a b [K _]. apply TI_keep. exact K.
  - intros s0 H0. eapply (stR_inv keepr); [|apply send_ack_keepr | exact H0].
    intros a b [K _]. apply TI_keep. exact K.
  - intros s0 H0. eapply (stR_inv pimrel); [apply TI_pimrel | apply process_all_incoming_messages_pimrel | exact H0].
  - intros s0 rx1 w H0. eapply TI_keep; [apply (rx_flush_keepr s0 rx1 (rx_wakes w)) | exact H0].
  - intros s0 H0 _. apply TI_split. exact H0.
  - intros s0 H0. eapply (stR_inv stx); [apply TI_stx | apply send_tx_queue_stx | exact H0].
  - intros s0 H0. eapply TI_keep; [apply transition_to_fin_wait_1_keepr | exact H0].
  - intros s0 H0. eapply (stR_inv keepr); [|apply maybe_send_fin_keepr | exact H0].
    intros a b [K _]. apply TI_keep. exact K.
  - intros s0 H0. eapply (stR_inv keepr); [|apply maybe_send_ack_keepr | exact H0].
    intros a b [K _]. apply TI_keep. exact K.
  - intros s0 e H0. eapply TI_keep; [apply just_before_death_keepr | exact H0].
  - intros s0 H0. eapply TI_keep; [apply poll_tail_keepr | exact H0].
  - unfold poll_init, TI. exact H.
Qed.

(* the other events do not touch the table *)
Lemma vstep_nonpoll_segs : forall (s : vsock) o,
  match o with VoPoll _ => True | _ => v_segs (vstep_state cci s o) = v_segs s end.
Proof.
  intros s o. unfold vstep_state. destruct o; try exact I.
  - reflexivity.
  - reflexivity.
  - cbn [vstep]. destruct (v_inbox_closed s); reflexivity.
  - reflexivity.
  - cbn [vstep]. destruct (writer_dropped _); [|destruct (poll_write _ _) as [[tx1 r] w]]; reflexivity.
  - cbn [vstep]. destruct (writer_dropped _); [|destruct (poll_flush _) as [[tx1 r] w]]; reflexivity.
  - cbn [vstep]. destruct (writer_dropped _); [|destruct (poll_shutdown _) as [[tx1 r] w]]; reflexivity.
  - cbn [vstep]. destruct (reader_dropped _); [|destruct (rx_read _ _) as [[rx1 r] w]]; reflexivity.
  - cbn [vstep]. destruct (reader_dropped _); [|destruct (rx_drop_reader _) as [rx1 w]]; reflexivity.
  - cbn [vstep]. destruct (drop_writer _) as [tx1 w]; reflexivity.
Qed.

Theorem TI_vstep : forall (s : vsock) o, TI s -> TI (vstep_state cci s o).
Proof.
  intros s o H. pose proof (vstep_nonpoll_segs s o) as Sg. pose proof (vstep_nonpoll_keeps cci s o) as K.
  destruct o; try (destruct K as (_ & _ & K3); unfold TI; rewrite K3, Sg; exact H).
  unfold vstep_state. cbn [vstep].
  destruct (poll cci (VSockRec.set_sends s script)) as [s' r] eqn:E. cbn [fst].
  eapply TI_poll; [|exact E]. exact H.
Qed.

Theorem TI_vsock_new : forall mk c (s : vsock), vsock_new cci mk c = Some s -> TI s.
Proof.
  intros mk c s H. unfold vsock_new in H.
  destruct (match (if vc_incoming c then None else _) with Some r => _ | None => _ end); [|discriminate].
  inversion H; subst. unfold TI. cbn [v_ss v_segs]. split; [apply mss_ss_new_pos|].
  unfold TIt, segments_new; cbn [ss_segs ss_len_bytes ss_offset sum_sizes]. split; [reflexivity|].
  exists 0. apply PT_nil. reflexivity.
Qed.

(* the monitored guard of c18_nagle_ok is implied *)
Lemma TI_c18_pre : forall s : vsock, TI s -> c18_pre (fp_of_vsock cci s) = true.
Proof.
  intros s [_ H]. apply TIt_pre in H. unfold c18_pre. cbn [fp_of_vsock f_segs f_seg_offset].
  apply forallb_forall. intros g In. apply in_map_iff in In. destruct In as (g0 & <- & In).
  rewrite Forall_forall in H. specialize (H g0 In). cbn [fseg_of fg_abs]. lia.
Qed.


(* ================================================================== 3. the invariants of one poll *)
(* an invariant closed under the three relations, kept by the receive loop and the segmentation *)
Theorem poll_inv_gen : forall (P : vsock -> Prop),
  (forall a b, keep a b -> P a -> P b) ->
  (forall a b, stx a b -> P a -> P b) ->
  (forall s, P s -> stA P (process_all_incoming_messages cci s)) ->
  (forall s, P s -> Bx s -> stA P (split_tx_queue_into_segments cci s)) ->
  forall s s' r, P (poll_init s) -> poll cci s = (s', r) ->
  P s' /\ (r = PollPending -> exists s0, P s0 /\ poll_body cci s0 = BrReturn s' PollPending).
Proof.
  intros P Hk Hs Hp Hsp s s' r P0 E.
  assert (Hkr : forall a b, keepr a b -> P a -> P b) by (intros a b K; apply Hs, keepr_stx; exact K).
  assert (G : forall Q : Prop,
    ((forall s, P s -> P (poll_start s)) ->
     (forall s, P s -> stA P (maybe_send_syn_ack s)) ->
     (forall s, P s -> stA P (send_ack s)) ->
     (forall s, P s -> stA P (process_all_incoming_messages cci s)) ->
     (forall s s' u, P s -> process_all_incoming_messages cci s = SOk s' u -> v_transport_pending s' = false -> Bx s') ->
     (forall s rx1 w, P s -> P (add_wakes (set_rx s rx1) (rx_wakes w))) ->
     (forall s rx1 w, Bx s -> Bx (add_wakes (set_rx s rx1) (rx_wakes w))) ->
     (forall s, P s -> Bx s -> stA P (split_tx_queue_into_segments cci s)) ->
     (forall s, P s -> stA P (send_tx_queue cci s)) ->
     (forall s, P s -> P (transition_to_fin_wait_1 s)) ->
     (forall s, P s -> stA P (maybe_send_fin s)) ->
     (forall s, P s -> stA P (maybe_send_ack s)) ->
     (forall s e, P s -> P (just_before_death s e)) ->
     (forall s, P s -> P (poll_tail s)) -> Q) -> Q).
  { intros Q HQ. apply HQ.
    - intros s0 H0. eapply Hk; [apply poll_start_keep | exact H0].
    - intros s0 H0. eapply (stR_inv keepr); [exact Hkr | apply maybe_send_syn_ack_keepr | exact H0].
    - intros s0 H0. eapply (stR_inv keepr); [exact Hkr | apply send_ack_keepr | exact H0].
    - exact Hp.
    - intros s0 s1 u _. apply pim_Bx.
    - intros s0 rx1 w H0. eapply Hkr; [apply (rx_flush_keepr s0 rx1 (rx_wakes w)) | exact H0].
    - intros s0 rx1 w H0. exact H0.
    - exact Hsp.
    - intros s0 H0. eapply (stR_inv stx); [exact Hs | apply send_tx_queue_stx | exact H0].
    - intros s0 H0. eapply Hkr; [apply transition_to_fin_wait_1_keepr | exact H0].
    - intros s0 H0. eapply (stR_inv keepr); [exact Hkr | apply maybe_send_fin_keepr | exact H0].
    - intros s0 H0. eapply (stR_inv keepr); [exact Hkr | apply maybe_send_ack_keepr | exact H0].
    - intros s0 e H0. eapply Hkr; [apply just_before_death_keepr | exact H0].
    - intros s0 H0. eapply Hkr; [apply poll_tail_keepr | exact H0]. }
  apply G. intros G1 G2 G3 G4 G5 G6 G7 G8 G9 G10 G11 G12 G13 G14. split.
  - apply (poll_A P Bx G1 G2 G3 G4 G5 G6 G7 G8 G9 G10 G11 G12 G13 G14 s s' r P0 E).
  - intros ->. apply (poll_last P Bx G1 G2 G3 G4 G5 G6 G7 G8 G9 G10 G11 G12 G13 G14 s s' P0 E).
Qed.

Section Core.
Variables (off0 m0 : Z).

Definition CoreT (s : vsock) : Prop :=
  1 <= mss (v_ss s) /\ Tab off0 (v_segs s) /\ (off0 < ss_offset (v_segs s) -> v_inbox s = []).

Definition CoreW (s : vsock) : Prop :=
  m0 <= mss (v_ss s) /\ o_nagle (v_opts s) = true /\
  c18_walk off0 m0 (v_last_remote_window s) false (map fseg_of (ss_segs (v_segs s))) = true.

Definition Core1 (s : vsock) : Prop := CoreT s /\ CoreW s.

(* ---- CoreT ---- *)
Lemma CoreT_keep : forall a b, keep a b -> CoreT a -> CoreT b.
Proof. intros a b ((_ & I & _) & E1 & E2) H. unfold CoreT. rewrite E1, E2, I. exact H. Qed.

Lemma CoreT_kfl : forall a b, kfl a b -> CoreT a -> CoreT b.
Proof.
  intros a b ((_ & I & _) & E1 & T) (M & Tb & Ib). pose proof T as (_ & O & _).
  split; [rewrite E1; exact M|]. split; [eapply Tab_tfl; [apply tfl_eq_le; exact T | exact Tb]|].
  rewrite O, I. exact Ib.
Qed.

Lemma CoreT_stx : forall a b, stx a b -> CoreT a -> CoreT b.
Proof.
  intros a b H. induction H as [s|a b c _ IH1 _ IH2|s s' K R|s s' K M R P]; auto.
  - apply CoreT_kfl; exact K.
  - intros (M0 & Tb & Ib). destruct K as (_ & I & _).
    split; [lia|]. split; [apply (Tab_tpop off0 _ _ P Tb)|].
    pose proof (tpop_offset_lt off0 _ _ P Tb). intro L. rewrite I. apply Ib. lia.
Qed.

Lemma CoreT_offset : forall s, CoreT s -> v_inbox s <> [] -> ss_offset (v_segs s) = off0.
Proof.
  intros s (_ & Tb & Ib) N. pose proof (Tab_ge _ _ Tb).
  destruct (Z.ltb_spec off0 (ss_offset (v_segs s))) as [L|L]; [|lia]. specialize (Ib L). congruence.
Qed.

(* incoming messages: only while nothing new has been segmented *)
Lemma CoreT_pimrel : forall a b, pimrel a b -> ss_offset (v_segs a) = off0 -> CoreT a -> CoreT b.
Proof.
  intros a b (_ & Mb & T & _) O (M & Tb & _). pose proof T as (n & _ & O' & _).
  split; [lia|]. split; [eapply Tab_trm; eauto|]. intro L. lia.
Qed.

Lemma CoreT_pim : forall s, CoreT s -> stA CoreT (process_all_incoming_messages cci s).
Proof.
  intros s H. destruct (v_inbox s) as [|m rest] eqn:Ei.
  - eapply (stR_inv kfl); [apply CoreT_kfl | apply process_all_incoming_messages_idle; exact Ei | exact H].
  - assert (O : ss_offset (v_segs s) = off0) by (apply CoreT_offset; [exact H | congruence]).
    pose proof (process_all_incoming_messages_pimrel cci s) as R.
    destruct (process_all_incoming_messages cci s); cbn [stR stA] in *; try exact I;
      eapply CoreT_pimrel; eauto.
Qed.

Lemma pre2_Tab : forall t ss t2 ss2, pre2 t ss t2 ss2 -> Tab off0 t ->
  Tab off0 t2 /\ ss_offset t2 <= ss_offset t.
Proof.
  intros t ss t2 ss2 (_ & [[-> _]|P]) H; [split; [exact H|lia]|].
  split; [apply (Tab_tpop off0 _ _ P H)|]. pose proof (tpop_offset_lt off0 _ _ P H). lia.
Qed.

Lemma CoreT_split : forall s, CoreT s -> Bx s -> stA CoreT (split_tx_queue_into_segments cci s).
Proof.
  intros s (M & Tb & Ib) B. pose proof (split_spec cci s) as Sp.
  destruct (split_tx_queue_into_segments cci s) as [s' u|s' e|]; cbn [stA]; [| |exact I].
  - destruct Sp as ((_ & I & _) & [(E1 & E2 & _)|[(E1 & E2 & _)|(t2 & ss2 & P & _ & Fin & _ & L)]]).
    + unfold CoreT. rewrite E1, E2, I. auto.
    + unfold CoreT. rewrite E1, E2, I. auto.
    + pose proof (segment_loop_mss _ _ _ _ _ _ _ _ _ L) as M1. pose proof P as [M2 _].
      destruct (pre2_Tab _ _ _ _ P Tb) as [Tb2 _].
      split; [lia|]. split; [eapply segment_loop_Tab; [exact L | lia | exact Tb2]|].
      intros _. rewrite I. destruct B as [B|B]; [exact B|congruence].
  - destruct Sp as ((_ & I & _) & _ & P). pose proof P as [M2 _].
    destruct (pre2_Tab _ _ _ _ P Tb) as [Tb2 Le].
    split; [lia|]. split; [exact Tb2|]. intro Lt. rewrite I. apply Ib. lia.
Qed.

(* ---- CoreW ---- *)
Lemma CoreW_keep : forall a b, keep a b -> CoreW a -> CoreW b.
Proof. intros a b ((W & _ & O & _) & E1 & E2) H. unfold CoreW. rewrite E1, E2, W, O. exact H. Qed.

Lemma CoreW_kfl : forall a b, kfl a b -> CoreW a -> CoreW b.
Proof.
  intros a b ((W & _ & O & _) & E1 & T) (M & N & Wk). destruct T as (F & _ & _).
  unfold CoreW. rewrite E1, O, W. split; [exact M|]. split; [exact N|].
  rewrite (F2_walk off0 m0 _ _ _ false (F2_impl _ _ seg_eq_le _ _ F)). exact Wk.
Qed.

Lemma CoreW_stx : forall a b, stx a b -> CoreW a -> CoreW b.
Proof.
  intros a b H. induction H as [s|a b c _ IH1 _ IH2|s s' K R|s s' K M R P]; auto.
  - apply CoreW_kfl; exact K.
  - intros (M0 & N & Wk). destruct K as (W & _ & O & _). destruct P as (g & S & _).
    unfold CoreW. rewrite O, W. split; [lia|]. split; [exact N|].
    rewrite S in Wk. eapply walk_prefix; eauto.
Qed.

Lemma Core1_pim : forall s, Core1 s -> stA Core1 (process_all_incoming_messages cci s).
Proof.
  intros s [HT HW]. destruct (v_inbox s) as [|m rest] eqn:Ei.
  - eapply (stR_inv kfl); [| apply process_all_incoming_messages_idle; exact Ei | split; [exact HT|exact HW]].
    intros a b K [X Y]. split; [eapply CoreT_kfl | eapply CoreW_kfl]; eauto.
  - assert (O : ss_offset (v_segs s) = off0) by (apply CoreT_offset; [exact HT | congruence]).
    pose proof (process_all_incoming_messages_pimrel cci s) as R.
    assert (G : forall b, pimrel s b -> Core1 b).
    { intros b Rb. pose proof (CoreT_pimrel _ _ Rb O HT) as HT'. split; [exact HT'|].
      destruct Rb as (Ob & Mb & (n & _ & O' & _) & _). destruct HW as (M0 & N & _).
      unfold CoreW. rewrite Ob. split; [lia|]. split; [exact N|].
      apply Tab_walk_old; [lia | exact (proj1 (proj2 HT'))]. }
    destruct (process_all_incoming_messages cci s); cbn [stR stA] in *; auto.
Qed.

Lemma Core1_split : forall s, Core1 s -> Bx s -> stA Core1 (split_tx_queue_into_segments cci s).
Proof.
  intros s [HT HW] B. pose proof (CoreT_split s HT B) as HT'.
  pose proof (split_spec cci s) as Sp. destruct HW as (M0 & N & Wk). destruct HT as (M & Tb & _).
  destruct (split_tx_queue_into_segments cci s) as [s' u|s' e|]; cbn [stA] in *; [| |exact I].
  - split; [exact HT'|].
    destruct Sp as ((W & _ & O & _) & [(E1 & E2 & _)|[(E1 & E2 & _)|(t2 & ss2 & P & _ & _ & _ & L)]]).
    + unfold CoreW. rewrite E1, E2, W, O. auto.
    + unfold CoreW. rewrite E1, E2, W, O. auto.
    + pose proof (segment_loop_mss _ _ _ _ _ _ _ _ _ L) as M1. pose proof P as [M2 P'].
      destruct (pre2_Tab _ _ _ _ P Tb) as [Tb2 _]. pose proof (Tab_ge _ _ Tb2) as Ge.
      unfold CoreW. rewrite O, W. split; [lia|]. split; [exact N|].
      rewrite N in L. eapply segment_loop_walk; [exact L | lia | exact Ge |].
      destruct P' as [[-> _]|(g & S & _)]; [exact Wk|]. rewrite S in Wk. eapply walk_prefix; eauto.
  - split; [exact HT'|]. destruct Sp as ((W & _ & O & _) & _ & P). pose proof P as [M2 P'].
    unfold CoreW. rewrite O, W. split; [lia|]. split; [exact N|].
    destruct P' as [[-> _]|(g & S & _)]; [exact Wk|]. rewrite S in Wk. eapply walk_prefix; eauto.
Qed.

Theorem Core1_poll : forall s s' r, Core1 (poll_init s) -> poll cci s = (s', r) -> Core1 s'.
Proof.
  intros s s' r H E.
  apply (poll_inv_gen Core1) with (s := s) (r := r); try assumption.
  - intros a b K [X Y]. split; [eapply CoreT_keep | eapply CoreW_keep]; eauto.
  - intros a b K [X Y]. split; [eapply CoreT_stx | eapply CoreW_stx]; eauto.
  - apply Core1_pim.
  - apply Core1_split.
Qed.

End Core.

(* the poll-local invariant holds at the start of a poll *)
Lemma lastok_fp : forall s : vsock, c18_no_probe_last (fp_of_vsock cci s) = true -> lastok (ss_segs (v_segs s)).
Proof.
  intros s H. unfold c18_no_probe_last in H. cbn [fp_of_vsock f_segs] in H. unfold lastok.
  rewrite <- map_rev in H. destruct (rev (ss_segs (v_segs s))) as [|g r]; [exact I|].
  cbn [map fseg_of fg_probe fg_delivered] in H. unfold upr. destruct (sg_probe g && negb (sg_delivered g)); [discriminate|reflexivity].
Qed.

Lemma CoreT_init : forall (s : vsock) sc, TI s -> lastok (ss_segs (v_segs s)) ->
  CoreT (ss_offset (v_segs s)) (poll_init (VSockRec.set_sends s sc)).
Proof.
  intros s sc [M H] L. unfold CoreT, poll_init. cbn [v_ss v_segs v_inbox set_arm_in set_wakes set_out VSockRec.set_sends].
  split; [exact M|]. split; [apply Tab_init; assumption|]. intro C. lia.
Qed.

(* ---- c18_nagle_ok ---- *)
Theorem c18_nagle_ok_step : forall cfg (s : vsock) o,
  TI s -> (vc_nagle cfg = true -> o_nagle (v_opts s) = true) ->
  c18_nagle_ok cfg (fstep_of cci s o) = true.
Proof.
  intros cfg s o HT HN. unfold c18_nagle_ok, c18_is_poll. rewrite fstep_of_event.
  destruct o; cbn [fevent_of]; try reflexivity.
  destruct (poll cci (VSockRec.set_sends s script)) as [s' r] eqn:E.
  rewrite (fstep_of_poll cci s script s' r E). cbn [fs_pre fs_post].
  unfold c18_nagle_fp.
  destruct (vc_nagle cfg) eqn:Ng; [|reflexivity]. specialize (HN eq_refl).
  destruct (c18_pre _); [|reflexivity].
  destruct (c18_no_probe_last (fp_of_vsock cci s)) eqn:NP; [|reflexivity]. cbn [andb].
  apply lastok_fp in NP.
  assert (C0 : Core1 (ss_offset (v_segs s)) (mss (v_ss s)) (poll_init (VSockRec.set_sends s script))).
  { split; [apply CoreT_init; assumption|].
    unfold CoreW, poll_init. cbn [v_ss v_segs v_opts v_last_remote_window set_arm_in set_wakes set_out VSockRec.set_sends].
    split; [lia|]. split; [exact HN|].
    apply Tab_walk_old; [reflexivity|]. apply Tab_init; [exact (proj2 HT) | exact NP]. }
  pose proof (Core1_poll _ _ _ _ _ C0 E) as [_ (_ & _ & Wk)].
  cbn [fp_of_vsock f_seg_offset f_mss f_last_remote_window f_segs]. exact Wk.
Qed.

Definition NG (c : vconfig) (s : vsock) : Prop := o_nagle (v_opts s) = vc_nagle c.

Lemma NG_vstep : forall c (s : vsock) o, NG c s -> NG c (vstep_state cci s o).
Proof. intros c s o H. unfold NG in *. destruct (vstep_keeps cci s o) as (K & _). rewrite K. exact H. Qed.

Lemma NG_vsock_new : forall mk c (s : vsock), vsock_new cci mk c = Some s -> NG c s.
Proof.
  intros mk c s H. unfold vsock_new in H.
  destruct (match (if vc_incoming c then None else _) with Some r => _ | None => _ end); [|discriminate].
  inversion H; subst. reflexivity.
Qed.

Theorem c18_nagle_ok_trace : forall mk c (s0 : vsock) ops,
  vsock_new cci mk c = Some s0 -> forallb (c18_nagle_ok c) (ftrace cci s0 ops) = true.
Proof.
  intros mk c s0 ops H.
  apply (ftrace_forallb cci (fun s => TI s /\ NG c s)).
  - intros s o [H1 H2]. apply c18_nagle_ok_step; [exact H1|]. intro N. rewrite H2. exact N.
  - intros s o [H1 H2]. split; [apply TI_vstep; exact H1 | apply NG_vstep; exact H2].
  - split; [eapply TI_vsock_new; eauto | eapply NG_vsock_new; eauto].
Qed.

(* the guard c18_pre holds before and after every event *)
Theorem c18_pre_ok_step : forall cfg (s : vsock) o, TI s -> c18_pre_ok cfg (fstep_of cci s o) = true.
Proof.
  intros cfg s o H. unfold c18_pre_ok. rewrite fstep_of_pre, fstep_of_post.
  rewrite (TI_c18_pre s H), (TI_c18_pre _ (TI_vstep s o H)). reflexivity.
Qed.

Theorem c18_pre_ok_trace : forall cfg mk c (s0 : vsock) ops,
  vsock_new cci mk c = Some s0 -> forallb (c18_pre_ok cfg) (ftrace cci s0 ops) = true.
Proof.
  intros cfg mk c s0 ops H.
  apply (ftrace_forallb cci TI); [apply c18_pre_ok_step | apply TI_vstep | eapply TI_vsock_new; eauto].
Qed.

Theorem c18_pre_monitor_trace : forall cfg mk c (s0 : vsock) ops,
  vsock_new cci mk c = Some s0 -> forallb (c18_pre_monitor cfg) (ftrace cci s0 ops) = true.
Proof.
  intros cfg mk c s0 ops H.
  apply (ftrace_forallb cci TI); [| apply TI_vstep | eapply TI_vsock_new; eauto].
  intros s o T. unfold c18_pre_monitor. rewrite fstep_of_post. apply TI_c18_pre, TI_vstep, T.
Qed.


(* ================================================================== 4. completed polls *)
(* from the state the segmentation left to the state the poll leaves, when no restart is
   requested: flags of segments only; the ring and "peer FIN seen" are unchanged *)
Definition aft (s s' : vsock) : Prop :=
  kfl s s' /\ ring (v_tx s') = ring (v_tx s) /\
  is_remote_fin_or_later (v_state s') = is_remote_fin_or_later (v_state s).

Lemma aft_refl s : aft s s.
Proof. split; [apply kfl_refl|]. split; reflexivity. Qed.
Lemma aft_trans a b c : aft a b -> aft b c -> aft a c.
Proof. intros (A1 & A2 & A3) (B1 & B2 & B3). split; [eapply kfl_trans; eauto|]. split; congruence. Qed.

Lemma aft_ctl : forall X (s s' : vsock) (m : step X) a,
  stR keepr s m -> stR (txf (CC := CC)) s m -> m = SOk s' a -> aft s s'.
Proof.
  intros X s s' m a K T ->. cbn [stR] in *. destruct T as (_ & T2 & _ & _ & _ & _ & T7 & _).
  split; [apply keep_kfl; exact (proj1 K)|]. rewrite T2, T7. split; reflexivity.
Qed.

Lemma aft_fw1 : forall s : vsock, aft s (transition_to_fin_wait_1 s).
Proof.
  intros s. split; [apply keep_kfl; exact (proj1 (transition_to_fin_wait_1_keepr s))|].
  unfold transition_to_fin_wait_1. destruct (v_state s) eqn:E; cbn [v_tx v_state set_seq_nr set_state]; rewrite ?E; split; reflexivity.
Qed.

Lemma aft_tail : forall s : vsock, aft s (poll_tail s).
Proof.
  intros s. split; [apply keep_kfl; exact (proj1 (poll_tail_keepr s))|].
  destruct (poll_tail_fields s) as (_ & _ & _ & St & _ & _ & _ & _ & _ & _ & _ & _ & _ & _ & _ & Tx & _).
  rewrite St, Tx. split; reflexivity.
Qed.

Theorem poll_body_chain : forall (P : vsock -> Prop),
  (forall a b, keep a b -> P a -> P b) ->
  (forall a b, stx a b -> P a -> P b) ->
  (forall s, P s -> stA P (process_all_incoming_messages cci s)) ->
  forall s0 s', P s0 -> poll_body cci s0 = BrReturn s' PollPending -> v_transport_pending s' = false ->
  exists s4 s5 u, P s4 /\ Bx s4 /\ split_tx_queue_into_segments cci s4 = SOk s5 u /\ aft s5 s'.
Proof.
  intros P Hk Hs Hp s0 s' P0 H T.
  assert (Hkr : forall a b, keepr a b -> P a -> P b) by (intros a b K; apply Hs, keepr_stx; exact K).
  unfold poll_body in H. fold (poll_start s0) in H.
  assert (Ps : P (poll_start s0)) by (eapply Hk; [apply poll_start_keep | exact P0]).
  revert Ps H. generalize (poll_start s0). clear s0 P0. intros s0 P0 H.
  apply pend_pending_inv in H; [|exact T]. destruct H as (s1 & a1 & E1 & R1 & T1 & H).
  assert (P1 : P s1).
  { pose proof (maybe_send_syn_ack_keepr s0) as K. rewrite E1 in K. cbn [stR] in K. eapply Hkr; eauto. }
  apply pend_pending_inv in H; [|exact T]. destruct H as (s2 & a2 & E2 & R2 & T2 & H).
  assert (P2 : P s2).
  { destruct (immediate_ack_to_transmit s1).
    - pose proof (send_ack_keepr s1) as K. rewrite E2 in K. cbn [stR] in K. eapply Hkr; eauto.
    - inversion E2; subst. exact P1. }
  apply pend_pending_inv in H; [|exact T]. destruct H as (s3 & a3 & E3 & R3 & T3 & H).
  assert (P3 : P s3) by (pose proof (Hp s2 P2) as K; rewrite E3 in K; exact K).
  pose proof (pim_Bx _ _ _ E3 T3) as B3.
  destruct (rx_flush (v_rx s3)) as [[rx1 fr] w]. destruct fr; [|discriminate].
  assert (P4 : P (add_wakes (set_rx s3 rx1) (rx_wakes w))).
  { eapply Hkr; [apply (rx_flush_keepr s3 rx1 (rx_wakes w)) | exact P3]. }
  assert (B4 : Bx (add_wakes (set_rx s3 rx1) (rx_wakes w))) by exact B3.
  revert P4 B4 H. generalize (add_wakes (set_rx s3 rx1) (rx_wakes w)). intros s4 P4 B4 H.
  destruct (timer_expired _ _); [exfalso; eapply die_not_pending; eauto|].
  apply bail_pending_inv in H. destruct H as (s5 & a5 & E5 & R5 & H).
  exists s4, s5, a5. split; [exact P4|]. split; [exact B4|]. split; [exact E5|].
  apply pend_pending_inv in H; [|exact T]. destruct H as (s6 & a6 & E6 & R6 & T6 & H).
  assert (F6 : aft s5 s6).
  { pose proof (send_tx_queue_stx cci s5) as K. pose proof (send_tx_queue_txf cci s5) as Tf.
    rewrite E6 in K, Tf. cbn [stR] in K, Tf. apply stx_restart in K. destruct K as [_ K].
    destruct Tf as (_ & T2' & _ & _ & _ & _ & T7 & _).
    split; [apply K; exact R6|]. rewrite T2', T7. split; reflexivity. }
  assert (F7 : aft s5 (if should_close_on_own_initiative s6 then transition_to_fin_wait_1 s6 else s6)).
  { destruct (should_close_on_own_initiative s6); [|exact F6]. eapply aft_trans; [exact F6 | apply aft_fw1]. }
  revert F7 H. generalize (if should_close_on_own_initiative s6 then transition_to_fin_wait_1 s6 else s6).
  intros s7 F7 H.
  apply pend_pending_inv in H; [|exact T]. destruct H as (s8 & a8 & E8 & R8 & T8 & H).
  pose proof (aft_ctl _ s7 s8 _ a8 (maybe_send_fin_keepr s7) (maybe_send_fin_txf s7) E8) as F8.
  apply pend_pending_inv in H; [|exact T]. destruct H as (s9 & a9 & E9 & R9 & T9 & H).
  pose proof (aft_ctl _ s8 s9 _ a9 (maybe_send_ack_keepr s8) (maybe_send_ack_txf s8) E9) as F9.
  assert (Hs' : s' = poll_tail s9).
  { destruct (state_is_closed _ _); [discriminate|]. unfold poll_tail.
    destruct (next_timer_to_poll _) as [sx t]. destruct t; inversion H; reflexivity. }
  rewrite Hs'.
  eapply aft_trans; [exact F7|]. eapply aft_trans; [exact F8|]. eapply aft_trans; [exact F9|]. apply aft_tail.
Qed.

(* a completed poll: the last iteration segmented from a state satisfying the invariant *)
Theorem poll_completed : forall (P : vsock -> Prop),
  (forall a b, keep a b -> P a -> P b) ->
  (forall a b, stx a b -> P a -> P b) ->
  (forall s, P s -> stA P (process_all_incoming_messages cci s)) ->
  (forall s, P s -> Bx s -> stA P (split_tx_queue_into_segments cci s)) ->
  forall s s', P (poll_init s) -> poll cci s = (s', PollPending) -> v_transport_pending s' = false ->
  P s' /\ exists s4 s5 u, P s4 /\ Bx s4 /\ split_tx_queue_into_segments cci s4 = SOk s5 u /\ aft s5 s'.
Proof.
  intros P Hk Hs Hp Hsp s s' P0 E T.
  destruct (poll_inv_gen P Hk Hs Hp Hsp s s' _ P0 E) as [Ps' L]. split; [exact Ps'|].
  destruct (L eq_refl) as (s0 & Q0 & Eb).
  eapply poll_body_chain; eauto.
Qed.

(* ---- the observable guards ---- *)
Lemma completed_eq : forall (s : vsock) sc s' r, poll cci (VSockRec.set_sends s sc) = (s', r) ->
  c18_completed (fstep_of cci s (VoPoll sc)) =
  match r with PollPending => negb (v_transport_pending s') | _ => false end.
Proof. intros s sc s' r E. rewrite (fstep_of_poll cci s sc s' r E). destruct r; reflexivity. Qed.

Lemma completed_poll : forall (s : vsock) o,
  c18_completed (fstep_of cci s o) = true ->
  exists sc s', o = VoPoll sc /\ poll cci (VSockRec.set_sends s sc) = (s', PollPending) /\
                v_transport_pending s' = false /\
                fs_pre (fstep_of cci s o) = fp_of_vsock cci s /\ fs_post (fstep_of cci s o) = fp_of_vsock cci s'.
Proof.
  intros s o.
  destruct o; try (unfold c18_completed; rewrite fstep_of_event; cbn [fevent_of]; discriminate).
  destruct (poll cci (VSockRec.set_sends s script)) as [s' r] eqn:E.
  rewrite (completed_eq s script s' r E). intro H.
  exists script, s'. split; [reflexivity|].
  destruct r; try discriminate.
  split; [exact E|]. split; [destruct (v_transport_pending s'); [discriminate|reflexivity]|].
  rewrite (fstep_of_poll cci s script s' _ E). split; reflexivity.
Qed.

Definition TC (off0 : Z) (s : vsock) : Prop := TI s /\ CoreT off0 s.

Lemma TC_closed : forall off0,
  (forall a b, keep a b -> TC off0 a -> TC off0 b) /\
  (forall a b, stx a b -> TC off0 a -> TC off0 b) /\
  (forall s, TC off0 s -> stA (TC off0) (process_all_incoming_messages cci s)) /\
  (forall s, TC off0 s -> Bx s -> stA (TC off0) (split_tx_queue_into_segments cci s)).
Proof.
  intros off0. split; [|split; [|split]].
  - intros a b K [X Y]. split; [eapply TI_keep | eapply CoreT_keep]; eauto.
  - intros a b K [X Y]. split; [eapply TI_stx | eapply CoreT_stx]; eauto.
  - intros s [X Y]. pose proof (CoreT_pim off0 s Y) as C.
    pose proof (process_all_incoming_messages_pimrel cci s) as R.
    destruct (process_all_incoming_messages cci s); cbn [stA stR] in *; try exact I;
      (split; [eapply TI_pimrel; eauto | exact C]).
  - intros s [X Y] B. pose proof (CoreT_split off0 s Y B) as C. pose proof (TI_split s X) as D.
    destruct (split_tx_queue_into_segments cci s); cbn [stA] in *; try exact I; split; assumption.
Qed.

(* ---- c18_off_all_segmented ---- *)
Theorem c18_off_all_segmented_ok_step : forall cfg (s : vsock) o,
  TI s -> (vc_nagle cfg = false -> o_nagle (v_opts s) = false) ->
  c18_off_all_segmented_ok cfg (fstep_of cci s o) = true.
Proof.
  intros cfg s o HT HN. unfold c18_off_all_segmented_ok.
  destruct (c18_completed _) eqn:Cm; [|reflexivity].
  destruct (completed_poll s o Cm) as (sc & s' & -> & E & T & -> & ->). clear Cm.
  destruct (vc_nagle cfg) eqn:Ng; [reflexivity|]. specialize (HN eq_refl). cbn [negb andb].
  destruct (c18_no_probe_last (fp_of_vsock cci s)) eqn:NP; [|reflexivity].
  destruct (c18_no_probe_last (fp_of_vsock cci s')) eqn:NP'; [|reflexivity].
  cbn [fp_of_vsock f_state f_tx_len f_unsegmented f_last_remote_window f_seg_offset andb].
  destruct (is_remote_fin_or_later (v_state s')) eqn:Fin; [reflexivity|].
  destruct (0 <? Z.of_nat (length (ring (v_tx s')))) eqn:Tx; [|reflexivity]. cbn [negb andb].
  apply lastok_fp in NP. apply lastok_fp in NP'.
  set (off0 := ss_offset (v_segs s)).
  destruct (TC_closed off0) as (C1 & C2 & C3 & C4).
  assert (P0 : TC off0 (poll_init (VSockRec.set_sends s sc))).
  { split; [exact HT | apply CoreT_init; assumption]. }
  destruct (poll_completed (TC off0) C1 C2 C3 C4 _ _ P0 E T) as (_ & s4 & s5 & u & [T4 C4'] & _ & Es & Af).
  destruct Af as (((W & _ & O & U) & _ & (F & Of & _)) & Rg & Fn).
  pose proof (split_spec cci s4) as Sp. rewrite Es in Sp.
  destruct Sp as ((W5 & _ & O5 & _ & Rg5 & St5) & Sp).
  destruct C4' as (M4 & Tb4 & _). destruct T4 as [_ Ti4].
  assert (G : v_unsegmented s5 = 0 \/ v_last_remote_window s5 <= ss_offset (v_segs s5) - off0).
  { destruct Sp as [(_ & _ & _ & [Rn|Rf])|[(E1 & _ & NL)|(t2 & ss2 & P & _ & _ & Lb & L)]].
    - exfalso. rewrite Rg, Rg5, Rn in Tx. cbn [length] in Tx. lia.
    - exfalso. rewrite Fn, St5, Rf in Fin. discriminate.
    - exfalso. apply NL. rewrite <- E1. apply (lastok_F2_eq _ _ F). exact NP'.
    - assert (Eo : v_opts s4 = v_opts s).
      { destruct (poll_pframe0 cci _ _ _ E) as (P1 & _). rewrite <- O5, <- O. exact P1. }
      rewrite Eo, HN in L. pose proof P as [M2 _].
      destruct (pre2_Tab off0 _ _ _ _ P Tb4) as [Tb2 _]. pose proof (Tab_ge _ _ Tb2) as Ge.
      pose proof (TIt_len_nonneg _ (pre2_TIt _ _ _ _ P Ti4)) as Ln.
      apply segment_loop_off in L; [|lia|lia].
      destruct L as (L1 & L2 & [L3|[L3|L3]]).
      + left. exact L3.
      + right. rewrite W5. lia.
      + exfalso. apply L3. apply (lastok_F2_eq _ _ F). exact NP'. }
  rewrite U, W, Of. fold off0. destruct G as [G|G]; [rewrite G; reflexivity|].
  apply orb_true_iff. right. lia.
Qed.

Theorem c18_off_all_segmented_ok_trace : forall mk c (s0 : vsock) ops,
  vsock_new cci mk c = Some s0 -> forallb (c18_off_all_segmented_ok c) (ftrace cci s0 ops) = true.
Proof.
  intros mk c s0 ops H.
  apply (ftrace_forallb cci (fun s => TI s /\ NG c s)).
  - intros s o [H1 H2]. apply c18_off_all_segmented_ok_step; [exact H1|]. intro N. rewrite H2. exact N.
  - intros s o [H1 H2]. split; [apply TI_vstep; exact H1 | apply NG_vstep; exact H2].
  - split; [eapply TI_vsock_new; eauto | eapply NG_vsock_new; eauto].
Qed.

(* ---- c18_drain_sends ---- *)
Lemma TI_closed :
  (forall a b, keep a b -> TI a -> TI b) /\
  (forall a b, stx a b -> TI a -> TI b) /\
  (forall s, TI s -> stA TI (process_all_incoming_messages cci s)) /\
  (forall s, TI s -> Bx s -> stA TI (split_tx_queue_into_segments cci s)).
Proof.
  split; [apply TI_keep|]. split; [apply TI_stx|]. split.
  - intros s X. eapply (stR_inv pimrel); [apply TI_pimrel | apply process_all_incoming_messages_pimrel | exact X].
  - intros s X _. apply TI_split. exact X.
Qed.

Theorem c18_drain_sends_ok_step : forall cfg (s : vsock) o,
  TI s -> c18_drain_sends_ok cfg (fstep_of cci s o) = true.
Proof.
  intros cfg s o HT. unfold c18_drain_sends_ok.
  destruct (c18_completed _) eqn:Cm; [|reflexivity].
  destruct (completed_poll s o Cm) as (sc & s' & -> & E & T & _ & ->). clear Cm.
  cbn [fp_of_vsock f_state f_tx_len f_last_remote_window f_seg_len_bytes f_segs andb].
  destruct (is_remote_fin_or_later (v_state s')) eqn:Fin; [reflexivity|].
  destruct (0 <? v_last_remote_window s') eqn:Wp; [|reflexivity].
  destruct (ss_len_bytes (v_segs s') <? Z.of_nat (length (ring (v_tx s')))) eqn:Lt; [|reflexivity].
  cbn [negb andb]. rewrite nonempty_map.
  destruct TI_closed as (C1 & C2 & C3 & C4).
  destruct (poll_completed TI C1 C2 C3 C4 (VSockRec.set_sends s sc) s' HT E T) as ([_ Ti'] & s4 & s5 & u & [M4 Ti4] & _ & Es & Af).
  destruct Af as (((W & _ & O & U) & _ & (F & Of & Lbf)) & Rg & Fn).
  pose proof (split_spec cci s4) as Sp. rewrite Es in Sp.
  destruct Sp as ((W5 & _ & O5 & _ & Rg5 & St5) & Sp).
  assert (G : ss_segs (v_segs s5) <> []).
  { destruct Sp as [(_ & _ & _ & [Rn|Rf])|[(E1 & _ & NL)|(t2 & ss2 & P & Rne & _ & Lb & L)]].
    - exfalso. pose proof (TIt_len_nonneg _ Ti'). rewrite Rg, Rg5, Rn in Lt. cbn [length] in Lt. lia.
    - exfalso. rewrite Fn, St5, Rf in Fin. discriminate.
    - intro En. apply NL. rewrite <- E1, En. exact I.
    - intro En. apply segment_loop_first in L; [|exact Rne|exact En].
      destruct L as [L Et]. rewrite Lbf, Et, Rg, Rg5 in Lt. rewrite W, W5 in Wp. lia. }
  apply F2_length in F. destruct (ss_segs (v_segs s5)); [congruence|].
  destruct (ss_segs (v_segs s')); [discriminate|reflexivity].
Qed.

Theorem c18_drain_sends_ok_trace : forall cfg mk c (s0 : vsock) ops,
  vsock_new cci mk c = Some s0 -> forallb (c18_drain_sends_ok cfg) (ftrace cci s0 ops) = true.
Proof.
  intros cfg mk c s0 ops H.
  apply (ftrace_forallb cci TI); [apply c18_drain_sends_ok_step | apply TI_vstep | eapply TI_vsock_new; eauto].
Qed.


(* data buffered => the table is not empty *)
Theorem c18_buffered_segmented_ok_step : forall cfg (s : vsock) o,
  TI s -> c18_buffered_segmented_ok cfg (fstep_of cci s o) = true.
Proof.
  intros cfg s o HT. pose proof (c18_drain_sends_ok_step cfg s o HT) as D.
  unfold c18_buffered_segmented_ok, c18_drain_sends_ok in *.
  destruct (c18_completed _); [|reflexivity].
  destruct (negb _); [|reflexivity].
  destruct (0 <? f_last_remote_window _); [|reflexivity]. cbn [andb] in *.
  destruct (0 <? f_tx_len _) eqn:Tx; [|reflexivity].
  destruct (f_seg_len_bytes _ <? f_tx_len _) eqn:Lt; [exact D|].
  rewrite fstep_of_post in *. pose proof (TI_vstep s o HT) as [_ (B & _)].
  cbn [fp_of_vsock f_segs f_tx_len f_seg_len_bytes] in *. rewrite nonempty_map.
  destruct (ss_segs (v_segs (vstep_state cci s o))); [|reflexivity].
  cbn [sum_sizes] in B. lia.
Qed.

Theorem c18_buffered_segmented_ok_trace : forall cfg mk c (s0 : vsock) ops,
  vsock_new cci mk c = Some s0 -> forallb (c18_buffered_segmented_ok cfg) (ftrace cci s0 ops) = true.
Proof.
  intros cfg mk c s0 ops H.
  apply (ftrace_forallb cci TI); [apply c18_buffered_segmented_ok_step | apply TI_vstep | eapply TI_vsock_new; eauto].
Qed.

End WithCC.

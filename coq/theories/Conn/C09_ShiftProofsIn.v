(* C09 trace shift, layer 3: the receiving side of the connection model (state table,
   process_incoming_message, the receive loop and its bookkeeping) commutes with the relabelling. *)
From Utp Require Import Base.Prelude Wire.SeqNr Wire.SeqNr_Proofs Wire.Header Rtt.Rtte Mtu.SegSizes Rx.Rx Tx.Ring
  Tx.Segments Conn.Recovery Conn.Msg Conn.VSockRec Conn.VSock Conn.VSockRun Conn.VObs Conn.VSock_LemmasIn
  Conn.C09_Pred Conn.C09_Shift Conn.C09_ShiftProofsSeq Conn.C09_ShiftProofsSeg Conn.C09_ShiftProofsRec
  Conn.C09_ShiftProofsTx.

Section In.
Variables da db dc : Z.
Context {CC : Type} (cci : cc_iface CC).
Notation vsock := (vsock CC).
Notation sh := (shift_vsock da db dc (CC:=CC)).
Notation so := (shift_out_hdr da db dc).
Notation si := (shift_in_hdr da db).
Notation sm := (shift_msg da db).
Notation sst := (shift_step da db dc (CC:=CC)).

Ltac fin := rewrite ?sh16_wadd16, ?sh16_wsub16; reflexivity.
Ltac eqs :=
  rewrite ?pj_seq_nr, ?pj_last_consumed, ?sh16_wsub16, ?sh16_wadd16;
  rewrite ?(sh16_eqb da), ?(sh16_eqb db)
    by (assumption || apply u16_ok_wsub16 || apply u16_ok_wadd16).

Lemma state_table_shift (s : vsock) h : g_state_table s h = true ->
  state_table (sh s) (si h) = shift_table_res da db dc (state_table s h).
Proof.
  unfold g_state_table. intros G.
  apply andb_true_iff in G as [G G3]. apply andb_true_iff in G as [Ga Gs].
  unfold state_table. cbn [shift_in_hdr ch_type ch_ack ch_seq]. rewrite pj_state.
  revert G3.
  destruct (v_state s) as [|c| |f| |f r|]; cbn [shift_state]; intros G3;
    destruct (ch_type h); try reflexivity; eqs.
  - (* SynAckSent, DATA *) destruct (negb (ch_ack h =? wsub16 (v_seq_nr s) 1)); reflexivity.
  - destruct (negb (ch_seq h =? wadd16 (v_last_consumed s) 1)); reflexivity.
  - destruct (negb (ch_ack h =? wsub16 (v_seq_nr s) 1)); reflexivity.
  - (* Established, FIN *) destruct (negb (ch_seq h =? wadd16 (v_last_consumed s) 1)); fin.
  - (* FinWait1 *) apply andb_true_iff in G3 as [Gf Gl]. eqs. destruct (ch_ack h =? f); reflexivity.
  - apply andb_true_iff in G3 as [Gf Gl]. eqs.
    destruct (negb (ch_seq h =? wadd16 (v_last_consumed s) 1)); [reflexivity|].
    destruct (ch_ack h =? f); reflexivity.
  - apply andb_true_iff in G3 as [Gf Gl]. eqs. destruct (ch_ack h =? f); [|reflexivity].
    rewrite (seq_sub_eq1_shift db _ _ Gs Gl).
    destruct (seq_sub (ch_seq h) (v_last_consumed s) =? 1); reflexivity.
  - (* FinWait2 *) destruct (negb (ch_seq h =? wadd16 (v_last_consumed s) 1)); reflexivity.
  - (* LastAck *) apply andb_true_iff in G3 as [Gf Gr]. eqs. rewrite (cmp_ok_seq_gt db _ _ Gr).
    destruct (ch_ack h =? f); [reflexivity|]. destruct (seq_gt (ch_seq h) r); reflexivity.
  - apply andb_true_iff in G3 as [Gf Gr]. eqs. rewrite (cmp_ok_seq_gt db _ _ Gr).
    destruct (ch_ack h =? f); [reflexivity|]. destruct (seq_gt (ch_seq h) r); reflexivity.
  - apply andb_true_iff in G3 as [Gf Gr]. eqs. rewrite (cmp_ok_seq_gt db _ _ Gr).
    destruct (ch_ack h =? f); [reflexivity|]. destruct (seq_gt (ch_seq h) r); reflexivity.
  - apply andb_true_iff in G3 as [Gf Gr]. eqs. destruct (ch_ack h =? f); reflexivity.
Qed.

Definition shift_ackres (r : option (vsock * on_ack_result)) : option (vsock * on_ack_result) :=
  match r with Some (s2, res) => Some (sh s2, res) | None => None end.

Lemma pim_ack_shift (s1 : vsock) h :
  g_remove_up_to_ack (v_segs s1) (ch_ack h) (ch_sack h) = true ->
  g_recovery_on_ack (v_recovery s1) h
    (fst (remove_up_to_ack (v_segs s1) (v_now s1) (ch_ack h) (ch_sack h))) (v_last_sent_seq_nr s1) = true ->
  pim_ack cci (sh s1) (si h) = shift_ackres (pim_ack cci s1 h).
Proof.
  intros G1 G2. unfold pim_ack.
  rewrite pj_segs, pj_now. cbn [shift_in_hdr ch_ack ch_sack ch_wnd ch_ts].
  rewrite (remove_up_to_ack_shift da _ _ _ _ G1).
  destruct (remove_up_to_ack (v_segs s1) (v_now s1) (ch_ack h) (ch_sack h)) as [segs1 res].
  cbn [fst snd] in *.
  rewrite pj_ss, pj_cc, pj_recovery, is_recovering_shift, pj_rtte.
  destruct (match is_recovering (v_recovery s1) with true => _ | false => _ end) as [rtte1|]; [|reflexivity].
  destruct (cc_on_ack cci _ _ _ _) as [cc3|]; [|reflexivity].
  rewrite pj_last_sent_seq_nr.
  fold (si h). rewrite (recovery_on_ack_shift cci da db _ _ _ _ _ _ _ G2).
  destruct (recovery_on_ack cci _ _ _ _ _ _ _) as [[[rec1 segs2] cc4]|]; reflexivity.
Qed.

Lemma pim_ack_last_consumed (s1 : vsock) h s2 res :
  pim_ack cci s1 h = Some (s2, res) -> v_last_consumed s2 = v_last_consumed s1.
Proof.
  unfold pim_ack.
  destruct (remove_up_to_ack (v_segs s1) (v_now s1) (ch_ack h) (ch_sack h)) as [segs1 r0].
  destruct (match is_recovering (v_recovery s1) with true => _ | false => _ end) as [rtte1|]; [|discriminate].
  destruct (cc_on_ack cci _ _ _ _) as [cc3|]; [|discriminate].
  destruct (recovery_on_ack cci _ _ _ _ _ _ _) as [[[rec1 segs2] cc4]|]; [|discriminate].
  intros H. injection H as <- _. reflexivity.
Qed.

Lemma pim_data_shift (s2 : vsock) m res offset :
  pim_data cci (sh s2) (sm m) res offset = sst idf (pim_data cci s2 m res offset).
Proof.
  unfold pim_data. destruct (offset <? 0); [reflexivity|].
  cbn [shift_msg m_payload]. rewrite pj_rx, pj_ss, pj_cc.
  rewrite st_ss, st_cc, pj_rx.
  set (s3 := set_cc (set_ss s2 _) _).
  destruct (rx_add_remove (v_rx s3) KData (m_payload m) offset) as [[rx1 ar] w].
  rewrite st_rx, add_wakes_shift.
  set (s4 := add_wakes (set_rx s3 rx1) (rx_wakes w)).
  destruct ar as [r|]; [|reflexivity].
  destruct (add_err r); [reflexivity|].
  set (s5' := match r with ArConsumed n bytes => _ | _ => sh s4 end).
  set (s5 := match r with ArConsumed n bytes => _ | _ => s4 end).
  assert (E : s5' = sh s5).
  { unfold s5', s5. destruct r; try reflexivity.
    rewrite pj_last_consumed, pj_cbu, sh16_wadd16. reflexivity. }
  rewrite E. clear E s5'. rewrite pj_rx.
  destruct (negb (ooq_is_empty (v_rx s5)) || negb (ooq_is_empty (v_rx s2))); [|reflexivity].
  rewrite force_immediate_ack_shift.
  eapply (sbind_shift da db dc idf idf). { apply send_ack_shift. }
  intros s6 a _. reflexivity.
Qed.

Lemma pim_fin_shift (s2 : vsock) m res offset seen :
  pim_fin (sh s2) (sm m) res offset seen = sst idf (pim_fin s2 m res offset seen).
Proof.
  unfold pim_fin. cbn [shift_msg m_hdr m_payload]. rewrite force_immediate_ack_shift.
  destruct (negb seen && (0 <=? offset)); [|reflexivity].
  cbn [shift_in_hdr ch_seq]. rewrite st_last_consumed, pj_rx.
  set (s4 := set_last_consumed _ _).
  destruct (rx_add_remove (v_rx s4) KFin (m_payload m) offset) as [[rx1 ar] w].
  rewrite st_rx, add_wakes_shift.
  destruct ar as [r|]; [|reflexivity].
  destruct (add_err r); [reflexivity|].
  rewrite pj_tx. destruct (mark_vsock_closed _) as [tx1 w2]. reflexivity.
Qed.

Lemma pim_cont_shift (s1 : vsock) m seen :
  g_remove_up_to_ack (v_segs s1) (ch_ack (m_hdr m)) (ch_sack (m_hdr m)) = true ->
  g_recovery_on_ack (v_recovery s1) (m_hdr m)
    (fst (remove_up_to_ack (v_segs s1) (v_now s1) (ch_ack (m_hdr m)) (ch_sack (m_hdr m))))
    (v_last_sent_seq_nr s1) = true ->
  cmp_ok (ch_seq (m_hdr m)) (wadd16 (v_last_consumed s1) 1) = true ->
  pim_cont cci (sh s1) (sm m) seen = sst idf (pim_cont cci s1 m seen).
Proof.
  intros G1 G2 G3. unfold pim_cont. cbn [shift_msg m_hdr].
  rewrite (pim_ack_shift s1 (m_hdr m) G1 G2).
  destruct (pim_ack cci s1 (m_hdr m)) as [[s2 res]|] eqn:E; [|reflexivity].
  apply pim_ack_last_consumed in E. cbn [shift_ackres].
  cbn [shift_in_hdr ch_seq ch_type].
  rewrite pj_last_consumed, sh16_wadd16, E, (cmp_ok_seq_sub db _ _ G3).
  fold (si (m_hdr m)). change {| m_hdr := si (m_hdr m); m_payload := m_payload m |} with (sm m).
  destruct (ch_type (m_hdr m)); try reflexivity.
  - apply pim_data_shift.
  - apply pim_fin_shift.
Qed.

Lemma pim_shift (s : vsock) m : g_pim s m = true ->
  process_incoming_message cci (sh s) (sm m) = sst idf (process_incoming_message cci s m).
Proof.
  unfold g_pim. intros G. apply andb_true_iff in G as [G1 G2].
  rewrite !process_incoming_message_eq. cbn [shift_msg m_hdr].
  rewrite (state_table_shift s _ G1), pj_state, is_remote_fin_shift.
  destruct (state_table s (m_hdr m)) as [s1|s1 e|s1]; cbn [shift_table_res]; [reflexivity|reflexivity|].
  apply andb_true_iff in G2 as [G2 G5]. apply andb_true_iff in G2 as [G3 G4].
  now apply pim_cont_shift.
Qed.

Lemma transition_to_fin_wait_1_shift (s : vsock) :
  transition_to_fin_wait_1 (sh s) = sh (transition_to_fin_wait_1 s).
Proof.
  unfold transition_to_fin_wait_1. rewrite pj_state.
  destruct (v_state s); cbn [shift_state]; rewrite ?pj_seq_nr, ?sh16_wadd16; reflexivity.
Qed.

Lemma recv_loop_shift : forall fuel fuel' (s : vsock) acc,
  length fuel' = length fuel -> g_recv_loop cci fuel s = true ->
  recv_loop cci fuel' (sh s) acc = sst idf (recv_loop cci fuel s acc).
Proof.
  induction fuel as [|x fuel IH]; intros fuel' s acc HL G; destruct fuel' as [|x' fuel']; try discriminate;
    cbn [recv_loop g_recv_loop] in *; rewrite pj_inbox; destruct (v_inbox s) as [|m rest]; cbn [map];
    rewrite ?pj_inbox_closed.
  - destruct (v_inbox_closed s); [|reflexivity].
    rewrite transition_to_fin_wait_1_shift.
    eapply (sbind_shift da db dc idf idf). { now apply maybe_send_fin_shift. }
    intros s2 a _. reflexivity.
  - reflexivity.
  - destruct (v_inbox_closed s); [|reflexivity].
    rewrite transition_to_fin_wait_1_shift.
    eapply (sbind_shift da db dc idf idf). { now apply maybe_send_fin_shift. }
    intros s2 a _. reflexivity.
  - rewrite st_inbox. apply andb_true_iff in G as [G1 G2].
    eapply (sbind_shift_g da db dc idf idf). { now apply pim_shift. } { exact G2. }
    intros s1 r Gk. cbv beta in Gk. unfold idf.
    rewrite pj_state, state_is_closed_shift, pj_opts, pj_transport_pending.
    destruct (state_is_closed (v_state s1) (o_wait_for_last_ack (v_opts s1)) || v_transport_pending s1);
      [reflexivity|].
    apply IH; [now injection HL|assumption].
Qed.

Lemma acked_counts_as_sent_shift (s : vsock) : g_acked_counts_as_sent s = true ->
  acked_counts_as_sent (sh s) = sh (acked_counts_as_sent s).
Proof.
  unfold g_acked_counts_as_sent, acked_counts_as_sent. intros G. apply andb_true_iff in G as [G1 G2].
  rewrite pj_segs. cbn [shift_segments ss_snd_una].
  rewrite sh16_wsub16, pj_last_sent_seq_nr, pj_seq_nr, (cmp_ok_seq_gt da _ _ G1), (cmp_ok_seq_lt da _ _ G2).
  destruct (seq_gt _ _ && seq_lt _ _); reflexivity.
Qed.

Lemma paim_s2_shift (s1 : vsock) r : paim_s2 (sh s1) r = sh (paim_s2 s1 r).
Proof.
  unfold paim_s2. destruct ((0 <? ar_acked_segments r) || (0 <? ar_newly_sacked_segments r)); [|reflexivity].
  cbv zeta. rewrite st_rto_retransmissions, pj_segs, pj_state, our_fin_shift.
  cbn [shift_segments ss_segs].
  destruct (ss_segs (v_segs (set_rto_retransmissions s1 0)));
    destruct (our_fin_if_unacked (v_state (set_rto_retransmissions s1 0))); reflexivity.
Qed.

Lemma paim_s3o_shift (s2 : vsock) r :
  (if 0 <? ar_acked_segments r then g_acked_counts_as_sent s2 else true) = true ->
  paim_s3o (sh s2) r = sst idf (paim_s3o s2 r).
Proof.
  unfold paim_s3o. intros G. destruct (0 <? ar_acked_segments r); [|reflexivity].
  cbv zeta. rewrite (acked_counts_as_sent_shift s2 G), pj_tx.
  destruct (truncate_front _ _) as [tx1 tr]. destruct tr; [|reflexivity].
  destruct (wake_writer tx1) as [tx2 w]. reflexivity.
Qed.

Lemma paim_pipe_shift (s3 : vsock) u : g_paim_pipe s3 u = true ->
  paim_pipe (sh s3) (idf u) = sst idf (paim_pipe s3 u).
Proof.
  unfold g_paim_pipe, paim_pipe. intros G. rewrite pj_recovery. cbn [shift_recovery rv_phase].
  destruct (rv_phase (v_recovery s3)) as [rp|d|rc]; cbn [shift_rphase]; [reflexivity|reflexivity|].
  cbn [rc_high_rxt rc_recovery_point rc_total_retx rc_cwnd].
  rewrite pj_segs, pj_last_sent_seq_nr, pj_rtte, pj_now, (calc_pipe_shift da _ _ _ _ _ G).
  destruct (calc_pipe (v_segs s3) _ _ _ _) as [[[segs' pipe] recalc]|]; reflexivity.
Qed.

Lemma paim_rest_shift (s1 : vsock) res : g_paim_rest s1 res = true ->
  paim_rest (sh s1) (idf res) = sst idf (paim_rest s1 res).
Proof.
  unfold g_paim_rest, paim_rest, idf. destruct res as [r b]. cbn [fst]. intros G.
  apply andb_true_iff in G as [G1 G2]. rewrite paim_s2_shift.
  eapply (sbind_shift_g da db dc idf idf). { now apply paim_s3o_shift. } { exact G2. }
  intros s3 u Gp. now apply paim_pipe_shift.
Qed.

Lemma process_all_decompose (s : vsock) :
  process_all_incoming_messages cci s =
  sbind (recv_loop cci (paim_fuel s) s on_ack_result_default) paim_rest.
Proof. reflexivity. Qed.

Lemma process_all_shift (s : vsock) : g_process_all cci s = true ->
  process_all_incoming_messages cci (sh s) = sst idf (process_all_incoming_messages cci s).
Proof.
  unfold g_process_all. intros G. apply andb_true_iff in G as [G1 G2].
  rewrite !process_all_decompose.
  eapply (sbind_shift_g da db dc idf idf).
  { apply recv_loop_shift; [|exact G1]. unfold paim_fuel. rewrite pj_inbox, !app_length, map_length. reflexivity. }
  { exact G2. }
  intros s1 res Gr. now apply paim_rest_shift.
Qed.

End In.

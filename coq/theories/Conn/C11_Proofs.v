(* C11, connection-level clause: every datagram a connection emits carries the connection id owed to
   its direction, one of the BEP-29 types, a payload exactly when it is ST_DATA, and a header that
   `serialize` writes with version 1 and `deserialize` reads back unchanged (hdr_okb).

   J (below) is the invariant: the connection's send id never changes; seq_nr, last_consumed and the
   sequence number reserved for our FIN are u16 values; the proven payload size is at least 1 and every
   segment of the table has at least one byte; every packet emitted so far in this poll is well-formed.
   It holds of vsock_new (for a configuration whose ids / sequence numbers are u16) and is kept by every
   function poll_body calls, whatever the peer delivers and whatever the transport answers. *)
From Utp Require Import Base.Prelude Wire.SeqNr Wire.SeqNr_Proofs Wire.Header Wire.Header_Proofs
  Rtt.Rtte Mtu.SegSizes Rx.Rx Tx.Ring Tx.Segments Tx.Segments_Proofs
  Conn.Recovery Conn.Msg Conn.VSockRec Conn.VSock Conn.VSockRun Conn.VObs
  Conn.VSock_Lemmas Conn.VSock_LemmasStep Conn.C11_Pred.

Arguments SOk {CC A}. Arguments SErr {CC A}. Arguments SPanic {CC A}.
Arguments BrReturn {CC}. Arguments BrRestart {CC}. Arguments BrPanic {CC}.
Arguments TblDrop {CC}. Arguments TblErr {CC}. Arguments TblContinue {CC}.

Definition u16 (x : Z) : Prop := 0 <= x < M16.
Definition u32 (x : Z) : Prop := 0 <= x < M32.

Lemma wadd16_u16 a b : u16 (wadd16 a b).
Proof. unfold u16, wadd16, M16. lia. Qed.
Lemma wsub16_u16 a b : u16 (wsub16 a b).
Proof. unfold u16, wsub16, M16. lia. Qed.
Lemma mod32_u32 a : u32 (a mod M32).
Proof. unfold u32, M32. lia. Qed.

(* ------------------------------------------------------------------ one header *)
Definition sack_good (sk : option sackbits) : Prop :=
  match sk with Some k => sk_len k = 64 /\ length (sk_bits k) = 64%nat | None => True end.

Lemma sack_of_bits_wf k : sack_wfb (sack_of_bits k) = true.
Proof.
  unfold sack_wfb, sack_of_bits; cbn [sack_bytes map length Nat.eqb andb bytes_okb forallb].
  repeat match goal with |- context [byte_okb (sack_byte ?f ?j)] =>
    replace (byte_okb (sack_byte f j)) with true
      by (symmetry; apply byte_okb_iff; apply sack_byte_range) end.
  reflexivity.
Qed.

Lemma hdr_okb_intro (h : chdr) :
  u16 (ch_conn_id h) -> u32 (ch_ts h) -> u32 (ch_ts_diff h) -> u32 (ch_wnd h) ->
  u16 (ch_seq h) -> u16 (ch_ack h) -> sack_good (ch_sack h) -> ch_close_reason h = None ->
  hdr_okb (hdr_of_chdr h) = true.
Proof.
  unfold u16, u32, M16, M32. intros H1 H2 H3 H4 H5 H6 H7 H8.
  unfold hdr_okb, fields_okb, ext_okb, hdr_of_chdr, u16b, u32b;
    cbn [h_conn h_ts h_tsdiff h_wnd h_seq h_ack h_ext e_sack e_close]. rewrite H8.
  assert (E : match ch_sack h with Some k => Some (sack_of_bits k) | None => None end = None \/
              exists k, ch_sack h = Some k /\ sk_len k = 64).
  { destruct (ch_sack h) as [k|]; [right; exists k; split; [reflexivity|exact (proj1 H7)]|left; reflexivity]. }
  destruct (ch_sack h) as [k|].
  - destruct E as [E|(k' & E & E64)]; [discriminate|]. injection E as <-.
    unfold sack_okb. rewrite sack_of_bits_wf. cbn [sack_of_bits sack_len]. rewrite E64.
    cbn [Z.eqb Pos.eqb andb].
    repeat (apply andb_true_intro; split); lia.
  - repeat (apply andb_true_intro; split); lia.
Qed.

Lemma sack_len64_intro sk : sack_good sk -> sack_len64 sk = true.
Proof.
  destruct sk as [k|]; cbn [sack_good sack_len64]; [|reflexivity].
  intros [-> ->]. reflexivity.
Qed.

(* ------------------------------------------------------------------ segment sizes stay positive *)
Definition pos_list (l : list seg) : Prop := Forall (fun g => 1 <= sg_size g) l.

Lemma pos_shape : forall l' l, shape l' = shape l -> pos_list l -> pos_list l'.
Proof.
  unfold pos_list. induction l' as [|x xs IH]; intros l E H; [constructor|].
  destruct l as [|y ys]; [discriminate|]. cbn [shape map] in E. injection E as E1 _ E2.
  inversion H; subst. constructor; [lia|]. eapply IH; [exact E2|assumption].
Qed.

Lemma pos_skipn n l : pos_list l -> pos_list (skipn n l).
Proof. apply Forall_skipn. Qed.

Lemma pos_app_r a b : pos_list (a ++ b) -> pos_list b.
Proof. unfold pos_list. intro H. apply Forall_app in H. tauto. Qed.

Lemma pos_app_l a b : pos_list (a ++ b) -> pos_list a.
Proof. unfold pos_list. intro H. apply Forall_app in H. tauto. Qed.

Lemma sack_phase_shape t rest a1 su now ack sk rest2 a2 depth lse :
  sack_phase t rest a1 su now ack sk = (rest2, a2, depth, lse) -> shape rest2 = shape rest.
Proof.
  unfold sack_phase. intro E2.
  destruct rest as [|s0 r0] eqn:Er; [injection E2 as <- _ _ _; reflexivity|].
  destruct sk as [k|]; [|injection E2 as <- _ _ _; reflexivity].
  destruct (seq_gt _ ack); [|injection E2 as <- _ _ _; reflexivity].
  destruct (0 <=? seq_sub (wadd16 ack 2) _).
  - destruct (apply_sack (skipn _ (s0 :: r0)) (sk_bits k) now _) as [tl' a'] eqn:Ea.
    injection E2 as <- _ _ _. rewrite shape_app, (apply_sack_shape _ _ _ _ _ _ Ea), <- shape_app, firstn_skipn.
    reflexivity.
  - destruct (apply_sack (s0 :: r0) _ now _) as [l' a'] eqn:Ea.
    injection E2 as <- _ _ _. exact (apply_sack_shape _ _ _ _ _ _ Ea).
Qed.

Lemma remove_up_to_ack_pos t now ack sk t' r :
  remove_up_to_ack t now ack sk = (t', r) -> pos_list (ss_segs t) -> pos_list (ss_segs t').
Proof.
  unfold remove_up_to_ack. intros H Hp.
  destruct (sack_phase _ _ _ _ _ _ _) as [[[rest2 a2] depth] lse] eqn:E2.
  apply sack_phase_shape in E2.
  destruct (strip_delivered rest2 0 0) as [[rest3 cnt3] bytes3] eqn:E3.
  destruct (strip_delivered_spec _ _ _ _ _ _ E3) as (dropped & Hd & _).
  injection H as <- _. cbn [ss_segs].
  apply (pos_app_r dropped). rewrite <- Hd. eapply pos_shape; [exact E2|]. apply pos_skipn. exact Hp.
Qed.

Lemma calc_pipe_pos t hr hd rtt now t' p rc :
  calc_pipe t hr hd rtt now = Some (t', p, rc) -> pos_list (ss_segs t) -> pos_list (ss_segs t').
Proof.
  unfold calc_pipe. destruct (_ <? _); [discriminate|].
  destruct (pipe_loop _ t hr _ now _) as [upd a] eqn:E. intro H; injection H as <- _ _.
  unfold Segments.set_segs; cbn [ss_segs]. intro Hp. eapply pos_shape; [|exact Hp].
  apply pipe_loop_shape in E. rewrite map_rev, enum_from_snd in E.
  rewrite shape_app, shape_rev, E, shape_rev, rev_involutive, <- shape_app, firstn_skipn. reflexivity.
Qed.

Section WithCC.
Context {CC : Type} (cci : cc_iface CC).
Notation vsock := (vsock CC).

Variable cfg : vconfig.
Hypothesis cid_ok : u16 (conn_id_send_of cfg).
Notation cid := (conn_id_send_of cfg).

(* the parts of an outgoing header that do not depend on the packet *)
Definition base_ok (h : chdr) : Prop :=
  ch_conn_id h = cid /\ u32 (ch_ts h) /\ u32 (ch_ts_diff h) /\ u32 (ch_wnd h) /\ u16 (ch_ack h) /\
  ch_close_reason h = None.

Definition pk_ok (p : packet) : Prop :=
  c11_packet_ok cfg (fpacket_of p) = true /\ conn_type (ch_type (p_hdr p)) = true.

(* a control packet: ST_FIN / ST_STATE, no payload *)
Lemma pk_ok_control (h : chdr) (t : ptype) (seq : Z) (sk : option sackbits) :
  base_ok h -> t = ST_FIN \/ t = ST_STATE -> u16 seq -> sack_good sk ->
  pk_ok {| p_hdr := hdr_with h t seq sk; p_payload := [] |}.
Proof.
  intros (B1 & B2 & B3 & B4 & B5 & B6) Ht Hs Hk.
  assert (Hok : hdr_okb (hdr_of_chdr (hdr_with h t seq sk)) = true).
  { apply hdr_okb_intro; unfold hdr_with;
      cbn [ch_conn_id ch_ts ch_ts_diff ch_wnd ch_seq ch_ack ch_sack ch_close_reason]; auto.
    rewrite B1. exact cid_ok. }
  split.
  - unfold c11_packet_ok, fpacket_of; cbn [fq_hdr fq_plen p_hdr p_payload length Z.of_nat].
    rewrite Hok.
    change (ch_conn_id (hdr_with h t seq sk)) with (ch_conn_id h).
    change (ch_type (hdr_with h t seq sk)) with t.
    change (ch_sack (hdr_with h t seq sk)) with sk.
    rewrite (sack_len64_intro sk Hk), B1.
    destruct Ht as [-> | ->]; cbn [expected_conn_id]; rewrite Z.eqb_refl; reflexivity.
  - cbn [p_hdr]. unfold hdr_with; cbn [ch_type]. destruct Ht as [-> | ->]; reflexivity.
Qed.

(* a data packet *)
Lemma pk_ok_data (h : chdr) (ts tsd seq : Z) (payload : list Z) :
  base_ok h -> u32 ts -> u32 tsd -> u16 seq -> payload <> [] ->
  pk_ok {| p_hdr := {| ch_type := ST_DATA; ch_conn_id := ch_conn_id h; ch_ts := ts; ch_ts_diff := tsd;
                       ch_wnd := ch_wnd h; ch_seq := seq; ch_ack := ch_ack h; ch_sack := None;
                       ch_close_reason := None |};
           p_payload := payload |}.
Proof.
  intros (B1 & B2 & B3 & B4 & B5 & B6) Hts Htsd Hs Hp.
  match goal with |- pk_ok {| p_hdr := ?x; p_payload := _ |} => set (hd := x) end.
  assert (Hok : hdr_okb (hdr_of_chdr hd) = true).
  { apply hdr_okb_intro; subst hd;
      cbn [ch_conn_id ch_ts ch_ts_diff ch_wnd ch_seq ch_ack ch_sack ch_close_reason sack_good]; auto.
    rewrite B1. exact cid_ok. }
  split; [|reflexivity].
  unfold c11_packet_ok, fpacket_of; cbn [fq_hdr fq_plen p_hdr p_payload].
  rewrite Hok. subst hd; cbn [ch_conn_id ch_type ch_sack sack_len64 expected_conn_id].
  rewrite B1, Z.eqb_refl.
  destruct payload as [|b r]; [congruence|]. cbn [length].
  replace (0 <=? Z.of_nat (S (length r))) with true by (symmetry; lia).
  replace (0 <? Z.of_nat (S (length r))) with true by (symmetry; lia).
  reflexivity.
Qed.

(* ------------------------------------------------------------------ the invariant *)
Definition fin_ok (st : vstate) : Prop :=
  match st with FinWait1 f | LastAck f _ => u16 f | _ => True end.

Definition J (s : vsock) : Prop :=
  v_conn_id_send s = cid /\
  1 <= mss (v_ss s) /\
  u16 (v_seq_nr s) /\
  u16 (v_last_consumed s) /\
  fin_ok (v_state s) /\
  pos_list (ss_segs (v_segs s)) /\
  Forall pk_ok (v_out s).

(* the fields J reads are unchanged *)
Definition keep (s s' : vsock) : Prop :=
  v_conn_id_send s' = v_conn_id_send s /\ v_ss s' = v_ss s /\ v_seq_nr s' = v_seq_nr s /\
  v_last_consumed s' = v_last_consumed s /\ v_state s' = v_state s /\ v_segs s' = v_segs s /\
  v_out s' = v_out s.

Lemma J_keep s s' : keep s s' -> J s -> J s'.
Proof.
  intros (K1 & K2 & K3 & K4 & K5 & K6 & K7) H. unfold J in *. rewrite K1, K2, K3, K4, K5, K6, K7. exact H.
Qed.

Ltac keep_triv := unfold keep; vsimpl_goal; repeat split; reflexivity.
Ltac J_split := unfold J; vsimpl_goal; (split; [|split; [|split; [|split; [|split; [|split]]]]]).

Definition stJ {A} (m : step A) : Prop :=
  match m with SOk s' _ | SErr s' _ => J s' | SPanic => True end.

Lemma stJ_sbind {A B} (m : step A) (f : vsock -> A -> step B) :
  stJ m -> (forall s1 a, J s1 -> stJ (f s1 a)) -> stJ (sbind m f).
Proof. destruct m as [s1 a|s1 e|]; cbn [sbind stJ]; auto. Qed.

(* ------------------------------------------------------------------ headers built from a state *)
Lemma rx_window_u32 (s : vsock) : 1 <= mss (v_ss s) -> u32 (rx_window s).
Proof.
  intro Hm. unfold rx_window, u32.
  set (w := remaining_rx_window (v_rx s) mod M32). assert (Hw : 0 <= w < M32) by (subst w; unfold M32; lia).
  clearbody w. destruct (w <? mss (v_ss s)) eqn:E; [unfold M32; lia|].
  apply Z.ltb_ge in E. assert (0 <= w mod mss (v_ss s) < mss (v_ss s)) by (apply Z.mod_pos_bound; lia). lia.
Qed.

Lemma outgoing_header_base (s : vsock) : J s -> base_ok (outgoing_header s) /\ u16 (ch_seq (outgoing_header s)).
Proof.
  intros (J1 & J2 & J3 & J4 & _). unfold base_ok, outgoing_header;
    cbn [ch_conn_id ch_ts ch_ts_diff ch_wnd ch_ack ch_close_reason ch_seq].
  repeat split; try assumption; try apply mod32_u32; try apply (rx_window_u32 s J2);
    try (unfold timestamp_microseconds; apply mod32_u32);
    try (destruct J3; assumption); try (destruct J4; assumption).
Qed.

Lemma base_ok_hdr_with h t seq sk : base_ok h -> base_ok (hdr_with h t seq sk).
Proof. unfold base_ok, hdr_with; cbn [ch_conn_id ch_ts ch_ts_diff ch_wnd ch_ack ch_close_reason]. tauto. Qed.

Lemma length_sack_bits : forall n l, length (sack_bits l n) = n.
Proof. induction n as [|n IH]; intros l; cbn [sack_bits length]; [reflexivity|]. destruct l; cbn [length]; rewrite IH; reflexivity. Qed.

Lemma sack_of_rx_good r : sack_good (sack_of_rx r).
Proof.
  unfold sack_of_rx, selective_ack. destruct (ooq_is_empty r); [exact I|].
  destruct (_ <=? _); [exact I|]. cbn [sack_good sk_len sk_bits]. split; [reflexivity|apply length_sack_bits].
Qed.

(* ------------------------------------------------------------------ sending *)
Lemma next_send_keep (s : vsock) n s1 o : next_send s n = (s1, o) -> keep s s1.
Proof.
  unfold next_send. intro H.
  destruct (v_sends s) as [|o1 r].
  - destruct (v_emsg_limit s) as [m|]; [destruct (m <? n)|]; injection H as <- _; keep_triv.
  - destruct o1; try (injection H as <- _; keep_triv).
    destruct (v_emsg_limit s) as [m|]; [destruct (m <? n)|]; injection H as <- _; keep_triv.
Qed.

(* a control header: built from a base, ST_FIN / ST_STATE, a u16 sequence number, a SelectiveAck::new *)
Definition ctl_ok (h : chdr) : Prop :=
  base_ok h /\ (ch_type h = ST_FIN \/ ch_type h = ST_STATE) /\ u16 (ch_seq h) /\ sack_good (ch_sack h).

Lemma send_control_packet_J (s : vsock) h : J s -> ctl_ok h -> stJ (send_control_packet s h).
Proof.
  intros Hj (Hb & Ht & Hs & Hk). unfold send_control_packet.
  destruct (v_transport_pending s); [exact Hj|].
  destruct (next_send s _) as [s1 o] eqn:E. apply next_send_keep in E.
  pose proof (J_keep _ _ E Hj) as Hj1.
  destruct o; cbn [stJ]; try exact Hj1.
  (* sent *)
  destruct Hj1 as (A1 & A2 & A3 & A4 & A5 & A6 & A7).
    unfold on_packet_sent, emit. J_split; try assumption.
    constructor; [|exact A7].
    assert (Hk' : sack_good (fit_sack s (ch_sack h))) by (unfold fit_sack; destruct (_ <=? _); [exact Hk|exact I]).
    replace (hdr_with h (ch_type h) (ch_seq h) (fit_sack s (ch_sack h)))
      with (hdr_with h (ch_type h) (ch_seq h) (fit_sack s (ch_sack h))) by reflexivity.
    apply pk_ok_control; assumption.
Qed.

Lemma send_ack_J (s : vsock) : J s -> stJ (send_ack s).
Proof.
  intro Hj. unfold send_ack. apply send_control_packet_J; [exact Hj|].
  destruct (outgoing_header_base s Hj) as [Hb Hs].
  split; [apply base_ok_hdr_with; exact Hb|]. unfold hdr_with; cbn [ch_type ch_seq ch_sack].
  split; [right; reflexivity|]. split; [exact Hs|apply sack_of_rx_good].
Qed.

Lemma maybe_send_fin_J (s : vsock) : J s -> stJ (maybe_send_fin s).
Proof.
  intro Hj. unfold maybe_send_fin.
  destruct (v_transport_pending s); [exact Hj|].
  destruct (our_fin_if_unacked (v_state s)) as [seq|] eqn:Ef; [|exact Hj].
  destruct (negb _); [exact Hj|].
  apply stJ_sbind.
  - apply send_control_packet_J; [exact Hj|].
    destruct (outgoing_header_base s Hj) as [Hb _].
    split; [apply base_ok_hdr_with; exact Hb|]. unfold hdr_with; cbn [ch_type ch_seq ch_sack].
    split; [left; reflexivity|]. split; [|exact I].
    destruct Hj as (_ & _ & _ & _ & Hf & _). unfold our_fin_if_unacked in Ef.
    destruct (v_state s); try discriminate; injection Ef as <-; exact Hf.
  - intros s1 [|] Hj1; cbn [stJ]; [|exact Hj1]. eapply J_keep; [|exact Hj1]. keep_triv.
Qed.

(* ---- data ---- *)
Lemma update_nth_pos (f : seg -> seg) : (forall g, sg_size (f g) = sg_size g) ->
  forall l n, pos_list l -> pos_list (update_nth l n f).
Proof.
  intros Hf. unfold pos_list. induction l as [|x xs IH]; intros [|n] H; cbn [update_nth]; auto.
  - inversion H; subst. constructor; [rewrite Hf; assumption|assumption].
  - inversion H; subst. constructor; [assumption|apply IH; assumption].
Qed.

Lemma on_sent_pos t idx now : pos_list (ss_segs t) -> pos_list (ss_segs (on_sent t idx now)).
Proof.
  intro H. unfold on_sent, Segments.set_segs; cbn [ss_segs]. apply update_nth_pos; [|exact H].
  intro g. reflexivity.
Qed.

Definition item_ok (f : for_sending) : Prop := 1 <= sg_size (fs_seg f) /\ u16 (fs_seq f).

Lemma payload_nonempty (ring : list Z) off plen :
  0 <= off -> off + plen <= Z.of_nat (length ring) -> 1 <= plen ->
  firstn (Z.to_nat plen) (skipn (Z.to_nat off) ring) <> [].
Proof.
  intros H0 H1 H2 E. apply (f_equal (@length Z)) in E. rewrite firstn_length, skipn_length in E.
  cbn [length] in E. lia.
Qed.

Lemma send_data_J (s : vsock) h f : J s -> base_ok h -> item_ok f -> stJ (send_data s h f).
Proof.
  intros Hj Hb [Hsz Hseq]. unfold send_data.
  destruct (_ =? o_max_retx _); [exact Hj|].
  destruct (fs_payload_offset f <? 0) eqn:E0; [exact I|]. apply Z.ltb_ge in E0.
  destruct (_ <? fs_payload_offset f); [exact Hj|].
  destruct (_ <? fs_payload_offset f + _) eqn:E2; [exact Hj|]. apply Z.ltb_ge in E2.
  destruct (next_send s _) as [s1 o] eqn:E. apply next_send_keep in E.
  pose proof (J_keep _ _ E Hj) as Hj1.
  destruct o; cbn [stJ]; try exact Hj1.
  destruct Hj1 as (A1 & A2 & A3 & A4 & A5 & A6 & A7).
  match goal with |- J (set_t_inactivity (set_t_retransmit ?x _) _) => set (s5 := x) end.
  assert (H5 : J s5).
  { subst s5.
    match goal with |- J (if ?c then _ else ?b) => set (s4 := b) end.
    assert (H4 : J s4).
    { subst s4. unfold on_packet_sent, emit. J_split; try assumption.
      - apply on_sent_pos. exact A6.
      - constructor; [|exact A7].
        apply pk_ok_data; try assumption; try apply mod32_u32;
          try (unfold timestamp_microseconds; apply mod32_u32).
        apply payload_nonempty; assumption. }
    destruct (seq_gt _ _); [|exact H4].
    destruct (seq_gt _ _).
    - destruct H4 as (B1 & B2 & B3 & B4 & B5 & B6 & B7).
      J_split; try assumption; apply wadd16_u16.
    - eapply J_keep; [|exact H4]. keep_triv. }
  eapply J_keep; [|exact H5]. keep_triv.
Qed.


Lemma on_rto_reactions_J (s s1 : vsock) : on_rto_reactions cci s = Some s1 -> J s -> J s1.
Proof.
  unfold on_rto_reactions. destruct (Rtte.on_rto_timeout _); [|discriminate].
  intro H; injection H as <-. intro Hj. exact Hj.
Qed.

Lemma iter_items_ok t st : pos_list (ss_segs t) -> Forall item_ok (iter_for_sending t st).
Proof.
  unfold pos_list. intro Hp. apply Forall_forall. intros f Hf.
  unfold iter_for_sending in Hf. apply filter_In in Hf. destruct Hf as [Hf _].
  apply in_map_iff in Hf. destruct Hf as ([i g] & <- & Hin). cbn [fs_seg fs_seq].
  split; [|apply wadd16_u16].
  apply enum_from_In in Hin.
  assert (Hg : In g (ss_segs t)).
  { revert Hin. generalize (ss_segs t). generalize (match st with
      | Some s0 => Z.to_nat (Z.max (seq_sub s0 (ss_snd_una t)) 0) | None => 0%nat end).
    induction n as [|n IH]; intros l; [cbn [skipn]; auto|]. destruct l; cbn [skipn]; [intros []|].
    intro H. right. apply IH. exact H. }
  rewrite Forall_forall in Hp. exact (Hp _ Hg).
Qed.

Lemma Forall_take_while {A} (P : A -> Prop) p l : Forall P l -> Forall P (take_while p l).
Proof.
  induction l as [|x r IH]; cbn [take_while]; intro H; [constructor|].
  inversion H; subst. destruct (p x); [constructor; auto|constructor].
Qed.

Lemma Forall_skip_while {A} (P : A -> Prop) p l : Forall P l -> Forall P (skip_while p l).
Proof.
  induction l as [|x r IH]; cbn [skip_while]; intro H; [constructor|].
  inversion H; subst. destruct (p x); [auto|exact H].
Qed.

Lemma Forall_firstn' {A} (P : A -> Prop) n l : Forall P l -> Forall P (firstn n l).
Proof.
  revert l; induction n as [|n IH]; intros l H; cbn [firstn]; [constructor|].
  destruct l; [constructor|]. inversion H; subst. constructor; auto.
Qed.

Lemma recovery_loop_J h mss0 : base_ok h -> forall items (s : vsock) st,
  J s -> Forall item_ok items -> stJ (recovery_loop items s h mss0 st).
Proof.
  intro Hb. induction items as [|f rest IH]; intros s st Hj Hi; cbn [recovery_loop]; [exact Hj|].
  inversion Hi as [|? ? Hf Hr]; subst.
  destruct (negb _); [exact Hj|].
  destruct (_ && negb (sg_lost _)); [apply IH; assumption|].
  destruct (_ && negb (sg_sacks_after _)); [exact Hj|].
  pose proof (send_data_J s h f Hj Hb Hf) as F.
  destruct (send_data s h f) as [s1 r|s1 e|]; cbn [stJ] in *; auto.
  destruct r; cbn [stJ]; auto.
Qed.

Lemma new_data_loop_J h : base_ok h -> forall items (s : vsock) remaining,
  J s -> Forall item_ok items -> stJ (new_data_loop items s h remaining).
Proof.
  intro Hb. induction items as [|f rest IH]; intros s remaining Hj Hi; cbn [new_data_loop]; [exact Hj|].
  inversion Hi as [|? ? Hf Hr]; subst.
  destruct (_ <? _); [exact Hj|].
  pose proof (send_data_J s h f Hj Hb Hf) as F.
  destruct (send_data s h f) as [s1 r|s1 e|]; cbn [stJ] in *; auto.
  destruct r; cbn [stJ]; auto.
Qed.

Lemma Forall_app_l {A} (P : A -> Prop) a b : Forall P (a ++ b) -> Forall P a.
Proof. intro H. apply Forall_app in H. tauto. Qed.

Lemma pop_mtu_probe_pos t q t' b : pop_mtu_probe t q = (t', b) ->
  pos_list (ss_segs t) -> pos_list (ss_segs t').
Proof.
  unfold pop_mtu_probe. destruct (last_and_init (ss_segs t)) as [[init g]|] eqn:E.
  - apply last_and_init_spec in E. destruct (_ && _).
    + intro H; injection H as <- _. unfold Segments.set_segs; cbn [ss_segs]. rewrite E.
      apply Forall_app_l.
    + intro H; injection H as <- _. auto.
  - intro H; injection H as <- _. auto.
Qed.

Lemma pop_expired_pos t to mr t' p : pop_expired_mtu_probe t to mr = (t', p) ->
  pos_list (ss_segs t) -> pos_list (ss_segs t').
Proof.
  unfold pop_expired_mtu_probe. destruct (last_and_init (ss_segs t)) as [[init g]|] eqn:E.
  - apply last_and_init_spec in E. destruct (sg_delivered g); [intro H; injection H as <- _; auto|].
    destruct (_ && _).
    + intro H; injection H as <- _. unfold Segments.set_segs; cbn [ss_segs]. rewrite E.
      apply Forall_app_l.
    + destruct (sg_probe g); intro H; injection H as <- _; auto.
  - intro H; injection H as <- _. auto.
Qed.

Lemma send_tx_queue_J (s : vsock) : J s -> stJ (send_tx_queue cci s).
Proof.
  intro Hj. unfold send_tx_queue.
  destruct (v_transport_pending s); [exact Hj|].
  destruct (outgoing_header_base s Hj) as [Hb _]. set (h := outgoing_header s) in *. clearbody h.
  apply stJ_sbind.
  - destruct (timer_expired _ _); [|exact Hj].
    destruct (iter_for_sending (v_segs s) None) as [|f rest] eqn:Ei.
    + destruct (our_fin_if_unacked (v_state s)); [|exact Hj].
      destruct (_ =? _); [|exact Hj].
      apply stJ_sbind.
      * apply maybe_send_fin_J. exact Hj.
      * intros s2 [|] Hj2; cbn [stJ]; [|exact Hj2].
        destruct (on_rto_reactions cci s2) as [s3|] eqn:Er; [|exact I].
        apply (on_rto_reactions_J _ _ Er) in Hj2. exact Hj2.
    + assert (Hf : item_ok f).
      { pose proof (iter_items_ok (v_segs s) None (proj1 (proj2 (proj2 (proj2 (proj2 (proj2 Hj))))))) as Hi.
        rewrite Ei in Hi. inversion Hi; assumption. }
      pose proof (send_data_J s h f Hj Hb Hf) as F.
      destruct (send_data s h f) as [s1 r|s1 e|]; cbn [stJ] in *; auto.
      destruct r; cbn [stJ]; auto.
      destruct (negb (sg_probe (fs_seg f))).
      * destruct (on_rto_reactions cci s1) as [s2|] eqn:Er; [|exact I].
        apply (on_rto_reactions_J _ _ Er) in F. exact F.
      * exact F.
  - intros s1 ret Hj1. destruct ret; [exact Hj1|].
    destruct (0 <? _); [exact Hj1|].
    destruct (ss_segs (v_segs s1)) eqn:Esegs; [exact Hj1|].
    assert (Hitems : forall st, Forall item_ok (iter_for_sending (v_segs s1) st)).
    { intro st. apply iter_items_ok. exact (proj1 (proj2 (proj2 (proj2 (proj2 (proj2 Hj1)))))). }
    clear Esegs.
    apply stJ_sbind.
    + destruct (rv_phase (v_recovery s1)) as [rp|d|rc]; try exact Hj1.
      apply stJ_sbind.
      * apply recovery_loop_J; [exact Hb|exact Hj1|].
        apply Forall_take_while, Forall_skip_while, Forall_firstn', Hitems.
      * intros s2 [st early] Hj2. unfold set_recovering.
        repeat break_match; cbn [stJ]; exact Hj2.
    + intros s3 ret Hj3. destruct ret; [exact Hj3|].
      clear Hitems.
      apply stJ_sbind.
      * apply new_data_loop_J; [exact Hb|exact Hj3|]. apply iter_items_ok.
        exact (proj1 (proj2 (proj2 (proj2 (proj2 (proj2 Hj3)))))).
      * intros s4 too_long Hj4. destruct too_long as [[seq size]|]; [|exact Hj4].
        destruct (pop_mtu_probe (v_segs s4) seq) as [segs' popped] eqn:Ep.
        destruct popped; [|exact Hj4]. cbn [stJ].
        destruct Hj4 as (B1 & B2 & B3 & B4 & B5 & B6 & B7).
        J_split; try assumption.
        exact (pop_mtu_probe_pos _ _ _ _ Ep B6).
Qed.

Lemma maybe_send_ack_J (s : vsock) : J s -> stJ (maybe_send_ack s).
Proof.
  intro Hj. unfold maybe_send_ack.
  destruct (immediate_ack_to_transmit s); [apply send_ack_J; exact Hj|].
  destruct (should_send_window_update s); [apply send_ack_J; exact Hj|].
  destruct (timer_expired _ _); [destruct (ack_to_transmit s); [apply send_ack_J; exact Hj|exact Hj]|].
  destruct (0 <? _); exact Hj.
Qed.


(* ------------------------------------------------------------------ segmentation *)
Lemma next_segment_size_ge1 ss ss1 sz :
  next_segment_size ss = Some (ss1, sz) -> min_ss ss1 = min_ss ss /\ (1 <= min_ss ss -> 1 <= sz).
Proof.
  unfold next_segment_size. destruct (cd_rem ss =? 0).
  - unfold bind, next_probe. cbn [min_ss max_ss np_diff np_half np_sum1 np_sum2].
    destruct (_ && _ && _) eqn:E; [|discriminate]. intro H; injection H as <- <-. cbn [min_ss].
    split; [reflexivity|]. intro H1.
    apply andb_prop in E. destruct E as [E _]. apply andb_prop in E. destruct E as [E _].
    unfold np_sum2, np_sum1, np_half, np_diff in *. cbn [min_ss max_ss] in *. lia.
  - intro H; injection H as <- <-. cbn [min_ss]. split; [reflexivity|auto].
Qed.

Lemma enqueue_pos t len p : pos_list (ss_segs t) -> 1 <= len -> pos_list (ss_segs (enqueue t len p)).
Proof.
  unfold pos_list, enqueue, Segments.set_segs; cbn [ss_segs]. intros H Hl.
  apply Forall_app. split; [exact H|]. constructor; [cbn [sg_size]; exact Hl|constructor].
Qed.

Lemma segment_loop_pos : forall fuel nagle ss segs rm rwr ss' segs' rm',
  1 <= min_ss ss -> pos_list (ss_segs segs) ->
  segment_loop fuel nagle ss segs rm rwr = Some (ss', segs', rm') ->
  pos_list (ss_segs segs') /\ min_ss ss' = min_ss ss.
Proof.
  induction fuel as [|b fuel IH]; intros nagle ss segs rm rwr ss' segs' rm' Hm Hp; cbn [segment_loop].
  - intro H; injection H as <- <- <-. auto.
  - destruct ((0 <? rm) && (0 <? rwr)) eqn:Ec; [|intro H; injection H as <- <- <-; auto].
    apply andb_prop in Ec. destruct Ec as [Hr Hw]. apply Z.ltb_lt in Hr. apply Z.ltb_lt in Hw.
    destruct (next_segment_size ss) as [[ss1 sz]|] eqn:En; [|discriminate].
    destruct (next_segment_size_ge1 _ _ _ En) as [Hm1 Hsz]. specialize (Hsz Hm).
    assert (Hpay : 1 <= Z.min (Z.min sz rwr) rm) by (clear - Hr Hw Hsz; lia).
    destruct (nagle && _ && _).
    { intro H; injection H as <- <- <-. auto. }
    destruct (mss ss1 <? Z.min (Z.min sz rwr) rm).
    + intro H; injection H as <- <- <-. split; [apply enqueue_pos; assumption|exact Hm1].
    + intro H. assert (Hm1' : 1 <= min_ss ss1) by lia.
      destruct (IH _ _ _ _ _ _ _ _ Hm1' (enqueue_pos _ _ false Hp Hpay) H) as [A B].
      split; [exact A|lia].
Qed.

Lemma split_J (s : vsock) : J s -> stJ (split_tx_queue_into_segments cci s).
Proof.
  intro Hj. unfold split_tx_queue_into_segments.
  destruct (_ =? 0); [exact Hj|].
  match goal with |- context [is_remote_fin_or_later (v_state ?x)] => set (s1 := x) end.
  assert (H1 : J s1).
  { subst s1. destruct (_ && _); [|exact Hj].
    destruct (grow _ _) as [tx1 g]. destruct g; [destruct (wake_writer tx1)|]; exact Hj. }
  clearbody s1.
  destruct (is_remote_fin_or_later _); [exact H1|].
  destruct (pop_expired_mtu_probe _ _ _) as [segs1 pe] eqn:Ep.
  pose proof (pop_expired_pos _ _ _ _ _ Ep (proj1 (proj2 (proj2 (proj2 (proj2 (proj2 H1))))))) as Hp1.
  assert (Hcont : forall s2 : vsock, J s2 ->
    stJ
      (if Z.of_nat (length (ring (v_tx s))) <? ss_len_bytes (v_segs s2)
       then SErr s2 (ErrBug BugInBufferComputations)
       else match segment_loop (ring (v_tx s2)) (o_nagle (v_opts s2)) (v_ss s2) (v_segs s2)
                    (Z.of_nat (length (ring (v_tx s))) - ss_len_bytes (v_segs s2))
                    (v_last_remote_window s2) with
            | Some (ss', segs', remaining) =>
                SOk (set_unsegmented (VSockRec.set_segs (set_ss s2 ss') segs') remaining) tt
            | None => SPanic
            end)).
  { intros s2 H2. destruct (_ <? _); [exact H2|].
    destruct (segment_loop _ _ _ _ _ _) as [[[ss' segs'] rem']|] eqn:E; [|exact I].
    destruct H2 as (B1 & B2 & B3 & B4 & B5 & B6 & B7).
    destruct (segment_loop_pos _ _ _ _ _ _ _ _ _ B2 B6 E) as [Hp Hm].
    cbn [stJ]. J_split; try assumption. unfold mss in *. lia. }
  destruct H1 as (B1 & B2 & B3 & B4 & B5 & B6 & B7).
  destruct pe.
  - apply Hcont. destruct (seq_gt _ _); J_split; assumption.
  - cbn [stJ]. J_split; assumption.
  - apply Hcont. J_split; assumption.
Qed.

(* ------------------------------------------------------------------ death, transitions *)
Lemma mark_both_closed_J (s : vsock) : J s -> J (mark_both_closed s).
Proof.
  intro Hj. unfold mark_both_closed.
  destruct (rx_mark_vsock_closed _); destruct (mark_vsock_closed _). exact Hj.
Qed.

Lemma just_before_death_J (s : vsock) e : J s -> J (just_before_death s e).
Proof.
  intro Hj. unfold just_before_death.
  match goal with |- context [mark_both_closed ?x] => set (s1 := x) end.
  assert (H1 : J s1).
  { subst s1. destruct e; [destruct (rx_enqueue_error _)|]; exact Hj. }
  clearbody s1.
  pose proof (mark_both_closed_J s1 H1) as H2. set (s2 := mark_both_closed s1) in *. clearbody s2.
  destruct e; [|exact H2].
  destruct (negb _); [|exact H2].
  assert (H3 : J (set_seq_nr s2 (wadd16 (v_seq_nr s2) 1))).
  { destruct H2 as (B1 & B2 & B3 & B4 & B5 & B6 & B7). J_split; try assumption. apply wadd16_u16. }
  assert (Hc : ctl_ok (hdr_with (outgoing_header s2) ST_FIN (v_seq_nr s2) None)).
  { destruct (outgoing_header_base s2 H2) as [Hb _].
    split; [apply base_ok_hdr_with; exact Hb|]. unfold hdr_with; cbn [ch_type ch_seq ch_sack].
    split; [left; reflexivity|]. split; [exact (proj1 (proj2 (proj2 H2)))|exact I]. }
  pose proof (send_control_packet_J _ _ H3 Hc) as F.
  destruct (send_control_packet _ _); cbn [stJ] in F; assumption.
Qed.

Lemma transition_to_fin_wait_1_J (s : vsock) : J s -> J (transition_to_fin_wait_1 s).
Proof.
  intros (B1 & B2 & B3 & B4 & B5 & B6 & B7). unfold transition_to_fin_wait_1.
  destruct (v_state s) eqn:Est; try (J_split; try assumption; rewrite ?Est; cbn [fin_ok]; auto using wadd16_u16).
Qed.

(* ------------------------------------------------------------------ incoming messages *)
Definition tblJ (r : table_res) : Prop :=
  match r with TblDrop s1 | TblErr s1 _ | TblContinue s1 => J s1 end.

Lemma state_table_J (s : vsock) h : J s -> tblJ (state_table s h).
Proof.
  intros (B1 & B2 & B3 & B4 & B5 & B6 & B7). unfold state_table, restart_remote_inactivity_timer.
  destruct (v_state s) eqn:Est; cbn [fin_ok] in B5;
    repeat break_match; cbn [tblJ]; J_split; try assumption;
    rewrite ?Est; cbn [fin_ok]; auto using wadd16_u16.
Qed.

(* a FIN that changes last_consumed is the next packet in sequence *)
Lemma state_table_fin_seq (s : vsock) h :
  match state_table s h with
  | TblContinue _ =>
      ch_type h = ST_FIN -> is_remote_fin_or_later (v_state s) = false ->
      ch_seq h = wadd16 (v_last_consumed s) 1
  | _ => True
  end.
Proof.
  unfold state_table. destruct (ch_type h) eqn:Et; try (repeat break_match; try exact I; discriminate).
  destruct (v_state s); cbn [is_remote_fin_or_later]; try exact I;
    repeat break_match; try exact I; intros _ Hr; try discriminate Hr;
    match goal with Hn : negb (_ =? _) = false |- _ =>
      apply negb_false_iff, Z.eqb_eq in Hn; exact Hn end.
Qed.

Lemma recovery_on_ack_segs r h segs ls cc now rtt r' segs' cc' :
  recovery_on_ack cci r h segs ls cc now rtt = Some (r', segs', cc') ->
  segs' = segs \/ exists hr hd p rc, calc_pipe segs hr hd rtt now = Some (segs', p, rc).
Proof.
  intros H. unfold recovery_on_ack in H. cbn [rv_phase rv_supports_sack rv_last_ack] in H.
  repeat break_match_hyp H; try discriminate H; injection H as <- <- <-; try (left; reflexivity).
  all: right; eexists _, _, _, _; eassumption.
Qed.

Lemma recovery_on_ack_pos r h segs ls cc now rtt r' segs' cc' :
  recovery_on_ack cci r h segs ls cc now rtt = Some (r', segs', cc') ->
  pos_list (ss_segs segs) -> pos_list (ss_segs segs').
Proof.
  intros H Hp. apply recovery_on_ack_segs in H. destruct H as [->|(hr & hd & p & rc & Hc)]; [exact Hp|].
  exact (calc_pipe_pos _ _ _ _ _ _ _ _ Hc Hp).
Qed.

Lemma pim_J (s : vsock) m : J s -> stJ (process_incoming_message cci s m).
Proof.
  intro Hj. unfold process_incoming_message.
  pose proof (state_table_J s (m_hdr m) Hj) as T.
  pose proof (state_table_fin_seq s (m_hdr m)) as Tf.
  destruct (state_table s (m_hdr m)) as [s1|s1 e|s1]; cbn [tblJ stJ] in *; auto.
  destruct (remove_up_to_ack _ _ _ _) as [segs1 res] eqn:Er.
  destruct (match is_recovering _, _ with | false, Some rtt => _ | _, _ => _ end) as [rtte1|]; [|exact I].
  destruct (cc_on_ack _ _ _ _ _) as [cc3|]; [|exact I].
  destruct (recovery_on_ack _ _ _ _ _ _ _ _) as [[[rec1 segs2] cc4]|] eqn:Ero; [|exact I].
  match goal with |- context [seq_sub _ (wadd16 (v_last_consumed ?x) 1)] => set (s2 := x) end.
  assert (H2 : J s2).
  { subst s2. destruct T as (B1 & B2 & B3 & B4 & B5 & B6 & B7). J_split; try assumption.
    - match goal with |- 1 <= mss (on_payload_delivered ?a ?n) => pose proof (mss_on_payload_delivered a n) end. lia.
    - exact (recovery_on_ack_pos _ _ _ _ _ _ _ _ _ _ Ero (remove_up_to_ack_pos _ _ _ _ _ _ Er B6)). }
  clearbody s2.
  destruct (ch_type (m_hdr m)) eqn:Et; try (abstract (exact H2)).
  - (* ST_DATA *)
    destruct (_ <? 0); [(abstract (exact H2))|].
    match goal with |- context [rx_add_remove (v_rx ?x)] => set (s3 := x) end.
    assert (H3 : J s3).
    { subst s3. destruct H2 as (B1 & B2 & B3 & B4 & B5 & B6 & B7). J_split; try assumption.
      match goal with |- 1 <= mss (on_payload_delivered ?a ?n) => pose proof (mss_on_payload_delivered a n) end. lia. }
    clearbody s3.
    destruct (rx_add_remove _ _ _ _) as [[rx1 ar] w].
    destruct ar as [r|]; [|exact I].
    destruct (add_err r); [(abstract (exact H3))|].
    match goal with |- context [send_ack (force_immediate_ack ?x)] => set (s5 := x) end.
    assert (H5 : J s5).
    { subst s5. destruct r; try (abstract (exact H3)).
      destruct H3 as (B1 & B2 & B3 & B4 & B5 & B6 & B7). unfold restart_remote_inactivity_timer, add_wakes.
      J_split; try assumption. apply wadd16_u16. }
    clearbody s5.
    destruct (_ || _); [|(abstract (exact H5))].
    apply stJ_sbind; [apply send_ack_J; (abstract (exact H5))|]. intros s6 _ H6. (abstract (exact H6)).
  - (* ST_FIN *)
    unfold force_immediate_ack.
    destruct (negb _ && _) eqn:Ec; [|(abstract (exact H2))].
    apply andb_prop in Ec. destruct Ec as [Ec _]. apply negb_true_iff in Ec.
    specialize (Tf eq_refl Ec).
    destruct (rx_add_remove _ _ _ _) as [[rx1 ar] w].
    destruct ar as [r|]; [|exact I].
    destruct H2 as (B1 & B2 & B3 & B4 & B5 & B6 & B7).
    destruct (add_err r); [|destruct (mark_vsock_closed _)]; cbn [stJ]; unfold add_wakes;
      abstract (J_split; try assumption; rewrite Tf; apply wadd16_u16).
Qed.

Lemma recv_loop_J : forall fuel (s : vsock) acc, J s -> stJ (recv_loop cci fuel s acc).
Proof.
  assert (Hend : forall (s : vsock) (acc : on_ack_result), J s ->
    stJ (sbind (maybe_send_fin (transition_to_fin_wait_1 s))
               (fun s2 _ => SOk (set_state s2 Closed) (acc, true)))).
  { intros s acc Hj. apply stJ_sbind; [apply maybe_send_fin_J, transition_to_fin_wait_1_J; exact Hj|].
    intros s2 _ (B1 & B2 & B3 & B4 & B5 & B6 & B7). cbn [stJ]. J_split; try assumption. exact I. }
  induction fuel as [|x fuel IH]; intros s acc Hj.
  - cbn [recv_loop]. destruct (v_inbox s).
    + destruct (v_inbox_closed s); [apply Hend; exact Hj|exact Hj].
    + exact I.
  - cbn [recv_loop]. destruct (v_inbox s) as [|m rest].
    + destruct (v_inbox_closed s); [apply Hend; exact Hj|exact Hj].
    + apply stJ_sbind.
      * apply (pim_J (set_inbox s rest) m). exact Hj.
      * intros s1 r H1. destruct (_ || _); [exact H1|]. apply IH. exact H1.
Qed.

Lemma process_all_incoming_messages_J (s : vsock) : J s -> stJ (process_all_incoming_messages cci s).
Proof.
  intro Hj. unfold process_all_incoming_messages.
  apply stJ_sbind; [apply recv_loop_J; exact Hj|].
  intros s1 [r early] H1.
  apply stJ_sbind.
  - unfold restart_remote_inactivity_timer, acked_counts_as_sent.
    repeat break_match; cbn [stJ]; exact H1.
  - intros s3 _ H3. destruct (rv_phase (v_recovery s3)); try exact H3.
    destruct (calc_pipe _ _ _ _ _) as [[[segs' pipe] recalc]|] eqn:Ec; [|exact I].
    destruct H3 as (B1 & B2 & B3 & B4 & B5 & B6 & B7). cbn [stJ]. unfold set_recovering.
    J_split; try assumption. exact (calc_pipe_pos _ _ _ _ _ _ _ _ Ec B6).
Qed.

Lemma maybe_send_syn_ack_J (s : vsock) : J s -> stJ (maybe_send_syn_ack s).
Proof.
  intro Hj. unfold maybe_send_syn_ack.
  assert (G : forall c, stJ
     (if c =? o_max_retx (v_opts s) then SErr s ErrMaxSynAckRetransmissionsReached
      else sbind (send_ack s) (fun s1 sent =>
        if sent then SOk (set_t_syn_ack_resend (set_state s1 (SynAckSent (c + 1)))
               (timer_arm (v_t_syn_ack_resend s1) (v_now s1) SYNACK_RESEND_INTERNAL true)) tt
        else SOk s1 tt))).
  { intros c. destruct (_ =? _); [exact Hj|].
    apply stJ_sbind; [apply send_ack_J; exact Hj|].
    intros s1 [|] (B1 & B2 & B3 & B4 & B5 & B6 & B7); cbn [stJ]; J_split; try assumption. exact I. }
  destruct (v_state s); try exact Hj.
  - apply G.
  - destruct (timer_expired _ _); [apply G | exact Hj].
Qed.

Lemma poll_tail_J (s : vsock) : J s -> J (poll_tail s).
Proof.
  intro Hj. unfold poll_tail.
  match goal with |- context [next_timer_to_poll ?x] => set (s1 := x) end.
  assert (H1 : J s1) by (subst s1; destruct (is_local_fin_or_later _); exact Hj).
  clearbody s1. unfold next_timer_to_poll.
  destruct (v_transport_pending s1).
  - destruct (v_t_inactivity s1); [|exact H1]. unfold arm_in. destruct (_ <=? 0); exact H1.
  - destruct (opt_min _ _); [|exact H1]. unfold arm_in. destruct (_ <=? 0); exact H1.
Qed.

(* ------------------------------------------------------------------ a whole poll *)
Definition RJ (s s' : vsock) : Prop := J s -> J s'.

Lemma stJ_stR {A} (s : vsock) (m : step A) : (J s -> stJ m) -> stR RJ s m.
Proof. intro H. destruct m; cbn [stR stJ] in *; auto; exact H. Qed.

Lemma poll_J (s s' : vsock) r : poll cci s = (s', r) -> J (poll_init s) -> J s'.
Proof.
  intro H. revert H. apply (poll_R cci RJ).
  - intros a Ha. exact Ha.
  - intros a b c Hab Hbc Ha. auto.
  - intros a Ha. exact Ha.
  - intros a. apply stJ_stR, maybe_send_syn_ack_J.
  - intros a. apply stJ_stR, send_ack_J.
  - intros a. apply stJ_stR, process_all_incoming_messages_J.
  - intros a rx1 fb w _ Ha. exact Ha.
  - intros a. apply stJ_stR, split_J.
  - intros a. apply stJ_stR, send_tx_queue_J.
  - intros a. exact (transition_to_fin_wait_1_J a).
  - intros a. apply stJ_stR, maybe_send_fin_J.
  - intros a. apply stJ_stR, maybe_send_ack_J.
  - intros a e. exact (just_before_death_J a e).
  - intros a. exact (poll_tail_J a).
Qed.

End WithCC.

(* ================================================================== every step, every trace *)
Section Trace.
Context {CC : Type} (cci : cc_iface CC).
Notation vsock := (vsock CC).
Variable cfg : vconfig.
Hypothesis cfg_ok : c11_config_ok cfg = true.

Lemma cid_ok_of_cfg : u16 (conn_id_send_of cfg).
Proof.
  unfold conn_id_send_of. destruct (vc_incoming cfg); [|apply wadd16_u16].
  unfold c11_config_ok in cfg_ok. unfold u16. lia.
Qed.

Notation Jc := (J cfg).

Lemma vsock_new_J mk s0 : vsock_new cci mk cfg = Some s0 -> Jc s0.
Proof.
  unfold vsock_new.
  destruct (match (if vc_incoming cfg then None else Some _) with Some r => _ | None => _ end); [|discriminate].
  intro H; injection H as <-. unfold J; vsimpl_goal.
  unfold c11_config_ok in cfg_ok.
  split; [reflexivity|]. split; [apply mss_ss_new_pos|].
  split; [destruct (vc_incoming cfg); [unfold u16; lia|apply wadd16_u16]|].
  split; [destruct (vc_incoming cfg); [unfold u16; lia|apply wsub16_u16]|].
  split; [destruct (vc_incoming cfg); exact I|].
  split; constructor.
Qed.

Lemma poll_init_J (s : vsock) : Jc s -> Jc (poll_init s).
Proof.
  intros (B1 & B2 & B3 & B4 & B5 & B6 & B7). unfold poll_init, J; vsimpl_goal.
  repeat (split; [assumption|]). constructor.
Qed.

Lemma vstep_J (s : vsock) o : Jc s -> Jc (vstep_state cci s o).
Proof.
  intro Hj. unfold vstep_state. destruct o.
  - cbn [vstep fst]. abstract (exact Hj).
  - cbn [vstep fst]. abstract (exact Hj).
  - cbn [vstep]. destruct (poll cci (VSockRec.set_sends s script)) as [s' r] eqn:E. cbn [fst].
    apply (poll_J cci cfg cid_ok_of_cfg _ _ _ E). apply poll_init_J. abstract (exact Hj).
  - cbn [vstep]. destruct (v_inbox_closed s); cbn [fst]; abstract (exact Hj).
  - cbn [vstep fst]. abstract (exact Hj).
  - cbn [vstep]. destruct (writer_dropped _); [|destruct (poll_write _ _) as [[tx1 r] w]];
      cbn [fst]; abstract (exact Hj).
  - cbn [vstep]. destruct (writer_dropped _); [|destruct (poll_flush _) as [[tx1 r] w]];
      cbn [fst]; abstract (exact Hj).
  - cbn [vstep]. destruct (writer_dropped _); [|destruct (poll_shutdown _) as [[tx1 r] w]];
      cbn [fst]; abstract (exact Hj).
  - cbn [vstep]. destruct (reader_dropped _); [|destruct (rx_read _ _) as [[rx1 r] w]];
      cbn [fst]; abstract (exact Hj).
  - cbn [vstep]. destruct (reader_dropped _); [|destruct (rx_drop_reader _) as [rx1 w]];
      cbn [fst]; abstract (exact Hj).
  - cbn [vstep]. destruct (drop_writer _) as [tx1 w]; cbn [fst]; abstract (exact Hj).
Qed.

(* only a poll emits *)
Lemma emitted_nonpoll (s : vsock) o : (forall sc, o <> VoPoll sc) ->
  emitted_of (fs_result (fstep_of cci s o)) = [].
Proof.
  intro Hn. unfold fstep_of. destruct o; try (exfalso; exact (Hn _ eq_refl)); cbn [vstep].
  - reflexivity.
  - reflexivity.
  - destruct (v_inbox_closed s); reflexivity.
  - reflexivity.
  - destruct (writer_dropped _); [|destruct (poll_write _ _) as [[tx1 r] w]]; reflexivity.
  - destruct (writer_dropped _); [|destruct (poll_flush _) as [[tx1 r] w]]; reflexivity.
  - destruct (writer_dropped _); [|destruct (poll_shutdown _) as [[tx1 r] w]]; reflexivity.
  - destruct (reader_dropped _); [|destruct (rx_read _ _) as [[rx1 r] w]; destruct r]; reflexivity.
  - destruct (reader_dropped _); [|destruct (rx_drop_reader _) as [rx1 w]]; reflexivity.
  - destruct (drop_writer _) as [tx1 w]; reflexivity.
Qed.

Lemma emitted_all_ok (s : vsock) o :
  Jc s -> Forall (fun q => c11_packet_ok cfg q = true /\ conn_type (ch_type (fq_hdr q)) = true)
                 (emitted_of (fs_result (fstep_of cci s o))).
Proof.
  intro Hj. destruct o; try (rewrite emitted_nonpoll; [constructor|intros sc; discriminate]).
  destruct (poll cci (VSockRec.set_sends s script)) as [s' r] eqn:E.
  rewrite (fstep_of_poll cci s script s' r E). cbn [fs_result emitted_of].
  assert (H' : Jc s').
  { apply (poll_J cci cfg cid_ok_of_cfg _ _ _ E). apply poll_init_J. abstract (exact Hj). }
  destruct H' as (_ & _ & _ & _ & _ & _ & Ho).
  apply Forall_forall. intros q Hq. apply in_map_iff in Hq. destruct Hq as (p & <- & Hp).
  apply in_rev in Hp. rewrite Forall_forall in Ho. exact (Ho p Hp).
Qed.

Theorem c11_emitted_ok_step (s : vsock) o :
  Jc s -> Jc (vstep_state cci s o) /\ c11_emitted_ok cfg (fstep_of cci s o) = true.
Proof.
  intro Hj. split; [apply vstep_J; exact Hj|].
  unfold c11_emitted_ok. apply forallb_forall. intros q Hq.
  pose proof (emitted_all_ok s o Hj) as F. rewrite Forall_forall in F. exact (proj1 (F q Hq)).
Qed.

Theorem c11_conn_types_ok_step (s : vsock) o :
  Jc s -> c11_conn_types_ok cfg (fstep_of cci s o) = true.
Proof.
  intro Hj. unfold c11_conn_types_ok. apply forallb_forall. intros q Hq.
  pose proof (emitted_all_ok s o Hj) as F. rewrite Forall_forall in F. exact (proj2 (F q Hq)).
Qed.

Theorem c11_emitted_ok_trace mk (s0 : vsock) ops :
  vsock_new cci mk cfg = Some s0 -> forallb (c11_emitted_ok cfg) (ftrace cci s0 ops) = true.
Proof.
  intro H. apply (ftrace_forallb cci Jc).
  - intros s o Hj. exact (proj2 (c11_emitted_ok_step s o Hj)).
  - intros s o Hj. apply vstep_J. exact Hj.
  - exact (vsock_new_J mk s0 H).
Qed.

Theorem c11_conn_types_ok_trace mk (s0 : vsock) ops :
  vsock_new cci mk cfg = Some s0 -> forallb (c11_conn_types_ok cfg) (ftrace cci s0 ops) = true.
Proof.
  intro H. apply (ftrace_forallb cci Jc).
  - intros s o Hj. exact (c11_conn_types_ok_step s o Hj).
  - intros s o Hj. apply vstep_J. exact Hj.
  - exact (vsock_new_J mk s0 H).
Qed.

End Trace.

(* ================================================================== what the predicate means on the wire *)
Lemma serialize_version h buflen bs : serialize h buflen = Some bs -> nth 0 bs 0 mod 16 = 1.
Proof.
  unfold serialize. destruct (buflen <? _); [discriminate|]. intro H; injection H as <-.
  unfold encode_packet, fixed_bytes. cbn [app nth]. apply typever_mod.
Qed.

(* an emitted datagram that satisfies the predicate: serialize writes it with version 1, and any receiver
   running `deserialize` reads back exactly the header the connection built, with the payload boundary
   right behind it *)
Theorem packet_ok_on_the_wire (cfg : vconfig) (q : fpacket) (buflen : Z) (payload : list Z) :
  c11_packet_ok cfg q = true ->
  ser_len (hdr_of_chdr (fq_hdr q)) <= buflen -> bytes_okb payload = true ->
  exists bs, serialize (hdr_of_chdr (fq_hdr q)) buflen = Some bs /\
             Zlength bs = ser_len (hdr_of_chdr (fq_hdr q)) /\
             nth 0 bs 0 mod 16 = 1 /\
             nth 0 bs 0 / 16 = type_to_number (ch_type (fq_hdr q)) /\
             deserialize (bs ++ payload) = Some (hdr_of_chdr (fq_hdr q), ser_len (hdr_of_chdr (fq_hdr q))).
Proof.
  intros Hok Hlen Hp. unfold c11_packet_ok in Hok.
  repeat (apply andb_prop in Hok; destruct Hok as [Hok ?]).
  match goal with Hh : hdr_okb _ = true |- _ =>
    destruct (roundtrip _ buflen payload Hh Hlen Hp) as (bs & Hs & Hz & Hd) end.
  exists bs. split; [exact Hs|]. split; [exact Hz|]. split; [exact (serialize_version _ _ _ Hs)|].
  split; [|exact Hd].
  unfold serialize in Hs. destruct (buflen <? _); [discriminate|]. injection Hs as <-.
  unfold encode_packet, fixed_bytes. cbn [app nth hdr_of_chdr h_type]. apply typever_div.
Qed.

(* the payload rule of the predicate is the one UtpMessage::deserialize enforces on the receiving side *)
Lemma packet_ok_payload_rule (cfg : vconfig) (q : fpacket) :
  c11_packet_ok cfg q = true -> 0 <= fq_plen q /\ (0 < fq_plen q <-> ch_type (fq_hdr q) = ST_DATA).
Proof.
  intro Hok. unfold c11_packet_ok in Hok.
  repeat (apply andb_prop in Hok; destruct Hok as [Hok ?]).
  match goal with Hb : Bool.eqb _ _ = true |- _ => apply Bool.eqb_prop in Hb; rename Hb into Hb' end.
  split; [lia|]. rewrite <- ptype_eqb_iff, <- Hb'. lia.
Qed.

Lemma packet_ok_conn_id (cfg : vconfig) (q : fpacket) :
  c11_packet_ok cfg q = true -> ch_conn_id (fq_hdr q) = expected_conn_id cfg (ch_type (fq_hdr q)).
Proof.
  intro Hok. unfold c11_packet_ok in Hok.
  repeat (apply andb_prop in Hok; destruct Hok as [Hok ?]). lia.
Qed.

(* ================================================================== non-vacuity
   an outgoing connection (our SYN announced id 2065, so we send with 2066) writes 100 bytes, receives an
   out-of-order data packet, then an ACK of its data, shuts down: the trace contains an ST_DATA, an
   ST_STATE carrying a SACK extension and an ST_FIN; every one satisfies the predicate *)
Definition ex_cc (w : Z) : cc_iface unit :=
  {| cc_window := fun _ => w; cc_sshthresh := fun _ => w; cc_set_mss := fun c _ => c;
     cc_smss := fun _ => 528; cc_on_recovered := fun c _ _ => c;
     cc_on_ack := fun c _ _ _ => Some c; cc_on_rto := fun c _ => c;
     cc_on_enter_recovery := fun c _ => c; cc_set_remote_window := fun c _ => c |}.

Definition ex_cfg : vconfig :=
  {| vc_incoming := false; vc_ipv4 := true; vc_link_mtu := 1500; vc_rx_buf := 65536;
     vc_tx_init := 32768; vc_tx_max := 1048576; vc_nagle := false; vc_max_retx := 5;
     vc_inactivity := 10000000000; vc_wait_last_ack := true; vc_mtu_probe_max_retx := 0;
     vc_isn := 100; vc_remote_seq := 7; vc_remote_conn_id := 2065; vc_remote_wnd := 1048576;
     vc_remote_ts := 5; vc_syn_sent := 0; vc_now0 := 1000000 |}.

Definition ex_hdr (t : ptype) (seq ack : Z) : chdr :=
  {| ch_type := t; ch_conn_id := 2065; ch_ts := 10; ch_ts_diff := 0; ch_wnd := 1048576;
     ch_seq := seq; ch_ack := ack; ch_sack := None; ch_close_reason := None |}.

Definition ex_ops : list vop :=
  [VoWrite (repeat 0 100); VoPoll [];
   VoDeliver {| m_hdr := ex_hdr ST_DATA 8 100; m_payload := [1; 2; 3] |}; VoPoll [];
   VoDeliver {| m_hdr := ex_hdr ST_STATE 6 101; m_payload := [] |}; VoPoll []; VoShutdown; VoPoll []].

Definition ex_trace : list fstep :=
  match vsock_new (ex_cc 1048576) (fun _ _ => tt) ex_cfg with
  | Some s0 => ftrace (ex_cc 1048576) s0 ex_ops
  | None => []
  end.

Definition emits_kind (p : fpacket -> bool) (tr : list fstep) : bool :=
  existsb (fun st => existsb p (emitted_of (fs_result st))) tr.

Lemma c11_emitted_nonvacuous :
  c11_config_ok ex_cfg = true /\
  forallb (c11_emitted_ok ex_cfg) ex_trace = true /\
  emits_kind (fun q => ptype_eqb (ch_type (fq_hdr q)) ST_DATA && (fq_plen q =? 100) &&
                       (ch_conn_id (fq_hdr q) =? 2066)) ex_trace = true /\
  emits_kind (fun q => ptype_eqb (ch_type (fq_hdr q)) ST_STATE &&
                       match ch_sack (fq_hdr q) with Some _ => true | None => false end) ex_trace = true /\
  emits_kind (fun q => ptype_eqb (ch_type (fq_hdr q)) ST_FIN) ex_trace = true.
Proof. vm_compute. repeat split; reflexivity. Qed.

(* the predicate is not trivially true: it rejects a wrong connection id, a data packet without payload,
   a payload on an ACK, an out-of-range field, a SACK of another length *)
Definition ex_pkt (t : ptype) (conn seq : Z) (sk : option sackbits) (plen : Z) : fpacket :=
  {| fq_hdr := {| ch_type := t; ch_conn_id := conn; ch_ts := 10; ch_ts_diff := 0; ch_wnd := 1048576;
                  ch_seq := seq; ch_ack := 6; ch_sack := sk; ch_close_reason := None |};
     fq_plen := plen |}.

Lemma c11_packet_ok_rejects :
  c11_packet_ok ex_cfg (ex_pkt ST_STATE 2066 101 None 0) = true /\
  c11_packet_ok ex_cfg (ex_pkt ST_STATE 2065 101 None 0) = false /\
  c11_packet_ok ex_cfg (ex_pkt ST_SYN 2065 101 None 0) = true /\
  c11_packet_ok ex_cfg (ex_pkt ST_SYN 2066 101 None 0) = false /\
  c11_packet_ok ex_cfg (ex_pkt ST_DATA 2066 101 None 0) = false /\
  c11_packet_ok ex_cfg (ex_pkt ST_STATE 2066 101 None 3) = false /\
  c11_packet_ok ex_cfg (ex_pkt ST_FIN 2066 65536 None 0) = false /\
  c11_packet_ok ex_cfg (ex_pkt ST_STATE 2066 101 (Some {| sk_bits := repeat false 64; sk_len := 64 |}) 0) = true /\
  c11_packet_ok ex_cfg (ex_pkt ST_STATE 2066 101 (Some {| sk_bits := repeat false 64; sk_len := 32 |}) 0) = false.
Proof. vm_compute. repeat split; reflexivity. Qed.

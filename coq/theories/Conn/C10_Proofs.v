(* C10 (single-connection half): theorems about the model for the predicates of C10_Pred.v,
   refutation witnesses, and the composition of the invariant lemmas of VSock_Inv.v. *)
From Utp Require Import Base.Prelude Wire.SeqNr Wire.Header Rtt.Rtte Rtt.Rtte_Proofs Mtu.SegSizes Rx.Rx
  Rx.Rx_Proofs Tx.Ring Tx.Ring_Proofs Tx.Segments Tx.Segments_Proofs Conn.Recovery Conn.Msg
  Conn.VSockRec Conn.VSock Conn.VSockRun Conn.VObs Conn.C10_Pred Conn.VSock_Inv.

(* ------------------------------------------------------------------ witness scenarios *)
Definition wcfg (rx : Z) : vconfig :=
  {| vc_incoming := false; vc_ipv4 := true; vc_link_mtu := 1500; vc_rx_buf := rx;
     vc_tx_init := 32768; vc_tx_max := 1048576; vc_nagle := true; vc_max_retx := 5;
     vc_inactivity := 10000000000; vc_wait_last_ack := true; vc_mtu_probe_max_retx := 1;
     vc_isn := 100; vc_remote_seq := 1; vc_remote_conn_id := 7; vc_remote_wnd := 1048576;
     vc_remote_ts := 5; vc_syn_sent := 0; vc_now0 := 1000000 |}.

Definition wmsg (t : ptype) (seq ack plen : Z) : msg :=
  {| m_hdr := {| ch_type := t; ch_conn_id := 0; ch_ts := 10; ch_ts_diff := 0; ch_wnd := 1048576;
                 ch_seq := seq; ch_ack := ack; ch_sack := None; ch_close_reason := None |};
     m_payload := repeat 0 (Z.to_nat plen) |}.

(* the model trace of a scenario under the constant-window congestion controller *)
Definition wtrace (w : Z) (cfg : vconfig) (ops : list vop) : list fstep :=
  match vsock_new (fixed_cc w) (fun _ _ => tt) cfg with
  | Some s0 => ftrace (fixed_cc w) s0 ops
  | None => []
  end.

Definition op_msg_ok (o : vop) : Prop := match o with VoDeliver m => msg_ok m | _ => True end.

(* KF2 (a): link_mtu 1500, path limit 1000, the peer sends one 1400-byte ST_DATA, we write 3000
   bytes: the next poll returns Error::BugEmsgSizeNoProbe.
   case: vsock out 1 1500 1048576 32768 1048576 1 5 10000000000 1 1 100 1 7 1048576 5 1000000
         L1000 P M0,1,100,1048576,10,1400,0,- P W3000,0 P *)
Definition kf2a_ops : list vop :=
  [VoSetLimit (Some 1000); VoPoll []; VoDeliver (wmsg ST_DATA 1 100 1400); VoPoll [];
   VoWrite (repeat 0 (Z.to_nat 3000)); VoPoll []].

Lemma peer_payload_bug_refuted :
  exists w cfg ops,
    vconfig_ok cfg = true /\ Forall op_msg_ok ops /\
    c10_step_ok cfg (wtrace w cfg ops) = false /\ c10_kf2_class cfg (wtrace w cfg ops) = true /\
    last_result_is (wtrace w cfg ops) is_emsg_bug = true.
Proof.
  exists 2800, (wcfg 1048576), kf2a_ops.
  split; [vm_compute; reflexivity|]. split.
  { repeat constructor. cbv [op_msg_ok msg_ok wmsg m_hdr ch_type m_payload]. vm_compute. discriminate. }
  split; [vm_compute; reflexivity|]. split; vm_compute; reflexivity.
Qed.

(* KF2 (b): an ACK that covers a never-sent MTU probe counts its size as delivered.
   case: ... L1000 P W3000,0 P M2,1,102,1048576,10,0,0,- P *)
Definition kf2b_ops : list vop :=
  [VoSetLimit (Some 1000); VoPoll []; VoWrite (repeat 0 (Z.to_nat 3000)); VoPoll [];
   VoDeliver (wmsg ST_STATE 1 102 0); VoPoll []].

Lemma unsent_probe_ack_bug_refuted :
  exists w cfg ops,
    vconfig_ok cfg = true /\ Forall op_msg_ok ops /\
    c10_step_ok cfg (wtrace w cfg ops) = false /\ c10_kf2_class cfg (wtrace w cfg ops) = true /\
    last_result_is (wtrace w cfg ops) is_emsg_bug = true.
Proof.
  exists 1056, (wcfg 1048576), kf2b_ops.
  split; [vm_compute; reflexivity|]. split.
  { repeat constructor. }
  split; [vm_compute; reflexivity|]. split; vm_compute; reflexivity.
Qed.

(* D15 (repaired in /repo): Pending in state Closed, then a retransmitted FIN — the closed connection
   ignores the queued message instead of reporting Error::BugRecvInClosed.  Regression example on the
   witness of the old defect.
   case: ... P H P M2,0,101,1048576,10,0,0,- P M1,1,101,1048576,11,0,0,- PP M1,1,101,1048576,12,0,0,- P *)
Definition d13_ops : list vop :=
  [VoPoll []; VoShutdown; VoPoll []; VoDeliver (wmsg ST_STATE 0 101 0); VoPoll [];
   VoDeliver (wmsg ST_FIN 1 101 0); VoPoll [TPending]; VoDeliver (wmsg ST_FIN 1 101 0); VoPoll []].

Definition last_pre_closed (tr : list fstep) : bool :=
  match rev tr with
  | st :: _ => match f_state (fs_pre st) with Closed => true | _ => false end
  | [] => false
  end.

Lemma closed_pending_regression :
  exists w cfg ops,
    vconfig_ok cfg = true /\ Forall op_msg_ok ops /\
    (* the last poll still finds the connection Closed with a message queued ... *)
    last_pre_closed (wtrace w cfg ops) = true /\
    (* ... and no step of the trace panics or reports a Bug error *)
    c10_step_ok cfg (wtrace w cfg ops) = true /\
    c10_closed_pending_class cfg (wtrace w cfg ops) = false.
Proof.
  exists 1056, (wcfg 1048576), d13_ops.
  split; [vm_compute; reflexivity|]. split; [repeat constructor|].
  split; [vm_compute; reflexivity|]. split; vm_compute; reflexivity.
Qed.

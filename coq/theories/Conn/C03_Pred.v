(* C03 (connection-level half) — aborted connections resolve every pending and later application
   call with an error instead of hanging.  Boolean predicates over the steps of the
   connection-level correspondence.  Model only. *)
From Utp Require Import Base.Prelude Wire.SeqNr Wire.Header Rtt.Rtte Mtu.SegSizes Rx.Rx Tx.Ring
  Tx.Segments Conn.Recovery Conn.Msg Conn.VSockRec Conn.VSock Conn.VSockRun Conn.VObs.

Definition poll_is_ready (r : poll_result) : bool :=
  match r with PollReadyOk | PollReadyErr _ => true | _ => false end.

Definition has_wake (w : vwake) (l : list vwake) : bool :=
  existsb (fun x => match x, w with
                    | VwReader, VwReader | VwWriter, VwWriter | VwSelf, VwSelf => true
                    | _, _ => false end) l.

(* the poll in which the connection dies (Ready, with or without an error) leaves both halves
   marked closed, no application waker registered, and fired every waker that was registered *)
Definition c03_ready_closed_ok (cfg : vconfig) (st : fstep) : bool :=
  match fs_event st, fs_result st with
  | FePoll _, FrPoll r _ wakes _ =>
      if poll_is_ready r then
        f_rx_closed (fs_post st) && f_tx_closed (fs_post st) &&
        negb (f_rx_reader_waker (fs_post st)) && negb (f_tx_writer_waker (fs_post st)) &&
        (if f_rx_reader_waker (fs_pre st) then has_wake VwReader wakes else true) &&
        (if f_tx_writer_waker (fs_pre st) then has_wake VwWriter wakes else true)
      else true
  | _, _ => true
  end.

(* once a half is marked closed, no application call on it parks: reads return bytes / EOF / an
   error, writes and flush/shutdown an error or success; a write may yield once (self-woken) *)
Definition c03_no_hang_ok (cfg : vconfig) (st : fstep) : bool :=
  match fs_result st with
  | FrReadPending => negb (f_rx_closed (fs_pre st))
  | FrWrite WrPending => negb (f_tx_closed (fs_pre st)) || fs_self_woken st
  | FrUnit UrPending => negb (f_tx_closed (fs_pre st))
  | _ => true
  end.

(* trace level: after a Ready poll nothing parks any more *)
Fixpoint after_death_scan (tr : list fstep) (dead : bool) : bool :=
  match tr with
  | [] => true
  | st :: r =>
      (if dead then
         match fs_result st with
         | FrReadPending | FrUnit UrPending => false
         | FrWrite WrPending => fs_self_woken st
         | _ => true
         end
       else true) &&
      after_death_scan r (dead || match fs_result st with FrPoll res _ _ _ => poll_is_ready res | _ => false end)
  end.

Definition c03_after_death_ok (cfg : vconfig) (tr : list fstep) : bool :=
  forallb (c03_ready_closed_ok cfg) tr && forallb (c03_no_hang_ok cfg) tr && after_death_scan tr false.

(* ---- cancellation: the connection future is dropped without having returned (Drop for
   VirtualSocket).  Afterwards only the application halves exist; an observation is
   (event, result, the call woke itself). ---- *)
Definition c03_post_drop_step_ok (x : fevent * fresult * bool) : bool :=
  let '(e, r, sw) := x in
  match e, r with
  | FeWrite _, FrWrite (WrOk k) => k =? 0          (* nothing is accepted any more *)
  | FeWrite _, FrWrite WrPending => sw              (* only the cooperative yield, which wakes itself *)
  | FeFlush, FrUnit UrPending | FeShutdown, FrUnit UrPending => false
  | FeRead n, FrReadPending => n <=? 0
  | _, _ => true
  end.

Definition c03_post_drop_ok (l : list (fevent * fresult * bool)) : bool :=
  forallb c03_post_drop_step_ok l.

(* the drop itself wakes a parked reader and a parked writer *)
Definition c03_drop_wakes_ok (pre : vfp) (woke_reader woke_writer : bool) : bool :=
  (if f_rx_reader_waker pre && negb (f_rx_closed pre) then woke_reader else true) &&
  (if f_tx_writer_waker pre && negb (f_tx_closed pre) then woke_writer else true).

(* C18 at the level of a whole poll — the supporting lemmas.
   1. how the operations of Tx/Segments.v change the table, as relations on the list of segments
      (re-flagging [Forall2 seg_le / seg_eq], removal from the front, popping the last probe);
   2. the table invariants: [TIt] (positively tiled, len_bytes = sum of sizes: every state) and
      [Tab off0] (poll-local: old segments below off0, the new ones tile [off0, offset));
   3. what each function of poll_body does to (segs, last_remote_window, ss, inbox, opts,
      unsegmented): [keep] (nothing), [stx] (send path: re-flag / pop a probe and restart),
      [pimr] (incoming messages: remove, re-flag). *)
From Utp Require Import Base.Prelude Wire.SeqNr Wire.Header Rtt.Rtte Mtu.SegSizes
  Rx.Rx Tx.Ring Tx.Segments Tx.Segments_Proofs Conn.Recovery Conn.Msg Conn.VSockRec Conn.VSock
  Conn.VSockRun Conn.VObs Conn.VSock_Lemmas Conn.VSock_LemmasStep Conn.VSock_LemmasReach
  Conn.C18_Pred Conn.C18_Proofs.

(* ================================================================== 1. segments, one by one *)
Definition seg_sh (g g' : seg) : Prop :=
  sg_abs g' = sg_abs g /\ sg_size g' = sg_size g /\ sg_probe g' = sg_probe g.
(* incoming acknowledgements: a segment may become delivered *)
Definition seg_le (g g' : seg) : Prop :=
  seg_sh g g' /\ (sg_delivered g = true -> sg_delivered g' = true).
(* the send path and calc_pipe: only sent/lost/expired/sacks_after change *)
Definition seg_eq (g g' : seg) : Prop :=
  seg_sh g g' /\ sg_delivered g' = sg_delivered g.

Lemma seg_eq_refl g : seg_eq g g.
Proof. repeat split. Qed.
Lemma seg_le_refl g : seg_le g g.
Proof. repeat split. auto. Qed.
Lemma seg_eq_le g g' : seg_eq g g' -> seg_le g g'.
Proof. intros [H D]. split; [exact H|]. rewrite D. auto. Qed.
Lemma seg_le_trans a b c : seg_le a b -> seg_le b c -> seg_le a c.
Proof.
  intros ((A1 & A2 & A3) & A4) ((B1 & B2 & B3) & B4). repeat split; try congruence. auto.
Qed.
Lemma seg_eq_trans a b c : seg_eq a b -> seg_eq b c -> seg_eq a c.
Proof.
  intros ((A1 & A2 & A3) & A4) ((B1 & B2 & B3) & B4). repeat split; congruence.
Qed.

Lemma F2_refl {A} (R : A -> A -> Prop) : (forall x, R x x) -> forall l, Forall2 R l l.
Proof. intros H. induction l; constructor; auto. Qed.

Lemma F2_trans {A} (R : A -> A -> Prop) :
  (forall a b c, R a b -> R b c -> R a c) ->
  forall l1 l2 l3, Forall2 R l1 l2 -> Forall2 R l2 l3 -> Forall2 R l1 l3.
Proof.
  intros H l1 l2 l3 F. revert l3. induction F; intros l3 G; inversion G; subst; constructor; eauto.
Qed.

Lemma F2_impl {A} (R S : A -> A -> Prop) : (forall a b, R a b -> S a b) ->
  forall l l', Forall2 R l l' -> Forall2 S l l'.
Proof. intros H l l' F. induction F; constructor; auto. Qed.

Lemma F2_skipn {A} (R : A -> A -> Prop) : forall n l l',
  Forall2 R l l' -> Forall2 R (skipn n l) (skipn n l').
Proof.
  induction n as [|n IH]; intros l l' F; [exact F|].
  destruct F; cbn [skipn]; [constructor|]. apply IH. exact F.
Qed.

Lemma F2_firstn {A} (R : A -> A -> Prop) : forall n l l',
  Forall2 R l l' -> Forall2 R (firstn n l) (firstn n l').
Proof.
  induction n as [|n IH]; intros l l' F; [constructor|].
  destruct F; cbn [firstn]; constructor; auto.
Qed.

Lemma F2_length {A} (R : A -> A -> Prop) l l' : Forall2 R l l' -> length l = length l'.
Proof. intro F. induction F; cbn [length]; congruence. Qed.

(* what depends on the shape only *)
Lemma F2_sum l l' : Forall2 seg_le l l' -> sum_sizes l' = sum_sizes l.
Proof.
  intro F. induction F as [|g g' l l' ((_ & S & _) & _) _ IH]; cbn [sum_sizes]; [reflexivity|]. lia.
Qed.

Lemma F2_tiled : forall l l' base, Forall2 seg_le l l' -> tiled base l -> tiled base l'.
Proof.
  intros l l' base F. revert base.
  induction F as [|g g' l l' ((A & S & _) & _) _ IH]; intros base T; cbn [tiled] in *; [exact I|].
  destruct T as (T1 & T2 & T3). rewrite A, S. repeat split; auto.
Qed.

Lemma F2_Forall (P : seg -> Prop) l l' :
  (forall g g', seg_le g g' -> P g -> P g') -> Forall2 seg_le l l' -> Forall P l -> Forall P l'.
Proof.
  intros H F. induction F; intros G; inversion G; subst; constructor; eauto.
Qed.

Lemma F2_walk off m w : forall l l' prev, Forall2 seg_le l l' ->
  c18_walk off m w prev (map fseg_of l') = c18_walk off m w prev (map fseg_of l).
Proof.
  intros l l' prev F. revert prev.
  induction F as [|g g' l l' ((A & S & _) & _) _ IH]; intros prev; cbn [map c18_walk]; [reflexivity|].
  cbn [fseg_of fg_abs fg_size]. rewrite A, S, IH. reflexivity.
Qed.

(* ---- the newest segment is not an undelivered MTU probe ---- *)
Definition upr (g : seg) : bool := sg_probe g && negb (sg_delivered g).

Definition lastok (l : list seg) : Prop :=
  match rev l with g :: _ => upr g = false | [] => True end.

Lemma lastok_app_last l g : lastok (l ++ [g]) <-> upr g = false.
Proof. unfold lastok. rewrite rev_app_distr. cbn [rev app]. tauto. Qed.

Lemma list_last_cases {A} (l : list A) : l = [] \/ exists i x, l = i ++ [x].
Proof.
  destruct (rev l) as [|x r] eqn:E.
  - left. rewrite <- (rev_involutive l), E. reflexivity.
  - right. exists (rev r), x. rewrite <- (rev_involutive l), E. reflexivity.
Qed.

Lemma F2_app_last_inv {A} (R : A -> A -> Prop) : forall i x l',
  Forall2 R (i ++ [x]) l' -> exists i' x', l' = i' ++ [x'] /\ Forall2 R i i' /\ R x x'.
Proof.
  intros i x l' F. apply Forall2_app_inv_l in F. destruct F as (i' & t & Fi & Ft & ->).
  inversion Ft as [|? x' ? t' Rx Fn]; subst. inversion Fn; subst. exists i', x'. auto.
Qed.

Lemma lastok_F2 l l' : Forall2 seg_le l l' -> lastok l -> lastok l'.
Proof.
  intros F H. destruct (list_last_cases l) as [->|(i & x & ->)].
  - inversion F; subst. exact I.
  - apply F2_app_last_inv in F. destruct F as (i' & x' & -> & _ & ((_ & _ & P) & D)).
    apply lastok_app_last in H. apply lastok_app_last. unfold upr in *. rewrite P.
    destruct (sg_probe x); [|reflexivity]. cbn [andb] in *.
    destruct (sg_delivered x); [rewrite (D eq_refl); reflexivity | discriminate].
Qed.

Lemma skipn_app_last {A} : forall n (i : list A) x,
  skipn n (i ++ [x]) = [] \/ exists i', skipn n (i ++ [x]) = i' ++ [x].
Proof.
  induction n as [|n IH]; intros i x; [right; exists i; reflexivity|].
  destruct i as [|y i]; cbn [app skipn].
  - left. destruct n; reflexivity.
  - apply IH.
Qed.

Lemma lastok_skipn n l : lastok l -> lastok (skipn n l).
Proof.
  intro H. destruct (list_last_cases l) as [->|(i & x & ->)].
  - rewrite skipn_nil. exact I.
  - destruct (skipn_app_last n i x) as [->|(i' & ->)]; [exact I|].
    apply lastok_app_last. apply lastok_app_last in H. exact H.
Qed.

(* ---- positively tiled up to [off] ---- *)
Definition PT (base : Z) (l : list seg) (off : Z) : Prop :=
  tiled base l /\ Forall (fun g => 0 < sg_size g) l /\ off = base + sum_sizes l.

Lemma PT_F2 base l l' off : Forall2 seg_le l l' -> PT base l off -> PT base l' off.
Proof.
  intros F (T & P & O). split; [eapply F2_tiled; eauto|]. split.
  - eapply F2_Forall; [|exact F|exact P]. intros g g' ((_ & S & _) & _). rewrite S. auto.
  - rewrite (F2_sum _ _ F). exact O.
Qed.

Lemma PT_skipn base l off n : PT base l off -> PT (base + sum_sizes (firstn n l)) (skipn n l) off.
Proof.
  intros (T & P & O). pose proof (firstn_skipn_sum n l) as Sm.
  rewrite <- (firstn_skipn n l) in T, P.
  apply tiled_app in T. apply Forall_app in P.
  destruct T as [_ T]. destruct P as [_ P].
  split; [exact T|]. split; [exact P|]. lia.
Qed.

Lemma PT_nonneg base l off : PT base l off -> base <= off.
Proof. intros (T & _ & O). pose proof (tiled_sizes_nonneg _ _ T). lia. Qed.

Lemma PT_pos base l off : PT base l off -> l <> [] -> base < off.
Proof.
  intros (T & P & O) N. destruct l as [|g l]; [congruence|].
  cbn [sum_sizes tiled] in *. inversion P; subst. destruct T as (_ & _ & T).
  pose proof (tiled_sizes_nonneg _ _ T). lia.
Qed.

Lemma PT_nil base off : PT base [] off <-> off = base.
Proof. unfold PT. cbn [tiled sum_sizes]. split; [intros (_ & _ & O); lia|]. intro. repeat split; auto; lia. Qed.

Lemma PT_snoc base l off g :
  PT base l off -> sg_abs g = off -> 0 < sg_size g -> PT base (l ++ [g]) (off + sg_size g).
Proof.
  intros (T & P & O) A S. split; [|split].
  - apply tiled_app. split; [exact T|]. cbn [tiled]. repeat split; try lia.
  - apply Forall_app. split; [exact P|]. constructor; [exact S|constructor].
  - rewrite sum_sizes_app. cbn [sum_sizes]. lia.
Qed.

Lemma PT_unsnoc base l off g : PT base (l ++ [g]) off -> PT base l (off - sg_size g) /\ sg_abs g = off - sg_size g.
Proof.
  intros (T & P & O). apply tiled_app in T. destruct T as [T1 T2]. apply Forall_app in P. destruct P as [P1 _].
  rewrite sum_sizes_app in O. cbn [sum_sizes tiled] in *. destruct T2 as (A & _ & _).
  split; [split; [exact T1|split; [exact P1|lia]] | lia].
Qed.

Lemma PT_abs_lt base l off : PT base l off -> Forall (fun g => sg_abs g < off) l.
Proof.
  intros H. apply Forall_forall. intros g In.
  apply in_split in In. destruct In as (l1 & l2 & ->).
  destruct H as (T & P & O). apply tiled_app in T. destruct T as [_ T].
  apply Forall_app in P. destruct P as [_ P]. rewrite sum_sizes_app in O.
  cbn [tiled sum_sizes] in *. destruct T as (A & _ & T). inversion P; subst.
  pose proof (tiled_sizes_nonneg _ _ T). lia.
Qed.

Lemma PT_abs_ge base l off : PT base l off -> Forall (fun g => base <= sg_abs g) l.
Proof. intros (T & _ & _). apply tiled_abs_ge. exact T. Qed.

(* ================================================================== 2. table invariants *)
(* every reachable state *)
Definition TIt (t : segments) : Prop :=
  ss_len_bytes t = sum_sizes (ss_segs t) /\ exists base, PT base (ss_segs t) (ss_offset t).

(* during one poll: off0 = next-byte offset before the poll *)
Definition Tab (off0 : Z) (t : segments) : Prop :=
  exists old new, ss_segs t = old ++ new /\ Forall (fun g => sg_abs g < off0) old /\ lastok old /\
                  PT off0 new (ss_offset t).

(* re-flagging *)
Definition tfl (R : seg -> seg -> Prop) (t t' : segments) : Prop :=
  Forall2 R (ss_segs t) (ss_segs t') /\ ss_offset t' = ss_offset t /\ ss_len_bytes t' = ss_len_bytes t.
(* removal from the front, then re-flagging *)
Definition trm (t t' : segments) : Prop :=
  exists n, Forall2 seg_le (skipn n (ss_segs t)) (ss_segs t') /\ ss_offset t' = ss_offset t /\
            ss_len_bytes t' = ss_len_bytes t - sum_sizes (firstn n (ss_segs t)).
(* the last segment, an undelivered probe, is popped *)
Definition tpop (t t' : segments) : Prop :=
  exists g, ss_segs t = ss_segs t' ++ [g] /\ upr g = true /\
            ss_offset t' = ss_offset t - sg_size g /\ ss_len_bytes t' = ss_len_bytes t - sg_size g.

Lemma tfl_refl (R : seg -> seg -> Prop) t : (forall g, R g g) -> tfl R t t.
Proof. intro H. split; [apply F2_refl; exact H|]. split; reflexivity. Qed.

Lemma tfl_trans (R : seg -> seg -> Prop) a b c : (forall x y z, R x y -> R y z -> R x z) -> tfl R a b -> tfl R b c -> tfl R a c.
Proof.
  intros H (A1 & A2 & A3) (B1 & B2 & B3). split; [eapply F2_trans; eauto|]. split; congruence.
Qed.

Lemma tfl_eq_le t t' : tfl seg_eq t t' -> tfl seg_le t t'.
Proof. intros (A & B & C). split; [eapply F2_impl; [|exact A]; apply seg_eq_le|]. auto. Qed.

Lemma tfl_trm t t' : tfl seg_le t t' -> trm t t'.
Proof. intros (A & B & C). exists O. cbn [skipn firstn sum_sizes]. split; [exact A|]. split; [exact B|lia]. Qed.

Lemma trm_refl t : trm t t.
Proof. apply tfl_trm, tfl_refl, seg_le_refl. Qed.

Lemma skipn_skipn {A} : forall n m (l : list A), skipn n (skipn m l) = skipn (m + n) l.
Proof.
  intros n m. revert n. induction m as [|m IH]; intros n l; [reflexivity|].
  destruct l; cbn [skipn plus]; [apply skipn_nil|apply IH].
Qed.

Lemma sum_firstn_add : forall m n l,
  sum_sizes (firstn (m + n) l) = sum_sizes (firstn m l) + sum_sizes (firstn n (skipn m l)).
Proof.
  induction m as [|m IH]; intros n l; [cbn [plus firstn skipn sum_sizes]; lia|].
  destruct l as [|g l]; cbn [plus firstn skipn sum_sizes].
  - rewrite firstn_nil. cbn [sum_sizes]. lia.
  - rewrite IH. lia.
Qed.

Lemma trm_trans a b c : trm a b -> trm b c -> trm a c.
Proof.
  intros (n1 & A1 & A2 & A3) (n2 & B1 & B2 & B3). exists (n1 + n2)%nat.
  split; [|split; [congruence|]].
  - rewrite <- skipn_skipn. eapply F2_trans; [apply seg_le_trans| |exact B1].
    apply F2_skipn. exact A1.
  - rewrite B3, A3, sum_firstn_add.
    rewrite (F2_sum _ _ (F2_firstn _ n2 _ _ A1)). lia.
Qed.

(* ---- TIt ---- *)
Lemma TIt_trm t t' : trm t t' -> TIt t -> TIt t'.
Proof.
  intros (n & F & O & L) (B & base & P). split.
  - rewrite L, B, (F2_sum _ _ F). pose proof (firstn_skipn_sum n (ss_segs t)). lia.
  - exists (base + sum_sizes (firstn n (ss_segs t))). rewrite O.
    eapply PT_F2; [exact F|]. apply PT_skipn. exact P.
Qed.

Lemma TIt_tpop t t' : tpop t t' -> TIt t -> TIt t'.
Proof.
  intros (g & S & _ & O & L) (B & base & P). rewrite S in B, P. split.
  - rewrite L, B, sum_sizes_app. cbn [sum_sizes]. lia.
  - exists base. rewrite O. apply PT_unsnoc in P. exact (proj1 P).
Qed.

Lemma TIt_enqueue t p b : 0 < p -> TIt t -> TIt (enqueue t p b).
Proof.
  intros Hp (B & base & P). unfold TIt, enqueue, Segments.set_segs; cbn [ss_segs ss_len_bytes ss_offset]. split.
  - rewrite sum_sizes_app. cbn [sum_sizes sg_size]. lia.
  - exists base.
    match goal with |- PT _ (_ ++ [?g]) _ => change p with (sg_size g) at 2; apply PT_snoc end;
      [exact P | reflexivity | exact Hp].
Qed.

Lemma TIt_pre t : TIt t -> Forall (fun g => sg_abs g < ss_offset t) (ss_segs t).
Proof. intros (_ & base & P). eapply PT_abs_lt; eauto. Qed.

Lemma TIt_len_nonneg t : TIt t -> 0 <= ss_len_bytes t.
Proof. intros (B & base & (T & _ & _)). rewrite B. eapply tiled_sizes_nonneg; eauto. Qed.

(* ---- Tab ---- *)
Lemma Tab_tfl off0 t t' : tfl seg_le t t' -> Tab off0 t -> Tab off0 t'.
Proof.
  intros (F & O & _) (old & new & S & Fo & Lo & P). rewrite S in F.
  apply Forall2_app_inv_l in F. destruct F as (old' & new' & F1 & F2 & S').
  exists old', new'. split; [exact S'|]. split; [|split].
  - eapply F2_Forall; [|exact F1|exact Fo]. intros g g' ((A & _) & _). rewrite A. auto.
  - eapply lastok_F2; eauto.
  - rewrite O. eapply PT_F2; eauto.
Qed.

(* removal: only while nothing new was segmented *)
Lemma Tab_trm off0 t t' : trm t t' -> ss_offset t = off0 -> Tab off0 t -> Tab off0 t'.
Proof.
  intros (n & F & O & _) E (old & new & S & Fo & Lo & P).
  assert (N : new = []).
  { destruct new as [|g new]; [reflexivity|]. exfalso.
    assert (off0 < ss_offset t) by (eapply PT_pos; [exact P|discriminate]). lia. }
  subst new. rewrite app_nil_r in S. rewrite S in F.
  exists (ss_segs t'), []. rewrite app_nil_r. split; [reflexivity|]. split; [|split].
  - eapply F2_Forall; [|exact F|].
    + intros g g' ((A & _) & _). rewrite A. auto.
    + rewrite <- (firstn_skipn n old) in Fo. apply Forall_app in Fo. exact (proj2 Fo).
  - eapply lastok_F2; [exact F|]. apply lastok_skipn. exact Lo.
  - rewrite O. exact P.
Qed.

Lemma app_last_eq {A} (a b : list A) x y : a ++ [x] = b ++ [y] -> a = b /\ x = y.
Proof. intro H. apply app_inj_tail in H. exact H. Qed.

(* a pop takes a NEW segment *)
Lemma Tab_tpop off0 t t' : tpop t t' -> Tab off0 t -> Tab off0 t' /\ off0 <= ss_offset t'.
Proof.
  intros (g & S & U & O & _) (old & new & S0 & Fo & Lo & P).
  destruct (list_last_cases new) as [->|(ni & x & ->)].
  - exfalso. rewrite app_nil_r in S0. rewrite S0 in S. rewrite S in Lo.
    apply lastok_app_last in Lo. congruence.
  - rewrite S0, app_assoc in S. apply app_last_eq in S. destruct S as [S ->].
    apply PT_unsnoc in P. destruct P as [P _]. split.
    + exists old, ni. split; [auto|]. split; [exact Fo|]. split; [exact Lo|]. rewrite O. exact P.
    + rewrite O. eapply PT_nonneg; eauto.
Qed.

Lemma Tab_ge off0 t : Tab off0 t -> off0 <= ss_offset t.
Proof. intros (old & new & _ & _ & _ & P). eapply PT_nonneg; eauto. Qed.

Lemma Tab_enqueue off0 t p b : 0 < p -> Tab off0 t -> Tab off0 (enqueue t p b).
Proof.
  intros Hp (old & new & S & Fo & Lo & P). unfold Tab, enqueue, Segments.set_segs; cbn [ss_segs ss_offset].
  eexists old, (new ++ [_]). split; [rewrite S, app_assoc; reflexivity|]. split; [exact Fo|]. split; [exact Lo|].
  match goal with |- PT _ (_ ++ [?g]) _ => change p with (sg_size g) at 2; apply PT_snoc end;
    [exact P | reflexivity | exact Hp].
Qed.

(* the initial table of a poll *)
Lemma Tab_init t : TIt t -> lastok (ss_segs t) -> Tab (ss_offset t) t.
Proof.
  intros H L. exists (ss_segs t), []. rewrite app_nil_r. split; [reflexivity|].
  split; [apply TIt_pre; exact H|]. split; [exact L|]. apply PT_nil. reflexivity.
Qed.

(* the observable walk: old segments are not judged *)
Lemma Tab_walk_old off0 m w t : ss_offset t = off0 -> Tab off0 t ->
  c18_walk off0 m w false (map fseg_of (ss_segs t)) = true.
Proof.
  intros E (old & new & S & Fo & _ & P).
  assert (N : new = []).
  { destruct new as [|g new]; [reflexivity|]. exfalso.
    assert (off0 < ss_offset t) by (eapply PT_pos; [exact P|discriminate]). lia. }
  subst new. rewrite S, app_nil_r.
  rewrite <- (app_nil_r (map fseg_of old)). rewrite walk_old by exact Fo. reflexivity.
Qed.

(* ================================================================== 3. the operations of the table *)
Lemma apply_sack_le : forall l bits now a l' a',
  apply_sack l bits now a = (l', a') -> Forall2 seg_le l l'.
Proof.
  induction l as [|s r IH]; intros bits now a l' a'; cbn [apply_sack].
  - intro H; injection H as <- _. constructor.
  - destruct bits as [|b bs]; [intro H; injection H as <- _; apply F2_refl, seg_le_refl|].
    destruct (negb (sg_delivered s) && b).
    + destruct (apply_sack r bs now _) as [r' a''] eqn:E. intro H; injection H as <- _.
      constructor; [|exact (IH _ _ _ _ _ E)]. repeat split.
    + destruct (apply_sack r bs now a) as [r' a''] eqn:E. intro H; injection H as <- _.
      constructor; [apply seg_le_refl | exact (IH _ _ _ _ _ E)].
Qed.

Lemma sack_phase_le t rest a1 su now ack sk rest2 a2 depth lse :
  sack_phase t rest a1 su now ack sk = (rest2, a2, depth, lse) -> Forall2 seg_le rest rest2.
Proof.
  unfold sack_phase. intro E2.
  destruct rest as [|s0 r0] eqn:Er; [injection E2 as <- _ _ _; constructor|].
  destruct sk as [k|]; [|injection E2 as <- _ _ _; apply F2_refl, seg_le_refl].
  destruct (seq_gt _ ack); [|injection E2 as <- _ _ _; apply F2_refl, seg_le_refl].
  destruct (0 <=? seq_sub (wadd16 ack 2) _).
  - destruct (apply_sack (skipn _ (s0 :: r0)) (sk_bits k) now _) as [tl' a'] eqn:Ea.
    injection E2 as <- _ _ _.
    rewrite <- (firstn_skipn (Z.to_nat (seq_sub (wadd16 ack 2) su)) (s0 :: r0)) at 1.
    apply Forall2_app; [apply F2_refl, seg_le_refl | exact (apply_sack_le _ _ _ _ _ _ Ea)].
  - destruct (apply_sack (s0 :: r0) _ now _) as [l' a'] eqn:Ea.
    injection E2 as <- _ _ _. exact (apply_sack_le _ _ _ _ _ _ Ea).
Qed.

Lemma skipn_app_length {A} (a b : list A) : skipn (length a) (a ++ b) = b.
Proof. induction a; cbn [length skipn app]; auto. Qed.
Lemma firstn_app_length {A} (a b : list A) : firstn (length a) (a ++ b) = a.
Proof. induction a; cbn [length firstn app]; [reflexivity|]. f_equal. auto. Qed.

Lemma remove_up_to_ack_trm t now ack sk t' r :
  remove_up_to_ack t now ack sk = (t', r) -> trm t t'.
Proof.
  unfold remove_up_to_ack.
  set (dc := if 0 <=? seq_sub ack (ss_snd_una t)
             then Z.to_nat (Z.min (seq_sub ack (ss_snd_una t) + 1) (len_z (ss_segs t))) else 0%nat).
  set (a1 := drain_acc (firstn dc (ss_segs t)) now {| ac_rtt := None; ac_maxp := 0; ac_cnt := 0; ac_bytes := 0 |}).
  set (rest := skipn dc (ss_segs t)).
  destruct (drain_acc_spec (firstn dc (ss_segs t)) now {| ac_rtt := None; ac_maxp := 0; ac_cnt := 0; ac_bytes := 0 |})
    as [_ Hb1]. fold a1 in Hb1. cbn [ac_bytes] in Hb1.
  destruct (sack_phase t rest a1 _ now ack sk) as [[[rest2 a2] depth] lse] eqn:E2.
  apply sack_phase_le in E2.
  destruct (strip_delivered rest2 0 0) as [[rest3 cnt3] bytes3] eqn:E3.
  destruct (strip_delivered_spec _ _ _ _ _ _ E3) as (dropped & Hd & _ & Hb3 & _).
  intro H; injection H as <- _. unfold trm; cbn [ss_segs ss_len_bytes ss_offset].
  exists (dc + length dropped)%nat. split; [|split; [reflexivity|]].
  - rewrite <- skipn_skipn. fold rest.
    pose proof (F2_skipn seg_le (length dropped) _ _ E2) as F. rewrite Hd, skipn_app_length in F. exact F.
  - rewrite sum_firstn_add. fold rest.
    pose proof (F2_sum _ _ (F2_firstn seg_le (length dropped) _ _ E2)) as F.
    rewrite Hd, firstn_app_length in F. lia.
Qed.

Lemma pipe_loop_eq : forall l t hr th now a l' a',
  pipe_loop l t hr th now a = (l', a') -> Forall2 seg_eq (map snd l) l'.
Proof.
  induction l as [|[off s] r IH]; intros t hr th now a l' a'; cbn [pipe_loop].
  - intro H; injection H as <- _. constructor.
  - destruct (seg_last_sent s).
    + destruct (sg_delivered s) eqn:Dl.
      * destruct (pipe_loop r t hr th now _) as [r' a''] eqn:E. intro H; injection H as <- _.
        cbn [map snd]. constructor; [apply seg_eq_refl | exact (IH _ _ _ _ _ _ _ E)].
      * destruct (pipe_loop r t hr th now _) as [r' a''] eqn:E. intro H; injection H as <- _.
        cbn [map snd]. constructor; [repeat split; cbn [sg_delivered]; congruence | exact (IH _ _ _ _ _ _ _ E)].
    + destruct (pipe_loop r t hr th now a) as [r' a''] eqn:E. intro H; injection H as <- _.
      cbn [map snd]. constructor; [apply seg_eq_refl | exact (IH _ _ _ _ _ _ _ E)].
Qed.

Lemma F2_rev {A} (R : A -> A -> Prop) l l' : Forall2 R l l' -> Forall2 R (rev l) (rev l').
Proof.
  intro F. induction F; cbn [rev]; [constructor|].
  apply Forall2_app; [assumption|]. constructor; [assumption|constructor].
Qed.

Lemma calc_pipe_tfl t hr hd rtt now t' p rc :
  calc_pipe t hr hd rtt now = Some (t', p, rc) -> tfl seg_eq t t'.
Proof.
  unfold calc_pipe. destruct (_ <? _); [discriminate|].
  destruct (pipe_loop _ t hr _ now _) as [upd a] eqn:E. intro H; injection H as <- _ _.
  apply pipe_loop_eq in E. rewrite map_rev, enum_from_snd in E. apply F2_rev in E.
  rewrite rev_involutive in E.
  unfold tfl, Segments.set_segs; cbn [ss_segs ss_offset ss_len_bytes]. split; [|split; reflexivity].
  match goal with |- Forall2 _ _ (_ ++ skipn ?n _) => rewrite <- (firstn_skipn n (ss_segs t)) at 1 end.
  apply Forall2_app; [exact E | apply F2_refl, seg_eq_refl].
Qed.

Lemma update_nth_eq (f : seg -> seg) : (forall s, seg_eq s (f s)) ->
  forall l n, Forall2 seg_eq l (update_nth l n f).
Proof.
  intros Hf. induction l as [|x xs IH]; intros [|n]; cbn [update_nth]; try constructor;
    auto using seg_eq_refl, (F2_refl seg_eq seg_eq_refl).
Qed.

Lemma on_sent_tfl t idx now : tfl seg_eq t (on_sent t idx now).
Proof.
  unfold tfl, on_sent, Segments.set_segs; cbn [ss_segs ss_offset ss_len_bytes].
  split; [|split; reflexivity]. apply update_nth_eq. intro s. repeat split.
Qed.

Lemma last_and_init_app' {A} (l init : list A) x : last_and_init l = Some (init, x) -> l = init ++ [x].
Proof.
  unfold last_and_init. destruct (rev l) as [|y r] eqn:E; [discriminate|].
  intro H; injection H as <- <-. rewrite <- (rev_involutive l), E. reflexivity.
Qed.

Lemma pop_mtu_probe_spec t q t' b :
  pop_mtu_probe t q = (t', b) -> (b = true /\ tpop t t') \/ (b = false /\ t' = t).
Proof.
  unfold pop_mtu_probe. destruct (last_and_init (ss_segs t)) as [[init s]|] eqn:E.
  - destruct (_ && sg_probe s && negb (sg_delivered s)) eqn:C.
    + intro H; injection H as <- <-. left. split; [reflexivity|].
      exists s. unfold Segments.set_segs; cbn [ss_segs ss_offset ss_len_bytes].
      split; [apply last_and_init_app'; exact E|]. split; [|split; reflexivity].
      unfold upr. apply andb_prop in C. destruct C as [C1 C2]. apply andb_prop in C1. destruct C1 as [_ C1].
      rewrite C1, C2. reflexivity.
    + intro H; injection H as <- <-. right. auto.
  - intro H; injection H as <- <-. right. auto.
Qed.

Lemma pop_expired_spec t to mr t' pe :
  pop_expired_mtu_probe t to mr = (t', pe) ->
  match pe with
  | PeExpired _ _ => tpop t t'
  | PeNotExpired => t' = t /\ ~ lastok (ss_segs t)
  | PeEmpty => t' = t /\ lastok (ss_segs t)
  end.
Proof.
  unfold pop_expired_mtu_probe. destruct (last_and_init (ss_segs t)) as [[init s]|] eqn:E.
  - apply last_and_init_app' in E. destruct (sg_delivered s) eqn:D.
    + intro H; injection H as <- <-. split; [reflexivity|]. rewrite E. apply lastok_app_last.
      unfold upr. rewrite D. apply andb_false_r.
    + destruct (to && sg_probe s && _) eqn:C.
      * intro H; injection H as <- <-. exists s.
        unfold Segments.set_segs; cbn [ss_segs ss_offset ss_len_bytes]. split; [exact E|].
        split; [|split; reflexivity]. unfold upr. rewrite D.
        apply andb_prop in C. destruct C as [C _]. apply andb_prop in C. destruct C as [_ C]. rewrite C. reflexivity.
      * destruct (sg_probe s) eqn:P; intro H; injection H as <- <-; (split; [reflexivity|]); rewrite E.
        -- intro L. apply lastok_app_last in L. unfold upr in L. rewrite P, D in L. discriminate.
        -- apply lastok_app_last. unfold upr. rewrite P. reflexivity.
  - intro H; injection H as <- <-. split; [reflexivity|]. unfold lastok, last_and_init in *.
    destruct (rev (ss_segs t)); [exact I|discriminate].
Qed.

Section RecAck.
Context {CC : Type} (cci : cc_iface CC).
Lemma recovery_on_ack_tfl r h segs ls cc now rtt r' segs' cc' :
  recovery_on_ack cci r h segs ls cc now rtt = Some (r', segs', cc') -> tfl seg_eq segs segs'.
Proof.
  unfold recovery_on_ack. cbn [rv_phase rv_supports_sack rv_last_ack].
  assert (Rf : tfl seg_eq segs segs) by (apply tfl_refl, seg_eq_refl).
  destruct (rv_phase r).
  - destruct (seq_ge _ _); intro H; injection H as _ <- _; exact Rf.
  - destruct (ss_segs segs) eqn:Es; [intro H; injection H as _ <- _; exact Rf|].
    match goal with |- match ?c with _ => _ end = _ -> _ => destruct c as [[d la]|] end; [|discriminate].
    destruct (d <? _); [intro H; injection H as _ <- _; exact Rf|].
    destruct (calc_pipe _ _ _ _ _) as [[[sg pp] rc]|] eqn:Ec; [|discriminate].
    intro H; injection H as _ <- _. eapply calc_pipe_tfl; eauto.
  - destruct (seq_ge _ _); intro H; injection H as _ <- _; exact Rf.
Qed.
End RecAck.


Lemma tpop_offset_lt off0 t t' : tpop t t' -> Tab off0 t -> ss_offset t' < ss_offset t.
Proof.
  intros (g & S & U & O & _) (old & new & S0 & Fo & Lo & P).
  destruct (list_last_cases new) as [->|(ni & x & ->)].
  - exfalso. rewrite app_nil_r in S0. rewrite S0 in S. rewrite S in Lo.
    apply lastok_app_last in Lo. congruence.
  - rewrite S0, app_assoc in S. apply app_last_eq in S. destruct S as [S ->].
    destruct P as (_ & P & _). apply Forall_app in P. destruct P as [_ P]. inversion P; subst. lia.
Qed.

Lemma walk_prefix off m w l g prev :
  c18_walk off m w prev (map fseg_of (l ++ [g])) = true -> c18_walk off m w prev (map fseg_of l) = true.
Proof.
  revert prev. induction l as [|x l IH]; intros prev; cbn [app map c18_walk]; [reflexivity|].
  intro H. apply andb_prop in H. destruct H as [H1 H2]. rewrite H1. cbn [andb]. apply IH. exact H2.
Qed.

Lemma lastok_F2_eq l l' : Forall2 seg_eq l l' -> (lastok l <-> lastok l').
Proof.
  intros F. destruct (list_last_cases l) as [->|(i & x & ->)].
  - inversion F; subst. tauto.
  - apply F2_app_last_inv in F. destruct F as (i' & x' & -> & _ & ((_ & _ & P) & D)).
    rewrite !lastok_app_last. unfold upr. rewrite P, D. tauto.
Qed.

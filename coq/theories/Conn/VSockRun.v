(* M3: construction of a connection (UtpStreamStarter::new + StreamArgs), the application-side
   events, the op alphabet of the connection-level correspondence, and the CUBIC instance.
   Model only. *)
From Utp Require Import Base.Prelude Wire.SeqNr Wire.Header Rtt.Rtte Mtu.SegSizes Rx.Rx Tx.Ring
  Tx.Segments Conn.Recovery Conn.Msg Conn.VSockRec Conn.VSock.
From Utp Require Import Cubic.F64 Cubic.Cubic.

Section WithCC.
Context {CC : Type} (cci : cc_iface CC).
Notation vsock := (vsock CC).

Record vconfig := {
  vc_incoming : bool;
  vc_ipv4 : bool;
  vc_link_mtu : Z;
  vc_rx_buf : Z;
  vc_tx_init : Z;
  vc_tx_max : Z;
  vc_nagle : bool;
  vc_max_retx : Z;
  vc_inactivity : Z;
  vc_wait_last_ack : bool;
  vc_mtu_probe_max_retx : Z;
  vc_isn : Z;            (* incoming: next_seq_nr ; outgoing: remote_ack.ack_nr *)
  vc_remote_seq : Z;     (* incoming: remote_syn.seq_nr ; outgoing: remote_ack.seq_nr *)
  vc_remote_conn_id : Z; (* connection_id of the remote SYN / SYN-ACK *)
  vc_remote_wnd : Z;     (* outgoing: remote_ack.wnd_size *)
  vc_remote_ts : Z;      (* timestamp_microseconds of the remote SYN / SYN-ACK *)
  vc_syn_sent : Z;       (* outgoing: when the SYN was sent, ns *)
  vc_now0 : Z;           (* env.now() at creation, ns (outgoing: when the SYN-ACK arrived) *)
}.

(* UtpStreamStarter::new composed with StreamArgs::new_incoming / new_outgoing.
   `mk_cc now mss` is CongestionConfig::create. *)
Definition vsock_new (mk_cc : Z -> Z -> CC) (c : vconfig) : option vsock :=
  let ss := ss_new {| cfg_ipv4 := vc_ipv4 c; cfg_link_mtu := vc_link_mtu c; cfg_cooldown := 3 |} in
  let now := vc_now0 c in
  let remote_window := if vc_incoming c then 0 else vc_remote_wnd c in
  let rtt := if vc_incoming c then None else Some (sat_sub (vc_now0 c) (vc_syn_sent c)) in
  let rtteo := match rtt with Some r => sample rtte_default r | None => Some rtte_default end in
  match rtteo with
  | None => None
  | Some rtte0 =>
  let seq_nr := if vc_incoming c then vc_isn c else wadd16 (vc_isn c) 1 in
  let last_sent := if vc_incoming c then wsub16 (vc_isn c) 1 else vc_isn c in
  let last_consumed := if vc_incoming c then vc_remote_seq c else wsub16 (vc_remote_seq c) 1 in
  let state := if vc_incoming c then SynReceived else Established in
  Some
  {| v_state := state;
     v_t_retransmit := None;
     v_t_inactivity := if vc_incoming c then Some (now + vc_inactivity c) else None;
     v_t_ack_delay := None; v_t_recovery_pipe := None; v_t_syn_ack_resend := None;
     v_last_remote_timestamp := vc_remote_ts c;
     v_last_remote_window := remote_window;
     v_seq_nr := seq_nr; v_rto_retransmissions := 0; v_last_sent_seq_nr := last_sent;
     v_last_consumed := last_consumed; v_last_sent_ack_nr := last_consumed;
     v_last_sent_window := if vc_incoming c then 0 else vc_rx_buf c mod M32;
     v_cbu := 0;
     v_inbox := []; v_inbox_closed := false; v_inbox_waker := false;
     v_rx := rx_build (vc_rx_buf c) (SegSizes.mss ss);
     v_tx := tx_new (vc_tx_init c);
     v_segs := segments_new seq_nr;
     v_ss := ss;
     v_rtte := rtte0;
     v_cc := cc_set_remote_window cci (mk_cc now (SegSizes.mss ss)) remote_window;
     v_recovery := recovery_new;
     v_now := now; v_transport_pending := false; v_restart := false; v_unsegmented := 0;
     v_env_now := now; v_sends := []; v_emsg_limit := None; v_out := []; v_wakes := []; v_arm_in := None;
     v_opts := {| o_nagle := vc_nagle c; o_max_retx := vc_max_retx c; o_tx_max := vc_tx_max c;
                  o_inactivity := vc_inactivity c; o_wait_for_last_ack := vc_wait_last_ack c;
                  o_mtu_probe_max_retx := vc_mtu_probe_max_retx c;
                  o_tmp_buf_len := max_ss ss + 20 |};
     v_conn_id_send := if vc_incoming c then vc_remote_conn_id c
                       else wadd16 (vc_remote_conn_id c) 1;
     v_socket_created := 0 |}
  end.

(* ---- events of the connection-level correspondence ---- *)
Inductive vop :=
| VoSetNow (t : Z)
| VoSetLimit (m : option Z)
| VoPoll (script : list send_outcome)
| VoDeliver (m : msg)
| VoCloseInbox
| VoWrite (buf : list Z)
| VoFlush
| VoShutdown
| VoRead (n : Z)
| VoDropReader
| VoDropWriter.

Inductive vout :=
| VrNone
| VrPoll (r : poll_result) (pkts : list packet) (wakes : list vwake) (arm : option Z)
| VrWrite (r : write_result)
| VrUnit (r : unit_result)
| VrRead (r : read_result).

(* does the event wake the dispatcher task (its registered waker fires)? *)
Definition disp_woken_rx (w : list Rx.wake) : bool :=
  existsb (fun x => match x with WakeDispatcher => true | _ => false end) w.
Definition disp_woken_tx (w : list twake) : bool :=
  existsb (fun x => match x with TwDispatcher => true | _ => false end) w.
(* an application half waking itself / being woken is reported as-is *)
Definition self_woken_tx (w : list twake) : bool :=
  existsb (fun x => match x with TwSelf => true | _ => false end) w.

Record vobs := { vo_out : vout; vo_disp_woken : bool; vo_self_woken : bool; vo_state : vsock }.

Definition vstep (s : vsock) (o : vop) : vsock * vout * bool * bool :=
  match o with
  | VoSetNow t => (set_env_now s t, VrNone, false, false)
  | VoSetLimit m => (set_emsg_limit s m, VrNone, false, false)
  | VoPoll script =>
      let '(s', r) := poll cci (set_sends s script) in
      (s', VrPoll r (rev (v_out s')) (rev (v_wakes s')) (v_arm_in s'), false, false)
  | VoDeliver m =>
      (* the socket dispatcher holds the only sender; once it is gone nothing can be delivered *)
      if v_inbox_closed s then (s, VrNone, false, false)
      else (set_inbox_waker (set_inbox s (v_inbox s ++ [m])) false, VrNone, v_inbox_waker s, false)
  | VoCloseInbox =>
      (set_inbox_waker (set_inbox_closed s true) false, VrNone, v_inbox_waker s, false)
  | VoWrite buf =>
      if writer_dropped (v_tx s) then (s, VrNone, false, false)
      else let '(tx1, r, w) := poll_write (v_tx s) buf in
           (set_tx s tx1, VrWrite r, disp_woken_tx w, self_woken_tx w)
  | VoFlush =>
      if writer_dropped (v_tx s) then (s, VrNone, false, false)
      else let '(tx1, r, w) := poll_flush (v_tx s) in (set_tx s tx1, VrUnit r, disp_woken_tx w, false)
  | VoShutdown =>
      if writer_dropped (v_tx s) then (s, VrNone, false, false)
      else let '(tx1, r, w) := poll_shutdown (v_tx s) in (set_tx s tx1, VrUnit r, disp_woken_tx w, false)
  | VoRead n =>
      if reader_dropped (v_rx s) then (s, VrNone, false, false)
      else let '(rx1, r, w) := rx_read (v_rx s) n in (set_rx s rx1, VrRead r, disp_woken_rx w, false)
  | VoDropReader =>
      if reader_dropped (v_rx s) then (s, VrNone, false, false)
      else let '(rx1, w) := rx_drop_reader (v_rx s) in (set_rx s rx1, VrNone, disp_woken_rx w, false)
  | VoDropWriter =>
      let '(tx1, w) := drop_writer (v_tx s) in (set_tx s tx1, VrNone, disp_woken_tx w, false)
  end.

Definition poll_finished (o : vout) : bool :=
  match o with
  | VrPoll PollPending _ _ _ => false
  | VrPoll _ _ _ _ => true
  | _ => false
  end.

(* after Ready (or a panic) the future is gone: the trace stops there *)
Fixpoint vtrace (s : vsock) (ops : list vop) : list vobs :=
  match ops with
  | [] => []
  | o :: rest =>
      let '(s', out, dw, sw) := vstep s o in
      {| vo_out := out; vo_disp_woken := dw; vo_self_woken := sw; vo_state := s' |}
        :: (if poll_finished out then [] else vtrace s' rest)
  end.

End WithCC.

(* ---- the CUBIC instance of the congestion-controller interface ---- *)
Section CubicInstance.
Variable cbrt : f64 -> f64.
Variable powf3 : f64 -> f64.

Definition cubic_iface : cc_iface cubic :=
  {| cc_window := cubic_window;
     cc_sshthresh := cubic_sshthresh;
     cc_set_mss := cubic_set_mss;
     cc_smss := cubic_smss;
     cc_on_recovered := cubic_on_recovered;
     cc_on_ack := cubic_on_ack powf3;
     cc_on_rto := fun s _ => cubic_on_retransmission_timeout s;
     cc_on_enter_recovery := cubic_on_enter_recovery cbrt;
     cc_set_remote_window := cubic_set_remote_window |}.

Definition vsock_new_cubic (c : vconfig) : option (vsock cubic) :=
  vsock_new cubic_iface cubic_new c.

Definition vtrace_cubic (s : vsock cubic) (ops : list vop) : list (vobs (CC := cubic)) :=
  vtrace cubic_iface s ops.
End CubicInstance.

(* C05, window clause at step level (polls that end open, with the retransmission timer not expired at
   the start): the payload of the ST_DATA datagrams of a poll fits into min(cwnd, rwnd) minus the
   undelivered payload before the first segment sent - across the restarts of the poll loop. *)
From Utp Require Import Base.Prelude Wire.SeqNr Wire.SeqNr_Proofs Wire.Header Rtt.Rtte Rtt.Rtte_Proofs Mtu.SegSizes
  Rx.Rx Tx.Ring Tx.Segments Tx.Segments_Proofs Conn.Recovery Conn.Msg Conn.VSockRec Conn.VSock Conn.VSockRun
  Conn.VObs Conn.VSock_Lemmas Conn.VSock_LemmasTx Conn.VSock_LemmasIn Conn.VSock_LemmasStep Conn.VSock_LemmasReach
  Conn.VSock_LemmasTimers Conn.VSock_LemmasPipe Conn.C17_StepLemmas Conn.C05_Pred Conn.C05_Proofs
  Conn.C05_Flight Conn.C05_StepLemmas Conn.C05_Segs Conn.C05_Walk Conn.C05_StepZw.

(* last_sent_seq_nr after a run of send_data calls *)
Fixpoint ls_after (ls : Z) (sent : list for_sending) : Z :=
  match sent with
  | [] => ls
  | f :: r => ls_after (if seq_gt (fs_seq f) ls then fs_seq f else ls) r
  end.

Definition seq_at (u : Z) (i : nat) : Z := wadd16 u (Z.of_nat i mod M16).

Lemma seq_at_range u i : 0 <= seq_at u i < M16.
Proof. apply wadd16_range. Qed.

Lemma seq_sub_seq_at u i j :
  0 <= u < M16 -> (i < 1024)%nat -> (j < 1024)%nat -> seq_sub (seq_at u i) (seq_at u j) = Z.of_nat i - Z.of_nat j.
Proof.
  intros Hu Hi Hj. apply seq_sub_mod; try apply seq_at_range; [lia|].
  unfold seq_at, wadd16, M16 in *. lia.
Qed.

Lemma seq_sub_seq_at_u u i : 0 <= u < M16 -> (i <= 1024)%nat -> seq_sub (seq_at u i) u = Z.of_nat i.
Proof.
  intros Hu Hi. apply seq_sub_mod; try apply seq_at_range; auto; [lia|].
  unfold seq_at, wadd16, M16 in *. lia.
Qed.

Lemma seq_at_succ u i : wadd16 (seq_at u i) 1 = seq_at u (S i).
Proof. unfold seq_at, wadd16, M16. lia. Qed.

Lemma last_default {A} : forall (l : list A) x d d', last (x :: l) d = last (x :: l) d'.
Proof. induction l as [|y ys IH]; intros x d d'; [reflexivity|]. cbn [last]. apply (IH y d d'). Qed.

Lemma last_cons {A} (a d : A) l : last (a :: l) d = last l a.
Proof. destruct l as [|x xs]; [reflexivity|]. cbn [last]. apply last_default. Qed.

(* with increasing indices below the tolerance, last_sent_seq_nr ends at the last one sent *)
Lemma ls_after_from u : forall sent f0,
  0 <= u < M16 ->
  Forall (fun f => fs_seq f = seq_at u (fs_idx f) /\ (fs_idx f < 1024)%nat) (f0 :: sent) ->
  sinc (map fs_idx (f0 :: sent)) ->
  ls_after (fs_seq f0) sent = fs_seq (last sent f0).
Proof.
  induction sent as [|f1 r IH]; intros f0 Hu Hall Hs; [reflexivity|].
  cbn [ls_after]. inversion Hall as [|? ? [E0 B0] Hall']; subst. inversion Hall' as [|? ? [E1 B1] _]; subst.
  cbn [map] in Hs. apply sinc_cons in Hs. destruct Hs as [Hlt Hs].
  assert (G : seq_gt (fs_seq f1) (fs_seq f0) = true).
  { unfold seq_gt. rewrite E0, E1, seq_sub_seq_at by assumption. apply Z.gtb_lt. lia. }
  rewrite G, last_cons. apply IH; assumption.
Qed.

Lemma ls_after_last u sent ls f0 :
  0 <= u < M16 ->
  Forall (fun f => fs_seq f = seq_at u (fs_idx f) /\ (fs_idx f < 1024)%nat) (f0 :: sent) ->
  sinc (map fs_idx (f0 :: sent)) ->
  seq_gt (fs_seq f0) ls = true ->
  ls_after ls (f0 :: sent) = fs_seq (last sent f0).
Proof. intros Hu Hall Hs Hgt. cbn [ls_after]. rewrite Hgt. apply (ls_after_from u); assumption. Qed.

Section WithCC.
Context {CC : Type} (cci : cc_iface CC).
Notation vsock := (vsock CC).

(* ------------------------------------------------------------------ the new-data loop, in full *)
Lemma new_data_loop_full : forall items (s : vsock) h rem s1 tl,
  0 <= rem -> new_data_loop items s h rem = SOk s1 tl ->
  exists sent rest, items = sent ++ rest /\ emitted s s1 h sent /\ fs_bytes sent <= rem /\
    v_last_sent_seq_nr s1 = ls_after (v_last_sent_seq_nr s) sent /\
    (tl = None \/ exists f r', rest = f :: r' /\ tl = Some (fs_seq f, sg_size (fs_seg f))).
Proof.
  induction items as [|f rest IH]; intros s h rem s1 tl Hrem; cbn [new_data_loop].
  - intro H; injection H as <- <-. exists [], []. split; [reflexivity|].
    split; [apply emitted_nil; unfold sd_unchanged; repeat split; apply sd_frame_refl|].
    cbn [fs_bytes ls_after]. split; [lia|]. split; [reflexivity|left; reflexivity].
  - destruct (Z.ltb_spec rem (sg_size (fs_seg f))) as [Hlt|Hge].
    { intro H; injection H as <- <-. exists [], (f :: rest). split; [reflexivity|].
      split; [apply emitted_nil; unfold sd_unchanged; repeat split; apply sd_frame_refl|].
      cbn [fs_bytes ls_after]. split; [lia|]. split; [reflexivity|left; reflexivity]. }
    pose proof (send_data_spec s h f) as Hsd.
    destruct (send_data s h f) as [s2 [| |]|s2 e|] eqn:Esd; try discriminate.
    + destruct Hsd as (Hf & Ho & Hs & Hl & Ht & Htp & Hne & Hoff & Hb).
      intro H. destruct (IH s2 h (rem - sg_size (fs_seg f)) s1 tl ltac:(lia) H)
        as (sent & rest' & -> & Hem & Hb' & Hls & Htl).
      exists (f :: sent), rest'. split; [reflexivity|].
      split; [eapply emitted_cons; eauto; unfold sent_ok; auto|].
      split; [cbn [fs_bytes]; lia|]. split; [cbn [ls_after]; rewrite Hls, Hl; reflexivity|exact Htl].
    + intro H; injection H as <- <-. exists [], (f :: rest). split; [reflexivity|].
      split; [apply emitted_nil; tauto|]. cbn [fs_bytes ls_after]. split; [lia|].
      split; [destruct Hsd as ((_ & _ & _ & Hl & _) & _); exact Hl|left; reflexivity].
    + intro H; injection H as <- <-. exists [], (f :: rest). split; [reflexivity|].
      split; [apply emitted_nil; tauto|]. cbn [fs_bytes ls_after]. split; [lia|].
      split; [destruct Hsd as ((_ & _ & _ & Hl & _) & _); exact Hl|right; eauto].
Qed.

(* ------------------------------------------------------------------ the quantities of the clause *)
Definition una (s : vsock) : Z := ss_snd_una (v_segs s).
Definition sgs (s : vsock) : list seg := ss_segs (v_segs s).
Definition Wn (s : vsock) : Z := Z.min (cc_window cci (v_cc s)) (v_last_remote_window s).
Definition dby (s : vsock) : Z := data_bytes (dout s).
Definition seqs_of (s : vsock) : list Z := map (fun p => ch_seq (p_hdr p)) (rev (dout s)).

Lemma dout_app_data (s s1 : vsock) h sent :
  v_out s1 = rev (map (data_pkt s h) sent) ++ v_out s ->
  dout s1 = rev (map (data_pkt s h) sent) ++ dout s.
Proof.
  unfold dout. intros ->. rewrite filter_app. f_equal.
  induction sent as [|f r IH]; [reflexivity|]. cbn [map rev]. rewrite filter_app, IH. reflexivity.
Qed.

Lemma seqs_of_app (s s1 : vsock) h sent :
  v_out s1 = rev (map (data_pkt s h) sent) ++ v_out s ->
  seqs_of s1 = seqs_of s ++ map fs_seq sent.
Proof.
  intro H. unfold seqs_of. rewrite (dout_app_data _ _ _ _ H), rev_app_distr, rev_involutive, map_app.
  f_equal. rewrite map_map. reflexivity.
Qed.

Lemma data_bytes_dout (l : list packet) : data_bytes (filter is_data l) = data_bytes l.
Proof.
  induction l as [|p r IH]; [reflexivity|]. cbn [filter data_bytes]. unfold is_data at 1.
  destruct (ch_type (p_hdr p)) eqn:E; cbn [data_bytes]; rewrite ?E, IH; reflexivity.
Qed.

Lemma dby_app (s s1 : vsock) h sent :
  v_out s1 = rev (map (data_pkt s h) sent) ++ v_out s ->
  Forall (sent_ok s) sent -> Forall (fun f => 0 <= sg_size (fs_seg f)) sent ->
  dby s1 = dby s + fs_bytes sent.
Proof.
  intros H Hok Hsz. unfold dby. rewrite (dout_app_data _ _ _ _ H), data_bytes_app.
  rewrite (data_bytes_sent s h sent Hok Hsz). lia.
Qed.

Lemma item_facts t st f :
  In f (iter_for_sending t st) ->
  fs_seq f = seq_at (ss_snd_una t) (fs_idx f) /\ und_at (ss_segs t) (fs_idx f).
Proof.
  intro H. destruct (iter_item_ok _ _ _ H) as (Hn & _ & Hs & _). split; [exact Hs|].
  rewrite nth_error_map in Hn. destruct (nth_error (ss_segs t) (fs_idx f)) as [g|] eqn:Eg; [|discriminate].
  cbn [option_map] in Hn. unfold dview in Hn. injection Hn as _ _ Hd. exists g. auto.
Qed.

Lemma dshape_parts t t' : dshape t' = dshape t ->
  ss_snd_una t' = ss_snd_una t /\ map dview (ss_segs t') = map dview (ss_segs t) /\
  length (ss_segs t') = length (ss_segs t).
Proof.
  unfold dshape. intro H; injection H as H1 H2 H3. split; [exact H1|]. split; [exact H3|].
  rewrite <- (map_length dview (ss_segs t')), H3, map_length. reflexivity.
Qed.

Lemma seqs_nil_dby (s : vsock) : seqs_of s = [] -> dby s = 0.
Proof.
  unfold seqs_of, dby. intro H. apply map_eq_nil in H.
  assert (E : dout s = []) by (rewrite <- (rev_involutive (dout s)), H; reflexivity).
  rewrite E. reflexivity.
Qed.

(* ---- what the incoming path does to last_sent_seq_nr ---- *)
Lemma recv_loop_ls : forall fuel (s : vsock) acc,
  stk (fun s s1 => v_last_sent_seq_nr s1 = v_last_sent_seq_nr s \/ SC s1) s (recv_loop cci fuel s acc).
Proof.
  assert (Hbase : forall (s : vsock) (acc : on_ack_result),
    stk (fun s s1 => v_last_sent_seq_nr s1 = v_last_sent_seq_nr s \/ SC s1) s
      (if v_inbox_closed s
       then sbind (maybe_send_fin (transition_to_fin_wait_1 s))
                  (fun s2 _ => SOk (set_state s2 Closed) (acc, true))
       else SOk (set_inbox_waker s true) (acc, false))).
  { intros s acc. destruct (v_inbox_closed s); [|cbn [stk]; left; reflexivity].
    destruct (maybe_send_fin _) as [s2 b|s2 e|]; cbn [sbind stk]; auto. right. reflexivity. }
  induction fuel as [|m0 fuel IH]; intros s acc; cbn [recv_loop];
    destruct (v_inbox s) as [|m rest] eqn:Ei; try apply Hbase; try exact I.
  pose proof (process_incoming_message_MQ cci (set_inbox s rest) m) as HM.
  pose proof (process_incoming_message_G cci (set_inbox s rest) m) as HG.
  destruct (process_incoming_message cci (set_inbox s rest) m) as [s1 r|s1 e|]; cbn [sbind stk sGr] in *; auto.
  destruct HM as (_ & _ & _ & _ & M5). cbn [v_last_sent_seq_nr set_inbox] in M5.
  destruct (_ || _); [cbn [stk]; left; exact M5|].
  specialize (IH s1 (result_update acc r)).
  destruct (recv_loop cci fuel s1 (result_update acc r)) as [s2 x|s2 e|]; cbn [stk] in *; auto.
  destruct IH as [IH|IH]; [left; congruence|right; exact IH].
Qed.

Lemma pa_tail_ls (s1 : vsock) res :
  stk (fun s1 s' => (v_last_sent_seq_nr s' = v_last_sent_seq_nr s1 \/
                     v_last_sent_seq_nr s' = wsub16 (ss_snd_una (v_segs s')) 1) /\
                    v_state s' = v_state s1 /\ v_opts s' = v_opts s1) s1 (pa_tail s1 res).
Proof.
  destruct res as [r early]. rewrite pa_tail_eq.
  assert (H0 : v_last_sent_seq_nr (pa_reset r s1) = v_last_sent_seq_nr s1 /\
               v_segs (pa_reset r s1) = v_segs s1 /\ v_state (pa_reset r s1) = v_state s1 /\
               v_opts (pa_reset r s1) = v_opts s1).
  { unfold pa_reset. destruct (_ || _); [|auto].
    destruct (ss_segs _); [destruct (our_fin_if_unacked _)|]; unfold restart_remote_inactivity_timer; vsimpl_goal; auto. }
  destruct H0 as (L0 & S0 & T0 & O0).
  assert (H1 : stk (fun _ s3 => (v_last_sent_seq_nr s3 = v_last_sent_seq_nr s1 \/
                                 v_last_sent_seq_nr s3 = wsub16 (ss_snd_una (v_segs s3)) 1) /\
                                v_segs s3 = v_segs s1 /\ v_state s3 = v_state s1 /\ v_opts s3 = v_opts s1)
                 (pa_reset r s1) (pa_trunc r (pa_reset r s1))).
  { unfold pa_trunc. destruct (0 <? _); [|cbn [stk]; auto]. cbv zeta.
    set (s2 := pa_reset r s1) in *.
    assert (Ha : (v_last_sent_seq_nr (acked_counts_as_sent s2) = v_last_sent_seq_nr s1 \/
                  v_last_sent_seq_nr (acked_counts_as_sent s2) = wsub16 (ss_snd_una (v_segs (acked_counts_as_sent s2))) 1) /\
                 v_segs (acked_counts_as_sent s2) = v_segs s1 /\ v_state (acked_counts_as_sent s2) = v_state s1 /\
                 v_opts (acked_counts_as_sent s2) = v_opts s1).
    { unfold acked_counts_as_sent. destruct (seq_gt _ _ && seq_lt _ _); vsimpl_goal; auto. }
    revert Ha. generalize (acked_counts_as_sent s2). intros s2' Ha.
    destruct (truncate_front _ _) as [tx1 tr]. destruct tr; [|exact I].
    destruct (wake_writer tx1) as [tx2 w]. cbn [stk]. unfold add_wakes. vsimpl_goal. exact Ha. }
  destruct (pa_trunc r (pa_reset r s1)) as [s3 u3|s3 e|]; cbn [sbind stk] in *; auto.
  destruct H1 as (L3 & S3 & T3 & O3).
  unfold pa_pipe. destruct (rv_phase (v_recovery s3)); cbn [stk]; auto.
  destruct (calc_pipe _ _ _ _ _) as [[[segs' pipe] recalc]|] eqn:Ec; [|exact I].
  cbn [stk]. unfold set_recovering. vsimpl_goal.
  destruct (VSock_PollAux.calc_pipe_ev _ _ _ _ _ _ _ _ Ec) as (_ & Eu & _).
  rewrite Eu. auto.
Qed.

Lemma process_all_ls (s : vsock) :
  stk (fun s s' => v_last_sent_seq_nr s' = v_last_sent_seq_nr s \/
                   v_last_sent_seq_nr s' = wsub16 (ss_snd_una (v_segs s')) 1 \/ SC s')
      s (process_all_incoming_messages cci s).
Proof.
  rewrite process_all_eq.
  pose proof (recv_loop_ls (v_inbox s ++ [ {| m_hdr := outgoing_header s; m_payload := [] |} ]) s on_ack_result_default) as H1.
  destruct (recv_loop cci _ s on_ack_result_default) as [s1 res|s1 e|]; cbn [sbind stk] in *; auto.
  pose proof (pa_tail_ls s1 res) as H2.
  destruct (pa_tail s1 res) as [s' u'|s' e|]; cbn [stk] in *; auto.
  destruct H2 as (L & T & O). destruct H1 as [H1|H1].
  - destruct L as [L|L]; [left; congruence|right; left; exact L].
  - right; right. unfold SC in *. rewrite T, O. exact H1.
Qed.

Lemma pim_idle_segs (s s' : vsock) u0 :
  IBE s -> is_recovering (v_recovery s) = false ->
  process_all_incoming_messages cci s = SOk s' u0 -> v_segs s' = v_segs s.
Proof.
  intros [Hi Hc] Hr H. rewrite paim_eq in H. rewrite Hi in H. cbn [app recv_loop] in H.
  rewrite Hi, Hc in H. cbn [sbind fst] in H. unfold paim_rest in H.
  cbn [on_ack_result_default ar_acked_segments ar_newly_sacked_segments Z.ltb Z.compare orb sbind] in H.
  unfold is_recovering in Hr.
  destruct (rv_phase (v_recovery (set_inbox_waker s true))) eqn:Ep.
  - inversion H; subst. reflexivity.
  - inversion H; subst. reflexivity.
  - cbn [v_recovery set_inbox_waker] in Ep. rewrite Ep in Hr. discriminate.
Qed.

(* ---- segmentation appends ---- *)
Lemma segment_loop_app : forall fuel nagle ss segs rm rwr ss' segs' rm',
  segment_loop fuel nagle ss segs rm rwr = Some (ss', segs', rm') ->
  exists new, ss_segs segs' = ss_segs segs ++ new /\ ss_snd_una segs' = ss_snd_una segs.
Proof.
  induction fuel as [|b fuel IH]; intros nagle ss segs rm rwr ss' segs' rm'; cbn [segment_loop].
  - intro H; injection H as _ <- _. exists []. rewrite app_nil_r. auto.
  - destruct (_ && _); [|intro H; injection H as _ <- _; exists []; rewrite app_nil_r; auto].
    destruct (next_segment_size ss) as [[ss1 sz]|]; [|discriminate].
    destruct (nagle && _ && _); [intro H; injection H as _ <- _; exists []; rewrite app_nil_r; auto|].
    destruct (mss ss1 <? _).
    + intro H; injection H as _ <- _. eexists. split; reflexivity.
    + intro H. destruct (IH _ _ _ _ _ _ _ _ H) as (new & E1 & E2). rewrite E1, E2.
      unfold enqueue, Segments.set_segs. cbn [ss_segs ss_snd_una]. rewrite <- app_assoc. eexists. split; reflexivity.
Qed.

Section Ghost.
Variables (ls0 u : Z).
Hypothesis Hls0 : 0 <= ls0 < M16.
Hypothesis Hu : 0 <= u < M16.
Hypothesis Hd0 : 0 <= seq_sub (wadd16 ls0 1) u <= 1024.

Definition LS0 (s : vsock) : Prop :=
  v_last_sent_seq_nr s = ls0 \/ v_last_sent_seq_nr s = wsub16 (una s) 1.

(* wl: the clause about last_sent_seq_nr is wanted (before send_tx_queue) *)
Definition facts (wl : bool) (idxs : list nat) (s : vsock) : Prop :=
  sinc idxs /\ Forall (und_at (sgs s)) idxs /\
  match idxs with
  | [] => wl = true -> LS0 s
  | i1 :: _ =>
      (wl = true -> v_last_sent_seq_nr s = seq_at u (last idxs i1)) /\
      dby s <= FLp (sgs s) (S (last idxs i1)) - FLp (sgs s) i1 /\ FLp (sgs s) i1 + dby s <= Wn s
  end.

Definition XW (wl : bool) (k : nat) (s : vsock) : Prop :=
  exists idxs c, (c <= k)%nat /\ seqs_of s = map (seq_at (una s)) idxs /\
    Forall (fun i => (i < length (sgs s) + c)%nat) idxs /\
    (una s = u -> Forall (fun i => (i < 1024)%nat) idxs -> facts wl idxs s).

Lemma XW_mono wl k k' s : (k <= k')%nat -> XW wl k s -> XW wl k' s.
Proof. intros Hk (idxs & c & Hc & H). exists idxs, c. split; [lia|exact H]. Qed.

Lemma facts_weaken idxs s : facts true idxs s -> facts false idxs s.
Proof.
  intros (A & B0 & C0). split; [exact A|]. split; [exact B0|].
  destruct idxs; [discriminate|]. destruct C0 as (_ & C1). split; [discriminate|exact C1].
Qed.

Lemma XW_weaken k s : XW true k s -> XW false k s.
Proof.
  intros (idxs & c & Hc & H1 & H2 & H3). exists idxs, c.
  split; [exact Hc|]. split; [exact H1|]. split; [exact H2|].
  intros E F. apply facts_weaken. auto.
Qed.

(* the fields XW reads, kept *)
Lemma XW_keep wl k (s s' : vsock) :
  dout s' = dout s -> v_segs s' = v_segs s -> v_cc s' = v_cc s ->
  v_last_remote_window s' = v_last_remote_window s ->
  (wl = true -> v_last_sent_seq_nr s' = v_last_sent_seq_nr s) -> XW wl k s -> XW wl k s'.
Proof.
  intros E1 E2 E3 E4 E5 (idxs & c & Hc & H1 & H2 & H3). exists idxs, c.
  unfold facts, LS0, seqs_of, dby, Wn, una, sgs in *. rewrite E1, E2, E3, E4.
  split; [exact Hc|]. split; [exact H1|]. split; [exact H2|].
  intros Eu Fi. specialize (H3 Eu Fi). destruct H3 as (A & B0 & C0). split; [exact A|]. split; [exact B0|].
  destruct idxs as [|i1 r].
  - intro W. rewrite (E5 W). auto.
  - destruct C0 as (C1 & C2). split; [intro W; rewrite (E5 W); auto|exact C2].
Qed.

Lemma SQ_XW wl k (s s' : vsock) : SQ s s' -> XW wl k s -> XW wl k s'.
Proof.
  intros (A1&A2&A3&A4&A5&A6&A7&A8&A9&A10&A11). apply XW_keep; auto.
Qed.

(* ------------------------------------------------------------------ one run of the new-data loop *)
Lemma new_loop_XW k (s s1 : vsock) h sent rest :
  sp s -> RECb s = false ->
  new_items s = sent ++ rest -> emitted s s1 h sent -> fs_bytes sent <= new_remaining cci s ->
  v_last_sent_seq_nr s1 = ls_after (v_last_sent_seq_nr s) sent ->
  XW true k s ->
  exists idxs1 c, (c <= k)%nat /\ seqs_of s1 = map (seq_at (una s1)) idxs1 /\
    Forall (fun i => (i < length (sgs s1) + c)%nat) idxs1 /\
    (una s1 = u -> Forall (fun i => (i < 1024)%nat) idxs1 ->
       facts true idxs1 s1 /\
       forall f r', rest = f :: r' -> Forall (fun i => (i < fs_idx f)%nat) idxs1).
Proof.
  intros Hsp Hrec Hit Hem Hbud Hls (idxs & c & Hc & H1 & H2 & H3).
  destruct Hem as (Hf & Ho & Hsg & Hok & _).
  assert (Hd : dshape (v_segs s1) = dshape (v_segs s)) by (rewrite Hsg; apply on_sent_all_dshape).
  destruct (dshape_parts _ _ Hd) as (Du & Dv & Dl).
  unfold sd_frame in Hf. destruct Hf as (F1 & F2 & F3 & F4 & F5 & F6 & F7 & F8 & _).
  assert (Hin : forall f, In f sent -> In f (new_items s)) by (intros f Hf'; rewrite Hit; apply in_or_app; left; exact Hf').
  assert (Hseq : forall f, In f sent -> fs_seq f = seq_at (una s) (fs_idx f) /\ und_at (sgs s) (fs_idx f)).
  { intros f Hf'. apply (item_facts (v_segs s) (Some (wadd16 (v_last_sent_seq_nr s) 1))). apply Hin. exact Hf'. }
  assert (Hpos : Forall (fun f => 1 <= sg_size (fs_seg f)) sent).
  { destruct Hsp as (_ & Hp & _). apply (new_items_sizes_pos s sent rest Hp Hit). }
  assert (Hnn : Forall (fun f => 0 <= sg_size (fs_seg f)) sent) by (eapply Forall_impl; [|exact Hpos]; intros; cbn in *; lia).
  assert (Hdby : dby s1 = dby s + fs_bytes sent) by (apply (dby_app s s1 h sent Ho Hok Hnn)).
  exists (idxs ++ map fs_idx sent), c. split; [exact Hc|].
  split.
  { rewrite (seqs_of_app s s1 h sent Ho), H1, map_app. unfold una. rewrite Du. f_equal.
    rewrite map_map. apply map_ext_in. intros f Hf'. apply (Hseq f Hf'). }
  split.
  { apply Forall_app. split.
    - unfold sgs. rewrite Dl. exact H2.
    - apply Forall_forall. intros i Hi. apply in_map_iff in Hi. destruct Hi as (f & <- & Hf').
      destruct (Hseq f Hf') as [_ Hu']. apply und_at_lt in Hu'. unfold sgs in *. rewrite Dl. lia. }
  intros Eu1 Fi1.
  assert (Eu : una s = u) by (unfold una in *; congruence).
  apply Forall_app in Fi1. destruct Fi1 as [Fi Fn].
  specialize (H3 Eu Fi). destruct H3 as (A & B0 & C0).
  assert (Hlnn : lnn (sgs s)).
  { destruct Hsp as (_ & Hp & _). unfold segs_pos in Hp. eapply Forall_impl; [|exact Hp]. intros; cbn in *; lia. }
  (* the offset of the iterator and the reach of the flight computation *)
  set (ls := v_last_sent_seq_nr s) in *.
  assert (Hlsr : 0 <= ls < M16 /\
                 exists o : nat, seq_sub (wadd16 ls 1) u = Z.of_nat o /\ (o <= 1024)%nat /\
                   match idxs with [] => True | i1 :: _ => o = S (last idxs i1) end /\
                   (forall a : nat, (o <= a)%nat -> (a < 1024)%nat -> seq_gt (seq_at u a) ls = true)).
  { destruct idxs as [|i1 r].
    - destruct (C0 eq_refl) as [E|E]; fold ls in E.
      + split; [rewrite E; exact Hls0|]. exists (Z.to_nat (seq_sub (wadd16 ls0 1) u)).
        rewrite E. split; [lia|]. split; [lia|]. split; [exact I|].
        intros a Ha1 Ha2. unfold seq_gt. apply Z.gtb_lt.
        pose proof (seq_sub_congr (wadd16 ls0 1) u (wadd16_range _ _) Hu) as Hc'.
        rewrite (seq_sub_mod (seq_at u a) ls0 (Z.of_nat a - seq_sub (wadd16 ls0 1) u + 1)); try apply seq_at_range; try lia.
        unfold seq_at, wadd16, M16 in *. lia.
      + rewrite Eu in E. split; [rewrite E; apply wsub16_range|]. exists 0%nat.
        assert (E1 : wadd16 ls 1 = u) by (rewrite E; unfold wadd16, wsub16, M16 in *; lia).
        rewrite E1, seq_sub_refl. split; [reflexivity|]. split; [lia|]. split; [exact I|].
        intros a _ Ha2. unfold seq_gt. apply Z.gtb_lt.
        rewrite (seq_sub_mod (seq_at u a) ls (Z.of_nat a + 1)); try apply seq_at_range; try lia.
        * rewrite E. apply wsub16_range.
        * rewrite E. unfold seq_at, wadd16, wsub16, M16 in *. lia.
    - destruct C0 as (C1 & C2 & C3). specialize (C1 eq_refl). fold ls in C1.
      assert (HiL : (last (i1 :: r) i1 < 1024)%nat).
      { pose proof (sinc_le_last (i1 :: r) i1 A) as Hle. rewrite Forall_forall in Fi.
        apply Fi. destruct r as [|x xs]; [left; reflexivity|].
        assert (Hne : i1 :: x :: xs <> []) by discriminate.
        destruct (exists_last Hne) as (l' & z & El). rewrite El. rewrite last_app_cons. cbn [last]. apply in_or_app. right. left. reflexivity. }
      split; [rewrite C1; apply seq_at_range|]. exists (S (last (i1 :: r) i1)).
      rewrite C1, seq_at_succ, seq_sub_seq_at_u by (auto; lia).
      split; [reflexivity|]. split; [lia|]. split; [reflexivity|].
      intros a Ha1 Ha2. unfold seq_gt. apply Z.gtb_lt. rewrite seq_sub_seq_at by (auto; lia). lia. }
  destruct Hlsr as (Hlsr & o & Ho1 & Ho2 & Ho3 & Hgt).
  assert (Eoff : iter_off (v_segs s) (Some (wadd16 ls 1)) = o).
  { unfold iter_off. fold (una s). rewrite Eu, Ho1. lia. }
  pose proof (seq_sub_succ_le ls u Hlsr Hu) as Hsl.
  set (take := Z.to_nat (Z.max (seq_sub ls u + 1) 0)).
  assert (Htake : (o <= take)%nat) by (unfold take; lia).
  assert (Hcf : calc_flight_size (v_segs s) ls = FLp (sgs s) take).
  { unfold calc_flight_size, FLp, sgs, take. fold (una s). rewrite Eu. reflexivity. }
  assert (Hrem : new_remaining cci s = sat_sub (Wn s) (FLp (sgs s) take)).
  { rewrite (new_remaining_not_recovering cci s Hrec). unfold window_budget, Wn. fold ls. rewrite Hcf. reflexivity. }
  (* the prefix of the iterator that went out *)
  unfold new_items in Hit. fold ls in Hit. rewrite iter_for_sending_eq, Eoff in Hit.
  destruct (iter_prefix (v_segs s) _ _ _ _ Hit) as (n & Hn & Hb & Hnil & Hlast & Hhd & Hsi & Hrest).
  fold (sgs s) in Hb, Hhd, Hrest, Hn. rewrite FLp_skipn in Hb.
  assert (Tr : forall m, FLp (sgs s1) m = FLp (sgs s) m) by (intro m; apply FLp_dview; exact Dv).
  assert (Tu : forall i, und_at (sgs s) i -> und_at (sgs s1) i) by (intros i Hi; eapply und_at_dview; [symmetry; exact Dv|exact Hi]).
  assert (TW : Wn s1 = Wn s) by (unfold Wn; rewrite F2, F3; reflexivity).
  destruct sent as [|f1 sent'].
  - (* nothing went out *)
    cbn [map] in *. rewrite app_nil_r. cbn [fs_bytes ls_after] in *.
    split.
    + split; [exact A|]. split; [eapply Forall_impl; [|exact B0]; exact Tu|].
      destruct idxs as [|i1 r].
      * intros _. unfold LS0. fold ls in Hls. rewrite Hls. unfold una. rewrite Du. fold (una s).
        destruct (C0 eq_refl) as [E|E]; [left; exact E|right; exact E].
      * destruct C0 as (C1 & C2 & C3). rewrite !Tr, TW, Hdby. fold ls in Hls. rewrite Hls.
        split; [intros _; apply C1; reflexivity|]. split; lia.
    + intros f r' Er. destruct (Hrest f r' Er) as [R1 _]. rewrite (Hnil eq_refl) in R1.
      destruct idxs as [|i1 r]; [constructor|]. subst o.
      eapply Forall_impl; [|apply (sinc_le_last (i1 :: r) i1 A)]. intros i Hi. cbn beta in Hi. lia.
  - (* f1 .. went out *)
    destruct (Hhd f1 sent' eq_refl) as [Ha1 Ha0].
    set (a := fs_idx f1) in *. set (fL := last sent' f1). set (b := fs_idx fL).
    assert (Hb1 : (b + 1 = o + n)%nat).
    { assert (Hne : f1 :: sent' <> []) by discriminate.
      destruct (exists_last Hne) as (pre & z & El). specialize (Hlast pre z El).
      assert (z = fL). { unfold fL. rewrite <- (last_cons f1 f1 sent'), El, last_app_cons. reflexivity. }
      subst z. exact Hlast. }
    rewrite FLp_skipn in Ha0. replace (o + (a - o))%nat with a in Ha0 by lia.
    assert (Fa : (a < 1024)%nat) by (inversion Fn; assumption).
    assert (Hall : Forall (fun f => fs_seq f = seq_at u (fs_idx f) /\ (fs_idx f < 1024)%nat) (f1 :: sent')).
    { apply Forall_forall. intros f Hf'. destruct (Hseq f Hf') as [E _]. rewrite Eu in E. split; [exact E|].
      rewrite Forall_forall in Fn. apply Fn. apply in_map. exact Hf'. }
    assert (Hg1 : seq_gt (fs_seq f1) ls = true).
    { destruct (Hseq f1 (or_introl eq_refl)) as [E _]. rewrite E, Eu. apply Hgt; assumption. }
    assert (Hls1 : v_last_sent_seq_nr s1 = seq_at u b).
    { rewrite Hls. fold ls. rewrite (ls_after_last u sent' ls f1 Hu Hall Hsi Hg1). fold fL.
      assert (HfL : In fL (f1 :: sent')).
      { unfold fL. destruct sent' as [|x xs]; [left; reflexivity|]. right.
        assert (Hne : x :: xs <> []) by discriminate. destruct (exists_last Hne) as (l' & z & El).
        rewrite El, last_app_cons. cbn [last]. apply in_or_app. right. left. reflexivity. }
      rewrite Forall_forall in Hall. apply (Hall fL HfL). }
    assert (HlastI : forall d, last (idxs ++ map fs_idx (f1 :: sent')) d = b).
    { intro d. cbn [map]. rewrite last_app_cons.
      rewrite (last_default' (map fs_idx sent') (fs_idx f1) d (fs_idx f1)).
      etransitivity; [exact (last_map fs_idx (f1 :: sent') f1)|]. rewrite last_cons. reflexivity. }
    assert (Hbytes1 : 1 <= fs_bytes (f1 :: sent')).
    { assert (G1 : 1 <= sg_size (fs_seg f1)) by (inversion Hpos; assumption).
      assert (G2 : Forall (fun f => 0 <= sg_size (fs_seg f)) sent') by (inversion Hnn; assumption).
      cbn [fs_bytes]. assert (0 <= fs_bytes sent'); [|lia].
      clear - G2. induction G2; cbn [fs_bytes]; lia. }
    rewrite Hrem in Hbud. unfold sat_sub in Hbud.
    assert (Hbud' : fs_bytes (f1 :: sent') <= Wn s - FLp (sgs s) take) by lia.
    assert (Hmono : FLp (sgs s) o <= FLp (sgs s) take) by (apply FLp_mono; assumption).
    replace (o + n)%nat with (S b) in Hb by lia.
    split.
    + split.
      { apply (sinc_app_intro idxs (map fs_idx (f1 :: sent')) 0%nat A Hsi).
        destruct idxs as [|i1 r]; [left; reflexivity|right]. cbn [map]. fold a. subst o.
        rewrite (last_default' r i1 0%nat i1). lia. }
      split.
      { apply Forall_app. split; [eapply Forall_impl; [|exact B0]; exact Tu|].
        apply Forall_forall. intros i Hi. apply in_map_iff in Hi. destruct Hi as (f & <- & Hf').
        apply Tu. apply (Hseq f Hf'). }
      destruct idxs as [|i1 r].
      * cbn [app map]. pose proof (HlastI (fs_idx f1)) as HL. cbn [app map] in HL. rewrite HL. fold a.
        rewrite !Tr, TW, Hdby.
        rewrite (seqs_nil_dby s) by (rewrite H1; reflexivity).
        split; [intros _; exact Hls1|]. split; lia.
      * cbn [app]. pose proof (HlastI i1) as HL. cbn [app] in HL. rewrite HL.
        destruct C0 as (C1 & C2 & C3). subst o.
        rewrite !Tr, TW, Hdby.
        assert (Hm2 : FLp (sgs s) (S (last (i1 :: r) i1)) <= FLp (sgs s) take) by exact Hmono.
        split; [intros _; exact Hls1|]. split; lia.
    + intros f r' Er. destruct (Hrest f r' Er) as [R1 _].
      assert (Hsall : sinc (idxs ++ map fs_idx (f1 :: sent'))).
      { apply (sinc_app_intro idxs (map fs_idx (f1 :: sent')) 0%nat A Hsi).
        destruct idxs as [|i1 r]; [left; reflexivity|right]. cbn [map]. fold a. subst o.
        rewrite (last_default' r i1 0%nat i1). lia. }
      eapply Forall_impl; [|apply (sinc_le_last _ 0%nat Hsall)]. intros i Hi. cbn beta in Hi.
      rewrite (HlastI 0%nat) in Hi. lia.
Qed.

(* ------------------------------------------------------------------ the whole new-data part *)
Definition WB (wl : bool) (k : nat) (s : vsock) : Prop := RECb s = true \/ XW wl k s.

Lemma new_branch_XW k (s : vsock) h :
  sp s -> RECb s = false -> XW true k s ->
  stk (fun s s' => (v_restart s' = v_restart s /\ XW true k s') \/ (v_restart s' = true /\ XW true (S k) s'))
      s (new_branch cci s h).
Proof.
  intros Hsp Hrec HX. unfold new_branch.
  destruct (new_data_loop (new_items s) s h (new_remaining cci s)) as [s1 tl|s1 e|] eqn:El; cbn [sbind stk]; auto.
  destruct (new_data_loop_full _ _ _ _ _ _ (new_remaining_nonneg cci s) El) as (sent & rest & Hit & Hem & Hb & Hls & Htl).
  destruct (new_loop_XW k s s1 h sent rest Hsp Hrec Hit Hem Hb Hls HX) as (idxs1 & c & Hc & G1 & G2 & G3).
  assert (Hr1 : v_restart s1 = v_restart s).
  { destruct Hem as (Hf & _). unfold sd_frame in Hf. destruct Hf as (_&_&_&_&_&_&_&_&_&_&F11&_). exact F11. }
  unfold new_after. destruct Htl as [->|(f & r' & Er & ->)].
  - cbn [stk]. left. split; [exact Hr1|]. exists idxs1, c.
    split; [exact Hc|]. split; [exact G1|]. split; [exact G2|]. intros E F. apply (G3 E F).
  - destruct (pop_mtu_probe (v_segs s1) (fs_seq f)) as [segs' popped] eqn:Ep. destruct popped; cbn [stk]; [|exact I].
    right. split; [reflexivity|].
    (* the shape of the table after the pop *)
    unfold pop_mtu_probe in Ep. destruct (last_and_init (ss_segs (v_segs s1))) as [[init g]|] eqn:Eli; [|discriminate].
    destruct (_ && _); [|discriminate]. injection Ep as <-.
    apply Segments_ProofsOut.last_and_init_app in Eli.
    assert (Hf_lt : (fs_idx f < length (sgs s1))%nat).
    { assert (Hin : In f (new_items s)) by (rewrite Hit, Er; apply in_or_app; right; left; reflexivity).
      unfold new_items in Hin. destruct (item_facts _ _ _ Hin) as [_ Hu']. apply und_at_lt in Hu'.
      destruct Hem as (_ & _ & Hsg & _).
      assert (Hd : dshape (v_segs s1) = dshape (v_segs s)) by (rewrite Hsg; apply on_sent_all_dshape).
      destruct (dshape_parts _ _ Hd) as (_ & _ & Dl). unfold sgs. rewrite Dl. exact Hu'. }
    unfold sgs in Hf_lt. rewrite Eli, app_length in Hf_lt. cbn [length] in Hf_lt.
    exists idxs1, (S c). split; [lia|].
    split; [exact G1|].
    split.
    { unfold sgs, Segments.set_segs. vsimpl_goal. cbn [ss_segs].
      eapply Forall_impl; [|exact G2]. intros i Hi. cbn beta in Hi. unfold sgs in Hi. rewrite Eli, app_length in Hi.
      cbn [length] in Hi. lia. }
    intros Eu Fi. assert (Eu1 : una s1 = u) by exact Eu.
    destruct (G3 Eu1 Fi) as [(A & B0 & C0) Hlt]. specialize (Hlt f r' Er).
    assert (Hlt' : Forall (fun i => (i < length init)%nat) idxs1).
    { eapply Forall_impl; [|exact Hlt]. intros i Hi. cbn beta in Hi. lia. }
    assert (Tr : forall m, (m <= length init)%nat -> FLp (sgs s1) m = FLp init m).
    { intros m Hm. unfold sgs. rewrite Eli. apply FLp_app. exact Hm. }
    split; [exact A|]. split.
    { unfold sgs, Segments.set_segs. vsimpl_goal. cbn [ss_segs].
      rewrite Forall_forall in *. intros i Hi. apply (und_at_init init g i (Hlt' i Hi)).
      rewrite <- Eli. apply B0. exact Hi. }
    destruct idxs1 as [|i1 r].
    + intros _. unfold LS0, una, Segments.set_segs in *. vsimpl_goal. cbn [ss_snd_una]. apply C0. reflexivity.
    + destruct C0 as (C1 & C2 & C3).
      assert (HiL : (S (last (i1 :: r) i1) <= length init)%nat).
      { rewrite Forall_forall in Hlt'.
        assert (In (last (i1 :: r) i1) (i1 :: r)).
        { destruct r as [|x xs]; [left; reflexivity|]. assert (Hne : i1 :: x :: xs <> []) by discriminate.
          destruct (exists_last Hne) as (l' & z & El'). rewrite El', last_app_cons. cbn [last].
          apply in_or_app. right. left. reflexivity. }
        specialize (Hlt' _ H). lia. }
      assert (Hi1 : (i1 <= length init)%nat) by (inversion Hlt'; subst; lia).
      unfold dby, Wn, sgs, Segments.set_segs in *. vsimpl_goal. cbn [ss_segs].
      rewrite <- !Tr by assumption. unfold sgs. split; [exact C1|]. split; assumption.
Qed.

Lemma send_tx_queue_XW now r0 k (s : vsock) :
  B now s -> J r0 false now s -> sp s -> v_restart s = false -> WB true k s ->
  stk (fun s s' => (v_restart s' = false /\ WB true k s') \/ (v_restart s' = true /\ WB true (S k) s'))
      s (send_tx_queue cci s).
Proof.
  intros HB HJ Hsp Hr0 HW. rewrite send_tx_queue_eq.
  destruct (v_transport_pending s); [cbn [stk]; left; auto|].
  assert (Hne : timer_expired (v_t_retransmit s) (v_now s) = false).
  { destruct HB as (_ & Hn & _). rewrite Hn.
    destruct (timer_expired (v_t_retransmit s) now) eqn:E; [|reflexivity].
    assert (Ee : texp s now = true) by exact E. destruct (J_A_of_expired _ _ _ _ HJ Ee) as (_ & _ & X). discriminate. }
  unfold rto_branch. rewrite Hne. cbn [sbind]. unfold after_rto_k.
  destruct (0 <? v_rto_retransmissions s); [cbn [stk]; left; auto|].
  destruct (ss_segs (v_segs s)) as [|g0 gs] eqn:Esg; [cbn [stk]; left; auto|].
  fold (rec_new cci s (outgoing_header s)).
  destruct (RECb s) eqn:Erec.
  - pose proof (rec_new_keeps cci s (outgoing_header s)) as Hk.
    destruct (rec_new cci s (outgoing_header s)) as [s' u'|s' e|]; cbn [stk] in *; auto.
    destruct Hk as (_ & K2 & _).
    destruct (v_restart s') eqn:Er; [right|left]; (split; [reflexivity|left; apply K2; exact Erec]).
  - destruct HW as [HW|HX]; [congruence|].
    unfold rec_new.
    assert (Hrb : rec_branch s (outgoing_header s) = SOk s false).
    { unfold rec_branch. unfold RECb, is_recovering in Erec. destruct (rv_phase (v_recovery s)); [reflexivity|reflexivity|discriminate]. }
    rewrite Hrb. cbn [sbind].
    pose proof (new_branch_XW k s (outgoing_header s) Hsp Erec HX) as Hn.
    pose proof (rec_new_keeps cci s (outgoing_header s)) as Hk. unfold rec_new in Hk. rewrite Hrb in Hk. cbn [sbind] in Hk.
    destruct (new_branch cci s (outgoing_header s)) as [s' u'|s' e|]; cbn [stk] in *; auto.
    destruct Hn as [[R X]|[R X]]; [left; split; [congruence|right; exact X]|right; split; [exact R|right; exact X]].
Qed.

(* ------------------------------------------------------------------ the other functions *)
Lemma XW_app wl k (s s' : vsock) new :
  dout s' = dout s -> ss_segs (v_segs s') = ss_segs (v_segs s) ++ new ->
  ss_snd_una (v_segs s') = ss_snd_una (v_segs s) -> v_cc s' = v_cc s ->
  v_last_remote_window s' = v_last_remote_window s -> v_last_sent_seq_nr s' = v_last_sent_seq_nr s ->
  XW wl k s -> XW wl k s'.
Proof.
  intros E1 E2 E3 E4 E5 E6 (idxs & c & Hc & H1 & H2 & H3). exists idxs, c.
  split; [exact Hc|]. split; [unfold seqs_of, una in *; rewrite E1, E3; exact H1|].
  split.
  { unfold sgs in *. rewrite E2, app_length. eapply Forall_impl; [|exact H2]. intros; cbn in *; lia. }
  intros Eu Fi. assert (Eu' : una s = u) by (unfold una in *; congruence).
  destruct (H3 Eu' Fi) as (A & B0 & C0).
  split; [exact A|]. split; [unfold sgs in *; rewrite E2; eapply Forall_impl; [|exact B0]; intros i; apply und_at_app|].
  assert (Tr : forall m, und_at (sgs s) m -> FLp (sgs s') (S m) = FLp (sgs s) (S m) /\ FLp (sgs s') m = FLp (sgs s) m).
  { intros m Hm. apply und_at_lt in Hm. unfold sgs in *. rewrite E2. split; apply FLp_app; lia. }
  destruct idxs as [|i1 r].
  - intro W. unfold LS0, una in *. rewrite E6, E3. apply C0. exact W.
  - destruct C0 as (C1 & C2 & C3).
    assert (Hi1 : und_at (sgs s) i1) by (inversion B0; assumption).
    assert (HiL : und_at (sgs s) (last (i1 :: r) i1)).
    { rewrite Forall_forall in B0. apply B0. destruct r as [|x xs]; [left; reflexivity|].
      assert (Hne : i1 :: x :: xs <> []) by discriminate. destruct (exists_last Hne) as (l' & z & El').
      rewrite El', last_app_cons. cbn [last]. apply in_or_app. right. left. reflexivity. }
    destruct (Tr _ Hi1) as [_ T1]. destruct (Tr _ HiL) as [T2 _].
    unfold dby, Wn in *. rewrite E1, E4, E5, E6, T1, T2. auto.
Qed.

Lemma split_XW now r0 wl k (s : vsock) :
  B now s -> J r0 false now s -> WB wl k s ->
  stk (fun _ s' => WB wl k s') s (split_tx_queue_into_segments cci s).
Proof.
  intros HB HJ HW.
  assert (Hne : timer_expired (v_t_retransmit s) (v_now s) = false).
  { destruct HB as (_ & Hn & _). rewrite Hn.
    destruct (timer_expired (v_t_retransmit s) now) eqn:E; [|reflexivity].
    assert (Ee : texp s now = true) by exact E. destruct (J_A_of_expired _ _ _ _ HJ Ee) as (_ & _ & X). discriminate. }
  unfold split_tx_queue_into_segments. cbv zeta.
  destruct (_ =? 0).
  { cbn [stk]. destruct HW as [HW|HW]; [left; exact HW|right]. eapply XW_keep; [| | | | |exact HW]; reflexivity. }
  match goal with |- stk _ _ (if is_remote_fin_or_later (v_state ?x) then _ else _) => set (sx := x) in * end.
  assert (F : v_out sx = v_out s /\ v_segs sx = v_segs s /\ v_cc sx = v_cc s /\
              v_last_remote_window sx = v_last_remote_window s /\ v_last_sent_seq_nr sx = v_last_sent_seq_nr s /\
              v_recovery sx = v_recovery s /\ v_t_retransmit sx = v_t_retransmit s /\ v_now sx = v_now s).
  { subst sx. destruct (_ && _); [|repeat split]. destruct (grow _ _) as [tx1 g]. destruct g; [|repeat split].
    destruct (wake_writer tx1) as [tx2 w]. unfold add_wakes. repeat split. }
  clearbody sx. destruct F as (F1 & F2 & F3 & F4 & F5 & F6 & F7 & F8).
  assert (HWx : WB wl k sx).
  { destruct HW as [HW|HW]; [left; unfold RECb in *; rewrite F6; exact HW|right].
    eapply XW_keep; [| | | | |exact HW]; auto. apply dout_eq; exact F1. }
  destruct (is_remote_fin_or_later _); [exact HWx|].
  rewrite F7, F8, Hne. cbn [andb].   (* (repair of D6) the flag is `expired && not local-fin` *)
  destruct (pop_expired_mtu_probe (v_segs sx) false _) as [segs1 pe] eqn:Ep.
  assert (Hpe : segs1 = v_segs sx /\ pe <> PeExpired 0 0 /\ forall a b, pe <> PeExpired a b).
  { unfold pop_expired_mtu_probe in Ep. destruct (last_and_init _) as [[init g]|].
    - destruct (sg_delivered g); [injection Ep as <- <-; repeat split; discriminate|].
      cbn [andb] in Ep. destruct (sg_probe g); injection Ep as <- <-; repeat split; discriminate.
    - injection Ep as <- <-. repeat split; discriminate. }
  destruct Hpe as (-> & _ & Hpe).
  assert (Hcont : forall (tl : Z),
    stk (fun _ s' => WB wl k s') s
      (if tl <? ss_len_bytes (v_segs sx) then SErr sx (ErrBug BugInBufferComputations)
       else match segment_loop (ring (v_tx sx)) (o_nagle (v_opts sx)) (v_ss sx) (v_segs sx)
                    (tl - ss_len_bytes (v_segs sx)) (v_last_remote_window sx) with
            | Some (ss', segs', remaining) =>
                SOk (set_unsegmented (VSockRec.set_segs (set_ss sx ss') segs') remaining) tt
            | None => SPanic
            end)).
  { intros tl. destruct (tl <? ss_len_bytes (v_segs sx)); [exact I|].
    destruct (segment_loop _ _ _ _ _ _) as [[[ss' segs'] rem]|] eqn:El; [|exact I].
    cbn [stk]. destruct (segment_loop_app _ _ _ _ _ _ _ _ _ El) as (new & N1 & N2).
    destruct HWx as [HWx|HWx]; [left; exact HWx|right].
    eapply (XW_app wl k sx _ new); [| | | | | |exact HWx]; vsimpl_goal; auto. }
  destruct pe.
  - exfalso. eapply Hpe. reflexivity.
  - cbn [stk]. destruct HWx as [HWx|HWx]; [left; exact HWx|right].
    eapply XW_keep; [| | | | |exact HWx]; reflexivity.
  - apply Hcont.
Qed.

Lemma maybe_send_fin_XWf k (s : vsock) : WB false k s -> stk (fun _ s' => WB false k s') s (maybe_send_fin s).
Proof.
  intro HW. pose proof (maybe_send_fin_spec s) as H.
  destruct (maybe_send_fin s) as [s' [|]|s' e|]; cbn [stk]; auto.
  - destruct H as (seq & _ & _ & Hf & Ho & Hsg & _).
    unfold sd_frame in Hf. destruct Hf as (F1 & F2 & F3 & F4 & _).
    destruct HW as [HW|HW]; [left; unfold RECb in *; rewrite F4; exact HW|right].
    eapply XW_keep; [| | | | |exact HW]; auto; [|discriminate].
    eapply dout_cons_ctrl; [exact Ho|]. apply is_data_ctrl. cbn [hdr_with ch_type]. discriminate.
  - pose proof (sd_unchanged_SQ s s' H) as HS.
    destruct HW as [HW|HW]; [left|right; eapply SQ_XW; eauto].
    destruct HS as (_&_&_&_&_&_&_&_&A9&_). unfold RECb in *. rewrite A9. exact HW.
Qed.

Lemma SQ_WB wl k (s s' : vsock) : SQ s s' -> WB wl k s -> WB wl k s'.
Proof.
  intros HS [HW|HW]; [left|right; eapply SQ_XW; eauto].
  destruct HS as (_&_&_&_&_&_&_&_&A9&_). unfold RECb in *. rewrite A9. exact HW.
Qed.

Lemma WB_weaken k s : WB true k s -> WB false k s.
Proof. intros [H|H]; [left; exact H|right; apply XW_weaken; exact H]. Qed.

Lemma WB_mono wl k k' s : (k <= k')%nat -> WB wl k s -> WB wl k' s.
Proof. intros Hk [H|H]; [left; exact H|right; eapply XW_mono; eauto]. Qed.

Lemma XW_first wl k (s : vsock) :
  dout s = [] -> (wl = true -> LS0 s) -> XW wl k s.
Proof.
  intros Hd Hl. exists [], 0%nat. split; [lia|]. split; [unfold seqs_of; rewrite Hd; reflexivity|].
  split; [constructor|]. intros _ _. split; [exact I|]. split; [constructor|exact Hl].
Qed.

(* ------------------------------------------------------------------ the walk *)
Section WalkW.
Variables (now r0 : Z).
Hypothesis H0 : 0 <= r0.

Let G : vsock -> Prop := GG now r0 false.
Let PA (k : nat) (s : vsock) : Prop :=
  G s /\ (SC s \/ (dout s = [] /\ v_last_sent_seq_nr s = ls0) \/ (IBE s /\ WB true k s)).
Let PB (k : nat) (s : vsock) : Prop :=
  G s /\ (SC s \/ (WB true k s /\ (v_transport_pending s = true \/ IBE s))).
Let PC (k : nat) (s : vsock) : Prop := G s /\ (SC s \/ WB false k s).

Lemma stk_Gw {A} (s : vsock) (m : step A) : stRk KJ s m -> stRk spR s m -> G s -> stW G m.
Proof.
  intros HK HS HG. destruct m as [s' a|s' e|]; cbn [stRk stW] in *; auto. eapply GG_step; eauto.
Qed.

(* a function that leaves the sender and the inbox alone *)
Lemma PA_SQ k (s s' : vsock) : SQ s s' -> qb s s' ->
  (SC s \/ (dout s = [] /\ v_last_sent_seq_nr s = ls0) \/ (IBE s /\ WB true k s)) ->
  (SC s' \/ (dout s' = [] /\ v_last_sent_seq_nr s' = ls0) \/ (IBE s' /\ WB true k s')).
Proof.
  intros HS HQ [H|[[H1 H2]|[H1 H2]]]; [left; eapply qb_SC; eauto| |].
  - right; left. destruct HS as (A1&_&_&_&A5&_). split; congruence.
  - right; right. split; [eapply qb_IBE; eauto|eapply SQ_WB; eauto].
Qed.

Lemma PB_SQ wl k (s s' : vsock) : SQ s s' -> qb s s' ->
  (SC s \/ (WB wl k s /\ (v_transport_pending s = true \/ IBE s))) ->
  (SC s' \/ (WB wl k s' /\ (v_transport_pending s' = true \/ IBE s'))).
Proof.
  intros HS HQ [H|[H1 H2]]; [left; eapply qb_SC; eauto|right].
  split; [eapply SQ_WB; eauto|]. destruct H2 as [H2|H2]; [left; eapply qb_tp; eauto|right; eapply qb_IBE; eauto].
Qed.

Lemma PC_SQ k (s s' : vsock) : SQ s s' -> qb s s' -> (SC s \/ WB false k s) -> (SC s' \/ WB false k s').
Proof. intros HS HQ [H|H]; [left; eapply qb_SC; eauto|right; eapply SQ_WB; eauto]. Qed.

Lemma stW_PA_SQ k {A} (s : vsock) (m : step A) : stk SQ s m -> stR qb s m ->
  (SC s \/ (dout s = [] /\ v_last_sent_seq_nr s = ls0) \/ (IBE s /\ WB true k s)) ->
  stW (fun s' => SC s' \/ (dout s' = [] /\ v_last_sent_seq_nr s' = ls0) \/ (IBE s' /\ WB true k s')) m.
Proof. destruct m; cbn [stk stR stW]; auto. intros. eapply PA_SQ; eauto. Qed.

Lemma stW_PC_SQ k {A} (s : vsock) (m : step A) : stk SQ s m -> stR qb s m ->
  (SC s \/ WB false k s) -> stW (fun s' => SC s' \/ WB false k s') m.
Proof. destruct m; cbn [stk stR stW]; auto. intros. eapply PC_SQ; eauto. Qed.

Theorem poll_loop_xw : forall fuel (s s' : vsock),
  PA 0 s -> poll_loop cci fuel s = (s', PollPending) -> exists k', (k' < 0 + fuel)%nat /\ PC k' s'.
Proof.
  intros fuel s s' HA H.
  apply (poll_loop_W cci PA PA PB PB PB PC PC PC) with (s := s); try assumption.
  - (* poll_start *)
    intros k a [HG HW]. split.
    + eapply GG_step; [exact H0|apply poll_start_KJ|apply SQ_spR, poll_start_SQ|exact HG].
    + destruct HW as [HW|[HW|[HW1 HW2]]]; [left; exact HW|right; left; exact HW|right; right].
      split; [exact HW1|eapply SQ_WB; [apply poll_start_SQ|exact HW2]].
  - intros k a [HG HW] _. apply stW_and.
    + apply (stk_Gw a); [apply maybe_send_syn_ack_KJ|apply stk_SQ_spR, maybe_send_syn_ack_SQ|exact HG].
    + apply (stW_PA_SQ k a); [apply maybe_send_syn_ack_SQ|apply maybe_send_syn_ack_qb|exact HW].
  - intros k a [HG HW] _. apply stW_and.
    + apply (stk_Gw a); [apply send_ack_KJ|apply stk_SQ_spR, send_ack_SQ|exact HG].
    + apply (stW_PA_SQ k a); [apply send_ack_SQ|apply send_ack_qb|exact HW].
  - (* process_all_incoming_messages *)
    intros k a [HG HW] _. apply stW_and.
    + apply (stk_Gw a); [apply process_all_KJ|apply process_all_spR|exact HG].
    + pose proof (process_all_incoming_messages_pimr cci a) as P'.
      pose proof (process_all_incoming_messages_post cci a) as Post.
      pose proof (pim_idle cci a) as Idle.
      pose proof (pim_idle_segs a) as IdleS.
      pose proof (process_all_ls a) as Ls.
      pose proof (process_all_KQ cci now a) as KQ'.
      destruct (process_all_incoming_messages cci a) as [b x|b e|]; cbn [stW stR stk] in *; auto.
      specialize (Post b x eq_refl). specialize (Idle b x). specialize (IdleS b x).
      destruct HW as [HW|[[HW1 HW2]|[HW1 HW2]]]; [left; apply P'; exact HW| |].
      * destruct Post as [Po|Po]; [left; exact Po|].
        destruct Ls as [Ls|[Ls|Ls]]; [| |left; exact Ls].
        -- right. split; [|destruct Po as [Po|Po]; [left; exact Po|right; exact Po]].
           right. apply XW_first.
           ++ destruct HG as (HB & _). destruct (KQ' HB) as [_ (D1 & _)]. congruence.
           ++ intros _. left. congruence.
        -- right. split; [|destruct Po as [Po|Po]; [left; exact Po|right; exact Po]].
           right. apply XW_first.
           ++ destruct HG as (HB & _). destruct (KQ' HB) as [_ (D1 & _)]. congruence.
           ++ intros _. right. exact Ls.
      * destruct (Idle HW1 eq_refl) as (I1 & I2 & I3 & I4 & I5 & I6 & I7 & I8 & I9 & I10 & I11).
        right. split; [|right; split; assumption].
        destruct HW2 as [HW2|HW2]; [left; unfold RECb in *; rewrite I9; exact HW2|].
        destruct (RECb a) eqn:Er; [left; unfold RECb in *; rewrite I9; exact Er|right].
        eapply XW_keep; [apply dout_eq; exact I1|apply IdleS; auto|exact I4|exact I3|intros _; exact I6|exact HW2].
  - (* flush *)
    intros k a rx1 fb w [HG HW] _ _. split.
    + eapply GG_step; [exact H0|apply rx_flush_KJ|apply SQ_spR, add_wakes_rx_SQ|exact HG].
    + eapply PB_SQ; [apply add_wakes_rx_SQ|apply rx_flush_qb|exact HW].
  - (* split *)
    intros k a [HG HW] [T0 _]. apply stW_and.
    + apply (stk_Gw a); [apply split_KJ|apply split_spR|exact HG].
    + destruct HG as (HB & HJ & _).
      pose proof (split_XW now r0 true k a HB HJ) as HX'.
      pose proof (split_tx_queue_into_segments_qb cci a) as HQ.
      destruct (split_tx_queue_into_segments cci a) as [b x|b e|]; cbn [stW stR stk] in *; auto.
      destruct HW as [HW|[HW1 HW2]]; [left; eapply qb_SC; eauto|right].
      split; [apply HX'; exact HW1|]. destruct HW2 as [HW2|HW2]; [congruence|right; eapply qb_IBE; eauto].
  - (* send_tx_queue *)
    intros k a [HG HW] [T0 R0].
    pose proof (stk_Gw a _ (send_tx_queue_KJ cci a) (send_tx_queue_spR cci a) HG) as HG'.
    destruct HG as (HB & HJ & HP).
    pose proof (send_tx_queue_XW now r0 k a HB HJ HP R0) as HX'.
    pose proof (send_tx_queue_txf cci a) as X'.
    pose proof (send_tx_queue_frame cci a) as F'.
    destruct (send_tx_queue cci a) as [b x|b e|]; cbn [stW stR stk step_frame] in *; auto.
    destruct X' as (X1 & X2 & X3 & X4 & X5 & X6 & X7 & X8). destruct F' as (F1 & _).
    destruct HW as [HW|[HW1 HW2]].
    + assert (Sb : SC b) by (unfold SC in *; rewrite X7, F1; exact HW).
      split; [|split]; intros; (split; [exact HG'|]); left; exact Sb.
    + destruct HW2 as [HW2|HW2]; [congruence|].
      assert (Ib : IBE b) by (unfold IBE in *; rewrite X5, X6; exact HW2).
      destruct (HX' HW1) as [[R1 W1]|[R1 W1]].
      * split; [intro; congruence|]. split; intros; (split; [exact HG'|]); right.
        -- apply WB_weaken. exact W1.
        -- apply WB_weaken. exact W1.
      * split; [intros _; split; [exact HG'|]; right; right; split; [exact Ib|exact W1]|].
        split; [intro; congruence|]. intros [_ R]. congruence.
  - (* transition_to_fin_wait_1 *)
    intros k a [HG HW] _. split.
    + eapply GG_step; [exact H0|apply transition_to_fin_wait_1_KJ|apply SQ_spR, transition_to_fin_wait_1_SQ|exact HG].
    + eapply PC_SQ; [apply transition_to_fin_wait_1_SQ|apply transition_to_fin_wait_1_qb|exact HW].
  - (* maybe_send_fin *)
    intros k a [HG HW] _. apply stW_and.
    + apply (stk_Gw a); [apply maybe_send_fin_KJ|apply maybe_send_fin_spR|exact HG].
    + pose proof (maybe_send_fin_qb a) as HQ.
      pose proof (maybe_send_fin_XWf k a) as HX'.
      destruct (maybe_send_fin a) as [b x|b e|]; cbn [stW stR stk] in *; auto.
      destruct HW as [HW|HW]; [left; eapply qb_SC; eauto|right; apply HX'; exact HW].
  - (* maybe_send_ack *)
    intros k a [HG HW] _. apply stW_and.
    + apply (stk_Gw a); [apply maybe_send_ack_KJ|apply stk_SQ_spR, maybe_send_ack_SQ|exact HG].
    + apply (stW_PC_SQ k a); [apply maybe_send_ack_SQ|apply maybe_send_ack_qb|exact HW].
  - (* early returns *)
    intros k a [HG HW] _. split; [exact HG|].
    destruct HW as [HW|[[HW1 HW2]|[HW1 HW2]]]; [left; exact HW| |right; apply WB_weaken; exact HW2].
    right; right. apply XW_first; [exact HW1|discriminate].
  - intros k a [HG HW] _. split; [exact HG|].
    destruct HW as [HW|[HW1 HW2]]; [left; exact HW|right; apply WB_weaken; exact HW1].
  - intros k a [HG HW] _. split; [exact HG|exact HW].
  - intros k a [HG HW] _. split; [exact HG|exact HW].
  - (* the timer tail *)
    intros k a [HG HW] _ _. split.
    + eapply GG_step; [exact H0|apply poll_tail_KJ|apply SQ_spR, poll_tail_SQ|exact HG].
    + destruct (poll_tail_fields a) as (_ & _ & _ & St & _ & _ & _ & _ & _ & _ & _ & _ & _ & _ & Op & _).
      destruct HW as [HW|HW]; [left; unfold SC in *; rewrite St, Op; exact HW|right].
      eapply SQ_WB; [apply poll_tail_SQ|exact HW].
Qed.

End WalkW.

End Ghost.
(* what a Pending poll leaves behind when the retransmission timer had not expired at its start *)
Theorem poll_pending_xw (s : vsock) sc s' u :
  ti s -> sp s -> timer_expired (v_t_retransmit s) (v_env_now s) = false ->
  0 <= v_last_sent_seq_nr s < M16 -> 0 <= u < M16 ->
  0 <= seq_sub (wadd16 (v_last_sent_seq_nr s) 1) u <= 1024 ->
  poll cci (VSockRec.set_sends s sc) = (s', PollPending) ->
  sp s' /\ J (v_rto_retransmissions s) false (v_env_now s) s' /\
  (SC s' \/ exists k', (k' < 64)%nat /\ WB (v_last_sent_seq_nr s) u false k' s').
Proof.
  intros Hti Hsp He Hls Hu Hd H. rewrite poll_unfold in H. apply poll_loop_start in H.
  assert (Hr0 : 0 <= v_rto_retransmissions s) by apply Hti.
  apply (poll_loop_xw (v_last_sent_seq_nr s) u Hls Hu Hd (v_env_now s) (v_rto_retransmissions s) Hr0) in H.
  2:{ split; [split; [|split]|].
    + split; [exact Hti|]. split; reflexivity.
    + apply JA; [reflexivity|reflexivity|]. unfold texp. cbn. rewrite He. auto.
    + exact Hsp.
    + right; left. split; reflexivity. }
  destruct H as (k' & Hk & (HB & HJ & HP) & HW).
  - split; [exact HP|]. split; [exact HJ|].
    destruct HW as [HW|HW]; [left; exact HW|right]. exists k'. split; [lia|exact HW].
Qed.

End WithCC.

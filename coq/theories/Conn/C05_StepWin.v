(* C05, window clause at step level (polls that end open, with the retransmission timer not expired at
   the start): the payload of the ST_DATA datagrams of a poll fits into min(cwnd, rwnd) minus the
   undelivered payload before the first segment sent - across the restarts of the poll loop. *)
From Utp Require Import Base.Prelude Wire.SeqNr Wire.SeqNr_Proofs Wire.Header Rtt.Rtte Rtt.Rtte_Proofs Mtu.SegSizes
  Rx.Rx Tx.Ring Tx.Segments Tx.Segments_Proofs Conn.Recovery Conn.Msg Conn.VSockRec Conn.VSock Conn.VSockRun
  Conn.VObs Conn.VSock_Lemmas Conn.VSock_LemmasTx Conn.VSock_LemmasIn Conn.VSock_LemmasStep Conn.VSock_LemmasReach
  Conn.VSock_LemmasTimers Conn.VSock_LemmasPipe Conn.C17_StepLemmas Conn.C05_Pred Conn.C05_Proofs
  Conn.C05_Flight Conn.C05_StepLemmas Conn.C05_Segs Conn.C05_Walk Conn.C05_StepZw.

(* last_sent_seq_nr after a run of send_data calls *)
Fixpoint ls_after (ls : Z) (sent : list for_sending) : Z :=
  match sent with
  | [] => ls
  | f :: r => ls_after (if seq_gt (fs_seq f) ls then fs_seq f else ls) r
  end.

Definition seq_at (u : Z) (i : nat) : Z := wadd16 u (Z.of_nat i mod M16).

Lemma seq_at_range u i : 0 <= seq_at u i < M16.
Proof. apply wadd16_range. Qed.

Lemma seq_sub_seq_at u i j :
  0 <= u < M16 -> (i < 1024)%nat -> (j < 1024)%nat -> seq_sub (seq_at u i) (seq_at u j) = Z.of_nat i - Z.of_nat j.
Proof.
  intros Hu Hi Hj. apply seq_sub_mod; try apply seq_at_range; [lia|].
  unfold seq_at, wadd16, M16 in *. lia.
Qed.

Lemma seq_sub_seq_at_u u i : 0 <= u < M16 -> (i <= 1024)%nat -> seq_sub (seq_at u i) u = Z.of_nat i.
Proof.
  intros Hu Hi. apply seq_sub_mod; try apply seq_at_range; auto; [lia|].
  unfold seq_at, wadd16, M16 in *. lia.
Qed.

Lemma seq_at_succ u i : wadd16 (seq_at u i) 1 = seq_at u (S i).
Proof. unfold seq_at, wadd16, M16. lia. Qed.

Lemma last_default {A} : forall (l : list A) x d d', last (x :: l) d = last (x :: l) d'.
Proof. induction l as [|y ys IH]; intros x d d'; [reflexivity|]. cbn [last]. apply (IH y d d'). Qed.

Lemma last_cons {A} (a d : A) l : last (a :: l) d = last l a.
Proof. destruct l as [|x xs]; [reflexivity|]. cbn [last]. apply last_default. Qed.

(* with increasing indices below the tolerance, last_sent_seq_nr ends at the last one sent *)
Lemma ls_after_from u : forall sent f0,
  0 <= u < M16 ->
  Forall (fun f => fs_seq f = seq_at u (fs_idx f) /\ (fs_idx f < 1024)%nat) (f0 :: sent) ->
  sinc (map fs_idx (f0 :: sent)) ->
  ls_after (fs_seq f0) sent = fs_seq (last sent f0).
Proof.
  induction sent as [|f1 r IH]; intros f0 Hu Hall Hs; [reflexivity|].
  cbn [ls_after]. inversion Hall as [|? ? [E0 B0] Hall']; subst. inversion Hall' as [|? ? [E1 B1] _]; subst.
  cbn [map] in Hs. apply sinc_cons in Hs. destruct Hs as [Hlt Hs].
  assert (G : seq_gt (fs_seq f1) (fs_seq f0) = true).
  { unfold seq_gt. rewrite E0, E1, seq_sub_seq_at by assumption. apply Z.gtb_lt. lia. }
  rewrite G, last_cons. apply IH; assumption.
Qed.

Lemma ls_after_last u sent ls f0 :
  0 <= u < M16 ->
  Forall (fun f => fs_seq f = seq_at u (fs_idx f) /\ (fs_idx f < 1024)%nat) (f0 :: sent) ->
  sinc (map fs_idx (f0 :: sent)) ->
  seq_gt (fs_seq f0) ls = true ->
  ls_after ls (f0 :: sent) = fs_seq (last sent f0).
Proof. intros Hu Hall Hs Hgt. cbn [ls_after]. rewrite Hgt. apply (ls_after_from u); assumption. Qed.

Section WithCC.
Context {CC : Type} (cci : cc_iface CC).
Notation vsock := (vsock CC).

(* ------------------------------------------------------------------ the new-data loop, in full *)
Lemma new_data_loop_full : forall items (s : vsock) h rem s1 tl,
  0 <= rem -> new_data_loop items s h rem = SOk s1 tl ->
  exists sent rest, items = sent ++ rest /\ emitted s s1 h sent /\ fs_bytes sent <= rem /\
    v_last_sent_seq_nr s1 = ls_after (v_last_sent_seq_nr s) sent /\
    (tl = None \/ exists f r', rest = f :: r' /\ tl = Some (fs_seq f, sg_size (fs_seg f))).
Proof.
  induction items as [|f rest IH]; intros s h rem s1 tl Hrem; cbn [new_data_loop].
  - intro H; injection H as <- <-. exists [], []. split; [reflexivity|].
    split; [apply emitted_nil; unfold sd_unchanged; repeat split; apply sd_frame_refl|].
    cbn [fs_bytes ls_after]. split; [lia|]. split; [reflexivity|left; reflexivity].
  - destruct (Z.ltb_spec rem (sg_size (fs_seg f))) as [Hlt|Hge].
    { intro H; injection H as <- <-. exists [], (f :: rest). split; [reflexivity|].
      split; [apply emitted_nil; unfold sd_unchanged; repeat split; apply sd_frame_refl|].
      cbn [fs_bytes ls_after]. split; [lia|]. split; [reflexivity|left; reflexivity]. }
    pose proof (send_data_spec s h f) as Hsd.
    destruct (send_data s h f) as [s2 [| |]|s2 e|] eqn:Esd; try discriminate.
    + destruct Hsd as (Hf & Ho & Hs & Hl & Ht & Htp & Hne & Hoff & Hb).
      intro H. destruct (IH s2 h (rem - sg_size (fs_seg f)) s1 tl ltac:(lia) H)
        as (sent & rest' & -> & Hem & Hb' & Hls & Htl).
      exists (f :: sent), rest'. split; [reflexivity|].
      split; [eapply emitted_cons; eauto; unfold sent_ok; auto|].
      split; [cbn [fs_bytes]; lia|]. split; [cbn [ls_after]; rewrite Hls, Hl; reflexivity|exact Htl].
    + intro H; injection H as <- <-. exists [], (f :: rest). split; [reflexivity|].
      split; [apply emitted_nil; tauto|]. cbn [fs_bytes ls_after]. split; [lia|].
      split; [destruct Hsd as ((_ & _ & _ & Hl & _) & _); exact Hl|left; reflexivity].
    + intro H; injection H as <- <-. exists [], (f :: rest). split; [reflexivity|].
      split; [apply emitted_nil; tauto|]. cbn [fs_bytes ls_after]. split; [lia|].
      split; [destruct Hsd as ((_ & _ & _ & Hl & _) & _); exact Hl|right; eauto].
Qed.

(* ------------------------------------------------------------------ the quantities of the clause *)
Definition una (s : vsock) : Z := ss_snd_una (v_segs s).
Definition sgs (s : vsock) : list seg := ss_segs (v_segs s).
Definition Wn (s : vsock) : Z := Z.min (cc_window cci (v_cc s)) (v_last_remote_window s).
Definition dby (s : vsock) : Z := data_bytes (dout s).
Definition seqs_of (s : vsock) : list Z := map (fun p => ch_seq (p_hdr p)) (rev (dout s)).

Lemma dout_app_data (s s1 : vsock) h sent :
  v_out s1 = rev (map (data_pkt s h) sent) ++ v_out s ->
  dout s1 = rev (map (data_pkt s h) sent) ++ dout s.
Proof.
  unfold dout. intros ->. rewrite filter_app. f_equal.
  induction sent as [|f r IH]; [reflexivity|]. cbn [map rev]. rewrite filter_app, IH. reflexivity.
Qed.

Lemma seqs_of_app (s s1 : vsock) h sent :
  v_out s1 = rev (map (data_pkt s h) sent) ++ v_out s ->
  seqs_of s1 = seqs_of s ++ map fs_seq sent.
Proof.
  intro H. unfold seqs_of. rewrite (dout_app_data _ _ _ _ H), rev_app_distr, rev_involutive, map_app.
  f_equal. rewrite map_map. reflexivity.
Qed.

Lemma data_bytes_dout (l : list packet) : data_bytes (filter is_data l) = data_bytes l.
Proof.
  induction l as [|p r IH]; [reflexivity|]. cbn [filter data_bytes]. unfold is_data at 1.
  destruct (ch_type (p_hdr p)) eqn:E; cbn [data_bytes]; rewrite ?E, IH; reflexivity.
Qed.

Lemma dby_app (s s1 : vsock) h sent :
  v_out s1 = rev (map (data_pkt s h) sent) ++ v_out s ->
  Forall (sent_ok s) sent -> Forall (fun f => 0 <= sg_size (fs_seg f)) sent ->
  dby s1 = dby s + fs_bytes sent.
Proof.
  intros H Hok Hsz. unfold dby. rewrite (dout_app_data _ _ _ _ H), data_bytes_app.
  rewrite (data_bytes_sent s h sent Hok Hsz). lia.
Qed.

Lemma item_facts t st f :
  In f (iter_for_sending t st) ->
  fs_seq f = seq_at (ss_snd_una t) (fs_idx f) /\ und_at (ss_segs t) (fs_idx f).
Proof.
  intro H. destruct (iter_item_ok _ _ _ H) as (Hn & _ & Hs & _). split; [exact Hs|].
  rewrite nth_error_map in Hn. destruct (nth_error (ss_segs t) (fs_idx f)) as [g|] eqn:Eg; [|discriminate].
  cbn [option_map] in Hn. unfold dview in Hn. injection Hn as _ _ Hd. exists g. auto.
Qed.

Lemma dshape_parts t t' : dshape t' = dshape t ->
  ss_snd_una t' = ss_snd_una t /\ map dview (ss_segs t') = map dview (ss_segs t) /\
  length (ss_segs t') = length (ss_segs t).
Proof.
  unfold dshape. intro H; injection H as H1 H2 H3. split; [exact H1|]. split; [exact H3|].
  rewrite <- (map_length dview (ss_segs t')), H3, map_length. reflexivity.
Qed.

Lemma seqs_nil_dby (s : vsock) : seqs_of s = [] -> dby s = 0.
Proof.
  unfold seqs_of, dby. intro H. apply map_eq_nil in H.
  assert (E : dout s = []) by (rewrite <- (rev_involutive (dout s)), H; reflexivity).
  rewrite E. reflexivity.
Qed.

Section Ghost.
Variables (ls0 u : Z).
Hypothesis Hls0 : 0 <= ls0 < M16.
Hypothesis Hu : 0 <= u < M16.
Hypothesis Hd0 : 0 <= seq_sub (wadd16 ls0 1) u <= 1024.

Definition LS0 (s : vsock) : Prop :=
  v_last_sent_seq_nr s = ls0 \/ v_last_sent_seq_nr s = wsub16 (una s) 1.

(* wl: the clause about last_sent_seq_nr is wanted (before send_tx_queue) *)
Definition facts (wl : bool) (idxs : list nat) (s : vsock) : Prop :=
  sinc idxs /\ Forall (und_at (sgs s)) idxs /\
  match idxs with
  | [] => wl = true -> LS0 s
  | i1 :: _ =>
      (wl = true -> v_last_sent_seq_nr s = seq_at u (last idxs i1)) /\
      dby s <= FLp (sgs s) (S (last idxs i1)) - FLp (sgs s) i1 /\ FLp (sgs s) i1 + dby s <= Wn s
  end.

Definition XW (wl : bool) (k : nat) (s : vsock) : Prop :=
  exists idxs c, (c <= k)%nat /\ seqs_of s = map (seq_at (una s)) idxs /\
    Forall (fun i => (i < length (sgs s) + c)%nat) idxs /\
    (una s = u -> Forall (fun i => (i < 1024)%nat) idxs -> facts wl idxs s).

Lemma XW_mono wl k k' s : (k <= k')%nat -> XW wl k s -> XW wl k' s.
Proof. intros Hk (idxs & c & Hc & H). exists idxs, c. split; [lia|exact H]. Qed.

Lemma facts_weaken idxs s : facts true idxs s -> facts false idxs s.
Proof.
  intros (A & B0 & C0). split; [exact A|]. split; [exact B0|].
  destruct idxs; [discriminate|]. destruct C0 as (_ & C1). split; [discriminate|exact C1].
Qed.

Lemma XW_weaken k s : XW true k s -> XW false k s.
Proof.
  intros (idxs & c & Hc & H1 & H2 & H3). exists idxs, c.
  split; [exact Hc|]. split; [exact H1|]. split; [exact H2|].
  intros E F. apply facts_weaken. auto.
Qed.

(* the fields XW reads, kept *)
Lemma XW_keep wl k (s s' : vsock) :
  dout s' = dout s -> v_segs s' = v_segs s -> v_cc s' = v_cc s ->
  v_last_remote_window s' = v_last_remote_window s ->
  (wl = true -> v_last_sent_seq_nr s' = v_last_sent_seq_nr s) -> XW wl k s -> XW wl k s'.
Proof.
  intros E1 E2 E3 E4 E5 (idxs & c & Hc & H1 & H2 & H3). exists idxs, c.
  unfold facts, LS0, seqs_of, dby, Wn, una, sgs in *. rewrite E1, E2, E3, E4.
  split; [exact Hc|]. split; [exact H1|]. split; [exact H2|].
  intros Eu Fi. specialize (H3 Eu Fi). destruct H3 as (A & B0 & C0). split; [exact A|]. split; [exact B0|].
  destruct idxs as [|i1 r].
  - intro W. rewrite (E5 W). auto.
  - destruct C0 as (C1 & C2). split; [intro W; rewrite (E5 W); auto|exact C2].
Qed.

Lemma SQ_XW wl k (s s' : vsock) : SQ s s' -> XW wl k s -> XW wl k s'.
Proof.
  intros (A1&A2&A3&A4&A5&A6&A7&A8&A9&A10&A11). apply XW_keep; auto.
Qed.

(* ------------------------------------------------------------------ one run of the new-data loop *)
Lemma new_loop_XW k (s s1 : vsock) h sent rest :
  sp s -> RECb s = false ->
  new_items s = sent ++ rest -> emitted s s1 h sent -> fs_bytes sent <= new_remaining cci s ->
  v_last_sent_seq_nr s1 = ls_after (v_last_sent_seq_nr s) sent ->
  XW true k s ->
  exists idxs1 c, (c <= k)%nat /\ seqs_of s1 = map (seq_at (una s1)) idxs1 /\
    Forall (fun i => (i < length (sgs s1) + c)%nat) idxs1 /\
    (una s1 = u -> Forall (fun i => (i < 1024)%nat) idxs1 ->
       facts true idxs1 s1 /\
       forall f r', rest = f :: r' -> Forall (fun i => (i < fs_idx f)%nat) idxs1).
Proof.
  intros Hsp Hrec Hit Hem Hbud Hls (idxs & c & Hc & H1 & H2 & H3).
  destruct Hem as (Hf & Ho & Hsg & Hok & _).
  assert (Hd : dshape (v_segs s1) = dshape (v_segs s)) by (rewrite Hsg; apply on_sent_all_dshape).
  destruct (dshape_parts _ _ Hd) as (Du & Dv & Dl).
  unfold sd_frame in Hf. destruct Hf as (F1 & F2 & F3 & F4 & F5 & F6 & F7 & F8 & _).
  assert (Hin : forall f, In f sent -> In f (new_items s)) by (intros f Hf'; rewrite Hit; apply in_or_app; left; exact Hf').
  assert (Hseq : forall f, In f sent -> fs_seq f = seq_at (una s) (fs_idx f) /\ und_at (sgs s) (fs_idx f)).
  { intros f Hf'. apply (item_facts (v_segs s) (Some (wadd16 (v_last_sent_seq_nr s) 1))). apply Hin. exact Hf'. }
  assert (Hpos : Forall (fun f => 1 <= sg_size (fs_seg f)) sent).
  { destruct Hsp as (_ & Hp & _). apply (new_items_sizes_pos s sent rest Hp Hit). }
  assert (Hnn : Forall (fun f => 0 <= sg_size (fs_seg f)) sent) by (eapply Forall_impl; [|exact Hpos]; intros; cbn in *; lia).
  assert (Hdby : dby s1 = dby s + fs_bytes sent) by (apply (dby_app s s1 h sent Ho Hok Hnn)).
  exists (idxs ++ map fs_idx sent), c. split; [exact Hc|].
  split.
  { rewrite (seqs_of_app s s1 h sent Ho), H1, map_app. unfold una. rewrite Du. f_equal.
    rewrite map_map. apply map_ext_in. intros f Hf'. apply (Hseq f Hf'). }
  split.
  { apply Forall_app. split.
    - unfold sgs. rewrite Dl. exact H2.
    - apply Forall_forall. intros i Hi. apply in_map_iff in Hi. destruct Hi as (f & <- & Hf').
      destruct (Hseq f Hf') as [_ Hu']. apply und_at_lt in Hu'. unfold sgs in *. rewrite Dl. lia. }
  intros Eu1 Fi1.
  assert (Eu : una s = u) by (unfold una in *; congruence).
  apply Forall_app in Fi1. destruct Fi1 as [Fi Fn].
  specialize (H3 Eu Fi). destruct H3 as (A & B0 & C0).
  assert (Hlnn : lnn (sgs s)).
  { destruct Hsp as (_ & Hp & _). unfold segs_pos in Hp. eapply Forall_impl; [|exact Hp]. intros; cbn in *; lia. }
  (* the offset of the iterator and the reach of the flight computation *)
  set (ls := v_last_sent_seq_nr s) in *.
  assert (Hlsr : 0 <= ls < M16 /\
                 exists o : nat, seq_sub (wadd16 ls 1) u = Z.of_nat o /\ (o <= 1024)%nat /\
                   match idxs with [] => True | i1 :: _ => o = S (last idxs i1) end /\
                   (forall a : nat, (o <= a)%nat -> (a < 1024)%nat -> seq_gt (seq_at u a) ls = true)).
  { destruct idxs as [|i1 r].
    - destruct (C0 eq_refl) as [E|E]; fold ls in E.
      + split; [rewrite E; exact Hls0|]. exists (Z.to_nat (seq_sub (wadd16 ls0 1) u)).
        rewrite E. split; [lia|]. split; [lia|]. split; [exact I|].
        intros a Ha1 Ha2. unfold seq_gt. apply Z.gtb_lt.
        pose proof (seq_sub_congr (wadd16 ls0 1) u (wadd16_range _ _) Hu) as Hc'.
        rewrite (seq_sub_mod (seq_at u a) ls0 (Z.of_nat a - seq_sub (wadd16 ls0 1) u + 1)); try apply seq_at_range; try lia.
        unfold seq_at, wadd16, M16 in *. lia.
      + rewrite Eu in E. split; [rewrite E; apply wsub16_range|]. exists 0%nat.
        assert (E1 : wadd16 ls 1 = u) by (rewrite E; unfold wadd16, wsub16, M16 in *; lia).
        rewrite E1, seq_sub_refl. split; [reflexivity|]. split; [lia|]. split; [exact I|].
        intros a _ Ha2. unfold seq_gt. apply Z.gtb_lt.
        rewrite (seq_sub_mod (seq_at u a) ls (Z.of_nat a + 1)); try apply seq_at_range; try lia.
        * rewrite E. apply wsub16_range.
        * rewrite E. unfold seq_at, wadd16, wsub16, M16 in *. lia.
    - destruct C0 as (C1 & C2 & C3). specialize (C1 eq_refl). fold ls in C1.
      assert (HiL : (last (i1 :: r) i1 < 1024)%nat).
      { pose proof (sinc_le_last (i1 :: r) i1 A) as Hle. rewrite Forall_forall in Fi.
        apply Fi. destruct r as [|x xs]; [left; reflexivity|].
        assert (Hne : i1 :: x :: xs <> []) by discriminate.
        destruct (exists_last Hne) as (l' & z & El). rewrite El. rewrite last_app_cons. cbn [last]. apply in_or_app. right. left. reflexivity. }
      split; [rewrite C1; apply seq_at_range|]. exists (S (last (i1 :: r) i1)).
      rewrite C1, seq_at_succ, seq_sub_seq_at_u by (auto; lia).
      split; [reflexivity|]. split; [lia|]. split; [reflexivity|].
      intros a Ha1 Ha2. unfold seq_gt. apply Z.gtb_lt. rewrite seq_sub_seq_at by (auto; lia). lia. }
  destruct Hlsr as (Hlsr & o & Ho1 & Ho2 & Ho3 & Hgt).
  assert (Eoff : iter_off (v_segs s) (Some (wadd16 ls 1)) = o).
  { unfold iter_off. fold (una s). rewrite Eu, Ho1. lia. }
  pose proof (seq_sub_succ_le ls u Hlsr Hu) as Hsl.
  set (take := Z.to_nat (Z.max (seq_sub ls u + 1) 0)).
  assert (Htake : (o <= take)%nat) by (unfold take; lia).
  assert (Hcf : calc_flight_size (v_segs s) ls = FLp (sgs s) take).
  { unfold calc_flight_size, FLp, sgs, take. fold (una s). rewrite Eu. reflexivity. }
  assert (Hrem : new_remaining cci s = sat_sub (Wn s) (FLp (sgs s) take)).
  { rewrite (new_remaining_not_recovering cci s Hrec). unfold window_budget, Wn. fold ls. rewrite Hcf. reflexivity. }
  (* the prefix of the iterator that went out *)
  unfold new_items in Hit. fold ls in Hit. rewrite iter_for_sending_eq, Eoff in Hit.
  destruct (iter_prefix (v_segs s) _ _ _ _ Hit) as (n & Hn & Hb & Hnil & Hlast & Hhd & Hsi & Hrest).
  fold (sgs s) in Hb, Hhd, Hrest, Hn. rewrite FLp_skipn in Hb.
  assert (Tr : forall m, FLp (sgs s1) m = FLp (sgs s) m) by (intro m; apply FLp_dview; exact Dv).
  assert (Tu : forall i, und_at (sgs s) i -> und_at (sgs s1) i) by (intros i Hi; eapply und_at_dview; [symmetry; exact Dv|exact Hi]).
  assert (TW : Wn s1 = Wn s) by (unfold Wn; rewrite F2, F3; reflexivity).
  destruct sent as [|f1 sent'].
  - (* nothing went out *)
    cbn [map] in *. rewrite app_nil_r. cbn [fs_bytes ls_after] in *.
    split.
    + split; [exact A|]. split; [eapply Forall_impl; [|exact B0]; exact Tu|].
      destruct idxs as [|i1 r].
      * intros _. unfold LS0. fold ls in Hls. rewrite Hls. unfold una. rewrite Du. fold (una s).
        destruct (C0 eq_refl) as [E|E]; [left; exact E|right; exact E].
      * destruct C0 as (C1 & C2 & C3). rewrite !Tr, TW, Hdby. fold ls in Hls. rewrite Hls.
        split; [intros _; apply C1; reflexivity|]. split; lia.
    + intros f r' Er. destruct (Hrest f r' Er) as [R1 _]. rewrite (Hnil eq_refl) in R1.
      destruct idxs as [|i1 r]; [constructor|]. subst o.
      eapply Forall_impl; [|apply (sinc_le_last (i1 :: r) i1 A)]. intros i Hi. cbn beta in Hi. lia.
  - (* f1 .. went out *)
    destruct (Hhd f1 sent' eq_refl) as [Ha1 Ha0].
    set (a := fs_idx f1) in *. set (fL := last sent' f1). set (b := fs_idx fL).
    assert (Hb1 : (b + 1 = o + n)%nat).
    { assert (Hne : f1 :: sent' <> []) by discriminate.
      destruct (exists_last Hne) as (pre & z & El). specialize (Hlast pre z El).
      assert (z = fL). { unfold fL. rewrite <- (last_cons f1 f1 sent'), El, last_app_cons. reflexivity. }
      subst z. exact Hlast. }
    rewrite FLp_skipn in Ha0. replace (o + (a - o))%nat with a in Ha0 by lia.
    assert (Fa : (a < 1024)%nat) by (inversion Fn; assumption).
    assert (Hall : Forall (fun f => fs_seq f = seq_at u (fs_idx f) /\ (fs_idx f < 1024)%nat) (f1 :: sent')).
    { apply Forall_forall. intros f Hf'. destruct (Hseq f Hf') as [E _]. rewrite Eu in E. split; [exact E|].
      rewrite Forall_forall in Fn. apply Fn. apply in_map. exact Hf'. }
    assert (Hg1 : seq_gt (fs_seq f1) ls = true).
    { destruct (Hseq f1 (or_introl eq_refl)) as [E _]. rewrite E, Eu. apply Hgt; assumption. }
    assert (Hls1 : v_last_sent_seq_nr s1 = seq_at u b).
    { rewrite Hls. fold ls. rewrite (ls_after_last u sent' ls f1 Hu Hall Hsi Hg1). fold fL.
      assert (HfL : In fL (f1 :: sent')).
      { unfold fL. destruct sent' as [|x xs]; [left; reflexivity|]. right.
        assert (Hne : x :: xs <> []) by discriminate. destruct (exists_last Hne) as (l' & z & El).
        rewrite El, last_app_cons. cbn [last]. apply in_or_app. right. left. reflexivity. }
      rewrite Forall_forall in Hall. apply (Hall fL HfL). }
    assert (HlastI : forall d, last (idxs ++ map fs_idx (f1 :: sent')) d = b).
    { intro d. cbn [map]. rewrite last_app_cons.
      rewrite (last_default' (map fs_idx sent') (fs_idx f1) d (fs_idx f1)).
      etransitivity; [exact (last_map fs_idx (f1 :: sent') f1)|]. rewrite last_cons. reflexivity. }
    assert (Hbytes1 : 1 <= fs_bytes (f1 :: sent')).
    { assert (G1 : 1 <= sg_size (fs_seg f1)) by (inversion Hpos; assumption).
      assert (G2 : Forall (fun f => 0 <= sg_size (fs_seg f)) sent') by (inversion Hnn; assumption).
      cbn [fs_bytes]. assert (0 <= fs_bytes sent'); [|lia].
      clear - G2. induction G2; cbn [fs_bytes]; lia. }
    rewrite Hrem in Hbud. unfold sat_sub in Hbud.
    assert (Hbud' : fs_bytes (f1 :: sent') <= Wn s - FLp (sgs s) take) by lia.
    assert (Hmono : FLp (sgs s) o <= FLp (sgs s) take) by (apply FLp_mono; assumption).
    replace (o + n)%nat with (S b) in Hb by lia.
    split.
    + split.
      { apply (sinc_app_intro idxs (map fs_idx (f1 :: sent')) 0%nat A Hsi).
        destruct idxs as [|i1 r]; [left; reflexivity|right]. cbn [map]. fold a. subst o.
        rewrite (last_default' r i1 0%nat i1). lia. }
      split.
      { apply Forall_app. split; [eapply Forall_impl; [|exact B0]; exact Tu|].
        apply Forall_forall. intros i Hi. apply in_map_iff in Hi. destruct Hi as (f & <- & Hf').
        apply Tu. apply (Hseq f Hf'). }
      destruct idxs as [|i1 r].
      * cbn [app map]. pose proof (HlastI (fs_idx f1)) as HL. cbn [app map] in HL. rewrite HL. fold a.
        rewrite !Tr, TW, Hdby.
        rewrite (seqs_nil_dby s) by (rewrite H1; reflexivity).
        split; [intros _; exact Hls1|]. split; lia.
      * cbn [app]. pose proof (HlastI i1) as HL. cbn [app] in HL. rewrite HL.
        destruct C0 as (C1 & C2 & C3). subst o.
        rewrite !Tr, TW, Hdby.
        assert (Hm2 : FLp (sgs s) (S (last (i1 :: r) i1)) <= FLp (sgs s) take) by exact Hmono.
        split; [intros _; exact Hls1|]. split; lia.
    + intros f r' Er. destruct (Hrest f r' Er) as [R1 _].
      assert (Hsall : sinc (idxs ++ map fs_idx (f1 :: sent'))).
      { apply (sinc_app_intro idxs (map fs_idx (f1 :: sent')) 0%nat A Hsi).
        destruct idxs as [|i1 r]; [left; reflexivity|right]. cbn [map]. fold a. subst o.
        rewrite (last_default' r i1 0%nat i1). lia. }
      eapply Forall_impl; [|apply (sinc_le_last _ 0%nat Hsall)]. intros i Hi. cbn beta in Hi.
      rewrite (HlastI 0%nat) in Hi. lia.
Qed.

(* ------------------------------------------------------------------ the whole new-data part *)
Definition WB (wl : bool) (k : nat) (s : vsock) : Prop := RECb s = true \/ XW wl k s.

Lemma new_branch_XW k (s : vsock) h :
  sp s -> RECb s = false -> XW true k s ->
  stk (fun s s' => (v_restart s' = v_restart s /\ XW true k s') \/ (v_restart s' = true /\ XW true (S k) s'))
      s (new_branch cci s h).
Proof.
  intros Hsp Hrec HX. unfold new_branch.
  destruct (new_data_loop (new_items s) s h (new_remaining cci s)) as [s1 tl|s1 e|] eqn:El; cbn [sbind stk]; auto.
  destruct (new_data_loop_full _ _ _ _ _ _ (new_remaining_nonneg cci s) El) as (sent & rest & Hit & Hem & Hb & Hls & Htl).
  destruct (new_loop_XW k s s1 h sent rest Hsp Hrec Hit Hem Hb Hls HX) as (idxs1 & c & Hc & G1 & G2 & G3).
  assert (Hr1 : v_restart s1 = v_restart s).
  { destruct Hem as (Hf & _). unfold sd_frame in Hf. destruct Hf as (_&_&_&_&_&_&_&_&_&_&F11&_). exact F11. }
  unfold new_after. destruct Htl as [->|(f & r' & Er & ->)].
  - cbn [stk]. left. split; [exact Hr1|]. exists idxs1, c.
    split; [exact Hc|]. split; [exact G1|]. split; [exact G2|]. intros E F. apply (G3 E F).
  - destruct (pop_mtu_probe (v_segs s1) (fs_seq f)) as [segs' popped] eqn:Ep. destruct popped; cbn [stk]; [|exact I].
    right. split; [reflexivity|].
    (* the shape of the table after the pop *)
    unfold pop_mtu_probe in Ep. destruct (last_and_init (ss_segs (v_segs s1))) as [[init g]|] eqn:Eli; [|discriminate].
    destruct (_ && _); [|discriminate]. injection Ep as <-.
    apply Segments_ProofsOut.last_and_init_app in Eli.
    assert (Hf_lt : (fs_idx f < length (sgs s1))%nat).
    { assert (Hin : In f (new_items s)) by (rewrite Hit, Er; apply in_or_app; right; left; reflexivity).
      unfold new_items in Hin. destruct (item_facts _ _ _ Hin) as [_ Hu']. apply und_at_lt in Hu'.
      destruct Hem as (_ & _ & Hsg & _).
      assert (Hd : dshape (v_segs s1) = dshape (v_segs s)) by (rewrite Hsg; apply on_sent_all_dshape).
      destruct (dshape_parts _ _ Hd) as (_ & _ & Dl). unfold sgs. rewrite Dl. exact Hu'. }
    unfold sgs in Hf_lt. rewrite Eli, app_length in Hf_lt. cbn [length] in Hf_lt.
    exists idxs1, (S c). split; [lia|].
    split; [exact G1|].
    split.
    { unfold sgs, Segments.set_segs. vsimpl_goal. cbn [ss_segs].
      eapply Forall_impl; [|exact G2]. intros i Hi. cbn beta in Hi. unfold sgs in Hi. rewrite Eli, app_length in Hi.
      cbn [length] in Hi. lia. }
    intros Eu Fi. assert (Eu1 : una s1 = u) by exact Eu.
    destruct (G3 Eu1 Fi) as [(A & B0 & C0) Hlt]. specialize (Hlt f r' Er).
    assert (Hlt' : Forall (fun i => (i < length init)%nat) idxs1).
    { eapply Forall_impl; [|exact Hlt]. intros i Hi. cbn beta in Hi. lia. }
    assert (Tr : forall m, (m <= length init)%nat -> FLp (sgs s1) m = FLp init m).
    { intros m Hm. unfold sgs. rewrite Eli. apply FLp_app. exact Hm. }
    split; [exact A|]. split.
    { unfold sgs, Segments.set_segs. vsimpl_goal. cbn [ss_segs].
      rewrite Forall_forall in *. intros i Hi. apply (und_at_init init g i (Hlt' i Hi)).
      rewrite <- Eli. apply B0. exact Hi. }
    destruct idxs1 as [|i1 r].
    + intros _. unfold LS0, una, Segments.set_segs in *. vsimpl_goal. cbn [ss_snd_una]. apply C0. reflexivity.
    + destruct C0 as (C1 & C2 & C3).
      assert (HiL : (S (last (i1 :: r) i1) <= length init)%nat).
      { rewrite Forall_forall in Hlt'.
        assert (In (last (i1 :: r) i1) (i1 :: r)).
        { destruct r as [|x xs]; [left; reflexivity|]. assert (Hne : i1 :: x :: xs <> []) by discriminate.
          destruct (exists_last Hne) as (l' & z & El'). rewrite El', last_app_cons. cbn [last].
          apply in_or_app. right. left. reflexivity. }
        specialize (Hlt' _ H). lia. }
      assert (Hi1 : (i1 <= length init)%nat) by (inversion Hlt'; subst; lia).
      unfold dby, Wn, sgs, Segments.set_segs in *. vsimpl_goal. cbn [ss_segs].
      rewrite <- !Tr by assumption. unfold sgs. split; [exact C1|]. split; assumption.
Qed.

Lemma send_tx_queue_XW now r0 k (s : vsock) :
  B now s -> J r0 false now s -> sp s -> v_restart s = false -> WB true k s ->
  stk (fun s s' => (v_restart s' = false /\ WB true k s') \/ (v_restart s' = true /\ WB true (S k) s'))
      s (send_tx_queue cci s).
Proof.
  intros HB HJ Hsp Hr0 HW. rewrite send_tx_queue_eq.
  destruct (v_transport_pending s); [cbn [stk]; left; auto|].
  assert (Hne : timer_expired (v_t_retransmit s) (v_now s) = false).
  { destruct HB as (_ & Hn & _). rewrite Hn.
    destruct (timer_expired (v_t_retransmit s) now) eqn:E; [|reflexivity].
    assert (Ee : texp s now = true) by exact E. destruct (J_A_of_expired _ _ _ _ HJ Ee) as (_ & _ & X). discriminate. }
  unfold rto_branch. rewrite Hne. cbn [sbind]. unfold after_rto_k.
  destruct (0 <? v_rto_retransmissions s); [cbn [stk]; left; auto|].
  destruct (ss_segs (v_segs s)) as [|g0 gs] eqn:Esg; [cbn [stk]; left; auto|].
  fold (rec_new cci s (outgoing_header s)).
  destruct (RECb s) eqn:Erec.
  - pose proof (rec_new_keeps cci s (outgoing_header s)) as Hk.
    destruct (rec_new cci s (outgoing_header s)) as [s' u'|s' e|]; cbn [stk] in *; auto.
    destruct Hk as (_ & K2 & _).
    destruct (v_restart s') eqn:Er; [right|left]; (split; [reflexivity|left; apply K2; exact Erec]).
  - destruct HW as [HW|HX]; [congruence|].
    unfold rec_new.
    assert (Hrb : rec_branch s (outgoing_header s) = SOk s false).
    { unfold rec_branch. unfold RECb, is_recovering in Erec. destruct (rv_phase (v_recovery s)); [reflexivity|reflexivity|discriminate]. }
    rewrite Hrb. cbn [sbind].
    pose proof (new_branch_XW k s (outgoing_header s) Hsp Erec HX) as Hn.
    pose proof (rec_new_keeps cci s (outgoing_header s)) as Hk. unfold rec_new in Hk. rewrite Hrb in Hk. cbn [sbind] in Hk.
    destruct (new_branch cci s (outgoing_header s)) as [s' u'|s' e|]; cbn [stk] in *; auto.
    destruct Hn as [[R X]|[R X]]; [left; split; [congruence|right; exact X]|right; split; [exact R|right; exact X]].
Qed.

End Ghost.
End WithCC.

(* C07 — the trigger side of the immediate ACK, for a whole poll and for every trace of the model.
   [poll_trigger]: the first message of the inbox is a trigger (duplicate ST_DATA, FIN, ST_DATA while the
      reassembly queue holds data) => a poll that ran to its end emitted a packet.
   [poll_status]: a poll that ran to its end and changed the empty/non-empty status of the reassembly
      queue emitted a packet.
   Then the predicates of Conn/C07_Pred2.v on every step / every trace. *)
From Utp Require Import Base.Prelude Wire.SeqNr Wire.SeqNr_Proofs Wire.Header Rtt.Rtte Mtu.SegSizes
  Rx.Rx Rx.Rx_Proofs Tx.Ring Tx.Segments Conn.Recovery Conn.Msg Conn.VSockRec Conn.VSock Conn.VSockRun
  Conn.VObs Conn.VSock_LemmasTx Conn.VSock_LemmasIn Conn.VSock_Lemmas Conn.VSock_LemmasStep
  Conn.VSock_LemmasReach Conn.VSock_LemmasTimers Conn.VSock_LemmasPipe Conn.VSock_LemmasEof
  Conn.C07_Pred Conn.C07_Proofs Conn.C07_Pred2 Conn.C07_Trigger Conn.C07_Step.

Section WithCC.
Context {CC : Type} (cci : cc_iface CC).
Notation vsock := (vsock CC).

Ltac kf_leaf := match goal with |- kf ?a _ => apply (kf_same a a); [apply kf_refl | exact eq_refl ..] end.

(* mss fits 16 bits: an invariant of every reachable state *)
Definition Hhi (s : vsock) : Prop := mss (v_ss s) <= U16_MAX.
(* the ACK is forced, or a packet went out in this poll *)
Definition Fd (s : vsock) : Prop := Hhi s /\ (v_cbu s = USIZE_MAX \/ v_out s <> []).

Lemma kf_hhi (a b : vsock) : kf a b -> Hhi a -> Hhi b.
Proof. intros (A1 & _) H. unfold Hhi in *. lia. Qed.

Lemma kf_out (a b : vsock) : kf a b -> v_out a <> [] -> v_out b <> [].
Proof. intros (_ & l & A2 & _) H E. rewrite A2 in E. apply app_eq_nil in E. tauto. Qed.

Lemma kf_Fd (a b : vsock) : kf a b -> Fd a -> Fd b.
Proof.
  intros K (H & F). split; [eapply kf_hhi; eassumption|].
  destruct F as [F|F]; [|right; eapply kf_out; eassumption].
  destruct K as (_ & l & A2 & A3). destruct l as [|p l]; [left; auto|right]. rewrite A2. discriminate.
Qed.

Lemma stk_Fd X (s : vsock) (m : step X) : stR kf s m -> Fd s -> stU Fd m.
Proof. intros K H. destruct m; cbn [stR stU] in *; auto. eapply kf_Fd; eassumption. Qed.

Lemma kf_start (s : vsock) : kf s (poll_start s).
Proof. unfold poll_start. kf_leaf. Qed.

Lemma stU_mono X (P Q : vsock -> Prop) (m : step X) : (forall s, P s -> Q s) -> stU P m -> stU Q m.
Proof. intros H K. destruct m; cbn [stU] in *; auto. Qed.

Lemma stU_sbind X Y (P : vsock -> Prop) (m : step X) (f : vsock -> X -> step Y) :
  stU P m -> (forall s1 a, P s1 -> stU P (f s1 a)) -> stU P (sbind m f).
Proof. intros Hm Hf. destruct m as [s1 a| |]; cbn [sbind stU] in *; auto. Qed.

(* a forced ACK at maybe_send_ack goes out (or the transport blocks) *)
Lemma msa_forced (s s' : vsock) b :
  Hhi s -> v_cbu s = USIZE_MAX -> maybe_send_ack s = SOk s' b -> v_transport_pending s' = false ->
  v_out s' <> [].
Proof.
  intros Hh C E Tp. unfold maybe_send_ack in E.
  assert (Im : immediate_ack_to_transmit s = true).
  { unfold immediate_ack_to_transmit, IMMEDIATE_ACK_EVERY_RMSS. rewrite C. apply Z.leb_le.
    unfold Hhi, U16_MAX in Hh. unfold USIZE_MAX, M64. lia. }
  rewrite Im in E. apply send_ack_sent in E; [|exact Tp].
  destruct E as (_ & _ & _ & _ & _ & _ & _ & _ & p & P & _). rewrite P. discriminate.
Qed.

Lemma msa_Fd (s : vsock) : Fd s -> stC (fun s' => v_out s' <> []) (maybe_send_ack s).
Proof.
  intros (Hh & [C|O]).
  - destruct (maybe_send_ack s) as [s' b| |] eqn:E; cbn [stC]; auto. intro Tp. eapply msa_forced; eassumption.
  - pose proof (maybe_send_ack_kf s) as K.
    destruct (maybe_send_ack s) as [s' b| |]; cbn [stC stR] in *; auto. intros _. eapply kf_out; eassumption.
Qed.

Lemma syn_ack_done (s : vsock) :
  c07_hs_done (v_state s) = true -> maybe_send_syn_ack s = SOk (set_t_syn_ack_resend s None) tt.
Proof. intro H. unfold maybe_send_syn_ack. destruct (v_state s); try discriminate; reflexivity. Qed.

(* send_ack: a packet goes out, or nothing the triggers look at changes *)
Lemma send_ack_keeps (s : vsock) :
  match send_ack s with
  | SOk s' _ => (exists p, v_out s' = p :: v_out s) \/
                (v_inbox s' = v_inbox s /\ v_state s' = v_state s /\
                 v_last_consumed s' = v_last_consumed s /\ v_rx s' = v_rx s)
  | _ => True
  end.
Proof.
  unfold send_ack, send_control_packet.
  destruct (v_transport_pending s); [right; repeat split; reflexivity|].
  destruct (next_send s _) as [s0 o] eqn:E. pose proof (next_send_txf _ _ _ _ E) as X.
  apply next_send_fields in E. destruct E as (E1 & E2 & E3 & E4 & E5 & E6 & _).
  destruct X as (_ & _ & _ & _ & X5 & _).
  destruct o; try exact I.
  - left. unfold on_packet_sent, emit. vsimpl_goal. rewrite E6. eexists; reflexivity.
  - right. vsimpl_goal. repeat split; assumption.
Qed.

(* ------------------------------------------------------------------ the first message is a trigger *)
Definition Tg (m : msg) (rest : list msg) (s : vsock) : Prop :=
  Hhi s /\ v_inbox s = m :: rest /\ trig s m = true.
Definition Gd (m : msg) (rest : list msg) (s : vsock) : Prop := Fd s \/ Tg m rest s.

Lemma trig_hs_done (s : vsock) m : trig s m = true -> c07_hs_done (v_state s) = true.
Proof.
  unfold trig, c07_is_trigger. intro H. rewrite !andb_true_iff in H. tauto.
Qed.

Lemma pim_Tg (m : msg) rest (a : vsock) :
  Tg m rest a -> stU Fd (process_all_incoming_messages cci a).
Proof.
  intros (Hh & Hi & Ht). rewrite paim_eq. rewrite Hi. cbn [app recv_loop]. rewrite Hi.
  pose proof (pim_trigger cci (set_inbox a rest) m) as PT.
  pose proof (process_incoming_message_kf cci (set_inbox a rest) m) as PK.
  destruct (process_incoming_message cci (set_inbox a rest) m) as [s1 r| |]; cbn [sbind stU stR] in *; auto.
  assert (F1 : Fd s1).
  { split; [eapply kf_hhi; [exact PK | exact Hh]|].
    destruct (PT s1 r eq_refl Ht) as [K|[p K]]; [left; exact K | right; rewrite K; discriminate]. }
  match goal with |- stU Fd (sbind ?tail ?k) => assert (KT : stR kf s1 (sbind tail k)) end.
  { apply (stR_sbind kf kf_trans).
    - destruct (_ || _); [apply kf_refl | apply recv_loop_kf].
    - intros s2 res. apply paim_rest_kf. }
  eapply stk_Fd; eassumption.
Qed.

Theorem poll_trigger (s s' : vsock) m rest :
  Hhi s -> v_inbox s = m :: rest -> trig s m = true ->
  poll cci s = (s', PollPending) -> v_transport_pending s' = false -> v_out s' <> [].
Proof.
  intros Hh Hi Ht H Tp.
  assert (HS : tail_shape (fun x : vsock => v_out x <> []) s').
  { apply (poll_S cci (Gd m rest) (Gd m rest) Fd Fd Fd (fun x : vsock => v_out x <> [])) with (s := s);
      try exact H.
    - intros a [K|K]; [left; eapply kf_Fd; [apply kf_start | exact K] | right; exact K].
    - intros a [K|K]; apply stU_stC.
      + eapply stU_mono; [|apply (stk_Fd _ a); [apply maybe_send_syn_ack_kf | exact K]].
        intros x Fx; left; exact Fx.
      + destruct K as (K1 & K2 & K3). rewrite (syn_ack_done a (trig_hs_done a m K3)). cbn [stU].
        right. split; [exact K1|]. split; [exact K2 | exact K3].
    - intros a [K|K]; apply stU_stC.
      + eapply stU_mono; [|apply (stk_Fd _ a); [apply send_ack_kf | exact K]].
        intros x Fx; left; exact Fx.
      + destruct K as (K1 & K2 & K3).
        pose proof (send_ack_keeps a) as SK. pose proof (send_ack_kf a) as KK.
        destruct (send_ack a) as [a' b| |]; cbn [stU stR] in *; auto.
        destruct SK as [[p P]|(S1 & S2 & S3 & S4)].
        * left. split; [eapply kf_hhi; eassumption|]. right. rewrite P. discriminate.
        * right. split; [eapply kf_hhi; eassumption|]. split; [congruence|].
          unfold trig in *. rewrite S2, S3, S4. exact K3.
    - intros a [K|K]; apply stU_stC.
      + apply (stk_Fd _ a); [apply process_all_incoming_messages_kf | exact K].
      + eapply pim_Tg; exact K.
    - intros a rx1 fb w K _. eapply kf_Fd; [apply rx_flush_kf | exact K].
    - intros a K. apply (stk_Fd _ a); [apply split_tx_queue_into_segments_kf | exact K].
    - intros a K Ra. pose proof (stk_Fd _ a _ (send_tx_queue_kf cci a) K) as P.
      destruct (send_tx_queue cci a); cbn [stU] in *; auto. split; intros; [left|]; exact P.
    - intros a K. eapply kf_Fd; [apply transition_to_fin_wait_1_kf | exact K].
    - intros a K. apply stU_stC. apply (stk_Fd _ a); [apply maybe_send_fin_kf | exact K].
    - intros a K. apply msa_Fd. exact K.
    - intro a. apply no_restart_qb, maybe_send_syn_ack_qb.
    - intro a. apply no_restart_qb, send_ack_qb.
    - intros a Ra. pose proof (process_all_incoming_messages_pimr cci a) as P'.
      destruct (process_all_incoming_messages cci a); cbn [stU stR] in *; auto.
      destruct P' as (_ & _ & _ & _ & _ & P6 & _). congruence.
    - intro a. apply no_restart_qb, split_tx_queue_into_segments_qb.
    - apply transition_to_fin_wait_1_restart.
    - intro a. apply no_restart_qb, maybe_send_fin_qb.
    - intro a. apply no_restart_qb, maybe_send_ack_qb.
    - right. split; [exact Hh|]. split; [exact Hi | exact Ht]. }
  destruct HS as [HS|(sb & K & _ & _ & _ & ->)]; [congruence|].
  destruct (poll_tail_fields sb) as (_ & _ & _ & _ & _ & _ & _ & _ & _ & F10 & _). rewrite F10. exact K.
Qed.

(* ------------------------------------------------------------------ the status of the reassembly queue *)
Definition St (b : bool) (s : vsock) : Prop :=
  (Hhi s /\ ooq_is_empty (v_rx s) = b) \/ Fd s.

(* kf, and the receive half untouched *)
Definition krx (a b : vsock) : Prop := kf a b /\ v_rx b = v_rx a.

Lemma krx_refl : forall a, krx a a.
Proof. intro a. split; [apply kf_refl | reflexivity]. Qed.

Lemma krx_trans : forall a b c, krx a b -> krx b c -> krx a c.
Proof. intros a b c [A1 A2] [B1 B2]. split; [eapply kf_trans; eassumption | congruence]. Qed.

Lemma krx_St b (a a' : vsock) : krx a a' -> St b a -> St b a'.
Proof.
  intros [K R] [[H E]|F]; [left | right; eapply kf_Fd; eassumption].
  split; [eapply kf_hhi; eassumption | rewrite R; exact E].
Qed.

Lemma stk_txf_krx X (s : vsock) (m : step X) : stR kf s m -> stR txf s m -> stR krx s m.
Proof. intros K T. destruct m; cbn [stR] in *; auto; split; auto; apply T. Qed.

Lemma stkrx_St b X (s : vsock) (m : step X) : stR krx s m -> St b s -> stU (St b) m.
Proof. intros K H. destruct m; cbn [stR stU] in *; auto. eapply krx_St; eassumption. Qed.

Lemma maybe_send_syn_ack_krx (s : vsock) : stR krx s (maybe_send_syn_ack s).
Proof.
  unfold maybe_send_syn_ack.
  assert (G : forall c, stR krx s
     (if c =? o_max_retx (v_opts s) then SErr s ErrMaxSynAckRetransmissionsReached
      else sbind (send_ack s) (fun s1 sent =>
        if sent then SOk (set_t_syn_ack_resend (set_state s1 (SynAckSent (c + 1)))
               (timer_arm (v_t_syn_ack_resend s1) (v_now s1) SYNACK_RESEND_INTERNAL true)) tt
        else SOk s1 tt))).
  { intros c. destruct (_ =? _); [apply krx_refl|].
    apply (stR_sbind krx krx_trans); [apply stk_txf_krx; [apply send_ack_kf | apply send_ack_txf]|].
    intros s1 [|]; cbn [stR]; [split; [kf_leaf | reflexivity] | apply krx_refl]. }
  destruct (v_state s); try (cbn [stR]; split; [kf_leaf | reflexivity]).
  - apply G.
  - destruct (timer_expired _ _); [apply G | apply krx_refl].
Qed.

Lemma fw1_krx (s : vsock) : krx s (transition_to_fin_wait_1 s).
Proof.
  split; [apply transition_to_fin_wait_1_kf|]. unfold transition_to_fin_wait_1.
  destruct (v_state s); reflexivity.
Qed.

Lemma pim_St b (s : vsock) m : St b s -> stU (St b) (process_incoming_message cci s m).
Proof.
  intros H. pose proof (pim_status cci s m) as PS. pose proof (process_incoming_message_kf cci s m) as PK.
  destruct (process_incoming_message cci s m) as [s' r| |]; cbn [stU stR] in *; auto.
  destruct H as [[Hh E]|F]; [|right; eapply kf_Fd; eassumption].
  pose proof (kf_hhi _ _ PK Hh) as Hh'.
  destruct (PS s' r eq_refl) as [K|[K|[p K]]].
  - left. split; [exact Hh' | congruence].
  - right. split; [exact Hh' | left; exact K].
  - right. split; [exact Hh' | right; rewrite K; discriminate].
Qed.

Lemma recv_loop_St b : forall fuel (s : vsock) acc, St b s -> stU (St b) (recv_loop cci fuel s acc).
Proof.
  assert (Hclosed : forall (s : vsock) (acc : on_ack_result), St b s ->
    stU (St b) (sbind (maybe_send_fin (transition_to_fin_wait_1 s))
                      (fun s2 _ => SOk (set_state s2 Closed) (acc, true)))).
  { intros s acc H. apply (stkrx_St b _ s); [|exact H].
    apply (stR_weaken krx krx_trans) with (s := transition_to_fin_wait_1 s); [apply fw1_krx|].
    apply (stR_sbind krx krx_trans);
      [apply stk_txf_krx; [apply maybe_send_fin_kf | apply maybe_send_fin_txf]|].
    intros s2 _. cbn [stR]. split; [kf_leaf | reflexivity]. }
  induction fuel as [|x fuel IH]; intros s acc H.
  - cbn [recv_loop]. destruct (v_inbox s).
    + destruct (v_inbox_closed s); [apply Hclosed; exact H|].
      cbn [stU]. eapply krx_St; [|exact H]. split; [kf_leaf | reflexivity].
    + exact I.
  - cbn [recv_loop]. destruct (v_inbox s) as [|m rest].
    + destruct (v_inbox_closed s); [apply Hclosed; exact H|].
      cbn [stU]. eapply krx_St; [|exact H]. split; [kf_leaf | reflexivity].
    + apply stU_sbind.
      * apply pim_St. eapply krx_St; [|exact H]. split; [kf_leaf | reflexivity].
      * intros s1 r H1. destruct (_ || _); [exact H1 | apply IH; exact H1].
Qed.

Lemma paim_rest_krx (s1 : vsock) r : stR krx s1 (paim_rest s1 r).
Proof.
  pose proof (paim_rest_kf s1 r) as K. pose proof (paim_rest_pst s1 r) as P.
  destruct (paim_rest s1 r); cbn [stR] in *; auto; split; auto; apply P.
Qed.

Lemma paim_St b (s : vsock) : St b s -> stU (St b) (process_all_incoming_messages cci s).
Proof.
  intro H. rewrite paim_eq. apply stU_sbind; [apply recv_loop_St; exact H|].
  intros s1 res H1. apply (stkrx_St b _ s1); [apply paim_rest_krx | exact H1].
Qed.

Lemma split_krx (s : vsock) : stR krx s (split_tx_queue_into_segments cci s).
Proof.
  pose proof (split_tx_queue_into_segments_kf cci s) as K. pose proof (split_srx cci s) as P.
  destruct (split_tx_queue_into_segments cci s); cbn [stR] in *; auto; split; auto; apply P.
Qed.

(* a poll that ran to its end: the status of the reassembly queue is as before, or a packet went out *)
Theorem poll_status (s s' : vsock) :
  Hhi s -> poll cci s = (s', PollPending) -> v_transport_pending s' = false ->
  ooq_is_empty (v_rx s') = ooq_is_empty (v_rx s) \/ v_out s' <> [].
Proof.
  intros Hh H Tp. set (b := ooq_is_empty (v_rx s)).
  set (D := fun x : vsock => ooq_is_empty (v_rx x) = b \/ v_out x <> []).
  assert (HS : tail_shape D s').
  { apply (poll_S cci (St b) (St b) (St b) (St b) (St b) D) with (s := s); try exact H.
    - intros a K. eapply krx_St; [|exact K]. split; [apply kf_start | reflexivity].
    - intros a K. apply stU_stC. apply (stkrx_St b _ a); [apply maybe_send_syn_ack_krx | exact K].
    - intros a K. apply stU_stC.
      apply (stkrx_St b _ a); [apply stk_txf_krx; [apply send_ack_kf | apply send_ack_txf] | exact K].
    - intros a K. apply stU_stC. apply paim_St. exact K.
    - intros a rx1 fb w K E. apply rx_flush_status in E.
      destruct K as [[K1 K2]|K]; [left | right; eapply kf_Fd; [apply rx_flush_kf | exact K]].
      split; [exact K1|]. unfold add_wakes. vsimpl_goal. congruence.
    - intros a K. apply (stkrx_St b _ a); [apply split_krx | exact K].
    - intros a K Ra.
      pose proof (stkrx_St b _ a _ (stk_txf_krx _ a _ (send_tx_queue_kf cci a) (send_tx_queue_txf cci a)) K) as P.
      destruct (send_tx_queue cci a); cbn [stU] in *; auto.
    - intros a K. eapply krx_St; [apply fw1_krx | exact K].
    - intros a K. apply stU_stC.
      apply (stkrx_St b _ a); [apply stk_txf_krx; [apply maybe_send_fin_kf | apply maybe_send_fin_txf] | exact K].
    - intros a K. destruct K as [[K1 K2]|K].
      + pose proof (maybe_send_ack_txf a) as X.
        destruct (maybe_send_ack a) as [a' bb| |]; cbn [stC stR] in *; auto. intros _. left.
        destruct X as (X1 & _). rewrite X1. exact K2.
      + pose proof (msa_Fd a K) as P. destruct (maybe_send_ack a); cbn [stC] in *; auto.
        intro T. right. apply P. exact T.
    - intro a. apply no_restart_qb, maybe_send_syn_ack_qb.
    - intro a. apply no_restart_qb, send_ack_qb.
    - intros a Ra. pose proof (process_all_incoming_messages_pimr cci a) as P'.
      destruct (process_all_incoming_messages cci a); cbn [stU stR] in *; auto.
      destruct P' as (_ & _ & _ & _ & _ & P6 & _). congruence.
    - intro a. apply no_restart_qb, split_tx_queue_into_segments_qb.
    - apply transition_to_fin_wait_1_restart.
    - intro a. apply no_restart_qb, maybe_send_fin_qb.
    - intro a. apply no_restart_qb, maybe_send_ack_qb.
    - left. split; [exact Hh | reflexivity]. }
  destruct HS as [HS|(sb & K & _ & _ & _ & ->)]; [congruence|].
  destruct (poll_tail_fields sb) as (_ & _ & F3 & _ & _ & _ & _ & _ & _ & F10 & _).
  rewrite F3, F10. exact K.
Qed.


(* ------------------------------------------------------------------ mss <= 65535 in every reachable state *)
Lemma hhi_vsock_new : forall mk c (s : vsock), vsock_new cci mk c = Some s -> Hhi s.
Proof.
  intros mk c s H. unfold vsock_new in H.
  destruct (match (if vc_incoming c then None else _) with Some r => _ | None => _ end); [|discriminate].
  inversion H; subst. unfold Hhi. cbn [v_ss]. apply mss_ss_new_hi.
Qed.

Theorem hhi_poll_pending (s s' : vsock) : Hhi s -> poll cci s = (s', PollPending) -> Hhi s'.
Proof.
  intros Hh H.
  assert (P : pend_shape kf (poll_init s) s').
  { apply (poll_Rp cci kf); try exact H.
    - apply kf_refl.
    - apply kf_trans.
    - apply kf_start.
    - intro a. apply stR_stRk, maybe_send_syn_ack_kf.
    - intro a. apply stR_stRk, send_ack_kf.
    - intro a. apply stR_stRk, process_all_incoming_messages_kf.
    - intros a rx1 fb w _. apply rx_flush_kf.
    - intro a. apply stR_stRk, split_tx_queue_into_segments_kf.
    - intro a. apply stR_stRk, send_tx_queue_kf.
    - intro a. apply transition_to_fin_wait_1_kf.
    - intro a. apply stR_stRk, maybe_send_fin_kf.
    - intro a. apply stR_stRk, maybe_send_ack_kf. }
  assert (H0 : Hhi (poll_init s)) by exact Hh.
  destruct P as [[_ P]|(sa & sb & b & P1 & _ & P2 & _ & _ & _ & ->)].
  - eapply kf_hhi; eassumption.
  - destruct (poll_tail_fields sb) as (_ & F2 & _). unfold Hhi. rewrite F2.
    eapply kf_hhi; [exact P2|]. eapply kf_hhi; eassumption.
Qed.

Lemma hhi_vstep_live (s : vsock) o :
  Hhi s -> poll_finished (vstep_out cci s o) = false -> Hhi (vstep_state cci s o).
Proof.
  intros Hh F. pose proof (vstep_nonpoll_keeps cci s o) as K.
  destruct o; try (destruct K as (_ & _ & K3); unfold Hhi; rewrite K3; exact Hh).
  destruct (poll cci (VSockRec.set_sends s script)) as [s' r] eqn:E.
  destruct (vstep_poll cci s script s' _ E) as [Es Eo]. rewrite Es. rewrite Eo in F.
  destruct r; try discriminate. eapply hhi_poll_pending; [|exact E]. exact Hh.
Qed.

Lemma pkts_nonempty (l : list packet) : l <> [] -> map fpacket_of (rev l) <> [].
Proof.
  intros H E. apply map_eq_nil in E. destruct l as [|p l]; [congruence|].
  cbn [rev] in E. apply app_eq_nil in E. destruct E; discriminate.
Qed.

(* ------------------------------------------------------------------ c07_reasm_change_ok *)
Theorem c07_reasm_change_ok_step : forall cfg (s : vsock) o,
  Hhi s -> c07_reasm_change_ok cfg (fstep_of cci s o) = true.
Proof.
  intros cfg s o Hh. unfold c07_reasm_change_ok.
  destruct (c07_poll_done (fstep_of cci s o)) eqn:D; [|reflexivity].
  destruct o; try (rewrite not_poll_done in D; [discriminate | intros sc; discriminate]).
  destruct (poll cci (VSockRec.set_sends s script)) as [s' r] eqn:E.
  destruct (poll_done_inv cci s script s' r E D) as (R & T). subst r.
  rewrite (fstep_of_poll cci s script s' _ E). cbn [andb].
  unfold fp_ooq_empty, c07_pkts. cbn [fs_pre fs_post fs_result fp_of_vsock f_rx_ff f_rx_len].
  assert (Hh' : Hhi (VSockRec.set_sends s script)) by exact Hh.
  destruct (poll_status _ _ Hh' E T) as [K|K].
  - unfold ooq_is_empty in K. cbn [v_rx VSockRec.set_sends] in K. rewrite K. rewrite eqb_reflx. reflexivity.
  - destruct (negb _); [|reflexivity].
    apply pkts_nonempty in K. destruct (map fpacket_of (rev (v_out s'))); [congruence | reflexivity].
Qed.

Theorem c07_reasm_change_ok_trace : forall cfg ops (s : vsock),
  Hhi s -> forallb (c07_reasm_change_ok cfg) (ftrace cci s ops) = true.
Proof.
  intros cfg. apply (ftrace_forallb_live cci Hhi).
  - intros s o H. apply c07_reasm_change_ok_step; exact H.
  - apply hhi_vstep_live.
Qed.

Theorem c07_reasm_change_ok_every_trace : forall (cfg : vconfig) mk c (s0 : vsock) ops,
  vsock_new cci mk c = Some s0 -> forallb (c07_reasm_change_ok cfg) (ftrace cci s0 ops) = true.
Proof. intros cfg mk c s0 ops H. apply c07_reasm_change_ok_trace. eapply hhi_vsock_new; exact H. Qed.

(* ------------------------------------------------------------------ c07_trigger_ok *)
(* what the walk knows about the inbox *)
Definition ib_inv (ib : c07_inbox) (s : vsock) : Prop :=
  match ib with
  | CiEmpty => v_inbox s = [] /\ v_inbox_closed s = false
  | CiHead h => v_inbox_closed s = false /\ exists m rest, v_inbox s = m :: rest /\ m_hdr m = h
  | CiUnknown => True
  end.

Lemma ib_inv_same ib (s s' : vsock) :
  v_inbox s' = v_inbox s -> v_inbox_closed s' = v_inbox_closed s -> ib_inv ib s -> ib_inv ib s'.
Proof. intros E1 E2. destruct ib; cbn [ib_inv]; rewrite ?E1, ?E2; auto. Qed.

Lemma nonpoll_inbox (s : vsock) o :
  match o with VoPoll _ | VoDeliver _ | VoCloseInbox => False | _ => True end ->
  v_inbox (vstep_state cci s o) = v_inbox s /\ v_inbox_closed (vstep_state cci s o) = v_inbox_closed s.
Proof.
  intros N. unfold vstep_state. destruct o; try contradiction; cbn [vstep];
    repeat match goal with |- context [if ?c then _ else _] => destruct c end;
    repeat match goal with |- context [let '(_, _) := ?t in _] => destruct t end;
    cbn [fst]; split; reflexivity.
Qed.

Lemma c07_trigger_claim_ok ib (s : vsock) sc :
  Hhi s -> ib_inv ib s -> c07_trigger_claim ib (fstep_of cci s (VoPoll sc)) = true.
Proof.
  intros Hh Hi. destruct ib as [|h|]; try reflexivity. cbn [c07_trigger_claim].
  destruct (c07_poll_done (fstep_of cci s (VoPoll sc))) eqn:D; [|reflexivity].
  destruct (poll cci (VSockRec.set_sends s sc)) as [s' r] eqn:E.
  destruct (poll_done_inv cci s sc s' r E D) as (R & T). subst r.
  rewrite (fstep_of_poll cci s sc s' _ E). cbn [andb].
  unfold fp_ooq_empty, c07_pkts.
  cbn [fs_pre fs_post fs_result fp_of_vsock f_rx_ff f_rx_len f_state f_last_consumed].
  match goal with |- (if ?g then _ else _) = true => destruct g eqn:G end; [|reflexivity].
  destruct Hi as (Hc & m & rest & Hm & Hh0). subst h.
  assert (Hh' : Hhi (VSockRec.set_sends s sc)) by exact Hh.
  assert (K : v_out s' <> []).
  { apply (poll_trigger (VSockRec.set_sends s sc) s' m rest Hh' Hm); [exact G | exact E | exact T]. }
  apply pkts_nonempty in K. destruct (map fpacket_of (rev (v_out s'))); [congruence | reflexivity].
Qed.

Theorem c07_trigger_walk_trace : forall ops ib (s : vsock),
  Hhi s -> ib_inv ib s -> c07_trigger_walk ib (ftrace cci s ops) = true.
Proof.
  induction ops as [|o rest IH]; intros ib s Hh Hi; [reflexivity|].
  rewrite ftrace_cons'. cbn [c07_trigger_walk]. rewrite fstep_of_event.
  destruct o; cbn [fevent_of];
    try (rewrite nonpoll_not_finished by (intros sc0; discriminate);
         apply IH; [apply hhi_vstep_live; [exact Hh | apply nonpoll_not_finished; intros sc0; discriminate]|];
         match goal with |- ib_inv _ (vstep_state cci s ?o) =>
           destruct (nonpoll_inbox s o I) as [E1 E2] end; eapply ib_inv_same; eassumption).
  - (* poll *)
    apply andb_true_intro. split; [apply c07_trigger_claim_ok; assumption|].
    destruct (poll_finished (vstep_out cci s (VoPoll script))) eqn:F; [reflexivity|].
    apply IH; [apply hhi_vstep_live; assumption|].
    destruct (c07_poll_done (fstep_of cci s (VoPoll script))) eqn:D.
    + apply c07_poll_done_ibe. exact D.
    + destruct ib; cbn [ib_inv]; auto. apply c07_poll_live_ibe; [exact F | exact Hi].
  - (* deliver *)
    rewrite nonpoll_not_finished by (intros sc0; discriminate).
    apply IH; [apply hhi_vstep_live; [exact Hh | apply nonpoll_not_finished; intros sc0; discriminate]|].
    unfold vstep_state. cbn [vstep].
    destruct ib as [|h|]; cbn [ib_inv] in *; auto.
    + destruct Hi as [H1 H2]. rewrite H2. cbn [fst]. vsimpl_goal. rewrite H1. cbn [app].
      split; [exact H2|]. exists m, []. split; reflexivity.
    + destruct Hi as (H2 & m0 & rest0 & H1 & H3). rewrite H2. cbn [fst]. vsimpl_goal. rewrite H1.
      cbn [app]. split; [exact H2|]. exists m0, (rest0 ++ [m]). split; [reflexivity | exact H3].
  - (* close *)
    rewrite nonpoll_not_finished by (intros sc0; discriminate).
    apply IH; [apply hhi_vstep_live; [exact Hh | apply nonpoll_not_finished; intros sc0; discriminate]|].
    exact I.
Qed.

Theorem c07_trigger_ok_from : forall cfg ops (s : vsock),
  Hhi s -> v_inbox s = [] -> v_inbox_closed s = false ->
  c07_trigger_ok cfg (ftrace cci s ops) = true.
Proof.
  intros cfg ops s Hh H1 H2. unfold c07_trigger_ok. apply c07_trigger_walk_trace; [exact Hh|].
  split; assumption.
Qed.

Theorem c07_trigger_ok_every_trace : forall (cfg : vconfig) mk c (s0 : vsock) ops,
  vsock_new cci mk c = Some s0 -> c07_trigger_ok cfg (ftrace cci s0 ops) = true.
Proof.
  intros cfg mk c s0 ops H. destruct (ibe_vsock_new cci mk c s0 H) as [H1 H2].
  apply c07_trigger_ok_from; [eapply hhi_vsock_new; exact H | exact H1 | exact H2].
Qed.

End WithCC.

(* C17, step level: the step predicates of Conn/C17_Pred.v hold of EVERY step of the model
   (every state, every event), and therefore along every trace. *)
From Utp Require Import Base.Prelude Wire.SeqNr Wire.Header Wire.Header_Proofs Rtt.Rtte Mtu.SegSizes
  Rx.Rx Tx.Ring Tx.Segments Conn.Recovery Conn.Msg Conn.VSockRec Conn.VSock Conn.VSockRun Conn.VObs
  Conn.VSock_Lemmas Conn.VSock_LemmasFin Conn.C17_Pred Conn.C17_Proofs Conn.C17_StepLemmas.

Section WithCC.
Context {CC : Type} (cci : cc_iface CC).
Notation vsock := (vsock CC).

(* ------------------------------------------------------------------ a whole poll under G0 *)
Definition pG0 (s00 s' : vsock) (r : poll_result) : Prop :=
  match r with
  | PollPending | PollPanic => G0 s00 s'
  | PollReadyOk => exists s1, G0 s00 s1 /\ s' = just_before_death s1 None
  | PollReadyErr e => exists s1, G0 s00 s1 /\ s' = just_before_death s1 (Some e)
  end.

Lemma poll_loop_G0 fuel (s00 : vsock) :
  pG0 s00 (fst (poll_loop cci fuel s00)) (snd (poll_loop cci fuel s00)).
Proof.
  apply (poll_loop_ind cci (fun t => G0 s00 t) (fun s' r => pG0 s00 s' r)).
  - intros s H. exact H.
  - intros s H. pose proof (poll_body_G0 cci s) as B.
    destruct (poll_body cci s) as [s' r|s'|]; cbn [bG0] in B; [|eapply G0_trans; eauto|exact I].
    destruct r; cbn [pG0].
    + eapply G0_trans; eauto.
    + destruct B as (s1 & B1 & B2). exists s1. split; [eapply G0_trans; eauto|exact B2].
    + destruct B as (s1 & B1 & B2). exists s1. split; [eapply G0_trans; eauto|exact B2].
    + contradiction.
  - apply G0_refl.
Qed.

Lemma poll_G0 (s s' : vsock) r : poll cci s = (s', r) -> pG0 (poll_init s) s' r.
Proof.
  intro E. rewrite poll_unfold in E. pose proof (poll_loop_G0 64 (poll_init s)) as H.
  rewrite E in H. exact H.
Qed.

(* ------------------------------------------------------------------ packets of a step *)
Lemma forallb_pkts (P : fpacket -> bool) (l : list packet) :
  (forall p, In p l -> P (fpacket_of p) = true) -> forallb P (map fpacket_of (rev l)) = true.
Proof.
  intro H. apply forallb_forall. intros x Hx. apply in_map_iff in Hx. destruct Hx as (p & <- & Hp).
  apply in_rev in Hp. auto.
Qed.

Lemma pkt_is_of t p : pkt_is t (fpacket_of p) = ptype_eqb (ch_type (p_hdr p)) t.
Proof. reflexivity. Qed.

Lemma ptype_eqb_false a b : a <> b -> ptype_eqb a b = false.
Proof. intro H. destruct (ptype_eqb a b) eqn:E; [|reflexivity]. apply ptype_eqb_iff in E. contradiction. Qed.

(* a step that is not a poll satisfies every predicate that only judges polls *)
Lemma fstep_not_poll (s : vsock) o :
  (forall sc, o <> VoPoll sc) -> forall sc, fs_event (fstep_of cci s o) <> FePoll sc.
Proof. intros H sc. rewrite fstep_of_event. destruct o; try discriminate. exfalso. eapply H; reflexivity. Qed.

(* ================================================================== c17_fin_number_step_ok *)
(* what a whole poll guarantees about our FIN: the state moves by st_rel, and if a number is recorded at
   the end every ST_FIN of the poll carries it *)
Definition FN (s s' : vsock) : Prop :=
  st_rel (v_state s) (v_state s') /\
  forall f, our_fin_if_unacked (v_state s') = Some f ->
    forall p, In p (v_out s') -> ch_type (p_hdr p) = ST_FIN -> ch_seq (p_hdr p) = f.

Lemma G0_FN (s00 s' : vsock) : v_out s00 = [] -> G0 s00 s' -> FN s00 s'.
Proof.
  intros Ho (A1 & (l & A2 & A3) & _). split; [exact A1|].
  intros f Hf p Hp Ht. rewrite A2, Ho, app_nil_r in Hp. rewrite Forall_forall in A3.
  destruct (A3 p Hp) as (_ & _ & K). destruct (K Ht) as (_ & K2). apply K2. exact Hf.
Qed.

Lemma poll_FN (s s' : vsock) r : poll cci s = (s', r) -> FN s s'.
Proof.
  intro E. apply poll_G0 in E.
  assert (Ho : v_out (poll_init s) = []) by reflexivity.
  assert (Hst : v_state (poll_init s) = v_state s) by reflexivity.
  cut (FN (poll_init s) s'). { unfold FN. rewrite Hst. auto. }
  destruct r; cbn [pG0] in E.
  - apply G0_FN; assumption.
  - destruct E as (s1 & E1 & ->). apply G0_FN; [exact Ho|]. apply jbd_G0; auto.
  - destruct E as (s1 & E1 & ->).
    destruct (is_local_fin_or_later (v_state s1)) eqn:El.
    + apply G0_FN; [exact Ho|]. apply jbd_G0; auto.
    + pose proof (jbd_spec s1 (Some e)) as J. cbv zeta in J. destruct J as (J1 & _).
      split; [rewrite J1; apply E1|]. intros f Hf. rewrite J1 in Hf.
      destruct (v_state s1); cbn [is_local_fin_or_later our_fin_if_unacked] in *; discriminate.
  - apply G0_FN; assumption.
Qed.

Theorem c17_fin_number_step_ok_step : forall cfg (s : vsock) o,
  c17_fin_number_step_ok cfg (fstep_of cci s o) = true.
Proof.
  intros cfg s o. destruct o;
    try (unfold c17_fin_number_step_ok; rewrite fstep_of_event; reflexivity).
  destruct (poll cci (VSockRec.set_sends s script)) as [s' r] eqn:E.
  rewrite (fstep_of_poll cci s script s' r E). unfold c17_fin_number_step_ok, fin_of_state.
  cbn [fs_event fs_result fs_pre fs_post fp_of_vsock f_state].
  apply poll_FN in E. destruct E as (E1 & E2).
  change (v_state (VSockRec.set_sends s script)) with (v_state s) in E1.
  apply andb_true_intro. split.
  - destruct (our_fin_if_unacked (v_state s)) as [f|] eqn:Ef; [|reflexivity].
    destruct (our_fin_if_unacked (v_state s')) as [f'|] eqn:Ef'; [|reflexivity].
    apply Z.eqb_eq. eapply st_rel_fin; eauto.
  - destruct (our_fin_if_unacked (v_state s')) as [f|] eqn:Ef; [|reflexivity].
    apply forallb_pkts. intros p Hp. rewrite pkt_is_of.
    destruct (ptype_eqb (ch_type (p_hdr p)) ST_FIN) eqn:Et; [|reflexivity].
    apply ptype_eqb_iff in Et. apply Z.eqb_eq. exact (E2 f eq_refl p Hp Et).
Qed.

(* ================================================================== c17_reset_ok *)
(* no datagram of a poll is an ST_RESET *)
Lemma G0_no_reset (s00 s1 : vsock) :
  v_out s00 = [] -> G0 s00 s1 -> forall p, In p (v_out s1) -> ch_type (p_hdr p) <> ST_RESET.
Proof.
  intros Ho (_ & (l & A2 & A3) & _) p Hp. rewrite A2, Ho, app_nil_r in Hp. rewrite Forall_forall in A3.
  destruct (A3 p Hp) as (K & _). exact K.
Qed.

Lemma jbd_no_reset (s1 : vsock) e :
  (forall p, In p (v_out s1) -> ch_type (p_hdr p) <> ST_RESET) ->
  forall p, In p (v_out (just_before_death s1 e)) -> ch_type (p_hdr p) <> ST_RESET.
Proof.
  intros H p Hp. pose proof (jbd_spec s1 e) as J. cbv zeta in J.
  destruct J as (_ & _ & _ & _ & _ & _ & [J|(_ & _ & q & J & Hq & _)]); rewrite J in Hp.
  - apply H; exact Hp.
  - destruct Hp as [<-|Hp]; [rewrite Hq; discriminate|apply H; exact Hp].
Qed.

Theorem poll_no_reset_pkt (s s' : vsock) r :
  poll cci s = (s', r) -> forall p, In p (v_out s') -> ch_type (p_hdr p) <> ST_RESET.
Proof.
  intro E. apply poll_G0 in E.
  assert (Ho : v_out (poll_init s) = []) by reflexivity.
  destruct r; cbn [pG0] in E.
  - apply (G0_no_reset _ _ Ho E).
  - destruct E as (s1 & E1 & ->). apply jbd_no_reset. apply (G0_no_reset _ _ Ho E1).
  - destruct E as (s1 & E1 & ->). apply jbd_no_reset. apply (G0_no_reset _ _ Ho E1).
  - apply (G0_no_reset _ _ Ho E).
Qed.

(* the invariant of the restart loop: no FIN emitted so far in this poll, or nothing is left in the
   inbox (so no message, in particular no reset, can be processed any more) *)
Definition NF (s : vsock) : Prop := Forall nofin (v_out s) \/ v_inbox s = [].

(* what is claimed of a poll that reports the reset *)
Definition RQ (s' : vsock) (r : poll_result) : Prop :=
  r = PollReadyErr ErrStResetReceived -> v_state s' = Closed /\ Forall nofin (v_out s').

Definition RP (r : body_res) : Prop :=
  match r with BrReturn s' r => RQ s' r | BrRestart s' => NF s' | BrPanic => True end.

Lemma NF_step (s s' : vsock) : NF s -> GN s s' -> (v_inbox s = [] -> v_inbox s' = []) -> NF s'.
Proof.
  intros [H|H] (l & E & Hl) Hi; [left; rewrite E; apply Forall_app; auto|right; auto].
Qed.

Lemma G_inbox (s s' : vsock) : G s s' -> v_inbox s = [] -> v_inbox s' = [].
Proof. intros ((_ & _ & H & _) & _). exact H. Qed.

Lemma reset_dec (e : verror) : e = ErrStResetReceived \/ e <> ErrStResetReceived.
Proof. destruct e; auto; right; discriminate. Qed.

Lemma RP_die_other (s : vsock) e : e <> ErrStResetReceived -> RP (die s e).
Proof. intro H. unfold die, RP, RQ. intro E. injection E as E. contradiction. Qed.

Lemma RP_die_reset (s : vsock) :
  v_state s = Closed -> Forall nofin (v_out s) -> RP (die s ErrStResetReceived).
Proof.
  intros Hs Ho. unfold die, RP, RQ. intros _.
  pose proof (jbd_spec s (Some ErrStResetReceived)) as J. cbv zeta in J.
  destruct J as (J1 & _ & _ & _ & _ & _ & J7). split; [congruence|].
  destruct J7 as [J7|(Hl & _)]; [rewrite J7; exact Ho|rewrite Hs in Hl; discriminate].
Qed.

Lemma bail_RP {A} (m : step A) k :
  match m with
  | SOk s1 a => (v_restart s1 = true -> NF s1) /\ (v_restart s1 = false -> RP (k s1 a))
  | SErr s1 e => RP (die s1 e)
  | SPanic => True
  end -> RP (bail m k).
Proof.
  unfold bail. destruct m as [s1 a|s1 e|]; auto. intros [H1 H2].
  destruct (v_restart s1) eqn:R; [apply H1; reflexivity|apply H2; reflexivity].
Qed.

Lemma pend_RP {A} (m : step A) k :
  match m with
  | SOk s1 a => (v_restart s1 = true -> NF s1) /\
                (v_restart s1 = false -> v_transport_pending s1 = false -> RP (k s1 a))
  | SErr s1 e => RP (die s1 e)
  | SPanic => True
  end -> RP (pend m k).
Proof.
  intro H. unfold pend. apply bail_RP. destruct m as [s1 a|s1 e|]; auto. destruct H as [H1 H2].
  split; [exact H1|]. intro R. destruct (v_transport_pending s1) eqn:T; [unfold RP, RQ; discriminate|].
  rewrite R. apply H2; [exact R|reflexivity].
Qed.

(* poll_body in three parts *)
Definition body_head (k : vsock -> body_res) (s0 : vsock) : body_res :=
  pend (maybe_send_syn_ack (body_start s0)) (fun s _ =>
  pend (if immediate_ack_to_transmit s then send_ack s else SOk s false) (fun s _ =>
  pend (process_all_incoming_messages cci s) (fun s _ => k s))).

Definition body_mid (k : vsock -> body_res) (s : vsock) : body_res :=
  let '(rx1, fr, w) := rx_flush (v_rx s) in
  match fr with
  | FlPanic => BrPanic
  | FlOk _ =>
    let s := add_wakes (set_rx s rx1) (rx_wakes w) in
    if timer_expired (v_t_inactivity s) (v_now s) then die s ErrRemoteInactiveForTooLong
    else
    bail (split_tx_queue_into_segments cci s) (fun s _ =>
    pend (send_tx_queue cci s) (fun s _ => k s))
  end.

Lemma body_front_parts k s0 : body_front cci k s0 = body_head (body_mid k) s0.
Proof. reflexivity. Qed.

Lemma imm_GN (s : vsock) : sGN s (if immediate_ack_to_transmit s then send_ack s else SOk s false).
Proof. destruct (immediate_ack_to_transmit s); [apply send_ack_GN|apply GN_refl]. Qed.

Lemma imm_G (s : vsock) : sG s (if immediate_ack_to_transmit s then send_ack s else SOk s false).
Proof. destruct (immediate_ack_to_transmit s); [apply send_ack_G|apply G_refl]. Qed.

Lemma head_RP k (t : vsock) :
  NF t -> (forall s3, NF s3 -> v_restart s3 = false -> RP (k s3)) -> RP (body_head k t).
Proof.
  intros Hn Hk. unfold body_head.
  assert (N0 : NF (body_start t)) by exact Hn. revert N0. generalize (body_start t). intros s N0.
  apply pend_RP. pose proof (maybe_send_syn_ack_GN s) as A1. pose proof (maybe_send_syn_ack_G s) as B1.
  destruct (maybe_send_syn_ack s) as [s1 a1|s1 e1|]; cbn [sGN sG] in *; [|apply RP_die_other; apply A1|exact I].
  assert (N1 : NF s1) by (eapply NF_step; [exact N0|exact A1|apply G_inbox; exact B1]).
  split; [auto|]. intros _ _.
  apply pend_RP. pose proof (imm_GN s1) as A2. pose proof (imm_G s1) as B2.
  destruct (if immediate_ack_to_transmit s1 then send_ack s1 else SOk s1 false) as [s2 a2|s2 e2|];
    cbn [sGN sG] in *; [|apply RP_die_other; apply A2|exact I].
  assert (N2 : NF s2) by (eapply NF_step; [exact N1|exact A2|apply G_inbox; exact B2]).
  split; [auto|]. intros _ _.
  apply pend_RP. pose proof (process_all_N cci s2) as A3. pose proof (process_all_G cci s2) as B3.
  destruct (process_all_incoming_messages cci s2) as [s3 a3|s3 e3|]; cbn [rlN sGr] in *; [| |exact I].
  - assert (N3 : NF s3).
    { destruct A3 as [A3|A3]; [|right; exact A3]. eapply NF_step; [exact N2|exact A3|apply G_inbox; exact B3]. }
    split; [auto|]. intros R3 _. apply Hk; assumption.
  - destruct (reset_dec e3) as [->|Hne]; [|apply RP_die_other; exact Hne].
    destruct (A3 eq_refl) as (C1 & C2 & (l & C3 & C4)).
    apply RP_die_reset; [exact C1|]. destruct N2 as [N2|N2]; [|contradiction].
    rewrite C3. apply Forall_app; auto.
Qed.

Lemma back_RP (s6 : vsock) : v_restart s6 = false -> RP (body_back s6).
Proof.
  intro R6. unfold body_back. cbv zeta.
  assert (R7 : v_restart (if should_close_on_own_initiative s6 then transition_to_fin_wait_1 s6 else s6) = false).
  { destruct (should_close_on_own_initiative s6); [rewrite transition_to_fin_wait_1_restart|]; exact R6. }
  revert R7. generalize (if should_close_on_own_initiative s6 then transition_to_fin_wait_1 s6 else s6).
  intros s7 R7.
  apply pend_RP. pose proof (maybe_send_fin_G s7) as B8.
  destruct (maybe_send_fin s7) as [s8 b8|s8 e8|] eqn:E8; cbn [sG] in *; [|apply RP_die_other; apply B8|exact I].
  pose proof (maybe_send_fin_restart _ _ _ E8) as R8. rewrite R7 in R8.
  split; [intro X; congruence|]. intros _ _.
  apply pend_RP. pose proof (maybe_send_ack_G s8) as B9.
  destruct (maybe_send_ack s8) as [s9 b9|s9 e9|] eqn:E9; cbn [sG] in *; [|apply RP_die_other; apply B9|exact I].
  pose proof (maybe_send_ack_restart _ _ _ E9) as R9. rewrite R8 in R9.
  split; [intro X; congruence|]. intros _ _.
  unfold body_finish. destruct (state_is_closed _ _); [unfold RP, RQ; discriminate|].
  cbv zeta. destruct (next_timer_to_poll _) as [sx tx]. unfold RP, RQ. discriminate.
Qed.

Lemma mid_RP (s3 : vsock) : NF s3 -> v_restart s3 = false -> RP (body_mid body_back s3).
Proof.
  intros N3 R3. unfold body_mid. destruct (rx_flush (v_rx s3)) as [[rx1 fr] w]. destruct fr; [|exact I].
  cbv zeta.
  assert (N4 : NF (add_wakes (set_rx s3 rx1) (rx_wakes w))) by exact N3.
  assert (R4 : v_restart (add_wakes (set_rx s3 rx1) (rx_wakes w)) = false) by exact R3.
  revert N4 R4. generalize (add_wakes (set_rx s3 rx1) (rx_wakes w)). intros s4 N4 R4.
  destruct (timer_expired _ _); [apply RP_die_other; discriminate|].
  apply bail_RP. pose proof (split_keeps cci s4) as K. pose proof (split_G cci s4) as B5.
  destruct (split_tx_queue_into_segments cci s4) as [s5 a5|s5 e5|]; cbn [sG] in *;
    [|apply RP_die_other; apply B5|exact I].
  destruct K as [K1 K2].
  assert (N5 : NF s5) by (eapply NF_step; [exact N4|apply GN_eq; exact K1|apply G_inbox; exact B5]).
  split; [auto|]. intros R5.
  apply pend_RP. pose proof (send_tx_queue_G cci s5) as B6.
  destruct (send_tx_queue cci s5) as [s6 a6|s6 e6|] eqn:E6; cbn [sG] in *;
    [|apply RP_die_other; apply B6|exact I].
  split.
  - intro R6. eapply NF_step; [exact N5|eapply stq_restart_data; eauto|apply G_inbox; exact B6].
  - intros R6 _. apply back_RP. exact R6.
Qed.

Lemma poll_body_RP (t : vsock) : NF t -> RP (poll_body cci t).
Proof.
  intro Hn. rewrite poll_body_parts, body_front_parts. apply head_RP; [exact Hn|].
  intros s3 N3 R3. apply mid_RP; assumption.
Qed.

Theorem poll_reset (s s' : vsock) :
  poll cci s = (s', PollReadyErr ErrStResetReceived) ->
  v_state s' = Closed /\
  forall p, In p (v_out s') -> ch_type (p_hdr p) <> ST_FIN /\ ch_type (p_hdr p) <> ST_RESET.
Proof.
  intro E. pose proof (poll_no_reset_pkt _ _ _ E) as Hr.
  rewrite poll_unfold in E.
  pose proof (poll_loop_ind cci NF RQ) as H.
  assert (H0 : RQ s' (PollReadyErr ErrStResetReceived)).
  { specialize (H ltac:(intros; unfold RQ; discriminate)).
    assert (Hb : forall t, NF t -> match poll_body cci t with
                                   | BrReturn s'0 r => RQ s'0 r | BrRestart s'0 => NF s'0 | BrPanic => True end).
    { intros t Ht. exact (poll_body_RP t Ht). }
    specialize (H Hb 64%nat (poll_init s)). rewrite E in H. apply H. left. constructor. }
  destruct (H0 eq_refl) as (A1 & A2). split; [exact A1|].
  intros p Hp. rewrite Forall_forall in A2. split; [apply A2; exact Hp|apply Hr; exact Hp].
Qed.

Theorem c17_reset_ok_step : forall cfg (s : vsock) o, c17_reset_ok cfg (fstep_of cci s o) = true.
Proof.
  intros cfg s o. destruct o;
    try (unfold c17_reset_ok; rewrite fstep_of_event; reflexivity).
  destruct (poll cci (VSockRec.set_sends s script)) as [s' r] eqn:E.
  rewrite (fstep_of_poll cci s script s' r E). unfold c17_reset_ok.
  cbn [fs_event fs_result fs_post fp_of_vsock f_state].
  destruct r as [| |e|]; try reflexivity.
  destruct e; try reflexivity. cbn [verror_is_reset].
  apply poll_reset in E. destruct E as (E1 & E2). rewrite E1. cbn [state_is_closed_st andb].
  apply forallb_pkts. intros p Hp. rewrite !pkt_is_of. destruct (E2 p Hp) as (A & B).
  rewrite (ptype_eqb_false _ _ A), (ptype_eqb_false _ _ B). reflexivity.
Qed.

End WithCC.

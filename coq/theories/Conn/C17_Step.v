(* C17, step level: the step predicates of Conn/C17_Pred.v hold of EVERY step of the model
   (every state, every event), and therefore along every trace.
     c17_reset_ok            no precondition                      c17_reset_ok_step / _trace
     c17_fin_number_step_ok  no precondition                      c17_fin_number_step_ok_step / _trace
     c17_synack_ok           under syn_pre (an invariant)         c17_synack_ok_step / _trace
     c17_fin_after_data_ok   FALSE as written (c17_fin_after_data_ok_refuted); holds unless the channel is
                             closed and the poll reports ErrSend  c17_fin_after_data_ok_step_gen / _step_inv,
                             _guarded_trace, _noerr_trace, _ok_open_trace
     c17_reset_trace_ok      along every trace from vsock_new     c17_reset_trace_ok_trace
   Guards defined here (boolean, on the step): c17_seg_bounds, c17_not_err_send, c17_fin_after_data_guard. *)
From Utp Require Import Base.Prelude Wire.SeqNr Wire.Header Wire.Header_Proofs Rtt.Rtte Mtu.SegSizes
  Rx.Rx Tx.Ring Tx.Segments Conn.Recovery Conn.Msg Conn.VSockRec Conn.VSock Conn.VSockRun Conn.VObs
  Conn.VSock_Lemmas Conn.VSock_LemmasTx Conn.VSock_LemmasFin Conn.C17_Pred Conn.C17_Proofs Conn.C17_StepLemmas.

Section WithCC.
Context {CC : Type} (cci : cc_iface CC).
Notation vsock := (vsock CC).

(* ------------------------------------------------------------------ a whole poll under G0 *)
Definition pG0 (s00 s' : vsock) (r : poll_result) : Prop :=
  match r with
  | PollPending => G0 s00 s' /\ (v_transport_pending s' = false -> not_closed s')
  | PollPanic => G0 s00 s'
  | PollReadyOk => exists s1, G0 s00 s1 /\ s' = just_before_death s1 None
  | PollReadyErr e => exists s1, G0 s00 s1 /\ s' = just_before_death s1 (Some e)
  end.

Lemma poll_loop_G0 fuel (s00 : vsock) :
  pG0 s00 (fst (poll_loop cci fuel s00)) (snd (poll_loop cci fuel s00)).
Proof.
  apply (poll_loop_ind cci (fun t => G0 s00 t) (fun s' r => pG0 s00 s' r)).
  - intros s H. exact H.
  - intros s H. pose proof (poll_body_G0 cci s) as B.
    destruct (poll_body cci s) as [s' r|s'|]; cbn [bG0] in B; [|eapply G0_trans; eauto|exact I].
    destruct r; cbn [pG0].
    + destruct B as [B1 B2]. split; [eapply G0_trans; eauto|exact B2].
    + destruct B as (s1 & B1 & B2). exists s1. split; [eapply G0_trans; eauto|exact B2].
    + destruct B as (s1 & B1 & B2). exists s1. split; [eapply G0_trans; eauto|exact B2].
    + contradiction.
  - apply G0_refl.
Qed.

Lemma poll_G0 (s s' : vsock) r : poll cci s = (s', r) -> pG0 (poll_init s) s' r.
Proof.
  intro E. rewrite poll_unfold in E. pose proof (poll_loop_G0 64 (poll_init s)) as H.
  rewrite E in H. exact H.
Qed.

(* ------------------------------------------------------------------ packets of a step *)
Lemma forallb_pkts (P : fpacket -> bool) (l : list packet) :
  (forall p, In p l -> P (fpacket_of p) = true) -> forallb P (map fpacket_of (rev l)) = true.
Proof.
  intro H. apply forallb_forall. intros x Hx. apply in_map_iff in Hx. destruct Hx as (p & <- & Hp).
  apply in_rev in Hp. auto.
Qed.

Lemma pkt_is_of t p : pkt_is t (fpacket_of p) = ptype_eqb (ch_type (p_hdr p)) t.
Proof. reflexivity. Qed.

Lemma ptype_eqb_false a b : a <> b -> ptype_eqb a b = false.
Proof. intro H. destruct (ptype_eqb a b) eqn:E; [|reflexivity]. apply ptype_eqb_iff in E. contradiction. Qed.

(* a step that is not a poll satisfies every predicate that only judges polls *)
Lemma fstep_not_poll (s : vsock) o :
  (forall sc, o <> VoPoll sc) -> forall sc, fs_event (fstep_of cci s o) <> FePoll sc.
Proof. intros H sc. rewrite fstep_of_event. destruct o; try discriminate. exfalso. eapply H; reflexivity. Qed.

(* ================================================================== c17_fin_number_step_ok *)
(* what a whole poll guarantees about our FIN: the state moves by st_rel, and if a number is recorded at
   the end every ST_FIN of the poll carries it *)
Definition FN (s s' : vsock) : Prop :=
  st_rel (v_state s) (v_state s') /\
  forall f, our_fin_if_unacked (v_state s') = Some f ->
    forall p, In p (v_out s') -> ch_type (p_hdr p) = ST_FIN -> ch_seq (p_hdr p) = f.

Lemma G0_FN (s00 s' : vsock) : v_out s00 = [] -> G0 s00 s' -> FN s00 s'.
Proof.
  intros Ho (A1 & (l & A2 & A3) & _). split; [exact A1|].
  intros f Hf p Hp Ht. rewrite A2, Ho, app_nil_r in Hp. rewrite Forall_forall in A3.
  destruct (A3 p Hp) as (_ & _ & K). destruct (K Ht) as (_ & K2). apply K2. exact Hf.
Qed.

Lemma poll_FN (s s' : vsock) r : poll cci s = (s', r) -> FN s s'.
Proof.
  intro E. apply poll_G0 in E.
  assert (Ho : v_out (poll_init s) = []) by reflexivity.
  assert (Hst : v_state (poll_init s) = v_state s) by reflexivity.
  cut (FN (poll_init s) s'). { unfold FN. rewrite Hst. auto. }
  destruct r; cbn [pG0] in E.
  - apply G0_FN; [exact Ho|apply E].
  - destruct E as (s1 & E1 & ->). apply G0_FN; [exact Ho|]. apply jbd_G0; auto.
  - destruct E as (s1 & E1 & ->).
    destruct (is_local_fin_or_later (v_state s1)) eqn:El.
    + apply G0_FN; [exact Ho|]. apply jbd_G0; auto.
    + pose proof (jbd_spec s1 (Some e)) as J. cbv zeta in J. destruct J as (J1 & _).
      split; [rewrite J1; apply E1|]. intros f Hf. rewrite J1 in Hf.
      destruct (v_state s1); cbn [is_local_fin_or_later our_fin_if_unacked] in *; discriminate.
  - apply G0_FN; assumption.
Qed.

Theorem c17_fin_number_step_ok_step : forall cfg (s : vsock) o,
  c17_fin_number_step_ok cfg (fstep_of cci s o) = true.
Proof.
  intros cfg s o. destruct o;
    try (unfold c17_fin_number_step_ok; rewrite fstep_of_event; reflexivity).
  destruct (poll cci (VSockRec.set_sends s script)) as [s' r] eqn:E.
  rewrite (fstep_of_poll cci s script s' r E). unfold c17_fin_number_step_ok, fin_of_state.
  cbn [fs_event fs_result fs_pre fs_post fp_of_vsock f_state].
  apply poll_FN in E. destruct E as (E1 & E2).
  change (v_state (VSockRec.set_sends s script)) with (v_state s) in E1.
  apply andb_true_intro. split.
  - destruct (our_fin_if_unacked (v_state s)) as [f|] eqn:Ef; [|reflexivity].
    destruct (our_fin_if_unacked (v_state s')) as [f'|] eqn:Ef'; [|reflexivity].
    apply Z.eqb_eq. eapply st_rel_fin; eauto.
  - destruct (our_fin_if_unacked (v_state s')) as [f|] eqn:Ef; [|reflexivity].
    apply forallb_pkts. intros p Hp. rewrite pkt_is_of.
    destruct (ptype_eqb (ch_type (p_hdr p)) ST_FIN) eqn:Et; [|reflexivity].
    apply ptype_eqb_iff in Et. apply Z.eqb_eq. exact (E2 f eq_refl p Hp Et).
Qed.

(* ================================================================== c17_reset_ok *)
(* no datagram of a poll is an ST_RESET *)
Lemma G0_no_reset (s00 s1 : vsock) :
  v_out s00 = [] -> G0 s00 s1 -> forall p, In p (v_out s1) -> ch_type (p_hdr p) <> ST_RESET.
Proof.
  intros Ho (_ & (l & A2 & A3) & _) p Hp. rewrite A2, Ho, app_nil_r in Hp. rewrite Forall_forall in A3.
  destruct (A3 p Hp) as (K & _). exact K.
Qed.

Lemma jbd_no_reset (s1 : vsock) e :
  (forall p, In p (v_out s1) -> ch_type (p_hdr p) <> ST_RESET) ->
  forall p, In p (v_out (just_before_death s1 e)) -> ch_type (p_hdr p) <> ST_RESET.
Proof.
  intros H p Hp. pose proof (jbd_spec s1 e) as J. cbv zeta in J.
  destruct J as (_ & _ & _ & _ & _ & _ & [J|(_ & _ & q & J & Hq & _)]); rewrite J in Hp.
  - apply H; exact Hp.
  - destruct Hp as [<-|Hp]; [rewrite Hq; discriminate|apply H; exact Hp].
Qed.

Theorem poll_no_reset_pkt (s s' : vsock) r :
  poll cci s = (s', r) -> forall p, In p (v_out s') -> ch_type (p_hdr p) <> ST_RESET.
Proof.
  intro E. apply poll_G0 in E.
  assert (Ho : v_out (poll_init s) = []) by reflexivity.
  destruct r; cbn [pG0] in E.
  - apply (G0_no_reset _ _ Ho (proj1 E)).
  - destruct E as (s1 & E1 & ->). apply jbd_no_reset. apply (G0_no_reset _ _ Ho E1).
  - destruct E as (s1 & E1 & ->). apply jbd_no_reset. apply (G0_no_reset _ _ Ho E1).
  - apply (G0_no_reset _ _ Ho E).
Qed.

(* the invariant of the restart loop: no FIN emitted so far in this poll, or nothing is left in the
   inbox (so no message, in particular no reset, can be processed any more) *)
Definition NF (s : vsock) : Prop := Forall nofin (v_out s) \/ v_inbox s = [].

(* what is claimed of a poll that reports the reset *)
Definition RQ (s' : vsock) (r : poll_result) : Prop :=
  r = PollReadyErr ErrStResetReceived -> v_state s' = Closed /\ Forall nofin (v_out s').

Definition RP (r : body_res) : Prop :=
  match r with BrReturn s' r => RQ s' r | BrRestart s' => NF s' | BrPanic => True end.

Lemma NF_step (s s' : vsock) : NF s -> GN s s' -> (v_inbox s = [] -> v_inbox s' = []) -> NF s'.
Proof.
  intros [H|H] (l & E & Hl) Hi; [left; rewrite E; apply Forall_app; auto|right; auto].
Qed.

Lemma G_inbox (s s' : vsock) : G s s' -> v_inbox s = [] -> v_inbox s' = [].
Proof. intros ((_ & _ & H & _) & _). exact H. Qed.

Lemma reset_dec (e : verror) : e = ErrStResetReceived \/ e <> ErrStResetReceived.
Proof. destruct e; auto; right; discriminate. Qed.

Lemma RP_die_other (s : vsock) e : e <> ErrStResetReceived -> RP (die s e).
Proof. intro H. unfold die, RP, RQ. intro E. injection E as E. contradiction. Qed.

Lemma RP_die_reset (s : vsock) :
  v_state s = Closed -> Forall nofin (v_out s) -> RP (die s ErrStResetReceived).
Proof.
  intros Hs Ho. unfold die, RP, RQ. intros _.
  pose proof (jbd_spec s (Some ErrStResetReceived)) as J. cbv zeta in J.
  destruct J as (J1 & _ & _ & _ & _ & _ & J7). split; [congruence|].
  destruct J7 as [J7|(Hl & _)]; [rewrite J7; exact Ho|rewrite Hs in Hl; discriminate].
Qed.

Lemma bail_RP {A} (m : step A) k :
  match m with
  | SOk s1 a => (v_restart s1 = true -> NF s1) /\ (v_restart s1 = false -> RP (k s1 a))
  | SErr s1 e => RP (die s1 e)
  | SPanic => True
  end -> RP (bail m k).
Proof.
  unfold bail. destruct m as [s1 a|s1 e|]; auto. intros [H1 H2].
  destruct (v_restart s1) eqn:R; [apply H1; reflexivity|apply H2; reflexivity].
Qed.

Lemma pend_RP {A} (m : step A) k :
  match m with
  | SOk s1 a => (v_restart s1 = true -> NF s1) /\
                (v_restart s1 = false -> v_transport_pending s1 = false -> RP (k s1 a))
  | SErr s1 e => RP (die s1 e)
  | SPanic => True
  end -> RP (pend m k).
Proof.
  intro H. unfold pend. apply bail_RP. destruct m as [s1 a|s1 e|]; auto. destruct H as [H1 H2].
  split; [exact H1|]. intro R. destruct (v_transport_pending s1) eqn:T; [unfold RP, RQ; discriminate|].
  rewrite R. apply H2; [exact R|reflexivity].
Qed.

Lemma imm_GN (s : vsock) : sGN s (if immediate_ack_to_transmit s then send_ack s else SOk s false).
Proof. destruct (immediate_ack_to_transmit s); [apply send_ack_GN|apply GN_refl]. Qed.

Lemma imm_G (s : vsock) : sG s (if immediate_ack_to_transmit s then send_ack s else SOk s false).
Proof. destruct (immediate_ack_to_transmit s); [apply send_ack_G|apply G_refl]. Qed.

Lemma head_RP k (t : vsock) :
  NF t -> (forall s3, NF s3 -> v_restart s3 = false -> RP (k s3)) -> RP (body_head cci k t).
Proof.
  intros Hn Hk. unfold body_head.
  assert (N0 : NF (body_start t)) by exact Hn. revert N0. generalize (body_start t). intros s N0.
  apply pend_RP. pose proof (maybe_send_syn_ack_GN s) as A1. pose proof (maybe_send_syn_ack_G s) as B1.
  destruct (maybe_send_syn_ack s) as [s1 a1|s1 e1|]; cbn [sGN sG] in *; [|apply RP_die_other; apply A1|exact I].
  assert (N1 : NF s1) by (eapply NF_step; [exact N0|exact A1|apply G_inbox; exact B1]).
  split; [auto|]. intros _ _.
  apply pend_RP. pose proof (imm_GN s1) as A2. pose proof (imm_G s1) as B2.
  destruct (if immediate_ack_to_transmit s1 then send_ack s1 else SOk s1 false) as [s2 a2|s2 e2|];
    cbn [sGN sG] in *; [|apply RP_die_other; apply A2|exact I].
  assert (N2 : NF s2) by (eapply NF_step; [exact N1|exact A2|apply G_inbox; exact B2]).
  split; [auto|]. intros _ _.
  apply pend_RP. pose proof (process_all_N cci s2) as A3. pose proof (process_all_G cci s2) as B3.
  destruct (process_all_incoming_messages cci s2) as [s3 a3|s3 e3|]; cbn [rlN sGr] in *; [| |exact I].
  - assert (N3 : NF s3).
    { destruct A3 as [A3|A3]; [|right; exact A3]. eapply NF_step; [exact N2|exact A3|apply G_inbox; exact B3]. }
    split; [auto|]. intros R3 _. apply Hk; assumption.
  - destruct (reset_dec e3) as [->|Hne]; [|apply RP_die_other; exact Hne].
    destruct (A3 eq_refl) as (C1 & C2 & (l & C3 & C4)).
    apply RP_die_reset; [exact C1|]. destruct N2 as [N2|N2]; [|contradiction].
    rewrite C3. apply Forall_app; auto.
Qed.

Lemma back_RP (s6 : vsock) : v_restart s6 = false -> RP (body_back s6).
Proof.
  intro R6. unfold body_back. cbv zeta.
  assert (R7 : v_restart (if should_close_on_own_initiative s6 then transition_to_fin_wait_1 s6 else s6) = false).
  { destruct (should_close_on_own_initiative s6); [rewrite transition_to_fin_wait_1_restart|]; exact R6. }
  revert R7. generalize (if should_close_on_own_initiative s6 then transition_to_fin_wait_1 s6 else s6).
  intros s7 R7.
  apply pend_RP. pose proof (maybe_send_fin_G s7) as B8.
  destruct (maybe_send_fin s7) as [s8 b8|s8 e8|] eqn:E8; cbn [sG] in *; [|apply RP_die_other; apply B8|exact I].
  pose proof (maybe_send_fin_restart _ _ _ E8) as R8. rewrite R7 in R8.
  split; [intro X; congruence|]. intros _ _.
  apply pend_RP. pose proof (maybe_send_ack_G s8) as B9.
  destruct (maybe_send_ack s8) as [s9 b9|s9 e9|] eqn:E9; cbn [sG] in *; [|apply RP_die_other; apply B9|exact I].
  pose proof (maybe_send_ack_restart _ _ _ E9) as R9. rewrite R8 in R9.
  split; [intro X; congruence|]. intros _ _.
  unfold body_finish. destruct (state_is_closed _ _); [unfold RP, RQ; discriminate|].
  cbv zeta. destruct (next_timer_to_poll _) as [sx tx]. unfold RP, RQ. discriminate.
Qed.

Lemma mid_RP (s3 : vsock) : NF s3 -> v_restart s3 = false -> RP (body_mid cci body_back s3).
Proof.
  intros N3 R3. unfold body_mid. destruct (rx_flush (v_rx s3)) as [[rx1 fr] w]. destruct fr; [|exact I].
  cbv zeta.
  assert (N4 : NF (add_wakes (set_rx s3 rx1) (rx_wakes w))) by exact N3.
  assert (R4 : v_restart (add_wakes (set_rx s3 rx1) (rx_wakes w)) = false) by exact R3.
  revert N4 R4. generalize (add_wakes (set_rx s3 rx1) (rx_wakes w)). intros s4 N4 R4.
  destruct (timer_expired _ _); [apply RP_die_other; discriminate|].
  apply bail_RP. pose proof (split_keeps cci s4) as K. pose proof (split_G cci s4) as B5.
  destruct (split_tx_queue_into_segments cci s4) as [s5 a5|s5 e5|]; cbn [sG] in *;
    [|apply RP_die_other; apply B5|exact I].
  destruct K as [K1 K2].
  assert (N5 : NF s5) by (eapply NF_step; [exact N4|apply GN_eq; exact K1|apply G_inbox; exact B5]).
  split; [auto|]. intros R5.
  apply pend_RP. pose proof (send_tx_queue_G cci s5) as B6.
  destruct (send_tx_queue cci s5) as [s6 a6|s6 e6|] eqn:E6; cbn [sG] in *;
    [|apply RP_die_other; apply B6|exact I].
  split.
  - intro R6. eapply NF_step; [exact N5|eapply stq_restart_data; eauto|apply G_inbox; exact B6].
  - intros R6 _. apply back_RP. exact R6.
Qed.

Lemma poll_body_RP (t : vsock) : NF t -> RP (poll_body cci t).
Proof.
  intro Hn. rewrite poll_body_parts. unfold body_front. apply head_RP; [exact Hn|].
  intros s3 N3 R3. apply mid_RP; assumption.
Qed.

Theorem poll_reset (s s' : vsock) :
  poll cci s = (s', PollReadyErr ErrStResetReceived) ->
  v_state s' = Closed /\
  forall p, In p (v_out s') -> ch_type (p_hdr p) <> ST_FIN /\ ch_type (p_hdr p) <> ST_RESET.
Proof.
  intro E. pose proof (poll_no_reset_pkt _ _ _ E) as Hr.
  rewrite poll_unfold in E.
  pose proof (poll_loop_ind cci NF RQ) as H.
  assert (H0 : RQ s' (PollReadyErr ErrStResetReceived)).
  { specialize (H ltac:(intros; unfold RQ; discriminate)).
    assert (Hb : forall t, NF t -> match poll_body cci t with
                                   | BrReturn s'0 r => RQ s'0 r | BrRestart s'0 => NF s'0 | BrPanic => True end).
    { intros t Ht. exact (poll_body_RP t Ht). }
    specialize (H Hb 64%nat (poll_init s)). rewrite E in H. apply H. left. constructor. }
  destruct (H0 eq_refl) as (A1 & A2). split; [exact A1|].
  intros p Hp. rewrite Forall_forall in A2. split; [apply A2; exact Hp|apply Hr; exact Hp].
Qed.

Theorem c17_reset_ok_step : forall cfg (s : vsock) o, c17_reset_ok cfg (fstep_of cci s o) = true.
Proof.
  intros cfg s o. destruct o;
    try (unfold c17_reset_ok; rewrite fstep_of_event; reflexivity).
  destruct (poll cci (VSockRec.set_sends s script)) as [s' r] eqn:E.
  rewrite (fstep_of_poll cci s script s' r E). unfold c17_reset_ok.
  cbn [fs_event fs_result fs_post fp_of_vsock f_state].
  destruct r as [| |e|]; try reflexivity.
  destruct e; try reflexivity. cbn [verror_is_reset].
  apply poll_reset in E. destruct E as (E1 & E2). rewrite E1. cbn [state_is_closed_st andb].
  apply forallb_pkts. intros p Hp. rewrite !pkt_is_of. destruct (E2 p Hp) as (A & B).
  rewrite (ptype_eqb_false _ _ A), (ptype_eqb_false _ _ B). reflexivity.
Qed.

(* ================================================================== c17_synack_ok *)
Definition syn_due (s : vsock) : bool :=
  match v_state s with
  | SynReceived => true
  | SynAckSent _ => timer_expired (v_t_syn_ack_resend s) (v_env_now s)
  | _ => false
  end.
Definition syn_k0 (s : vsock) : Z := match v_state s with SynAckSent k => k | _ => 0 end.
Definition syn_hs (s : vsock) : bool := match v_state s with SynReceived | SynAckSent _ => true | _ => false end.

(* nothing to do for maybe_send_syn_ack: past the handshake, or the resend timer has not expired *)
Definition notdue (t : vsock) : Prop :=
  match v_state t with
  | SynReceived => False
  | SynAckSent _ => timer_expired (v_t_syn_ack_resend t) (v_env_now t) = false
  | _ => True
  end.

Lemma body_notdue (t : vsock) : notdue t -> bframe t (poll_body cci t).
Proof.
  intro Hn. rewrite poll_body_decomp.
  destruct (maybe_send_syn_ack_spec (body_start t) eq_refl) as (S1 & S2 & _).
  unfold notdue in Hn.
  assert (Hm : exists s1, maybe_send_syn_ack (body_start t) = SOk s1 tt /\ pframe t s1 /\
                          v_restart s1 = false /\ v_transport_pending s1 = false).
  { change (v_state (body_start t)) with (v_state t) in S1, S2.
    change (v_now (body_start t)) with (v_env_now t) in S2.
    change (v_t_syn_ack_resend (body_start t)) with (v_t_syn_ack_resend t) in S2.
    destruct (v_state t) eqn:Es; try contradiction.
    - exists (body_start t). split; [apply S2; [reflexivity|exact Hn]|].
      split; [apply body_start_frame|split; reflexivity].
    - eexists. split; [apply S1; reflexivity|]. split; [|split; reflexivity].
      split; [apply body_start_frame|]. unfold syn_rel, body_start. vsimpl. rewrite Es. exact I.
    - eexists. split; [apply S1; reflexivity|]. split; [|split; reflexivity].
      split; [apply body_start_frame|]. unfold syn_rel, body_start. vsimpl. rewrite Es. exact I.
    - eexists. split; [apply S1; reflexivity|]. split; [|split; reflexivity].
      split; [apply body_start_frame|]. unfold syn_rel, body_start. vsimpl. rewrite Es. exact I.
    - eexists. split; [apply S1; reflexivity|]. split; [|split; reflexivity].
      split; [apply body_start_frame|]. unfold syn_rel, body_start. vsimpl. rewrite Es. exact I.
    - eexists. split; [apply S1; reflexivity|]. split; [|split; reflexivity].
      split; [apply body_start_frame|]. unfold syn_rel, body_start. vsimpl. rewrite Es. exact I. }
  destruct Hm as (s1 & -> & F1 & R1 & T1). unfold pend, bail. rewrite R1, T1.
  apply body_rest_frame. exact F1.
Qed.

Lemma notdue_pframe (t t' : vsock) : notdue t -> pframe t t' -> notdue t'.
Proof.
  unfold notdue. intros Hn ((_ & _ & _ & He & _) & Hr). unfold syn_rel in Hr.
  destruct (v_state t'); auto.
  - rewrite Hr in Hn. exact Hn.
  - destruct Hr as (Hr1 & Hr2). rewrite Hr1 in Hn. rewrite Hr2, He. exact Hn.
Qed.

Lemma poll_loop_notdue : forall fuel t, notdue t -> pframe t (fst (poll_loop cci fuel t)).
Proof.
  induction fuel as [|fuel IH]; intros t Hn; cbn [poll_loop fst]; [apply pframe_refl|].
  pose proof (body_notdue t Hn) as B. destruct (poll_body cci t) as [s' r|s'|]; cbn [bframe fst] in *.
  - exact B.
  - eapply pframe_trans; [exact B|]. apply IH. eapply notdue_pframe; eauto.
  - apply pframe_refl.
Qed.

Definition syn_kept (s s' : vsock) : Prop :=
  v_state s' = v_state s /\ v_t_syn_ack_resend s' = v_t_syn_ack_resend s.

Definition syn_sent (s s' : vsock) : Prop :=
  (exists l p, v_out s' = l ++ [p] /\ ch_type (p_hdr p) = ST_STATE /\ ch_seq (p_hdr p) = v_seq_nr s /\
               ch_ack (p_hdr p) = v_last_consumed s /\ p_payload p = []) /\
  match v_state s' with
  | SynReceived => False
  | SynAckSent k => k = syn_k0 s + 1 /\ v_t_syn_ack_resend s' = Some (v_env_now s + SYNACK_RESEND_INTERNAL)
  | _ => True
  end.

(* everything a poll can do about the SYN-ACK *)
Definition SY (s s' : vsock) (r : poll_result) : Prop :=
  v_env_now s' = v_env_now s /\
  if syn_hs s then
    if syn_due s then
      if syn_k0 s =? o_max_retx (v_opts s)
      then r = PollReadyErr ErrMaxSynAckRetransmissionsReached /\ syn_kept s s'
      else syn_sent s s' \/ syn_kept s s'
    else syn_rel s s'
  else syn_hs s' = false.

Lemma pframe_env (a b : vsock) : pframe a b -> v_env_now b = v_env_now a.
Proof. intros ((_ & _ & _ & He & _) & _). exact He. Qed.

Lemma jbd_kept (s : vsock) e :
  syn_kept s (just_before_death s e) /\ v_env_now (just_before_death s e) = v_env_now s.
Proof.
  pose proof (jbd_spec s e) as J. cbv zeta in J. destruct J as (J1 & _ & _ & _ & _ & J6 & _).
  split; [split; assumption|]. apply pframe_env. apply just_before_death_frame.
Qed.

Lemma poll_loop_SY fuel (s00 : vsock) :
  v_out s00 = [] ->
  SY s00 (fst (poll_loop cci (S fuel) s00)) (snd (poll_loop cci (S fuel) s00)).
Proof.
  intro Ho. unfold SY.
  (* the cases where maybe_send_syn_ack has nothing to do: the strong frame holds for the whole poll *)
  assert (Hnd : notdue s00 ->
            v_env_now (fst (poll_loop cci (S fuel) s00)) = v_env_now s00 /\
            syn_rel s00 (fst (poll_loop cci (S fuel) s00))).
  { intro Hn. pose proof (poll_loop_notdue (S fuel) s00 Hn) as F. split; [apply pframe_env; exact F|apply F]. }
  destruct (syn_hs s00) eqn:Ehs.
  2:{ assert (Hn : notdue s00) by (unfold notdue, syn_hs in *; destruct (v_state s00); auto; discriminate).
      destruct (Hnd Hn) as [A B]. split; [exact A|]. unfold syn_rel in B. unfold syn_hs in *.
      destruct (v_state (fst (poll_loop cci (S fuel) s00))); auto.
      - rewrite B in Ehs. discriminate.
      - destruct B as [B _]. rewrite B in Ehs. discriminate. }
  destruct (syn_due s00) eqn:Edue.
  2:{ assert (Hn : notdue s00).
      { unfold notdue, syn_hs, syn_due in *. destruct (v_state s00); auto; discriminate. }
      destruct (Hnd Hn) as [A B]. split; assumption. }
  clear Hnd.
  cbn [poll_loop]. rewrite poll_body_decomp.
  destruct (maybe_send_syn_ack_spec (body_start s00) eq_refl) as (_ & _ & S3 & S4).
  change (v_state (body_start s00)) with (v_state s00) in S3, S4.
  change (v_now (body_start s00)) with (v_env_now s00) in S3, S4.
  change (v_t_syn_ack_resend (body_start s00)) with (v_t_syn_ack_resend s00) in S3, S4.
  change (v_opts (body_start s00)) with (v_opts s00) in S3, S4.
  change (v_seq_nr (body_start s00)) with (v_seq_nr s00) in S4.
  change (v_last_consumed (body_start s00)) with (v_last_consumed s00) in S4.
  fold (syn_k0 s00) in S3, S4.
  assert (Hhs : match v_state s00 with SynReceived | SynAckSent _ => true | _ => false end = true) by exact Ehs.
  assert (Hdue : match v_state s00 with SynReceived => true
                 | SynAckSent _ => timer_expired (v_t_syn_ack_resend s00) (v_env_now s00) | _ => false end = true)
    by exact Edue.
  specialize (S3 Hhs Hdue). specialize (S4 Hhs Hdue).
  destruct (Z.eqb_spec (syn_k0 s00) (o_max_retx (v_opts s00))) as [Hk|Hk].
  - (* exhausted *)
    rewrite (S3 Hk). unfold pend, bail, die. cbn [fst snd].
    destruct (jbd_kept (body_start s00) (Some ErrMaxSynAckRetransmissionsReached)) as [K1 K2].
    split; [exact K2|]. split; [reflexivity|exact K1].
  - destruct (S4 Hk) as [(s1 & p & h & Hs & -> & P1 & P2 & P3 & P4)|[(s1 & Hs & ->)|(s1 & Hs & ->)]].
    + (* the SYN-ACK went out *)
      set (sA := set_t_syn_ack_resend (set_state (on_packet_sent (emit s1 p) h) (SynAckSent (syn_k0 s00 + 1)))
                   (Some (v_env_now s00 + SYNACK_RESEND_INTERNAL))).
      assert (FA : v_restart sA = false /\ v_transport_pending sA = false /\ v_out sA = [p] /\
                   v_env_now sA = v_env_now s00 /\ v_state sA = SynAckSent (syn_k0 s00 + 1) /\
                   v_t_syn_ack_resend sA = Some (v_env_now s00 + SYNACK_RESEND_INTERNAL)).
      { unfold sA, on_packet_sent, emit. destruct Hs as [->|[q ->]]; unfold body_start; vsimpl; rewrite Ho; repeat split. }
      destruct FA as (A1 & A2 & A3 & A4 & A5 & A6).
      unfold pend, bail. rewrite A1, A2.
      pose proof (body_rest_frame cci sA sA (pframe_refl sA)) as B.
      (* whatever follows is a pframe-successor of sA *)
      assert (Hfin : forall s' : vsock, pframe sA s' ->
                v_env_now s' = v_env_now s00 /\ (syn_sent s00 s' \/ syn_kept s00 s')).
      { intros s' F. split; [rewrite (pframe_env _ _ F); exact A4|]. left.
        destruct F as ((_ & _ & _ & _ & _ & _ & (l & Fo) & _) & Fr). split.
        - exists l, p. rewrite Fo, A3. repeat split; assumption.
        - unfold syn_rel in Fr. destruct (v_state s'); auto.
          + rewrite A5 in Fr. discriminate.
          + destruct Fr as [Fr1 Fr2]. rewrite A5 in Fr1. injection Fr1 as <-. split; [reflexivity|congruence]. }
      destruct (body_rest cci sA tt) as [s' r|s''|]; cbn [bframe fst snd] in *.
      * apply Hfin. exact B.
      * apply Hfin. eapply pframe_trans; [exact B|]. apply poll_loop_notdue.
        destruct B as ((_ & _ & _ & Be & _) & Br). unfold notdue. unfold syn_rel in Br.
        destruct (v_state s''); auto.
        -- rewrite A5 in Br. discriminate.
        -- destruct Br as [_ Br]. rewrite Br, A6, Be, A4. unfold timer_expired, SYNACK_RESEND_INTERNAL. lia.
      * split; [reflexivity|]. right. split; reflexivity.
    + (* the transport refused it *)
      unfold pend, bail. cbn [fst snd].
      assert (FA : v_restart (set_transport_pending s1 true) = false /\
                   v_state s1 = v_state s00 /\ v_t_syn_ack_resend s1 = v_t_syn_ack_resend s00 /\
                   v_env_now s1 = v_env_now s00).
      { destruct Hs as [->|[q ->]]; unfold body_start; vsimpl; repeat split. }
      destruct FA as (A1 & A2 & A3 & A4). rewrite A1.
      change (v_transport_pending (set_transport_pending s1 true)) with true. cbn [fst snd].
      split; [exact A4|]. right. split; assumption.
    + (* transport error *)
      unfold pend, bail, die. cbn [fst snd].
      assert (FA : v_state s1 = v_state s00 /\ v_t_syn_ack_resend s1 = v_t_syn_ack_resend s00 /\
                   v_env_now s1 = v_env_now s00).
      { destruct Hs as [->|[q ->]]; unfold body_start; vsimpl; repeat split. }
      destruct FA as (A2 & A3 & A4).
      destruct (jbd_kept s1 (Some ErrSend)) as [[K1 K1'] K2].
      split; [congruence|]. right. split; congruence.
Qed.

Lemma poll_SY (s s' : vsock) sc r : poll cci (VSockRec.set_sends s sc) = (s', r) -> SY s s' r.
Proof.
  intro E. rewrite poll_unfold in E.
  pose proof (poll_loop_SY 63 (poll_init (VSockRec.set_sends s sc)) eq_refl) as H.
  change (S 63) with 64%nat in H. rewrite E in H. exact H.
Qed.

(* the precondition: the options are those of the configuration, the limit is not negative, and a
   SYN-ACK counter is within 1..limit.  Invariant of every trace from vsock_new (see below). *)
Definition syn_pre (cfg : vconfig) (s : vsock) : Prop :=
  o_max_retx (v_opts s) = vc_max_retx cfg /\ 0 <= vc_max_retx cfg /\
  forall k, v_state s = SynAckSent k -> 1 <= k <= vc_max_retx cfg.

Lemma optz_eqb_refl a : optz_eqb a a = true.
Proof. destruct a; cbn [optz_eqb]; [apply Z.eqb_refl|reflexivity]. Qed.

(* the predicate, as a function of the few values it looks at *)
Definition synack_check (maxr : Z) (st0 : vstate) (t0 : option Z) (now : Z) (st1 : vstate) (t1 : option Z)
  (r : poll_result) (first_ok : bool) : bool :=
  let handshaking := match st0 with SynReceived | SynAckSent _ => true | _ => false end in
  let due := match st0 with
             | SynReceived => true
             | SynAckSent _ => timer_expired t0 now
             | _ => false
             end in
  let k0 := match st0 with SynAckSent k => k | _ => 0 end in
  let sent := match st1 with
              | SynReceived => false
              | SynAckSent k' => negb (k' =? k0)
              | _ => due
              end in
  if handshaking then
    (if sent then first_ok else true) &&
    (if sent then due else true) &&
    (match st1 with
     | SynAckSent k' =>
         (if sent then (k' =? k0 + 1) && optz_eqb t1 (Some (now + SYNACK_RESEND_INTERNAL))
          else (k' =? k0) && optz_eqb t1 t0) &&
         (1 <=? k') && (k' <=? maxr)
     | SynReceived => match st0 with SynReceived => true | _ => false end
     | _ => true
     end) &&
    (if due && (k0 =? maxr) then
       match r with PollReadyErr e => verror_is_max_synack e | _ => false end
     else true)
  else
    match st1 with SynReceived | SynAckSent _ => false | _ => true end.

Lemma c17_synack_ok_check cfg st :
  c17_synack_ok cfg st =
  match fs_event st, fs_result st with
  | FePoll _, FrPoll r pkts _ _ =>
      synack_check (vc_max_retx cfg) (f_state (fs_pre st)) (f_t_syn_ack_resend (fs_pre st)) (fs_now st)
        (f_state (fs_post st)) (f_t_syn_ack_resend (fs_post st)) r
        (match pkts with p :: _ => synack_shape (fs_pre st) p | [] => false end)
  | _, _ => true
  end.
Proof. reflexivity. Qed.

Ltac zb := repeat match goal with
  | |- context [?a =? ?b] => destruct (Z.eqb_spec a b); try lia
  | |- context [?a <=? ?b] => destruct (Z.leb_spec a b); try lia
  end; cbn [andb negb orb]; try reflexivity.

Lemma synack_check_ok maxr st0 t0 now st1 t1 r first_ok :
  0 <= maxr -> (forall k, st0 = SynAckSent k -> 1 <= k <= maxr) ->
  (let hs := match st0 with SynReceived | SynAckSent _ => true | _ => false end in
   let due := match st0 with SynReceived => true | SynAckSent _ => timer_expired t0 now | _ => false end in
   let k0 := match st0 with SynAckSent k => k | _ => 0 end in
   if hs then
     if due then
       if k0 =? maxr
       then r = PollReadyErr ErrMaxSynAckRetransmissionsReached /\ st1 = st0 /\ t1 = t0
       else (first_ok = true /\
             match st1 with
             | SynReceived => False
             | SynAckSent k => k = k0 + 1 /\ t1 = Some (now + SYNACK_RESEND_INTERNAL)
             | _ => True
             end) \/ (st1 = st0 /\ t1 = t0)
     else match st1 with
          | SynAckSent k => st0 = SynAckSent k /\ t1 = t0
          | SynReceived => st0 = SynReceived
          | _ => True
          end
   else match st1 with SynReceived | SynAckSent _ => False | _ => True end) ->
  synack_check maxr st0 t0 now st1 t1 r first_ok = true.
Proof.
  intros H0 Hk H. cbv zeta in H. unfold synack_check.
  destruct st0 as [|k0| | | | |]; cbv beta iota zeta.
  - (* SynReceived *)
    destruct (Z.eqb_spec 0 maxr) as [Hm|Hm].
    + destruct H as (-> & -> & ->). cbn [andb verror_is_max_synack]. reflexivity.
    + destruct H as [(-> & H)|(-> & ->)]; [|cbn [andb]; reflexivity].
      destruct st1 as [|k1| | | | |]; try contradiction; cbn [andb]; try reflexivity.
      destruct H as [-> ->]. rewrite optz_eqb_refl. zb.
  - (* SynAckSent k0 *)
    specialize (Hk k0 eq_refl).
    destruct (timer_expired t0 now) eqn:Edue.
    + destruct (Z.eqb_spec k0 maxr) as [Hm|Hm].
      * destruct H as (-> & -> & ->). rewrite optz_eqb_refl. zb.
      * destruct H as [(-> & H)|(-> & ->)]; [|rewrite optz_eqb_refl; zb].
        destruct st1 as [|k1| | | | |]; try contradiction; cbn [andb]; try reflexivity.
        destruct H as [-> ->]. rewrite optz_eqb_refl. zb.
    + destruct st1 as [|k1| | | | |]; try discriminate; cbn [andb]; try reflexivity.
      destruct H as [H ->]. injection H as <-. rewrite optz_eqb_refl. zb.
  - destruct st1; try contradiction; reflexivity.
  - destruct st1; try contradiction; reflexivity.
  - destruct st1; try contradiction; reflexivity.
  - destruct st1; try contradiction; reflexivity.
  - destruct st1; try contradiction; reflexivity.
Qed.

Theorem c17_synack_ok_step : forall cfg (s : vsock) o,
  syn_pre cfg s -> c17_synack_ok cfg (fstep_of cci s o) = true.
Proof.
  intros cfg s o (Pm & P0 & Pk). rewrite c17_synack_ok_check. destruct o;
    try (rewrite fstep_of_event; reflexivity).
  destruct (poll cci (VSockRec.set_sends s script)) as [s' r] eqn:E.
  rewrite (fstep_of_poll cci s script s' r E).
  cbn [fs_event fs_result fs_pre fs_post fs_now fp_of_vsock f_state f_t_syn_ack_resend].
  apply poll_SY in E. destruct E as (En & E). rewrite En.
  apply synack_check_ok; [exact P0|exact Pk|]. cbv zeta.
  unfold syn_hs, syn_due in E. fold (syn_k0 s). rewrite <- Pm.
  destruct (match v_state s with SynReceived | SynAckSent _ => true | _ => false end) eqn:Ehs.
  2:{ unfold syn_hs in E. destruct (v_state s'); try discriminate; exact I. }
  destruct (match v_state s with SynReceived => true
            | SynAckSent _ => timer_expired (v_t_syn_ack_resend s) (v_env_now s) | _ => false end) eqn:Edue.
  2:{ exact E. }
  destruct (syn_k0 s =? o_max_retx (v_opts s)).
  - destruct E as (E1 & E2 & E3). auto.
  - destruct E as [((l & p & Eo & Q1 & Q2 & Q3 & Q4) & E)|(E1 & E2)]; [left|right; split; assumption].
    split; [|exact E].
    rewrite Eo, rev_app_distr. cbn [rev app map].
    unfold synack_shape, pkt_is, pkt_seq, pkt_ack, fpacket_of. cbn [fq_hdr fq_plen fp_of_vsock f_seq_nr f_last_consumed].
    rewrite Q1, Q2, Q3, Q4. cbn [length Z.of_nat]. rewrite !Z.eqb_refl. reflexivity.
Qed.

(* ---- syn_pre is an invariant of every trace from vsock_new ---- *)
Lemma syn_pre_new mk cfg (s0 : vsock) :
  vsock_new cci mk cfg = Some s0 -> 0 <= vc_max_retx cfg -> syn_pre cfg s0.
Proof.
  unfold vsock_new. intros H H0.
  destruct (match (if vc_incoming cfg then None else _) with Some r => _ | None => _ end); [|discriminate].
  injection H as <-. unfold syn_pre. cbn [v_opts o_max_retx v_state].
  split; [reflexivity|]. split; [exact H0|]. intros k Hk. destruct (vc_incoming cfg); discriminate.
Qed.

Lemma vstep_nonpoll_state (s : vsock) o :
  (forall sc, o <> VoPoll sc) -> v_state (vstep_state cci s o) = v_state s.
Proof.
  intro Hn. unfold vstep_state. destruct o; cbn [vstep].
  - reflexivity.
  - reflexivity.
  - exfalso. eapply Hn; reflexivity.
  - destruct (v_inbox_closed s); reflexivity.
  - reflexivity.
  - destruct (writer_dropped _); [|destruct (poll_write _ _) as [[tx1 r] w]]; reflexivity.
  - destruct (writer_dropped _); [|destruct (poll_flush _) as [[tx1 r] w]]; reflexivity.
  - destruct (writer_dropped _); [|destruct (poll_shutdown _) as [[tx1 r] w]]; reflexivity.
  - destruct (reader_dropped _); [|destruct (rx_read _ _) as [[rx1 r] w]]; reflexivity.
  - destruct (reader_dropped _); [|destruct (rx_drop_reader _) as [rx1 w]]; reflexivity.
  - destruct (drop_writer _) as [tx1 w]; reflexivity.
Qed.

Lemma syn_pre_vstep cfg (s : vsock) o : syn_pre cfg s -> syn_pre cfg (vstep_state cci s o).
Proof.
  intros (Pm & P0 & Pk). destruct (vstep_keeps cci s o) as (Ko & _).
  split; [rewrite Ko; exact Pm|]. split; [exact P0|].
  assert (Hnp : (forall sc, o <> VoPoll sc) -> forall k, v_state (vstep_state cci s o) = SynAckSent k ->
                1 <= k <= vc_max_retx cfg).
  { intros Hn k Hk. rewrite (vstep_nonpoll_state s o Hn) in Hk. apply Pk. exact Hk. }
  destruct o; try (apply Hnp; intros sc; discriminate). clear Hnp.
  unfold vstep_state. cbn [vstep].
  destruct (poll cci (VSockRec.set_sends s script)) as [s' r] eqn:E. cbn [fst].
  apply poll_SY in E. destruct E as (_ & E). unfold syn_hs, syn_due, syn_sent, syn_kept, syn_k0 in E.
  rewrite Pm in E. intros k Hk.
  destruct (v_state s) as [|k0| | | | |] eqn:Es; try (rewrite Hk in E; discriminate).
  - destruct (Z.eqb_spec 0 (vc_max_retx cfg)) as [Hm|Hm].
    + destruct E as (_ & E1 & _). congruence.
    + destruct E as [(_ & E)|(E1 & _)]; [|congruence]. rewrite Hk in E. destruct E as [-> _]. lia.
  - specialize (Pk k0 eq_refl).
    destruct (timer_expired _ _).
    + destruct (Z.eqb_spec k0 (vc_max_retx cfg)) as [Hm|Hm].
      * destruct E as (_ & E1 & _). rewrite Hk in E1. injection E1 as ->. exact Pk.
      * destruct E as [(_ & E)|(E1 & _)].
        -- rewrite Hk in E. destruct E as [-> _]. lia.
        -- rewrite Hk in E1. injection E1 as ->. exact Pk.
    + unfold syn_rel in E. rewrite Hk, Es in E. destruct E as [E _]. injection E as ->. exact Pk.
Qed.

(* ================================================================== c17_fin_after_data_ok *)
(* every byte of the send buffer is segmented (or the buffer is empty) and every segment was sent *)
Definition FAD (s : vsock) : Prop :=
  (Z.of_nat (length (ring (v_tx s))) <= ss_len_bytes (v_segs s) \/ ring (v_tx s) = []) /\
  (forall g, In g (ss_segs (v_segs s)) -> sg_delivered g = true \/ seg_send_count g <> 0).

Lemma all_sent_of_guard (s : vsock) :
  unsent_data_exists s = false ->
  forall g, In g (ss_segs (v_segs s)) -> sg_delivered g = true \/ seg_send_count g <> 0.
Proof.
  intros Hu g Hin. unfold unsent_data_exists in Hu. apply orb_false_iff in Hu as (_ & Hu2).
  destruct (sg_delivered g) eqn:Hd; [left; reflexivity|right].
  destruct (in_iter_for_sending _ _ Hin Hd) as (f & Hfin & Hg).
  assert (Hx : (seg_send_count (fs_seg f) =? 0) = false).
  { destruct (seg_send_count (fs_seg f) =? 0) eqn:E; [|reflexivity].
    rewrite <- Hu2. symmetry. apply existsb_exists. exists f; split; [assumption|].
    rewrite E. reflexivity. }
  rewrite Hg in Hx. apply Z.eqb_neq in Hx. exact Hx.
Qed.

(* the steps after the decision to close keep the state, the ring and the segments *)
Definition keeps3 (s s' : vsock) : Prop :=
  v_state s' = v_state s /\ ring (v_tx s') = ring (v_tx s) /\ v_segs s' = v_segs s.

Lemma sd_frame_keeps3 (s s' : vsock) : sd_frame s s' -> v_segs s' = v_segs s -> keeps3 s s'.
Proof.
  unfold sd_frame, keeps3. intros H Hs. repeat match goal with H : _ /\ _ |- _ => destruct H end.
  repeat split; congruence.
Qed.

Lemma send_control_packet_keeps3 (s : vsock) h :
  match send_control_packet s h with SOk s' _ | SErr s' _ => keeps3 s s' | SPanic => True end.
Proof.
  pose proof (VSock_LemmasTx.send_control_packet_spec s h) as H.
  destruct (send_control_packet s h) as [s' [|]|s' e|]; try exact I.
  - destruct H as (Hf & _ & Hs & _). apply sd_frame_keeps3; assumption.
  - destruct H as (Hf & _ & Hs & _). apply sd_frame_keeps3; assumption.
  - destruct H as (Hf & _ & Hs & _). apply sd_frame_keeps3; assumption.
Qed.

Lemma maybe_send_fin_keeps3 (s : vsock) :
  match maybe_send_fin s with SOk s' _ | SErr s' _ => keeps3 s s' | SPanic => True end.
Proof.
  pose proof (VSock_LemmasTx.maybe_send_fin_spec s) as H.
  destruct (maybe_send_fin s) as [s' [|]|s' e|]; try exact I.
  - destruct H as (seq & _ & _ & Hf & _ & Hs & _). apply sd_frame_keeps3; assumption.
  - destruct H as (Hf & _ & Hs & _). apply sd_frame_keeps3; assumption.
  - destruct H as (Hf & _ & Hs & _). apply sd_frame_keeps3; assumption.
Qed.

Lemma maybe_send_ack_keeps3 (s : vsock) :
  match maybe_send_ack s with SOk s' _ | SErr s' _ => keeps3 s s' | SPanic => True end.
Proof.
  unfold maybe_send_ack, send_ack.
  destruct (immediate_ack_to_transmit s); [apply send_control_packet_keeps3|].
  destruct (should_send_window_update s); [apply send_control_packet_keeps3|].
  destruct (timer_expired _ _).
  - destruct (ack_to_transmit s); [apply send_control_packet_keeps3|repeat split].
  - destruct (0 <? _); repeat split.
Qed.

(* left: nobody entered FinWait1 since the poll_body under consideration started at t;
   right: the decision to close on own initiative was taken, with everything sent *)
Definition Jt (t s : vsock) : Prop :=
  (forall f, v_state s = FinWait1 f -> v_state t = FinWait1 f) \/ FAD s.

Lemma Jt_keeps (t s s' : vsock) : Jt t s -> keeps3 s s' -> Jt t s'.
Proof.
  intros [H|[H1 H2]] (K1 & K2 & K3); [left; intros f Hf; apply H; congruence|right].
  unfold FAD. rewrite K2, K3. split; assumption.
Qed.

Definition body_tail (s : vsock) : body_res :=
  pend (maybe_send_fin s) (fun s _ => pend (maybe_send_ack s) (fun s _ => body_finish s)).

Lemma body_back_tail s6 :
  body_back s6 = body_tail (if should_close_on_own_initiative s6 then transition_to_fin_wait_1 s6 else s6).
Proof. reflexivity. Qed.

Lemma tail_J (t s7 : vsock) :
  v_restart s7 = false -> Jt t s7 ->
  match body_tail s7 with BrReturn s' _ => Jt t s' | BrRestart _ => False | BrPanic => True end.
Proof.
  intros R7 J7. unfold body_tail, pend, bail, die.
  pose proof (maybe_send_fin_keeps3 s7) as K8.
  destruct (maybe_send_fin s7) as [s8 b8|s8 e8|] eqn:E8; [| |exact I].
  2:{ eapply Jt_keeps; [exact J7|]. destruct K8 as (K1 & K2 & K3).
      pose proof (jbd_spec s8 (Some e8)) as J. cbv zeta in J. destruct J as (J1 & J2 & J3 & _).
      repeat split; congruence. }
  pose proof (maybe_send_fin_restart _ _ _ E8) as R8. rewrite R7 in R8. rewrite R8.
  assert (J8 : Jt t s8) by (eapply Jt_keeps; eauto).
  destruct (v_transport_pending s8); [exact J8|].
  pose proof (maybe_send_ack_keeps3 s8) as K9.
  destruct (maybe_send_ack s8) as [s9 b9|s9 e9|] eqn:E9; [| |exact I].
  2:{ eapply Jt_keeps; [exact J8|]. destruct K9 as (K1 & K2 & K3).
      pose proof (jbd_spec s9 (Some e9)) as J. cbv zeta in J. destruct J as (J1 & J2 & J3 & _).
      repeat split; congruence. }
  pose proof (maybe_send_ack_restart _ _ _ E9) as R9. rewrite R8 in R9. rewrite R9.
  assert (J9 : Jt t s9) by (eapply Jt_keeps; eauto).
  destruct (v_transport_pending s9); [exact J9|].
  unfold body_finish. destruct (state_is_closed _ _).
  { eapply Jt_keeps; [exact J9|].
    pose proof (jbd_spec s9 None) as J. cbv zeta in J. destruct J as (J1 & J2 & J3 & _).
    repeat split; assumption. }
  match goal with |- context [next_timer_to_poll ?x] => assert (J10 : Jt t x); [|revert J10; generalize x; intros s10 J10] end.
  { destruct (is_local_fin_or_later (v_state s9)); exact J9. }
  unfold next_timer_to_poll, arm_in, add_wakes. destruct (v_transport_pending s10).
  - destruct (v_t_inactivity s10); [|exact J10]. destruct (_ <=? _); exact J10.
  - match goal with |- Jt t (match ?x with _ => _ end) => destruct x end;
      [destruct (_ <=? _)|]; exact J10.
Qed.

Definition is_err_send (r : poll_result) : Prop := r = PollReadyErr ErrSend.

Lemma body_FAD (t : vsock) :
  match poll_body cci t with
  | BrReturn s' r =>
      (forall f, v_state s' = FinWait1 f -> v_state t = FinWait1 f) \/ FAD s' \/
      (v_inbox_closed t = true /\ r = PollReadyErr ErrSend)
  | BrRestart s' => G t s'
  | BrPanic => True
  end.
Proof.
  rewrite poll_body_parts. apply body_front_walk.
  - intros r He. destruct r as [s' [| |e|]|s'|]; cbn [early] in He; try contradiction; auto.
    + left. apply He.
    + destruct He as (s1 & (_ & HW) & ->).
      pose proof (jbd_spec s1 (Some e)) as J. cbv zeta in J. destruct J as (J1 & _).
      destruct HW as [HW|(Hc & ->)]; [left|right; right; auto].
      intros f Hf. apply HW. congruence.
  - intros s4 s5 s6 F4 E5 E6 F6 R6 T6. rewrite body_back_tail.
    assert (G46 : G s4 s6).
    { pose proof (split_G cci s4) as A. rewrite E5 in A. pose proof (send_tx_queue_G cci s5) as B. rewrite E6 in B.
      eapply G_trans; eauto. }
    assert (J7 : Jt t (if should_close_on_own_initiative s6 then transition_to_fin_wait_1 s6 else s6)).
    { destruct (should_close_on_own_initiative s6) eqn:Hc; [right|left; apply F6].
      assert (HF : FAD s6).
      { destruct (should_close_guard s6 Hc) as (_ & Hu & Hl). split; [|apply all_sent_of_guard; exact Hu].
        destruct (ring (v_tx s4)) as [|b0 rest] eqn:Er.
        - right. rewrite (split_empty_ring cci s4 Er) in E5. injection E5 as <-.
          pose proof (send_tx_queue_uframe cci (set_tx s4 (register_dispatcher_if_empty (v_tx s4)))) as U.
          rewrite E6 in U. cbn [sufr_r] in U. destruct U as [(_ & U2 & _)|U]; [|congruence].
          rewrite U2. vsimpl. unfold register_dispatcher_if_empty. rewrite Er. cbn [ring upd]. reflexivity.
        - left. eapply (fin_after_all_data_in_poll cci s4 s5 s6); eauto; [|rewrite Er; discriminate].
          destruct G46 as ((Hst & _) & _).
          destruct (v_state s4), (v_state s6); cbn [st_rel is_local_fin_or_later is_remote_fin_or_later] in *;
            try reflexivity; try discriminate; contradiction. }
      unfold transition_to_fin_wait_1. destruct (v_state s6); exact HF. }
    assert (R7 : v_restart (if should_close_on_own_initiative s6 then transition_to_fin_wait_1 s6 else s6) = false).
    { destruct (should_close_on_own_initiative s6); [rewrite transition_to_fin_wait_1_restart|]; exact R6. }
    pose proof (tail_J t _ R7 J7) as H.
    destruct (body_tail _) as [s' r|s'|]; [|contradiction|exact I].
    destruct H as [H|H]; auto.
Qed.

Theorem poll_FAD (s s' : vsock) r :
  poll cci s = (s', r) ->
  forall f, v_state s' = FinWait1 f ->
    v_state s = FinWait1 f \/ FAD s' \/ (v_inbox_closed s = true /\ r = PollReadyErr ErrSend).
Proof.
  intro E. rewrite poll_unfold in E.
  pose proof (poll_loop_ind cci
    (fun t => (forall f, v_state t = FinWait1 f -> v_state s = FinWait1 f) /\ v_inbox_closed t = v_inbox_closed s)
    (fun s' r => forall f, v_state s' = FinWait1 f ->
       v_state s = FinWait1 f \/ FAD s' \/ (v_inbox_closed s = true /\ r = PollReadyErr ErrSend))) as H.
  specialize (H ltac:(intros t [Ht _] f Hf; left; auto)).
  assert (Hb : forall t, (forall f, v_state t = FinWait1 f -> v_state s = FinWait1 f) /\
                         v_inbox_closed t = v_inbox_closed s ->
     match poll_body cci t with
     | BrReturn s'0 r0 => forall f, v_state s'0 = FinWait1 f ->
         v_state s = FinWait1 f \/ FAD s'0 \/ (v_inbox_closed s = true /\ r0 = PollReadyErr ErrSend)
     | BrRestart s'0 => (forall f, v_state s'0 = FinWait1 f -> v_state s = FinWait1 f) /\
                        v_inbox_closed s'0 = v_inbox_closed s
     | BrPanic => True
     end).
  { intros t [Ht Hc]. pose proof (body_FAD t) as B. destruct (poll_body cci t) as [s1 r1|s1|]; [| |exact I].
    - intros f Hf. destruct B as [B|[B|(B1 & B2)]]; [left; auto|right; left; exact B|].
      right; right. split; [congruence|exact B2].
    - destruct B as ((_ & _ & _ & B4 & _) & BW). split; [intros f Hf; auto|congruence]. }
  specialize (H Hb 64%nat (poll_init s)). rewrite E in H. apply H. split; [auto|reflexivity].
Qed.

(* assumed-and-monitored on the fingerprint after the step: the segmented bytes are within the buffer *)
Definition c17_seg_bounds (fp : vfp) : bool :=
  (0 <=? f_seg_len_bytes fp) && (f_seg_len_bytes fp <=? f_tx_len fp).

(* c17_not_err_send: Conn/C17_Pred.v *)

Lemma FAD_bool (s' : vsock) :
  FAD s' -> c17_seg_bounds (fp_of_vsock cci s') = true ->
  (f_tx_len (fp_of_vsock cci s') =? f_seg_len_bytes (fp_of_vsock cci s')) &&
  forallb (fun g => negb (fg_sent_kind g =? 0) || fg_delivered g) (f_segs (fp_of_vsock cci s')) = true.
Proof.
  intros [H1 H2] Hb. unfold c17_seg_bounds in Hb. cbn [fp_of_vsock f_tx_len f_seg_len_bytes f_segs] in *.
  apply andb_true_iff in Hb as (Hb1 & Hb2). apply Z.leb_le in Hb1, Hb2.
  apply andb_true_intro. split.
  - apply Z.eqb_eq. destruct H1 as [H1|H1]; [lia|]. rewrite H1 in *. cbn [length Z.of_nat] in *. lia.
  - apply forallb_forall. intros x Hx. apply in_map_iff in Hx. destruct Hx as (g & <- & Hg).
    unfold fseg_of. cbn [fg_sent_kind fg_delivered].
    destruct (H2 g Hg) as [Hd|Hc]; [rewrite Hd; apply orb_true_r|].
    unfold seg_send_count in Hc. destruct (sg_sent g); [contradiction|reflexivity|reflexivity].
Qed.

(* general form: the predicate holds unless the channel was closed AND the poll reports a transport error *)
Theorem c17_fin_after_data_ok_step_gen : forall cfg (s : vsock) o,
  c17_seg_bounds (fs_post (fstep_of cci s o)) = true ->
  v_inbox_closed s = false \/ c17_not_err_send (fs_result (fstep_of cci s o)) = true ->
  c17_fin_after_data_ok cfg (fstep_of cci s o) = true.
Proof.
  intros cfg s o. destruct o;
    try (intros _ _; unfold c17_fin_after_data_ok; rewrite fstep_of_event; reflexivity).
  destruct (poll cci (VSockRec.set_sends s script)) as [s' r] eqn:E.
  rewrite (fstep_of_poll cci s script s' r E). unfold c17_fin_after_data_ok.
  cbn [fs_event fs_result fs_pre fs_post]. intros Hb Hg.
  destruct (f_state (fp_of_vsock cci s')) as [| | |f| | |] eqn:Es'; try reflexivity.
  cbn [fp_of_vsock f_state] in Es'.
  destruct (pre_local_fin (f_state (fp_of_vsock cci s))) eqn:Epre; [reflexivity|].
  cbn [fp_of_vsock f_state] in Epre. unfold pre_local_fin in Epre.
  destruct (poll_FAD _ _ _ E f Es') as [H|[H|(H1 & H2)]].
  - change (v_state (VSockRec.set_sends s script)) with (v_state s) in H. rewrite H in Epre. discriminate.
  - apply FAD_bool; assumption.
  - exfalso. change (v_inbox_closed (VSockRec.set_sends s script)) with (v_inbox_closed s) in H1.
    destruct Hg as [Hg|Hg]; [congruence|]. rewrite H2 in Hg. discriminate.
Qed.

Theorem c17_fin_after_data_ok_step_open : forall cfg (s : vsock) o,
  v_inbox_closed s = false -> c17_seg_bounds (fs_post (fstep_of cci s o)) = true ->
  c17_fin_after_data_ok cfg (fstep_of cci s o) = true.
Proof. intros cfg s o H1 H2. apply c17_fin_after_data_ok_step_gen; auto. Qed.

(* the guard evaluated on the step alone *)
Definition c17_fin_after_data_guard (st : fstep) : bool :=
  c17_seg_bounds (fs_post st) && c17_not_err_send (fs_result st).

Definition c17_fin_after_data_guarded (cfg : vconfig) (st : fstep) : bool :=
  if c17_fin_after_data_guard st then c17_fin_after_data_ok cfg st else true.

Theorem c17_fin_after_data_guarded_step : forall cfg (s : vsock) o,
  c17_fin_after_data_guarded cfg (fstep_of cci s o) = true.
Proof.
  intros cfg s o. unfold c17_fin_after_data_guarded, c17_fin_after_data_guard.
  destruct (c17_seg_bounds _) eqn:E1; [|reflexivity]. destruct (c17_not_err_send _) eqn:E2; [|reflexivity].
  cbn [andb]. apply c17_fin_after_data_ok_step_gen; auto.
Qed.

(* ================================================================== along every trace *)
Theorem c17_reset_ok_trace : forall cfg ops (s : vsock),
  forallb (c17_reset_ok cfg) (ftrace cci s ops) = true.
Proof.
  intros cfg ops s. apply (ftrace_forallb cci (fun _ => True)); auto.
  intros s0 o _. apply c17_reset_ok_step.
Qed.

Theorem c17_fin_number_step_ok_trace : forall cfg ops (s : vsock),
  forallb (c17_fin_number_step_ok cfg) (ftrace cci s ops) = true.
Proof.
  intros cfg ops s. apply (ftrace_forallb cci (fun _ => True)); auto.
  intros s0 o _. apply c17_fin_number_step_ok_step.
Qed.

Theorem c17_synack_ok_trace_pre : forall cfg ops (s : vsock),
  syn_pre cfg s -> forallb (c17_synack_ok cfg) (ftrace cci s ops) = true.
Proof.
  intros cfg. apply (ftrace_forallb cci (syn_pre cfg)).
  - intros s o H. apply c17_synack_ok_step. exact H.
  - apply syn_pre_vstep.
Qed.

Theorem c17_synack_ok_trace : forall mk cfg (s0 : vsock) ops,
  vsock_new cci mk cfg = Some s0 -> 0 <= vc_max_retx cfg ->
  forallb (c17_synack_ok cfg) (ftrace cci s0 ops) = true.
Proof.
  intros mk cfg s0 ops Hn H0. apply c17_synack_ok_trace_pre. eapply syn_pre_new; eauto.
Qed.

Theorem c17_fin_after_data_guarded_trace : forall cfg ops (s : vsock),
  forallb (c17_fin_after_data_guarded cfg) (ftrace cci s ops) = true.
Proof.
  intros cfg ops s. apply (ftrace_forallb cci (fun _ => True)); auto.
  intros s0 o _. apply c17_fin_after_data_guarded_step.
Qed.

(* while the dispatcher's channel is open (no VoCloseInbox so far) only the bound is needed *)
Definition c17_fin_after_data_bounded (cfg : vconfig) (st : fstep) : bool :=
  if c17_seg_bounds (fs_post st) then c17_fin_after_data_ok cfg st else true.

Definition not_close_inbox (o : vop) : Prop := o <> VoCloseInbox.

Lemma vstep_inbox_open (s : vsock) o :
  not_close_inbox o -> v_inbox_closed s = false -> v_inbox_closed (vstep_state cci s o) = false.
Proof.
  intros Hn Hc. unfold vstep_state. destruct o; cbn [vstep].
  - exact Hc.
  - exact Hc.
  - destruct (poll cci (VSockRec.set_sends s script)) as [s' r] eqn:E. cbn [fst].
    rewrite poll_unfold in E. pose proof (poll_loop_frame0 cci 64 (poll_init (VSockRec.set_sends s script))) as F.
    rewrite E in F. cbn [fst] in F. destruct F as (_ & _ & _ & _ & _ & F6 & _). rewrite F6. exact Hc.
  - rewrite Hc. exact Hc.
  - exfalso. apply Hn. reflexivity.
  - destruct (writer_dropped _); [|destruct (poll_write _ _) as [[tx1 r] w]]; exact Hc.
  - destruct (writer_dropped _); [|destruct (poll_flush _) as [[tx1 r] w]]; exact Hc.
  - destruct (writer_dropped _); [|destruct (poll_shutdown _) as [[tx1 r] w]]; exact Hc.
  - destruct (reader_dropped _); [|destruct (rx_read _ _) as [[rx1 r] w]]; exact Hc.
  - destruct (reader_dropped _); [|destruct (rx_drop_reader _) as [rx1 w]]; exact Hc.
  - destruct (drop_writer _) as [tx1 w]; exact Hc.
Qed.

Theorem c17_fin_after_data_open_trace : forall cfg ops (s : vsock),
  v_inbox_closed s = false -> Forall not_close_inbox ops ->
  forallb (c17_fin_after_data_bounded cfg) (ftrace cci s ops) = true.
Proof.
  intros cfg. induction ops as [|o rest IH]; intros s Hc Hops; [reflexivity|].
  inversion Hops as [|? ? Ho Hrest]; subst.
  rewrite ftrace_cons. cbn [forallb]. apply andb_true_intro. split.
  - unfold c17_fin_after_data_bounded. destruct (c17_seg_bounds _) eqn:Eb; [|reflexivity].
    apply c17_fin_after_data_ok_step_open; assumption.
  - destruct (poll_finished _); [reflexivity|]. apply IH; [|exact Hrest]. apply vstep_inbox_open; assumption.
Qed.

Lemma vsock_new_inbox_open mk cfg (s0 : vsock) : vsock_new cci mk cfg = Some s0 -> v_inbox_closed s0 = false.
Proof.
  unfold vsock_new. intros H.
  destruct (match (if vc_incoming cfg then None else _) with Some r => _ | None => _ end); [|discriminate].
  injection H as <-. reflexivity.
Qed.

(* ================================================================== c17_reset_trace_ok *)
(* ---- what the receive loop leaves behind: an empty inbox, or a closed connection, or a blocked
   transport ---- *)
Definition Dd (s : vsock) : Prop :=
  v_inbox s = [] \/ state_is_closed (v_state s) (o_wait_for_last_ack (v_opts s)) = true \/
  v_transport_pending s = true.

Lemma recv_loop_D : forall fuel (s : vsock) acc s' x, recv_loop cci fuel s acc = SOk s' x -> Dd s'.
Proof.
  assert (Hbase : forall (s : vsock) (acc : on_ack_result) s' x,
    v_inbox s = [] ->
    (if v_inbox_closed s
     then sbind (maybe_send_fin (transition_to_fin_wait_1 s))
                (fun s2 _ => SOk (set_state s2 Closed) (acc, true))
     else SOk (set_inbox_waker s true) (acc, false)) = SOk s' x -> Dd s').
  { intros s acc s' x Ei. destruct (v_inbox_closed s).
    - destruct (maybe_send_fin _) as [s2 b|s2 e|]; cbn [sbind]; try discriminate.
      intro H; injection H as <- _. right; left. reflexivity.
    - intro H; injection H as <- _. left. exact Ei. }
  induction fuel as [|m0 fuel IH]; intros s acc s' x; cbn [recv_loop];
    destruct (v_inbox s) as [|m rest] eqn:Ei; try (apply Hbase; exact Ei); try discriminate.
  destruct (process_incoming_message cci (set_inbox s rest) m) as [s1 r|s1 e|]; cbn [sbind]; try discriminate.
  destruct (state_is_closed _ _ || v_transport_pending s1) eqn:Eb.
  - intro H; injection H as <- _. apply orb_true_iff in Eb. right. exact Eb.
  - apply IH.
Qed.

Lemma process_all_D (s2 s3 : vsock) u : process_all_incoming_messages cci s2 = SOk s3 u -> Dd s3.
Proof.
  rewrite process_all_eq.
  destruct (recv_loop cci _ s2 on_ack_result_default) as [s1 res|s1 e|] eqn:El; cbn [sbind]; try discriminate.
  intro H. apply recv_loop_D in El. apply pa_tail_keeps in H. destruct H as (K1 & K2 & K3 & K4).
  unfold Dd in *. rewrite K1, K2, K3, K4. exact El.
Qed.

Lemma closed_mono (a b : vsock) :
  G0 a b -> state_is_closed (v_state a) (o_wait_for_last_ack (v_opts a)) = true ->
  state_is_closed (v_state b) (o_wait_for_last_ack (v_opts b)) = true.
Proof.
  intros (H1 & _ & _ & _ & Ho). rewrite Ho.
  destruct (v_state a), (v_state b); cbn [st_rel state_is_closed] in *; auto; try discriminate; contradiction.
Qed.

(* a poll that returns Pending with a writable transport has drained the inbox *)
Theorem poll_pending_drained (s s' : vsock) :
  poll cci s = (s', PollPending) -> v_transport_pending s' = false -> v_inbox s' = [].
Proof.
  intros E T. rewrite poll_unfold in E.
  pose proof (poll_loop_ind cci (fun _ => True)
    (fun s' r => r = PollPending -> v_transport_pending s' = false -> v_inbox s' = [])) as H.
  specialize (H ltac:(intros; discriminate)).
  assert (Hb : forall t : vsock, True -> match poll_body cci t with
     | BrReturn s'0 r => r = PollPending -> v_transport_pending s'0 = false -> v_inbox s'0 = []
     | BrRestart _ => True | BrPanic => True end).
  { intros t _. rewrite poll_body_parts. unfold body_front.
    apply (body_head_walk cci (fun r => match r with
       | BrReturn s'0 r => r = PollPending -> v_transport_pending s'0 = false -> v_inbox s'0 = []
       | _ => True end)).
    - intros r He. destruct r as [s1 [| |e|]|s1|]; cbn [early] in He; auto; try contradiction;
        try (intros; discriminate). destruct He as [_ He]. intros _ X. congruence.
    - intros s2 s3 _ _ E3 _ _ T3. pose proof (process_all_D _ _ _ E3) as D.
      pose proof (body_mid_back_G0 cci s3 s3 (G_refl s3)) as B.
      destruct (body_mid cci body_back s3) as [s1 r|s1|]; auto.
      intros -> T1. cbn [bG0] in B. destruct B as [B1 B2]. specialize (B2 T1).
      destruct D as [D|[D|D]]; [apply B1; exact D| |congruence].
      pose proof (closed_mono _ _ B1 D) as C. unfold not_closed in B2. congruence. }
  specialize (H Hb 64%nat (poll_init s) I). rewrite E in H. apply H; auto.
Qed.

Theorem poll_pending_not_closed (s s' : vsock) :
  poll cci s = (s', PollPending) -> v_transport_pending s' = false -> not_closed s'.
Proof. intros E T. apply poll_G0 in E. cbn [pG0] in E. apply E. exact T. Qed.

Lemma pG0_state (a s' : vsock) r : pG0 a s' r -> st_rel (v_state a) (v_state s').
Proof.
  destruct r; cbn [pG0].
  - intros [H _]. apply H.
  - intros (s1 & H & ->). pose proof (jbd_spec s1 None) as J. cbv zeta in J. destruct J as (J1 & _).
    rewrite J1. apply H.
  - intros (s1 & H & ->). pose proof (jbd_spec s1 (Some e)) as J. cbv zeta in J. destruct J as (J1 & _).
    rewrite J1. apply H.
  - intro H. apply H.
Qed.

Lemma st_rel_closed b : st_rel Closed b -> b = Closed.
Proof. destruct b; cbn [st_rel]; intro H; try contradiction; reflexivity. Qed.

(* ---- a reset at the head of the inbox, past the handshake, no immediate ACK owed ---- *)
(* not acknowledging our FIN in LastAck: reported at once, nothing on the wire *)
Theorem reset_err_poll_out : forall (s : vsock) script m rest,
  past_handshake (v_state s) = true -> immediate_ack_to_transmit s = false ->
  v_inbox s = m :: rest -> ch_type (m_hdr m) = ST_RESET ->
  (forall f r, v_state s = LastAck f r -> ch_ack (m_hdr m) <> f) ->
  exists s', poll cci (VSockRec.set_sends s script) = (s', PollReadyErr ErrStResetReceived) /\ v_out s' = [].
Proof.
  intros s script m rest Hp Himm Hin Ht Hn.
  unfold poll. set (s0 := set_arm_in (set_wakes (set_out (VSockRec.set_sends s script) []) []) None).
  change (poll_loop cci 64 s0) with
    (match poll_body cci s0 with
     | BrReturn s' r => (s', r) | BrRestart s' => poll_loop cci 63 s' | BrPanic => (s0, PollPanic) end).
  rewrite poll_body_decomp.
  assert (Hsyn : maybe_send_syn_ack (body_start s0) = SOk (set_t_syn_ack_resend (body_start s0) None) tt).
  { unfold maybe_send_syn_ack. change (v_state (body_start s0)) with (v_state s).
    destruct (v_state s); try discriminate; reflexivity. }
  rewrite Hsyn. set (s1 := set_t_syn_ack_resend (body_start s0) None).
  unfold pend at 1, bail at 1.
  change (v_restart s1) with false. change (v_transport_pending s1) with false. cbv beta iota.
  unfold body_rest.
  change (immediate_ack_to_transmit s1) with (immediate_ack_to_transmit s). rewrite Himm.
  unfold pend at 1, bail at 1.
  change (v_restart s1) with false. change (v_transport_pending s1) with false. cbv beta iota.
  unfold process_all_incoming_messages.
  change (v_inbox s1) with (v_inbox s). rewrite Hin. cbn [app recv_loop].
  change (v_inbox s1) with (v_inbox s). rewrite Hin.
  rewrite (reset_message_err cci (set_inbox s1 rest) m Ht Hn). cbn [sbind].
  unfold pend at 1, bail at 1, die.
  eexists. split; [reflexivity|].
  pose proof (jbd_spec (set_state (set_inbox s1 rest) Closed) (Some ErrStResetReceived)) as J.
  cbv zeta in J. destruct J as (_ & _ & _ & _ & _ & _ & [J|(Hl & _)]); [rewrite J; reflexivity|discriminate Hl].
Qed.

(* acknowledging our FIN in LastAck: the connection is Closed when the poll returns (unless it panics) *)
Theorem reset_ack_poll : forall (s : vsock) script m rest f r0 s' r,
  immediate_ack_to_transmit s = false ->
  v_inbox s = m :: rest -> ch_type (m_hdr m) = ST_RESET ->
  v_state s = LastAck f r0 -> ch_ack (m_hdr m) = f ->
  poll cci (VSockRec.set_sends s script) = (s', r) -> r = PollPanic \/ v_state s' = Closed.
Proof.
  intros s script m rest f r0 s' r Himm Hin Ht Hs Ha.
  unfold poll. set (s0 := set_arm_in (set_wakes (set_out (VSockRec.set_sends s script) []) []) None).
  change (poll_loop cci 64 s0) with
    (match poll_body cci s0 with
     | BrReturn s' r => (s', r) | BrRestart s' => poll_loop cci 63 s' | BrPanic => (s0, PollPanic) end).
  rewrite poll_body_decomp.
  assert (Hsyn : maybe_send_syn_ack (body_start s0) = SOk (set_t_syn_ack_resend (body_start s0) None) tt).
  { unfold maybe_send_syn_ack. change (v_state (body_start s0)) with (v_state s). rewrite Hs. reflexivity. }
  rewrite Hsyn. set (s1 := set_t_syn_ack_resend (body_start s0) None).
  unfold pend at 1, bail at 1.
  change (v_restart s1) with false. change (v_transport_pending s1) with false. cbv beta iota.
  unfold body_rest.
  change (immediate_ack_to_transmit s1) with (immediate_ack_to_transmit s). rewrite Himm.
  unfold pend at 1, bail at 1.
  change (v_restart s1) with false. change (v_transport_pending s1) with false. cbv beta iota.
  match goal with |- context [pend (process_all_incoming_messages cci s1) ?k] =>
    change k with (fun (s : vsock) (_ : unit) => body_mid cci body_back s) end.
  rewrite process_all_eq.
  assert (Hin1 : v_inbox s1 = m :: rest) by exact Hin.
  assert (Hs1 : v_state s1 = LastAck f r0) by exact Hs.
  rewrite Hin1. cbn [app].
  rewrite (reset_ok_recv_loop cci s1 m rest f r0 _ on_ack_result_default m Hin1 Ht Hs1 Ha). cbn [sbind].
  set (sR := set_state (set_inbox s1 rest) Closed).
  set (res := (result_update on_ack_result_default on_ack_result_default, false)).
  assert (HB : bG0 sR (pend (pa_tail sR res) (fun (s : vsock) (_ : unit) => body_mid cci body_back s))).
  { apply (pend_walk (bG0 sR) sR sR); [apply G_refl|apply pa_tail_G|apply early_bG0|].
    intros s3 a _ F3 _ _. apply body_mid_back_G0. exact F3. }
  assert (HR : v_state sR = Closed) by reflexivity.
  destruct (pend (pa_tail sR res) _) as [s'' r''|s''|].
  - intro H; injection H as <- <-. right. apply st_rel_closed. rewrite <- HR.
    destruct r''; cbn [bG0] in HB.
    + apply HB.
    + destruct HB as (sx & HB & ->). pose proof (jbd_spec sx None) as J. cbv zeta in J.
      destruct J as (J1 & _). rewrite J1. apply HB.
    + destruct HB as (sx & HB & ->). pose proof (jbd_spec sx (Some e)) as J. cbv zeta in J.
      destruct J as (J1 & _). rewrite J1. apply HB.
    + contradiction.
  - cbn [bG0] in HB. intro H. pose proof (poll_loop_G0 63 s'') as P. rewrite H in P. cbn [fst snd] in P.
    apply pG0_state in P. right. apply st_rel_closed. rewrite <- HR.
    eapply st_rel_trans; [apply HB|exact P].
  - intro H; injection H as <- <-. left. reflexivity.
Qed.

(* ---- the trace walk ---- *)
(* what reset_scan's `pending` knows about the model's inbox *)
Definition RInv (s : vsock) (pending : option (list chdr)) : Prop :=
  match pending with
  | Some l => v_inbox_closed s = false /\ map m_hdr (v_inbox s) = l
  | None => True
  end.

Lemma vstep_other (s : vsock) o :
  match o with
  | VoPoll _ | VoDeliver _ | VoCloseInbox => True
  | _ => v_inbox (vstep_state cci s o) = v_inbox s /\
         v_inbox_closed (vstep_state cci s o) = v_inbox_closed s /\
         poll_finished (snd (fst (fst (vstep cci s o)))) = false
  end.
Proof.
  unfold vstep_state. destruct o; try exact I; cbn [vstep].
  - repeat split.
  - repeat split.
  - destruct (writer_dropped _); [|destruct (poll_write _ _) as [[tx1 r] w]]; repeat split.
  - destruct (writer_dropped _); [|destruct (poll_flush _) as [[tx1 r] w]]; repeat split.
  - destruct (writer_dropped _); [|destruct (poll_shutdown _) as [[tx1 r] w]]; repeat split.
  - destruct (reader_dropped _); [|destruct (rx_read _ _) as [[rx1 r] w]]; repeat split.
  - destruct (reader_dropped _); [|destruct (rx_drop_reader _) as [rx1 w]]; repeat split.
  - destruct (drop_writer _) as [tx1 w]; repeat split.
Qed.

(* the judgement of one poll *)
Definition reset_poll_check (pending : option (list chdr)) (st : fstep) : bool :=
  match pending with
  | Some (h :: _) =>
      if ptype_eqb (ch_type h) ST_RESET &&
         match f_state (fs_pre st) with SynReceived | SynAckSent _ => false | _ => true end &&
         (f_cbu (fs_pre st) <? IMMEDIATE_ACK_EVERY_RMSS * f_mss (fs_pre st))
      then
        let acks_fin := match f_state (fs_pre st) with
                        | LastAck f _ => ch_ack h =? f | _ => false end in
        match fs_result st with
        | FrPoll (PollReadyErr e) pk _ _ =>
            if acks_fin then true
            else verror_is_reset e && match pk with [] => true | _ => false end
        | FrPoll PollReadyOk _ _ _ => acks_fin
        | FrPoll PollPending _ _ _ => acks_fin && f_transport_pending (fs_post st)
        | _ => true
        end
      else true
  | _ => true
  end.

Lemma reset_poll_check_ok (s : vsock) sc s' r pending :
  RInv s pending -> poll cci (VSockRec.set_sends s sc) = (s', r) ->
  reset_poll_check pending (fstep_of cci s (VoPoll sc)) = true.
Proof.
  intros Hi E. rewrite (fstep_of_poll cci s sc s' r E). unfold reset_poll_check.
  destruct pending as [[|h l']|]; try reflexivity.
  cbn [fs_pre fs_post fs_result fp_of_vsock f_state f_cbu f_mss f_transport_pending].
  destruct Hi as [Hc Hm].
  destruct (v_inbox s) as [|m rest] eqn:Hin; [discriminate|]. cbn [map] in Hm. injection Hm as Hh _.
  destruct (ptype_eqb (ch_type h) ST_RESET) eqn:Et; [|reflexivity]. cbn [andb].
  apply ptype_eqb_iff in Et. rewrite <- Hh in Et.
  destruct (match v_state s with SynReceived | SynAckSent _ => false | _ => true end) eqn:Eph; [|reflexivity].
  cbn [andb].
  destruct (v_cbu s <? IMMEDIATE_ACK_EVERY_RMSS * mss (v_ss s)) eqn:Ecb; [|reflexivity].
  assert (Himm : immediate_ack_to_transmit s = false).
  { unfold immediate_ack_to_transmit. apply Z.ltb_lt in Ecb. apply Z.leb_gt. exact Ecb. }
  cbv zeta.
  destruct (match v_state s with LastAck f _ => ch_ack h =? f | _ => false end) eqn:Eaf.
  - (* acknowledges our FIN *)
    destruct (v_state s) as [| | | | |f r0|] eqn:Es; try discriminate.
    apply Z.eqb_eq in Eaf. rewrite <- Hh in Eaf.
    destruct r; try reflexivity. cbn [andb].
    destruct (v_transport_pending s') eqn:T; [reflexivity|exfalso].
    pose proof (poll_pending_not_closed _ _ E T) as N.
    destruct (reset_ack_poll s sc m rest f r0 s' PollPending Himm Hin Et Es Eaf E) as [X|X]; [discriminate|].
    unfold not_closed in N. rewrite X in N. discriminate.
  - (* does not *)
    assert (Hn : forall f r1, v_state s = LastAck f r1 -> ch_ack (m_hdr m) <> f).
    { intros f r1 Hs. rewrite Hs in Eaf. apply Z.eqb_neq in Eaf. rewrite Hh. exact Eaf. }
    assert (Hp : past_handshake (v_state s) = true) by exact Eph.
    destruct (reset_err_poll_out s sc m rest Hp Himm Hin Et Hn) as (s'' & E' & Ho).
    rewrite E in E'. injection E' as <- ->. rewrite Ho. reflexivity.
Qed.

Lemma reset_scan_poll pending st rest :
  (exists sc, fs_event st = FePoll sc) ->
  reset_scan (st :: rest) pending =
  reset_poll_check pending st &&
  reset_scan rest (if f_transport_pending (fs_post st) then None
                   else match pending with Some _ => Some [] | None => None end).
Proof. intros [sc H]. cbn [reset_scan]. rewrite H. reflexivity. Qed.

Theorem reset_scan_model : forall ops (s : vsock) pending,
  RInv s pending -> reset_scan (ftrace cci s ops) pending = true.
Proof.
  induction ops as [|o ops IH]; intros s pending Hi; [reflexivity|].
  rewrite ftrace_cons.
  pose proof (vstep_other s o) as Ho.
  destruct o.
  - destruct Ho as (O1 & O2 & O3). rewrite O3. cbn [reset_scan]. rewrite fstep_of_event. cbn [fevent_of].
    apply IH. destruct pending; cbn [RInv] in *; [rewrite O1, O2; exact Hi|exact I].
  - destruct Ho as (O1 & O2 & O3). rewrite O3. cbn [reset_scan]. rewrite fstep_of_event. cbn [fevent_of].
    apply IH. destruct pending; cbn [RInv] in *; [rewrite O1, O2; exact Hi|exact I].
  - (* poll *)
    destruct (poll cci (VSockRec.set_sends s script)) as [s' r] eqn:E.
    rewrite reset_scan_poll by (exists script; apply fstep_of_event).
    rewrite (reset_poll_check_ok s script s' r pending Hi E). cbn [andb].
    assert (Hf : snd (fst (fst (vstep cci s (VoPoll script)))) = VrPoll r (rev (v_out s')) (rev (v_wakes s')) (v_arm_in s')).
    { cbn [vstep]. rewrite E. reflexivity. }
    rewrite Hf. unfold poll_finished. destruct r; try reflexivity.
    assert (Hs : vstep_state cci s (VoPoll script) = s').
    { unfold vstep_state. cbn [vstep]. rewrite E. reflexivity. }
    rewrite Hs. apply IH.
    rewrite (fstep_of_poll cci s script s' _ E). cbn [fs_post fp_of_vsock f_transport_pending].
    destruct (v_transport_pending s') eqn:T; [exact I|].
    destruct pending as [l|]; [|exact I]. cbn [RInv] in *. destruct Hi as [Hc _].
    split.
    + pose proof (poll_G0 _ _ _ E) as P. cbn [pG0] in P. destruct P as ((_ & _ & _ & P4 & _) & _).
      rewrite P4. exact Hc.
    + rewrite (poll_pending_drained _ _ E T). reflexivity.
  - (* deliver *)
    cbn [reset_scan]. rewrite fstep_of_event. cbn [fevent_of].
    assert (Hf : poll_finished (snd (fst (fst (vstep cci s (VoDeliver m))))) = false).
    { cbn [vstep]. destruct (v_inbox_closed s); reflexivity. }
    rewrite Hf. apply IH. destruct pending as [l|]; [|exact I]. cbn [RInv] in *. destruct Hi as [Hc Hm].
    unfold vstep_state. cbn [vstep]. rewrite Hc. cbn [fst]. vsimpl. split; [exact Hc|].
    rewrite map_app, Hm. reflexivity.
  - (* close *)
    cbn [reset_scan]. rewrite fstep_of_event. cbn [fevent_of].
    assert (Hf : poll_finished (snd (fst (fst (vstep cci s VoCloseInbox)))) = false) by reflexivity.
    rewrite Hf. apply IH. exact I.
  - destruct Ho as (O1 & O2 & O3). rewrite O3. cbn [reset_scan]. rewrite fstep_of_event. cbn [fevent_of].
    apply IH. destruct pending; cbn [RInv] in *; [rewrite O1, O2; exact Hi|exact I].
  - destruct Ho as (O1 & O2 & O3). rewrite O3. cbn [reset_scan]. rewrite fstep_of_event. cbn [fevent_of].
    apply IH. destruct pending; cbn [RInv] in *; [rewrite O1, O2; exact Hi|exact I].
  - destruct Ho as (O1 & O2 & O3). rewrite O3. cbn [reset_scan]. rewrite fstep_of_event. cbn [fevent_of].
    apply IH. destruct pending; cbn [RInv] in *; [rewrite O1, O2; exact Hi|exact I].
  - destruct Ho as (O1 & O2 & O3). rewrite O3. cbn [reset_scan]. rewrite fstep_of_event. cbn [fevent_of].
    apply IH. destruct pending; cbn [RInv] in *; [rewrite O1, O2; exact Hi|exact I].
  - destruct Ho as (O1 & O2 & O3). rewrite O3. cbn [reset_scan]. rewrite fstep_of_event. cbn [fevent_of].
    apply IH. destruct pending; cbn [RInv] in *; [rewrite O1, O2; exact Hi|exact I].
  - destruct Ho as (O1 & O2 & O3). rewrite O3. cbn [reset_scan]. rewrite fstep_of_event. cbn [fevent_of].
    apply IH. destruct pending; cbn [RInv] in *; [rewrite O1, O2; exact Hi|exact I].
Qed.

Theorem c17_reset_trace_ok_trace_pre : forall cfg ops (s : vsock),
  v_inbox s = [] -> v_inbox_closed s = false ->
  c17_reset_trace_ok cfg (ftrace cci s ops) = true.
Proof.
  intros cfg ops s H1 H2. unfold c17_reset_trace_ok. apply reset_scan_model.
  cbn [RInv]. rewrite H1. auto.
Qed.

Theorem c17_reset_trace_ok_trace : forall mk cfg (s0 : vsock) ops,
  vsock_new cci mk cfg = Some s0 -> c17_reset_trace_ok cfg (ftrace cci s0 ops) = true.
Proof.
  intros mk cfg s0 ops H. apply c17_reset_trace_ok_trace_pre.
  - revert H. unfold vsock_new.
    destruct (match (if vc_incoming cfg then None else _) with Some r => _ | None => _ end); [|discriminate].
    intro H; injection H as <-. reflexivity.
  - eapply vsock_new_inbox_open; eauto.
Qed.

(* ================================================================== the step theorems, spelled out
   over vstep (what Props/C17.v states) *)
Lemma fstep_of_expand (P : fstep -> bool) (s : vsock) o :
  P (fstep_of cci s o) = true ->
  let '(s', out, dw, sw) := vstep cci s o in
  P {| fs_now := v_env_now s'; fs_pre := fp_of_vsock cci s; fs_event := fevent_of o;
       fs_result := fresult_of out; fs_disp_woken := dw; fs_self_woken := sw;
       fs_post := fp_of_vsock cci s' |} = true.
Proof. unfold fstep_of. destruct (vstep cci s o) as [[[s' out] dw] sw]. auto. Qed.

Theorem c17_reset_ok_vstep : forall cfg (s : vsock) o,
  let '(s', out, dw, sw) := vstep cci s o in
  c17_reset_ok cfg
    {| fs_now := v_env_now s'; fs_pre := fp_of_vsock cci s; fs_event := fevent_of o;
       fs_result := fresult_of out; fs_disp_woken := dw; fs_self_woken := sw;
       fs_post := fp_of_vsock cci s' |} = true.
Proof. intros cfg s o. apply (fstep_of_expand (c17_reset_ok cfg)). apply c17_reset_ok_step. Qed.

Theorem c17_fin_number_step_ok_vstep : forall cfg (s : vsock) o,
  let '(s', out, dw, sw) := vstep cci s o in
  c17_fin_number_step_ok cfg
    {| fs_now := v_env_now s'; fs_pre := fp_of_vsock cci s; fs_event := fevent_of o;
       fs_result := fresult_of out; fs_disp_woken := dw; fs_self_woken := sw;
       fs_post := fp_of_vsock cci s' |} = true.
Proof. intros cfg s o. apply (fstep_of_expand (c17_fin_number_step_ok cfg)). apply c17_fin_number_step_ok_step. Qed.

Theorem c17_synack_ok_vstep : forall cfg (s : vsock) o,
  syn_pre cfg s ->
  let '(s', out, dw, sw) := vstep cci s o in
  c17_synack_ok cfg
    {| fs_now := v_env_now s'; fs_pre := fp_of_vsock cci s; fs_event := fevent_of o;
       fs_result := fresult_of out; fs_disp_woken := dw; fs_self_woken := sw;
       fs_post := fp_of_vsock cci s' |} = true.
Proof. intros cfg s o H. apply (fstep_of_expand (c17_synack_ok cfg)). apply c17_synack_ok_step. exact H. Qed.

Theorem syn_pre_vstep_expanded : forall cfg (s : vsock) o,
  syn_pre cfg s -> let '(s', _, _, _) := vstep cci s o in syn_pre cfg s'.
Proof.
  intros cfg s o H. pose proof (syn_pre_vstep cfg s o H) as K. unfold vstep_state in K.
  destruct (vstep cci s o) as [[[s' out] dw] sw]. exact K.
Qed.

Theorem c17_fin_after_data_ok_vstep_gen : forall cfg (s : vsock) o,
  let '(s', out, dw, sw) := vstep cci s o in
  let st := {| fs_now := v_env_now s'; fs_pre := fp_of_vsock cci s; fs_event := fevent_of o;
               fs_result := fresult_of out; fs_disp_woken := dw; fs_self_woken := sw;
               fs_post := fp_of_vsock cci s' |} in
  c17_seg_bounds (fs_post st) = true ->
  v_inbox_closed s = false \/ c17_not_err_send (fs_result st) = true ->
  c17_fin_after_data_ok cfg st = true.
Proof.
  intros cfg s o. pose proof (c17_fin_after_data_ok_step_gen cfg s o) as H. unfold fstep_of in H.
  destruct (vstep cci s o) as [[[s' out] dw] sw]. exact H.
Qed.

Theorem c17_fin_after_data_guarded_vstep : forall cfg (s : vsock) o,
  let '(s', out, dw, sw) := vstep cci s o in
  c17_fin_after_data_guarded cfg
    {| fs_now := v_env_now s'; fs_pre := fp_of_vsock cci s; fs_event := fevent_of o;
       fs_result := fresult_of out; fs_disp_woken := dw; fs_self_woken := sw;
       fs_post := fp_of_vsock cci s' |} = true.
Proof. intros cfg s o. apply (fstep_of_expand (c17_fin_after_data_guarded cfg)). apply c17_fin_after_data_guarded_step. Qed.

Theorem c17_fin_after_data_bounded_vstep : forall cfg (s : vsock) o,
  v_inbox_closed s = false ->
  let '(s', out, dw, sw) := vstep cci s o in
  c17_fin_after_data_bounded cfg
    {| fs_now := v_env_now s'; fs_pre := fp_of_vsock cci s; fs_event := fevent_of o;
       fs_result := fresult_of out; fs_disp_woken := dw; fs_self_woken := sw;
       fs_post := fp_of_vsock cci s' |} = true.
Proof.
  intros cfg s o H. apply (fstep_of_expand (c17_fin_after_data_bounded cfg)).
  unfold c17_fin_after_data_bounded. destruct (c17_seg_bounds _) eqn:Eb; [|reflexivity].
  apply c17_fin_after_data_ok_step_open; assumption.
Qed.

(* ================================================================== the monitored bound is an invariant *)
Lemma LB_seg_bounds (s : vsock) : LB 0 s -> c17_seg_bounds (fp_of_vsock cci s) = true.
Proof.
  intros (A & _ & _ & D). unfold c17_seg_bounds. cbn [fp_of_vsock f_seg_len_bytes f_tx_len].
  pose proof (seg_len_nonneg _ A). apply andb_true_intro. split; apply Z.leb_le; lia.
Qed.

Lemma LB_vstep_state (s : vsock) o : LB 0 s -> LB 0 (vstep_state cci s o).
Proof. intro H. unfold vstep_state. apply vstep_LB. exact H. Qed.

Theorem c17_seg_bounds_step : forall (s : vsock) o,
  LB 0 s -> c17_seg_bounds (fs_post (fstep_of cci s o)) = true.
Proof.
  intros s o H. pose proof (LB_vstep_state s o H) as K. unfold fstep_of, vstep_state in *.
  destruct (vstep cci s o) as [[[s' out] dw] sw]. cbn [fs_post fst] in *. apply LB_seg_bounds. exact K.
Qed.

Theorem c17_seg_bounds_trace : forall mk cfg (s0 : vsock) ops,
  C10_Pred.vconfig_ok cfg = true -> vsock_new cci mk cfg = Some s0 ->
  forallb (fun st => c17_seg_bounds (fs_post st)) (ftrace cci s0 ops) = true.
Proof.
  intros mk cfg s0 ops Hc Hn. apply (ftrace_forallb cci (LB 0)).
  - intros s o H. apply c17_seg_bounds_step. exact H.
  - apply LB_vstep_state.
  - eapply vsock_new_LB; eauto.
Qed.

(* c17_fin_after_data_ok without the monitored bound: it holds of every step of every connection built
   from a valid configuration unless the channel was closed AND the poll reports a transport error *)
Theorem c17_fin_after_data_ok_step_inv : forall cfg (s : vsock) o,
  LB 0 s ->
  v_inbox_closed s = false \/ c17_not_err_send (fs_result (fstep_of cci s o)) = true ->
  c17_fin_after_data_ok cfg (fstep_of cci s o) = true.
Proof.
  intros cfg s o H Hg. apply c17_fin_after_data_ok_step_gen; [|exact Hg]. apply c17_seg_bounds_step. exact H.
Qed.

(* c17_fin_after_data_noerr: Conn/C17_Pred.v *)

Theorem c17_fin_after_data_noerr_trace : forall mk cfg (s0 : vsock) ops,
  C10_Pred.vconfig_ok cfg = true -> vsock_new cci mk cfg = Some s0 ->
  forallb (c17_fin_after_data_noerr cfg) (ftrace cci s0 ops) = true.
Proof.
  intros mk cfg s0 ops Hc Hn. apply (ftrace_forallb cci (LB 0)).
  - intros s o H. unfold c17_fin_after_data_noerr. destruct (c17_not_err_send _) eqn:E; [|reflexivity].
    apply c17_fin_after_data_ok_step_inv; auto.
  - apply LB_vstep_state.
  - eapply vsock_new_LB; eauto.
Qed.

(* and while the channel is open (no VoCloseInbox in the trace) the predicate as written holds *)
Theorem c17_fin_after_data_ok_open_trace : forall mk cfg (s0 : vsock) ops,
  C10_Pred.vconfig_ok cfg = true -> vsock_new cci mk cfg = Some s0 -> Forall not_close_inbox ops ->
  forallb (c17_fin_after_data_ok cfg) (ftrace cci s0 ops) = true.
Proof.
  intros mk cfg s0 ops Hc Hn Hops.
  assert (H0 : LB 0 s0) by (eapply vsock_new_LB; eauto).
  assert (C0 : v_inbox_closed s0 = false) by (eapply vsock_new_inbox_open; eauto).
  clear Hn. revert s0 H0 C0. induction ops as [|o rest IH]; intros s H0 C0; [reflexivity|].
  inversion Hops as [|? ? Ho Hrest]; subst.
  rewrite ftrace_cons. cbn [forallb]. apply andb_true_intro. split.
  - apply c17_fin_after_data_ok_step_inv; auto.
  - destruct (poll_finished _); [reflexivity|]. apply IH; [exact Hrest| |].
    + apply LB_vstep_state. exact H0.
    + apply vstep_inbox_open; assumption.
Qed.

Theorem LB_vstep_expanded : forall (s : vsock) o,
  LB 0 s -> let '(s', _, _, _) := vstep cci s o in LB 0 s'.
Proof.
  intros s o H. pose proof (vstep_LB cci s o H) as K. destruct (vstep cci s o) as [[[s' out] dw] sw]. exact K.
Qed.

Theorem c17_fin_after_data_ok_vstep_inv : forall cfg (s : vsock) o,
  LB 0 s ->
  let '(s', out, dw, sw) := vstep cci s o in
  let st := {| fs_now := v_env_now s'; fs_pre := fp_of_vsock cci s; fs_event := fevent_of o;
               fs_result := fresult_of out; fs_disp_woken := dw; fs_self_woken := sw;
               fs_post := fp_of_vsock cci s' |} in
  v_inbox_closed s = false \/ c17_not_err_send (fs_result st) = true ->
  c17_fin_after_data_ok cfg st = true.
Proof.
  intros cfg s o H0. pose proof (c17_fin_after_data_ok_step_inv cfg s o H0) as H. unfold fstep_of in H.
  destruct (vstep cci s o) as [[[s' out] dw] sw]. exact H.
Qed.

End WithCC.

(* ================================================================== witnesses *)
(* c17_fin_after_data_ok as written is FALSE of the model: 100 bytes written and never segmented, the
   dispatcher's channel closed, and the FIN that the channel-closed arm of the receive loop sends at
   once refused by the transport: the poll dies in FinWait1 (the arm sets Closed only after the send).
   The monitored bound holds in that step; both guards fail, as they must. *)
Definition fad_ops : list vop := [VoWrite (repeat 7 100); VoCloseInbox; VoPoll [TIoErr]].

Definition fad_refuted_b : bool :=
  match vsock_new (fixed_cc 4096) (fun _ _ => tt) (wit_cfg 1500) with
  | Some s0 =>
      let tr := ftrace (fixed_cc 4096) s0 fad_ops in
      negb (forallb (c17_fin_after_data_ok (wit_cfg 1500)) tr) &&
      forallb (fun st => c17_seg_bounds (fs_post st)) tr &&
      match last tr {| fs_now := 0; fs_pre := fp_of_vsock (fixed_cc 4096) s0; fs_event := FeFlush;
                       fs_result := FrNone; fs_disp_woken := false; fs_self_woken := false;
                       fs_post := fp_of_vsock (fixed_cc 4096) s0 |} with
      | st => match f_state (fs_pre st), f_state (fs_post st), fs_result st with
              | Established, FinWait1 _, FrPoll (PollReadyErr ErrSend) [] _ _ =>
                  (f_tx_len (fs_post st) =? 100) && (f_seg_len_bytes (fs_post st) =? 0)
              | _, _, _ => false
              end
      end
  | None => false
  end.

Theorem c17_fin_after_data_ok_refuted :
  exists cfg ops s0,
    vsock_new (fixed_cc 4096) (fun _ _ => tt) cfg = Some s0 /\
    forallb (c17_fin_after_data_ok cfg) (ftrace (fixed_cc 4096) s0 ops) = false.
Proof.
  exists (wit_cfg 1500), fad_ops.
  destruct (vsock_new (fixed_cc 4096) (fun _ _ => tt) (wit_cfg 1500)) as [s0|] eqn:E; [|vm_compute in E; discriminate].
  exists s0. split; [reflexivity|].
  assert (H : fad_refuted_b = true) by (vm_compute; reflexivity).
  unfold fad_refuted_b in H. rewrite E in H.
  apply andb_true_iff in H as (H & _). apply andb_true_iff in H as (H & _).
  apply negb_true_iff in H. exact H.
Qed.

Theorem c17_fin_after_data_refuted_shape : fad_refuted_b = true.
Proof. vm_compute. reflexivity. Qed.

(* the guard is satisfiable by a reachable step that really closes on own initiative: the D13 regression
   trace ends with a poll that moves Established -> FinWait1 with the guard true *)
Definition fad_guard_witness_b : bool :=
  match vsock_new (fixed_cc 1584) (fun _ _ => tt) (wit_cfg 576) with
  | Some s0 =>
      let tr := ftrace (fixed_cc 1584) s0 d13_ops in
      existsb (fun st => c17_fin_after_data_guard st &&
                         negb (pre_local_fin (f_state (fs_pre st))) &&
                         match f_state (fs_post st) with FinWait1 _ => true | _ => false end) tr &&
      forallb (c17_fin_after_data_guarded (wit_cfg 576)) tr
  | None => false
  end.

Example c17_fin_after_data_guard_satisfiable : fad_guard_witness_b = true.
Proof. vm_compute. reflexivity. Qed.

(* c17_synack_ok needs 0 <= max_retx: with a negative limit the first SYN-ACK already exceeds it *)
Definition synack_neg_cfg : vconfig :=
  {| vc_incoming := true; vc_ipv4 := true; vc_link_mtu := 1500; vc_rx_buf := 1048576;
     vc_tx_init := 32768; vc_tx_max := 1048576; vc_nagle := true; vc_max_retx := -1;
     vc_inactivity := 10000000000; vc_wait_last_ack := true; vc_mtu_probe_max_retx := 1;
     vc_isn := 100; vc_remote_seq := 1; vc_remote_conn_id := 7; vc_remote_wnd := 1048576;
     vc_remote_ts := 0; vc_syn_sent := 0; vc_now0 := 1000000000 |}.

Theorem c17_synack_ok_negative_limit_refuted :
  exists cfg ops s0,
    vsock_new (fixed_cc 4096) (fun _ _ => tt) cfg = Some s0 /\ vc_max_retx cfg < 0 /\
    forallb (c17_synack_ok cfg) (ftrace (fixed_cc 4096) s0 ops) = false.
Proof.
  exists synack_neg_cfg, [VoPoll []].
  destruct (vsock_new (fixed_cc 4096) (fun _ _ => tt) synack_neg_cfg) as [s0|] eqn:E; [|vm_compute in E; discriminate].
  exists s0. split; [reflexivity|]. split; [reflexivity|].
  vm_compute in E. injection E as <-. vm_compute. reflexivity.
Qed.

(* and with a non-negative limit the precondition is met by every connection vsock_new builds; an
   incoming connection really goes through the handshake states *)
Definition synack_witness_b : bool :=
  match vsock_new (fixed_cc 4096) (fun _ _ => tt)
          {| vc_incoming := true; vc_ipv4 := true; vc_link_mtu := 1500; vc_rx_buf := 1048576;
             vc_tx_init := 32768; vc_tx_max := 1048576; vc_nagle := true; vc_max_retx := 2;
             vc_inactivity := 10000000000; vc_wait_last_ack := true; vc_mtu_probe_max_retx := 1;
             vc_isn := 100; vc_remote_seq := 1; vc_remote_conn_id := 7; vc_remote_wnd := 1048576;
             vc_remote_ts := 0; vc_syn_sent := 0; vc_now0 := 1000000000 |} with
  | Some s0 =>
      let tr := ftrace (fixed_cc 4096) s0
                  [VoPoll []; VoSetNow 1300000000; VoPoll []; VoSetNow 1600000000; VoPoll []] in
      match map (fun st => f_state (fs_post st)) tr with
      | [SynAckSent 1; SynAckSent 1; SynAckSent 2; SynAckSent 2; SynAckSent 2] =>
          match last tr {| fs_now := 0; fs_pre := fp_of_vsock (fixed_cc 4096) s0; fs_event := FeFlush;
                           fs_result := FrNone; fs_disp_woken := false; fs_self_woken := false;
                           fs_post := fp_of_vsock (fixed_cc 4096) s0 |} with
          | st => match fs_result st with
                  | FrPoll (PollReadyErr ErrMaxSynAckRetransmissionsReached) _ _ _ => true
                  | _ => false
                  end
          end
      | _ => false
      end
  | None => false
  end.

Example c17_synack_handshake_reachable : synack_witness_b = true.
Proof. vm_compute. reflexivity. Qed.

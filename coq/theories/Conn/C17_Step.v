(* C17, step level: the step predicates of Conn/C17_Pred.v hold of EVERY step of the model
   (every state, every event), and therefore along every trace. *)
From Utp Require Import Base.Prelude Wire.SeqNr Wire.Header Wire.Header_Proofs Rtt.Rtte Mtu.SegSizes
  Rx.Rx Tx.Ring Tx.Segments Conn.Recovery Conn.Msg Conn.VSockRec Conn.VSock Conn.VSockRun Conn.VObs
  Conn.VSock_Lemmas Conn.VSock_LemmasFin Conn.C17_Pred Conn.C17_Proofs Conn.C17_StepLemmas.

Section WithCC.
Context {CC : Type} (cci : cc_iface CC).
Notation vsock := (vsock CC).

(* ------------------------------------------------------------------ a whole poll under G0 *)
Definition pG0 (s00 s' : vsock) (r : poll_result) : Prop :=
  match r with
  | PollPending | PollPanic => G0 s00 s'
  | PollReadyOk => exists s1, G0 s00 s1 /\ s' = just_before_death s1 None
  | PollReadyErr e => exists s1, G0 s00 s1 /\ s' = just_before_death s1 (Some e)
  end.

Lemma poll_loop_G0 fuel (s00 : vsock) :
  pG0 s00 (fst (poll_loop cci fuel s00)) (snd (poll_loop cci fuel s00)).
Proof.
  apply (poll_loop_ind cci (fun t => G0 s00 t) (fun s' r => pG0 s00 s' r)).
  - intros s H. exact H.
  - intros s H. pose proof (poll_body_G0 cci s) as B.
    destruct (poll_body cci s) as [s' r|s'|]; cbn [bG0] in B; [|eapply G0_trans; eauto|exact I].
    destruct r; cbn [pG0].
    + eapply G0_trans; eauto.
    + destruct B as (s1 & B1 & B2). exists s1. split; [eapply G0_trans; eauto|exact B2].
    + destruct B as (s1 & B1 & B2). exists s1. split; [eapply G0_trans; eauto|exact B2].
    + contradiction.
  - apply G0_refl.
Qed.

Lemma poll_G0 (s s' : vsock) r : poll cci s = (s', r) -> pG0 (poll_init s) s' r.
Proof.
  intro E. rewrite poll_unfold in E. pose proof (poll_loop_G0 64 (poll_init s)) as H.
  rewrite E in H. exact H.
Qed.

(* ------------------------------------------------------------------ packets of a step *)
Lemma forallb_pkts (P : fpacket -> bool) (l : list packet) :
  (forall p, In p l -> P (fpacket_of p) = true) -> forallb P (map fpacket_of (rev l)) = true.
Proof.
  intro H. apply forallb_forall. intros x Hx. apply in_map_iff in Hx. destruct Hx as (p & <- & Hp).
  apply in_rev in Hp. auto.
Qed.

Lemma pkt_is_of t p : pkt_is t (fpacket_of p) = ptype_eqb (ch_type (p_hdr p)) t.
Proof. reflexivity. Qed.

Lemma ptype_eqb_false a b : a <> b -> ptype_eqb a b = false.
Proof. intro H. destruct (ptype_eqb a b) eqn:E; [|reflexivity]. apply ptype_eqb_iff in E. contradiction. Qed.

(* a step that is not a poll satisfies every predicate that only judges polls *)
Lemma fstep_not_poll (s : vsock) o :
  (forall sc, o <> VoPoll sc) -> forall sc, fs_event (fstep_of cci s o) <> FePoll sc.
Proof. intros H sc. rewrite fstep_of_event. destruct o; try discriminate. exfalso. eapply H; reflexivity. Qed.

(* ================================================================== c17_fin_number_step_ok *)
(* what a whole poll guarantees about our FIN: the state moves by st_rel, and if a number is recorded at
   the end every ST_FIN of the poll carries it *)
Definition FN (s s' : vsock) : Prop :=
  st_rel (v_state s) (v_state s') /\
  forall f, our_fin_if_unacked (v_state s') = Some f ->
    forall p, In p (v_out s') -> ch_type (p_hdr p) = ST_FIN -> ch_seq (p_hdr p) = f.

Lemma G0_FN (s00 s' : vsock) : v_out s00 = [] -> G0 s00 s' -> FN s00 s'.
Proof.
  intros Ho (A1 & (l & A2 & A3) & _). split; [exact A1|].
  intros f Hf p Hp Ht. rewrite A2, Ho, app_nil_r in Hp. rewrite Forall_forall in A3.
  destruct (A3 p Hp) as (_ & _ & K). destruct (K Ht) as (_ & K2). apply K2. exact Hf.
Qed.

Lemma poll_FN (s s' : vsock) r : poll cci s = (s', r) -> FN s s'.
Proof.
  intro E. apply poll_G0 in E.
  assert (Ho : v_out (poll_init s) = []) by reflexivity.
  assert (Hst : v_state (poll_init s) = v_state s) by reflexivity.
  cut (FN (poll_init s) s'). { unfold FN. rewrite Hst. auto. }
  destruct r; cbn [pG0] in E.
  - apply G0_FN; assumption.
  - destruct E as (s1 & E1 & ->). apply G0_FN; [exact Ho|]. apply jbd_G0; auto.
  - destruct E as (s1 & E1 & ->).
    destruct (is_local_fin_or_later (v_state s1)) eqn:El.
    + apply G0_FN; [exact Ho|]. apply jbd_G0; auto.
    + pose proof (jbd_spec s1 (Some e)) as J. cbv zeta in J. destruct J as (J1 & _).
      split; [rewrite J1; apply E1|]. intros f Hf. rewrite J1 in Hf.
      destruct (v_state s1); cbn [is_local_fin_or_later our_fin_if_unacked] in *; discriminate.
  - apply G0_FN; assumption.
Qed.

Theorem c17_fin_number_step_ok_step : forall cfg (s : vsock) o,
  c17_fin_number_step_ok cfg (fstep_of cci s o) = true.
Proof.
  intros cfg s o. destruct o;
    try (unfold c17_fin_number_step_ok; rewrite fstep_of_event; reflexivity).
  destruct (poll cci (VSockRec.set_sends s script)) as [s' r] eqn:E.
  rewrite (fstep_of_poll cci s script s' r E). unfold c17_fin_number_step_ok, fin_of_state.
  cbn [fs_event fs_result fs_pre fs_post fp_of_vsock f_state].
  apply poll_FN in E. destruct E as (E1 & E2).
  change (v_state (VSockRec.set_sends s script)) with (v_state s) in E1.
  apply andb_true_intro. split.
  - destruct (our_fin_if_unacked (v_state s)) as [f|] eqn:Ef; [|reflexivity].
    destruct (our_fin_if_unacked (v_state s')) as [f'|] eqn:Ef'; [|reflexivity].
    apply Z.eqb_eq. eapply st_rel_fin; eauto.
  - destruct (our_fin_if_unacked (v_state s')) as [f|] eqn:Ef; [|reflexivity].
    apply forallb_pkts. intros p Hp. rewrite pkt_is_of.
    destruct (ptype_eqb (ch_type (p_hdr p)) ST_FIN) eqn:Et; [|reflexivity].
    apply ptype_eqb_iff in Et. apply Z.eqb_eq. exact (E2 f eq_refl p Hp Et).
Qed.

End WithCC.

(* C03 (connection-level half) — the predicates of Conn/C03_Pred.v as THEOREMS about every step of
   the model and about every trace from vsock_new. *)
From Utp Require Import Base.Prelude Wire.SeqNr Wire.Header Rtt.Rtte Mtu.SegSizes Rx.Rx Rx.Rx_Proofs
  Tx.Ring Tx.Ring_Proofs Tx.Segments Conn.Recovery Conn.Msg Conn.VSockRec Conn.VSock Conn.VSockRun
  Conn.VObs Conn.VSock_LemmasFin Conn.C17_Proofs Conn.C03_Pred Conn.C03_Proofs
  Conn.VSock_Lemmas Conn.VSock_LemmasStep Conn.VSock_LemmasReach Conn.VSock_LemmasPark.

Lemma read_loop_vsock_closed : forall fuel r room out r' out' d e,
  read_loop fuel r room out = (r', out', d, e) -> vsock_closed r' = vsock_closed r.
Proof.
  induction fuel as [|fuel IH]; intros r0 room out0 r' out' d e; cbn [read_loop].
  - intro H; injection H as <- _ _ _; reflexivity.
  - destruct (room <=? 0); [intro H; injection H as <- _ _ _; reflexivity|].
    destruct (current r0).
    + destruct (is_eof r0); [intro H; injection H as <- _ _ _; reflexivity|].
      destruct (q r0) as [|item qr].
      * destruct (vsock_closed r0) eqn:Ec; intro H; injection H as <- _ _ _; cbn [set_flags vsock_closed]; congruence.
      * destruct item; [intro H; apply IH in H; exact H|..];
          intro H; injection H as <- _ _ _; reflexivity.
    + intro H; apply IH in H; exact H.
Qed.

Section WithCC.
Context {CC : Type} (cci : cc_iface CC).
Notation vsock := (vsock CC).

(* just_before_death always leaves both halves marked closed and no writer waker *)
Lemma just_before_death_closed : forall (s : vsock) e, both_closed (just_before_death s e).
Proof.
  intros s e. unfold just_before_death. cbv zeta.
  match goal with |- context [mark_both_closed ?x] => set (s1 := x) end. clearbody s1.
  pose proof (mark_both_closed_spec s1) as H. cbv zeta in H. destruct H as (B & _).
  set (s2 := mark_both_closed s1) in *. clearbody s2.
  destruct e; [|exact B]. destruct (negb _); [|exact B].
  pose proof (send_control_packet_fields (set_seq_nr s2 (wadd16 (v_seq_nr s2) 1))
                (hdr_with (outgoing_header s2) ST_FIN (v_seq_nr s2) None)) as Hf.
  destruct (send_control_packet _ _) as [s4 b|s4 e4|].
  - destruct Hf as (F1 & F2 & _). unfold both_closed in *. rewrite F1, F2. exact B.
  - destruct Hf as (F1 & F2 & _). unfold both_closed in *. rewrite F1, F2. exact B.
  - exact B.
Qed.

Lemma has_wake_in : forall w l, In w l -> has_wake w (rev l) = true.
Proof.
  intros w l H. unfold has_wake. apply existsb_exists. exists w. split; [rewrite <- in_rev; exact H|].
  destruct w; reflexivity.
Qed.

(* ================================================================== c03_ready_closed_ok *)
Theorem c03_ready_closed_ok_step : forall cfg (s : vsock) o,
  pk s -> c03_ready_closed_ok cfg (fstep_of cci s o) = true.
Proof.
  intros cfg s o Hpk.
  destruct o; try (unfold c03_ready_closed_ok; rewrite fstep_of_event; reflexivity).
  destruct (poll cci (VSockRec.set_sends s script)) as [s' r] eqn:E.
  rewrite (fstep_of_poll cci s script s' r E). unfold c03_ready_closed_ok.
  cbn [fs_event fs_result fs_pre fs_post].
  destruct (poll_is_ready r) eqn:Hr; [|reflexivity].
  (* the final state comes out of just_before_death *)
  assert (Hd : died s' r).
  { pose proof E as E'. rewrite poll_unfold in E'. eapply poll_ready_died; [exact E'|].
    destruct r; try discriminate; [left; reflexivity | right; eexists; reflexivity]. }
  destruct Hd as (s0 & eo & -> & _).
  pose proof (just_before_death_closed s0 eo) as (B1 & B2 & B3).
  pose proof (poll_reach cci _ _ _ E) as R.
  assert (Hpk' : pk (just_before_death s0 eo)) by (eapply pk_reach; [exact R | exact Hpk]).
  assert (Hrw : reader_waker (v_rx (just_before_death s0 eo)) = false).
  { destruct (reader_waker _) eqn:K; [|reflexivity].
    destruct Hpk' as [[_ Hq] _]. destruct (Hq K) as [_ Hc]. congruence. }
  cbn [fp_of_vsock f_rx_closed f_tx_closed f_rx_reader_waker f_tx_writer_waker].
  rewrite B1, B2, B3, Hrw. cbn [negb andb].
  apply andb_true_intro. split.
  - destruct (reader_waker (v_rx s)) eqn:K; [|reflexivity].
    assert (W : wr (poll_init (VSockRec.set_sends s script))) by (left; exact K).
    apply (wr_reach _ _ _ _ R) in W. destruct W as [W|W]; [congruence|]. apply has_wake_in. exact W.
  - destruct (writer_waker (v_tx s)) eqn:K; [|reflexivity].
    assert (W : ww (poll_init (VSockRec.set_sends s script))) by (left; exact K).
    apply (ww_reach _ _ _ _ R) in W. destruct W as [W|W]; [congruence|]. apply has_wake_in. exact W.
Qed.

(* ================================================================== c03_no_hang_ok *)
(* the read half is not marked closed before the poll that returns Ready *)
Definition ncrx (s : vsock) : Prop := vsock_closed (v_rx s) = false.

Lemma rx_dop_live_closed : forall r r' w, rx_dop false r r' w -> vsock_closed r' = vsock_closed r.
Proof.
  intros r r' w H. destruct H; try discriminate.
  - unfold rx_flush in H.
    set (s0 := set_wakers r _ (reader_waker r) (last_remaining_rx_window r)) in *.
    destruct (flush_loop _ s0 _ 0 0) as [[[[s1 w1] fb] fp]|] eqn:E.
    + apply flush_loop_park in E. destruct E as (_ & _ & H3 & _).
      destruct (0 <? fp); injection H as <- _ _; cbn [set_wakers vsock_closed]; rewrite H3; reflexivity.
    + injection H as <- _ _. reflexivity.
  - rename H0 into Ha. unfold rx_add_remove in Ha. destruct (ooq_add_remove r k p off) as [s1 a] eqn:E.
    apply ooq_add_remove_park in E. destruct E as (_ & _ & _ & E4).
    destruct a; try (injection Ha as <- _ _; exact E4).
    destruct (_ && _); [|injection Ha as <- _ _; exact E4].
    destruct (rx_flush s1) as [[s2 fr] w2] eqn:Ef.
    assert (K : vsock_closed s2 = vsock_closed s1).
    { unfold rx_flush in Ef.
      set (s0 := set_wakers s1 _ (reader_waker s1) (last_remaining_rx_window s1)) in *.
      destruct (flush_loop _ s0 _ 0 0) as [[[[s3 w1] fb] fp]|] eqn:E.
      - apply flush_loop_park in E. destruct E as (_ & _ & H3 & _).
        destruct (0 <? fp); injection Ef as <- _ _; cbn [set_wakers vsock_closed]; rewrite H3; reflexivity.
      - injection Ef as <- _ _. reflexivity. }
    destruct fr; injection Ha as <- _ _; congruence.
Qed.

Lemma ncrx_reach_live : forall t (s s' : vsock), reach false t s s' -> ncrx s -> ncrx s'.
Proof.
  intros t s s' H. induction H; unfold ncrx in *; intro K.
  - exact K.
  - auto.
  - rewrite H. exact K.
  - rewrite (rx_dop_live_closed _ _ _ H). exact K.
  - rewrite H0. exact K.
  - rewrite H0. exact K.
Qed.

Lemma ncrx_vstep_live : forall (s : vsock) o,
  ncrx s -> poll_finished (vstep_out cci s o) = false -> ncrx (vstep_state cci s o).
Proof.
  intros s o Hn Hl.
  destruct o;
    try (unfold vstep_state; cbn [vstep];
         repeat match goal with |- context [if ?c then _ else _] => destruct c end;
         repeat match goal with |- context [let '(_, _) := ?t in _] => destruct t end;
         cbn [fst]; exact Hn).
  - destruct (poll cci (VSockRec.set_sends s script)) as [s' r] eqn:E.
    destruct (vstep_poll cci s script s' r E) as [V1 V2]. rewrite V1. rewrite V2 in Hl.
    destruct r; try discriminate.
    pose proof (poll_reach_pending cci _ _ E) as PS. unfold pend_shape in PS.
    destruct PS as [PS|PS]; [destruct PS as [_ R] | destruct PS as (sa & sb & b & R1 & M & R2 & T & Rr & Cc & Es); rewrite Es].
    + eapply ncrx_reach_live; [exact R | exact Hn].
    + unfold ncrx. destruct (poll_tail_fields sb) as (_ & _ & F3 & _). rewrite F3.
      eapply ncrx_reach_live; [exact R2|]. eapply ncrx_reach_live; [exact R1 | exact Hn].
  - (* read *)
    unfold vstep_state; cbn [vstep]. destruct (reader_dropped (v_rx s)); [exact Hn|].
    destruct (rx_read (v_rx s) n) as [[rx1 r] w] eqn:E. cbn [fst]. unfold ncrx. cbn [v_rx set_rx].
    unfold rx_read in E. destruct (read_loop _ (v_rx s) n []) as [[[s1 out] dead] err] eqn:El.
    assert (K : vsock_closed s1 = vsock_closed (v_rx s)) by (eapply read_loop_vsock_closed; exact El).
    destruct err; [injection E as <- _ _; congruence|].
    destruct out; [destruct (is_eof s1); [|destruct dead]|]; injection E as <- _ _;
      cbn [vsock_closed]; congruence.
  - (* drop reader *)
    unfold vstep_state; cbn [vstep]. destruct (reader_dropped (v_rx s)); [exact Hn|].
    unfold rx_drop_reader. cbn [fst]. exact Hn.
Qed.

Lemma ncrx_vsock_new : forall mk c s, vsock_new cci mk c = Some s -> ncrx s.
Proof.
  intros mk c s H. unfold vsock_new in H.
  destruct (match (if vc_incoming c then None else _) with Some r => _ | None => _ end); [|discriminate].
  inversion H; subst. reflexivity.
Qed.

Theorem c03_no_hang_ok_step : forall cfg (s : vsock) o,
  ncrx s -> c03_no_hang_ok cfg (fstep_of cci s o) = true.
Proof.
  intros cfg s o Hn. unfold c03_no_hang_ok, fstep_of.
  destruct o; cbn [vstep]; try reflexivity.
  - destruct (poll cci (VSockRec.set_sends s script)) as [s' r]. reflexivity.
  - destruct (v_inbox_closed s); reflexivity.
  - (* write *)
    destruct (writer_dropped (v_tx s)); [reflexivity|].
    destruct (t_vsock_closed (v_tx s)) eqn:Ec.
    + destruct (write_after_close (v_tx s) buf Ec) as [->|(s1 & -> & _)];
        cbn [fs_result fresult_of fs_pre fs_self_woken fp_of_vsock f_tx_closed self_woken_tx existsb];
        [reflexivity | apply orb_true_r].
    + destruct (poll_write (v_tx s) buf) as [[tx1 r] w].
      cbn [fs_result fresult_of fs_pre fp_of_vsock f_tx_closed]. rewrite Ec. destruct r; reflexivity.
  - destruct (writer_dropped (v_tx s)); [reflexivity|].
    destruct (t_vsock_closed (v_tx s)) eqn:Ec.
    + rewrite (flush_after_close _ Ec). cbn [fs_result fresult_of]. destruct (ring (v_tx s)); reflexivity.
    + destruct (poll_flush (v_tx s)) as [[tx1 r] w].
      cbn [fs_result fresult_of fs_pre fp_of_vsock f_tx_closed]. rewrite Ec. destruct r; reflexivity.
  - destruct (writer_dropped (v_tx s)); [reflexivity|].
    destruct (t_vsock_closed (v_tx s)) eqn:Ec.
    + rewrite (shutdown_after_close _ Ec). cbn [fs_result fresult_of]. destruct (ring (v_tx s)); reflexivity.
    + destruct (poll_shutdown (v_tx s)) as [[tx1 r] w].
      cbn [fs_result fresult_of fs_pre fp_of_vsock f_tx_closed]. rewrite Ec. destruct r; reflexivity.
  - destruct (reader_dropped (v_rx s)); [reflexivity|].
    destruct (rx_read (v_rx s) n) as [[rx1 r] w].
    cbn [fs_result fresult_of fs_pre fp_of_vsock f_rx_closed].
    unfold ncrx in Hn. rewrite Hn. destruct r; reflexivity.
  - destruct (reader_dropped (v_rx s)); [reflexivity|].
    destruct (rx_drop_reader (v_rx s)) as [rx1 w]. reflexivity.
  - destruct (drop_writer (v_tx s)) as [tx1 w]. reflexivity.
Qed.

(* ================================================================== the trace predicate *)
Lemma after_death_scan_ftrace : forall ops (s : vsock),
  after_death_scan (ftrace cci s ops) false = true.
Proof.
  induction ops as [|o rest IH]; intros s; [reflexivity|].
  rewrite ftrace_cons'. cbn [after_death_scan andb].
  rewrite fstep_of_result. fold (vstep_out cci s o).
  destruct (vstep_out cci s o) as [|r pk wk a|r|r|r] eqn:Eo; cbn [poll_finished fresult_of orb];
    try apply IH.
  - destruct r; cbn [poll_is_ready]; first [apply IH | reflexivity].
  - destruct r; apply IH.
Qed.

Theorem c03_after_death_ok_trace : forall cfg mk c (s0 : vsock) ops,
  vsock_new cci mk c = Some s0 -> c03_after_death_ok cfg (ftrace cci s0 ops) = true.
Proof.
  intros cfg mk c s0 ops H0. unfold c03_after_death_ok.
  apply andb_true_intro. split; [apply andb_true_intro; split|].
  - apply (ftrace_forallb cci pk).
    + intros s o Hp. apply c03_ready_closed_ok_step; exact Hp.
    + intros s o Hp. apply pk_vstep; exact Hp.
    + eapply pk_vsock_new; exact H0.
  - apply (ftrace_forallb_live cci ncrx).
    + intros s o Hp. apply c03_no_hang_ok_step; exact Hp.
    + intros s o Hp Hl. apply ncrx_vstep_live; assumption.
    + eapply ncrx_vsock_new; exact H0.
  - apply after_death_scan_ftrace.
Qed.

End WithCC.

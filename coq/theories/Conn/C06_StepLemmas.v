(* C06, step level: reusable machinery.
   - [PollHoare]: staged Hoare reasoning about a whole poll, for EVERY result (Pending with the
     transport blocked or not, Ready, error exits, restarts): stage invariants
       A0 (head of an iteration)  A (up to the incoming messages)  B1 (after them)
       B2 (after the flush, up to send_tx_queue)  C (after it)  D (after maybe_send_ack),
     QP = what a Pending exit with a blocked transport leaves, QE = what an error exit leaves
     (the state handed to just_before_death);
   - segment-table facts: the snapshot an iterator item carries is the table entry ([item_sync]),
     the indices of an iterator are pairwise distinct, rules for the two sending loops;
   - the invariants used by Conn/C06_Step.v, function by function. *)
From Utp Require Conn.VSock_Inv.
From Utp Require Import Base.Prelude Wire.SeqNr Wire.SeqNr_Proofs Wire.Header Rtt.Rtte Rtt.Rtte_Proofs
  Mtu.SegSizes Rx.Rx Tx.Ring Tx.Ring_Proofs Tx.Segments Tx.Segments_Proofs Tx.Segments_ProofsOut
  Conn.Recovery Conn.Msg Conn.VSockRec Conn.VSock Conn.VSockRun Conn.VObs
  Conn.VSock_Lemmas Conn.VSock_LemmasStep Conn.VSock_LemmasReach Conn.VSock_LemmasTx
  Conn.VSock_LemmasIn Conn.VSock_LemmasTimers Conn.VSock_LemmasPipe Conn.C17_StepLemmas
  Conn.C06_RecProofs.

Section WithCC.
Context {CC : Type} (cci : cc_iface CC).
Notation vsock := (vsock CC).

(* ================================================================== no function but send_tx_queue
   asks for a restart; none but the senders touches the transport flag *)
Lemma nr_syn_ack : forall s : vsock, no_restart s (maybe_send_syn_ack s).
Proof. intro s. apply no_restart_qb, maybe_send_syn_ack_qb. Qed.
Lemma nr_send_ack : forall s : vsock, no_restart s (send_ack s).
Proof. intro s. apply no_restart_qb, send_ack_qb. Qed.
Lemma nr_pim : forall s : vsock, no_restart s (process_all_incoming_messages cci s).
Proof.
  intros s Ra. pose proof (process_all_incoming_messages_pimr cci s) as P'.
  destruct (process_all_incoming_messages cci s); cbn [stU stR] in *; auto.
  destruct P' as (_ & _ & _ & _ & _ & P6 & _). congruence.
Qed.
Lemma nr_split : forall s : vsock, no_restart s (split_tx_queue_into_segments cci s).
Proof. intro s. apply no_restart_qb, split_tx_queue_into_segments_qb. Qed.
Lemma nr_fin : forall s : vsock, no_restart s (maybe_send_fin s).
Proof. intro s. apply no_restart_qb, maybe_send_fin_qb. Qed.
Lemma nr_msa : forall s : vsock, no_restart s (maybe_send_ack s).
Proof. intro s. apply no_restart_qb, maybe_send_ack_qb. Qed.

Lemma split_tp : forall (s s' : vsock) u,
  split_tx_queue_into_segments cci s = SOk s' u -> v_transport_pending s' = v_transport_pending s.
Proof.
  intros s s' u H. unfold split_tx_queue_into_segments in H.
  destruct (_ =? 0); [inversion H; reflexivity|].
  match type of H with context [is_remote_fin_or_later (v_state ?x)] => set (s1 := x) in * end.
  assert (F1 : v_transport_pending s1 = v_transport_pending s).
  { subst s1. destruct (_ && _); [|reflexivity].
    destruct (grow _ _) as [tx1 g]. destruct g; [destruct (wake_writer tx1)|]; reflexivity. }
  clearbody s1.
  destruct (is_remote_fin_or_later _); [inversion H; subst; exact F1|].
  destruct (pop_expired_mtu_probe _ _ _) as [segs1 pe].
  destruct pe.
  - destruct (seq_gt _ _);
      (destruct (_ <? _); [discriminate|]);
      (destruct (segment_loop _ _ _ _ _ _) as [[[ss' segs'] rem']|]; [|discriminate]);
      inversion H; subst; exact F1.
  - inversion H; subst; exact F1.
  - destruct (_ <? _); [discriminate|].
    destruct (segment_loop _ _ _ _ _ _) as [[[ss' segs'] rem']|]; [|discriminate].
    inversion H; subst; exact F1.
Qed.

(* ================================================================== staged Hoare reasoning *)
Section PollHoare.
Variables A0 A B1 B2 C D : vsock -> Prop.
Variable QP : vsock -> Prop.
Variable QE : vsock -> verror -> Prop.

(* a sending stage: the state it leaves satisfies P, or QP when the transport blocked *)
Definition stH (P : vsock -> Prop) {X} (m : step X) : Prop :=
  match m with
  | SOk s' _ => (v_transport_pending s' = true -> QP s') /\ (v_transport_pending s' = false -> P s')
  | SErr s' e => QE s' e
  | SPanic => True
  end.

(* a stage that cannot block *)
Definition stB (P : vsock -> Prop) {X} (m : step X) : Prop :=
  match m with SOk s' _ => P s' | SErr s' e => QE s' e | SPanic => True end.

Definition stQ (m : step unit) : Prop :=
  match m with
  | SOk s' _ => (v_restart s' = true -> A0 s') /\
                (v_restart s' = false -> v_transport_pending s' = true -> QP s') /\
                (v_restart s' = false -> v_transport_pending s' = false -> C s')
  | SErr s' e => QE s' e
  | SPanic => True
  end.

Hypothesis H_start : forall s, A0 s -> A (poll_start s).
Hypothesis H_syn_ack : forall s, A s -> v_transport_pending s = false -> stH A (maybe_send_syn_ack s).
Hypothesis H_send_ack : forall s, A s -> v_transport_pending s = false -> stH A (send_ack s).
Hypothesis H_pim : forall s, A s -> v_transport_pending s = false ->
  stH B1 (process_all_incoming_messages cci s).
Hypothesis H_flush : forall s rx1 fb w, B1 s -> v_transport_pending s = false ->
  rx_flush (v_rx s) = (rx1, FlOk fb, w) -> B2 (add_wakes (set_rx s rx1) (rx_wakes w)).
Hypothesis H_inact : forall s, B2 s -> QE s ErrRemoteInactiveForTooLong.
Hypothesis H_split : forall s, B2 s -> v_transport_pending s = false ->
  stB B2 (split_tx_queue_into_segments cci s).
Hypothesis H_stq : forall s, B2 s -> v_transport_pending s = false -> v_restart s = false ->
  stQ (send_tx_queue cci s).
Hypothesis H_fw1 : forall s, C s -> v_transport_pending s = false -> C (transition_to_fin_wait_1 s).
Hypothesis H_fin : forall s, C s -> v_transport_pending s = false -> stH C (maybe_send_fin s).
Hypothesis H_msa : forall s, C s -> v_transport_pending s = false -> stH D (maybe_send_ack s).

(* every way out of one iteration *)
Definition brH (r : body_res) : Prop :=
  match r with
  | BrReturn s' PollPending =>
      (v_transport_pending s' = true /\ QP s') \/
      (exists sb, D sb /\ v_transport_pending sb = false /\ v_restart sb = false /\
                  state_is_closed (v_state sb) (o_wait_for_last_ack (v_opts sb)) = false /\
                  s' = poll_tail sb)
  | BrReturn s' PollReadyOk =>
      exists sb, D sb /\ v_transport_pending sb = false /\ s' = just_before_death sb None
  | BrReturn s' (PollReadyErr e) => exists sb, QE sb e /\ s' = just_before_death sb (Some e)
  | BrReturn _ PollPanic => True
  | BrRestart s' => A0 s'
  | BrPanic => True
  end.

Lemma pend_H : forall X (P : vsock -> Prop) (m : step X) k (s : vsock),
  v_restart s = false -> no_restart s m -> stH P m ->
  (forall s1 a, P s1 -> v_restart s1 = false -> v_transport_pending s1 = false -> brH (k s1 a)) ->
  brH (pend m k).
Proof.
  intros X P m k s R0 Hn Hm Hk. unfold pend, bail. specialize (Hn R0).
  destruct m as [s1 a|s1 e|]; cbn [stH stU] in *.
  - rewrite Hn. destruct Hm as [Hp Hq].
    destruct (v_transport_pending s1) eqn:T.
    + cbn [brH]. left. split; [exact T | apply Hp; reflexivity].
    + apply Hk; auto.
  - unfold die. cbn [brH]. exists s1. split; [exact Hm | reflexivity].
  - exact I.
Qed.

Theorem poll_body_H : forall s0, A0 s0 -> brH (poll_body cci s0).
Proof.
  intros s0 HA. apply H_start in HA. unfold poll_body. fold (poll_start s0).
  assert (R0 : v_restart (poll_start s0) = false) by reflexivity.
  assert (T0 : v_transport_pending (poll_start s0) = false) by reflexivity.
  generalize dependent (poll_start s0). clear s0. intros s0 HA R0 T0.
  apply (pend_H _ A _ _ s0 R0); [apply nr_syn_ack | apply H_syn_ack; assumption |].
  intros s1 _ HA1 R1 T1.
  apply (pend_H _ A _ _ s1 R1).
  { destruct (immediate_ack_to_transmit s1); [apply nr_send_ack | intros _; exact R1]. }
  { destruct (immediate_ack_to_transmit s1); [apply H_send_ack; assumption|].
    cbn [stH]. split; [congruence | intros _; exact HA1]. }
  intros s2 _ HA2 R2 T2.
  apply (pend_H _ B1 _ _ s2 R2); [apply nr_pim | apply H_pim; assumption |]. intros s3 _ HB3 R3 T3.
  destruct (rx_flush (v_rx s3)) as [[rx1 fr] w] eqn:Efl. destruct fr as [fb|]; [|exact I].
  pose proof (H_flush s3 rx1 fb w HB3 T3 Efl) as HB4.
  assert (R4 : v_restart (add_wakes (set_rx s3 rx1) (rx_wakes w)) = false) by exact R3.
  assert (T4 : v_transport_pending (add_wakes (set_rx s3 rx1) (rx_wakes w)) = false) by exact T3.
  set (s4 := add_wakes (set_rx s3 rx1) (rx_wakes w)) in *. clearbody s4.
  destruct (timer_expired _ _).
  { unfold die. cbn [brH]. exists s4. split; [apply H_inact; exact HB4 | reflexivity]. }
  (* split: bail *)
  unfold bail at 1.
  pose proof (H_split s4 HB4 T4) as HB5. pose proof (nr_split s4 R4) as R5.
  pose proof (split_tp s4) as T5.
  destruct (split_tx_queue_into_segments cci s4) as [s5 a5|s5 e5|]; cbn [stB stU] in *.
  2:{ unfold die. cbn [brH]. exists s5. split; [exact HB5 | reflexivity]. }
  2:{ exact I. }
  rewrite R5. specialize (T5 s5 a5 eq_refl). rewrite T4 in T5.
  (* send_tx_queue: the only stage that may restart *)
  pose proof (H_stq s5 HB5 T5 R5) as H6.
  unfold pend at 1, bail at 1.
  destruct (send_tx_queue cci s5) as [s6 a6|s6 e6|]; cbn [stQ] in H6.
  2:{ unfold die. cbn [brH]. exists s6. split; [exact H6 | reflexivity]. }
  2:{ exact I. }
  destruct H6 as (H6r & H6p & H6c).
  destruct (v_restart s6) eqn:R6; [cbn [brH]; apply H6r; reflexivity|].
  destruct (v_transport_pending s6) eqn:T6.
  { cbn [brH]. left. split; [exact T6 | apply H6p; reflexivity]. }
  specialize (H6c eq_refl eq_refl).
  assert (HC7 : C (if should_close_on_own_initiative s6 then transition_to_fin_wait_1 s6 else s6)).
  { destruct (should_close_on_own_initiative s6); [apply H_fw1; assumption | exact H6c]. }
  assert (R7 : v_restart (if should_close_on_own_initiative s6 then transition_to_fin_wait_1 s6 else s6) = false).
  { destruct (should_close_on_own_initiative s6); [rewrite transition_to_fin_wait_1_restart|]; exact R6. }
  assert (T7 : v_transport_pending (if should_close_on_own_initiative s6 then transition_to_fin_wait_1 s6 else s6) = false).
  { destruct (should_close_on_own_initiative s6); [|exact T6].
    unfold transition_to_fin_wait_1. destruct (v_state s6); exact T6. }
  set (s7 := if should_close_on_own_initiative s6 then transition_to_fin_wait_1 s6 else s6) in *.
  clearbody s7.
  apply (pend_H _ C _ _ s7 R7); [apply nr_fin | apply H_fin; assumption |]. intros s8 _ HC8 R8 T8.
  apply (pend_H _ D _ _ s8 R8); [apply nr_msa | apply H_msa; assumption |]. intros s9 _ HC9 R9 T9.
  destruct (state_is_closed _ _) eqn:C9.
  { cbn [brH]. exists s9. split; [exact HC9|]. split; [exact T9 | reflexivity]. }
  assert (Hs : forall sx, sx = poll_tail s9 -> brH (BrReturn sx PollPending)).
  { intros sx ->. cbn [brH]. right. exists s9. repeat split; assumption. }
  unfold poll_tail in Hs.
  destruct (next_timer_to_poll _) as [sx t]. destruct t; apply Hs; reflexivity.
Qed.

(* the result of a whole poll *)
Definition resH (s' : vsock) (r : poll_result) : Prop :=
  match r with
  | PollPending =>
      (v_transport_pending s' = true /\ QP s') \/
      (exists sb, D sb /\ v_transport_pending sb = false /\ v_restart sb = false /\
                  state_is_closed (v_state sb) (o_wait_for_last_ack (v_opts sb)) = false /\
                  s' = poll_tail sb)
  | PollReadyOk => exists sb, D sb /\ v_transport_pending sb = false /\ s' = just_before_death sb None
  | PollReadyErr e => exists sb, QE sb e /\ s' = just_before_death sb (Some e)
  | PollPanic => True
  end.

Theorem poll_loop_H : forall fuel s s' r,
  A0 s -> poll_loop cci fuel s = (s', r) -> resH s' r.
Proof.
  induction fuel as [|fuel IH]; intros s s' r HA H; cbn [poll_loop] in H.
  - inversion H; subst. exact I.
  - pose proof (poll_body_H s HA) as F.
    destruct (poll_body cci s) as [s1 r1|s1|]; cbn [brH] in *.
    + inversion H; subst. destruct r; exact F.
    + eapply IH; [exact F | exact H].
    + inversion H; subst. exact I.
Qed.

Theorem poll_H : forall s s' r, A0 (poll_init s) -> poll cci s = (s', r) -> resH s' r.
Proof. intros s s' r HA H. rewrite poll_unfold in H. eapply poll_loop_H; [exact HA | exact H]. Qed.

End PollHoare.

(* ================================================================== a projection of the segment table
   that on_sent and pop_mtu_probe keep is kept by everything send_tx_queue does *)
Section SegProj.
Variable X : Type.
Variable phi : segments -> X.
Hypothesis phi_on_sent : forall t i now, phi (on_sent t i now) = phi t.
Hypothesis phi_pop : forall t q t' b, pop_mtu_probe t q = (t', b) -> phi t' = phi t.

Definition sgp (s s' : vsock) : Prop := phi (v_segs s') = phi (v_segs s).
Lemma sgp_refl : forall s, sgp s s. Proof. intro s. reflexivity. Qed.
Lemma sgp_trans : forall a b c, sgp a b -> sgp b c -> sgp a c.
Proof. unfold sgp. intros a b c H1 H2. congruence. Qed.
Notation stg := (stR sgp).

Lemma kp_sgp : forall s s', kp s s' -> sgp s s'.
Proof. intros s s' (K & _). unfold sgp. rewrite K. reflexivity. Qed.

Lemma skp_stg : forall A (s : vsock) (m : step A), skp s m -> stg s m.
Proof. intros A s m H. destruct m; cbn [skp stR] in *; auto using kp_sgp. Qed.

Lemma send_data_sgp : forall (s : vsock) h f, stg s (send_data s h f).
Proof.
  intros s h f. pose proof (send_data_spec s h f) as Hd.
  destruct (send_data s h f) as [s' [| |]|s' e|]; cbn [stR]; try exact I.
  - destruct Hd as (_ & _ & Hs & _). unfold sgp. rewrite Hs. apply phi_on_sent.
  - destruct Hd as ((_ & _ & Hs & _) & _). unfold sgp. rewrite Hs. reflexivity.
  - destruct Hd as ((_ & _ & Hs & _) & _). unfold sgp. rewrite Hs. reflexivity.
  - destruct Hd as ((_ & _ & Hs & _) & _). unfold sgp. rewrite Hs. reflexivity.
Qed.

Lemma recovery_loop_sgp : forall items (s : vsock) h mss0 st, stg s (recovery_loop items s h mss0 st).
Proof.
  induction items as [|f rest IH]; intros s h mss0 st; cbn [recovery_loop].
  - apply sgp_refl.
  - destruct (negb _); [apply sgp_refl|].
    destruct (_ && negb (sg_lost _)); [apply IH|].
    destruct (_ && negb (sg_sacks_after _)); [apply sgp_refl|].
    pose proof (send_data_sgp s h f) as F.
    destruct (send_data s h f) as [s1 r|s1 e|]; cbn [stR] in *; auto.
    destruct r; cbn [stR]; auto.
    eapply (stR_weaken sgp sgp_trans); [exact F | apply IH].
Qed.

Lemma new_data_loop_sgp : forall items (s : vsock) h remaining, stg s (new_data_loop items s h remaining).
Proof.
  induction items as [|f rest IH]; intros s h remaining; cbn [new_data_loop].
  - apply sgp_refl.
  - destruct (_ <? _); [apply sgp_refl|].
    pose proof (send_data_sgp s h f) as F.
    destruct (send_data s h f) as [s1 r|s1 e|]; cbn [stR] in *; auto.
    destruct r; cbn [stR]; auto.
    eapply (stR_weaken sgp sgp_trans); [exact F | apply IH].
Qed.

Lemma on_rto_reactions_sgp : forall (s s1 : vsock), on_rto_reactions cci s = Some s1 -> sgp s s1.
Proof. intros s s1 H. apply kp_sgp. eapply on_rto_reactions_kp; exact H. Qed.

Lemma send_tx_queue_sgp : forall (s : vsock), stg s (send_tx_queue cci s).
Proof.
  intros s. unfold send_tx_queue.
  destruct (v_transport_pending s); [apply sgp_refl|].
  apply (stR_sbind sgp sgp_trans).
  - destruct (timer_expired _ _); [|apply sgp_refl].
    destruct (iter_for_sending _ _) as [|f l].
    + destruct (our_fin_if_unacked _); [|cbn [stR]; reflexivity].
      destruct (_ =? _); [|cbn [stR]; reflexivity].
      apply (stR_weaken sgp sgp_trans) with (s := set_last_sent_seq_nr s (wsub16 (v_last_sent_seq_nr s) 1));
        [reflexivity|].
      apply (stR_sbind sgp sgp_trans); [apply skp_stg, maybe_send_fin_kp|].
      intros s1 a. destruct a; [|apply sgp_refl].
      destruct (on_rto_reactions cci s1) eqn:E; [|exact I]. apply on_rto_reactions_sgp in E.
      cbn [stR]. eapply sgp_trans; [exact E | reflexivity].
    + pose proof (send_data_sgp s (outgoing_header s) f) as Hd.
      destruct (send_data _ _ f) as [s1 r|s1 e|]; cbn [stR] in *; auto.
      destruct r; cbn [stR]; auto.
      cbv zeta.
      match goal with |- stR _ _ (match ?o with _ => _ end) => destruct o as [s2|] eqn:E end; [|exact I].
      assert (F2 : sgp s1 s2).
      { destruct (negb _); [apply on_rto_reactions_sgp; exact E|injection E as <-; apply sgp_refl]. }
      cbn [stR]. eapply sgp_trans; [exact Hd|]. eapply sgp_trans; [exact F2 | reflexivity].
  - intros s1 ret. destruct ret; [apply sgp_refl|].
    destruct (0 <? _); [apply sgp_refl|]. destruct (ss_segs _); [apply sgp_refl|].
    apply (stR_sbind sgp sgp_trans).
    + destruct (rv_phase _); try apply sgp_refl.
      apply (stR_sbind sgp sgp_trans); [apply recovery_loop_sgp|].
      intros s2 [st early]. cbv beta iota zeta.
      destruct early; [cbn [stR]; reflexivity|].
      match goal with |- stR _ _ (match our_fin_if_unacked (v_state ?y) with _ => _ end) =>
        assert (F3 : sgp s2 y); [|revert F3; generalize y; intros sy F3] end.
      { unfold set_recovering. destruct (_ <? _); [|reflexivity]. destruct (rc_recalc _); [reflexivity|].
        destruct (0 <? _); reflexivity. }
      destruct (our_fin_if_unacked _); [destruct (_ =? _)|]; cbn [stR]; auto.
    + intros s2 ret. destruct ret; [apply sgp_refl|].
      apply (stR_sbind sgp sgp_trans); [apply new_data_loop_sgp|].
      intros s3 tl. destruct tl as [[sq sz]|]; [|apply sgp_refl].
      destruct (pop_mtu_probe _ _) as [segs' popped] eqn:Ep. destruct popped; cbn [stR]; [|apply sgp_refl].
      unfold sgp. vsimpl. eapply phi_pop; exact Ep.
Qed.

End SegProj.

(* ================================================================== the joint relation of ring and table,
   after every Pending poll:  bytes truncated from the ring = bytes the table dropped as acknowledged,
   and bytes truncated + bytes in the ring = bytes ever accepted from the writer *)
Definition JQ (s : vsock) : Prop := g_removed (v_tx s) = ss_removed (v_segs s).
Definition TW (s : vsock) : Z := g_removed (v_tx s) + Z.of_nat (length (ring (v_tx s))).
Definition JI (w : Z) (s : vsock) : Prop := LB 0 s /\ JQ s /\ TW s = w.

(* the numbers JQ and TW read are untouched *)
Definition jq (s s' : vsock) : Prop :=
  g_removed (v_tx s') = g_removed (v_tx s) /\ ring (v_tx s') = ring (v_tx s) /\
  ss_removed (v_segs s') = ss_removed (v_segs s).
Lemma jq_refl : forall s, jq s s. Proof. intro s. repeat split; reflexivity. Qed.
Lemma jq_trans : forall a b c, jq a b -> jq b c -> jq a c.
Proof. unfold jq. intros a b c (A1 & A2 & A3) (B1 & B2 & B3). repeat split; congruence. Qed.
Lemma JQ_jq : forall s s', jq s s' -> JQ s -> JQ s'.
Proof. unfold jq, JQ. intros s s' (A1 & A2 & A3) H. congruence. Qed.
Lemma TW_jq : forall s s', jq s s' -> TW s' = TW s.
Proof. unfold jq, TW. intros s s' (A1 & A2 & A3). rewrite A1, A2. reflexivity. Qed.

Lemma txf_kp_jq : forall A (s : vsock) (m : step A), stR txf s m -> skp s m -> stR jq s m.
Proof.
  intros A s m H K. destruct m as [s' a|s' e|]; cbn [stR skp] in *; auto.
  - destruct H as (_ & Ht & _). destruct K as (Ks & _). unfold jq. rewrite Ht, Ks. auto.
  - destruct H as (_ & Ht & _). destruct K as (Ks & _). unfold jq. rewrite Ht, Ks. auto.
Qed.

Lemma pop_mtu_probe_removed : forall t q t' b, pop_mtu_probe t q = (t', b) -> ss_removed t' = ss_removed t.
Proof.
  intros t q t' b. unfold pop_mtu_probe.
  destruct (last_and_init (ss_segs t)) as [[init g]|]; [destruct (_ && _)|]; intro H; injection H as <- _;
    reflexivity.
Qed.

Lemma pop_expired_removed : forall t to mr t' pe,
  pop_expired_mtu_probe t to mr = (t', pe) -> ss_removed t' = ss_removed t.
Proof.
  intros t to mr t' pe. unfold pop_expired_mtu_probe.
  destruct (last_and_init (ss_segs t)) as [[init g]|]; [|intro H; injection H as <- _; reflexivity].
  destruct (sg_delivered g); [intro H; injection H as <- _; reflexivity|].
  destruct (_ && _ && _); [intro H; injection H as <- _; reflexivity|].
  destruct (sg_probe g); intro H; injection H as <- _; reflexivity.
Qed.

Lemma segment_loop_removed : forall fuel nagle ss segs rem rwr ss' segs' rem',
  segment_loop fuel nagle ss segs rem rwr = Some (ss', segs', rem') -> ss_removed segs' = ss_removed segs.
Proof.
  induction fuel as [|x fuel IH]; intros nagle ss segs rem rwr ss' segs' rem' H; cbn [segment_loop] in H.
  - inversion H; reflexivity.
  - destruct (_ && _); [|inversion H; reflexivity].
    destruct (next_segment_size ss) as [[ss1 sz]|] eqn:E; [|discriminate].
    destruct (_ && _ && _); [inversion H; subst; reflexivity|].
    destruct (mss ss1 <? _); [inversion H; subst; reflexivity|].
    apply IH in H. rewrite H. reflexivity.
Qed.

Lemma stq_jq : forall s : vsock, stR jq s (send_tx_queue cci s).
Proof.
  intro s. pose proof (send_tx_queue_txf cci s) as T.
  pose proof (send_tx_queue_sgp Z ss_removed (fun _ _ _ => eq_refl) pop_mtu_probe_removed s) as G.
  destruct (send_tx_queue cci s) as [s' a|s' e|]; cbn [stR] in *; auto.
  - destruct T as (_ & Ht & _). unfold jq. rewrite Ht. repeat split; try reflexivity; exact G.
  - destruct T as (_ & Ht & _). unfold jq. rewrite Ht. repeat split; try reflexivity; exact G.
Qed.

Lemma split_jq : forall s : vsock, stR jq s (split_tx_queue_into_segments cci s).
Proof.
  intros s. unfold split_tx_queue_into_segments.
  destruct (_ =? 0).
  { cbn [stR]. unfold jq, register_dispatcher_if_empty. destruct (ring (v_tx s)) eqn:Er; vsimpl_goal;
      cbn [ring g_removed upd]; rewrite ?Er; repeat split; reflexivity. }
  match goal with |- context [is_remote_fin_or_later (v_state ?x)] => set (s1 := x) end.
  assert (F1 : jq s s1).
  { subst s1. destruct (_ && _); [|apply jq_refl].
    unfold grow. destruct (_ <=? _); cbn [fst snd]; unfold wake_writer, add_wakes, jq; vsimpl_goal;
      cbn [ring g_removed upd]; repeat split; reflexivity. }
  clearbody s1.
  destruct (is_remote_fin_or_later _); [exact F1|].
  destruct (pop_expired_mtu_probe _ _ _) as [segs1 pe] eqn:Ep.
  apply pop_expired_removed in Ep.
  assert (Hcont : forall s2 : vsock, jq s s2 ->
    stR jq s
      (if Z.of_nat (length (ring (v_tx s))) <? ss_len_bytes (v_segs s2)
       then SErr s2 (ErrBug BugInBufferComputations)
       else match segment_loop (ring (v_tx s2)) (o_nagle (v_opts s2)) (v_ss s2) (v_segs s2)
                    (Z.of_nat (length (ring (v_tx s))) - ss_len_bytes (v_segs s2))
                    (v_last_remote_window s2) with
            | Some (ss', segs', remaining) =>
                SOk (set_unsegmented (VSockRec.set_segs (set_ss s2 ss') segs') remaining) tt
            | None => SPanic
            end)).
  { intros s2 F2. destruct (_ <? _); [exact F2|].
    destruct (segment_loop _ _ _ _ _ _) as [[[ss' segs'] rem']|] eqn:E; [|exact I].
    apply segment_loop_removed in E. cbn [stR]. eapply jq_trans; [exact F2|].
    unfold jq. vsimpl_goal. repeat split; try reflexivity; exact E. }
  destruct pe.
  - apply Hcont. eapply jq_trans; [exact F1|].
    destruct (seq_gt _ _); unfold jq; vsimpl_goal; repeat split; try reflexivity; exact Ep.
  - cbn [stR]. eapply jq_trans; [exact F1|]. unfold jq. vsimpl_goal. repeat split; reflexivity.
  - apply Hcont. exact F1.
Qed.

(* JI through every function of a poll (the states that matter: SOk) *)
Definition jiR (w : Z) (s s' : vsock) : Prop := JI w s -> JI w s'.
Lemma jiR_refl : forall w s, jiR w s s. Proof. intros w s H; exact H. Qed.
Lemma jiR_trans : forall w a b c, jiR w a b -> jiR w b c -> jiR w a c.
Proof. intros w a b c H1 H2 H. auto. Qed.

Lemma jiR_of : forall w A (s : vsock) (m : step A),
  (LB 0 s -> sLB 0 m) -> stR jq s m -> stRk (jiR w) s m.
Proof.
  intros w A s m HL HJ. destruct m as [s' a|s' e|]; cbn [stRk stR sLB] in *; auto.
  intros (L & Q & T). split; [apply HL; exact L|]. split; [eapply JQ_jq; eauto|].
  rewrite (TW_jq _ _ HJ). exact T.
Qed.

Lemma JI_joint : forall w (s : vsock), JI w s -> joint_rel 0 s.
Proof.
  intros w s ((A & B & C & D) & Q & _). unfold joint_rel, JQ in *.
  split; [exact A|]. split; [lia|]. rewrite (seg_len_eq _ A) in D. lia.
Qed.

Lemma paim_rest_TW : forall (s1 : vsock) r s' u,
  0 <= ar_acked_bytes r -> paim_rest s1 r = SOk s' u -> TW s' = TW s1.
Proof.
  intros s1 r s' u Hr. unfold paim_rest.
  match goal with |- sbind ?m _ = _ -> _ =>
    match m with context [acked_counts_as_sent ?x] => set (s2 := x) end end.
  assert (F2 : v_tx s2 = v_tx s1).
  { subst s2. unfold restart_remote_inactivity_timer. repeat break_match; reflexivity. }
  clearbody s2.
  assert (Hfin : forall s3 : vsock, TW s3 = TW s1 ->
    (match rv_phase (v_recovery s3) with
     | Recovering rc =>
         match calc_pipe (v_segs s3) (rc_high_rxt rc) (v_last_sent_seq_nr s3)
                         (roundtrip_time (v_rtte s3)) (v_now s3) with
         | None => SPanic
         | Some (segs', pipe, recalc) =>
             SOk (set_recovering (VSockRec.set_segs s3 segs')
                    {| rc_recovery_point := rc_recovery_point rc; rc_high_rxt := rc_high_rxt rc;
                       rc_total_retx := rc_total_retx rc; rc_pipe := pipe; rc_recalc := recalc;
                       rc_cwnd := rc_cwnd rc |}) tt
         end
     | _ => SOk s3 tt
     end) = SOk s' u -> TW s' = TW s1).
  { intros s3 H3. destruct (rv_phase (v_recovery s3)); try (intro H; inversion H; subst; exact H3).
    destruct (calc_pipe _ _ _ _ _) as [[[sg pp] rcl]|]; [|discriminate].
    intro H; inversion H; subst. exact H3. }
  destruct (0 <? ar_acked_segments r).
  - assert (F2' : v_tx (acked_counts_as_sent s2) = v_tx s1).
    { unfold acked_counts_as_sent. destruct (seq_gt _ _ && seq_lt _ _); exact F2. }
    revert F2'. generalize (acked_counts_as_sent s2). intros s2' F2'.
    unfold truncate_front. cbv zeta.
    destruct (_ =? _); [|discriminate].
    unfold wake_writer. cbn [sbind]. apply Hfin.
    unfold TW, add_wakes. vsimpl_goal. cbn [ring g_removed upd]. rewrite F2', skipn_length.
    pose proof (Zle_0_nat (length (ring (v_tx s1)))). lia.
  - cbn [sbind]. apply Hfin. unfold TW. rewrite F2. reflexivity.
Qed.

Lemma pim_jiR : forall w (s : vsock), stRk (jiR w) s (process_all_incoming_messages cci s).
Proof.
  intros w s.
  pose proof (process_all_LB cci s) as HL.
  destruct (process_all_incoming_messages cci s) as [s' u|s' e|] eqn:E; cbn [stRk]; auto.
  intros HJ. pose proof (JI_joint w s HJ) as J0. destruct HJ as (L & Q & T). split; [exact (HL L)|].
  pose proof E as E2. rewrite paim_eq in E2.
  unfold process_all_incoming_messages in E.
  destruct (recv_loop cci (v_inbox s ++ [ {| m_hdr := outgoing_header s; m_payload := [] |} ]) s
              on_ack_result_default) as [s1 [r early]|s1 e1|] eqn:El; cbn [sbind] in E, E2; try discriminate.
  pose proof (joint_inv_process_all cci s s1 r early J0 El) as K.
  unfold process_all_incoming_messages in K. rewrite El in K. cbn [sbind] in K. rewrite E in K.
  destruct K as (_ & K & _). split; [unfold JQ; lia|].
  assert (J0' : joint_rel (ar_acked_bytes on_ack_result_default) s) by exact J0.
  destruct (recv_loop_joint cci _ _ _ _ _ _ acc_ok_default J0' El) as ((_ & Hb & _) & _).
  cbn [fst] in E2. rewrite (paim_rest_TW s1 r s' u Hb E2).
  assert (Hl : step_st (recv_loop cci (v_inbox s ++ [ {| m_hdr := outgoing_header s; m_payload := [] |} ]) s
              on_ack_result_default) = Some s1) by (rewrite El; reflexivity).
  apply VSock_LemmasIn.recv_loop_frame in Hl. destruct Hl as (_ & _ & _ & L4 & _ & L6).
  unfold TW. rewrite L4, L6. exact T.
Qed.

Lemma send_ack_jq : forall s : vsock, stR jq s (send_ack s).
Proof. intro s. apply txf_kp_jq; [apply send_ack_txf | apply send_ack_kp]. Qed.

Lemma maybe_send_syn_ack_jq : forall s : vsock, stR jq s (maybe_send_syn_ack s).
Proof.
  intros s. unfold maybe_send_syn_ack.
  assert (G : forall c, stR jq s
     (if c =? o_max_retx (v_opts s) then SErr s ErrMaxSynAckRetransmissionsReached
      else sbind (send_ack s) (fun s1 sent =>
        if sent then SOk (set_t_syn_ack_resend (set_state s1 (SynAckSent (c + 1)))
               (timer_arm (v_t_syn_ack_resend s1) (v_now s1) SYNACK_RESEND_INTERNAL true)) tt
        else SOk s1 tt))).
  { intros c. destruct (_ =? _); [apply jq_refl|].
    apply (stR_sbind jq jq_trans); [apply send_ack_jq|].
    intros s1 [|]; cbn [stR]; [repeat split; reflexivity | apply jq_refl]. }
  destruct (v_state s); try (cbn [stR]; repeat split; reflexivity).
  - apply G.
  - destruct (timer_expired _ _); [apply G | apply jq_refl].
Qed.

Theorem poll_JI : forall w (s s' : vsock),
  JI w s -> poll cci s = (s', PollPending) -> JI w s'.
Proof.
  intros w s s' HJ H.
  assert (Hp : pend_shape (jiR w) (poll_init s) s').
  { apply (poll_Rp cci (jiR w) (jiR_refl w) (jiR_trans w)); try exact H.
    - intros a K. exact K.
    - intro a. apply jiR_of; [intro L; apply (skp_sLB 0 a); [exact L | apply maybe_send_syn_ack_kp]|].
      apply maybe_send_syn_ack_jq.
    - intro a. apply jiR_of; [intro L; apply (skp_sLB 0 a); [exact L | apply send_ack_kp]|].
      apply send_ack_jq.
    - apply pim_jiR.
    - intros a rx1 fb w0 _ K. exact K.
    - intro a. apply jiR_of; [apply split_LB | apply split_jq].
    - intro a. apply jiR_of; [apply send_tx_queue_LB | apply stq_jq].
    - intros a (L & Q & T). split; [eapply LB_kp; [exact L | apply transition_kp]|].
      assert (K : jq a (transition_to_fin_wait_1 a))
        by (unfold jq, transition_to_fin_wait_1; destruct (v_state a); repeat split; reflexivity).
      split; [eapply JQ_jq; eauto | rewrite (TW_jq _ _ K); exact T].
    - intro a. apply jiR_of; [intro L; apply (skp_sLB 0 a); [exact L | apply maybe_send_fin_kp]|].
      apply txf_kp_jq; [apply maybe_send_fin_txf | apply maybe_send_fin_kp].
    - intro a. apply jiR_of; [intro L; apply (skp_sLB 0 a); [exact L | apply maybe_send_ack_kp]|].
      apply txf_kp_jq; [apply maybe_send_ack_txf | apply maybe_send_ack_kp]. }
  assert (H0 : JI w (poll_init s)) by exact HJ.
  destruct Hp as [[_ R]|(sa & sb & b & R1 & _ & R2 & _ & _ & _ & ->)].
  - exact (R H0).
  - specialize (R2 (R1 H0)). destruct R2 as (L & Q & T).
    destruct (poll_tail_fields sb) as (_ & F2 & _ & _ & _ & _ & _ & _ & _ & _ & _ & _ & F13 & _ & _ & F16 & _).
    split; [eapply LB_kp; [exact L|]; unfold kp; rewrite F13, F2, F16; auto|].
    unfold JQ, TW in *. rewrite F13, F16. auto.
Qed.

End WithCC.

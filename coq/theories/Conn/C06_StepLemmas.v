(* C06, step level: reusable machinery.
   - [PollHoare]: staged Hoare reasoning about a whole poll, for EVERY result (Pending with the
     transport blocked or not, Ready, error exits, restarts): stage invariants
       A0 (head of an iteration)  A (up to the incoming messages)  B1 (after them)
       B2 (after the flush, up to send_tx_queue)  C (after it)  D (after maybe_send_ack),
     QP = what a Pending exit with a blocked transport leaves, QE = what an error exit leaves
     (the state handed to just_before_death);
   - segment-table facts: the snapshot an iterator item carries is the table entry ([item_sync]),
     the indices of an iterator are pairwise distinct, rules for the two sending loops;
   - the invariants used by Conn/C06_Step.v, function by function. *)
From Utp Require Conn.VSock_Inv.
From Utp Require Import Base.Prelude Wire.SeqNr Wire.SeqNr_Proofs Wire.Header Rtt.Rtte Rtt.Rtte_Proofs
  Mtu.SegSizes Rx.Rx Tx.Ring Tx.Ring_Proofs Tx.Segments Tx.Segments_Proofs Tx.Segments_ProofsOut
  Conn.Recovery Conn.Msg Conn.VSockRec Conn.VSock Conn.VSockRun Conn.VObs
  Conn.VSock_Lemmas Conn.VSock_LemmasStep Conn.VSock_LemmasReach Conn.VSock_LemmasTx
  Conn.VSock_LemmasIn Conn.VSock_LemmasFin Conn.VSock_LemmasTimers Conn.VSock_LemmasPipe Conn.C17_StepLemmas
  Conn.C06_RecProofs.

Section WithCC.
Context {CC : Type} (cci : cc_iface CC).
Notation vsock := (vsock CC).

(* ================================================================== no function but send_tx_queue
   asks for a restart; none but the senders touches the transport flag *)
Lemma nr_syn_ack : forall s : vsock, no_restart s (maybe_send_syn_ack s).
Proof. intro s. apply no_restart_qb, maybe_send_syn_ack_qb. Qed.
Lemma nr_send_ack : forall s : vsock, no_restart s (send_ack s).
Proof. intro s. apply no_restart_qb, send_ack_qb. Qed.
Lemma nr_pim : forall s : vsock, no_restart s (process_all_incoming_messages cci s).
Proof.
  intros s Ra. pose proof (process_all_incoming_messages_pimr cci s) as P'.
  destruct (process_all_incoming_messages cci s); cbn [stU stR] in *; auto.
  destruct P' as (_ & _ & _ & _ & _ & P6 & _). congruence.
Qed.
Lemma nr_split : forall s : vsock, no_restart s (split_tx_queue_into_segments cci s).
Proof. intro s. apply no_restart_qb, split_tx_queue_into_segments_qb. Qed.
Lemma nr_fin : forall s : vsock, no_restart s (maybe_send_fin s).
Proof. intro s. apply no_restart_qb, maybe_send_fin_qb. Qed.
Lemma nr_msa : forall s : vsock, no_restart s (maybe_send_ack s).
Proof. intro s. apply no_restart_qb, maybe_send_ack_qb. Qed.

Lemma split_tp : forall (s s' : vsock) u,
  split_tx_queue_into_segments cci s = SOk s' u -> v_transport_pending s' = v_transport_pending s.
Proof.
  intros s s' u H. unfold split_tx_queue_into_segments in H.
  destruct (_ =? 0); [inversion H; reflexivity|].
  match type of H with context [is_remote_fin_or_later (v_state ?x)] => set (s1 := x) in * end.
  assert (F1 : v_transport_pending s1 = v_transport_pending s).
  { subst s1. destruct (_ && _); [|reflexivity].
    destruct (grow _ _) as [tx1 g]. destruct g; [destruct (wake_writer tx1)|]; reflexivity. }
  clearbody s1.
  destruct (is_remote_fin_or_later _); [inversion H; subst; exact F1|].
  destruct (pop_expired_mtu_probe _ _ _) as [segs1 pe].
  destruct pe.
  - destruct (seq_gt _ _);
      (destruct (_ <? _); [discriminate|]);
      (destruct (segment_loop _ _ _ _ _ _) as [[[ss' segs'] rem']|]; [|discriminate]);
      inversion H; subst; exact F1.
  - inversion H; subst; exact F1.
  - destruct (_ <? _); [discriminate|].
    destruct (segment_loop _ _ _ _ _ _) as [[[ss' segs'] rem']|]; [|discriminate].
    inversion H; subst; exact F1.
Qed.

(* ================================================================== staged Hoare reasoning *)
Section PollHoare.
Variables A0 A B1 B2 C D : vsock -> Prop.
Variable QP : vsock -> Prop.
Variable QE : vsock -> verror -> Prop.

(* a sending stage: the state it leaves satisfies P, or QP when the transport blocked *)
Definition stH (P : vsock -> Prop) {X} (m : step X) : Prop :=
  match m with
  | SOk s' _ => (v_transport_pending s' = true -> QP s') /\ (v_transport_pending s' = false -> P s')
  | SErr s' e => QE s' e
  | SPanic => True
  end.

(* a stage that cannot block *)
Definition stB (P : vsock -> Prop) {X} (m : step X) : Prop :=
  match m with SOk s' _ => P s' | SErr s' e => QE s' e | SPanic => True end.

Definition stQ (m : step unit) : Prop :=
  match m with
  | SOk s' _ => (v_restart s' = true -> A0 s') /\
                (v_restart s' = false -> v_transport_pending s' = true -> QP s') /\
                (v_restart s' = false -> v_transport_pending s' = false -> C s')
  | SErr s' e => QE s' e
  | SPanic => True
  end.

Hypothesis H_start : forall s, A0 s -> A (poll_start s).
Hypothesis H_syn_ack : forall s, A s -> v_transport_pending s = false -> stH A (maybe_send_syn_ack s).
Hypothesis H_send_ack : forall s, A s -> v_transport_pending s = false -> stH A (send_ack s).
Hypothesis H_pim : forall s, A s -> v_transport_pending s = false ->
  stH B1 (process_all_incoming_messages cci s).
Hypothesis H_flush : forall s rx1 fb w, B1 s -> v_transport_pending s = false ->
  rx_flush (v_rx s) = (rx1, FlOk fb, w) -> B2 (add_wakes (set_rx s rx1) (rx_wakes w)).
Hypothesis H_inact : forall s, B2 s -> QE s ErrRemoteInactiveForTooLong.
Hypothesis H_split : forall s, B2 s -> v_transport_pending s = false ->
  stB B2 (split_tx_queue_into_segments cci s).
Hypothesis H_stq : forall s, B2 s -> v_transport_pending s = false -> v_restart s = false ->
  stQ (send_tx_queue cci s).
Hypothesis H_fw1 : forall s, C s -> v_transport_pending s = false -> C (transition_to_fin_wait_1 s).
Hypothesis H_fin : forall s, C s -> v_transport_pending s = false -> stH C (maybe_send_fin s).
Hypothesis H_msa : forall s, C s -> v_transport_pending s = false -> stH D (maybe_send_ack s).

(* every way out of one iteration *)
Definition brH (r : body_res) : Prop :=
  match r with
  | BrReturn s' PollPending =>
      (v_transport_pending s' = true /\ QP s') \/
      (exists sb, D sb /\ v_transport_pending sb = false /\ v_restart sb = false /\
                  state_is_closed (v_state sb) (o_wait_for_last_ack (v_opts sb)) = false /\
                  s' = poll_tail sb)
  | BrReturn s' PollReadyOk =>
      exists sb, D sb /\ v_transport_pending sb = false /\ s' = just_before_death sb None
  | BrReturn s' (PollReadyErr e) => exists sb, QE sb e /\ s' = just_before_death sb (Some e)
  | BrReturn _ PollPanic => False
  | BrRestart s' => A0 s'
  | BrPanic => True
  end.

Lemma pend_H : forall X (P : vsock -> Prop) (m : step X) k (s : vsock),
  v_restart s = false -> no_restart s m -> stH P m ->
  (forall s1 a, P s1 -> v_restart s1 = false -> v_transport_pending s1 = false -> brH (k s1 a)) ->
  brH (pend m k).
Proof.
  intros X P m k s R0 Hn Hm Hk. unfold pend, bail. specialize (Hn R0).
  destruct m as [s1 a|s1 e|]; cbn [stH stU] in *.
  - rewrite Hn. destruct Hm as [Hp Hq].
    destruct (v_transport_pending s1) eqn:T.
    + cbn [brH]. left. split; [exact T | apply Hp; reflexivity].
    + apply Hk; auto.
  - unfold die. cbn [brH]. exists s1. split; [exact Hm | reflexivity].
  - exact I.
Qed.

Theorem poll_body_H : forall s0, A0 s0 -> brH (poll_body cci s0).
Proof.
  intros s0 HA. apply H_start in HA. unfold poll_body. fold (poll_start s0).
  assert (R0 : v_restart (poll_start s0) = false) by reflexivity.
  assert (T0 : v_transport_pending (poll_start s0) = false) by reflexivity.
  generalize dependent (poll_start s0). clear s0. intros s0 HA R0 T0.
  apply (pend_H _ A _ _ s0 R0); [apply nr_syn_ack | apply H_syn_ack; assumption |].
  intros s1 _ HA1 R1 T1.
  apply (pend_H _ A _ _ s1 R1).
  { destruct (immediate_ack_to_transmit s1); [apply nr_send_ack | intros _; exact R1]. }
  { destruct (immediate_ack_to_transmit s1); [apply H_send_ack; assumption|].
    cbn [stH]. split; [congruence | intros _; exact HA1]. }
  intros s2 _ HA2 R2 T2.
  apply (pend_H _ B1 _ _ s2 R2); [apply nr_pim | apply H_pim; assumption |]. intros s3 _ HB3 R3 T3.
  destruct (rx_flush (v_rx s3)) as [[rx1 fr] w] eqn:Efl. destruct fr as [fb|]; [|exact I].
  pose proof (H_flush s3 rx1 fb w HB3 T3 Efl) as HB4.
  assert (R4 : v_restart (add_wakes (set_rx s3 rx1) (rx_wakes w)) = false) by exact R3.
  assert (T4 : v_transport_pending (add_wakes (set_rx s3 rx1) (rx_wakes w)) = false) by exact T3.
  set (s4 := add_wakes (set_rx s3 rx1) (rx_wakes w)) in *. clearbody s4.
  destruct (timer_expired _ _).
  { unfold die. cbn [brH]. exists s4. split; [apply H_inact; exact HB4 | reflexivity]. }
  (* split: bail *)
  unfold bail at 1.
  pose proof (H_split s4 HB4 T4) as HB5. pose proof (nr_split s4 R4) as R5.
  pose proof (split_tp s4) as T5.
  destruct (split_tx_queue_into_segments cci s4) as [s5 a5|s5 e5|]; cbn [stB stU] in *.
  2:{ unfold die. cbn [brH]. exists s5. split; [exact HB5 | reflexivity]. }
  2:{ exact I. }
  rewrite R5. specialize (T5 s5 a5 eq_refl). rewrite T4 in T5.
  (* send_tx_queue: the only stage that may restart *)
  pose proof (H_stq s5 HB5 T5 R5) as H6.
  unfold pend at 1, bail at 1.
  destruct (send_tx_queue cci s5) as [s6 a6|s6 e6|]; cbn [stQ] in H6.
  2:{ unfold die. cbn [brH]. exists s6. split; [exact H6 | reflexivity]. }
  2:{ exact I. }
  destruct H6 as (H6r & H6p & H6c).
  destruct (v_restart s6) eqn:R6; [cbn [brH]; apply H6r; reflexivity|].
  destruct (v_transport_pending s6) eqn:T6.
  { cbn [brH]. left. split; [exact T6 | apply H6p; reflexivity]. }
  specialize (H6c eq_refl eq_refl).
  assert (HC7 : C (if should_close_on_own_initiative s6 then transition_to_fin_wait_1 s6 else s6)).
  { destruct (should_close_on_own_initiative s6); [apply H_fw1; assumption | exact H6c]. }
  assert (R7 : v_restart (if should_close_on_own_initiative s6 then transition_to_fin_wait_1 s6 else s6) = false).
  { destruct (should_close_on_own_initiative s6); [rewrite transition_to_fin_wait_1_restart|]; exact R6. }
  assert (T7 : v_transport_pending (if should_close_on_own_initiative s6 then transition_to_fin_wait_1 s6 else s6) = false).
  { destruct (should_close_on_own_initiative s6); [|exact T6].
    unfold transition_to_fin_wait_1. destruct (v_state s6); exact T6. }
  set (s7 := if should_close_on_own_initiative s6 then transition_to_fin_wait_1 s6 else s6) in *.
  clearbody s7.
  apply (pend_H _ C _ _ s7 R7); [apply nr_fin | apply H_fin; assumption |]. intros s8 _ HC8 R8 T8.
  apply (pend_H _ D _ _ s8 R8); [apply nr_msa | apply H_msa; assumption |]. intros s9 _ HC9 R9 T9.
  destruct (state_is_closed _ _) eqn:C9.
  { cbn [brH]. exists s9. split; [exact HC9|]. split; [exact T9 | reflexivity]. }
  assert (Hs : forall sx, sx = poll_tail s9 -> brH (BrReturn sx PollPending)).
  { intros sx ->. cbn [brH]. right. exists s9. repeat split; assumption. }
  unfold poll_tail in Hs.
  destruct (next_timer_to_poll _) as [sx t]. destruct t; apply Hs; reflexivity.
Qed.

(* the result of a whole poll *)
Definition resH (s' : vsock) (r : poll_result) : Prop :=
  match r with
  | PollPending =>
      (v_transport_pending s' = true /\ QP s') \/
      (exists sb, D sb /\ v_transport_pending sb = false /\ v_restart sb = false /\
                  state_is_closed (v_state sb) (o_wait_for_last_ack (v_opts sb)) = false /\
                  s' = poll_tail sb)
  | PollReadyOk => exists sb, D sb /\ v_transport_pending sb = false /\ s' = just_before_death sb None
  | PollReadyErr e => exists sb, QE sb e /\ s' = just_before_death sb (Some e)
  | PollPanic => A0 s'
  end.

Theorem poll_loop_H : forall fuel s s' r,
  A0 s -> poll_loop cci fuel s = (s', r) -> resH s' r.
Proof.
  induction fuel as [|fuel IH]; intros s s' r HA H; cbn [poll_loop] in H.
  - inversion H; subst. exact HA.
  - pose proof (poll_body_H s HA) as F.
    destruct (poll_body cci s) as [s1 r1|s1|]; cbn [brH] in *.
    + inversion H; subst. destruct r; try exact F. destruct F.
    + eapply IH; [exact F | exact H].
    + inversion H; subst. exact HA.
Qed.

Theorem poll_H : forall s s' r, A0 (poll_init s) -> poll cci s = (s', r) -> resH s' r.
Proof. intros s s' r HA H. rewrite poll_unfold in H. eapply poll_loop_H; [exact HA | exact H]. Qed.

End PollHoare.

(* ================================================================== a projection of the segment table
   that on_sent and pop_mtu_probe keep is kept by everything send_tx_queue does *)
Section SegProj.
Variable X : Type.
Variable phi : segments -> X.
Hypothesis phi_on_sent : forall t i now, phi (on_sent t i now) = phi t.
Hypothesis phi_pop : forall t q t' b, pop_mtu_probe t q = (t', b) -> phi t' = phi t.

Definition sgp (s s' : vsock) : Prop := phi (v_segs s') = phi (v_segs s).
Lemma sgp_refl : forall s, sgp s s. Proof. intro s. reflexivity. Qed.
Lemma sgp_trans : forall a b c, sgp a b -> sgp b c -> sgp a c.
Proof. unfold sgp. intros a b c H1 H2. congruence. Qed.
Notation stg := (stR sgp).

Lemma kp_sgp : forall s s', kp s s' -> sgp s s'.
Proof. intros s s' (K & _). unfold sgp. rewrite K. reflexivity. Qed.

Lemma skp_stg : forall A (s : vsock) (m : step A), skp s m -> stg s m.
Proof. intros A s m H. destruct m; cbn [skp stR] in *; auto using kp_sgp. Qed.

Lemma send_data_sgp : forall (s : vsock) h f, stg s (send_data s h f).
Proof.
  intros s h f. pose proof (send_data_spec s h f) as Hd.
  destruct (send_data s h f) as [s' [| |]|s' e|]; cbn [stR]; try exact I.
  - destruct Hd as (_ & _ & Hs & _). unfold sgp. rewrite Hs. apply phi_on_sent.
  - destruct Hd as ((_ & _ & Hs & _) & _). unfold sgp. rewrite Hs. reflexivity.
  - destruct Hd as ((_ & _ & Hs & _) & _). unfold sgp. rewrite Hs. reflexivity.
  - destruct Hd as ((_ & _ & Hs & _) & _). unfold sgp. rewrite Hs. reflexivity.
Qed.

Lemma recovery_loop_sgp : forall items (s : vsock) h mss0 st, stg s (recovery_loop items s h mss0 st).
Proof.
  induction items as [|f rest IH]; intros s h mss0 st; cbn [recovery_loop].
  - apply sgp_refl.
  - destruct (negb _); [apply sgp_refl|].
    destruct (_ && negb (sg_lost _)); [apply IH|].
    destruct (_ && negb (sg_sacks_after _)); [apply sgp_refl|].
    pose proof (send_data_sgp s h f) as F.
    destruct (send_data s h f) as [s1 r|s1 e|]; cbn [stR] in *; auto.
    destruct r; cbn [stR]; auto.
    eapply (stR_weaken sgp sgp_trans); [exact F | apply IH].
Qed.

Lemma new_data_loop_sgp : forall items (s : vsock) h remaining, stg s (new_data_loop items s h remaining).
Proof.
  induction items as [|f rest IH]; intros s h remaining; cbn [new_data_loop].
  - apply sgp_refl.
  - destruct (_ <? _); [apply sgp_refl|].
    pose proof (send_data_sgp s h f) as F.
    destruct (send_data s h f) as [s1 r|s1 e|]; cbn [stR] in *; auto.
    destruct r; cbn [stR]; auto.
    eapply (stR_weaken sgp sgp_trans); [exact F | apply IH].
Qed.

Lemma on_rto_reactions_sgp : forall (s s1 : vsock), on_rto_reactions cci s = Some s1 -> sgp s s1.
Proof. intros s s1 H. apply kp_sgp. eapply on_rto_reactions_kp; exact H. Qed.

Lemma send_tx_queue_sgp : forall (s : vsock), stg s (send_tx_queue cci s).
Proof.
  intros s. unfold send_tx_queue.
  destruct (v_transport_pending s); [apply sgp_refl|].
  apply (stR_sbind sgp sgp_trans).
  - destruct (timer_expired _ _); [|apply sgp_refl].
    destruct (iter_for_sending _ _) as [|f l].
    + destruct (our_fin_if_unacked _); [|cbn [stR]; reflexivity].
      destruct (_ =? _); [|cbn [stR]; reflexivity].
      apply (stR_weaken sgp sgp_trans) with (s := set_last_sent_seq_nr s (wsub16 (v_last_sent_seq_nr s) 1));
        [reflexivity|].
      apply (stR_sbind sgp sgp_trans); [apply skp_stg, maybe_send_fin_kp|].
      intros s1 a. destruct a; [|apply sgp_refl].
      destruct (on_rto_reactions cci s1) eqn:E; [|exact I]. apply on_rto_reactions_sgp in E.
      cbn [stR]. eapply sgp_trans; [exact E | reflexivity].
    + pose proof (send_data_sgp s (outgoing_header s) f) as Hd.
      destruct (send_data _ _ f) as [s1 r|s1 e|]; cbn [stR] in *; auto.
      destruct r; cbn [stR]; auto.
      cbv zeta.
      match goal with |- stR _ _ (match ?o with _ => _ end) => destruct o as [s2|] eqn:E end; [|exact I].
      assert (F2 : sgp s1 s2).
      { destruct (negb _); [apply on_rto_reactions_sgp; exact E|injection E as <-; apply sgp_refl]. }
      cbn [stR]. eapply sgp_trans; [exact Hd|]. eapply sgp_trans; [exact F2 | reflexivity].
  - intros s1 ret. destruct ret; [apply sgp_refl|].
    destruct (0 <? _); [apply sgp_refl|]. destruct (ss_segs _); [apply sgp_refl|].
    apply (stR_sbind sgp sgp_trans).
    + destruct (rv_phase _); try apply sgp_refl.
      apply (stR_sbind sgp sgp_trans); [apply recovery_loop_sgp|].
      intros s2 [st early]. cbv beta iota zeta.
      destruct early; [cbn [stR]; reflexivity|].
      match goal with |- stR _ _ (match our_fin_if_unacked (v_state ?y) with _ => _ end) =>
        assert (F3 : sgp s2 y); [|revert F3; generalize y; intros sy F3] end.
      { unfold set_recovering. destruct (_ <? _); [|reflexivity]. destruct (rc_recalc _); [reflexivity|].
        destruct (0 <? _); reflexivity. }
      destruct (our_fin_if_unacked _); [destruct (_ =? _)|]; cbn [stR]; auto.
    + intros s2 ret. destruct ret; [apply sgp_refl|].
      apply (stR_sbind sgp sgp_trans); [apply new_data_loop_sgp|].
      intros s3 tl. destruct tl as [[sq sz]|]; [|apply sgp_refl].
      destruct (pop_mtu_probe _ _) as [segs' popped] eqn:Ep. destruct popped; cbn [stR]; [|apply sgp_refl].
      unfold sgp. vsimpl. eapply phi_pop; exact Ep.
Qed.

End SegProj.

(* ================================================================== iterator items in sync with the table:
   indices increasing from n on, the snapshot an item carries IS the table entry, undelivered *)
Fixpoint synced (u : Z) (l : list seg) (n : nat) (items : list for_sending) : Prop :=
  match items with
  | [] => True
  | f :: r => (n <= fs_idx f)%nat /\ nth_error l (fs_idx f) = Some (fs_seg f) /\
              (sg_delivered (fs_seg f) = false /\ fs_seq f = wadd16 u (Z.of_nat (fs_idx f) mod M16)) /\
              synced u l (S (fs_idx f)) r
  end.

Lemma synced_weaken : forall u l items n m, (m <= n)%nat -> synced u l n items -> synced u l m items.
Proof.
  intros u l items n m H. destruct items as [|f r]; cbn [synced]; [auto|].
  intros (A & B & C & D). split; [lia|]. split; [exact B|]. split; [exact C | exact D].
Qed.

Lemma synced_update : forall u l phi i items n,
  (i < n)%nat -> synced u l n items -> synced u (update_nth l i phi) n items.
Proof.
  intros u l phi i. induction items as [|f r IH]; intros n H; cbn [synced]; [auto|].
  intros (A & B & C & D). split; [exact A|]. split.
  - rewrite nth_error_update_nth. destruct (Nat.eqb_spec i (fs_idx f)); [lia | exact B].
  - split; [exact C|]. apply IH; [lia | exact D].
Qed.

Lemma synced_filter : forall u l p items n, synced u l n items -> synced u l n (filter p items).
Proof.
  intros u l p. induction items as [|f r IH]; intros n; cbn [synced filter]; [auto|].
  intros (A & B & C & D). destruct (p f); cbn [synced].
  - split; [exact A|]. split; [exact B|]. split; [exact C | apply IH; exact D].
  - eapply synced_weaken; [|apply IH; exact D]. lia.
Qed.

Lemma synced_firstn : forall u l k items n, synced u l n items -> synced u l n (firstn k items).
Proof.
  intros u l. induction k as [|k IH]; intros [|f r] n; cbn [synced firstn]; auto.
  intros (A & B & C & D). split; [exact A|]. split; [exact B|]. split; [exact C | apply IH; exact D].
Qed.

Lemma synced_take_while : forall u l p items n, synced u l n items -> synced u l n (take_while p items).
Proof.
  intros u l p. induction items as [|f r IH]; intros n; cbn [synced take_while]; [auto|].
  intros (A & B & C & D). destruct (p f); cbn [synced]; [|exact I].
  split; [exact A|]. split; [exact B|]. split; [exact C | apply IH; exact D].
Qed.

Lemma synced_skip_while : forall u l p items n, synced u l n items -> synced u l n (skip_while p items).
Proof.
  intros u l p. induction items as [|f r IH]; intros n; cbn [synced skip_while]; [auto|].
  intros (A & B & C & D). destruct (p f); cbn [synced]; [|split; [exact A|]; split; [exact B|]; split; [exact C | exact D]].
  eapply synced_weaken; [|apply IH; exact D]. lia.
Qed.

Lemma synced_In : forall u l items n f, synced u l n items -> In f items ->
  nth_error l (fs_idx f) = Some (fs_seg f) /\ sg_delivered (fs_seg f) = false /\
  fs_seq f = wadd16 u (Z.of_nat (fs_idx f) mod M16).
Proof.
  intros u l. induction items as [|g r IH]; intros n f; cbn [synced In]; [tauto|].
  intros (A & B & [C C'] & D) [<-|H]; [auto | eapply IH; eauto].
Qed.

Lemma synced_iter_gen : forall (u rm : Z) (t l' : list seg) i,
  (forall k x, nth_error l' k = Some x -> nth_error t (i + k) = Some x) ->
  synced u t i
    (filter (fun f => negb (sg_delivered (fs_seg f)))
       (map (fun '(i, s) => {| fs_idx := i; fs_seq := wadd16 u (Z.of_nat i mod M16);
                               fs_payload_offset := sg_abs s - rm; fs_seg := s |})
            (enum_from i l'))).
Proof.
  intros u rm t. induction l' as [|x xs IH]; intros i H; cbn [enum_from map filter synced]; [exact I|].
  assert (Hx : forall k y, nth_error xs k = Some y -> nth_error t (S i + k) = Some y).
  { intros k y Hk. replace (S i + k)%nat with (i + S k)%nat by lia. apply H. exact Hk. }
  cbn [fs_seg]. destruct (sg_delivered x) eqn:Ed; cbn [negb synced fs_idx fs_seg].
  - eapply synced_weaken; [|apply IH; exact Hx]. lia.
  - split; [lia|]. split; [rewrite <- (Nat.add_0_r i); apply H; reflexivity|].
    split; [split; [exact Ed | reflexivity]|]. apply IH. exact Hx.
Qed.

Lemma synced_iter : forall t st, synced (ss_snd_una t) (ss_segs t) 0 (iter_for_sending t st).
Proof.
  intros t st. unfold iter_for_sending.
  eapply synced_weaken; [|apply synced_iter_gen]; [lia|].
  intros k x Hk. rewrite nth_error_skipn in Hk. exact Hk.
Qed.

(* ================================================================== a rule for send_tx_queue:
   an invariant I that reads only (segs, out, opts, now, env_now, tx), is kept by a transmission and by
   popping the failed probe, holds after send_tx_queue; E is what an error leaves *)
Lemma send_data_err_max : forall (s s1 : vsock) h f,
  send_data s h f = SErr s1 ErrMaxRetransmissionsReached ->
  s1 = s /\ seg_retransmit_count (fs_seg f) = o_max_retx (v_opts s).
Proof.
  intros s s1 h f. unfold send_data.
  destruct (Z.eqb_spec (seg_retransmit_count (fs_seg f)) (o_max_retx (v_opts s))) as [E|E].
  - intro H; inversion H; subst. auto.
  - destruct (_ <? 0); [discriminate|]. destruct (_ <? fs_payload_offset f); [intro H; inversion H|].
    destruct (_ <? _ + _); [intro H; inversion H|].
    destruct (next_send s _) as [s2 o]. destruct o; intro H; inversion H.
Qed.

Definition nodata (p : packet) : Prop := ch_type (p_hdr p) <> ST_DATA.

(* ================================================================== the footprint relation: the segment
   table, the options and the clocks are untouched, the datagrams appended are not ST_DATA.  Everything a
   poll does outside send_tx_queue, the ACK processing, the segmentation and poll_start satisfies it. *)
Lemma skipn_add : forall A (l : list A) a b, skipn b (skipn a l) = skipn (a + b) l.
Proof.
  intros A l a. revert l. induction a as [|a IH]; intros l b; [reflexivity|].
  destruct l as [|x xs]; [destruct b; reflexivity|]. cbn [skipn plus]. apply IH.
Qed.

(* the connection state only moves forward *)
Definition rk (st : vstate) : Z :=
  match st with SynReceived => 0 | SynAckSent _ => 1 | Established => 2 | _ => 3 end.
Lemma rk_max : forall st, rk st <= 3. Proof. destruct st; cbn [rk]; lia. Qed.

Definition fpr (s s' : vsock) : Prop :=
  v_segs s' = v_segs s /\ v_opts s' = v_opts s /\ v_now s' = v_now s /\ v_env_now s' = v_env_now s /\
  v_emsg_limit s' = v_emsg_limit s /\ v_restart s' = v_restart s /\
  (exists k, v_sends s' = skipn k (v_sends s)) /\
  (exists l, v_out s' = l ++ v_out s /\ Forall nodata l) /\
  v_rtte s' = v_rtte s /\ v_rto_retransmissions s' = v_rto_retransmissions s /\
  v_recovery s' = v_recovery s /\
  v_inbox s' = v_inbox s /\ v_inbox_closed s' = v_inbox_closed s /\ rk (v_state s) <= rk (v_state s').

Lemma fpr_refl : forall s, fpr s s.
Proof.
  intro s. unfold fpr. repeat split; try apply Z.le_refl. - exists 0%nat. reflexivity.
  - exists []. split; [reflexivity | constructor].
Qed.

Lemma fpr_trans : forall a b c, fpr a b -> fpr b c -> fpr a c.
Proof.
  unfold fpr. intros a b c (A1 & A2 & A3 & A4 & A5 & A6 & (k1 & A9) & (l1 & A10 & A11) & A12 & A13 & A14 & A15 & A16 & A17)
    (B1 & B2 & B3 & B4 & B5 & B6 & (k2 & B9) & (l2 & B10 & B11) & B12 & B13 & B14 & B15 & B16 & B17).
  repeat split; try congruence; try lia.
  - exists (k1 + k2)%nat. rewrite B9, A9. apply skipn_add.
  - exists (l2 ++ l1). split; [rewrite B10, A10; apply app_assoc|].
    apply Forall_app. split; assumption.
Qed.

Lemma fpr_same : forall s s' : vsock,
  v_segs s' = v_segs s -> v_opts s' = v_opts s -> v_now s' = v_now s -> v_env_now s' = v_env_now s ->
  v_emsg_limit s' = v_emsg_limit s -> v_restart s' = v_restart s -> v_sends s' = v_sends s ->
  v_out s' = v_out s -> v_rtte s' = v_rtte s ->
  v_rto_retransmissions s' = v_rto_retransmissions s -> v_recovery s' = v_recovery s ->
  v_inbox s' = v_inbox s -> v_inbox_closed s' = v_inbox_closed s -> rk (v_state s) <= rk (v_state s') ->
  fpr s s'.
Proof.
  intros s s' E1 E2 E3 E4 E5 E6 E9 E10 E11 E12 E13 E14 E15 E16. unfold fpr. repeat split; auto.
  - exists 0%nat. exact E9.
  - exists []. split; [exact E10 | constructor].
Qed.

Ltac fpr_leaf := apply fpr_same; first [reflexivity | apply Z.le_refl].
(* a step that moves the state forward *)
Ltac fpr_st E := apply fpr_same; try reflexivity; vsimpl_goal; rewrite ?E; cbn [rk]; pose proof rk_max; try lia.

(* the same without the claim on the RTT estimator (the RTO reaction of send_tx_queue changes it) *)
Definition fpw (s s' : vsock) : Prop :=
  v_segs s' = v_segs s /\ v_opts s' = v_opts s /\ v_now s' = v_now s /\ v_env_now s' = v_env_now s /\
  v_emsg_limit s' = v_emsg_limit s /\ v_restart s' = v_restart s /\
  (exists k, v_sends s' = skipn k (v_sends s)) /\
  (exists l, v_out s' = l ++ v_out s /\ Forall nodata l).

Lemma fpr_fpw : forall s s', fpr s s' -> fpw s s'.
Proof. unfold fpr, fpw. intros s s' H. tauto. Qed.

Lemma fpw_same : forall s s' : vsock,
  v_segs s' = v_segs s -> v_opts s' = v_opts s -> v_now s' = v_now s -> v_env_now s' = v_env_now s ->
  v_emsg_limit s' = v_emsg_limit s -> v_restart s' = v_restart s -> v_sends s' = v_sends s ->
  v_out s' = v_out s -> fpw s s'.
Proof.
  intros s s' E1 E2 E3 E4 E5 E6 E9 E10. unfold fpw. repeat split; auto.
  - exists 0%nat. exact E9.
  - exists []. split; [exact E10 | constructor].
Qed.

Ltac fpw_leaf := apply fpw_same; reflexivity.

(* errors other than the retransmission cap *)
Definition nmax (e : verror) : Prop := e <> ErrMaxRetransmissionsReached.

Definition sfp {X} (s : vsock) (m : step X) : Prop :=
  match m with SOk s' _ => fpr s s' | SErr s' e => fpr s s' /\ nmax e | SPanic => True end.

Lemma sfp_bind : forall X Y (s : vsock) (m : step X) (k : vsock -> X -> step Y),
  sfp s m -> (forall s1 a, sfp s1 (k s1 a)) -> sfp s (sbind m k).
Proof.
  intros X Y s m k Hm Hk. destruct m as [s1 a|s1 e|]; cbn [sbind sfp] in *; auto.
  specialize (Hk s1 a). destruct (k s1 a); cbn [sfp] in *; auto.
  - eapply fpr_trans; eauto.
  - destruct Hk as [K1 K2]. split; [eapply fpr_trans; eauto | exact K2].
Qed.

Lemma sfp_weaken : forall X (s0 s : vsock) (m : step X), fpr s0 s -> sfp s m -> sfp s0 m.
Proof.
  intros X s0 s m H Hm. destruct m; cbn [sfp] in *; auto; [eapply fpr_trans; eauto|].
  destruct Hm as [K1 K2]. split; [eapply fpr_trans; eauto | exact K2].
Qed.

Lemma next_send_fpr : forall (s : vsock) n s1 o, next_send s n = (s1, o) -> fpr s s1.
Proof.
  intros s n s1 o E. destruct (VSock_Inv.next_send_shape _ _ _ _ E) as [[[-> _]|(o0 & r & Hs & ->)] _];
    [apply fpr_refl|].
  unfold fpr. vsimpl_goal. repeat split; try apply Z.le_refl.
  - exists 1%nat. rewrite Hs. reflexivity.
  - exists []. split; [reflexivity | constructor].
Qed.

Lemma send_control_packet_fpr : forall (s : vsock) h,
  ch_type h <> ST_DATA -> sfp s (send_control_packet s h).
Proof.
  intros s h Ht. unfold send_control_packet. destruct (v_transport_pending s); [apply fpr_refl|].
  destruct (next_send s _) as [s1 o] eqn:E. apply next_send_fpr in E.
  destruct o; cbn [sfp].
  - eapply fpr_trans; [exact E|]. unfold on_packet_sent, emit, fpr. vsimpl_goal. repeat split; try apply Z.le_refl.
    + exists 0%nat. reflexivity.
    + eexists [_]. split; [reflexivity|]. constructor; [|constructor]. unfold nodata, hdr_with.
      cbn [p_hdr ch_type]. exact Ht.
  - eapply fpr_trans; [exact E | fpr_leaf].
  - split; [exact E | discriminate].
  - split; [exact E | discriminate].
Qed.

Lemma send_ack_fpr : forall s : vsock, sfp s (send_ack s).
Proof. intro s. unfold send_ack. apply send_control_packet_fpr. unfold hdr_with. cbn [ch_type]. discriminate. Qed.

Lemma maybe_send_fin_fpr : forall s : vsock, sfp s (maybe_send_fin s).
Proof.
  intro s. unfold maybe_send_fin. destruct (v_transport_pending s); [apply fpr_refl|].
  destruct (our_fin_if_unacked (v_state s)); [|apply fpr_refl].
  destruct (negb _); [apply fpr_refl|].
  apply sfp_bind; [apply send_control_packet_fpr; unfold hdr_with; cbn [ch_type]; discriminate|].
  intros s1 a. destruct a; cbn [sfp]; [fpr_leaf | apply fpr_refl].
Qed.

Lemma maybe_send_ack_fpr : forall s : vsock, sfp s (maybe_send_ack s).
Proof.
  intro s. unfold maybe_send_ack.
  destruct (immediate_ack_to_transmit s); [apply send_ack_fpr|].
  destruct (should_send_window_update s); [apply send_ack_fpr|].
  destruct (timer_expired _ _).
  - destruct (ack_to_transmit s); [apply send_ack_fpr | cbn [sfp]; fpr_leaf].
  - destruct (0 <? _); cbn [sfp]; [fpr_leaf | apply fpr_refl].
Qed.

Lemma maybe_send_syn_ack_fpr : forall s : vsock, sfp s (maybe_send_syn_ack s).
Proof.
  intro s. unfold maybe_send_syn_ack.
  assert (G : (forall c, rk (v_state s) <= rk (SynAckSent c)) -> forall c, sfp s
     (if c =? o_max_retx (v_opts s) then SErr s ErrMaxSynAckRetransmissionsReached
      else sbind (send_ack s) (fun s1 sent =>
        if sent then SOk (set_t_syn_ack_resend (set_state s1 (SynAckSent (c + 1)))
               (timer_arm (v_t_syn_ack_resend s1) (v_now s1) SYNACK_RESEND_INTERNAL true)) tt
        else SOk s1 tt))).
  { intros Hst c. destruct (_ =? _); [split; [apply fpr_refl | discriminate]|].
    pose proof (send_ack_fpr s) as F. pose proof (send_ack_txf s) as T.
    destruct (send_ack s) as [s1 sent|s1 e|]; cbn [sbind sfp stR] in *; auto.
    destruct sent; cbn [sfp]; [|exact F].
    eapply fpr_trans; [exact F|]. destruct T as (_ & _ & _ & _ & _ & _ & T7 & _).
    apply fpr_same; try reflexivity. vsimpl_goal. rewrite T7. apply Hst. }
  destruct (v_state s) eqn:Est; try (cbn [sfp]; fpr_leaf).
  - apply G. intros c. cbn [rk]. lia.
  - destruct (timer_expired _ _); [apply G; intros c; cbn [rk]; lia | apply fpr_refl].
Qed.

Lemma transition_fpr : forall s : vsock, fpr s (transition_to_fin_wait_1 s).
Proof.
  intro s. unfold transition_to_fin_wait_1.
  destruct (v_state s) eqn:Est; first [apply fpr_refl | fpr_st Est].
Qed.

Lemma poll_tail_fpr : forall s : vsock, fpr s (poll_tail s).
Proof.
  intro s.
  unfold poll_tail, next_timer_to_poll, arm_in, add_wakes.
  repeat break_match; try (inversion Heqp; subst); fpr_leaf.
Qed.

Lemma state_table_fpr : forall (s : vsock) h,
  fpr s (tbl_state (state_table s h)) /\
  match state_table s h with TblErr _ e => nmax e | _ => True end.
Proof.
  intros s h. unfold state_table, restart_remote_inactivity_timer.
  destruct (ch_type h); destruct (v_state s) eqn:Est; cbn [tbl_state negb];
    repeat (match goal with |- context [if ?c then _ else _] => destruct c end);
    cbn [tbl_state]; (split; [first [apply fpr_refl | fpr_st Est] | first [exact I | discriminate]]).
Qed.

Lemma add_err_nmax : forall r e, add_err r = Some e -> nmax e.
Proof. intros r e. destruct r; cbn [add_err]; intro H; inversion H; discriminate. Qed.

Lemma pim_data_fpr : forall (s2 : vsock) m res offset, sfp s2 (pim_data cci s2 m res offset).
Proof.
  intros s2 m res offset. unfold pim_data. destruct (offset <? 0).
  { cbn [sfp]. unfold force_immediate_ack. fpr_leaf. }
  cbv zeta.
  destruct (rx_add_remove _ KData (m_payload m) offset) as [[rx1 ar] w].
  set (s4 := add_wakes _ _).
  assert (H4 : fpr s2 s4) by (unfold s4, add_wakes; fpr_leaf).
  clearbody s4.
  destruct ar as [r|]; [|exact I].
  destruct (add_err r) eqn:Ea; [cbn [sfp]; split; [exact H4 | eapply add_err_nmax; exact Ea]|].
  set (s5 := match r with ArConsumed _ _ => _ | _ => s4 end).
  assert (H5 : fpr s2 s5).
  { eapply fpr_trans; [exact H4|]. unfold s5, restart_remote_inactivity_timer.
    destruct r; first [apply fpr_refl | fpr_leaf]. }
  clearbody s5.
  destruct (_ || _); [|exact H5].
  apply (sfp_weaken _ s2 (force_immediate_ack s5)).
  { eapply fpr_trans; [exact H5|]. unfold force_immediate_ack. fpr_leaf. }
  apply sfp_bind; [apply send_ack_fpr|]. intros s6 _. apply fpr_refl.
Qed.

Lemma pim_fin_fpr : forall (s2 : vsock) m res offset seen, sfp s2 (pim_fin s2 m res offset seen).
Proof.
  intros s2 m res offset seen. unfold pim_fin. cbv zeta. destruct (_ && _).
  - destruct (rx_add_remove _ KFin _ _) as [[rx1 ar] w].
    destruct ar as [r|]; [|exact I].
    destruct (add_err r) eqn:Ea.
    + cbn [sfp]. split; [unfold add_wakes, force_immediate_ack; fpr_leaf | eapply add_err_nmax; exact Ea].
    + unfold mark_vsock_closed. cbn [sfp]. unfold add_wakes, force_immediate_ack. fpr_leaf.
  - cbn [sfp]. unfold force_immediate_ack. fpr_leaf.
Qed.

(* a transmission attempt that does not put a datagram on the wire *)
Lemma send_data_fpr_other : forall (s : vsock) h f,
  match send_data s h f with
  | SOk s1 SdSent => True
  | SOk s1 _ | SErr s1 _ => fpr s s1
  | SPanic => True
  end.
Proof.
  intros s h f. unfold send_data.
  destruct (_ =? o_max_retx _); [apply fpr_refl|].
  destruct (_ <? 0); [exact I|].
  destruct (_ <? fs_payload_offset f); [apply fpr_refl|].
  destruct (_ <? _ + _); [apply fpr_refl|].
  destruct (next_send s _) as [s1 o] eqn:E. apply next_send_fpr in E.
  destruct o; auto; try (eapply fpr_trans; [exact E | fpr_leaf]).
Qed.

Lemma verror_eq_max : forall e : verror,
  e = ErrMaxRetransmissionsReached \/ e <> ErrMaxRetransmissionsReached.
Proof. intro e. destruct e; first [left; reflexivity | right; discriminate]. Qed.

Section SendRule.
Variable Iv : vsock -> Prop.
Variable Jv : vsock -> Prop.          (* after a transmission attempt answered EMSGSIZE *)
Variable Ev : vsock -> verror -> Prop.
Hypothesis I_fpw : forall s s' : vsock, fpw s s' -> Iv s -> Iv s'.
Hypothesis I_emsg : forall (s : vsock) h f s1, Iv s -> send_data s h f = SOk s1 SdEmsgsize -> Jv s1.
Hypothesis J_E : forall s e, Jv s -> e <> ErrMaxRetransmissionsReached -> Ev s e.
Hypothesis I_sent : forall (s : vsock) h f s1 n rest,
  Iv s -> synced (ss_snd_una (v_segs s)) (ss_segs (v_segs s)) n (f :: rest) -> send_data s h f = SOk s1 SdSent -> Iv s1.
Hypothesis E_of_I : forall s e, Iv s -> e <> ErrMaxRetransmissionsReached -> Ev s e.
Hypothesis E_max : forall (s : vsock) f n rest,
  Iv s -> synced (ss_snd_una (v_segs s)) (ss_segs (v_segs s)) n (f :: rest) ->
  seg_retransmit_count (fs_seg f) = o_max_retx (v_opts s) -> Ev s ErrMaxRetransmissionsReached.
Hypothesis I_pop : forall (s : vsock) segs' q ss',
  Jv s -> pop_mtu_probe (v_segs s) q = (segs', true) ->
  Iv (set_restart (set_ss (VSockRec.set_segs s segs') ss') true).

Definition stN (m : step (option (Z * Z))) : Prop :=
  match m with
  | SOk s' None => Iv s'
  | SOk s' (Some _) => Jv s'
  | SErr s' e => Ev s' e
  | SPanic => True
  end.

Definition stI {X} (m : step X) : Prop :=
  match m with SOk s' _ => Iv s' | SErr s' e => Ev s' e | SPanic => True end.

Lemma stI_bind : forall X Y (m : step X) (k : vsock -> X -> step Y),
  stI m -> (forall s1 a, Iv s1 -> stI (k s1 a)) -> stI (sbind m k).
Proof. intros X Y m k Hm Hk. destruct m as [s1 a|s1 e|]; cbn [sbind stI] in *; auto. Qed.

(* one transmission attempt *)
Lemma send_data_rule : forall (s : vsock) h f n rest,
  Iv s -> synced (ss_snd_una (v_segs s)) (ss_segs (v_segs s)) n (f :: rest) ->
  match send_data s h f with
  | SOk s1 SdSent => Iv s1 /\ synced (ss_snd_una (v_segs s1)) (ss_segs (v_segs s1)) (S (fs_idx f)) rest
  | SOk s1 SdPending => Iv s1
  | SOk s1 SdEmsgsize => Jv s1
  | SErr s1 e => Ev s1 e
  | SPanic => True
  end.
Proof.
  intros s h f n rest Hi Hs.
  pose proof (send_data_spec s h f) as Hd. pose proof (send_data_fpr_other s h f) as Hf.
  destruct (send_data s h f) as [s1 [| |]|s1 e|] eqn:Ed; try exact I.
  - split; [eapply I_sent; eauto|].
    destruct Hd as (_ & _ & Hsg & _). rewrite Hsg. unfold on_sent, Segments.set_segs. cbn [ss_segs ss_snd_una].
    destruct Hs as (_ & _ & _ & Hr). apply synced_update; [lia | exact Hr].
  - apply (I_fpw s s1 (fpr_fpw _ _ Hf) Hi).
  - eapply I_emsg; eauto.
  - destruct (verror_eq_max e) as [->|Hne].
    + apply send_data_err_max in Ed. destruct Ed as [-> Hc]. eapply E_max; eauto.
    + apply E_of_I; [apply (I_fpw s s1 (fpr_fpw _ _ Hf) Hi) | exact Hne].
Qed.

Lemma recovery_loop_rule : forall items (s : vsock) h mss0 st n,
  Iv s -> synced (ss_snd_una (v_segs s)) (ss_segs (v_segs s)) n items -> stI (recovery_loop items s h mss0 st).
Proof.
  induction items as [|f rest IH]; intros s h mss0 st n Hi Hs; cbn [recovery_loop]; [exact Hi|].
  destruct (negb _); [exact Hi|].
  destruct (_ && negb (sg_lost _)); [apply (IH s h mss0 st (S (fs_idx f))); [exact Hi | apply Hs]|].
  destruct (_ && negb (sg_sacks_after _)); [exact Hi|].
  pose proof (send_data_rule s h f n rest Hi Hs) as Hd.
  destruct (send_data s h f) as [s1 r|s1 e|]; cbn [stI]; auto.
  destruct r; cbn [stI].
  - destruct Hd as [H1 H2]. eapply IH; eauto.
  - exact Hd.
  - apply J_E; [exact Hd | discriminate].
Qed.

Lemma new_data_loop_rule : forall items (s : vsock) h remaining n,
  Iv s -> synced (ss_snd_una (v_segs s)) (ss_segs (v_segs s)) n items -> stN (new_data_loop items s h remaining).
Proof.
  induction items as [|f rest IH]; intros s h remaining n Hi Hs; cbn [new_data_loop]; [exact Hi|].
  destruct (_ <? _); [exact Hi|].
  pose proof (send_data_rule s h f n rest Hi Hs) as Hd.
  destruct (send_data s h f) as [s1 r|s1 e|]; cbn [stN]; auto.
  destruct r; cbn [stN].
  - destruct Hd as [H1 H2]. eapply IH; eauto.
  - exact Hd.
  - exact Hd.
Qed.

Lemma on_rto_reactions_I : forall (s s1 : vsock), on_rto_reactions cci s = Some s1 -> Iv s -> Iv s1.
Proof.
  intros s s1 H Hi. unfold on_rto_reactions in H. destruct (on_rto_timeout _); [|discriminate].
  injection H as <-. eapply I_fpw; [|exact Hi]. fpw_leaf.
Qed.

Lemma sfp_stI : forall X (s : vsock) (m : step X), Iv s -> sfp s m -> stI m.
Proof.
  intros X s m Hi H. destruct m; cbn [sfp stI] in *; auto.
  - eapply I_fpw; [apply fpr_fpw|]; eauto.
  - destruct H as [H1 H2]. apply E_of_I; [eapply I_fpw; [apply fpr_fpw|]; eauto | exact H2].
Qed.

Lemma maybe_send_fin_I : forall s : vsock, Iv s -> stI (maybe_send_fin s).
Proof. intros s Hi. eapply sfp_stI; [exact Hi | apply maybe_send_fin_fpr]. Qed.

Ltac i_same a := apply (I_fpw a); [fpw_leaf|].

Theorem send_tx_queue_rule : forall s : vsock, Iv s -> stI (send_tx_queue cci s).
Proof.
  intros s Hi. unfold send_tx_queue.
  destruct (v_transport_pending s); [exact Hi|].
  apply stI_bind.
  - (* the RTO part *)
    destruct (timer_expired _ _); [|exact Hi].
    destruct (iter_for_sending (v_segs s) None) as [|f l] eqn:Eit.
    + assert (Hoff : stI (SOk (A:=bool) (set_t_retransmit s None) false)) by (cbn [stI]; i_same s; exact Hi).
      destruct (our_fin_if_unacked _); [|exact Hoff].
      destruct (_ =? _); [|exact Hoff].
      apply stI_bind.
      { apply maybe_send_fin_I. i_same s. exact Hi. }
      intros s1 a H1. destruct a; [|exact H1].
      destruct (on_rto_reactions cci s1) as [s2|] eqn:E; [|exact I].
      pose proof (on_rto_reactions_I _ _ E H1) as H2. cbn [stI]. i_same s2. exact H2.
    + pose proof (synced_iter (v_segs s) None) as Hsy. rewrite Eit in Hsy.
      pose proof (send_data_rule s (outgoing_header s) f 0%nat l Hi Hsy) as Hd.
      destruct (send_data _ _ f) as [s1 r|s1 e|]; cbn [stI]; auto.
      destruct r; cbn [stI].
      * destruct Hd as [H1 _]. cbv zeta.
        match goal with |- stI (match ?o with _ => _ end) => destruct o as [s2|] eqn:E end; [|exact I].
        assert (H2 : Iv s2).
        { destruct (negb _); [eapply on_rto_reactions_I; eauto | injection E as <-; exact H1]. }
        cbn [stI]. i_same s2. exact H2.
      * exact Hd.
      * apply J_E; [exact Hd | discriminate].
  - intros s1 ret H1. destruct ret; [exact H1|].
    destruct (0 <? _); [exact H1|]. destruct (ss_segs (v_segs s1)) eqn:Esg; [exact H1|].
    apply stI_bind.
    + (* the recovery part *)
      destruct (rv_phase _) as [rp|d|rc]; try exact H1.
      apply stI_bind.
      { apply (recovery_loop_rule _ s1 _ _ _ 0%nat); [exact H1|].
        apply synced_take_while, synced_skip_while, synced_firstn, synced_iter. }
      intros s2 [st early] H2. cbv beta iota zeta.
      assert (H2' : forall rc', Iv (set_recovering s2 rc')) by (intro rc'; unfold set_recovering; i_same s2; exact H2).
      destruct early; [apply H2'|].
      match goal with |- stI (match our_fin_if_unacked (v_state ?y) with _ => _ end) =>
        assert (F3 : Iv y); [|revert F3; generalize y; intros sy F3] end.
      { destruct (_ <? _); [|apply H2']. destruct (rc_recalc _).
        - match goal with |- Iv (set_t_recovery_pipe ?a _) => i_same a; apply H2' end.
        - destruct (0 <? _); [|apply H2'].
          match goal with |- Iv (set_t_recovery_pipe ?a _) => i_same a; apply H2' end. }
      destruct (our_fin_if_unacked _); [destruct (_ =? _)|]; cbn [stI]; auto.
      unfold set_recovering. i_same sy. exact F3.
    + (* never-sent data *)
      intros s2 ret H2. destruct ret; [exact H2|].
      match goal with |- stI (sbind (new_data_loop ?it ?st ?h ?rem) _) =>
        pose proof (new_data_loop_rule it st h rem 0%nat H2 (synced_iter _ _)) as Hn;
        destruct (new_data_loop it st h rem) as [s3 tl|s3 e|] end; cbn [sbind stN stI] in *; auto.
      destruct tl as [[sq sz]|]; [|exact Hn].
      destruct (pop_mtu_probe _ _) as [segs' popped] eqn:Ep. destruct popped; cbn [stI].
      * eapply I_pop; eauto.
      * apply J_E; [exact Hn | discriminate].
Qed.

End SendRule.


(* ================================================================== a rule for the incoming path *)
Section PimRule.
Variable Iv : vsock -> Prop.
Hypothesis I_fpr : forall s s', fpr s s' -> Iv s -> Iv s'.
(* taking a message from the inbox; the channel-closed arm *)
Hypothesis I_inbox : forall (s : vsock) l, Iv s -> Iv (set_inbox s l).
(* the bookkeeping after an acknowledgement: RTO counter and two timers *)
Hypothesis I_prog : forall (s : vsock) c tr ti, Iv s ->
  Iv (set_t_inactivity (set_t_retransmit (set_rto_retransmissions s c) tr) ti).
Hypothesis I_ack : forall (s1 s2 : vsock) h res, Iv s1 -> pim_ack cci s1 h = Some (s2, res) -> Iv s2.
Hypothesis I_calc : forall (s3 : vsock) rc hd rtt now segs' p recalc,
  Iv s3 -> rv_phase (v_recovery s3) = Recovering rc ->
  calc_pipe (v_segs s3) (rc_high_rxt rc) hd rtt now = Some (segs', p, recalc) ->
  Iv (set_recovering (VSockRec.set_segs s3 segs')
        {| rc_recovery_point := rc_recovery_point rc; rc_high_rxt := rc_high_rxt rc;
           rc_total_retx := rc_total_retx rc; rc_pipe := p; rc_recalc := recalc;
           rc_cwnd := rc_cwnd rc |}).

Definition spI {X} (m : step X) : Prop :=
  match m with SOk s' _ => Iv s' | SErr s' e => Iv s' /\ nmax e | SPanic => True end.

Lemma spI_bind : forall X Y (m : step X) (k : vsock -> X -> step Y),
  spI m -> (forall s1 a, Iv s1 -> spI (k s1 a)) -> spI (sbind m k).
Proof. intros X Y m k Hm Hk. destruct m as [s1 a|s1 e|]; cbn [sbind spI] in *; auto. Qed.

Lemma sfp_spI : forall X (s : vsock) (m : step X), Iv s -> sfp s m -> spI m.
Proof.
  intros X s m Hi H. destruct m; cbn [sfp spI] in *; auto.
  - eapply I_fpr; eauto.
  - destruct H as [H1 H2]. split; [eapply I_fpr; eauto | exact H2].
Qed.

Lemma pim_msg_rule : forall (s : vsock) m, Iv s -> spI (process_incoming_message cci s m).
Proof.
  intros s m Hi. rewrite process_incoming_message_eq.
  destruct (state_table_fpr s (m_hdr m)) as [Ht He].
  destruct (state_table s (m_hdr m)) as [s1|s1 e|s1]; cbn [tbl_state] in Ht; cbn [spI].
  - eapply I_fpr; eauto.
  - split; [eapply I_fpr; eauto | exact He].
  - assert (H1 : Iv s1) by (eapply I_fpr; eauto).
    unfold pim_cont. destruct (pim_ack cci s1 (m_hdr m)) as [[s2 res]|] eqn:Ea; [|exact I].
    pose proof (I_ack _ _ _ _ H1 Ea) as H2. cbv zeta.
    destruct (ch_type (m_hdr m)); try exact H2.
    + eapply sfp_spI; [exact H2 | apply pim_data_fpr].
    + eapply sfp_spI; [exact H2 | apply pim_fin_fpr].
Qed.

Lemma recv_loop_rule : forall fuel (s : vsock) acc, Iv s -> spI (recv_loop cci fuel s acc).
Proof.
  assert (Hbase : forall (s : vsock) (acc : on_ack_result), Iv s ->
    spI (if v_inbox_closed s
         then sbind (maybe_send_fin (transition_to_fin_wait_1 s))
                    (fun s2 _ => SOk (set_state s2 Closed) (acc, true))
         else SOk (set_inbox_waker s true) (acc, false))).
  { intros s acc Hi. destruct (v_inbox_closed s).
    - apply spI_bind.
      + eapply sfp_spI; [eapply I_fpr; [apply transition_fpr | exact Hi] | apply maybe_send_fin_fpr].
      + intros s2 _ H2. cbn [spI]. eapply I_fpr; [|exact H2].
        apply fpr_same; try reflexivity. vsimpl_goal. cbn [rk]. apply rk_max.
    - cbn [spI]. eapply I_fpr; [|exact Hi]. fpr_leaf. }
  induction fuel as [|m0 fuel IH]; intros s acc Hi; cbn [recv_loop];
    destruct (v_inbox s) as [|m rest] eqn:Ei; try (apply Hbase; exact Hi); try exact I.
  apply spI_bind.
  - apply pim_msg_rule. apply I_inbox. exact Hi.
  - intros s1 r H1. destruct (_ || _); [exact H1 | apply IH; exact H1].
Qed.

Theorem pim_rule : forall s : vsock, Iv s -> spI (process_all_incoming_messages cci s).
Proof.
  intros s Hi. rewrite paim_eq. apply spI_bind; [apply recv_loop_rule; exact Hi|].
  intros s1 res H1. unfold paim_rest.
  match goal with |- spI (sbind ?m _) =>
    match m with context [acked_counts_as_sent ?x] => set (s2 := x) end end.
  assert (F2 : Iv s2).
  { subst s2. unfold restart_remote_inactivity_timer. destruct (_ || _); [|exact H1].
    destruct (ss_segs _); [destruct (our_fin_if_unacked _)|]; apply I_prog; exact H1. }
  clearbody s2.
  apply spI_bind.
  - destruct (0 <? _); [|exact F2].
    assert (F2' : Iv (acked_counts_as_sent s2)).
    { eapply I_fpr; [|exact F2]. unfold acked_counts_as_sent.
      destruct (seq_gt _ _ && seq_lt _ _); [fpr_leaf | apply fpr_refl]. }
    revert F2'. generalize (acked_counts_as_sent s2). intros s2' F2'.
    destruct (truncate_front _ _) as [tx1 tr].
    destruct tr; cbn [spI].
    + destruct (wake_writer tx1) as [tx2 w]. cbn [spI]. eapply I_fpr; [|exact F2']. unfold add_wakes. fpr_leaf.
    + split; [eapply I_fpr; [|exact F2']; fpr_leaf | discriminate].
  - intros s3 _ H3. destruct (rv_phase (v_recovery s3)) eqn:Eph; try exact H3.
    destruct (calc_pipe _ _ _ _ _) as [[[sg pp] rcl]|] eqn:Ec; [|exact I].
    cbn [spI]. eapply I_calc; eauto.
Qed.

End PimRule.

(* ================================================================== a property of the sent-status of every
   segment of the table survives everything but on_sent *)
Section SentPred.
Variable P : sent_status -> Prop.
Definition SP (l : list seg) : Prop := Forall (fun g => P (sg_sent g)) l.

Lemma SP_app : forall a b, SP (a ++ b) <-> SP a /\ SP b.
Proof. intros a b. unfold SP. apply Forall_app. Qed.

Lemma SP_firstn : forall n l, SP l -> SP (firstn n l).
Proof. intros n l H. rewrite <- (firstn_skipn n l) in H. apply SP_app in H. tauto. Qed.

Lemma SP_skipn : forall n l, SP l -> SP (skipn n l).
Proof. intros n l H. rewrite <- (firstn_skipn n l) in H. apply SP_app in H. tauto. Qed.

Lemma apply_sack_SP : forall l bits now a l' a', apply_sack l bits now a = (l', a') -> SP l -> SP l'.
Proof.
  induction l as [|x r IH]; intros bits now a l' a'; cbn [apply_sack].
  - intro H; injection H as <- _. auto.
  - destruct bits as [|b bs]; [intro H; injection H as <- _; auto|].
    destruct (negb (sg_delivered x) && b).
    + destruct (apply_sack r bs now _) as [r' a''] eqn:E. intro H; injection H as <- _.
      intro K. inversion K; subst. constructor; [exact H1 | eapply IH; eauto].
    + destruct (apply_sack r bs now a) as [r' a''] eqn:E. intro H; injection H as <- _.
      intro K. inversion K; subst. constructor; [exact H1 | eapply IH; eauto].
Qed.

Lemma strip_delivered_SP : forall l cnt bytes l' cnt' bytes',
  strip_delivered l cnt bytes = (l', cnt', bytes') -> SP l -> SP l'.
Proof.
  induction l as [|x r IH]; intros cnt bytes l' cnt' bytes'; cbn [strip_delivered].
  - intro H; injection H as <- _ _. auto.
  - destruct (sg_delivered x).
    + intros H K. inversion K; subst. eapply IH; eauto.
    + intro H; injection H as <- _ _. auto.
Qed.

Lemma sack_phase_SP : forall t rest a1 su now ack sk l' a' dp lse,
  sack_phase t rest a1 su now ack sk = (l', a', dp, lse) -> SP rest -> SP l'.
Proof.
  intros t rest a1 su now ack sk l' a' dp lse. unfold sack_phase.
  destruct rest as [|x xs]; [intro H; injection H as <- _ _ _; auto|].
  destruct sk as [k|]; [|intro H; injection H as <- _ _ _; auto].
  destruct (seq_gt su ack); [|intro H; injection H as <- _ _ _; auto].
  set (rest := x :: xs). set (so := seq_sub (wadd16 ack 2) su).
  destruct (0 <=? so).
  - destruct (apply_sack (skipn (Z.to_nat so) rest) _ now _) as [tl' a''] eqn:E.
    intro H; injection H as <- _ _ _. intro K. apply SP_app. split; [apply SP_firstn; exact K|].
    eapply apply_sack_SP; [exact E | apply SP_skipn; exact K].
  - destruct (apply_sack rest _ now _) as [l2 a''] eqn:E.
    intro H; injection H as <- _ _ _. eapply apply_sack_SP; exact E.
Qed.

Lemma remove_up_to_ack_SP : forall t now ack sk t' r,
  remove_up_to_ack t now ack sk = (t', r) -> SP (ss_segs t) -> SP (ss_segs t').
Proof.
  intros t now ack sk t' r. unfold remove_up_to_ack.
  set (dc := if 0 <=? seq_sub ack (ss_snd_una t) then _ else 0%nat).
  destruct (sack_phase t (skipn dc (ss_segs t)) _ _ now ack sk) as [[[rest2 a2] dp] lse] eqn:E2.
  destruct (strip_delivered rest2 0 0) as [[rest3 cnt3] bytes3] eqn:E3.
  intro H; injection H as <- _. cbn [ss_segs]. intro K.
  eapply strip_delivered_SP; [exact E3|]. eapply sack_phase_SP; [exact E2|]. apply SP_skipn. exact K.
Qed.

Lemma pipe_loop_SP : forall l t hr th now a l' a',
  pipe_loop l t hr th now a = (l', a') -> SP (map snd l) -> SP l'.
Proof.
  induction l as [|[off x] r IH]; intros t hr th now a l' a'; cbn [pipe_loop].
  - intro H; injection H as <- _. auto.
  - cbn [map snd]. destruct (seg_last_sent x).
    + destruct (sg_delivered x).
      * destruct (pipe_loop r t hr th now _) as [r' a''] eqn:E. intro H; injection H as <- _.
        intro K. inversion K; subst. constructor; [exact H1 | eapply IH; eauto].
      * destruct (pipe_loop r t hr th now _) as [r' a''] eqn:E. intro H; injection H as <- _.
        intro K. inversion K; subst. constructor; [exact H1 | eapply IH; eauto].
    + destruct (pipe_loop r t hr th now a) as [r' a''] eqn:E. intro H; injection H as <- _.
      intro K. inversion K; subst. constructor; [exact H1 | eapply IH; eauto].
Qed.

Lemma SP_rev : forall l, SP l -> SP (rev l).
Proof. intros l H. unfold SP in *. apply Forall_rev. exact H. Qed.

Lemma calc_pipe_SP : forall t hr hd rtt now t' p rc,
  calc_pipe t hr hd rtt now = Some (t', p, rc) -> SP (ss_segs t) -> SP (ss_segs t').
Proof.
  intros t hr hd rtt now t' p rc. unfold calc_pipe. destruct (_ <? _); [discriminate|].
  set (n := Z.to_nat _).
  destruct (pipe_loop _ t hr _ now _) as [upd a] eqn:E. intro H; injection H as <- _ _.
  cbn [Segments.set_segs ss_segs]. intro K. apply SP_app. split; [|apply SP_skipn; exact K].
  apply SP_rev. eapply pipe_loop_SP; [exact E|].
  rewrite map_rev, enum_from_snd. apply SP_rev, SP_firstn. exact K.
Qed.

Lemma recovery_on_ack_SP : forall r h segs ls cc now rtt r' segs' cc',
  recovery_on_ack cci r h segs ls cc now rtt = Some (r', segs', cc') -> SP (ss_segs segs) -> SP (ss_segs segs').
Proof.
  intros r h segs ls cc now rtt r' segs' cc'. unfold recovery_on_ack. cbv zeta.
  cbn [rv_phase rv_supports_sack rv_last_ack]. intros H K.
  destruct (rv_phase r).
  - destruct (seq_ge _ _); injection H as _ <- _; auto.
  - destruct (ss_segs segs) eqn:Es; [injection H as _ <- _; rewrite Es; auto|]. rewrite <- Es in *.
    match type of H with (match ?c with _ => _ end) = _ => destruct c as [[dup' la']|] end; [|discriminate].
    destruct (dup' <? SACK_DUP_THRESH); [injection H as _ <- _; auto|].
    destruct (calc_pipe _ _ _ _ _) as [[[sg pipe] recalc]|] eqn:Ec; [|discriminate].
    injection H as _ <- _. eapply calc_pipe_SP; eauto.
  - destruct (seq_ge _ _); injection H as _ <- _; auto.
Qed.

Lemma pim_ack_SP : forall (s1 s2 : vsock) h res,
  pim_ack cci s1 h = Some (s2, res) -> SP (ss_segs (v_segs s1)) ->
  SP (ss_segs (v_segs s2)) /\ v_opts s2 = v_opts s1 /\ v_out s2 = v_out s1 /\ v_now s2 = v_now s1 /\
  v_env_now s2 = v_env_now s1.
Proof.
  intros s1 s2 h res. unfold pim_ack.
  destruct (remove_up_to_ack _ _ _ _) as [segs1 res0] eqn:Er.
  match goal with |- (match ?o with Some _ => _ | None => _ end) = _ -> _ => destruct o as [rtte1|] end; [|discriminate].
  destruct (cc_on_ack cci _ _ _ _) as [cc3|]; [|discriminate].
  destruct (recovery_on_ack cci _ _ _ _ _ _ _) as [[[rec1 segs2] cc4]|] eqn:Ero; [|discriminate].
  intro H; injection H as <- _. intro K. vsimpl_goal. repeat split.
  eapply recovery_on_ack_SP; [exact Ero|]. eapply remove_up_to_ack_SP; eauto.
Qed.

Lemma last_and_init_SP : forall l init x, last_and_init l = Some (init, x) -> SP l -> SP init.
Proof. intros l init x E K. apply last_and_init_app in E. rewrite E in K. apply SP_app in K. tauto. Qed.

Lemma pop_mtu_probe_SP : forall t q t' b, pop_mtu_probe t q = (t', b) -> SP (ss_segs t) -> SP (ss_segs t').
Proof.
  intros t q t' b. unfold pop_mtu_probe. destruct (last_and_init (ss_segs t)) as [[init x]|] eqn:E.
  - destruct (_ && _ && _); intro H; injection H as <- _; [|auto].
    cbn [Segments.set_segs ss_segs]. eapply last_and_init_SP; eauto.
  - intro H; injection H as <- _. auto.
Qed.

Lemma pop_expired_SP : forall t to mr t' pe,
  pop_expired_mtu_probe t to mr = (t', pe) -> SP (ss_segs t) -> SP (ss_segs t').
Proof.
  intros t to mr t' pe. unfold pop_expired_mtu_probe. destruct (last_and_init (ss_segs t)) as [[init x]|] eqn:E.
  - destruct (sg_delivered x); [intro H; injection H as <- _; auto|].
    destruct (_ && _ && _); [|destruct (sg_probe x); intro H; injection H as <- _; auto].
    intro H; injection H as <- _. cbn [Segments.set_segs ss_segs]. eapply last_and_init_SP; eauto.
  - intro H; injection H as <- _. auto.
Qed.

Hypothesis P_unsent : P NotSent.

Lemma enqueue_SP : forall t len p, SP (ss_segs t) -> SP (ss_segs (enqueue t len p)).
Proof.
  intros t len p K. unfold enqueue. cbn [Segments.set_segs ss_segs]. apply SP_app. split; [exact K|].
  constructor; [exact P_unsent | constructor].
Qed.

Lemma segment_loop_SP : forall fuel nagle ss segs rem rwr ss' segs' rem',
  segment_loop fuel nagle ss segs rem rwr = Some (ss', segs', rem') -> SP (ss_segs segs) -> SP (ss_segs segs').
Proof.
  induction fuel as [|x fuel IH]; intros nagle ss segs rem rwr ss' segs' rem' H K; cbn [segment_loop] in H.
  - inversion H; subst; exact K.
  - destruct (_ && _); [|inversion H; subst; exact K].
    destruct (next_segment_size ss) as [[ss1 sz]|] eqn:E; [|discriminate].
    destruct (_ && _ && _); [inversion H; subst; exact K|].
    destruct (mss ss1 <? _); [inversion H; subst; apply enqueue_SP; exact K|].
    eapply IH; [exact H|]. apply enqueue_SP. exact K.
Qed.

End SentPred.

(* ================================================================== the retry cap: no segment of the table
   shows more retransmissions than configured; the error exit of the cap shows a segment at the cap *)
Definition capP (mx : Z) (st : sent_status) : Prop :=
  0 <= match st with Retransmitted c _ => c | _ => 0 end <= mx.

Definition CAP (s : vsock) : Prop :=
  SP (capP (o_max_retx (v_opts s))) (ss_segs (v_segs s)) /\ 0 <= o_max_retx (v_opts s).

Definition MAXW (s : vsock) : Prop :=
  exists g, In g (ss_segs (v_segs s)) /\ seg_retransmit_count g = o_max_retx (v_opts s) /\
            sg_delivered g = false.

Definition ECAP (s : vsock) (e : verror) : Prop :=
  CAP s /\ (e = ErrMaxRetransmissionsReached -> MAXW s).

Lemma CAP_eq : forall s s' : vsock, v_segs s' = v_segs s -> v_opts s' = v_opts s -> CAP s -> CAP s'.
Proof. intros s s' E1 E2. unfold CAP. rewrite E1, E2. auto. Qed.

Lemma MAXW_eq : forall s s' : vsock, v_segs s' = v_segs s -> v_opts s' = v_opts s -> MAXW s -> MAXW s'.
Proof. intros s s' E1 E2. unfold MAXW. rewrite E1, E2. auto. Qed.

Lemma CAP_fpw : forall s s', fpw s s' -> CAP s -> CAP s'.
Proof. intros s s' (E1 & E2 & _). apply CAP_eq; assumption. Qed.

Lemma CAP_fpr : forall s s', fpr s s' -> CAP s -> CAP s'.
Proof. intros s s' H. apply CAP_fpw, fpr_fpw, H. Qed.

Lemma Forall_update_nth : forall A (Q : A -> Prop) (phi : A -> A) l i,
  Forall Q l -> (forall x, nth_error l i = Some x -> Q (phi x)) -> Forall Q (update_nth l i phi).
Proof.
  intros A Q phi. induction l as [|y ys IH]; intros [|i] H K; cbn [update_nth]; auto.
  - inversion H; subst. constructor; [apply K; reflexivity | assumption].
  - inversion H; subst. constructor; [assumption | apply IH; auto].
Qed.

Lemma CAP_sent : forall (s : vsock) h f s1 n rest,
  CAP s -> synced (ss_snd_una (v_segs s)) (ss_segs (v_segs s)) n (f :: rest) -> send_data s h f = SOk s1 SdSent -> CAP s1.
Proof.
  intros s h f s1 n rest [Hc H0] (_ & Hn & _ & _) E.
  pose proof (send_data_spec s h f) as Hd. rewrite E in Hd.
  destruct Hd as ((_ & _ & _ & _ & _ & F6 & _) & _ & Hsg & _ & _ & _ & Hne & _).
  unfold CAP. rewrite Hsg, F6. split; [|exact H0].
  unfold on_sent, Segments.set_segs. cbn [ss_segs]. apply Forall_update_nth; [exact Hc|].
  intros x Hx. rewrite Hn in Hx. injection Hx as <-.
  unfold SP in Hc. rewrite Forall_forall in Hc. specialize (Hc _ (nth_error_In _ _ Hn)).
  unfold capP, seg_on_sent, seg_retransmit_count in *. cbn [sg_sent].
  destruct (sg_sent (fs_seg f)); lia.
Qed.

Lemma CAP_pop : forall (s : vsock) segs' q ss',
  CAP s -> pop_mtu_probe (v_segs s) q = (segs', true) ->
  CAP (set_restart (set_ss (VSockRec.set_segs s segs') ss') true).
Proof.
  intros s segs' q ss' [Hc H0] E. unfold CAP. vsimpl_goal. split; [|exact H0].
  eapply pop_mtu_probe_SP; eauto.
Qed.

Lemma ECAP_max : forall (s : vsock) f n rest,
  CAP s -> synced (ss_snd_una (v_segs s)) (ss_segs (v_segs s)) n (f :: rest) ->
  seg_retransmit_count (fs_seg f) = o_max_retx (v_opts s) -> ECAP s ErrMaxRetransmissionsReached.
Proof.
  intros s f n rest Hc (_ & Hn & [Hd _] & _) Hm. split; [exact Hc|]. intros _.
  exists (fs_seg f). split; [eapply nth_error_In; exact Hn|]. auto.
Qed.

Lemma ECAP_of : forall s e, CAP s -> e <> ErrMaxRetransmissionsReached -> ECAP s e.
Proof. intros s e Hc Hn. split; [exact Hc | intro K; contradiction]. Qed.

Lemma stq_CAP : forall s : vsock, CAP s -> stI CAP ECAP (send_tx_queue cci s).
Proof.
  intros s Hc. apply (send_tx_queue_rule CAP CAP ECAP); try exact Hc.
  - exact CAP_fpw.
  - intros a h f a1 K E. pose proof (send_data_fpr_other a h f) as F. rewrite E in F.
    eapply CAP_fpr; eauto.
  - exact ECAP_of.
  - exact CAP_sent.
  - exact ECAP_of.
  - exact ECAP_max.
  - exact CAP_pop.
Qed.

Lemma pim_CAP : forall s : vsock, CAP s -> spI CAP (process_all_incoming_messages cci s).
Proof.
  intros s Hc. apply pim_rule; try exact Hc.
  - exact CAP_fpr.
  - intros a l K. eapply CAP_eq; [| |exact K]; reflexivity.
  - intros a c tr ti K. eapply CAP_eq; [| |exact K]; reflexivity.
  - intros s1 s2 h res [H1 H0] E. destruct (pim_ack_SP _ _ _ _ _ E H1) as (K1 & K2 & _).
    unfold CAP. rewrite K2. auto.
  - intros s3 rc hd rtt now segs' p recalc [H1 H0] _ E. unfold CAP, set_recovering. vsimpl_goal.
    split; [eapply calc_pipe_SP; eauto | exact H0].
Qed.

Lemma capP_unsent : forall mx, 0 <= mx -> capP mx NotSent.
Proof. intros mx H. unfold capP. lia. Qed.

Lemma split_CAP : forall s : vsock, CAP s -> spI CAP (split_tx_queue_into_segments cci s).
Proof.
  intros s Hc. unfold split_tx_queue_into_segments.
  destruct (_ =? 0); [cbn [spI]; eapply CAP_eq; [| |exact Hc]; reflexivity|].
  match goal with |- context [is_remote_fin_or_later (v_state ?x)] => set (s1 := x) end.
  assert (F1 : CAP s1).
  { subst s1. destruct (_ && _); [|exact Hc].
    destruct (grow _ _) as [tx1 g]. destruct g; [destruct (wake_writer tx1)|];
      (eapply CAP_eq; [| |exact Hc]; reflexivity). }
  clearbody s1.
  destruct (is_remote_fin_or_later _); [exact F1|].
  destruct (pop_expired_mtu_probe _ _ _) as [segs1 pe] eqn:Ep.
  assert (Hcont : forall s2 : vsock, CAP s2 ->
    spI CAP
      (if Z.of_nat (length (ring (v_tx s))) <? ss_len_bytes (v_segs s2)
       then SErr s2 (ErrBug BugInBufferComputations)
       else match segment_loop (ring (v_tx s2)) (o_nagle (v_opts s2)) (v_ss s2) (v_segs s2)
                    (Z.of_nat (length (ring (v_tx s))) - ss_len_bytes (v_segs s2))
                    (v_last_remote_window s2) with
            | Some (ss', segs', remaining) =>
                SOk (set_unsegmented (VSockRec.set_segs (set_ss s2 ss') segs') remaining) tt
            | None => SPanic
            end)).
  { intros s2 [F2 F0]. destruct (_ <? _); [split; [split; assumption | discriminate]|].
    destruct (segment_loop _ _ _ _ _ _) as [[[ss' segs'] rem']|] eqn:E; [|exact I].
    cbn [spI]. unfold CAP. vsimpl_goal. split; [|exact F0].
    eapply segment_loop_SP; [apply capP_unsent; exact F0 | exact E | exact F2]. }
  destruct F1 as [F1 F0].
  destruct pe.
  - apply Hcont. unfold CAP. destruct (seq_gt _ _); vsimpl_goal; (split; [|exact F0]);
      eapply pop_expired_SP; eauto.
  - cbn [spI]. split; assumption.
  - apply Hcont. split; assumption.
Qed.

Lemma jbd_CAP : forall (s : vsock) e, CAP s -> CAP (just_before_death s e).
Proof.
  intros s e. destruct (jbd_kp s e) as (K & _). destruct (VSock_Lemmas.just_before_death_frame s e) as (F & _).
  apply CAP_eq; assumption.
Qed.

Lemma jbd_MAXW : forall (s : vsock) e, MAXW s -> MAXW (just_before_death s e).
Proof.
  intros s e. destruct (jbd_kp s e) as (K & _). destruct (VSock_Lemmas.just_before_death_frame s e) as (F & _).
  apply MAXW_eq; assumption.
Qed.

Lemma sfp_stH_CAP : forall X (s : vsock) (m : step X), CAP s -> sfp s m -> stH CAP ECAP CAP m.
Proof.
  intros X s m Hc H. destruct m as [s' a|s' e|]; cbn [sfp stH] in *; auto.
  - split; intros _; eapply CAP_fpr; eauto.
  - destruct H as [H1 H2]. apply ECAP_of; [eapply CAP_fpr; eauto | exact H2].
Qed.

Lemma spI_stH_CAP : forall X (m : step X), spI CAP m -> stH CAP ECAP CAP m.
Proof.
  intros X m H. destruct m as [s' a|s' e|]; cbn [spI stH] in *; auto.
  destruct H as [H1 H2]. apply ECAP_of; assumption.
Qed.

(* CAP after every poll, whatever its result; the error exit of the cap shows a segment at the cap *)
Theorem poll_CAP : forall (s s' : vsock) r,
  CAP s -> poll cci s = (s', r) ->
  CAP s' /\ (r = PollReadyErr ErrMaxRetransmissionsReached -> MAXW s').
Proof.
  intros s s' r Hc H.
  assert (HR : resH CAP CAP CAP ECAP s' r).
  { apply (poll_H CAP CAP CAP CAP CAP CAP CAP ECAP) with (s := s); try exact H.
    - intros a K. eapply CAP_eq; [| |exact K]; reflexivity.
    - intros a K _. eapply sfp_stH_CAP; [exact K | apply maybe_send_syn_ack_fpr].
    - intros a K _. eapply sfp_stH_CAP; [exact K | apply send_ack_fpr].
    - intros a K _. apply spI_stH_CAP, pim_CAP. exact K.
    - intros a rx1 fb w K _ _. eapply CAP_eq; [| |exact K]; reflexivity.
    - intros a K. apply ECAP_of; [exact K | discriminate].
    - intros a K _. pose proof (split_CAP a K) as S.
      destruct (split_tx_queue_into_segments cci a); cbn [spI stB] in *; auto.
      destruct S as [S1 S2]. apply ECAP_of; assumption.
    - intros a K _ _. pose proof (stq_CAP a K) as S.
      destruct (send_tx_queue cci a); cbn [stI stQ] in *; auto.
    - intros a K _. eapply CAP_fpr; [apply transition_fpr | exact K].
    - intros a K _. eapply sfp_stH_CAP; [exact K | apply maybe_send_fin_fpr].
    - intros a K _. eapply sfp_stH_CAP; [exact K | apply maybe_send_ack_fpr].
    - eapply CAP_eq; [| |exact Hc]; reflexivity. }
  destruct r; cbn [resH] in HR.
  - split; [|discriminate]. destruct HR as [[_ K]|(sb & K & _ & _ & _ & ->)]; [exact K|].
    eapply CAP_fpr; [apply poll_tail_fpr | exact K].
  - split; [|discriminate]. destruct HR as (sb & K & _ & ->). apply jbd_CAP. exact K.
  - destruct HR as (sb & [K1 K2] & ->). split; [apply jbd_CAP; exact K1|].
    intro E. injection E as ->. apply jbd_MAXW. apply K2. reflexivity.
  - split; [exact HR | discriminate].
Qed.

(* ================================================================== what the segmentation and the ACK
   processing keep besides the table: the datagrams, the clocks, the transport script, the restart flag *)
Definition skr (s s' : vsock) : Prop :=
  v_out s' = v_out s /\ v_opts s' = v_opts s /\ v_now s' = v_now s /\ v_env_now s' = v_env_now s /\
  v_emsg_limit s' = v_emsg_limit s /\ v_restart s' = v_restart s /\ v_sends s' = v_sends s.

Lemma skr_refl : forall s, skr s s. Proof. intro s. unfold skr. repeat split. Qed.
Lemma skr_trans : forall a b c, skr a b -> skr b c -> skr a c.
Proof.
  unfold skr. intros a b c (A1 & A2 & A3 & A4 & A5 & A6 & A7) (B1 & B2 & B3 & B4 & B5 & B6 & B7).
  repeat split; congruence.
Qed.
Ltac skr_leaf := unfold skr; repeat split; reflexivity.

Lemma split_skr : forall s : vsock, stR skr s (split_tx_queue_into_segments cci s).
Proof.
  intros s. unfold split_tx_queue_into_segments.
  destruct (_ =? 0); [cbn [stR]; skr_leaf|].
  match goal with |- context [is_remote_fin_or_later (v_state ?x)] => set (s1 := x) end.
  assert (F1 : skr s s1).
  { subst s1. destruct (_ && _); [|apply skr_refl].
    destruct (grow _ _) as [tx1 g]. destruct g; [destruct (wake_writer tx1)|]; unfold add_wakes; skr_leaf. }
  clearbody s1.
  destruct (is_remote_fin_or_later _); [exact F1|].
  destruct (pop_expired_mtu_probe _ _ _) as [segs1 pe].
  assert (Hcont : forall s2 : vsock, skr s s2 ->
    stR skr s
      (if Z.of_nat (length (ring (v_tx s))) <? ss_len_bytes (v_segs s2)
       then SErr s2 (ErrBug BugInBufferComputations)
       else match segment_loop (ring (v_tx s2)) (o_nagle (v_opts s2)) (v_ss s2) (v_segs s2)
                    (Z.of_nat (length (ring (v_tx s))) - ss_len_bytes (v_segs s2))
                    (v_last_remote_window s2) with
            | Some (ss', segs', remaining) =>
                SOk (set_unsegmented (VSockRec.set_segs (set_ss s2 ss') segs') remaining) tt
            | None => SPanic
            end)).
  { intros s2 F2. destruct (_ <? _); [exact F2|].
    destruct (segment_loop _ _ _ _ _ _) as [[[ss' segs'] rem']|]; [|exact I].
    cbn [stR]. eapply skr_trans; [exact F2 | skr_leaf]. }
  destruct pe.
  - apply Hcont. eapply skr_trans; [exact F1|]. destruct (seq_gt _ _); skr_leaf.
  - cbn [stR]. eapply skr_trans; [exact F1 | skr_leaf].
  - apply Hcont. exact F1.
Qed.

Lemma pim_ack_skr : forall (s1 s2 : vsock) h res, pim_ack cci s1 h = Some (s2, res) -> skr s1 s2.
Proof.
  intros s1 s2 h res. unfold pim_ack.
  destruct (remove_up_to_ack _ _ _ _) as [segs1 res0].
  match goal with |- (match ?o with Some _ => _ | None => _ end) = _ -> _ => destruct o as [rtte1|] end; [|discriminate].
  destruct (cc_on_ack cci _ _ _ _) as [cc3|]; [|discriminate].
  destruct (recovery_on_ack cci _ _ _ _ _ _ _) as [[[rec1 segs2] cc4]|]; [|discriminate].
  intro H; injection H as <- _. skr_leaf.
Qed.

(* ================================================================== the transport never answers EMSGSIZE *)
Definition EF (s : vsock) : Prop := VSock_Inv.emsg_free s.

Lemma script_legit_skipn : forall k l, C10_Pred.script_legit l = true -> C10_Pred.script_legit (skipn k l) = true.
Proof.
  unfold C10_Pred.script_legit. induction k as [|k IH]; intros [|x xs] H; cbn [skipn]; auto.
  cbn [forallb] in H. apply andb_true_iff in H. apply IH. tauto.
Qed.

Lemma EF_fpr : forall s s', fpw s s' -> EF s -> EF s'.
Proof.
  intros s s' (_ & _ & _ & _ & E5 & _ & (k & E7) & _) [H1 H2]. unfold EF, VSock_Inv.emsg_free.
  rewrite E5, E7. split; [apply script_legit_skipn; exact H1 | exact H2].
Qed.

Lemma EF_skr : forall s s', skr s s' -> EF s -> EF s'.
Proof.
  intros s s' (_ & _ & _ & _ & E5 & _ & E7) H. unfold EF, VSock_Inv.emsg_free in *. rewrite E5, E7. exact H.
Qed.

(* a transmission: the script is only consumed *)
Lemma send_data_script : forall (s : vsock) h f,
  match send_data s h f with
  | SOk s1 r => v_emsg_limit s1 = v_emsg_limit s /\ (exists k, v_sends s1 = skipn k (v_sends s)) /\
                v_env_now s1 = v_env_now s /\ (EF s -> r <> SdEmsgsize)
  | _ => True
  end.
Proof.
  intros s h f. unfold send_data.
  destruct (_ =? o_max_retx _); [exact I|].
  destruct (_ <? 0); [exact I|].
  destruct (_ <? fs_payload_offset f); [exact I|].
  destruct (_ <? _ + _); [exact I|].
  destruct (next_send s _) as [s1 o] eqn:E.
  destruct (VSock_Inv.next_send_shape _ _ _ _ E) as [Hsh Hne].
  assert (K : v_emsg_limit s1 = v_emsg_limit s /\ (exists k, v_sends s1 = skipn k (v_sends s)) /\
              v_env_now s1 = v_env_now s).
  { destruct Hsh as [[-> _]|(o0 & r & Hs & ->)].
    - repeat split. exists 0%nat. reflexivity.
    - vsimpl_goal. repeat split. exists 1%nat. rewrite Hs. reflexivity. }
  destruct K as (K1 & K2 & K3).
  destruct o; try exact I.
  - cbv zeta. unfold on_packet_sent, emit.
    destruct (seq_gt _ _); [destruct (seq_gt _ _)|]; vsimpl_goal; repeat split; auto; discriminate.
  - vsimpl_goal. repeat split; auto. discriminate.
  - repeat split; auto. intros He _. apply (Hne He). reflexivity.
Qed.

(* ================================================================== every ST_DATA of the poll names a live
   segment of the table: in the table, not delivered, sent, of that payload size, (re)transmitted at this
   poll's clock *)
Definition live_pkt (s : vsock) (p : packet) : Prop :=
  ch_type (p_hdr p) = ST_DATA ->
  exists j g, nth_error (ss_segs (v_segs s)) j = Some g /\
    ch_seq (p_hdr p) = wadd16 (ss_snd_una (v_segs s)) (Z.of_nat j mod M16) /\
    sg_delivered g = false /\ sg_sent g <> NotSent /\
    sg_size g = Z.of_nat (length (p_payload p)) /\ seg_last_sent g = Some (v_now s).

Definition OUT (s : vsock) : Prop := Forall (live_pkt s) (v_out s).
Definition SZ (s : vsock) : Prop := Forall (fun g => 0 <= sg_size g) (ss_segs (v_segs s)).

Lemma nodata_live : forall (s : vsock) p, nodata p -> live_pkt s p.
Proof. intros s p H K. contradiction. Qed.

Lemma OUT_fpr : forall s s', fpw s s' -> OUT s -> OUT s'.
Proof.
  intros s s' (E1 & _ & E3 & _ & _ & _ & _ & l & E8 & E9) H. unfold OUT. rewrite E8.
  apply Forall_app. split.
  - eapply Forall_impl; [|exact E9]. intros p Hp. apply nodata_live. exact Hp.
  - eapply Forall_impl; [|exact H]. intros p Hp. unfold live_pkt. rewrite E1, E3. exact Hp.
Qed.

Lemma nodata_OUT : forall s : vsock, Forall nodata (v_out s) -> OUT s.
Proof. intros s H. unfold OUT. eapply Forall_impl; [|exact H]. intros p Hp. apply nodata_live. exact Hp. Qed.

Lemma seg_inv_SZ : forall s : vsock, seg_inv (v_segs s) -> SZ s.
Proof.
  intros s (_ & _ & Ht & _). unfold SZ. apply Forall_forall. intros g Hg.
  destruct (VSock_Inv.tiled_in _ _ _ Ht Hg) as (_ & _ & H). exact H.
Qed.

(* the invariant of send_tx_queue in the strict regime *)
Definition IO (s : vsock) : Prop :=
  EF s /\ v_restart s = false /\ NW s /\ OUT s /\ SZ s.

Lemma IO_fpr : forall s s', fpw s s' -> IO s -> IO s'.
Proof.
  intros s s' F (H1 & H2 & H3 & H4 & H5).
  pose proof F as (E1 & _ & E3 & E4 & _ & E6 & _).
  split; [eapply EF_fpr; eauto|]. split; [congruence|]. split; [unfold NW in *; congruence|].
  split; [eapply OUT_fpr; eauto|]. unfold SZ. rewrite E1. exact H5.
Qed.

Lemma seg_on_sent_last : forall g now, seg_last_sent (seg_on_sent g now) = Some now.
Proof. intros g now. unfold seg_last_sent, seg_on_sent. cbn [sg_sent]. destruct (sg_sent g); reflexivity. Qed.

Lemma seg_on_sent_sent : forall g now, sg_sent (seg_on_sent g now) <> NotSent.
Proof. intros g now. unfold seg_on_sent. cbn [sg_sent]. destruct (sg_sent g); discriminate. Qed.

Lemma IO_sent : forall (s : vsock) h f s1 n rest,
  IO s -> synced (ss_snd_una (v_segs s)) (ss_segs (v_segs s)) n (f :: rest) ->
  send_data s h f = SOk s1 SdSent -> IO s1.
Proof.
  intros s h f s1 n rest (H1 & H2 & H3 & H4 & H5) (_ & Hn & [Hdl Hsq] & _) E.
  pose proof (send_data_spec s h f) as Hd. rewrite E in Hd.
  pose proof (send_data_script s h f) as Hs. rewrite E in Hs.
  destruct Hd as (Hf & Ho & Hsg & _ & _ & _ & _ & Hoff & Hb).
  destruct Hs as (S1 & (k & S2) & S3 & _).
  assert (Hf' := Hf). destruct Hf' as (_ & _ & _ & _ & _ & _ & F7 & _ & _ & _ & F11 & _).
  assert (Hsz : 0 <= sg_size (fs_seg f)).
  { unfold SZ in H5. rewrite Forall_forall in H5. apply H5. eapply nth_error_In; exact Hn. }
  split; [destruct H1 as [L1 L2]; unfold EF, VSock_Inv.emsg_free; rewrite S1, S2; split;
          [apply script_legit_skipn; exact L1 | exact L2]|].
  split; [congruence|]. split; [unfold NW in *; congruence|].
  split.
  - unfold OUT. rewrite Ho. constructor.
    + intros _. exists (fs_idx f), (seg_on_sent (fs_seg f) (v_now s)).
      rewrite Hsg, F7. unfold on_sent, Segments.set_segs. cbn [ss_segs ss_snd_una].
      split; [rewrite nth_error_update_nth, Nat.eqb_refl, Hn; reflexivity|].
      split; [exact Hsq|]. split; [exact Hdl|]. split; [apply seg_on_sent_sent|].
      split; [|apply seg_on_sent_last].
      unfold data_pkt, data_payload, seg_on_sent. cbn [p_payload sg_size].
      rewrite firstn_length, skipn_length. lia.
    + eapply Forall_impl; [|exact H4]. intros p Hp Ht. destruct (Hp Ht) as (j & g & A1 & A2 & A3 & A4 & A5 & A6).
      rewrite Hsg, F7. unfold on_sent, Segments.set_segs. cbn [ss_segs ss_snd_una].
      destruct (Nat.eqb_spec (fs_idx f) j) as [Ej|Ej].
      * exists j, (seg_on_sent g (v_now s)).
        split; [rewrite nth_error_update_nth; subst j; rewrite Nat.eqb_refl, A1; reflexivity|].
        split; [exact A2|]. split; [exact A3|]. split; [apply seg_on_sent_sent|].
        split; [exact A5 | apply seg_on_sent_last].
      * exists j, g. split; [rewrite nth_error_update_nth|]; auto.
        destruct (Nat.eqb_spec (fs_idx f) j); [contradiction | exact A1].
  - unfold SZ. rewrite Hsg. unfold on_sent, Segments.set_segs. cbn [ss_segs].
    apply Forall_update_nth; [exact H5|]. intros x Hx. unfold SZ in H5. rewrite Forall_forall in H5.
    apply (H5 x). eapply nth_error_In; exact Hx.
Qed.

Lemma stq_IO : forall s : vsock, IO s -> stI IO (fun _ _ => True) (send_tx_queue cci s).
Proof.
  intros s Hi. apply (send_tx_queue_rule IO (fun _ => False) (fun _ _ => True)); try exact Hi; auto.
  - exact IO_fpr.
  - intros a h f a1 (K & _) E. pose proof (send_data_script a h f) as Hs. rewrite E in Hs.
    destruct Hs as (_ & _ & _ & Hs). apply (Hs K). reflexivity.
  - exact IO_sent.
  - intros a segs' q ss' [].
Qed.

(* the stage before send_tx_queue *)
Definition IA (s : vsock) : Prop :=
  EF s /\ v_restart s = false /\ NW s /\ Forall nodata (v_out s).

Lemma IA_fpr : forall s s', fpr s s' -> IA s -> IA s'.
Proof.
  intros s s' F0 (H1 & H2 & H3 & H4). pose proof (fpr_fpw _ _ F0) as F.
  pose proof F as (_ & _ & E3 & E4 & _ & E6 & _ & l & E8 & E9).
  split; [eapply EF_fpr; eauto|]. split; [congruence|]. split; [unfold NW in *; congruence|].
  rewrite E8. apply Forall_app. split; assumption.
Qed.

Lemma IA_skr : forall s s', skr s s' -> IA s -> IA s'.
Proof.
  intros s s' K (H1 & H2 & H3 & H4). pose proof K as (E1 & _ & E3 & E4 & _ & E6 & _).
  split; [eapply EF_skr; eauto|]. split; [congruence|]. split; [unfold NW in *; congruence|].
  rewrite E1. exact H4.
Qed.

Lemma pim_IA : forall s : vsock, IA s -> spI IA (process_all_incoming_messages cci s).
Proof.
  intros s Hi. apply pim_rule; try exact Hi.
  - exact IA_fpr.
  - intros a l K. eapply IA_skr; [|exact K]. skr_leaf.
  - intros a c tr ti K. eapply IA_skr; [|exact K]. skr_leaf.
  - intros s1 s2 h res K E. eapply IA_skr; [eapply pim_ack_skr; exact E | exact K].
  - intros s3 rc hd rtt now segs' p recalc K _ _. eapply IA_skr; [|exact K]. unfold set_recovering. skr_leaf.
Qed.

(* the whole poll in the strict regime: NW and OUT at every Pending exit *)
Theorem poll_OUT_strict : forall (s s' : vsock),
  LB 0 s -> EF s -> poll cci s = (s', PollPending) -> NW s' /\ OUT s'.
Proof.
  intros s s' HL HE H.
  set (A0 := fun a : vsock => LB 0 a /\ EF a /\ v_out a = []).
  set (A := fun a : vsock => LB 0 a /\ IA a).
  set (Cc := fun a : vsock => NW a /\ OUT a).
  assert (HA_Cc : forall a, IA a -> Cc a).
  { intros a (_ & _ & K3 & K4). split; [exact K3 | apply nodata_OUT; exact K4]. }
  assert (Hsfp : forall X (a : vsock) (m : step X), A a -> sfp a m -> skp a m ->
             stH Cc (fun _ _ => True) A m).
  { intros X a m [L K] F S. destruct m as [a' x|a' e|]; cbn [sfp skp stH] in *; auto.
    assert (K' : IA a') by (eapply IA_fpr; eauto).
    split; intros _; [apply HA_Cc; exact K' | split; [eapply LB_kp; eauto | exact K']]. }
  assert (Hcfp : forall X (a : vsock) (m : step X), Cc a -> sfp a m -> stH Cc (fun _ _ => True) Cc m).
  { intros X a m [K1 K2] F. destruct m as [a' x|a' e|]; cbn [sfp stH] in *; auto.
    assert (K' : Cc a').
    { pose proof F as (_ & _ & E3 & E4 & _). split; [unfold NW in *; congruence|].
      eapply OUT_fpr; [apply fpr_fpw; exact F | exact K2]. }
    split; intros _; exact K'. }
  assert (HR : resH A0 Cc Cc (fun _ _ => True) s' PollPending).
  { apply (poll_H A0 A A A Cc Cc Cc (fun _ _ => True)) with (s := s); try exact H.
    - intros a (L & E & O). split; [eapply LB_kp; [exact L|]; unfold kp; auto|].
      split; [exact E|]. split; [reflexivity|]. split; [reflexivity|].
      change (v_out (poll_start a)) with (v_out a). rewrite O. constructor.
    - intros a K _. apply (Hsfp _ a); [exact K | apply maybe_send_syn_ack_fpr | apply maybe_send_syn_ack_kp].
    - intros a K _. apply (Hsfp _ a); [exact K | apply send_ack_fpr | apply send_ack_kp].
    - intros a [L K] _. pose proof (process_all_LB cci a L) as PL. pose proof (pim_IA a K) as PI.
      destruct (process_all_incoming_messages cci a) as [a' x|a' e|]; cbn [sLB spI stH] in *; auto.
      split; intros _; [apply HA_Cc; exact PI | split; assumption].
    - intros a rx1 fb w [L K] _ _. split; [eapply LB_kp; [exact L|]; unfold kp, add_wakes; auto|].
      eapply IA_fpr; [|exact K]. unfold add_wakes. fpr_leaf.
    - auto.
    - intros a [L K] _. pose proof (split_LB cci a L) as PL. pose proof (split_skr a) as PS.
      destruct (split_tx_queue_into_segments cci a) as [a' x|a' e|]; cbn [sLB stR stB] in *; auto.
      split; [exact PL | eapply IA_skr; eauto].
    - intros a [L (K1 & K2 & K3 & K4)] _ _.
      assert (Hio : IO a).
      { split; [exact K1|]. split; [exact K2|]. split; [exact K3|]. split; [apply nodata_OUT; exact K4|].
        apply seg_inv_SZ. apply L. }
      pose proof (stq_IO a Hio) as S.
      destruct (send_tx_queue cci a) as [a' x|a' e|]; cbn [stI stQ] in *; auto.
      destruct S as (S1 & S2 & S3 & S4 & S5).
      split; [intro R; congruence|]. split; intros _ _; split; assumption.
    - intros a [K1 K2] _. pose proof (transition_fpr a) as F. pose proof F as (_ & _ & E3 & E4 & _).
      split; [unfold NW in *; congruence | eapply OUT_fpr; [apply fpr_fpw; exact F | exact K2]].
    - intros a K _. apply (Hcfp _ a); [exact K | apply maybe_send_fin_fpr].
    - intros a K _. apply (Hcfp _ a); [exact K | apply maybe_send_ack_fpr].
    - split; [eapply LB_kp; [exact HL|]; unfold kp; auto|]. split; [exact HE | reflexivity]. }
  cbn [resH] in HR. destruct HR as [[_ K]|(sb & [K1 K2] & _ & _ & _ & ->)]; [exact K|].
  pose proof (poll_tail_fpr sb) as F. pose proof F as (_ & _ & E3 & E4 & _).
  split; [unfold NW in *; congruence | eapply OUT_fpr; [apply fpr_fpw; exact F | exact K2]].
Qed.

(* ================================================================== the joint relation of ring and table,
   after every Pending poll:  bytes truncated from the ring = bytes the table dropped as acknowledged,
   and bytes truncated + bytes in the ring = bytes ever accepted from the writer *)
Definition JQ (s : vsock) : Prop := g_removed (v_tx s) = ss_removed (v_segs s).
Definition TW (s : vsock) : Z := g_removed (v_tx s) + Z.of_nat (length (ring (v_tx s))).
Definition JI (w : Z) (s : vsock) : Prop := LB 0 s /\ JQ s /\ TW s = w.

(* the numbers JQ and TW read are untouched *)
Definition jq (s s' : vsock) : Prop :=
  g_removed (v_tx s') = g_removed (v_tx s) /\ ring (v_tx s') = ring (v_tx s) /\
  ss_removed (v_segs s') = ss_removed (v_segs s).
Lemma jq_refl : forall s, jq s s. Proof. intro s. repeat split; reflexivity. Qed.
Lemma jq_trans : forall a b c, jq a b -> jq b c -> jq a c.
Proof. unfold jq. intros a b c (A1 & A2 & A3) (B1 & B2 & B3). repeat split; congruence. Qed.
Lemma JQ_jq : forall s s', jq s s' -> JQ s -> JQ s'.
Proof. unfold jq, JQ. intros s s' (A1 & A2 & A3) H. congruence. Qed.
Lemma TW_jq : forall s s', jq s s' -> TW s' = TW s.
Proof. unfold jq, TW. intros s s' (A1 & A2 & A3). rewrite A1, A2. reflexivity. Qed.

Lemma txf_kp_jq : forall A (s : vsock) (m : step A), stR txf s m -> skp s m -> stR jq s m.
Proof.
  intros A s m H K. destruct m as [s' a|s' e|]; cbn [stR skp] in *; auto.
  - destruct H as (_ & Ht & _). destruct K as (Ks & _). unfold jq. rewrite Ht, Ks. auto.
  - destruct H as (_ & Ht & _). destruct K as (Ks & _). unfold jq. rewrite Ht, Ks. auto.
Qed.

Lemma pop_mtu_probe_removed : forall t q t' b, pop_mtu_probe t q = (t', b) -> ss_removed t' = ss_removed t.
Proof.
  intros t q t' b. unfold pop_mtu_probe.
  destruct (last_and_init (ss_segs t)) as [[init g]|]; [destruct (_ && _)|]; intro H; injection H as <- _;
    reflexivity.
Qed.

Lemma pop_expired_removed : forall t to mr t' pe,
  pop_expired_mtu_probe t to mr = (t', pe) -> ss_removed t' = ss_removed t.
Proof.
  intros t to mr t' pe. unfold pop_expired_mtu_probe.
  destruct (last_and_init (ss_segs t)) as [[init g]|]; [|intro H; injection H as <- _; reflexivity].
  destruct (sg_delivered g); [intro H; injection H as <- _; reflexivity|].
  destruct (_ && _ && _); [intro H; injection H as <- _; reflexivity|].
  destruct (sg_probe g); intro H; injection H as <- _; reflexivity.
Qed.

Lemma segment_loop_removed : forall fuel nagle ss segs rem rwr ss' segs' rem',
  segment_loop fuel nagle ss segs rem rwr = Some (ss', segs', rem') -> ss_removed segs' = ss_removed segs.
Proof.
  induction fuel as [|x fuel IH]; intros nagle ss segs rem rwr ss' segs' rem' H; cbn [segment_loop] in H.
  - inversion H; reflexivity.
  - destruct (_ && _); [|inversion H; reflexivity].
    destruct (next_segment_size ss) as [[ss1 sz]|] eqn:E; [|discriminate].
    destruct (_ && _ && _); [inversion H; subst; reflexivity|].
    destruct (mss ss1 <? _); [inversion H; subst; reflexivity|].
    apply IH in H. rewrite H. reflexivity.
Qed.

Lemma stq_jq : forall s : vsock, stR jq s (send_tx_queue cci s).
Proof.
  intro s. pose proof (send_tx_queue_txf cci s) as T.
  pose proof (send_tx_queue_sgp Z ss_removed (fun _ _ _ => eq_refl) pop_mtu_probe_removed s) as G.
  destruct (send_tx_queue cci s) as [s' a|s' e|]; cbn [stR] in *; auto.
  - destruct T as (_ & Ht & _). unfold jq. rewrite Ht. repeat split; try reflexivity; exact G.
  - destruct T as (_ & Ht & _). unfold jq. rewrite Ht. repeat split; try reflexivity; exact G.
Qed.

Lemma split_jq : forall s : vsock, stR jq s (split_tx_queue_into_segments cci s).
Proof.
  intros s. unfold split_tx_queue_into_segments.
  destruct (_ =? 0).
  { cbn [stR]. unfold jq, register_dispatcher_if_empty. destruct (ring (v_tx s)) eqn:Er; vsimpl_goal;
      cbn [ring g_removed upd]; rewrite ?Er; repeat split; reflexivity. }
  match goal with |- context [is_remote_fin_or_later (v_state ?x)] => set (s1 := x) end.
  assert (F1 : jq s s1).
  { subst s1. destruct (_ && _); [|apply jq_refl].
    unfold grow. destruct (_ <=? _); cbn [fst snd]; unfold wake_writer, add_wakes, jq; vsimpl_goal;
      cbn [ring g_removed upd]; repeat split; reflexivity. }
  clearbody s1.
  destruct (is_remote_fin_or_later _); [exact F1|].
  destruct (pop_expired_mtu_probe _ _ _) as [segs1 pe] eqn:Ep.
  apply pop_expired_removed in Ep.
  assert (Hcont : forall s2 : vsock, jq s s2 ->
    stR jq s
      (if Z.of_nat (length (ring (v_tx s))) <? ss_len_bytes (v_segs s2)
       then SErr s2 (ErrBug BugInBufferComputations)
       else match segment_loop (ring (v_tx s2)) (o_nagle (v_opts s2)) (v_ss s2) (v_segs s2)
                    (Z.of_nat (length (ring (v_tx s))) - ss_len_bytes (v_segs s2))
                    (v_last_remote_window s2) with
            | Some (ss', segs', remaining) =>
                SOk (set_unsegmented (VSockRec.set_segs (set_ss s2 ss') segs') remaining) tt
            | None => SPanic
            end)).
  { intros s2 F2. destruct (_ <? _); [exact F2|].
    destruct (segment_loop _ _ _ _ _ _) as [[[ss' segs'] rem']|] eqn:E; [|exact I].
    apply segment_loop_removed in E. cbn [stR]. eapply jq_trans; [exact F2|].
    unfold jq. vsimpl_goal. repeat split; try reflexivity; exact E. }
  destruct pe.
  - apply Hcont. eapply jq_trans; [exact F1|].
    destruct (seq_gt _ _); unfold jq; vsimpl_goal; repeat split; try reflexivity; exact Ep.
  - cbn [stR]. eapply jq_trans; [exact F1|]. unfold jq. vsimpl_goal. repeat split; reflexivity.
  - apply Hcont. exact F1.
Qed.

(* JI through every function of a poll (the states that matter: SOk) *)
Definition jiR (w : Z) (s s' : vsock) : Prop := JI w s -> JI w s'.
Lemma jiR_refl : forall w s, jiR w s s. Proof. intros w s H; exact H. Qed.
Lemma jiR_trans : forall w a b c, jiR w a b -> jiR w b c -> jiR w a c.
Proof. intros w a b c H1 H2 H. auto. Qed.

Lemma jiR_of : forall w A (s : vsock) (m : step A),
  (LB 0 s -> sLB 0 m) -> stR jq s m -> stRk (jiR w) s m.
Proof.
  intros w A s m HL HJ. destruct m as [s' a|s' e|]; cbn [stRk stR sLB] in *; auto.
  intros (L & Q & T). split; [apply HL; exact L|]. split; [eapply JQ_jq; eauto|].
  rewrite (TW_jq _ _ HJ). exact T.
Qed.

Lemma JI_joint : forall w (s : vsock), JI w s -> joint_rel 0 s.
Proof.
  intros w s ((A & B & C & D) & Q & _). unfold joint_rel, JQ in *.
  split; [exact A|]. split; [lia|]. rewrite (seg_len_eq _ A) in D. lia.
Qed.

Lemma paim_rest_TW : forall (s1 : vsock) r s' u,
  0 <= ar_acked_bytes r -> paim_rest s1 r = SOk s' u -> TW s' = TW s1.
Proof.
  intros s1 r s' u Hr. unfold paim_rest.
  match goal with |- sbind ?m _ = _ -> _ =>
    match m with context [acked_counts_as_sent ?x] => set (s2 := x) end end.
  assert (F2 : v_tx s2 = v_tx s1).
  { subst s2. unfold restart_remote_inactivity_timer. repeat break_match; reflexivity. }
  clearbody s2.
  assert (Hfin : forall s3 : vsock, TW s3 = TW s1 ->
    (match rv_phase (v_recovery s3) with
     | Recovering rc =>
         match calc_pipe (v_segs s3) (rc_high_rxt rc) (v_last_sent_seq_nr s3)
                         (roundtrip_time (v_rtte s3)) (v_now s3) with
         | None => SPanic
         | Some (segs', pipe, recalc) =>
             SOk (set_recovering (VSockRec.set_segs s3 segs')
                    {| rc_recovery_point := rc_recovery_point rc; rc_high_rxt := rc_high_rxt rc;
                       rc_total_retx := rc_total_retx rc; rc_pipe := pipe; rc_recalc := recalc;
                       rc_cwnd := rc_cwnd rc |}) tt
         end
     | _ => SOk s3 tt
     end) = SOk s' u -> TW s' = TW s1).
  { intros s3 H3. destruct (rv_phase (v_recovery s3)); try (intro H; inversion H; subst; exact H3).
    destruct (calc_pipe _ _ _ _ _) as [[[sg pp] rcl]|]; [|discriminate].
    intro H; inversion H; subst. exact H3. }
  destruct (0 <? ar_acked_segments r).
  - assert (F2' : v_tx (acked_counts_as_sent s2) = v_tx s1).
    { unfold acked_counts_as_sent. destruct (seq_gt _ _ && seq_lt _ _); exact F2. }
    revert F2'. generalize (acked_counts_as_sent s2). intros s2' F2'.
    unfold truncate_front. cbv zeta.
    destruct (_ =? _); [|discriminate].
    unfold wake_writer. cbn [sbind]. apply Hfin.
    unfold TW, add_wakes. vsimpl_goal. cbn [ring g_removed upd]. rewrite F2', skipn_length.
    pose proof (Zle_0_nat (length (ring (v_tx s1)))). lia.
  - cbn [sbind]. apply Hfin. unfold TW. rewrite F2. reflexivity.
Qed.

Lemma pim_jiR : forall w (s : vsock), stRk (jiR w) s (process_all_incoming_messages cci s).
Proof.
  intros w s.
  pose proof (process_all_LB cci s) as HL.
  destruct (process_all_incoming_messages cci s) as [s' u|s' e|] eqn:E; cbn [stRk]; auto.
  intros HJ. pose proof (JI_joint w s HJ) as J0. destruct HJ as (L & Q & T). split; [exact (HL L)|].
  pose proof E as E2. rewrite paim_eq in E2.
  unfold process_all_incoming_messages in E.
  destruct (recv_loop cci (v_inbox s ++ [ {| m_hdr := outgoing_header s; m_payload := [] |} ]) s
              on_ack_result_default) as [s1 [r early]|s1 e1|] eqn:El; cbn [sbind] in E, E2; try discriminate.
  pose proof (joint_inv_process_all cci s s1 r early J0 El) as K.
  unfold process_all_incoming_messages in K. rewrite El in K. cbn [sbind] in K. rewrite E in K.
  destruct K as (_ & K & _). split; [unfold JQ; lia|].
  assert (J0' : joint_rel (ar_acked_bytes on_ack_result_default) s) by exact J0.
  destruct (recv_loop_joint cci _ _ _ _ _ _ acc_ok_default J0' El) as ((_ & Hb & _) & _).
  cbn [fst] in E2. rewrite (paim_rest_TW s1 r s' u Hb E2).
  assert (Hl : step_st (recv_loop cci (v_inbox s ++ [ {| m_hdr := outgoing_header s; m_payload := [] |} ]) s
              on_ack_result_default) = Some s1) by (rewrite El; reflexivity).
  apply VSock_LemmasIn.recv_loop_frame in Hl. destruct Hl as (_ & _ & _ & L4 & _ & L6).
  unfold TW. rewrite L4, L6. exact T.
Qed.

Lemma send_ack_jq : forall s : vsock, stR jq s (send_ack s).
Proof. intro s. apply txf_kp_jq; [apply send_ack_txf | apply send_ack_kp]. Qed.

Lemma maybe_send_syn_ack_jq : forall s : vsock, stR jq s (maybe_send_syn_ack s).
Proof.
  intros s. unfold maybe_send_syn_ack.
  assert (G : forall c, stR jq s
     (if c =? o_max_retx (v_opts s) then SErr s ErrMaxSynAckRetransmissionsReached
      else sbind (send_ack s) (fun s1 sent =>
        if sent then SOk (set_t_syn_ack_resend (set_state s1 (SynAckSent (c + 1)))
               (timer_arm (v_t_syn_ack_resend s1) (v_now s1) SYNACK_RESEND_INTERNAL true)) tt
        else SOk s1 tt))).
  { intros c. destruct (_ =? _); [apply jq_refl|].
    apply (stR_sbind jq jq_trans); [apply send_ack_jq|].
    intros s1 [|]; cbn [stR]; [repeat split; reflexivity | apply jq_refl]. }
  destruct (v_state s); try (cbn [stR]; repeat split; reflexivity).
  - apply G.
  - destruct (timer_expired _ _); [apply G | apply jq_refl].
Qed.

Theorem poll_JI : forall w (s s' : vsock),
  JI w s -> poll cci s = (s', PollPending) -> JI w s'.
Proof.
  intros w s s' HJ H.
  assert (Hp : pend_shape (jiR w) (poll_init s) s').
  { apply (poll_Rp cci (jiR w) (jiR_refl w) (jiR_trans w)); try exact H.
    - intros a K. exact K.
    - intro a. apply jiR_of; [intro L; apply (skp_sLB 0 a); [exact L | apply maybe_send_syn_ack_kp]|].
      apply maybe_send_syn_ack_jq.
    - intro a. apply jiR_of; [intro L; apply (skp_sLB 0 a); [exact L | apply send_ack_kp]|].
      apply send_ack_jq.
    - apply pim_jiR.
    - intros a rx1 fb w0 _ K. exact K.
    - intro a. apply jiR_of; [apply split_LB | apply split_jq].
    - intro a. apply jiR_of; [apply send_tx_queue_LB | apply stq_jq].
    - intros a (L & Q & T). split; [eapply LB_kp; [exact L | apply transition_kp]|].
      assert (K : jq a (transition_to_fin_wait_1 a))
        by (unfold jq, transition_to_fin_wait_1; destruct (v_state a); repeat split; reflexivity).
      split; [eapply JQ_jq; eauto | rewrite (TW_jq _ _ K); exact T].
    - intro a. apply jiR_of; [intro L; apply (skp_sLB 0 a); [exact L | apply maybe_send_fin_kp]|].
      apply txf_kp_jq; [apply maybe_send_fin_txf | apply maybe_send_fin_kp].
    - intro a. apply jiR_of; [intro L; apply (skp_sLB 0 a); [exact L | apply maybe_send_ack_kp]|].
      apply txf_kp_jq; [apply maybe_send_ack_txf | apply maybe_send_ack_kp]. }
  assert (H0 : JI w (poll_init s)) by exact HJ.
  destruct Hp as [[_ R]|(sa & sb & b & R1 & _ & R2 & _ & _ & _ & ->)].
  - exact (R H0).
  - specialize (R2 (R1 H0)). destruct R2 as (L & Q & T).
    destruct (poll_tail_fields sb) as (_ & F2 & _ & _ & _ & _ & _ & _ & _ & _ & _ & _ & F13 & _ & _ & F16 & _).
    split; [eapply LB_kp; [exact L|]; unfold kp; rewrite F13, F2, F16; auto|].
    unfold JQ, TW in *. rewrite F13, F16. auto.
Qed.

End WithCC.

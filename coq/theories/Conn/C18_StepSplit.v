(* C18 at the level of a whole poll — the segmentation loop and split_tx_queue_into_segments:
   what they do to the table invariants (TIt, Tab), the Nagle walk of the appended segments,
   exhaustion with Nagle off, the first segment on an empty table. *)
From Utp Require Import Base.Prelude Wire.SeqNr Wire.Header Rtt.Rtte Mtu.SegSizes
  Rx.Rx Tx.Ring Tx.Segments Tx.Segments_Proofs Conn.Recovery Conn.Msg Conn.VSockRec Conn.VSock
  Conn.VSockRun Conn.VObs Conn.VSock_Lemmas Conn.VSock_LemmasStep Conn.VSock_LemmasReach
  Conn.C18_Pred Conn.C18_Proofs Conn.C18_StepLemmas Conn.C18_StepRel.

(* ================================================================== the loop *)
(* the payload of every iteration is positive *)
Lemma payload_pos : forall ss ss1 sz rem rwr,
  next_segment_size ss = Some (ss1, sz) -> 1 <= mss ss -> 0 < rem -> 0 < rwr ->
  0 < Z.min (Z.min sz rwr) rem.
Proof. intros ss ss1 sz rem rwr N M R W. pose proof (next_segment_size_ge_mss _ _ _ N). lia. Qed.

(* any predicate of the table kept by enqueue (positive size) is kept by the loop *)
Lemma segment_loop_keeps (P : segments -> Prop) :
  (forall t p b, 0 < p -> P t -> P (enqueue t p b)) ->
  forall fuel nagle ss t rem rwr ss' t' rem',
  segment_loop fuel nagle ss t rem rwr = Some (ss', t', rem') -> 1 <= mss ss -> P t -> P t'.
Proof.
  intros HP. induction fuel as [|x fuel IH]; intros nagle ss t rem rwr ss' t' rem' H M Pt;
    cbn [segment_loop] in H.
  - inversion H; subst. exact Pt.
  - destruct (0 <? rem) eqn:R; [|inversion H; subst; exact Pt].
    destruct (0 <? rwr) eqn:W; [|inversion H; subst; exact Pt]. cbn [andb] in H.
    destruct (next_segment_size ss) as [[ss1 sz]|] eqn:N; [|discriminate].
    pose proof (payload_pos _ _ _ rem rwr N M ltac:(lia) ltac:(lia)) as Pp.
    pose proof (mss_next_segment_size _ _ _ N) as M1.
    destruct (_ && _ && _); [inversion H; subst; exact Pt|].
    destruct (mss ss1 <? _).
    + inversion H; subst. apply HP; assumption.
    + eapply IH; [exact H | lia | apply HP; assumption].
Qed.

Lemma segment_loop_TIt : forall fuel nagle ss t rem rwr ss' t' rem',
  segment_loop fuel nagle ss t rem rwr = Some (ss', t', rem') -> 1 <= mss ss -> TIt t -> TIt t'.
Proof. apply (segment_loop_keeps TIt). intros. apply TIt_enqueue; assumption. Qed.

Lemma segment_loop_Tab off0 : forall fuel nagle ss t rem rwr ss' t' rem',
  segment_loop fuel nagle ss t rem rwr = Some (ss', t', rem') -> 1 <= mss ss -> Tab off0 t -> Tab off0 t'.
Proof. apply (segment_loop_keeps (Tab off0)). intros. apply Tab_enqueue; assumption. Qed.

(* ---- the Nagle walk of what the loop appends ---- *)
Lemma c18_walk_app off m w : forall l1 l2 prev,
  c18_walk off m w prev (l1 ++ l2) = c18_walk off m w prev l1 && c18_walk off m w (prev || nonempty l1) l2.
Proof.
  induction l1 as [|g l1 IH]; intros l2 prev; cbn [app c18_walk nonempty].
  - rewrite orb_false_r. reflexivity.
  - rewrite IH. cbn [orb]. rewrite orb_true_r.
    destruct l1; cbn [nonempty c18_walk]; rewrite ?andb_true_r, <- ?andb_assoc; reflexivity.
Qed.

Lemma walk_app_mono m : forall log w w' acc prev,
  w <= w' -> walk_app m w' acc prev log = true -> walk_app m w acc prev log = true.
Proof.
  induction log as [|e rest IH]; intros w w' acc prev L H; [reflexivity|].
  cbn [walk_app] in *. apply andb_prop in H. destruct H as [H1 H2]. apply andb_true_intro. split.
  - destruct prev; [|reflexivity]. lia.
  - eapply IH; eauto.
Qed.

Lemma nonempty_map {A B} (f : A -> B) l : nonempty (map f l) = nonempty l.
Proof. destruct l; reflexivity. Qed.

Lemma segment_loop_walk off0 m0 w : forall fuel ss t rem ss' t' rem',
  segment_loop fuel true ss t rem w = Some (ss', t', rem') ->
  m0 <= mss ss -> off0 <= ss_offset t ->
  c18_walk off0 m0 w false (map fseg_of (ss_segs t)) = true ->
  c18_walk off0 m0 w false (map fseg_of (ss_segs t')) = true.
Proof.
  intros fuel ss t rem ss' t' rem' H M O Wk.
  destruct (segment_loop_log _ _ _ _ _ _ _ _ _ H) as (L1 & _).
  rewrite L1, map_app, c18_walk_app, Wk. cbn [andb orb]. rewrite nonempty_map.
  replace (ss_offset t) with (off0 + (ss_offset t - off0)) by lia.
  apply walk_app_segs.
  apply (walk_app_mono m0 _ w (w + (ss_offset t - off0))); [lia|].
  apply seg_log_walk; lia.
Qed.

(* ---- Nagle off: the loop stops only when nothing is left, the window is used up, or it has
   just cut an MTU probe ---- *)
Lemma lastok_enqueue_probe t p : ~ lastok (ss_segs (enqueue t p true)).
Proof.
  unfold enqueue, Segments.set_segs; cbn [ss_segs]. intro L. apply lastok_app_last in L.
  unfold upr in L. cbn [sg_probe sg_delivered] in L. discriminate.
Qed.

Lemma segment_loop_off : forall fuel ss t rem rwr ss' t' rem',
  segment_loop fuel false ss t rem rwr = Some (ss', t', rem') ->
  1 <= mss ss -> 0 <= rem <= Z.of_nat (length fuel) ->
  0 <= rem' /\ ss_offset t' - ss_offset t = rem - rem' /\
  (rem' = 0 \/ rwr <= ss_offset t' - ss_offset t \/ ~ lastok (ss_segs t')).
Proof.
  induction fuel as [|x fuel IH]; intros ss t rem rwr ss' t' rem' H M R; cbn [segment_loop] in H.
  - inversion H; subst. cbn [length] in R. split; [lia|]. split; [lia|]. left. lia.
  - destruct (0 <? rem) eqn:Rp.
    2:{ inversion H; subst. split; [lia|]. split; [lia|]. left. lia. }
    destruct (0 <? rwr) eqn:W.
    2:{ inversion H; subst. split; [lia|]. split; [lia|]. right; left. lia. }
    cbn [andb] in H.
    destruct (next_segment_size ss) as [[ss1 sz]|] eqn:N; [|discriminate].
    pose proof (payload_pos _ _ _ rem rwr N M ltac:(lia) ltac:(lia)) as Pp.
    pose proof (mss_next_segment_size _ _ _ N) as M1.
    cbn [andb] in H.
    destruct (mss ss1 <? _).
    + inversion H; subst. rewrite enqueue_offset. split; [lia|]. split; [lia|].
      right; right. apply lastok_enqueue_probe.
    + apply IH in H; [|lia|cbn [length] in R; lia].
      rewrite enqueue_offset in H. destruct H as (H1 & H2 & H3).
      split; [exact H1|]. split; [lia|].
      destruct H3 as [H3|[H3|H3]]; [left; exact H3 | right; left; lia | right; right; exact H3].
Qed.

(* ---- on an empty table the first segment is always cut ---- *)
Lemma segment_loop_first : forall fuel nagle ss t rem rwr ss' t' rem',
  segment_loop fuel nagle ss t rem rwr = Some (ss', t', rem') ->
  fuel <> [] -> ss_segs t' = [] -> (rem <= 0 \/ rwr <= 0) /\ t' = t.
Proof.
  intros fuel nagle ss t rem rwr ss' t' rem' H F E.
  destruct fuel as [|x fuel]; [congruence|].
  pose proof (segment_loop_log _ _ _ _ _ _ _ _ _ H) as (L1 & _).
  rewrite E in L1. symmetry in L1. apply app_eq_nil in L1. destruct L1 as [E0 L1].
  cbn [segment_loop seg_log] in *.
  destruct (0 <? rem) eqn:R; [|inversion H; subst; split; [lia|reflexivity]].
  destruct (0 <? rwr) eqn:W; [|inversion H; subst; split; [lia|reflexivity]].
  exfalso. cbn [andb] in *.
  destruct (next_segment_size ss) as [[ss1 sz]|]; [|discriminate].
  rewrite E0 in L1. rewrite !andb_false_r in L1.
  destruct (mss ss1 <? _); cbn [segs_of_log] in L1; discriminate.
Qed.

(* ================================================================== split_tx_queue_into_segments *)
Section WithCC.
Context {CC : Type} (cci : cc_iface CC).
Notation vsock := (vsock CC).

(* what the segmentation never touches (it may grow the ring's capacity and wake the writer) *)
Definition sr (s s' : vsock) : Prop :=
  v_last_remote_window s' = v_last_remote_window s /\ v_inbox s' = v_inbox s /\ v_opts s' = v_opts s /\
  v_restart s' = v_restart s /\ ring (v_tx s') = ring (v_tx s) /\ v_state s' = v_state s.

Lemma sr_refl s : sr s s.
Proof. repeat split. Qed.
Lemma sr_trans a b c : sr a b -> sr b c -> sr a c.
Proof. intros (A1 & A2 & A3 & A4 & A5 & A6) (B1 & B2 & B3 & B4 & B5 & B6). repeat split; congruence. Qed.

(* the table and the segment sizes the loop starts from *)
Definition pre2 (t : segments) (ss : segsizes) (t2 : segments) (ss2 : segsizes) : Prop :=
  mss ss2 = mss ss /\ ((t2 = t /\ ss2 = ss) \/ tpop t t2).

Ltac sr_leaf := unfold sr; repeat split; exact eq_refl.

Lemma split_spec : forall s : vsock,
  match split_tx_queue_into_segments cci s with
  | SPanic => True
  | SErr s' _ => sr s s' /\ v_unsegmented s' = v_unsegmented s /\
                 pre2 (v_segs s) (v_ss s) (v_segs s') (v_ss s')
  | SOk s' _ =>
      sr s s' /\
      ((v_segs s' = v_segs s /\ v_ss s' = v_ss s /\ v_unsegmented s' = v_unsegmented s /\
        (ring (v_tx s) = [] \/ is_remote_fin_or_later (v_state s) = true))
       \/ (v_segs s' = v_segs s /\ v_ss s' = v_ss s /\ ~ lastok (ss_segs (v_segs s)))
       \/ (exists t2 ss2, pre2 (v_segs s) (v_ss s) t2 ss2 /\ ring (v_tx s) <> [] /\
             is_remote_fin_or_later (v_state s) = false /\
             ss_len_bytes t2 <= Z.of_nat (length (ring (v_tx s))) /\
             segment_loop (ring (v_tx s)) (o_nagle (v_opts s)) ss2 t2
               (Z.of_nat (length (ring (v_tx s))) - ss_len_bytes t2) (v_last_remote_window s)
             = Some (v_ss s', v_segs s', v_unsegmented s')))
  end.
Proof.
  intros s. unfold split_tx_queue_into_segments.
  destruct (_ =? 0) eqn:Z0.
  { assert (Er : ring (v_tx s) = []).
    { destruct (ring (v_tx s)) as [|z l]; [reflexivity|exfalso; cbn [length] in Z0; lia]. }
    split.
    - unfold sr, register_dispatcher_if_empty. cbn [v_tx set_tx v_last_remote_window v_inbox v_opts v_restart v_state].
      repeat split. rewrite Er. reflexivity.
    - left. repeat split; try exact eq_refl. left. exact Er. }
  assert (Rne : ring (v_tx s) <> []) by (intro E; rewrite E in Z0; cbn [length] in Z0; lia).
  match goal with |- context [is_remote_fin_or_later (v_state ?x)] =>
    assert (F1 : sr s x /\ v_segs x = v_segs s /\ v_ss x = v_ss s /\ v_unsegmented x = v_unsegmented s /\
                 v_t_retransmit x = v_t_retransmit s /\ v_now x = v_now s /\ v_rtte x = v_rtte s /\
                 v_last_sent_seq_nr x = v_last_sent_seq_nr s);
    [|revert F1; generalize x; intros s1 F1] end.
  { destruct (_ && _); [|split; [apply sr_refl|repeat split]].
    unfold grow. destruct (_ <=? cap _); [split; [sr_leaf|repeat split; exact eq_refl]|].
    cbn [wake_writer]. unfold add_wakes. split; [sr_leaf|repeat split; exact eq_refl]. }
  destruct F1 as (F1 & G1 & G2 & G3 & G4 & G5 & G6 & G7).
  pose proof F1 as (K1 & K2 & K3 & K4 & K5 & K6).
  destruct (is_remote_fin_or_later (v_state s1)) eqn:Fin.
  { split; [exact F1|]. left. repeat split; auto. right. rewrite <- K6. exact Fin. }
  destruct (pop_expired_mtu_probe _ _ _) as [segs1 pe] eqn:Ep. apply pop_expired_spec in Ep.
  rewrite K6 in Fin.
  assert (Hcont : forall s2 : vsock, sr s s2 -> v_unsegmented s2 = v_unsegmented s ->
    pre2 (v_segs s) (v_ss s) (v_segs s2) (v_ss s2) ->
    match (if Z.of_nat (length (ring (v_tx s))) <? ss_len_bytes (v_segs s2)
       then SErr s2 (ErrBug BugInBufferComputations)
       else match segment_loop (ring (v_tx s2)) (o_nagle (v_opts s2)) (v_ss s2) (v_segs s2)
                    (Z.of_nat (length (ring (v_tx s))) - ss_len_bytes (v_segs s2))
                    (v_last_remote_window s2) with
            | Some (ss', segs', remaining) =>
                SOk (set_unsegmented (VSockRec.set_segs (set_ss s2 ss') segs') remaining) tt
            | None => SPanic
            end) with
    | SPanic => True
    | SErr s' _ => sr s s' /\ v_unsegmented s' = v_unsegmented s /\
                   pre2 (v_segs s) (v_ss s) (v_segs s') (v_ss s')
    | SOk s' _ =>
      sr s s' /\
      ((v_segs s' = v_segs s /\ v_ss s' = v_ss s /\ v_unsegmented s' = v_unsegmented s /\
        (ring (v_tx s) = [] \/ is_remote_fin_or_later (v_state s) = true))
       \/ (v_segs s' = v_segs s /\ v_ss s' = v_ss s /\ ~ lastok (ss_segs (v_segs s)))
       \/ (exists t2 ss2, pre2 (v_segs s) (v_ss s) t2 ss2 /\ ring (v_tx s) <> [] /\
             is_remote_fin_or_later (v_state s) = false /\
             ss_len_bytes t2 <= Z.of_nat (length (ring (v_tx s))) /\
             segment_loop (ring (v_tx s)) (o_nagle (v_opts s)) ss2 t2
               (Z.of_nat (length (ring (v_tx s))) - ss_len_bytes t2) (v_last_remote_window s)
             = Some (v_ss s', v_segs s', v_unsegmented s')))
    end).
  { intros s2 F2 U2 P2. pose proof F2 as (J1 & J2 & J3 & J4 & J5 & J6).
    destruct (_ <? ss_len_bytes _) eqn:Lb; [auto|].
    rewrite J5, J3, J1.
    destruct (segment_loop _ _ _ _ _ _) as [[[ss' segs'] rem']|] eqn:E; [|exact I].
    split; [eapply sr_trans; [exact F2|]; sr_leaf|].
    right; right. exists (v_segs s2), (v_ss s2). split; [exact P2|]. split; [exact Rne|]. split; [exact Fin|].
    split; [lia|]. exact E. }
  destruct pe.
  - apply Hcont.
    + eapply sr_trans; [exact F1|]. destruct (seq_gt _ _); sr_leaf.
    + destruct (seq_gt _ _); exact G3.
    + split.
      * destruct (seq_gt _ _); cbn [v_ss set_ss]; rewrite mss_on_probe_failed;
          cbn [v_ss set_last_sent_seq_nr set_rto_retransmissions set_t_retransmit VSockRec.set_segs]; rewrite G2; reflexivity.
      * right. rewrite <- G1.
        destruct (seq_gt _ _); cbn [v_segs set_ss set_last_sent_seq_nr set_rto_retransmissions set_t_retransmit VSockRec.set_segs]; exact Ep.
  - destruct Ep as [-> Ep]. split; [eapply sr_trans; [exact F1|]; sr_leaf|].
    right; left. cbn [v_segs v_ss set_unsegmented]. rewrite <- G1. auto.
  - destruct Ep as [-> Ep]. apply Hcont; [exact F1 | exact G3 |].
    split; [rewrite G2; reflexivity|]. left. auto.
Qed.

End WithCC.

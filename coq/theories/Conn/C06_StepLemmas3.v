(* C06, step level: lemmas for the fast-retransmit predicate.
   - [HRI]: while a poll processes its messages, a Recovering phase it entered has retransmitted nothing
     yet and its high_rxt lies a bounded number of segments below the left edge of the table;
   - [fu]: the index of the first undelivered segment, = the head of the unrestricted iterator;
   - [stq_fast]: a send_tx_queue call that finds such a phase (no RTO mode, transport writable)
     retransmits the first undelivered segment. *)
From Utp Require Conn.VSock_Inv.
From Utp Require Import Base.Prelude Wire.SeqNr Wire.SeqNr_Proofs Wire.Header Rtt.Rtte Rtt.Rtte_Proofs
  Mtu.SegSizes Rx.Rx Tx.Ring Tx.Ring_Proofs Tx.Segments Tx.Segments_Proofs Tx.Segments_ProofsOut
  Conn.Recovery Conn.Msg Conn.VSockRec Conn.VSock Conn.VSockRun Conn.VObs
  Conn.VSock_Lemmas Conn.VSock_LemmasStep Conn.VSock_LemmasReach Conn.VSock_LemmasTx
  Conn.VSock_LemmasIn Conn.VSock_LemmasFin Conn.VSock_LemmasTimers Conn.VSock_LemmasPipe
  Conn.C17_StepLemmas Conn.C05_Pred Conn.C06_Pred Conn.C06_RecProofs Conn.C06_StepLemmas Conn.C06_StepLemmas2.

(* ================================================================== the table after an ACK *)
Lemma remove_up_to_ack_len : forall t now ack sk t' r,
  remove_up_to_ack t now ack sk = (t', r) ->
  exists n : nat, (length (ss_segs t') + n = length (ss_segs t))%nat /\
    ss_snd_una t' = wadd16 (ss_snd_una t) (Z.of_nat n mod M16).
Proof.
  intros t now ack sk t' r. unfold remove_up_to_ack.
  set (dc := if 0 <=? seq_sub ack (ss_snd_una t) then _ else 0%nat).
  destruct (sack_phase t (skipn dc (ss_segs t)) _ _ now ack sk) as [[[rest2 a2] dp] lse] eqn:E2.
  destruct (strip_delivered rest2 0 0) as [[rest3 cnt3] bytes3] eqn:E3.
  intro H; injection H as <- _.
  apply sack_phase_dlv in E2.
  destruct (strip_delivered_spec _ _ _ _ _ _ E3) as (dropped & Hd & Hc3 & _).
  assert (Hdc : (dc <= length (ss_segs t))%nat).
  { subst dc. destruct (0 <=? _); [|lia]. unfold len_z. lia. }
  assert (Hl2 : length rest2 = (length (ss_segs t) - dc)%nat).
  { rewrite <- (Forall2_len _ _ _ _ _ E2), skipn_length. reflexivity. }
  assert (Hl3 : (length dropped + length rest3 = length rest2)%nat) by (rewrite Hd, app_length; reflexivity).
  exists (dc + length dropped)%nat. cbn [ss_segs ss_snd_una]. split; [lia|].
  rewrite Hc3, wadd16_wadd16 by lia. f_equal. f_equal. lia.
Qed.

Ltac skr_leaf := unfold skr; repeat split; reflexivity.
Ltac fpr_leaf := apply fpr_same; reflexivity.

Section WithCC.
Context {CC : Type} (cci : cc_iface CC).
Notation vsock := (vsock CC).

(* what recovery_on_ack does to the phase *)
Lemma recovery_on_ack_phase : forall r h segs ls cc now rtt r' segs' cc',
  recovery_on_ack cci r h segs ls cc now rtt = Some (r', segs', cc') ->
  match rv_phase r' with
  | Recovering rc' =>
      rv_phase r = Recovering rc' \/
      (rc_total_retx rc' = 0 /\ rc_high_rxt rc' = wsub16 (ss_snd_una segs) 1 /\ ss_segs segs <> [])
  | _ => True
  end.
Proof.
  intros r h segs ls cc now rtt r' segs' cc'. unfold recovery_on_ack. cbv zeta.
  cbn [rv_phase rv_supports_sack rv_last_ack]. intros H.
  destruct (rv_phase r) eqn:Ep.
  - destruct (seq_ge _ _); injection H as <- _ _; cbn [rv_phase]; exact I.
  - destruct (ss_segs segs) eqn:Es; [injection H as <- _ _; exact I|].
    match type of H with (match ?c with _ => _ end) = _ => destruct c as [[dup' la']|] end; [|discriminate].
    destruct (dup' <? SACK_DUP_THRESH); [injection H as <- _ _; exact I|].
    destruct (calc_pipe _ _ _ _ _) as [[[sg pipe] recalc]|] eqn:Ec; [|discriminate].
    injection H as <- _ _. cbn [rv_phase rc_total_retx rc_high_rxt]. right.
    split; [reflexivity|]. split; [reflexivity | discriminate].
  - destruct (seq_ge _ _); injection H as <- _ _; cbn [rv_phase]; [exact I | left; reflexivity].
Qed.

(* ================================================================== HRI *)
Definition HRI (L : Z) (s : vsock) : Prop :=
  0 <= ss_snd_una (v_segs s) < M16 /\
  match rv_phase (v_recovery s) with
  | Recovering rc =>
      rc_total_retx rc = 0 /\ 0 <= rc_high_rxt rc < M16 /\
      exists k, 1 <= k /\ k + len_z (ss_segs (v_segs s)) <= L + 1 /\
                ss_snd_una (v_segs s) = wadd16 (rc_high_rxt rc) (k mod M16)
  | _ => len_z (ss_segs (v_segs s)) <= L
  end.

(* the same once segments may have been appended: only the distance is kept *)
Definition HRJ (L : Z) (s : vsock) : Prop :=
  match rv_phase (v_recovery s) with
  | Recovering rc =>
      rc_total_retx rc = 0 /\ 0 <= rc_high_rxt rc < M16 /\
      exists k, 1 <= k <= L /\ ss_snd_una (v_segs s) = wadd16 (rc_high_rxt rc) (k mod M16)
  | _ => True
  end.

Lemma HRI_len : forall L (s : vsock), HRI L s -> len_z (ss_segs (v_segs s)) <= L.
Proof.
  intros L s (_ & H). destruct (rv_phase (v_recovery s)); try exact H.
  destruct H as (_ & _ & k & K1 & K2 & _). lia.
Qed.

Lemma HRI_eq : forall L (s s' : vsock),
  v_segs s' = v_segs s -> v_recovery s' = v_recovery s -> HRI L s -> HRI L s'.
Proof. intros L s s' E1 E2. unfold HRI. rewrite E1, E2. auto. Qed.

Lemma HRJ_eq : forall L (s s' : vsock),
  ss_snd_una (v_segs s') = ss_snd_una (v_segs s) -> v_recovery s' = v_recovery s -> HRJ L s -> HRJ L s'.
Proof. intros L s s' E1 E2. unfold HRJ. rewrite E1, E2. auto. Qed.

Lemma HRI_HRJ : forall L (s : vsock), ss_segs (v_segs s) <> [] -> HRI L s -> HRJ L s.
Proof.
  intros L s Hne (_ & H). unfold HRJ. destruct (rv_phase (v_recovery s)); try exact I.
  destruct H as (H1 & H2 & k & K1 & K2 & K3). split; [exact H1|]. split; [exact H2|].
  exists k. split; [|exact K3]. unfold len_z in K2.
  destruct (ss_segs (v_segs s)); [contradiction|]. cbn [length] in K2. lia.
Qed.

Lemma wadd16_wsub16_1 : forall u, 0 <= u < M16 -> wadd16 (wsub16 u 1) (1 mod M16) = u.
Proof. intros u Hu. unfold wadd16, wsub16, M16 in *. lia. Qed.

Lemma pim_ack_HRI : forall L (s1 s2 : vsock) h res,
  pim_ack cci s1 h = Some (s2, res) -> HRI L s1 -> HRI L s2.
Proof.
  intros L s1 s2 h res. unfold pim_ack.
  destruct (remove_up_to_ack _ _ _ _) as [segs1 res0] eqn:Er.
  match goal with |- (match ?o with Some _ => _ | None => _ end) = _ -> _ => destruct o as [rtte1|] end; [|discriminate].
  destruct (cc_on_ack cci _ _ _ _) as [cc3|]; [|discriminate].
  destruct (recovery_on_ack cci _ _ _ _ _ _ _) as [[[rec1 segs2] cc4]|] eqn:Ero; [|discriminate].
  intro H; injection H as <- _. intros (Hu & Hp).
  destruct (remove_up_to_ack_len _ _ _ _ _ _ Er) as (n & Hn1 & Hn2).
  destruct (recovery_on_ack_dlv cci _ _ _ _ _ _ _ _ _ _ Ero) as [F Eu].
  pose proof (Forall2_len _ _ _ _ _ F) as Hl2.
  pose proof (recovery_on_ack_phase _ _ _ _ _ _ _ _ _ _ Ero) as Hph.
  assert (Hu1 : 0 <= ss_snd_una segs1 < M16) by (rewrite Hn2; apply wadd16_range).
  assert (HL : len_z (ss_segs (v_segs s1)) <= L) by (apply HRI_len; split; assumption).
  unfold HRI. vsimpl_goal. rewrite Eu. split; [exact Hu1|].
  unfold len_z in *. rewrite <- Hl2.
  destruct (rv_phase rec1) as [rp|dd|rc'] eqn:E1; try lia.
  destruct Hph as [Hsame|(T0 & Hh & Hne)].
  - rewrite Hsame in Hp. destruct Hp as (P1 & P2 & k & K1 & K2 & K3).
    split; [exact P1|]. split; [exact P2|]. exists (k + Z.of_nat n). split; [lia|]. split; [lia|].
    rewrite Hn2, K3. apply wadd16_wadd16; lia.
  - split; [exact T0|]. split; [rewrite Hh; apply VSock_Inv.wsub16_range|].
    exists 1. split; [lia|]. split; [lia|]. rewrite Hh. symmetry. apply wadd16_wsub16_1. exact Hu1.
Qed.

(* ================================================================== the first undelivered segment *)
Fixpoint fu_from (i : nat) (l : list seg) : option nat :=
  match l with
  | [] => None
  | g :: r => if sg_delivered g then fu_from (S i) r else Some i
  end.
Definition fu (l : list seg) : option nat := fu_from 0 l.

Lemma fu_from_dview : forall l l' i, map sg_delivered l' = map sg_delivered l -> fu_from i l' = fu_from i l.
Proof.
  induction l as [|x xs IH]; intros [|y ys] i H; cbn [map] in H; try discriminate; [reflexivity|].
  injection H as H1 H2. cbn [fu_from]. rewrite H1. destruct (sg_delivered x); [apply IH; exact H2 | reflexivity].
Qed.

Lemma first_undelivered_fu : forall l i g,
  first_undelivered (map fseg_of l) = Some (i, g) -> fu l = Some i.
Proof.
  intros l i g. unfold first_undelivered, fu. generalize 0%nat.
  induction l as [|x xs IH]; intros n; cbn [map fu_from]; [discriminate|].
  unfold fseg_of at 1. cbn [fg_delivered]. destruct (sg_delivered x).
  - apply IH.
  - intro H; injection H as <- _. reflexivity.
Qed.

Lemma fu_from_iter : forall (u rm : Z) l n i,
  fu_from n l = Some i ->
  exists x rest,
    filter (fun f => negb (sg_delivered (fs_seg f)))
      (map (fun '(i, s) => {| fs_idx := i; fs_seq := wadd16 u (Z.of_nat i mod M16);
                              fs_payload_offset := sg_abs s - rm; fs_seg := s |})
           (enum_from n l)) =
    {| fs_idx := i; fs_seq := wadd16 u (Z.of_nat i mod M16);
       fs_payload_offset := sg_abs x - rm; fs_seg := x |} :: rest.
Proof.
  intros u rm. induction l as [|x xs IH]; intros n i; cbn [fu_from enum_from map filter]; [discriminate|].
  cbn [fs_seg]. destruct (sg_delivered x) eqn:Ed; cbn [negb].
  - apply IH.
  - intro H; injection H as <-. eexists _, _. reflexivity.
Qed.

Lemma fu_iter : forall t i, fu (ss_segs t) = Some i ->
  exists f0 rest, iter_for_sending t None = f0 :: rest /\ fs_idx f0 = i /\
                  fs_seq f0 = wadd16 (ss_snd_una t) (Z.of_nat i mod M16).
Proof.
  intros t i H. unfold iter_for_sending. cbn [skipn].
  destruct (fu_from_iter (ss_snd_una t) (ss_removed t) _ _ _ H) as (x & rest & E).
  eexists _, rest. split; [exact E|]. split; reflexivity.
Qed.

(* ================================================================== send_tx_queue never ENTERS recovery *)
Definition nrR (s s' : vsock) : Prop :=
  is_recovering (v_recovery s) = false -> is_recovering (v_recovery s') = false.
Lemma nrR_refl : forall s, nrR s s. Proof. intros s H; exact H. Qed.
Lemma nrR_trans : forall a b c, nrR a b -> nrR b c -> nrR a c.
Proof. intros a b c H1 H2 H. auto. Qed.
Lemma nrR_same : forall s s' : vsock, v_recovery s' = v_recovery s -> nrR s s'.
Proof. intros s s' E H. rewrite E. exact H. Qed.

Lemma send_data_nrR : forall (s : vsock) h f, stR nrR s (send_data s h f).
Proof.
  intros s h f. pose proof (send_data_spec s h f) as Hd.
  destruct (send_data s h f) as [s' [| |]|s' e|]; cbn [stR]; try exact I; apply nrR_same.
  - destruct Hd as ((_ & _ & _ & F4 & _) & _). exact F4.
  - destruct Hd as (((_ & _ & _ & F4 & _) & _) & _). exact F4.
  - destruct Hd as (((_ & _ & _ & F4 & _) & _) & _). exact F4.
  - destruct Hd as (((_ & _ & _ & F4 & _) & _) & _). exact F4.
Qed.

Lemma recovery_loop_nrR : forall items (s : vsock) h mss0 st, stR nrR s (recovery_loop items s h mss0 st).
Proof.
  induction items as [|f rest IH]; intros s h mss0 st; cbn [recovery_loop].
  - apply nrR_refl.
  - destruct (negb _); [apply nrR_refl|].
    destruct (_ && negb (sg_lost _)); [apply IH|].
    destruct (_ && negb (sg_sacks_after _)); [apply nrR_refl|].
    pose proof (send_data_nrR s h f) as F.
    destruct (send_data s h f) as [s1 r|s1 e|]; cbn [stR] in *; auto.
    destruct r; cbn [stR]; auto.
    eapply (stR_weaken nrR nrR_trans); [exact F | apply IH].
Qed.

Lemma new_data_loop_nrR : forall items (s : vsock) h remaining, stR nrR s (new_data_loop items s h remaining).
Proof.
  induction items as [|f rest IH]; intros s h remaining; cbn [new_data_loop].
  - apply nrR_refl.
  - destruct (_ <? _); [apply nrR_refl|].
    pose proof (send_data_nrR s h f) as F.
    destruct (send_data s h f) as [s1 r|s1 e|]; cbn [stR] in *; auto.
    destruct r; cbn [stR]; auto.
    eapply (stR_weaken nrR nrR_trans); [exact F | apply IH].
Qed.

Lemma on_rto_reactions_nrR : forall (s s1 : vsock), on_rto_reactions cci s = Some s1 -> nrR s s1.
Proof.
  intros s s1 H. unfold on_rto_reactions in H. destruct (on_rto_timeout _); [|discriminate].
  injection H as <-. intro K. vsimpl_goal. rewrite recovery_on_rto_not_recovering; exact K.
Qed.

Lemma maybe_send_fin_nrR : forall s : vsock, stR nrR s (maybe_send_fin s).
Proof.
  intro s. pose proof (maybe_send_fin_fpr s) as F.
  destruct (maybe_send_fin s) as [s' b|s' e|]; cbn [sfp stR] in *; auto; apply nrR_same.
  - destruct F as (_ & _ & _ & _ & _ & _ & _ & _ & _ & _ & F11 & _). exact F11.
  - destruct F as ((_ & _ & _ & _ & _ & _ & _ & _ & _ & _ & F11 & _) & _). exact F11.
Qed.

Lemma send_tx_queue_nrR : forall s : vsock, stR nrR s (send_tx_queue cci s).
Proof.
  intros s. unfold send_tx_queue.
  destruct (v_transport_pending s); [apply nrR_refl|].
  apply (stR_sbind nrR nrR_trans).
  - destruct (timer_expired _ _); [|apply nrR_refl].
    destruct (iter_for_sending _ _) as [|f l].
    + destruct (our_fin_if_unacked _); [|cbn [stR]; apply nrR_same; reflexivity].
      destruct (_ =? _); [|cbn [stR]; apply nrR_same; reflexivity].
      apply (stR_weaken nrR nrR_trans) with (s := set_last_sent_seq_nr s (wsub16 (v_last_sent_seq_nr s) 1));
        [apply nrR_same; reflexivity|].
      apply (stR_sbind nrR nrR_trans); [apply maybe_send_fin_nrR|].
      intros s1 a. destruct a; [|apply nrR_refl].
      destruct (on_rto_reactions cci s1) eqn:E; [|exact I]. apply on_rto_reactions_nrR in E.
      cbn [stR]. eapply nrR_trans; [exact E | apply nrR_same; reflexivity].
    + pose proof (send_data_nrR s (outgoing_header s) f) as Hd.
      destruct (send_data _ _ f) as [s1 r|s1 e|]; cbn [stR] in *; auto.
      destruct r; cbn [stR]; auto.
      cbv zeta.
      match goal with |- stR _ _ (match ?o with _ => _ end) => destruct o as [s2|] eqn:E end; [|exact I].
      assert (F2 : nrR s1 s2).
      { destruct (negb _); [apply on_rto_reactions_nrR; exact E|injection E as <-; apply nrR_refl]. }
      cbn [stR]. eapply nrR_trans; [exact Hd|]. eapply nrR_trans; [exact F2 | apply nrR_same; reflexivity].
  - intros s1 ret. destruct ret; [apply nrR_refl|].
    destruct (0 <? _); [apply nrR_refl|]. destruct (ss_segs _); [apply nrR_refl|].
    apply (stR_sbind nrR nrR_trans).
    + destruct (rv_phase (v_recovery s1)) eqn:Ep; try apply nrR_refl.
      (* already recovering: nothing to show *)
      assert (Hrec : is_recovering (v_recovery s1) = true) by (unfold is_recovering; rewrite Ep; reflexivity).
      match goal with |- stR nrR s1 ?m => destruct m as [sa x|sa e|] end; cbn [stR]; auto; intro K; congruence.
    + intros s2 ret. destruct ret; [apply nrR_refl|].
      apply (stR_sbind nrR nrR_trans); [apply new_data_loop_nrR|].
      intros s3 tl. destruct tl as [[sq sz]|]; [|apply nrR_refl].
      destruct (pop_mtu_probe _ _) as [segs' popped] eqn:Ep. destruct popped; cbn [stR];
        [apply nrR_same; reflexivity | apply nrR_refl].
Qed.

(* ================================================================== the fast retransmission *)
Lemma rec_items_head : forall (s : vsock) rc f0 r0,
  iter_for_sending (v_segs s) None = f0 :: r0 ->
  0 <= ss_sack_depth (v_segs s) ->
  seq_le (fs_seq f0) (rc_high_rxt rc) = false ->
  seq_le (fs_seq f0) (rc_recovery_point rc) = true ->
  exists rest, rec_items s rc = f0 :: rest.
Proof.
  intros s rc f0 r0 Hit Hd Hh Hr. unfold rec_items. rewrite Hit.
  replace (Z.to_nat (ss_sack_depth (v_segs s) + 1)) with (S (Z.to_nat (ss_sack_depth (v_segs s)))) by lia.
  cbn [firstn skip_while]. rewrite Hh. cbn [take_while]. rewrite Hr. eexists. reflexivity.
Qed.

Theorem stq_fast : forall (s s' : vsock) u rc f0 rest,
  send_tx_queue cci s = SOk s' u -> ti s ->
  v_transport_pending s = false -> v_transport_pending s' = false -> v_rto_retransmissions s' = 0 ->
  rv_phase (v_recovery s) = Recovering rc -> rc_total_retx rc = 0 ->
  rec_items s rc = f0 :: rest ->
  (exists more, v_out s' = more ++ data_pkt s (outgoing_header s) f0 :: v_out s) /\
  (forall rc', rv_phase (v_recovery s') = Recovering rc' -> rc_recovery_point rc' = rc_recovery_point rc).
Proof.
  intros s s' u rc f0 rest H Hti Hp Hp' Hc' Hph Htot Hit.
  assert (Hin : In f0 (iter_for_sending (v_segs s) None))
    by (apply (rec_items_incl s rc); rewrite Hit; left; reflexivity).
  assert (Hs : step_st (send_tx_queue cci s) = Some s') by (rewrite H; reflexivity).
  assert (Hc0 : 0 <= v_rto_retransmissions s) by apply Hti.
  pose proof H as H0. rewrite send_tx_queue_eq, Hp in H0.
  set (h := outgoing_header s) in *.
  (* the retransmission timer has not expired: the RTO branch would have counted, or blocked *)
  assert (Hexp : timer_expired (v_t_retransmit s) (v_now s) = false).
  { destruct (timer_expired (v_t_retransmit s) (v_now s)) eqn:Ex; [exfalso|reflexivity].
    unfold rto_branch in H0. rewrite Ex in H0.
    destruct (iter_for_sending (v_segs s) None) as [|f l] eqn:Ei; [destruct Hin|].
    pose proof (send_data_spec s h f) as Hd.
    destruct (send_data s h f) as [s1 [| |]|s1 e|]; cbn [sbind] in H0; try discriminate.
    - cbv zeta in H0.
      match type of H0 with sbind (match ?o with _ => _ end) _ = _ => destruct o as [s2|] eqn:E end;
        cbn [sbind] in H0; [|discriminate].
      unfold after_rto_k in H0.
      assert (Hs2 : 0 <= v_rto_retransmissions s2).
      { destruct Hd as ((_ & _ & _ & _ & F5 & _) & _).
        destruct (negb _); [|injection E as <-; lia].
        apply on_rto_reactions_spec in E. destruct E as (_ & _ & _ & _ & _ & _ & _ & R8 & _). lia. }
      match type of H0 with (if 0 <? ?c then _ else _) = _ =>
        replace (0 <? c) with true in H0 by (symmetry; apply Z.ltb_lt; vsimpl_goal; lia) end.
      injection H0 as <-. cbn [v_rto_retransmissions set_rto_retransmissions] in Hc'. vsimpl. lia.
    - unfold after_rto_k in H0. injection H0 as <-. destruct Hd as (_ & Ht). congruence. }
  assert (Hcnt : v_rto_retransmissions s = 0).
  { unfold rto_branch in H0. rewrite Hexp in H0. cbn [sbind] in H0. unfold after_rto_k in H0.
    destruct (Z.ltb_spec 0 (v_rto_retransmissions s)); [|lia]. injection H0 as <-. lia. }
  assert (Hne : ss_segs (v_segs s) <> []).
  { intro K. unfold iter_for_sending in Hin. rewrite K in Hin. destruct Hin. }
  (* the first item went out *)
  unfold rto_branch in H0. rewrite Hexp in H0. cbn [sbind] in H0. unfold after_rto_k in H0.
  rewrite Hcnt in H0. cbn [Z.ltb Z.compare] in H0.
  destruct (ss_segs (v_segs s)) as [|g0 gs] eqn:Esg; [congruence|].
  destruct (rec_branch s h) as [s2 ret|s2 e|] eqn:Erb; cbn [sbind] in H0; try discriminate.
  assert (Hs2 : step_st (rec_branch s h) = Some s2) by (rewrite Erb; reflexivity).
  destruct (rec_branch_spec _ _ _ Hs2) as [(Hnr & _)|(rc0 & sent & sx & Eph & Hincl & Hem & P & A1 & A2 & _ & _ & _ & _ & Hfirst)].
  { unfold is_recovering in Hnr. rewrite Hph in Hnr. discriminate. }
  rewrite Hph in Eph. injection Eph as <-.
  specialize (Hfirst Htot f0 rest Hit).
  (* the recovery point survives *)
  assert (Hrp2 : forall rc', rv_phase (v_recovery s2) = Recovering rc' -> rc_recovery_point rc' = rc_recovery_point rc).
  { clear - Erb Hph. unfold rec_branch in Erb. rewrite Hph in Erb.
    destruct (recovery_loop _ s h _ _) as [s1 [st early]|s1 e|]; cbn [sbind] in Erb; try discriminate.
    unfold rec_after in Erb. destruct early.
    { injection Erb as <- _. unfold set_recovering. vsimpl_goal. cbn [rv_phase]. intros rc' K. injection K as <-. reflexivity. }
    match type of Erb with (match our_fin_if_unacked (v_state ?y) with _ => _ end) = _ =>
      assert (F3 : forall rc', rv_phase (v_recovery y) = Recovering rc' -> rc_recovery_point rc' = rc_recovery_point rc);
      [|revert F3 Erb; generalize y; intros sy F3 Erb] end.
    { unfold set_recovering. destruct (_ <? _); [destruct (rc_recalc rc); [|destruct (0 <? _)]|];
        vsimpl_goal; cbn [rv_phase]; intros rc' K; injection K as <-; reflexivity. }
    destruct (our_fin_if_unacked _); [destruct (_ =? _)|]; injection Erb as <- _; try exact F3.
    unfold set_recovering. vsimpl_goal. cbn [rv_phase]. intros rc' K. injection K as <-. reflexivity. }
  pose proof (send_data_spec s h f0) as Hd.
  destruct (send_data s h f0) as [s1 [| |]|s1 e|] eqn:Esd.
  - (* sent *)
    rewrite <- Esg in Hne.
    destruct (fast_retransmit cci s s' rc f0 rest s1 Hp Hexp Hcnt Hne Hph Htot Hit Esd Hs) as [_ Hout].
    split; [exact Hout|].
    destruct ret; [injection H0 as <-; exact Hrp2|].
    destruct (new_branch_spec cci _ _ _ ltac:(rewrite H0; reflexivity)) as (sn & rn & s3 & _ & (Hf3 & _) & _ & _ & _ & _ & _ & _ & B6 & _).
    destruct Hf3 as (_ & _ & _ & F4 & _). intros rc' K. apply Hrp2. rewrite <- F4, <- B6. exact K.
  - (* blocked: the transport flag is set at the end *)
    exfalso. subst sent. destruct Hem as (Hf & _). destruct Hd as (_ & Ht).
    (* recovery_loop stopped early with the flag set; nothing resets it *)
    clear - Erb Hph Hit Htot Esd Ht H0 Hp'. unfold rec_branch in Erb. rewrite Hph, Hit in Erb.
    cbn [recovery_loop] in Erb. unfold rec_st0 in Erb. cbn [rl_total] in Erb. rewrite Htot in Erb.
    cbn [Z.eqb orb negb Z.ltb Z.compare andb] in Erb. rewrite Esd in Erb. cbn [sbind] in Erb.
    unfold rec_after in Erb. injection Erb as <- <-. injection H0 as <-.
    unfold set_recovering in Hp'. cbn [v_transport_pending set_recovery] in Hp'. congruence.
  - exfalso. clear - Erb Hph Hit Htot Esd. unfold rec_branch in Erb. rewrite Hph, Hit in Erb.
    cbn [recovery_loop] in Erb. unfold rec_st0 in Erb. cbn [rl_total] in Erb. rewrite Htot in Erb.
    cbn [Z.eqb orb negb Z.ltb Z.compare andb] in Erb. rewrite Esd in Erb. discriminate.
  - exfalso. clear - Erb Hph Hit Htot Esd. unfold rec_branch in Erb. rewrite Hph, Hit in Erb.
    cbn [recovery_loop] in Erb. unfold rec_st0 in Erb. cbn [rl_total] in Erb. rewrite Htot in Erb.
    cbn [Z.eqb orb negb Z.ltb Z.compare andb] in Erb. rewrite Esd in Erb. discriminate.
  - exfalso. clear - Erb Hph Hit Htot Esd. unfold rec_branch in Erb. rewrite Hph, Hit in Erb.
    cbn [recovery_loop] in Erb. unfold rec_st0 in Erb. cbn [rl_total] in Erb. rewrite Htot in Erb.
    cbn [Z.eqb orb negb Z.ltb Z.compare andb] in Erb. rewrite Esd in Erb. discriminate.
Qed.

(* ================================================================== send_tx_queue keeps the recovery point *)
Definition rpR (s s' : vsock) : Prop :=
  (is_recovering (v_recovery s) = false -> is_recovering (v_recovery s') = false) /\
  (forall rc rc', rv_phase (v_recovery s) = Recovering rc -> rv_phase (v_recovery s') = Recovering rc' ->
                  rc_recovery_point rc' = rc_recovery_point rc).
Lemma rpR_refl : forall s, rpR s s.
Proof. intros s. split; [auto|]. intros rc rc' H1 H2. rewrite H1 in H2. injection H2 as <-. reflexivity. Qed.
Lemma rpR_trans : forall a b c, rpR a b -> rpR b c -> rpR a c.
Proof.
  intros a b c [A1 A2] [B1 B2]. split; [auto|]. intros rc rc' Ha Hc.
  destruct (rv_phase (v_recovery b)) as [rp|d|rcb] eqn:Eb.
  - assert (K : is_recovering (v_recovery b) = false) by (unfold is_recovering; rewrite Eb; reflexivity).
    apply B1 in K. unfold is_recovering in K. rewrite Hc in K. discriminate.
  - assert (K : is_recovering (v_recovery b) = false) by (unfold is_recovering; rewrite Eb; reflexivity).
    apply B1 in K. unfold is_recovering in K. rewrite Hc in K. discriminate.
  - rewrite (B2 rcb rc' eq_refl Hc). apply A2; [assumption | reflexivity].
Qed.
Lemma rpR_same : forall s s' : vsock, v_recovery s' = v_recovery s -> rpR s s'.
Proof. intros s s' E. unfold rpR. rewrite E. apply rpR_refl. Qed.
Lemma nrR_rpR : forall s s' : vsock, nrR s s' -> is_recovering (v_recovery s') = false -> rpR s s'.
Proof.
  intros s s' H K. split; [exact H|]. intros rc rc' _ H2. unfold is_recovering in K. rewrite H2 in K. discriminate.
Qed.

Lemma send_data_rpR : forall (s : vsock) h f, stR rpR s (send_data s h f).
Proof.
  intros s h f. pose proof (send_data_spec s h f) as Hd.
  destruct (send_data s h f) as [s' [| |]|s' e|]; cbn [stR]; try exact I; apply rpR_same.
  - destruct Hd as ((_ & _ & _ & F4 & _) & _). exact F4.
  - destruct Hd as (((_ & _ & _ & F4 & _) & _) & _). exact F4.
  - destruct Hd as (((_ & _ & _ & F4 & _) & _) & _). exact F4.
  - destruct Hd as (((_ & _ & _ & F4 & _) & _) & _). exact F4.
Qed.

Lemma recovery_loop_rpR : forall items (s : vsock) h mss0 st, stR rpR s (recovery_loop items s h mss0 st).
Proof.
  induction items as [|f rest IH]; intros s h mss0 st; cbn [recovery_loop].
  - apply rpR_refl.
  - destruct (negb _); [apply rpR_refl|].
    destruct (_ && negb (sg_lost _)); [apply IH|].
    destruct (_ && negb (sg_sacks_after _)); [apply rpR_refl|].
    pose proof (send_data_rpR s h f) as F.
    destruct (send_data s h f) as [s1 r|s1 e|]; cbn [stR] in *; auto.
    destruct r; cbn [stR]; auto.
    eapply (stR_weaken rpR rpR_trans); [exact F | apply IH].
Qed.

Lemma new_data_loop_rpR : forall items (s : vsock) h remaining, stR rpR s (new_data_loop items s h remaining).
Proof.
  induction items as [|f rest IH]; intros s h remaining; cbn [new_data_loop].
  - apply rpR_refl.
  - destruct (_ <? _); [apply rpR_refl|].
    pose proof (send_data_rpR s h f) as F.
    destruct (send_data s h f) as [s1 r|s1 e|]; cbn [stR] in *; auto.
    destruct r; cbn [stR]; auto.
    eapply (stR_weaken rpR rpR_trans); [exact F | apply IH].
Qed.

Lemma on_rto_reactions_rpR : forall (s s1 : vsock), on_rto_reactions cci s = Some s1 -> rpR s s1.
Proof.
  intros s s1 H. unfold on_rto_reactions in H. destruct (on_rto_timeout _); [|discriminate].
  injection H as <-. apply nrR_rpR.
  - intro K. vsimpl_goal. rewrite recovery_on_rto_not_recovering; exact K.
  - vsimpl_goal. unfold is_recovering, recovery_on_rto_timeout. destruct (rv_phase (v_recovery s)) eqn:E;
      cbn [rv_phase]; rewrite ?E; reflexivity.
Qed.

Lemma maybe_send_fin_rpR : forall s : vsock, stR rpR s (maybe_send_fin s).
Proof.
  intro s. pose proof (maybe_send_fin_fpr s) as F.
  destruct (maybe_send_fin s) as [s' b|s' e|]; cbn [sfp stR] in *; auto; apply rpR_same.
  - destruct F as (_ & _ & _ & _ & _ & _ & _ & _ & _ & _ & F11 & _). exact F11.
  - destruct F as ((_ & _ & _ & _ & _ & _ & _ & _ & _ & _ & F11 & _) & _). exact F11.
Qed.

Lemma set_recovering_rpR : forall (s : vsock) rc rc1,
  rv_phase (v_recovery s) = Recovering rc -> rc_recovery_point rc1 = rc_recovery_point rc ->
  rpR s (set_recovering s rc1).
Proof.
  intros s rc rc1 E H. split.
  - intro K. unfold is_recovering in K. rewrite E in K. discriminate.
  - intros rc0 rc' H1 H2. rewrite E in H1. injection H1 as <-. unfold set_recovering in H2.
    cbn [v_recovery set_recovery rv_phase] in H2. injection H2 as <-. exact H.
Qed.

Lemma send_tx_queue_rpR : forall s : vsock, stR rpR s (send_tx_queue cci s).
Proof.
  intros s. unfold send_tx_queue.
  destruct (v_transport_pending s); [apply rpR_refl|].
  apply (stR_sbind rpR rpR_trans).
  - destruct (timer_expired _ _); [|apply rpR_refl].
    destruct (iter_for_sending _ _) as [|f l].
    + destruct (our_fin_if_unacked _); [|cbn [stR]; apply rpR_same; reflexivity].
      destruct (_ =? _); [|cbn [stR]; apply rpR_same; reflexivity].
      apply (stR_weaken rpR rpR_trans) with (s := set_last_sent_seq_nr s (wsub16 (v_last_sent_seq_nr s) 1));
        [apply rpR_same; reflexivity|].
      apply (stR_sbind rpR rpR_trans); [apply maybe_send_fin_rpR|].
      intros s1 a. destruct a; [|apply rpR_refl].
      destruct (on_rto_reactions cci s1) eqn:E; [|exact I]. apply on_rto_reactions_rpR in E.
      cbn [stR]. eapply rpR_trans; [exact E | apply rpR_same; reflexivity].
    + pose proof (send_data_rpR s (outgoing_header s) f) as Hd.
      destruct (send_data _ _ f) as [s1 r|s1 e|]; cbn [stR] in *; auto.
      destruct r; cbn [stR]; auto.
      cbv zeta.
      match goal with |- stR _ _ (match ?o with _ => _ end) => destruct o as [s2|] eqn:E end; [|exact I].
      assert (F2 : rpR s1 s2).
      { destruct (negb _); [apply on_rto_reactions_rpR; exact E|injection E as <-; apply rpR_refl]. }
      cbn [stR]. eapply rpR_trans; [exact Hd|]. eapply rpR_trans; [exact F2 | apply rpR_same; reflexivity].
  - intros s1 ret. destruct ret; [apply rpR_refl|].
    destruct (0 <? _); [apply rpR_refl|]. destruct (ss_segs _); [apply rpR_refl|].
    apply (stR_sbind rpR rpR_trans).
    + destruct (rv_phase (v_recovery s1)) as [rp|d|rc] eqn:Ep; try apply rpR_refl.
      (* the loop keeps the recovery record; what is written afterwards keeps its point *)
      assert (Hfin : forall (sx : vsock) rcx, rc_recovery_point rcx = rc_recovery_point rc ->
                rpR s1 (set_recovering sx rcx)).
      { intros sx rcx Hx. split.
        - intro K. unfold is_recovering in K. rewrite Ep in K. discriminate.
        - intros rc0 rc' H1 H2. rewrite Ep in H1. injection H1 as <-. unfold set_recovering in H2.
          cbn [v_recovery set_recovery rv_phase] in H2. injection H2 as <-. exact Hx. }
      assert (Hfin2 : forall (sx : vsock) rcx tp, rc_recovery_point rcx = rc_recovery_point rc ->
                rpR s1 (set_t_recovery_pipe (set_recovering sx rcx) tp)).
      { intros sx rcx tp Hx. eapply rpR_trans; [apply (Hfin sx rcx Hx) | apply rpR_same; reflexivity]. }
      match goal with |- stR rpR s1 (sbind ?m _) => destruct m as [s2 [st early]|s2 e|] eqn:El end; cbn [sbind stR].
      * destruct early; [apply Hfin; reflexivity|].
        destruct (_ <? _); [destruct (rc_recalc rc); [|destruct (0 <? _)]|];
          (destruct (our_fin_if_unacked _); [destruct (_ =? _)|]; cbn [stR];
           first [apply Hfin; reflexivity | apply Hfin2; reflexivity]).
      * assert (Hl : step_st (recovery_loop
            (take_while (fun f => seq_le (fs_seq f) (rc_recovery_point rc))
               (skip_while (fun f => seq_le (fs_seq f) (rc_high_rxt rc))
                  (firstn (Z.to_nat (ss_sack_depth (v_segs s1) + 1)) (iter_for_sending (v_segs s1) None))))
            s1 (outgoing_header s) (mss (v_ss s1))
            {| rl_high_rxt := rc_high_rxt rc; rl_total := rc_total_retx rc; rl_pipe := rc_pipe rc;
               rl_cwnd := rec_cwnd rc; rl_sent := 0 |}) = Some s2) by (rewrite El; reflexivity).
        destruct (recovery_loop_spec _ _ _ _ _ _ Hl) as (sent & _ & ((_ & _ & _ & F4 & _) & _) & _).
        apply rpR_same. exact F4.
      * exact I.
    + intros s2 ret. destruct ret; [apply rpR_refl|].
      apply (stR_sbind rpR rpR_trans); [apply new_data_loop_rpR|].
      intros s3 tl. destruct tl as [[sq sz]|]; [|apply rpR_refl].
      destruct (pop_mtu_probe _ _) as [segs' popped] eqn:Ep. destruct popped; cbn [stR];
        [apply rpR_same; reflexivity | apply rpR_refl].
Qed.

(* ================================================================== the strict regime: the shape of the
   table (delivered flags, left edge, SACK depth) is what it was when send_tx_queue started *)
Definition tshape (t : segments) : list bool * Z * Z :=
  (map sg_delivered (ss_segs t), ss_snd_una t, ss_sack_depth t).

Lemma on_sent_tshape : forall t i now, tshape (on_sent t i now) = tshape t.
Proof.
  intros t i now. unfold tshape, on_sent, Segments.set_segs. cbn [ss_segs ss_snd_una ss_sack_depth].
  rewrite map_update_nth; [reflexivity|]. intro x. reflexivity.
Qed.

Lemma stq_strict_tshape : forall (s s' : vsock) u,
  EF s -> send_tx_queue cci s = SOk s' u ->
  tshape (v_segs s') = tshape (v_segs s) /\ v_restart s' = v_restart s.
Proof.
  intros s s' u HE H.
  pose proof (send_tx_queue_rule cci
                (fun a : vsock => EF a /\ (tshape (v_segs a) = tshape (v_segs s) /\ v_restart a = v_restart s))
                (fun _ => False) (fun _ _ => True)) as R.
  assert (K : stI (fun a : vsock => EF a /\ (tshape (v_segs a) = tshape (v_segs s) /\ v_restart a = v_restart s))
                  (fun _ _ => True) (send_tx_queue cci s)).
  { apply R; auto.
    - intros a b F [K1 [K2 K3]]. split; [eapply EF_fpr; eauto|]. destruct F as (E1 & _ & _ & _ & _ & E6 & _).
      rewrite E1, E6. auto.
    - intros a h f a1 [K _] E. pose proof (send_data_script a h f) as Hs. rewrite E in Hs.
      destruct Hs as (_ & _ & _ & Hs). apply (Hs K). reflexivity.
    - intros a h f a1 n rest [K1 [K2 K3]] _ E.
      pose proof (send_data_spec a h f) as Hd. rewrite E in Hd. destruct Hd as (Hf & _ & Hsg & _).
      pose proof (send_data_script a h f) as Hs. rewrite E in Hs. destruct Hs as (S1 & (k & S2) & _).
      destruct Hf as (_ & _ & _ & _ & _ & _ & _ & _ & _ & _ & F11 & _).
      split; [|rewrite Hsg, on_sent_tshape; split; [exact K2 | congruence]].
      destruct K1 as [L1 L2]. unfold EF, VSock_Inv.emsg_free. rewrite S1, S2.
      split; [apply script_legit_skipn; exact L1 | exact L2].
    - intros a segs' q ss' []. }
  rewrite H in K. cbn [stI] in K. apply K.
Qed.

Lemma split_snd_una : forall (s s' : vsock) u,
  split_tx_queue_into_segments cci s = SOk s' u -> ss_snd_una (v_segs s') = ss_snd_una (v_segs s).
Proof.
  intros s s' u H.
  unfold split_tx_queue_into_segments in H.
  destruct (_ =? 0); [inversion H; reflexivity|].
  match type of H with context [is_remote_fin_or_later (v_state ?x)] => set (s1 := x) in * end.
  assert (F1 : v_segs s1 = v_segs s).
  { subst s1. destruct (_ && _); [|reflexivity].
    destruct (grow _ _) as [tx1 g]. destruct g; [destruct (wake_writer tx1)|]; reflexivity. }
  clearbody s1.
  destruct (is_remote_fin_or_later _); [inversion H; subst; rewrite F1; reflexivity|].
  destruct (pop_expired_mtu_probe _ _ _) as [segs1 pe] eqn:Ep.
  assert (E1 : ss_snd_una segs1 = ss_snd_una (v_segs s1)).
  { revert Ep. unfold pop_expired_mtu_probe.
    destruct (last_and_init _) as [[init x]|]; [|intro K; injection K as <- _; reflexivity].
    destruct (sg_delivered x); [intro K; injection K as <- _; reflexivity|].
    destruct (_ && _ && _); [intro K; injection K as <- _; reflexivity|].
    destruct (sg_probe x); intro K; injection K as <- _; reflexivity. }
  clear Ep.
  assert (Hloop : forall fuel nagle ss segs rem rwr ss' segs' rem',
            segment_loop fuel nagle ss segs rem rwr = Some (ss', segs', rem') -> ss_snd_una segs' = ss_snd_una segs).
  { induction fuel as [|x fuel IH]; intros nagle ss segs rem rwr ss' segs' rem' K; cbn [segment_loop] in K.
    - inversion K; reflexivity.
    - destruct (_ && _); [|inversion K; reflexivity].
      destruct (next_segment_size ss) as [[ss1 sz]|]; [|discriminate].
      destruct (_ && _ && _); [inversion K; subst; reflexivity|].
      destruct (mss ss1 <? _); [inversion K; subst; reflexivity|].
      apply IH in K. rewrite K. reflexivity. }
  assert (Hcont : forall s2 : vsock,
    (if Z.of_nat (length (ring (v_tx s))) <? ss_len_bytes (v_segs s2)
     then SErr s2 (ErrBug BugInBufferComputations)
     else match segment_loop (ring (v_tx s2)) (o_nagle (v_opts s2)) (v_ss s2) (v_segs s2)
                  (Z.of_nat (length (ring (v_tx s))) - ss_len_bytes (v_segs s2))
                  (v_last_remote_window s2) with
          | Some (ss', segs', remaining) =>
              SOk (set_unsegmented (VSockRec.set_segs (set_ss s2 ss') segs') remaining) tt
          | None => SPanic
          end) = SOk s' u -> ss_snd_una (v_segs s') = ss_snd_una (v_segs s2)).
  { intros s2. destruct (Z.of_nat (length (ring (v_tx s))) <? ss_len_bytes (v_segs s2)); [intro K; inversion K|].
    match goal with |- context [segment_loop ?a ?b ?c ?d ?e ?f] =>
      destruct (segment_loop a b c d e f) as [[[ss' segs'] rem']|] eqn:E end; [|intro K; inversion K].
    intro K. injection K as <- _. vsimpl_goal. eapply Hloop; exact E. }
  destruct pe.
  - apply Hcont in H. rewrite H. destruct (seq_gt _ _); vsimpl_goal; congruence.
  - inversion H; subst. vsimpl_goal. congruence.
  - apply Hcont in H. congruence.
Qed.

(* ================================================================== the whole poll, strict regime *)
Section Fast.
Variable L : Z.

(* after send_tx_queue: in a state that shows a Recovering phase, no RTO mode and a writable transport, the
   first undelivered segment -- if it lies within the recovery point -- is among the datagrams *)
Definition FC (a : vsock) : Prop :=
  v_transport_pending a = false -> v_rto_retransmissions a = 0 ->
  forall rc' i, rv_phase (v_recovery a) = Recovering rc' -> fu (ss_segs (v_segs a)) = Some i ->
    0 <= ss_sack_depth (v_segs a) -> L + Z.of_nat i < 1024 ->
    seq_le (wadd16 (ss_snd_una (v_segs a)) (Z.of_nat i mod M16)) (rc_recovery_point rc') = true ->
    exists p, In p (v_out a) /\ ch_type (p_hdr p) = ST_DATA /\
              ch_seq (p_hdr p) = wadd16 (ss_snd_una (v_segs a)) (Z.of_nat i mod M16).

Definition HRK (s : vsock) : Prop :=
  match rv_phase (v_recovery s) with
  | Recovering rc =>
      rc_total_retx rc = 0 /\ 0 <= rc_high_rxt rc < M16 /\
      exists k, 1 <= k <= L + 1 /\ ss_snd_una (v_segs s) = wadd16 (rc_high_rxt rc) (k mod M16)
  | _ => True
  end.

Lemma HRI_HRK : forall s : vsock, HRI L s -> HRK s.
Proof.
  intros s (_ & H). unfold HRK. destruct (rv_phase (v_recovery s)); try exact I.
  destruct H as (H1 & H2 & k & K1 & K2 & K3). split; [exact H1|]. split; [exact H2|].
  exists k. split; [|exact K3]. unfold len_z in K2. lia.
Qed.

Lemma FC_fpr : forall a a' : vsock,
  fpr a a' -> (v_transport_pending a = true -> v_transport_pending a' = true) -> FC a -> FC a'.
Proof.
  intros a a' (E1 & _ & _ & _ & _ & _ & _ & (l & E8 & _) & _ & E11 & E12 & _) Htp K.
  unfold FC. rewrite E1, E11, E12. intros T C rc' i Hp Hf Hd Hl Hs.
  assert (Ta : v_transport_pending a = false) by (destruct (v_transport_pending a); [rewrite Htp in T; auto | reflexivity]).
  destruct (K Ta C rc' i Hp Hf Hd Hl Hs) as (p & P1 & P2 & P3).
  exists p. split; [rewrite E8; apply in_or_app; right; exact P1 | auto].
Qed.

Definition FA (a : vsock) : Prop := ti a /\ IA a /\ HRI L a.
Definition FB (a : vsock) : Prop := ti a /\ IA a /\ HRK a.

Lemma pim_FA : forall s : vsock,
  IA s /\ HRI L s -> spI (fun a => IA a /\ HRI L a) (process_all_incoming_messages cci s).
Proof.
  intros s Hi. apply pim_rule; try exact Hi.
  - intros a b F [K1 K2]. split; [eapply IA_fpr; eauto|].
    destruct F as (E1 & _ & _ & _ & _ & _ & _ & _ & _ & _ & E12 & _). eapply HRI_eq; eauto.
  - intros a l [K1 K2]. split; [eapply IA_skr; [|exact K1]; skr_leaf|].
    eapply HRI_eq; [| |exact K2]; reflexivity.
  - intros a c tr ti0 [K1 K2]. split; [eapply IA_skr; [|exact K1]; skr_leaf|].
    eapply HRI_eq; [| |exact K2]; reflexivity.
  - intros s1 s2 h res [K1 K2] E. split; [eapply IA_skr; [eapply pim_ack_skr; exact E | exact K1]|].
    eapply pim_ack_HRI; eauto.
  - intros s3 rc hd rtt now segs' p recalc [K1 K2] Eph E.
    split; [eapply IA_skr; [|exact K1]; unfold set_recovering; skr_leaf|].
    destruct (calc_pipe_dlv _ _ _ _ _ _ _ _ E) as [F Eu]. pose proof (Forall2_len _ _ _ _ _ F) as Hl.
    destruct K2 as (Hu & K2). rewrite Eph in K2. destruct K2 as (T0 & Hh & k & Q1 & Q2 & Q3).
    unfold HRI, set_recovering. vsimpl_goal. cbn [rv_phase rc_total_retx rc_high_rxt].
    rewrite Eu. split; [exact Hu|]. split; [exact T0|]. split; [exact Hh|].
    exists k. unfold len_z in *. rewrite <- Hl. auto.
Qed.

Theorem poll_fast_strict : forall (s s' : vsock),
  LB 0 s -> ti s -> EF s -> is_recovering (v_recovery s) = false ->
  len_z (ss_segs (v_segs s)) <= L ->
  poll cci s = (s', PollPending) -> FC s'.
Proof.
  intros s s' HL Hti HE Hnr Hlen H.
  set (A0 := fun a : vsock => ti a /\ EF a /\ v_out a = [] /\ HRI L a).
  assert (Hctl : forall X (a : vsock) (m : step X), FA a -> sfp a m -> stR tiR a m ->
             stH FC (fun _ _ => True) FA m).
  { intros X a m (T & K & Hh) F Tt. destruct m as [a' x|a' e|]; cbn [sfp stR stH] in *; auto.
    split; [intros Tp Tf; congruence|]. intros _. split; [exact (Tt T)|]. split; [eapply IA_fpr; eauto|].
    destruct F as (E1 & _ & _ & _ & _ & _ & _ & _ & _ & _ & E12 & _). eapply HRI_eq; eauto. }
  assert (Hcc : forall X (a : vsock) (m : step X), FC a -> sfp a m -> stR qb a m ->
             stH FC (fun _ _ => True) FC m).
  { intros X a m K F Q. destruct m as [a' x|a' e|]; cbn [sfp stR stH] in *; auto.
    assert (K' : FC a').
    { eapply FC_fpr; [exact F| |exact K]. destruct Q as (_ & _ & _ & _ & _ & _ & _ & _ & _ & Q10 & _). exact Q10. }
    split; intros _; exact K'. }
  assert (HR : resH A0 FC FC (fun _ _ => True) s' PollPending).
  { apply (poll_H cci A0 FA FA FB FC FC FC (fun _ _ => True)) with (s := s); try exact H.
    - intros a (T & E & O & Hh). split; [apply (poll_start_ti a T)|].
      split; [|eapply HRI_eq; [| |exact Hh]; reflexivity].
      split; [exact E|]. split; [reflexivity|]. split; [reflexivity|].
      change (v_out (poll_start a)) with (v_out a). rewrite O. constructor.
    - intros a K _. apply (Hctl _ a); [exact K | apply maybe_send_syn_ack_fpr | apply maybe_send_syn_ack_ti].
    - intros a K _. apply (Hctl _ a); [exact K | apply send_ack_fpr | apply send_ack_ti].
    - intros a (T & K & Hh) _. pose proof (process_all_incoming_messages_ti cci a) as T'.
      pose proof (pim_FA a (conj K Hh)) as PI.
      destruct (process_all_incoming_messages cci a) as [a' x|a' e|]; cbn [stR spI stH] in *; auto.
      split; [intros Tp Tf; congruence|]. intros _. split; [exact (T' T) | exact PI].
    - intros a rx1 fb w (T & K & Hh) _ _. split; [apply (rx_flush_ti a rx1 (rx_wakes w) T)|].
      split; [eapply IA_fpr; [|exact K]; unfold add_wakes; fpr_leaf|].
      apply HRI_HRK. eapply HRI_eq; [| |exact Hh]; reflexivity.
    - auto.
    - intros a (T & K & Hh) _. pose proof (split_tx_queue_into_segments_ti cci a) as T'.
      pose proof (split_skr cci a) as PS. pose proof (split_tx_queue_into_segments_qb cci a) as PQ.
      pose proof (split_snd_una a) as PU.
      destruct (split_tx_queue_into_segments cci a) as [a' x|a' e|]; cbn [stR stB] in *; auto.
      split; [exact (T' T)|]. split; [eapply IA_skr; eauto|].
      destruct PQ as (_ & _ & Q3 & _). unfold HRK in *. rewrite Q3, (PU a' x eq_refl). exact Hh.
    - (* send_tx_queue *)
      intros a (T & (K1 & K2 & K3 & K4) & Hh) Ta Ra.
      pose proof (send_tx_queue_rpR a) as PR. pose proof (stq_fast a) as PF.
      pose proof (stq_strict_tshape a) as PS.
      destruct (send_tx_queue cci a) as [a' x|a' e|] eqn:Es; cbn [stR stQ] in *; auto.
      destruct (PS a' x K1 eq_refl) as [PS1 PS2]. unfold tshape in PS1. injection PS1 as S1 S2 S3.
      assert (KF : FC a').
      { intros Tp C rc' i Hp Hf Hd Hl Hs.
        destruct PR as [PR1 PR2].
        destruct (rv_phase (v_recovery a)) as [rp|dd|rc] eqn:Ea.
        { assert (Kn : is_recovering (v_recovery a) = false) by (unfold is_recovering; rewrite Ea; reflexivity).
          apply PR1 in Kn. unfold is_recovering in Kn. rewrite Hp in Kn. discriminate. }
        { assert (Kn : is_recovering (v_recovery a) = false) by (unfold is_recovering; rewrite Ea; reflexivity).
          apply PR1 in Kn. unfold is_recovering in Kn. rewrite Hp in Kn. discriminate. }
        unfold HRK in Hh. rewrite Ea in Hh. destruct Hh as (T0 & Hhr & k & Q1 & Q2).
        pose proof (PR2 rc rc' eq_refl Hp) as Hrp.
        assert (Hfa : fu (ss_segs (v_segs a)) = Some i).
        { unfold fu in *. rewrite <- (fu_from_dview _ _ 0%nat S1). exact Hf. }
        destruct (fu_iter _ _ Hfa) as (f0 & r0 & Hit & Hidx & Hseq).
        rewrite S2, Hrp in Hs. rewrite S3 in Hd. rewrite S2.
        assert (Hhigh : seq_le (fs_seq f0) (rc_high_rxt rc) = false).
        { rewrite Hseq, Q2. rewrite wadd16_wadd16 by lia. unfold wadd16, seq_le, seq_sub.
          rewrite (Z.mod_small (k + Z.of_nat i)) by (unfold M16; lia).
          rewrite offset_true_distance; unfold WRAP_TOLERANCE; try lia; try (apply Z.leb_gt; lia). }
        rewrite <- Hseq in Hs.
        destruct (rec_items_head a rc f0 r0 Hit Hd Hhigh Hs) as (rest & Hri).
        destruct (PF a' x rc f0 rest eq_refl T Ta Tp C eq_refl T0 Hri) as [(more & Ho) _].
        exists (data_pkt a (outgoing_header a) f0). split; [rewrite Ho; apply in_or_app; right; left; reflexivity|].
        split; [reflexivity|]. unfold data_pkt, data_hdr. cbn [p_hdr ch_seq]. exact Hseq. }
      split; [intro Rb; congruence|]. split; intros _ _; exact KF.
    - intros a K Ta. eapply FC_fpr; [apply transition_fpr| |exact K]. intro Kp. congruence.
    - intros a K _. apply (Hcc _ a); [exact K | apply maybe_send_fin_fpr | apply maybe_send_fin_qb].
    - intros a K _. apply (Hcc _ a); [exact K | apply maybe_send_ack_fpr | apply maybe_send_ack_qb].
    - split; [exact Hti|]. split; [exact HE|]. split; [reflexivity|].
      split; [apply HL|]. unfold is_recovering in Hnr.
      change (v_recovery (poll_init s)) with (v_recovery s). change (v_segs (poll_init s)) with (v_segs s).
      destruct (rv_phase (v_recovery s)); [exact Hlen | exact Hlen | discriminate]. }
  cbn [resH] in HR. destruct HR as [[Tp _]|(sb & K & _ & _ & _ & ->)].
  - intros T. congruence.
  - eapply FC_fpr; [apply poll_tail_fpr| |exact K].
    destruct (poll_tail_fields sb) as (_ & _ & _ & _ & _ & _ & _ & _ & _ & _ & F11 & _). intro Kp. congruence.
Qed.

End Fast.

End WithCC.

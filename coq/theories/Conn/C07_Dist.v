(* C07 — the exact form of the monitored precondition c07_pre: in every reachable state the modular
   distance of last_consumed_remote_seq_nr from last_sent_ack_nr is some k with k <= consumed_but_unacked_bytes
   and k >= 1 when that counter is positive (unless the counter is usize::MAX: ACK forced).
   [sa]: the sending path leaves last_consumed and the receive half alone and either leaves
   (last_sent_ack_nr, consumed_but_unacked_bytes) alone or sets them to (last_consumed, 0): every packet
   carries the current ack number.
   [DI]: the invariant (with Rx/Rx_NoEof.ne), through every function of poll_body and every event. *)
From Utp Require Import Base.Prelude Wire.SeqNr Wire.SeqNr_Proofs Wire.Header Rtt.Rtte Mtu.SegSizes
  Rx.Rx Rx.Rx_Proofs Rx.Rx_NoEof Tx.Ring Tx.Segments Conn.Recovery Conn.Msg Conn.VSockRec Conn.VSock
  Conn.VSockRun Conn.VObs Conn.VSock_LemmasTx Conn.VSock_LemmasIn Conn.VSock_Lemmas Conn.VSock_LemmasStep
  Conn.VSock_LemmasReach Conn.VSock_LemmasTimers Conn.VSock_LemmasPipe
  Conn.C07_Pred Conn.C07_Proofs Conn.C07_Pred2.

Section WithCC.
Context {CC : Type} (cci : cc_iface CC).
Notation vsock := (vsock CC).

(* ------------------------------------------------------------------ sa: the sending path *)
Definition sa (s s' : vsock) : Prop :=
  v_last_consumed s' = v_last_consumed s /\ v_rx s' = v_rx s /\
  ((v_last_sent_ack_nr s' = v_last_sent_ack_nr s /\ v_cbu s' = v_cbu s) \/
   (v_last_sent_ack_nr s' = v_last_consumed s /\ v_cbu s' = 0)).

Lemma sa_refl : forall s, sa s s.
Proof. intros s. unfold sa. repeat split. left. split; reflexivity. Qed.

Lemma sa_trans : forall a b c, sa a b -> sa b c -> sa a c.
Proof.
  intros a b c (A1 & A2 & A3) (B1 & B2 & B3). unfold sa.
  split; [congruence|]. split; [congruence|].
  destruct B3 as [[B3 B4]|[B3 B4]].
  - destruct A3 as [[A3 A4]|[A3 A4]]; [left | right]; split; congruence.
  - right. split; congruence.
Qed.

Lemma sa_same : forall s a b : vsock, sa s a ->
  v_last_consumed b = v_last_consumed a -> v_rx b = v_rx a ->
  v_last_sent_ack_nr b = v_last_sent_ack_nr a -> v_cbu b = v_cbu a -> sa s b.
Proof.
  intros s a b (A1 & A2 & A3) B1 B2 B3 B4. unfold sa.
  split; [congruence|]. split; [congruence|].
  destruct A3 as [[A3 A4]|[A3 A4]]; [left | right]; split; congruence.
Qed.

Notation sts := (stR sa).

Ltac sa_leaf := match goal with |- sa ?a _ => apply (sa_same a a); [apply sa_refl | exact eq_refl ..] end.
Ltac sa_via H := eapply sa_same; [exact H | exact eq_refl ..].

(* sbind where the continuation may use what the first part kept *)
Lemma sa_sbind : forall A B (m : step A) (f : vsock -> A -> step B) s,
  sts s m -> (forall s1 a, sa s s1 -> sts s1 (f s1 a)) -> sts s (sbind m f).
Proof.
  intros A B m f s Hm Hf. destruct m as [s1 a|s1 e|]; cbn [sbind stR] in *; auto.
  specialize (Hf s1 a Hm). destruct (f s1 a); cbn [stR] in *; auto; eapply sa_trans; eauto.
Qed.

Lemma next_send_sa : forall (s : vsock) n s1 o, next_send s n = (s1, o) -> sa s s1.
Proof.
  intros s n s1 o H. unfold next_send in H.
  repeat break_match_hyp H; inversion H; subst; try inversion Heqp; subst; sa_leaf.
Qed.

Lemma sa_emit_sent : forall (s s1 : vsock) p h,
  sa s s1 -> ch_ack h = v_last_consumed s -> sa s (on_packet_sent (emit s1 p) h).
Proof.
  intros s s1 p h (A1 & A2 & _) Hh. unfold sa, on_packet_sent, emit. vsimpl_goal.
  split; [exact A1|]. split; [exact A2|]. right. split; [exact Hh | reflexivity].
Qed.

Lemma send_control_packet_sa : forall (s : vsock) h,
  ch_ack h = v_last_consumed s -> sts s (send_control_packet s h).
Proof.
  intros s h Hh. unfold send_control_packet.
  destruct (v_transport_pending s); [apply sa_refl|].
  destruct (next_send s _) as [s1 o] eqn:E. apply next_send_sa in E.
  destruct o; cbn [stR]; auto. apply sa_emit_sent; assumption.
Qed.

Lemma send_ack_sa : forall (s : vsock), sts s (send_ack s).
Proof. intros s. unfold send_ack. apply send_control_packet_sa. reflexivity. Qed.

Lemma maybe_send_fin_sa : forall (s : vsock), sts s (maybe_send_fin s).
Proof.
  intros s. unfold maybe_send_fin.
  destruct (v_transport_pending s); [apply sa_refl|].
  destruct (our_fin_if_unacked (v_state s)); [|apply sa_refl].
  destruct (negb _); [apply sa_refl|].
  apply (stR_sbind sa sa_trans); [apply send_control_packet_sa; reflexivity|].
  intros s1 [|]; cbn [stR]; [sa_leaf | apply sa_refl].
Qed.

Lemma send_data_sa : forall (s : vsock) h f,
  ch_ack h = v_last_consumed s -> sts s (send_data s h f).
Proof.
  intros s h f Hh. unfold send_data.
  destruct (_ =? o_max_retx _); [apply sa_refl|].
  destruct (_ <? 0); [exact I|].
  destruct (_ <? fs_payload_offset f); [apply sa_refl|].
  destruct (_ <? _ + _); [apply sa_refl|].
  destruct (next_send s _) as [s1 o] eqn:E. apply next_send_sa in E.
  destruct o; cbn [stR]; auto; try (sa_via E).
  match goal with |- context [emit s1 ?p] =>
    match goal with |- context [on_packet_sent _ ?hd] =>
      pose proof (sa_emit_sent s s1 p hd E Hh) as F end end.
  destruct (seq_gt _ _); try destruct (seq_gt _ _); exact F.
Qed.

Lemma on_rto_reactions_sa : forall (s s1 : vsock), on_rto_reactions cci s = Some s1 -> sa s s1.
Proof.
  intros s s1 H. unfold on_rto_reactions in H.
  destruct (Rtte.on_rto_timeout _); inversion H; subst. sa_leaf.
Qed.

Lemma sa_lc : forall (s s1 : vsock) h, sa s s1 -> ch_ack h = v_last_consumed s -> ch_ack h = v_last_consumed s1.
Proof. intros s s1 h (A1 & _) H. congruence. Qed.

Lemma recovery_loop_sa : forall items (s : vsock) h mss0 st,
  ch_ack h = v_last_consumed s -> sts s (recovery_loop items s h mss0 st).
Proof.
  induction items as [|f rest IH]; intros s h mss0 st Hh; cbn [recovery_loop].
  - apply sa_refl.
  - destruct (negb _); [apply sa_refl|].
    destruct (_ && negb (sg_lost _)); [apply IH; exact Hh|].
    destruct (_ && negb (sg_sacks_after _)); [apply sa_refl|].
    pose proof (send_data_sa s h f Hh) as F.
    destruct (send_data s h f) as [s1 r|s1 e|]; cbn [stR] in *; auto.
    destruct r; cbn [stR]; auto.
    eapply (stR_weaken sa sa_trans); [exact F | apply IH; eapply sa_lc; eassumption].
Qed.

Lemma new_data_loop_sa : forall items (s : vsock) h remaining,
  ch_ack h = v_last_consumed s -> sts s (new_data_loop items s h remaining).
Proof.
  induction items as [|f rest IH]; intros s h remaining Hh; cbn [new_data_loop].
  - apply sa_refl.
  - destruct (_ <? _); [apply sa_refl|].
    pose proof (send_data_sa s h f Hh) as F.
    destruct (send_data s h f) as [s1 r|s1 e|]; cbn [stR] in *; auto.
    destruct r; cbn [stR]; auto.
    eapply (stR_weaken sa sa_trans); [exact F | apply IH; eapply sa_lc; eassumption].
Qed.

Lemma set_recovering_sa : forall (s : vsock) rc, sa s (set_recovering s rc).
Proof. intros. unfold set_recovering. sa_leaf. Qed.

Lemma send_tx_queue_sa : forall (s : vsock), sts s (send_tx_queue cci s).
Proof.
  intros s. unfold send_tx_queue.
  destruct (v_transport_pending s); [apply sa_refl|].
  assert (Hh : ch_ack (outgoing_header s) = v_last_consumed s) by reflexivity.
  apply sa_sbind.
  - destruct (timer_expired _ _); [|apply sa_refl].
    destruct (iter_for_sending _ _) as [|f l].
    + destruct (our_fin_if_unacked _); [|cbn [stR]; sa_leaf].
      destruct (_ =? _); [|cbn [stR]; sa_leaf].
      apply (stR_weaken sa sa_trans) with (s := set_last_sent_seq_nr s (wsub16 (v_last_sent_seq_nr s) 1));
        [sa_leaf|].
      apply (stR_sbind sa sa_trans); [apply maybe_send_fin_sa|].
      intros s1 a. destruct a; [|apply sa_refl].
      destruct (on_rto_reactions cci s1) eqn:E; [|exact I]. apply on_rto_reactions_sa in E.
      cbn [stR]. sa_via E.
    + pose proof (send_data_sa s (outgoing_header s) f Hh) as Hd.
      destruct (send_data _ _ f) as [s1 r|s1 e|]; cbn [stR] in *; auto.
      destruct r; cbn [stR]; auto.
      cbv zeta.
      match goal with |- stR _ _ (match ?o with _ => _ end) => destruct o as [s2|] eqn:E end; [|exact I].
      assert (F2 : sa s1 s2).
      { destruct (negb _); [apply on_rto_reactions_sa; exact E|injection E as <-; apply sa_refl]. }
      cbn [stR]. pose proof (sa_trans _ _ _ Hd F2) as F3. sa_via F3.
  - intros s1 ret S1. destruct ret; [apply sa_refl|].
    destruct (0 <? _); [apply sa_refl|]. destruct (ss_segs _); [apply sa_refl|].
    pose proof (sa_lc _ _ _ S1 Hh) as Hh1.
    apply sa_sbind.
    + destruct (rv_phase _); try apply sa_refl.
      apply (stR_sbind sa sa_trans); [apply recovery_loop_sa; exact Hh1|].
      intros s2 [st early]. cbv beta iota zeta.
      destruct early; [apply set_recovering_sa|].
      match goal with |- stR _ _ (match our_fin_if_unacked (v_state ?y) with _ => _ end) =>
        assert (F3 : sa s2 y); [|revert F3; generalize y; intros sy F3] end.
      { eapply sa_trans; [apply set_recovering_sa|].
        destruct (_ <? _); [|apply sa_refl]. destruct (rc_recalc _); [sa_leaf|].
        destruct (0 <? _); [sa_leaf|apply sa_refl]. }
      destruct (our_fin_if_unacked _); [destruct (_ =? _)|]; cbn [stR]; auto.
    + intros s2 ret S2. destruct ret; [apply sa_refl|].
      apply (stR_sbind sa sa_trans); [apply new_data_loop_sa; eapply sa_lc; eassumption|].
      intros s3 tl. destruct tl as [[sq sz]|]; [|apply sa_refl].
      destruct (pop_mtu_probe _ _) as [segs' popped]. destruct popped; cbn [stR]; [sa_leaf|apply sa_refl].
Qed.

Lemma maybe_send_ack_sa : forall (s : vsock), sts s (maybe_send_ack s).
Proof.
  intros s. unfold maybe_send_ack.
  pose proof (send_ack_sa s) as G.
  destruct (immediate_ack_to_transmit s); [exact G|].
  destruct (should_send_window_update s); [exact G|].
  destruct (timer_expired _ _).
  - destruct (ack_to_transmit s); [exact G|]. cbn [stR]. sa_leaf.
  - destruct (0 <? v_cbu s); cbn [stR]; sa_leaf.
Qed.

Lemma maybe_send_syn_ack_sa : forall (s : vsock), sts s (maybe_send_syn_ack s).
Proof.
  intros s. unfold maybe_send_syn_ack.
  assert (G : forall c, sts s
     (if c =? o_max_retx (v_opts s) then SErr s ErrMaxSynAckRetransmissionsReached
      else sbind (send_ack s) (fun s1 sent =>
        if sent then SOk (set_t_syn_ack_resend (set_state s1 (SynAckSent (c + 1)))
               (timer_arm (v_t_syn_ack_resend s1) (v_now s1) SYNACK_RESEND_INTERNAL true)) tt
        else SOk s1 tt))).
  { intros c. destruct (_ =? _); [apply sa_refl|].
    apply (stR_sbind sa sa_trans); [apply send_ack_sa|].
    intros s1 [|]; cbn [stR]; [sa_leaf | apply sa_refl]. }
  destruct (v_state s); try (cbn [stR]; sa_leaf).
  - apply G.
  - destruct (timer_expired _ _); [apply G | apply sa_refl].
Qed.

Lemma transition_to_fin_wait_1_sa : forall (s : vsock), sa s (transition_to_fin_wait_1 s).
Proof. intros s. unfold transition_to_fin_wait_1. destruct (v_state s); first [apply sa_refl | sa_leaf]. Qed.

Lemma split_tx_queue_into_segments_sa : forall (s : vsock), sts s (split_tx_queue_into_segments cci s).
Proof.
  intros s. unfold split_tx_queue_into_segments.
  destruct (_ =? 0); [cbn [stR]; sa_leaf|].
  match goal with |- context [is_remote_fin_or_later (v_state ?x)] => set (s1 := x) end.
  assert (F1 : sa s s1).
  { subst s1. destruct (_ && _); [|apply sa_refl].
    destruct (grow _ _) as [tx1 g]. destruct g; [destruct (wake_writer tx1)|]; unfold add_wakes; sa_leaf. }
  clearbody s1.
  destruct (is_remote_fin_or_later _); [exact F1|].
  destruct (pop_expired_mtu_probe _ _ _) as [segs1 pe].
  assert (Hcont : forall s2 : vsock, sa s s2 ->
    sts s
      (if Z.of_nat (length (ring (v_tx s))) <? ss_len_bytes (v_segs s2)
       then SErr s2 (ErrBug BugInBufferComputations)
       else match segment_loop (ring (v_tx s2)) (o_nagle (v_opts s2)) (v_ss s2) (v_segs s2)
                    (Z.of_nat (length (ring (v_tx s))) - ss_len_bytes (v_segs s2))
                    (v_last_remote_window s2) with
            | Some (ss', segs', remaining) =>
                SOk (set_unsegmented (VSockRec.set_segs (set_ss s2 ss') segs') remaining) tt
            | None => SPanic
            end)).
  { intros s2 F2. destruct (_ <? _); [exact F2|].
    destruct (segment_loop _ _ _ _ _ _) as [[[ss' segs'] rem']|]; [|exact I].
    cbn [stR]. sa_via F2. }
  destruct pe.
  - apply Hcont. eapply sa_trans; [exact F1|]. destruct (seq_gt _ _); sa_leaf.
  - cbn [stR]. sa_via F1.
  - apply Hcont. exact F1.
Qed.

Lemma paim_rest_sa : forall (s1 : vsock) r, sts s1 (paim_rest s1 r).
Proof.
  intros s1 r. unfold paim_rest.
  match goal with |- stR sa s1 (sbind ?m _) =>
    match m with context [acked_counts_as_sent ?x] => set (s2 := x) end end.
  assert (F2 : sa s1 s2).
  { subst s2. unfold restart_remote_inactivity_timer. repeat break_match; first [apply sa_refl | sa_leaf]. }
  clearbody s2.
  apply (stR_weaken sa sa_trans) with (s := s2); [exact F2|].
  apply (stR_sbind sa sa_trans).
  - destruct (0 <? _); [|apply sa_refl].
    assert (F2' : sa s2 (acked_counts_as_sent s2)).
    { unfold acked_counts_as_sent. destruct (seq_gt _ _ && seq_lt _ _); [sa_leaf | apply sa_refl]. }
    apply (stR_weaken sa sa_trans) with (s := acked_counts_as_sent s2); [exact F2'|].
    generalize (acked_counts_as_sent s2). intro s2'.
    destruct (truncate_front _ _) as [tx1 tr].
    destruct tr; [|cbn [stR]; sa_leaf].
    destruct (wake_writer tx1) as [tx2 w]. cbn [stR]. unfold add_wakes. sa_leaf.
  - intros s3 _. unfold set_recovering. repeat break_match; cbn [stR]; first [exact I | apply sa_refl | sa_leaf].
Qed.

(* ------------------------------------------------------------------ the invariant *)
Definition rng (x : Z) : Prop := 0 <= x < M16.

Definition dist (s : vsock) : Prop :=
  rng (v_last_consumed s) /\ rng (v_last_sent_ack_nr s) /\
  (v_cbu s < USIZE_MAX ->
   exists k, 0 <= k <= v_cbu s /\ (0 < v_cbu s -> 1 <= k) /\
             (v_last_consumed s - v_last_sent_ack_nr s - k) mod M16 = 0).

Definition DI (s : vsock) : Prop := ne (v_rx s) /\ dist s.

Lemma sa_DI (s s' : vsock) : sa s s' -> DI s -> DI s'.
Proof.
  intros (A1 & A2 & A3) (Hn & R1 & R2 & K). unfold DI, dist. rewrite A1, A2.
  split; [exact Hn|]. split; [exact R1|].
  destruct A3 as [[A3 A4]|[A3 A4]]; rewrite A3, A4.
  - split; [exact R2 | exact K].
  - split; [exact R1|]. intros _. exists 0. split; [lia|]. split; [lia|].
    replace (v_last_consumed s - v_last_consumed s - 0) with 0 by lia. reflexivity.
Qed.

Lemma sts_DI X (s : vsock) (m : step X) : sts s m -> DI s -> stU DI m.
Proof. intros K H. destruct m; cbn [stR stU] in *; auto. eapply sa_DI; eassumption. Qed.

(* a forced ACK: only the ranges matter *)
Lemma DI_forced (s : vsock) : ne (v_rx s) -> rng (v_last_consumed s) -> rng (v_last_sent_ack_nr s) ->
  v_cbu s = USIZE_MAX -> DI s.
Proof. intros Hn R1 R2 C. split; [exact Hn|]. split; [exact R1|]. split; [exact R2|]. lia. Qed.

Lemma stU_sbind' X Y (P : vsock -> Prop) (m : step X) (f : vsock -> X -> step Y) :
  stU P m -> (forall s1 a, P s1 -> stU P (f s1 a)) -> stU P (sbind m f).
Proof. intros Hm Hf. destruct m as [s1 a| |]; cbn [sbind stU] in *; auto. Qed.

(* ---- incoming messages ---- *)
Lemma state_table_sa : forall (s : vsock) h,
  match state_table s h with TblDrop s1 | TblErr s1 _ | TblContinue s1 => sa s s1 end.
Proof.
  intros s h. unfold state_table, restart_remote_inactivity_timer.
  repeat break_match; first [apply sa_refl | sa_leaf].
Qed.

(* a FIN that gets through while the peer's FIN has not been seen is in sequence *)
Lemma state_table_fin_in_seq : forall (s s1 : vsock) h,
  state_table s h = TblContinue s1 -> ch_type h = ST_FIN -> is_remote_fin_or_later (v_state s) = false ->
  ch_seq h = wadd16 (v_last_consumed s) 1.
Proof.
  intros s s1 h H Ht Hs. unfold state_table in H. rewrite Ht in H.
  destruct (v_state s); try discriminate; cbn [negb] in H;
    repeat match type of H with context [if ?c then _ else _] => destruct c eqn:? end;
    try discriminate;
    match goal with E : negb (ch_seq h =? _) = false |- _ =>
      rewrite negb_false_iff in E; apply Z.eqb_eq in E; exact E end.
Qed.

Lemma pim_ack_sa (s1 : vsock) h s2 res : pim_ack cci s1 h = Some (s2, res) -> sa s1 s2.
Proof.
  unfold pim_ack. destruct (remove_up_to_ack _ _ _ _) as [segs1 res0].
  destruct (match is_recovering (v_recovery s1) with true => _ | false => _ end) as [rtte1|]; [|discriminate].
  destruct (cc_on_ack cci _ _ _ _) as [cc3|]; [|discriminate].
  destruct (recovery_on_ack cci _ _ _ _ _ _ _) as [[[rec1 segs2] cc4]|]; [|discriminate].
  intro H; injection H as <- _. sa_leaf.
Qed.

Lemma seq_sub_self x : seq_sub x x = 0.
Proof. unfold seq_sub, seq_nr_offset. rewrite Z.ltb_irrefl, Z.eqb_refl. reflexivity. Qed.

Lemma wadd16_rng a b : rng (wadd16 a b).
Proof. unfold rng, wadd16, M16. lia. Qed.

Lemma pim_data_DI (s2 : vsock) m res offset : DI s2 -> stU DI (pim_data cci s2 m res offset).
Proof.
  intros (Hn & R1 & R2 & K). unfold pim_data. destruct (offset <? 0) eqn:Eo.
  { cbn [stU]. apply DI_forced; try assumption. reflexivity. }
  cbv zeta.
  destruct (rx_add_remove _ KData (m_payload m) offset) as [[rx1 ar] w] eqn:Ea.
  cbn [v_rx set_cc set_ss] in Ea.
  assert (Ho : 0 <= offset) by lia.
  destruct (rx_add_data_ne _ _ _ _ _ _ Hn Ho Ea) as [Hn1 Hc].
  destruct ar as [a|]; [|exact I]. destruct (add_err a); [exact I|].
  match goal with |- context [send_ack (force_immediate_ack ?x)] => set (s5 := x) end.
  assert (D5 : DI s5).
  { subst s5. destruct a; try (split; [exact Hn1 | split; [exact R1 | split; [exact R2 | exact K]]]).
    destruct (Hc _ _ eq_refl) as [Hnb Hz]. unfold restart_remote_inactivity_timer, add_wakes.
    split; [exact Hn1|]. unfold dist. vsimpl_goal.
    split; [apply wadd16_rng|]. split; [exact R2|].
    unfold sat_add_usize. intro Hlt.
    destruct K as (k & K1 & K2 & K3); [lia|].
    exists (k + sequence_numbers). split; [lia|]. split; [lia|].
    unfold wadd16, M16 in *. lia. }
  clearbody s5.
  destruct (_ || _); [|exact D5].
  apply stU_sbind'.
  - apply (sts_DI _ (force_immediate_ack s5)); [apply send_ack_sa|].
    destruct D5 as (Hn5 & R15 & R25 & _). apply DI_forced; try assumption. reflexivity.
  - intros s6 _ D6. exact D6.
Qed.

Lemma pim_fin_DI (s2 : vsock) m res offset seen :
  DI s2 ->
  (seen = false -> ch_seq (m_hdr m) = wadd16 (v_last_consumed s2) 1) ->
  offset = seq_sub (ch_seq (m_hdr m)) (wadd16 (v_last_consumed s2) 1) ->
  stU DI (pim_fin s2 m res offset seen).
Proof.
  intros (Hn & R1 & R2 & K) Hs Ho. unfold pim_fin. cbv zeta.
  destruct seen; cbn [negb andb].
  { cbn [stU]. apply DI_forced; try assumption. reflexivity. }
  specialize (Hs eq_refl). rewrite Hs in Ho. rewrite seq_sub_self in Ho. subst offset. cbn [Z.leb Z.compare].
  destruct (rx_add_remove _ KFin (m_payload m) 0) as [[rx1 ar] w] eqn:Ea.
  cbn [v_rx set_last_consumed force_immediate_ack set_cbu] in Ea.
  pose proof (rx_add_fin_ne _ _ _ _ _ Hn Ea) as Hn1.
  destruct ar as [a|]; [|exact I]. destruct (add_err a); [exact I|].
  destruct (mark_vsock_closed _) as [tx1 w2]. cbn [stU]. unfold add_wakes, force_immediate_ack.
  apply DI_forced; vsimpl_goal; try assumption; try reflexivity. rewrite Hs. apply wadd16_rng.
Qed.

Lemma process_incoming_message_DI (s : vsock) m : DI s -> stU DI (process_incoming_message cci s m).
Proof.
  intros H. rewrite process_incoming_message_eq.
  pose proof (state_table_sa s (m_hdr m)) as T.
  destruct (state_table s (m_hdr m)) as [s1|s1 e|s1] eqn:Es; cbn [stU]; auto.
  - eapply sa_DI; eassumption.
  - pose proof (sa_DI _ _ T H) as D1. unfold pim_cont.
    destruct (pim_ack cci s1 (m_hdr m)) as [[s2 res]|] eqn:Ea; [|exact I].
    pose proof (pim_ack_sa _ _ _ _ Ea) as S2. pose proof (sa_DI _ _ S2 D1) as D2.
    cbv zeta. destruct (ch_type (m_hdr m)) eqn:Et.
    + apply pim_data_DI. exact D2.
    + apply pim_fin_DI; [exact D2 | | reflexivity].
      intro Hseen. destruct S2 as (L2 & _). destruct T as (L1 & _). rewrite L2, L1.
      eapply state_table_fin_in_seq; eassumption.
    + exact D2.
    + exact D2.
    + exact D2.
Qed.

Lemma recv_loop_DI : forall fuel (s : vsock) acc, DI s -> stU DI (recv_loop cci fuel s acc).
Proof.
  assert (Hclosed : forall (s : vsock) (acc : on_ack_result), DI s ->
    stU DI (sbind (maybe_send_fin (transition_to_fin_wait_1 s))
                  (fun s2 _ => SOk (set_state s2 Closed) (acc, true)))).
  { intros s acc H. apply (sts_DI _ s); [|exact H].
    apply (stR_weaken sa sa_trans) with (s := transition_to_fin_wait_1 s);
      [apply transition_to_fin_wait_1_sa|].
    apply (stR_sbind sa sa_trans); [apply maybe_send_fin_sa|].
    intros s2 _. cbn [stR]. sa_leaf. }
  induction fuel as [|x fuel IH]; intros s acc H.
  - cbn [recv_loop]. destruct (v_inbox s).
    + destruct (v_inbox_closed s); [apply Hclosed; exact H|]. cbn [stU]. eapply sa_DI; [|exact H]. sa_leaf.
    + exact I.
  - cbn [recv_loop]. destruct (v_inbox s) as [|m rest].
    + destruct (v_inbox_closed s); [apply Hclosed; exact H|]. cbn [stU]. eapply sa_DI; [|exact H]. sa_leaf.
    + apply stU_sbind'.
      * apply process_incoming_message_DI. eapply sa_DI; [|exact H]. sa_leaf.
      * intros s1 r H1. destruct (_ || _); [exact H1 | apply IH; exact H1].
Qed.

Lemma paim_DI (s : vsock) : DI s -> stU DI (process_all_incoming_messages cci s).
Proof.
  intro H. rewrite paim_eq. apply stU_sbind'; [apply recv_loop_DI; exact H|].
  intros s1 res H1. apply (sts_DI _ s1); [apply paim_rest_sa | exact H1].
Qed.

(* ------------------------------------------------------------------ polls and events *)
Definition RD (a b : vsock) : Prop := DI a -> DI b.

Lemma sts_RDk X (s : vsock) (m : step X) : sts s m -> stRk RD s m.
Proof. intros K. destruct m; cbn [stR stRk] in *; auto. intro H. eapply sa_DI; eassumption. Qed.

Lemma poll_tail_sa (s : vsock) : sa s (poll_tail s).
Proof.
  destruct (poll_tail_fields s) as (F1 & _ & F3 & _ & _ & _ & _ & F8 & F9 & _).
  unfold sa. split; [exact F8|]. split; [exact F3|]. left. split; [exact F9 | exact F1].
Qed.

Theorem DI_poll_pending (s s' : vsock) : DI s -> poll cci s = (s', PollPending) -> DI s'.
Proof.
  intros Hs H.
  assert (P : pend_shape RD (poll_init s) s').
  { apply (poll_Rp cci RD); try exact H.
    - intros a K. exact K.
    - intros a b c F G K. auto.
    - intros a K. eapply sa_DI; [|exact K]. unfold poll_start. sa_leaf.
    - intro a. apply sts_RDk, maybe_send_syn_ack_sa.
    - intro a. apply sts_RDk, send_ack_sa.
    - intro a. pose proof (paim_DI a) as P.
      destruct (process_all_incoming_messages cci a) as [b u| |]; cbn [stRk stU] in *; auto.
    - intros a rx1 fb w E (Hn & Hd). split; [|exact Hd].
      unfold add_wakes. vsimpl_goal. eapply rx_flush_ne; eassumption.
    - intro a. apply sts_RDk, split_tx_queue_into_segments_sa.
    - intro a. apply sts_RDk, send_tx_queue_sa.
    - intros a K. eapply sa_DI; [apply transition_to_fin_wait_1_sa | exact K].
    - intro a. apply sts_RDk, maybe_send_fin_sa.
    - intro a. apply sts_RDk, maybe_send_ack_sa. }
  assert (H0 : DI (poll_init s)) by exact Hs.
  destruct P as [[_ P]|(sa0 & sb & b & P1 & _ & P2 & _ & _ & _ & ->)].
  - exact (P H0).
  - eapply sa_DI; [apply poll_tail_sa | exact (P2 (P1 H0))].
Qed.

Lemma DI_vstep_live (s : vsock) o :
  DI s -> poll_finished (vstep_out cci s o) = false -> DI (vstep_state cci s o).
Proof.
  intros Hs F. unfold vstep_state. destruct o; cbn [vstep].
  - exact Hs.
  - exact Hs.
  - destruct (poll cci (VSockRec.set_sends s script)) as [s' r] eqn:E. cbn [fst].
    destruct (vstep_poll cci s script s' _ E) as [_ Eo]. rewrite Eo in F.
    destruct r; try discriminate. eapply DI_poll_pending; [|exact E]. exact Hs.
  - destruct (v_inbox_closed s); exact Hs.
  - exact Hs.
  - destruct (writer_dropped _); [exact Hs|]. destruct (poll_write _ _) as [[tx1 r] w]. exact Hs.
  - destruct (writer_dropped _); [exact Hs|]. destruct (poll_flush _) as [[tx1 r] w]. exact Hs.
  - destruct (writer_dropped _); [exact Hs|]. destruct (poll_shutdown _) as [[tx1 r] w]. exact Hs.
  - destruct (reader_dropped _); [exact Hs|]. destruct (rx_read _ _) as [[rx1 r] w] eqn:E. cbn [fst].
    destruct Hs as [Hn Hd]. split; [|exact Hd]. cbn [v_rx set_rx]. eapply rx_read_ne; eassumption.
  - destruct (reader_dropped _); [exact Hs|]. destruct (rx_drop_reader _) as [rx1 w] eqn:E. cbn [fst].
    destruct Hs as [Hn Hd]. split; [|exact Hd]. cbn [v_rx set_rx]. eapply rx_drop_reader_ne; eassumption.
  - destruct (drop_writer _) as [tx1 w]. exact Hs.
Qed.

Lemma DI_vsock_new : forall mk c (s : vsock),
  0 <= vc_remote_seq c < M16 -> vsock_new cci mk c = Some s -> DI s.
Proof.
  intros mk c s Hr H. unfold vsock_new in H.
  destruct (match (if vc_incoming c then None else _) with Some r => _ | None => _ end); [|discriminate].
  inversion H; subst. unfold DI, dist. cbn [v_rx v_last_consumed v_last_sent_ack_nr v_cbu].
  split; [apply ne_build|].
  assert (R : rng (if vc_incoming c then vc_remote_seq c else wsub16 (vc_remote_seq c) 1)).
  { destruct (vc_incoming c); [exact Hr | unfold rng, wsub16, M16; lia]. }
  split; [exact R|]. split; [exact R|]. intros _. exists 0. split; [lia|]. split; [lia|].
  match goal with |- (?a - ?a - 0) mod _ = 0 => replace (a - a - 0) with 0 by lia end. reflexivity.
Qed.

(* ------------------------------------------------------------------ the predicates *)
Lemma c07_live_spec (s : vsock) o : c07_live (fstep_of cci s o) = negb (poll_finished (vstep_out cci s o)).
Proof.
  unfold c07_live. rewrite fstep_of_result. destruct (vstep_out cci s o) as [|r pk w a| | |rr]; try reflexivity.
  - destruct r; reflexivity.
  - destruct rr; reflexivity.
Qed.

Theorem c07_dist_ok_step : forall cfg (s : vsock) o, DI s -> c07_dist_ok cfg (fstep_of cci s o) = true.
Proof.
  intros cfg s o Hs. unfold c07_dist_ok. cbv zeta. rewrite c07_live_spec.
  destruct (poll_finished (vstep_out cci s o)) eqn:F; [reflexivity|]. cbn [negb andb].
  pose proof (DI_vstep_live s o Hs F) as (_ & R1 & R2 & K).
  rewrite fstep_of_post. cbn [fp_of_vsock f_cbu f_last_consumed f_last_sent_ack_nr].
  set (s' := vstep_state cci s o) in *. clearbody s'.
  destruct (Z.ltb_spec 0 (v_cbu s')) as [H0|H0]; [|reflexivity].
  destruct (Z.ltb_spec (v_cbu s') M16) as [H1|H1]; [|reflexivity]. cbn [andb].
  destruct K as (k & K1 & K2 & K3); [unfold USIZE_MAX, M64, M16 in *; lia|].
  specialize (K2 H0). unfold rng, wsub16, M16 in *. apply andb_true_intro. split; lia.
Qed.

Theorem c07_pre_monitor_g_step : forall cfg (s : vsock) o,
  DI s -> c07_pre_monitor_g cfg (fstep_of cci s o) = true.
Proof.
  intros cfg s o Hs. unfold c07_pre_monitor_g.
  destruct (c07_poll_done (fstep_of cci s o)) eqn:D; [|reflexivity]. cbn [andb].
  destruct o; try (rewrite not_poll_done in D; [discriminate | intros sc; discriminate]).
  destruct (poll cci (VSockRec.set_sends s script)) as [s' r] eqn:E.
  destruct (poll_done_inv cci s script s' r E D) as (R & T). subst r.
  rewrite (fstep_of_poll cci s script s' _ E). unfold c07_pre.
  cbn [fs_post fp_of_vsock f_cbu f_last_consumed f_last_sent_ack_nr].
  assert (Hs' : DI (VSockRec.set_sends s script)) by exact Hs.
  pose proof (DI_poll_pending _ _ Hs' E) as (_ & R1 & R2 & K).
  destruct (Z.leb_spec (v_cbu s') WRAP_TOLERANCE) as [H1|H1]; [|reflexivity].
  destruct (Z.ltb_spec 0 (v_cbu s')) as [H0|H0]; [|reflexivity].
  destruct K as (k & K1 & K2 & K3); [unfold USIZE_MAX, M64, WRAP_TOLERANCE in *; lia|].
  specialize (K2 H0). unfold seq_gt, seq_sub.
  rewrite (offset_true_distance_pair _ _ WRAP_TOLERANCE k R1 R2); [lia | unfold WRAP_TOLERANCE; lia | lia | exact K3].
Qed.

Theorem c07_dist_ok_every_trace : forall (cfg : vconfig) mk c (s0 : vsock) ops,
  0 <= vc_remote_seq c < M16 -> vsock_new cci mk c = Some s0 ->
  forallb (c07_dist_ok cfg) (ftrace cci s0 ops) = true.
Proof.
  intros cfg mk c s0 ops Hr H. apply (ftrace_forallb_live cci DI).
  - intros s o K. apply c07_dist_ok_step; exact K.
  - apply DI_vstep_live.
  - eapply DI_vsock_new; eassumption.
Qed.

Theorem c07_pre_monitor_g_every_trace : forall (cfg : vconfig) mk c (s0 : vsock) ops,
  0 <= vc_remote_seq c < M16 -> vsock_new cci mk c = Some s0 ->
  forallb (c07_pre_monitor_g cfg) (ftrace cci s0 ops) = true.
Proof.
  intros cfg mk c s0 ops Hr H. apply (ftrace_forallb_live cci DI).
  - intros s o K. apply c07_pre_monitor_g_step; exact K.
  - apply DI_vstep_live.
  - eapply DI_vsock_new; eassumption.
Qed.

End WithCC.

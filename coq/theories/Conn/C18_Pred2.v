(* C18 — Nagle: the two remaining clauses of DESIGN.md §6 as boolean predicates over one step of a
   connection trace (Conn/VObs.v), on what the fingerprint shows.  Model only: no proofs here.

   A poll is COMPLETED when it returns Pending with a writable transport: then the last iteration
   of its restart loop ran split_tx_queue_into_segments and everything after it. *)
From Utp Require Import Base.Prelude Wire.SeqNr Wire.Header Rtt.Rtte Mtu.SegSizes Rx.Rx Tx.Ring
  Tx.Segments Conn.Recovery Conn.Msg Conn.VSockRec Conn.VSock Conn.VSockRun Conn.VObs Conn.C18_Pred.

Definition c18_completed (st : fstep) : bool :=
  match fs_event st, fs_result st with
  | FePoll _, FrPoll PollPending _ _ _ => negb (f_transport_pending (fs_post st))
  | _, _ => false
  end.

(* (c18_off_all_segmented) Nagle off, no undelivered MTU probe outstanding (neither before the
   poll nor after it), peer FIN not seen, send buffer not empty: after a completed poll nothing
   is left unsegmented, or the peer's window was the limit: the bytes segmented in this poll use
   up the whole window (remote_window_remaining = 0 when the loop stopped). *)
Definition c18_off_all_segmented_ok (cfg : vconfig) (st : fstep) : bool :=
  if c18_completed st && negb (vc_nagle cfg)
     && c18_no_probe_last (fs_pre st) && c18_no_probe_last (fs_post st)
     && negb (is_remote_fin_or_later (f_state (fs_post st)))
     && (0 <? f_tx_len (fs_post st))
  then (f_unsegmented (fs_post st) =? 0)
       || (f_last_remote_window (fs_post st) <=? f_seg_offset (fs_post st) - f_seg_offset (fs_pre st))
  else true.

(* (c18_drain_sends) Nagle on or off: after a completed poll with the peer's FIN not seen and the
   peer's window open, buffered bytes that are not segmented (ring longer than the segmented
   length) imply a non-empty segment table: when the pipe has drained (empty table), whatever
   is buffered is segmented in that poll - Nagle never holds data back with nothing in flight. *)
Definition c18_drain_sends_ok (cfg : vconfig) (st : fstep) : bool :=
  if c18_completed st
     && negb (is_remote_fin_or_later (f_state (fs_post st)))
     && (0 <? f_last_remote_window (fs_post st))
     && (f_seg_len_bytes (fs_post st) <? f_tx_len (fs_post st))
  then nonempty (f_segs (fs_post st))
  else true.

(* the same clause as the sentence of the property: data buffered => something is segmented.
   After a completed poll with the peer's FIN not seen and the peer's window open, a non-empty
   send buffer implies a non-empty segment table. *)
Definition c18_buffered_segmented_ok (cfg : vconfig) (st : fstep) : bool :=
  if c18_completed st
     && negb (is_remote_fin_or_later (f_state (fs_post st)))
     && (0 <? f_last_remote_window (fs_post st))
     && (0 <? f_tx_len (fs_post st))
  then nonempty (f_segs (fs_post st))
  else true.

(* the guard of c18_nagle_ok, as an invariant: every segment lies below the next-byte offset *)
Definition c18_pre_ok (cfg : vconfig) (st : fstep) : bool :=
  c18_pre (fs_pre st) && c18_pre (fs_post st).

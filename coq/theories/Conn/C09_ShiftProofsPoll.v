(* C09 trace shift, layer 4: VirtualSocket::poll, one step of the connection-level trace, and the
   whole trace commute with the relabelling; the extracted predicate c09_shift_ok holds of the two
   model traces. *)
From Utp Require Import Base.Prelude Wire.SeqNr Wire.SeqNr_Proofs Wire.Header Rtt.Rtte Mtu.SegSizes Rx.Rx Tx.Ring
  Tx.Segments Conn.Recovery Conn.Msg Conn.VSockRec Conn.VSock Conn.VSockRun Conn.VObs
  Conn.C09_Pred Conn.C09_Shift Conn.C09_ShiftProofsSeq Conn.C09_ShiftProofsSeg Conn.C09_ShiftProofsRec
  Conn.C09_ShiftProofsTx Conn.C09_ShiftProofsIn.

Section Poll.
Variables da db dc : Z.
Context {CC : Type} (cci : cc_iface CC).
Notation vsock := (vsock CC).
Notation sh := (shift_vsock da db dc (CC:=CC)).
Notation so := (shift_out_hdr da db dc).
Notation si := (shift_in_hdr da db).
Notation sm := (shift_msg da db).
Notation sst := (shift_step da db dc (CC:=CC)).
Notation sbr := (shift_body_res da db dc (CC:=CC)).

Lemma ack_to_transmit_shift (s : vsock) : g_ack_to_transmit s = true ->
  ack_to_transmit (sh s) = ack_to_transmit s.
Proof.
  unfold g_ack_to_transmit, ack_to_transmit. intros G.
  now rewrite pj_last_consumed, pj_last_sent_ack_nr, (cmp_ok_seq_gt db _ _ G).
Qed.

Lemma maybe_send_ack_shift (s : vsock) : g_ack_to_transmit s = true ->
  maybe_send_ack (sh s) = sst idf (maybe_send_ack s).
Proof.
  intros G. unfold maybe_send_ack.
  rewrite immediate_ack_shift, should_send_window_update_shift, pj_t_ack_delay, pj_now, pj_cbu,
    (ack_to_transmit_shift s G).
  destruct (immediate_ack_to_transmit s); [apply send_ack_shift|].
  destruct (should_send_window_update s); [apply send_ack_shift|].
  destruct (timer_expired (v_t_ack_delay s) (v_now s)).
  - destruct (ack_to_transmit s); [apply send_ack_shift|reflexivity].
  - destruct (0 <? v_cbu s); reflexivity.
Qed.

Lemma maybe_send_syn_ack_shift (s : vsock) :
  maybe_send_syn_ack (sh s) = sst idf (maybe_send_syn_ack s).
Proof.
  unfold maybe_send_syn_ack. rewrite pj_state, pj_opts, pj_t_syn_ack_resend, pj_now.
  assert (GO : forall c,
    (if c =? o_max_retx (v_opts s) then SErr (sh s) ErrMaxSynAckRetransmissionsReached
     else sbind (send_ack (sh s)) (fun s1 sent =>
       if sent then
         SOk (set_t_syn_ack_resend (set_state s1 (SynAckSent (c + 1)))
                (timer_arm (v_t_syn_ack_resend s1) (v_now s1) SYNACK_RESEND_INTERNAL true)) tt
       else SOk s1 tt)) =
    sst idf
    (if c =? o_max_retx (v_opts s) then SErr s ErrMaxSynAckRetransmissionsReached
     else sbind (send_ack s) (fun s1 sent =>
       if sent then
         SOk (set_t_syn_ack_resend (set_state s1 (SynAckSent (c + 1)))
                (timer_arm (v_t_syn_ack_resend s1) (v_now s1) SYNACK_RESEND_INTERNAL true)) tt
       else SOk s1 tt))).
  { intros c. destruct (c =? o_max_retx (v_opts s)); [reflexivity|].
    eapply (sbind_shift da db dc idf idf). { apply send_ack_shift. }
    intros s1 sent _. unfold idf. destruct sent; reflexivity. }
  destruct (v_state s) as [|c| |f| |f r|]; cbn [shift_state]; try reflexivity.
  - apply GO.
  - destruct (timer_expired (v_t_syn_ack_resend s) (v_now s)); [apply GO|reflexivity].
Qed.

Lemma mark_both_closed_shift (s : vsock) : mark_both_closed (sh s) = sh (mark_both_closed s).
Proof.
  unfold mark_both_closed. rewrite pj_rx, pj_tx.
  destruct (rx_mark_vsock_closed (v_rx s)) as [rx1 w1]. destruct (mark_vsock_closed (v_tx s)) as [tx1 w2].
  reflexivity.
Qed.

Lemma just_before_death_shift (s : vsock) err :
  just_before_death (sh s) err = sh (just_before_death s err).
Proof.
  unfold just_before_death. destruct err as [e|].
  - rewrite pj_rx. destruct (rx_enqueue_error (v_rx s)) as [rx1 w].
    rewrite st_rx, add_wakes_shift, mark_both_closed_shift.
    set (s2 := mark_both_closed _).
    rewrite pj_state, is_local_fin_shift.
    destruct (negb (is_local_fin_or_later (v_state s2))); [|reflexivity].
    rewrite outgoing_header_shift, pj_seq_nr, hdr_with_shift, sh16_wadd16, st_seq_nr,
      send_control_packet_shift.
    destruct (send_control_packet _ _) as [s4 b|s4 e'|]; reflexivity.
  - apply mark_both_closed_shift.
Qed.

Lemma existsb_map {A B} (f : B -> bool) (g : A -> B) l : existsb f (map g l) = existsb (fun x => f (g x)) l.
Proof. induction l as [|x r IH]; [reflexivity|]. cbn [map existsb]. now rewrite IH. Qed.

Lemma unsent_data_exists_shift (s : vsock) : unsent_data_exists (sh s) = unsent_data_exists s.
Proof.
  unfold unsent_data_exists. rewrite pj_unsegmented, pj_segs, iter_for_sending_shift_none, existsb_map.
  reflexivity.
Qed.

Lemma should_close_shift (s : vsock) :
  should_close_on_own_initiative (sh s) = should_close_on_own_initiative s.
Proof.
  unfold should_close_on_own_initiative.
  now rewrite pj_rx, pj_tx, unsent_data_exists_shift, pj_state, is_local_fin_shift.
Qed.

Lemma next_timer_shift (s : vsock) :
  next_timer_to_poll (sh s) = (sh (fst (next_timer_to_poll s)), snd (next_timer_to_poll s)).
Proof. unfold next_timer_to_poll. rewrite pj_transport_pending. destruct (v_transport_pending s); reflexivity. Qed.

Lemma arm_in_shift (s : vsock) d : arm_in (sh s) d = sh (arm_in s d).
Proof. unfold arm_in. destruct (d <=? 0); reflexivity. Qed.

Lemma die_shift (s : vsock) e : die (sh s) e = sbr (die s e).
Proof. unfold die. rewrite just_before_death_shift. reflexivity. Qed.

Lemma bail_shift {A} (fa : A -> A) (m m' : step (CC:=CC) A) k k' (gk : vsock -> A -> bool) :
  m' = sst fa m -> gbail m gk = true ->
  (forall s a, gk s a = true -> k' (sh s) (fa a) = sbr (k s a)) ->
  bail m' k' = sbr (bail m k).
Proof.
  intros -> G H. destruct m as [s a|s e|]; cbn [bail shift_step gbail] in *.
  - rewrite pj_restart. destruct (v_restart s); [reflexivity|now apply H].
  - apply die_shift.
  - reflexivity.
Qed.

Lemma pend_shift {A} (fa : A -> A) (m m' : step (CC:=CC) A) k k' (gk : vsock -> A -> bool) :
  m' = sst fa m -> gpend m gk = true ->
  (forall s a, gk s a = true -> k' (sh s) (fa a) = sbr (k s a)) ->
  pend m' k' = sbr (pend m k).
Proof.
  intros E G H. unfold pend, gpend in *. eapply bail_shift; [exact E|exact G|].
  intros s a Gk. cbv beta in Gk. rewrite pj_transport_pending, pj_restart.
  destruct (v_transport_pending s); [reflexivity|]. destruct (v_restart s); [reflexivity|]. now apply H.
Qed.

Lemma gpend_true {A} (m : step (CC:=CC) A) : gpend m (fun _ _ => true) = true.
Proof.
  unfold gpend, gbail. destruct m as [s a| |]; try reflexivity.
  destruct (v_restart s); [reflexivity|]. destruct (v_transport_pending s); reflexivity.
Qed.

Lemma poll_body_shift (s0 : vsock) : g_poll_body cci s0 = true ->
  poll_body cci (sh s0) = sbr (poll_body cci s0).
Proof.
  unfold g_poll_body, poll_body. intros G.
  rewrite pj_env_now, st_transport_pending, st_now, st_restart.
  set (s := set_restart _ false) in *.
  eapply (pend_shift idf). { apply maybe_send_syn_ack_shift. } { exact G. }
  clear G s. intros s u G. cbv beta in G.
  eapply (pend_shift idf).
  { rewrite immediate_ack_shift. destruct (immediate_ack_to_transmit s); [apply send_ack_shift|reflexivity]. }
  { exact G. }
  clear G s u. intros s b G. cbv beta in G. apply andb_true_iff in G as [Ga G].
  eapply (pend_shift idf). { now apply process_all_shift. } { exact G. }
  clear Ga G s b. intros s u G. cbv beta in G.
  rewrite pj_rx. destruct (rx_flush (v_rx s)) as [[rx1 fr] w]. destruct fr as [fb|]; [|reflexivity].
  rewrite st_rx, add_wakes_shift.
  set (s' := add_wakes (set_rx s rx1) (rx_wakes w)) in *.
  rewrite pj_t_inactivity, pj_now.
  destruct (timer_expired (v_t_inactivity s') (v_now s')); [apply die_shift|].
  apply andb_true_iff in G as [Ga G].
  eapply (bail_shift idf). { now apply split_shift. } { exact G. }
  clear Ga G s' s u. intros s u G. cbv beta in G. apply andb_true_iff in G as [Ga G].
  eapply (pend_shift idf). { now apply send_tx_queue_shift. } { exact G. }
  clear Ga G s u. intros s u G. cbv beta zeta in G.
  rewrite should_close_shift.
  assert (E : (if should_close_on_own_initiative s then transition_to_fin_wait_1 (sh s) else sh s) =
              sh (if should_close_on_own_initiative s then transition_to_fin_wait_1 s else s)).
  { destruct (should_close_on_own_initiative s); [apply transition_to_fin_wait_1_shift|reflexivity]. }
  cbv zeta. rewrite E. clear E.
  set (s' := if should_close_on_own_initiative s then _ else s) in *.
  apply andb_true_iff in G as [Ga G].
  eapply (pend_shift idf). { now apply maybe_send_fin_shift. } { exact G. }
  clear Ga G s' s u. intros s b G. cbv beta in G.
  eapply (pend_shift idf). { now apply maybe_send_ack_shift. } { apply gpend_true. }
  clear G s b. intros s b _.
  rewrite pj_state, state_is_closed_shift, pj_opts.
  destruct (state_is_closed (v_state s) (o_wait_for_last_ack (v_opts s))).
  { rewrite just_before_death_shift. reflexivity. }
  rewrite is_local_fin_shift.
  assert (E : (if is_local_fin_or_later (v_state s)
               then set_t_inactivity (sh s) (timer_arm (v_t_inactivity (sh s)) (v_now (sh s))
                                               SHUTDOWN_FINAL_CHANCE_DELAY false)
               else sh s) =
              sh (if is_local_fin_or_later (v_state s)
                  then set_t_inactivity s (timer_arm (v_t_inactivity s) (v_now s)
                                             SHUTDOWN_FINAL_CHANCE_DELAY false)
                  else s)).
  { destruct (is_local_fin_or_later (v_state s)); reflexivity. }
  rewrite E. clear E.
  set (s' := if is_local_fin_or_later (v_state s) then _ else s).
  rewrite next_timer_shift. destruct (next_timer_to_poll s') as [s2 t]. cbn [fst snd].
  destruct t as [instant|]; [|reflexivity].
  rewrite pj_now, arm_in_shift. reflexivity.
Qed.

End Poll.

(* ------------------------------------------------------------------ reflexivity of the comparison
   functions of Conn/C09_Pred.v *)
Lemma oz_eqb_refl a : oz_eqb a a = true.
Proof. destruct a; [apply Z.eqb_refl|reflexivity]. Qed.

Lemma list_eqb_refl {A} (e : A -> A -> bool) : (forall x, e x x = true) -> forall l, list_eqb e l l = true.
Proof. intros H. induction l as [|x r IH]; [reflexivity|]. cbn [list_eqb]. now rewrite H, IH. Qed.

Lemma vstate_eqb_refl a : vstate_eqb a a = true.
Proof. destruct a; cbn [vstate_eqb]; rewrite ?Z.eqb_refl; reflexivity. Qed.

Lemma rphase_eqb_refl a : rphase_eqb a a = true.
Proof. destruct a; cbn [rphase_eqb]; rewrite ?Z.eqb_refl, ?oz_eqb_refl; reflexivity. Qed.

Lemma fseg_eqb_refl a : fseg_eqb a a = true.
Proof. unfold fseg_eqb. rewrite ?Z.eqb_refl, ?oz_eqb_refl, ?Bool.eqb_reflx. reflexivity. Qed.

Lemma vfp_eqb_refl a : vfp_eqb a a = true.
Proof.
  unfold vfp_eqb.
  rewrite vstate_eqb_refl, rphase_eqb_refl, (list_eqb_refl fseg_eqb fseg_eqb_refl).
  rewrite ?Z.eqb_refl, ?oz_eqb_refl, ?Bool.eqb_reflx. reflexivity.
Qed.

Lemma sack_eqb_refl a : sack_eqb a a = true.
Proof.
  destruct a as [k|]; [|reflexivity]. cbn [sack_eqb].
  now rewrite (list_eqb_refl Bool.eqb Bool.eqb_reflx), Z.eqb_refl.
Qed.

Lemma chdr_eqb_refl a : chdr_eqb a a = true.
Proof.
  unfold chdr_eqb, ptype_eqb. rewrite sack_eqb_refl, ?Z.eqb_refl, ?oz_eqb_refl. reflexivity.
Qed.

Lemma fpacket_eqb_refl a : fpacket_eqb a a = true.
Proof. unfold fpacket_eqb. now rewrite chdr_eqb_refl, Z.eqb_refl. Qed.

Lemma vwake_eqb_refl a : vwake_eqb a a = true.
Proof. destruct a; reflexivity. Qed.

Lemma poll_result_eqb_refl a : poll_result_eqb a a = true.
Proof. destruct a as [| |e|]; try reflexivity. destruct e; reflexivity. Qed.

Lemma fresult_eqb_refl a : fresult_eqb a a = true.
Proof.
  destruct a as [|r pk w arm|r|r|n| | | |]; cbn [fresult_eqb]; try reflexivity.
  - now rewrite poll_result_eqb_refl, (list_eqb_refl _ fpacket_eqb_refl),
      (list_eqb_refl _ vwake_eqb_refl), oz_eqb_refl.
  - destruct r; cbn [write_result_eqb]; rewrite ?Z.eqb_refl; reflexivity.
  - destruct r; reflexivity.
  - apply Z.eqb_refl.
Qed.

Lemma fevent_eqb_refl a : fevent_eqb a a = true.
Proof.
  destruct a; cbn [fevent_eqb]; rewrite ?Z.eqb_refl, ?oz_eqb_refl, ?chdr_eqb_refl; reflexivity.
Qed.

Section Trace.
Variables da db dc : Z.
Context {CC : Type} (cci : cc_iface CC).
Notation vsock := (vsock CC).
Notation sh := (shift_vsock da db dc (CC:=CC)).
Notation sm := (shift_msg da db).

Lemma poll_loop_shift : forall fuel (s : vsock), g_poll_loop cci fuel s = true ->
  poll_loop cci fuel (sh s) = (sh (fst (poll_loop cci fuel s)), snd (poll_loop cci fuel s)).
Proof.
  induction fuel as [|fuel IH]; intros s G; [reflexivity|].
  cbn [poll_loop g_poll_loop] in *. apply andb_true_iff in G as [G1 G2].
  rewrite (poll_body_shift da db dc cci s G1).
  destruct (poll_body cci s) as [s' r|s'|]; cbn [shift_body_res fst snd]; [reflexivity|now apply IH|reflexivity].
Qed.

Lemma poll_shift (s : vsock) : g_poll cci s = true ->
  poll cci (sh s) = (sh (fst (poll cci s)), snd (poll cci s)).
Proof.
  unfold g_poll, poll. intros G.
  change (set_out (sh s) []) with (sh (set_out s [])). rewrite st_wakes, st_arm_in.
  now apply poll_loop_shift.
Qed.

Definition shift_vres (r : vsock * vout * bool * bool) : vsock * vout * bool * bool :=
  let '(s', out, dw, sw) := r in (sh s', shift_vout da db dc out, dw, sw).

Lemma vstep_poll_shift (s : vsock) script : g_poll cci (set_sends s script) = true ->
  vstep cci (sh s) (VoPoll script) = shift_vres (vstep cci s (VoPoll script)).
Proof.
  intros G. unfold vstep.
  rewrite st_sends, (poll_shift _ G). destruct (poll cci (set_sends s script)) as [s' r].
  cbn [fst snd shift_vres shift_vout]. rewrite pj_out, pj_wakes, pj_arm_in, map_rev. reflexivity.
Qed.

Lemma vstep_deliver_shift (s : vsock) m :
  vstep cci (sh s) (VoDeliver (sm m)) = shift_vres (vstep cci s (VoDeliver m)).
Proof.
  unfold vstep.
  rewrite pj_inbox_closed, pj_inbox, pj_inbox_waker. destruct (v_inbox_closed s); [reflexivity|].
  change [sm m] with (map sm [m]). rewrite <- map_app. reflexivity.
Qed.

Lemma vstep_setnow_shift (s : vsock) t :
  vstep cci (sh s) (VoSetNow t) = shift_vres (vstep cci s (VoSetNow t)).
Proof. unfold vstep, shift_vres. rewrite st_env_now. reflexivity. Qed.

Lemma vstep_setlimit_shift (s : vsock) m :
  vstep cci (sh s) (VoSetLimit m) = shift_vres (vstep cci s (VoSetLimit m)).
Proof. unfold vstep, shift_vres. rewrite st_emsg_limit. reflexivity. Qed.

Lemma vstep_closeinbox_shift (s : vsock) :
  vstep cci (sh s) VoCloseInbox = shift_vres (vstep cci s VoCloseInbox).
Proof. unfold vstep, shift_vres. rewrite st_inbox_closed, st_inbox_waker, pj_inbox_waker. reflexivity. Qed.

Lemma vstep_write_shift (s : vsock) buf :
  vstep cci (sh s) (VoWrite buf) = shift_vres (vstep cci s (VoWrite buf)).
Proof.
  unfold vstep. rewrite pj_tx. destruct (writer_dropped (v_tx s)); [reflexivity|].
  destruct (poll_write (v_tx s) buf) as [[tx1 r] w]. unfold shift_vres. rewrite st_tx. reflexivity.
Qed.

Lemma vstep_flush_shift (s : vsock) :
  vstep cci (sh s) VoFlush = shift_vres (vstep cci s VoFlush).
Proof.
  unfold vstep. rewrite pj_tx. destruct (writer_dropped (v_tx s)); [reflexivity|].
  destruct (poll_flush (v_tx s)) as [[tx1 r] w]. unfold shift_vres. rewrite st_tx. reflexivity.
Qed.

Lemma vstep_shutdown_shift (s : vsock) :
  vstep cci (sh s) VoShutdown = shift_vres (vstep cci s VoShutdown).
Proof.
  unfold vstep. rewrite pj_tx. destruct (writer_dropped (v_tx s)); [reflexivity|].
  destruct (poll_shutdown (v_tx s)) as [[tx1 r] w]. unfold shift_vres. rewrite st_tx. reflexivity.
Qed.

Lemma vstep_read_shift (s : vsock) n :
  vstep cci (sh s) (VoRead n) = shift_vres (vstep cci s (VoRead n)).
Proof.
  unfold vstep. rewrite pj_rx. destruct (reader_dropped (v_rx s)); [reflexivity|].
  destruct (rx_read (v_rx s) n) as [[rx1 r] w]. unfold shift_vres. rewrite st_rx. reflexivity.
Qed.

Lemma vstep_dropreader_shift (s : vsock) :
  vstep cci (sh s) VoDropReader = shift_vres (vstep cci s VoDropReader).
Proof.
  unfold vstep. rewrite pj_rx. destruct (reader_dropped (v_rx s)); [reflexivity|].
  destruct (rx_drop_reader (v_rx s)) as [rx1 w]. unfold shift_vres. rewrite st_rx. reflexivity.
Qed.

Lemma vstep_dropwriter_shift (s : vsock) :
  vstep cci (sh s) VoDropWriter = shift_vres (vstep cci s VoDropWriter).
Proof.
  unfold vstep. rewrite pj_tx.
  destruct (drop_writer (v_tx s)) as [tx1 w]. unfold shift_vres. rewrite st_tx. reflexivity.
Qed.

Lemma c09_guard_vstep_unfold (s : vsock) o :
  c09_guard_vstep cci s o =
  match o with VoPoll script => g_poll cci (set_sends s script) | _ => true end.
Proof. reflexivity. Qed.

Lemma vstep_shift (s : vsock) o : c09_guard_vstep cci s o = true ->
  vstep cci (sh s) (shift_op da db o) = shift_vres (vstep cci s o).
Proof.
  rewrite c09_guard_vstep_unfold. destruct o; intros G.
  - apply vstep_setnow_shift.
  - apply vstep_setlimit_shift.
  - apply vstep_poll_shift. exact G.
  - apply vstep_deliver_shift.
  - apply vstep_closeinbox_shift.
  - apply vstep_write_shift.
  - apply vstep_flush_shift.
  - apply vstep_shutdown_shift.
  - apply vstep_read_shift.
  - apply vstep_dropreader_shift.
  - apply vstep_dropwriter_shift.
Qed.

Lemma fp_of_vsock_shift (s : vsock) : fp_of_vsock cci (sh s) = shift_fp da db (fp_of_vsock cci s).
Proof.
  unfold fp_of_vsock, shift_fp.
  cbn [f_state f_seq_nr f_last_sent_seq_nr f_last_consumed f_last_sent_ack_nr f_last_sent_window
       f_last_remote_window f_cbu f_rto_retx f_t_retransmit f_t_inactivity f_t_ack_delay f_t_recovery_pipe
       f_t_syn_ack_resend f_mss f_max_ss f_unsegmented f_rto f_rtt f_cc_window f_cc_sshthresh f_recovery
       f_supports_sack f_transport_pending f_snd_una f_seg_len_bytes f_seg_offset f_seg_removed
       f_sack_depth f_last_sack_empty f_segs f_rx_ff f_rx_len f_rx_len_bytes f_rx_qbytes f_rx_disp_waker
       f_rx_reader_waker f_rx_reader_dropped f_rx_closed f_rx_last_remaining f_tx_len f_tx_cap f_tx_closed
       f_tx_writer_dropped f_tx_writer_shutdown f_tx_disp_waker f_tx_writer_waker].
  rewrite pj_recovery. cbn [shift_recovery rv_phase].
  destruct (rv_phase (v_recovery s)) as [rp|d|rc]; reflexivity.
Qed.

Lemma fevent_of_shift o : fevent_of (shift_op da db o) = shift_event da db (fevent_of o).
Proof. destruct o; reflexivity. Qed.

Lemma fresult_of_shift out : fresult_of (shift_vout da db dc out) = shift_result da db dc (fresult_of out).
Proof.
  destruct out as [|r pk w a|r|r|r]; cbn [shift_vout fresult_of shift_result]; try reflexivity.
  - f_equal. rewrite !map_map. apply map_ext. reflexivity.
  - destruct r; reflexivity.
Qed.

Lemma poll_finished_shift out : poll_finished (shift_vout da db dc out) = poll_finished out.
Proof. destruct out; reflexivity. Qed.

(* the trace of the relabelled run is the relabelled trace *)
Theorem ftrace_shift : forall ops (s : vsock), c09_guard_trace cci s ops = true ->
  ftrace cci (sh s) (map (shift_op da db) ops) = map (shift_fstep da db dc) (ftrace cci s ops).
Proof.
  induction ops as [|o rest IH]; intros s G; [reflexivity|].
  cbn [map ftrace c09_guard_trace] in *. apply andb_true_iff in G as [G1 G2].
  rewrite (vstep_shift s o G1).
  destruct (vstep cci s o) as [[[s' out] dw] sw]. cbn [shift_vres map].
  rewrite poll_finished_shift. unfold shift_fstep at 1.
  cbn [fs_now fs_pre fs_event fs_result fs_disp_woken fs_self_woken fs_post].
  rewrite !fp_of_vsock_shift, fevent_of_shift, fresult_of_shift, pj_env_now.
  f_equal. destruct (poll_finished out); [reflexivity|]. now apply IH.
Qed.

Lemma c09_step_shift_ok_refl a : c09_step_shift_ok da db dc a (shift_fstep da db dc a) = true.
Proof.
  unfold c09_step_shift_ok, shift_fstep.
  cbn [fs_now fs_pre fs_event fs_result fs_disp_woken fs_self_woken fs_post].
  now rewrite Z.eqb_refl, fevent_eqb_refl, !vfp_eqb_refl, fresult_eqb_refl, !Bool.eqb_reflx.
Qed.

Lemma c09_shift_ok_refl tr : c09_shift_ok da db dc tr (map (shift_fstep da db dc) tr) = true.
Proof.
  induction tr as [|a r IH]; [reflexivity|]. cbn [map c09_shift_ok]. now rewrite c09_step_shift_ok_refl, IH.
Qed.

(* the fingerprint-level tolerance guard of the metamorphic check does not depend on the labelling:
   it judges both runs alike *)
Lemma near_shift tol d x r : near tol (sh16 d x) (sh16 d r) = near tol x r.
Proof.
  unfold near, sh16. replace (((x + d) mod M16 - (r + d) mod M16) mod M16) with ((x - r) mod M16); [reflexivity|].
  unfold M16. lia.
Qed.

Lemma c09_step_within_tol_shift tol st :
  c09_step_within_tol tol (shift_fstep da db dc st) = c09_step_within_tol tol st.
Proof.
  unfold c09_step_within_tol, shift_fstep.
  cbn [fs_pre fs_event shift_fp f_segs f_seq_nr f_snd_una f_last_sent_seq_nr f_last_sent_ack_nr
       f_last_consumed f_rx_len].
  rewrite !near_shift.
  destruct (fs_event st); try reflexivity.
  cbn [shift_event shift_in_hdr ch_seq ch_ack]. now rewrite !near_shift.
Qed.

Lemma c09_within_tol_shift tol tr :
  c09_within_tol tol (map (shift_fstep da db dc) tr) = c09_within_tol tol tr.
Proof.
  unfold c09_within_tol. induction tr as [|a r IH]; [reflexivity|].
  cbn [map forallb]. now rewrite c09_step_within_tol_shift, IH.
Qed.

(* C09, trace-shift clause, on the model: the extracted predicate holds of the two model traces *)
Theorem model_trace_shift_ok (s : vsock) ops : c09_guard_trace cci s ops = true ->
  c09_shift_ok da db dc (ftrace cci s ops) (ftrace cci (sh s) (map (shift_op da db) ops)) = true.
Proof. intros G. rewrite (ftrace_shift ops s G). apply c09_shift_ok_refl. Qed.

End Trace.

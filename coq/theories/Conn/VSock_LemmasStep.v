(* Generic machinery for step-level theorems about the connection model:
   - [PollRel]: a reflexive-transitive relation R that every function called by poll_body respects
     is respected by poll_body / poll_loop / poll, WHATEVER the result (Pending, Ready, restart, panic);
     an invariant P is the special case R s s' := P s -> P s';
   - [ftrace_forallb_live]: lifting a step predicate to every trace when the invariant is only
     needed (and only kept) across steps after which the trace goes on. *)
From Utp Require Import Base.Prelude Wire.SeqNr Wire.Header Rtt.Rtte Mtu.SegSizes Rx.Rx Tx.Ring
  Tx.Segments Conn.Recovery Conn.Msg Conn.VSockRec Conn.VSock Conn.VSockRun Conn.VObs
  Conn.VSock_Lemmas.

Section WithCC.
Context {CC : Type} (cci : cc_iface CC).
Notation vsock := (vsock CC).

(* ------------------------------------------------------------------ relations through a poll *)
Section PollRel.
Variable R : vsock -> vsock -> Prop.
Hypothesis R_refl : forall s, R s s.
Hypothesis R_trans : forall a b c, R a b -> R b c -> R a c.

Definition stR {A} (s : vsock) (m : step A) : Prop :=
  match m with SOk s' _ | SErr s' _ => R s s' | SPanic => True end.

Definition brR (s : vsock) (r : body_res) : Prop :=
  match r with BrReturn s' _ | BrRestart s' => R s s' | BrPanic => True end.

Lemma stR_sbind : forall A B (m : step A) (f : vsock -> A -> step B) s,
  stR s m -> (forall s1 a, stR s1 (f s1 a)) -> stR s (sbind m f).
Proof.
  intros A B m f s Hm Hf. destruct m as [s1 a|s1 e|]; cbn [sbind stR] in *; auto.
  specialize (Hf s1 a). destruct (f s1 a); cbn [stR] in *; auto; eapply R_trans; eauto.
Qed.

Lemma stR_weaken : forall A (m : step A) s0 s, R s0 s -> stR s m -> stR s0 m.
Proof. intros A m s0 s H Hm. destruct m; cbn [stR] in *; auto; eapply R_trans; eauto. Qed.

Lemma brR_trans : forall a b r, R a b -> brR b r -> brR a r.
Proof. intros a b r F G. destruct r; cbn [brR] in *; auto; eapply R_trans; eauto. Qed.

Hypothesis H_start : forall s, R s (poll_start s).
Hypothesis H_syn_ack : forall s, stR s (maybe_send_syn_ack s).
Hypothesis H_send_ack : forall s, stR s (send_ack s).
Hypothesis H_pim : forall s, stR s (process_all_incoming_messages cci s).
Hypothesis H_flush : forall s rx1 fb w,
  rx_flush (v_rx s) = (rx1, FlOk fb, w) -> R s (add_wakes (set_rx s rx1) (rx_wakes w)).
Hypothesis H_split : forall s, stR s (split_tx_queue_into_segments cci s).
Hypothesis H_stq : forall s, stR s (send_tx_queue cci s).
Hypothesis H_fw1 : forall s, R s (transition_to_fin_wait_1 s).
Hypothesis H_fin : forall s, stR s (maybe_send_fin s).
Hypothesis H_msa : forall s, stR s (maybe_send_ack s).
Hypothesis H_jbd : forall s e, R s (just_before_death s e).
Hypothesis H_tail : forall s, R s (poll_tail s).

Lemma die_R : forall s e, brR s (die s e).
Proof. intros s e. unfold die. cbn [brR]. apply H_jbd. Qed.

Lemma bail_R : forall A (m : step A) k (s : vsock),
  stR s m -> (forall s1 a, brR s1 (k s1 a)) -> brR s (bail m k).
Proof.
  intros A m k s Fm Fk. unfold bail. destruct m as [s1 a|s1 e|]; cbn [stR] in Fm.
  - destruct (v_restart s1); [exact Fm|]. eapply brR_trans; [exact Fm | apply Fk].
  - eapply brR_trans; [exact Fm | apply die_R].
  - exact I.
Qed.

Lemma pend_R : forall A (m : step A) k (s : vsock),
  stR s m -> (forall s1 a, brR s1 (k s1 a)) -> brR s (pend m k).
Proof.
  intros A m k s Fm Fk. unfold pend. apply bail_R; [exact Fm|].
  intros s1 a. destruct (v_transport_pending s1); [exact (R_refl s1)|].
  destruct (v_restart s1); [exact (R_refl s1) | apply Fk].
Qed.

Theorem poll_body_R : forall s0, brR s0 (poll_body cci s0).
Proof.
  intros s0. unfold poll_body. fold (poll_start s0).
  eapply brR_trans; [apply H_start|].
  apply pend_R; [apply H_syn_ack|]. intros s1 _.
  apply pend_R; [destruct (immediate_ack_to_transmit s1); [apply H_send_ack | exact (R_refl s1)]|].
  intros s2 _.
  apply pend_R; [apply H_pim|]. intros s3 _.
  destruct (rx_flush (v_rx s3)) as [[rx1 fr] w] eqn:Efl. destruct fr as [fb|]; [|exact I].
  pose proof (H_flush s3 rx1 fb w Efl) as F4.
  set (s4 := add_wakes (set_rx s3 rx1) (rx_wakes w)) in *. clearbody s4.
  eapply brR_trans; [exact F4|].
  destruct (timer_expired _ _); [apply die_R|].
  apply bail_R; [apply H_split|]. intros s5 _.
  apply pend_R; [apply H_stq|]. intros s6 _.
  assert (F7 : R s6 (if should_close_on_own_initiative s6 then transition_to_fin_wait_1 s6 else s6)).
  { destruct (should_close_on_own_initiative s6); [apply H_fw1 | apply R_refl]. }
  set (s7 := if should_close_on_own_initiative s6 then transition_to_fin_wait_1 s6 else s6) in *.
  clearbody s7. eapply brR_trans; [exact F7|].
  apply pend_R; [apply H_fin|]. intros s8 _.
  apply pend_R; [apply H_msa|]. intros s9 _.
  destruct (state_is_closed _ _).
  - cbn [brR]. apply H_jbd.
  - pose proof (H_tail s9) as F. unfold poll_tail in F.
    destruct (next_timer_to_poll _) as [sx t]. destruct t; exact F.
Qed.

Theorem poll_loop_R : forall fuel s s' r, poll_loop cci fuel s = (s', r) -> R s s'.
Proof.
  induction fuel as [|fuel IH]; intros s s' r H; cbn [poll_loop] in H.
  - inversion H; subst. apply R_refl.
  - pose proof (poll_body_R s) as F.
    destruct (poll_body cci s) as [s1 r1|s1|]; cbn [brR] in *.
    + inversion H; subst. exact F.
    + eapply R_trans; [exact F | eapply IH; exact H].
    + inversion H; subst. apply R_refl.
Qed.

Theorem poll_R : forall s s' r, poll cci s = (s', r) -> R (poll_init s) s'.
Proof. intros s s' r H. rewrite poll_unfold in H. eapply poll_loop_R; exact H. Qed.

End PollRel.

(* ------------------------------------------------------------------ the same for the polls that
   return Pending (or restart): no hypothesis about just_before_death / the timer tail, and the
   shape of the last iteration is exposed *)
Section PollRelPending.
Variable R : vsock -> vsock -> Prop.
Hypothesis R_refl : forall s, R s s.
Hypothesis R_trans : forall a b c, R a b -> R b c -> R a c.

(* only the SOk results matter: an error ends the poll with Ready *)
Definition stRk {A} (s : vsock) (m : step A) : Prop :=
  match m with SOk s' _ => R s s' | _ => True end.

Hypothesis H_start : forall s, R s (poll_start s).
Hypothesis H_syn_ack : forall s, stRk s (maybe_send_syn_ack s).
Hypothesis H_send_ack : forall s, stRk s (send_ack s).
Hypothesis H_pim : forall s, stRk s (process_all_incoming_messages cci s).
Hypothesis H_flush : forall s rx1 fb w,
  rx_flush (v_rx s) = (rx1, FlOk fb, w) -> R s (add_wakes (set_rx s rx1) (rx_wakes w)).
Hypothesis H_split : forall s, stRk s (split_tx_queue_into_segments cci s).
Hypothesis H_stq : forall s, stRk s (send_tx_queue cci s).
Hypothesis H_fw1 : forall s, R s (transition_to_fin_wait_1 s).
Hypothesis H_fin : forall s, stRk s (maybe_send_fin s).
Hypothesis H_msa : forall s, stRk s (maybe_send_ack s).

(* what a Pending result / a restart of one iteration tells *)
Definition pend_shape (s0 s' : vsock) : Prop :=
  (v_transport_pending s' = true /\ R s0 s') \/
  (exists sa sb b, R s0 sa /\ maybe_send_ack sa = SOk sb b /\ R sa sb /\
     v_transport_pending sb = false /\ v_restart sb = false /\
     state_is_closed (v_state sb) (o_wait_for_last_ack (v_opts sb)) = false /\
     s' = poll_tail sb).

Definition brRp (s : vsock) (r : body_res) : Prop :=
  match r with
  | BrReturn s' PollPending => pend_shape s s'
  | BrRestart s' => R s s'
  | _ => True
  end.

Lemma pend_shape_trans : forall a b c, R a b -> pend_shape b c -> pend_shape a c.
Proof.
  intros a b c F [[T G]|(sa & sb & bb & G1 & G2)].
  - left. split; [exact T | eapply R_trans; eauto].
  - right. exists sa, sb, bb. split; [eapply R_trans; eauto | exact G2].
Qed.

Lemma brRp_trans : forall a b r, R a b -> brRp b r -> brRp a r.
Proof.
  intros a b r F G. destruct r as [s' pr|s'|]; cbn [brRp] in *; auto.
  - destruct pr; auto. eapply pend_shape_trans; eauto.
  - eapply R_trans; eauto.
Qed.

Lemma bail_Rp : forall A (m : step A) k (s : vsock),
  stRk s m -> (forall s1 a, v_restart s1 = false -> brRp s1 (k s1 a)) -> brRp s (bail m k).
Proof.
  intros A m k s Fm Fk. unfold bail. destruct m as [s1 a|s1 e|]; cbn [stRk] in Fm.
  - destruct (v_restart s1) eqn:Rs; [exact Fm|]. eapply brRp_trans; [exact Fm | apply Fk; exact Rs].
  - unfold die. exact I.
  - exact I.
Qed.

Lemma pend_Rp : forall A (m : step A) k (s : vsock),
  stRk s m ->
  (forall s1 a, v_restart s1 = false -> v_transport_pending s1 = false -> brRp s1 (k s1 a)) ->
  brRp s (pend m k).
Proof.
  intros A m k s Fm Fk. unfold pend. apply bail_Rp; [exact Fm|].
  intros s1 a Rs. destruct (v_transport_pending s1) eqn:T.
  - cbn [brRp]. left. split; [exact T | apply R_refl].
  - rewrite Rs. apply Fk; assumption.
Qed.

Theorem poll_body_Rp : forall s0, brRp (poll_start s0) (poll_body cci s0).
Proof.
  intros s0. unfold poll_body. fold (poll_start s0).
  apply pend_Rp; [apply H_syn_ack|]. intros s1 _ _ _.
  apply pend_Rp; [destruct (immediate_ack_to_transmit s1); [apply H_send_ack | exact (R_refl s1)]|].
  intros s2 _ _ _.
  apply pend_Rp; [apply H_pim|]. intros s3 _ _ _.
  destruct (rx_flush (v_rx s3)) as [[rx1 fr] w] eqn:Efl. destruct fr as [fb|]; [|exact I].
  pose proof (H_flush s3 rx1 fb w Efl) as F4.
  set (s4 := add_wakes (set_rx s3 rx1) (rx_wakes w)) in *. clearbody s4.
  eapply brRp_trans; [exact F4|].
  destruct (timer_expired _ _); [exact I|].
  apply bail_Rp; [apply H_split|]. intros s5 _ _.
  apply pend_Rp; [apply H_stq|]. intros s6 _ _ _.
  assert (F7 : R s6 (if should_close_on_own_initiative s6 then transition_to_fin_wait_1 s6 else s6)).
  { destruct (should_close_on_own_initiative s6); [apply H_fw1 | apply R_refl]. }
  set (s7 := if should_close_on_own_initiative s6 then transition_to_fin_wait_1 s6 else s6) in *.
  clearbody s7. eapply brRp_trans; [exact F7|].
  apply pend_Rp; [apply H_fin|]. intros s8 _ _ _.
  pose proof (H_msa s8) as F9.
  unfold pend, bail. destruct (maybe_send_ack s8) as [s9 b9|s9 e9|] eqn:E9; cbn [stRk] in F9; try exact I.
  destruct (v_restart s9) eqn:R9; [exact F9|].
  destruct (v_transport_pending s9) eqn:T9; [left; split; [exact T9 | exact F9]|].
  destruct (state_is_closed _ _) eqn:C9; [exact I|].
  assert (Hs : forall sx, sx = poll_tail s9 -> pend_shape s8 sx).
  { intros sx ->. right. exists s8, s9, b9. split; [apply R_refl|]. repeat split; assumption. }
  unfold poll_tail in Hs.
  destruct (next_timer_to_poll _) as [sx t]. destruct t; cbn [brRp]; apply Hs; reflexivity.
Qed.

(* the last iteration starts from poll_start s1 *)
Theorem poll_loop_Rp2 : forall fuel s s',
  poll_loop cci fuel s = (s', PollPending) -> exists s1, R s s1 /\ pend_shape (poll_start s1) s'.
Proof.
  induction fuel as [|fuel IH]; intros s s' H; cbn [poll_loop] in H; [discriminate|].
  pose proof (poll_body_Rp s) as F.
  destruct (poll_body cci s) as [s1 r1|s1|]; cbn [brRp] in *.
  - inversion H; subst. exists s. split; [apply R_refl | exact F].
  - apply IH in H. destruct H as (s2 & H1 & H2). exists s2. split; [|exact H2].
    eapply R_trans; [apply H_start|]. eapply R_trans; [exact F | exact H1].
  - discriminate.
Qed.

Theorem poll_Rp2 : forall s s',
  poll cci s = (s', PollPending) -> exists s1, R (poll_init s) s1 /\ pend_shape (poll_start s1) s'.
Proof. intros s s' H. rewrite poll_unfold in H. eapply poll_loop_Rp2; exact H. Qed.

Theorem poll_Rp : forall s s',
  poll cci s = (s', PollPending) -> pend_shape (poll_init s) s'.
Proof.
  intros s s' H. apply poll_Rp2 in H. destruct H as (s1 & H1 & H2).
  eapply pend_shape_trans; [|exact H2]. eapply R_trans; [exact H1 | apply H_start].
Qed.

End PollRelPending.

Lemma stR_stRk : forall (R : vsock -> vsock -> Prop) A (s : vsock) (m : step A), stR R s m -> stRk R s m.
Proof. intros R A s m H. destruct m; cbn [stR stRk] in *; auto. Qed.

(* ------------------------------------------------------------------ staged Hoare reasoning for
   the polls that return Pending.  A restart is requested by send_tx_queue only (every other
   function keeps v_restart = false), so the stages are
     A0 : at the start of an iteration (the initial state of the poll, or a restart)
     A  : from poll_start up to process_all_incoming_messages
     B  : from there up to send_tx_queue
     C  : from there to the timer tail. *)
Section PollStaged.
Variables A0 A B1 B2 C D : vsock -> Prop.

Definition stU (P : vsock -> Prop) {X} (m : step X) : Prop :=
  match m with SOk s' _ => P s' | _ => True end.
(* unless the transport blocked *)
Definition stC (P : vsock -> Prop) {X} (m : step X) : Prop :=
  match m with SOk s' _ => v_transport_pending s' = false -> P s' | _ => True end.
Definition no_restart {X} (s : vsock) (m : step X) : Prop :=
  v_restart s = false -> stU (fun s' => v_restart s' = false) m.

Lemma stU_stC : forall (P : vsock -> Prop) X (m : step X), stU P m -> stC P m.
Proof. intros P X m H. destruct m; cbn [stU stC] in *; auto. Qed.

Hypothesis H_start : forall s, A0 s -> A (poll_start s).
Hypothesis H_syn_ack : forall s, A s -> stC A (maybe_send_syn_ack s).
Hypothesis H_send_ack : forall s, A s -> stC A (send_ack s).
Hypothesis H_pim : forall s, A s -> stC B1 (process_all_incoming_messages cci s).
Hypothesis H_flush : forall s rx1 fb w, B1 s ->
  rx_flush (v_rx s) = (rx1, FlOk fb, w) -> B2 (add_wakes (set_rx s rx1) (rx_wakes w)).
Hypothesis H_split : forall s, B2 s -> stU B2 (split_tx_queue_into_segments cci s).
Hypothesis H_stq : forall s, B2 s -> v_restart s = false ->
  stU (fun s' => (v_restart s' = true -> A0 s') /\
                 (v_restart s' = false -> v_transport_pending s' = false -> C s'))
      (send_tx_queue cci s).
Hypothesis H_fw1 : forall s, C s -> C (transition_to_fin_wait_1 s).
Hypothesis H_fin : forall s, C s -> stC C (maybe_send_fin s).
Hypothesis H_msa : forall s, C s -> stC D (maybe_send_ack s).

Hypothesis N_syn_ack : forall s, no_restart s (maybe_send_syn_ack s).
Hypothesis N_send_ack : forall s, no_restart s (send_ack s).
Hypothesis N_pim : forall s, no_restart s (process_all_incoming_messages cci s).
Hypothesis N_split : forall s, no_restart s (split_tx_queue_into_segments cci s).
Hypothesis N_fw1 : forall s : vsock, v_restart (transition_to_fin_wait_1 s) = v_restart s.
Hypothesis N_fin : forall s, no_restart s (maybe_send_fin s).
Hypothesis N_msa : forall s, no_restart s (maybe_send_ack s).

Definition tail_shape (s' : vsock) : Prop :=
  v_transport_pending s' = true \/
  exists sb, D sb /\ v_transport_pending sb = false /\ v_restart sb = false /\
    state_is_closed (v_state sb) (o_wait_for_last_ack (v_opts sb)) = false /\ s' = poll_tail sb.

Definition brS (r : body_res) : Prop :=
  match r with
  | BrReturn s' PollPending => tail_shape s'
  | BrRestart s' => A0 s'
  | _ => True
  end.

(* a stage that cannot request a restart *)
Lemma pend_S : forall X (P : vsock -> Prop) (m : step X) k s,
  v_restart s = false -> no_restart s m -> stC P m ->
  (forall s1 a, P s1 -> v_restart s1 = false -> v_transport_pending s1 = false -> brS (k s1 a)) ->
  brS (pend m k).
Proof.
  intros X P m k s R0 Hn Hm Hk. unfold pend, bail. specialize (Hn R0).
  destruct m as [s1 a|s1 e|]; try exact I.
  cbn [stC stU] in *. rewrite Hn.
  destruct (v_transport_pending s1) eqn:T.
  - cbn [brS]. left. exact T.
  - apply Hk; auto.
Qed.

Theorem poll_body_S : forall s0, A0 s0 -> brS (poll_body cci s0).
Proof.
  intros s0 HA. apply H_start in HA. unfold poll_body. fold (poll_start s0).
  assert (R0 : v_restart (poll_start s0) = false) by reflexivity.
  generalize dependent (poll_start s0). clear s0. intros s0 HA R0.
  apply (pend_S _ A _ _ s0 R0); [apply N_syn_ack | apply H_syn_ack; exact HA |]. intros s1 _ HA1 R1 _.
  apply (pend_S _ A _ _ s1 R1).
  { destruct (immediate_ack_to_transmit s1); [apply N_send_ack | intros _; exact R1]. }
  { destruct (immediate_ack_to_transmit s1); [apply H_send_ack; exact HA1 | intros _; exact HA1]. }
  intros s2 _ HA2 R2 _.
  apply (pend_S _ B1 _ _ s2 R2); [apply N_pim | apply H_pim; exact HA2 |]. intros s3 _ HB3 R3 T3.
  destruct (rx_flush (v_rx s3)) as [[rx1 fr] w] eqn:Efl. destruct fr as [fb|]; [|exact I].
  pose proof (H_flush s3 rx1 fb w HB3 Efl) as HB4.
  assert (R4 : v_restart (add_wakes (set_rx s3 rx1) (rx_wakes w)) = false) by exact R3.
  set (s4 := add_wakes (set_rx s3 rx1) (rx_wakes w)) in *. clearbody s4.
  destruct (timer_expired _ _); [exact I|].
  (* split: bail *)
  unfold bail at 1.
  pose proof (H_split s4 HB4) as HB5. pose proof (N_split s4 R4) as R5.
  destruct (split_tx_queue_into_segments cci s4) as [s5 a5|s5 e5|]; try exact I.
  cbn [stU] in HB5, R5. rewrite R5.
  (* send_tx_queue: the only stage that may restart *)
  pose proof (H_stq s5 HB5 R5) as H6.
  unfold pend at 1, bail at 1.
  destruct (send_tx_queue cci s5) as [s6 a6|s6 e6|]; try exact I.
  cbn [stU] in H6. destruct H6 as [H6r H6c].
  destruct (v_restart s6) eqn:R6; [cbn [brS]; apply H6r; reflexivity|].
  destruct (v_transport_pending s6) eqn:T6; [cbn [brS]; left; exact T6|].
  specialize (H6c eq_refl eq_refl).
  assert (HC7 : C (if should_close_on_own_initiative s6 then transition_to_fin_wait_1 s6 else s6)).
  { destruct (should_close_on_own_initiative s6); [apply H_fw1|]; exact H6c. }
  assert (R7 : v_restart (if should_close_on_own_initiative s6 then transition_to_fin_wait_1 s6 else s6) = false).
  { destruct (should_close_on_own_initiative s6); [rewrite N_fw1|]; exact R6. }
  set (s7 := if should_close_on_own_initiative s6 then transition_to_fin_wait_1 s6 else s6) in *.
  clearbody s7.
  apply (pend_S _ C _ _ s7 R7); [apply N_fin | apply H_fin; exact HC7 |]. intros s8 _ HC8 R8 _.
  apply (pend_S _ D _ _ s8 R8); [apply N_msa | apply H_msa; exact HC8 |]. intros s9 _ HC9 R9 T9.
  destruct (state_is_closed _ _) eqn:C9; [exact I|].
  assert (Hs : forall sx, sx = poll_tail s9 -> tail_shape sx).
  { intros sx ->. right. exists s9. repeat split; assumption. }
  unfold poll_tail in Hs.
  destruct (next_timer_to_poll _) as [sx t]. destruct t; cbn [brS]; apply Hs; reflexivity.
Qed.

Theorem poll_loop_S : forall fuel s s',
  A0 s -> poll_loop cci fuel s = (s', PollPending) -> tail_shape s'.
Proof.
  induction fuel as [|fuel IH]; intros s s' HA H; cbn [poll_loop] in H; [discriminate|].
  pose proof (poll_body_S s HA) as F.
  destruct (poll_body cci s) as [s1 r1|s1|]; cbn [brS] in *.
  - inversion H; subst. exact F.
  - eapply IH; [exact F | exact H].
  - discriminate.
Qed.

Theorem poll_S : forall s s',
  A0 (poll_init s) -> poll cci s = (s', PollPending) -> tail_shape s'.
Proof. intros s s' HA H. rewrite poll_unfold in H. eapply poll_loop_S; [exact HA | exact H]. Qed.

End PollStaged.

(* ------------------------------------------------------------------ traces *)
Definition vstep_out (s : vsock) (o : vop) : vout := snd (fst (fst (vstep cci s o))).

Lemma ftrace_cons' : forall s o rest,
  ftrace cci s (o :: rest) =
  fstep_of cci s o :: (if poll_finished (vstep_out s o) then []
                       else ftrace cci (vstep_state cci s o) rest).
Proof. intros. apply ftrace_cons. Qed.

(* the invariant needs to be kept only by the steps after which the trace continues *)
Lemma ftrace_forallb_live : forall (Inv : vsock -> Prop) (P : fstep -> bool),
  (forall s o, Inv s -> P (fstep_of cci s o) = true) ->
  (forall s o, Inv s -> poll_finished (vstep_out s o) = false -> Inv (vstep_state cci s o)) ->
  forall ops s, Inv s -> forallb P (ftrace cci s ops) = true.
Proof.
  intros Inv P HP HI. induction ops as [|o rest IH]; intros s I; [reflexivity|].
  rewrite ftrace_cons'. cbn [forallb]. rewrite (HP s o I). cbn [andb].
  destruct (poll_finished _) eqn:F; [reflexivity|]. apply IH. apply HI; assumption.
Qed.

Lemma fstep_of_post : forall (s : vsock) o,
  fs_post (fstep_of cci s o) = fp_of_vsock cci (vstep_state cci s o).
Proof. intros s o. unfold fstep_of, vstep_state. destruct (vstep cci s o) as [[[s' out] dw] sw]. reflexivity. Qed.

Lemma fstep_of_pre : forall (s : vsock) o, fs_pre (fstep_of cci s o) = fp_of_vsock cci s.
Proof. intros s o. unfold fstep_of. destruct (vstep cci s o) as [[[s' out] dw] sw]. reflexivity. Qed.

Lemma fstep_of_result : forall (s : vsock) o, fs_result (fstep_of cci s o) = fresult_of (vstep_out s o).
Proof. intros s o. unfold fstep_of, vstep_out. destruct (vstep cci s o) as [[[s' out] dw] sw]. reflexivity. Qed.

(* unfolding one poll step *)
Lemma vstep_poll : forall (s : vsock) sc s' r,
  poll cci (VSockRec.set_sends s sc) = (s', r) ->
  vstep_state cci s (VoPoll sc) = s' /\
  vstep_out s (VoPoll sc) = VrPoll r (rev (v_out s')) (rev (v_wakes s')) (v_arm_in s').
Proof.
  intros s sc s' r E. unfold vstep_state, vstep_out. cbn [vstep]. rewrite E. split; reflexivity.
Qed.

End WithCC.

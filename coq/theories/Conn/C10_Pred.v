(* C10 (single-connection half): no panic, no internal "bug:" error, bounded buffering.
   Boolean predicates over the observations of a connection-level trace.  Model only. *)
From Utp Require Import Base.Prelude Wire.SeqNr Wire.Header Rtt.Rtte Mtu.SegSizes Rx.Rx Tx.Ring
  Tx.Segments Conn.Recovery Conn.Msg Conn.VSockRec Conn.VSock Conn.VSockRun Conn.VObs.

(* the outcome the property forbids: a panic or one of the Error::Bug* values *)
Definition is_bug_result (r : fresult) : bool :=
  match r with
  | FrPoll PollPanic _ _ _ => true
  | FrPoll (PollReadyErr (ErrBug _)) _ _ _ => true
  | _ => false
  end.

Definition ss_config_of (c : vconfig) : ss_config :=
  {| cfg_ipv4 := vc_ipv4 c; cfg_link_mtu := vc_link_mtu c; cfg_cooldown := 3 |}.

(* the smallest datagram every path of the address family carries (uTP header + floor payload):
   548 for IPv4, 1232 for IPv6, less when the configured link MTU is below the family minimum *)
Definition min_datagram (c : vconfig) : Z := UTP_HEADER + floor_of (ss_config_of c).

(* a configuration SocketOpts::validate accepts and StreamArgs can carry *)
Definition vconfig_ok (c : vconfig) : bool :=
  (1 <=? vc_link_mtu c) && (vc_link_mtu c <=? U16_MAX) &&
  (1 <=? vc_rx_buf c) && (vc_rx_buf c <? M32) &&
  (1 <=? vc_tx_init c) && (1 <=? vc_tx_max c) &&
  (0 <=? vc_max_retx c) && (0 <=? vc_mtu_probe_max_retx c) && (0 <=? vc_inactivity c) &&
  (0 <=? vc_isn c) && (vc_isn c <? M16) && (0 <=? vc_remote_seq c) && (vc_remote_seq c <? M16) &&
  (0 <=? vc_remote_conn_id c) && (vc_remote_conn_id c <? M16) &&
  (0 <=? vc_remote_wnd c) && (vc_remote_wnd c <? M32) &&
  (0 <=? vc_remote_ts c) && (vc_remote_ts c <? M32) &&
  (0 <=? vc_syn_sent c) && (vc_syn_sent c <=? vc_now0 c) && (vc_now0 c <=? SAMPLE_BOUND).

(* ---- the transport assumption: what is legitimate to exclude ----
   The scripted transport never invents EMSGSIZE (it answers EMSGSIZE only through the path
   limit), the path limit is at least the family minimum datagram, and the path does not
   change under a running connection (the limit is set before the first poll). *)
Definition script_legit (sc : list send_outcome) : bool :=
  forallb (fun o => match o with TEmsgsize => false | _ => true end) sc.

Definition limit_legit (c : vconfig) (lim : option Z) : bool :=
  match lim with None => true | Some l => min_datagram c <=? l end.

Record c10_acc := { ca_lim : option Z; ca_polled : bool; ca_changed : bool }.

Definition c10_acc0 : c10_acc := {| ca_lim := None; ca_polled := false; ca_changed := false |}.

Definition c10_acc_next (a : c10_acc) (st : fstep) : c10_acc :=
  match fs_event st with
  | FeSetLimit m => {| ca_lim := m; ca_polled := ca_polled a; ca_changed := ca_changed a || ca_polled a |}
  | FePoll _ => {| ca_lim := ca_lim a; ca_polled := true; ca_changed := ca_changed a |}
  | _ => a
  end.

Definition transport_legit (c : vconfig) (a : c10_acc) (st : fstep) : bool :=
  match fs_event st with
  | FePoll sc => script_legit sc && limit_legit c (ca_lim a) && negb (ca_changed a)
  | _ => true
  end.

(* one step: under a legitimate transport the result is neither a panic nor a Bug error *)
Definition c10_step_ok_at (c : vconfig) (a : c10_acc) (st : fstep) : bool :=
  if transport_legit c a st then negb (is_bug_result (fs_result st)) else true.

Fixpoint c10_trace_from (c : vconfig) (a : c10_acc) (tr : list fstep) : bool :=
  match tr with
  | [] => true
  | st :: r => c10_step_ok_at c a st && c10_trace_from c (c10_acc_next a st) r
  end.

(* the trace predicate of C10 (b): no step panics or reports a Bug error *)
Definition c10_step_ok (c : vconfig) (tr : list fstep) : bool := c10_trace_from c c10_acc0 tr.

(* ---- bounded buffering, C10 (c): observable part ----
   TX ring <= its capacity <= max(initial, max); user RX queue <= rx buffer;
   reassembly queue bounded in SLOTS (capacity slots of at most 65535 - ... bytes each). *)
Definition c10_bounded_at (c : vconfig) (st : fstep) : bool :=
  let f := fs_post st in
  (f_tx_len f <=? f_tx_cap f) && (f_tx_cap f <=? Z.max (vc_tx_init c) (vc_tx_max c)) &&
  (0 <=? f_rx_qbytes f) && (f_rx_qbytes f <=? vc_rx_buf c) &&
  (0 <=? f_rx_ff f) && (f_rx_ff f <=? f_rx_len f) &&
  (f_rx_len f <=? build_ooq_capacity (vc_rx_buf c) (floor_of (ss_config_of c))) &&
  (0 <=? f_seg_len_bytes f) && (f_seg_len_bytes f <=? f_tx_len f).

Definition c10_bounded (c : vconfig) (st : fstep) : bool :=
  if is_bug_result (fs_result st) then true else c10_bounded_at c st.

(* ---- classifiers of the known classes (evaluated on a FAILING trace by tools/props/c10.py) ---- *)
Definition last_result_is (tr : list fstep) (p : fresult -> bool) : bool :=
  match rev tr with st :: _ => p (fs_result st) | [] => false end.

Definition is_emsg_bug (r : fresult) : bool :=
  match r with FrPoll (PollReadyErr (ErrBug BugEmsgSizeNoProbe)) _ _ _ => true | _ => false end.
Definition is_recv_closed_bug (r : fresult) : bool :=
  match r with FrPoll (PollReadyErr (ErrBug BugRecvInClosed)) _ _ _ => true | _ => false end.

(* KF2: what the PEER says is taken as proof for the forward path.
   (a) an incoming ST_DATA whose payload is larger than the size proven so far;
   (b) an acknowledgement that covers a sequence number never sent (its segment's size is
       then "delivered" although it never travelled). *)
Definition kf2_step (st : fstep) : bool :=
  match fs_event st with
  | FeDeliver h plen =>
      match ch_type h with
      | ST_DATA => (f_mss (fs_pre st) <? plen) || seq_gt (ch_ack h) (f_last_sent_seq_nr (fs_pre st))
      | ST_STATE | ST_FIN => seq_gt (ch_ack h) (f_last_sent_seq_nr (fs_pre st))
      | _ => false
      end
  | _ => false
  end.

Definition c10_kf2_class (c : vconfig) (tr : list fstep) : bool :=
  last_result_is tr is_emsg_bug && existsb kf2_step tr.

(* D15: a poll that found the transport not writable returned Pending with the state already
   Closed; the next poll processes a queued message in Closed *)
Definition c10_closed_pending_class (c : vconfig) (tr : list fstep) : bool :=
  last_result_is tr is_recv_closed_bug &&
  match rev tr with
  | st :: _ => match f_state (fs_pre st) with Closed => true | _ => false end
  | [] => false
  end.

(* C09 — trace-shift clause on the connection MODEL: the relabelling of a whole connection state
   (`shift_vsock`), of an event (`shift_op`), of a result (`shift_vout`), and the guard
   `c09_guard_vstep` under which one step commutes with the relabelling.

   Three independent shifts:  da = our sequence numbers, db = the peer's, dc = the connection id we
   send with (same convention as Conn/C09_Pred.v).

   The guard is DYNAMIC: it follows the control flow of the step (it runs the model's own functions to
   obtain the intermediate states) and requires, at every place where the step compares two sequence
   numbers with the wrap-tolerant order (`seq_sub`/`seq_gt`/...), that both are u16 values whose true
   modular distance is at most WRAP_TOLERANCE (`cmp_ok`), and at every place where it tests two
   sequence numbers for equality that both are u16 values (`eq_ok`/`u16_ok`).  Nothing else is asked:
   wrapping additions and copies commute with the relabelling unconditionally.

   Model only: no proofs here (Conn/C09_ShiftProofs*.v). *)
From Utp Require Import Base.Prelude Wire.SeqNr Wire.Header Rtt.Rtte Mtu.SegSizes Rx.Rx Tx.Ring
  Tx.Segments Conn.Recovery Conn.Msg Conn.VSockRec Conn.VSock Conn.VSockRun Conn.VObs Conn.C09_Pred.

Arguments SOk {CC A}. Arguments SErr {CC A}. Arguments SPanic {CC A}.
Arguments BrReturn {CC}. Arguments BrRestart {CC}. Arguments BrPanic {CC}.
Arguments TblDrop {CC}. Arguments TblErr {CC}. Arguments TblContinue {CC}.

(* ------------------------------------------------------------------ comparisons *)
(* both operands are u16 and their true modular distance is within the tolerance *)
Definition cmp_ok (a b : Z) : bool := u16_ok a && u16_ok b && near WRAP_TOLERANCE a b.
Definition eq_ok (a b : Z) : bool := u16_ok a && u16_ok b.

(* ------------------------------------------------------------------ Segments *)
Definition shift_segments (d : Z) (t : segments) : segments :=
  {| ss_segs := ss_segs t; ss_len_bytes := ss_len_bytes t; ss_offset := ss_offset t;
     ss_removed := ss_removed t; ss_sack_depth := ss_sack_depth t;
     ss_last_sack_empty := ss_last_sack_empty t; ss_snd_una := sh16 d (ss_snd_una t) |}.

Definition shift_fs (d : Z) (f : for_sending) : for_sending :=
  {| fs_idx := fs_idx f; fs_seq := sh16 d (fs_seq f); fs_payload_offset := fs_payload_offset f;
     fs_seg := fs_seg f |}.

Definition shift_pe (d : Z) (p : pop_expired) : pop_expired :=
  match p with PeExpired r sz => PeExpired (sh16 d r) sz | x => x end.

(* remove_up_to_ack: ack_nr against snd_una; in the SACK phase the advanced snd_una against ack_nr
   and the first selectively acknowledged number against the advanced snd_una *)
Definition g_remove_up_to_ack (t : segments) (ack_nr : Z) (sk : option sackbits) : bool :=
  cmp_ok ack_nr (ss_snd_una t) &&
  (let offset := seq_sub ack_nr (ss_snd_una t) in
   let dc := if 0 <=? offset then Z.to_nat (Z.min (offset + 1) (len_z (ss_segs t))) else O in
   let snd_una1 := wadd16 (ss_snd_una t) (Z.of_nat dc mod M16) in
   match skipn dc (ss_segs t), sk with
   | _ :: _, Some _ =>
       cmp_ok snd_una1 ack_nr &&
       (if seq_gt snd_una1 ack_nr then cmp_ok (wadd16 ack_nr 2) snd_una1 else true)
   | _, _ => true
   end).

Definition g_calc_flight_size (t : segments) (last_sent_seq_nr : Z) : bool :=
  cmp_ok last_sent_seq_nr (ss_snd_una t).

Definition g_iter_for_sending (t : segments) (start : option Z) : bool :=
  match start with Some s => cmp_ok s (ss_snd_una t) | None => true end.

(* calc_pipe: high_data against snd_una, and the number of every segment of the scanned prefix
   against high_rxt *)
Definition g_calc_pipe (t : segments) (high_rxt high_data : Z) : bool :=
  cmp_ok high_data (ss_snd_una t) &&
  (let take := Z.min (Z.max (seq_sub high_data (ss_snd_una t)) 0) (len_z (ss_segs t)) in
   forallb (fun p : nat * seg =>
              cmp_ok (wadd16 (ss_snd_una t) (Z.of_nat (fst p) mod M16)) high_rxt)
           (enum_from O (firstn (Z.to_nat take) (ss_segs t)))).

(* ------------------------------------------------------------------ Recovery *)
Definition shift_last_ack (d : Z) (la : option (Z * Z)) : option (Z * Z) :=
  match la with Some (w, a) => Some (w, sh16 d a) | None => None end.

Definition shift_recovery (d : Z) (r : recovery) : recovery :=
  {| rv_supports_sack := rv_supports_sack r; rv_last_ack := shift_last_ack d (rv_last_ack r);
     rv_phase := shift_rphase d (rv_phase r) |}.

Definition shift_recovering (d : Z) (r : recovering) : recovering :=
  {| rc_recovery_point := sh16 d (rc_recovery_point r); rc_high_rxt := sh16 d (rc_high_rxt r);
     rc_total_retx := rc_total_retx r; rc_pipe := rc_pipe r; rc_recalc := rc_recalc r;
     rc_cwnd := rc_cwnd r |}.

Definition g_recovery_on_ack (r : recovery) (h : chdr) (segs : segments) (last_sent_seq_nr : Z) : bool :=
  match rv_phase r with
  | IgnoringUntilRecoveryPoint rp => cmp_ok (ch_ack h) rp
  | CountingDuplicates _ =>
      match ss_segs segs with
      | [] => true
      | _ :: _ =>
          match rv_last_ack r with Some (_, a) => eq_ok a (ch_ack h) | None => true end &&
          g_calc_pipe segs (wsub16 (ss_snd_una segs) 1) last_sent_seq_nr
      end
  | Recovering rc =>
      cmp_ok (ch_ack h) (rc_recovery_point rc) && g_calc_flight_size segs last_sent_seq_nr
  end.

(* ------------------------------------------------------------------ the connection state *)
Section Shift.
Variables da db dc : Z.
Context {CC : Type}.
Notation vsock := (vsock CC).

Definition shift_msg (m : msg) : msg :=
  {| m_hdr := shift_in_hdr da db (m_hdr m); m_payload := m_payload m |}.

Definition shift_packet (p : packet) : packet :=
  {| p_hdr := shift_out_hdr da db dc (p_hdr p); p_payload := p_payload p |}.

Definition shift_vsock (s : vsock) : vsock :=
  mk_vsock
    (shift_state da db (v_state s))
    (v_t_retransmit s) (v_t_inactivity s) (v_t_ack_delay s) (v_t_recovery_pipe s) (v_t_syn_ack_resend s)
    (v_last_remote_timestamp s) (v_last_remote_window s)
    (sh16 da (v_seq_nr s))
    (v_rto_retransmissions s)
    (sh16 da (v_last_sent_seq_nr s))
    (sh16 db (v_last_consumed s))
    (sh16 db (v_last_sent_ack_nr s))
    (v_last_sent_window s) (v_cbu s)
    (map shift_msg (v_inbox s))
    (v_inbox_closed s) (v_inbox_waker s) (v_rx s) (v_tx s)
    (shift_segments da (v_segs s))
    (v_ss s) (v_rtte s) (v_cc s)
    (shift_recovery da (v_recovery s))
    (v_now s) (v_transport_pending s) (v_restart s) (v_unsegmented s) (v_env_now s) (v_sends s)
    (v_emsg_limit s)
    (map shift_packet (v_out s))
    (v_wakes s) (v_arm_in s) (v_opts s)
    (sh16 dc (v_conn_id_send s))
    (v_socket_created s).

Definition shift_step {A} (fa : A -> A) (m : step (CC:=CC) A) : step A :=
  match m with
  | SOk s a => SOk (shift_vsock s) (fa a)
  | SErr s e => SErr (shift_vsock s) e
  | SPanic => SPanic
  end.

Definition shift_table_res (r : table_res (CC:=CC)) : table_res :=
  match r with
  | TblDrop s => TblDrop (shift_vsock s)
  | TblErr s e => TblErr (shift_vsock s) e
  | TblContinue s => TblContinue (shift_vsock s)
  end.

Definition shift_body_res (r : body_res (CC:=CC)) : body_res :=
  match r with
  | BrReturn s p => BrReturn (shift_vsock s) p
  | BrRestart s => BrRestart (shift_vsock s)
  | BrPanic => BrPanic
  end.

Definition shift_rl (st : rec_loop_st) : rec_loop_st :=
  {| rl_high_rxt := sh16 da (rl_high_rxt st); rl_total := rl_total st; rl_pipe := rl_pipe st;
     rl_cwnd := rl_cwnd st; rl_sent := rl_sent st |}.

Definition shift_op (o : vop) : vop :=
  match o with VoDeliver m => VoDeliver (shift_msg m) | x => x end.

Definition shift_vout (o : vout) : vout :=
  match o with VrPoll r pk w a => VrPoll r (map shift_packet pk) w a | x => x end.

(* the construction parameters of the relabelled run *)
Definition shift_config (c : vconfig) : vconfig :=
  {| vc_incoming := vc_incoming c; vc_ipv4 := vc_ipv4 c; vc_link_mtu := vc_link_mtu c;
     vc_rx_buf := vc_rx_buf c; vc_tx_init := vc_tx_init c; vc_tx_max := vc_tx_max c;
     vc_nagle := vc_nagle c; vc_max_retx := vc_max_retx c; vc_inactivity := vc_inactivity c;
     vc_wait_last_ack := vc_wait_last_ack c; vc_mtu_probe_max_retx := vc_mtu_probe_max_retx c;
     vc_isn := sh16 da (vc_isn c); vc_remote_seq := sh16 db (vc_remote_seq c);
     vc_remote_conn_id := sh16 dc (vc_remote_conn_id c); vc_remote_wnd := vc_remote_wnd c;
     vc_remote_ts := vc_remote_ts c; vc_syn_sent := vc_syn_sent c; vc_now0 := vc_now0 c |}.

Definition shift_fstep (st : fstep) : fstep :=
  {| fs_now := fs_now st; fs_pre := shift_fp da db (fs_pre st);
     fs_event := shift_event da db (fs_event st);
     fs_result := shift_result da db dc (fs_result st);
     fs_disp_woken := fs_disp_woken st; fs_self_woken := fs_self_woken st;
     fs_post := shift_fp da db (fs_post st) |}.

End Shift.

(* ------------------------------------------------------------------ the guards *)
Section Guard.
Context {CC : Type} (cci : cc_iface CC).
Notation vsock := (vsock CC).

(* continue the guard on the state a successful sub-step produced *)
Definition gstep {A} (m : step (CC:=CC) A) (k : vsock -> A -> bool) : bool :=
  match m with SOk s a => k s a | _ => true end.

Definition g_ack_to_transmit (s : vsock) : bool := cmp_ok (v_last_consumed s) (v_last_sent_ack_nr s).

Definition g_maybe_send_fin (s : vsock) : bool :=
  match our_fin_if_unacked (v_state s) with
  | Some seq => cmp_ok seq (v_last_sent_seq_nr s)
  | None => true
  end.

Definition g_send_data (s : vsock) (f : for_sending) : bool :=
  cmp_ok (fs_seq f) (v_last_sent_seq_nr s) && cmp_ok (wadd16 (fs_seq f) 1) (v_seq_nr s).

Fixpoint g_recovery_loop (items : list for_sending) (s : vsock) (h : chdr) (mss0 : Z) (st : rec_loop_st)
  : bool :=
  match items with
  | [] => true
  | f :: rest =>
      if negb ((rl_total st =? 0) || (mss0 <? rl_cwnd st)) then true
      else if (0 <? rl_total st) && negb (sg_lost (fs_seg f)) then g_recovery_loop rest s h mss0 st
      else if (0 <? rl_total st) && negb (sg_sacks_after (fs_seg f)) then true
      else
        g_send_data s f &&
        match send_data s h f with
        | SOk s1 SdSent =>
            let sz := sg_size (fs_seg f) in
            g_recovery_loop rest s1 h mss0
              {| rl_high_rxt := fs_seq f; rl_total := rl_total st + 1; rl_pipe := rl_pipe st + sz;
                 rl_cwnd := sat_sub (rl_cwnd st) sz; rl_sent := rl_sent st + 1 |}
        | _ => true
        end
  end.

Fixpoint g_new_data_loop (items : list for_sending) (s : vsock) (h : chdr) (remaining : Z) : bool :=
  match items with
  | [] => true
  | f :: rest =>
      let sz := sg_size (fs_seg f) in
      if remaining <? sz then true
      else
        g_send_data s f &&
        match send_data s h f with
        | SOk s1 SdSent => g_new_data_loop rest s1 h (remaining - sz)
        | _ => true
        end
  end.

(* ---- send_tx_queue by parts (the same terms as in Conn/VSock.v; see stq_decompose) ---- *)
Definition stq_after_rto (s : vsock) : step bool :=
  let h := outgoing_header s in
      if timer_expired (v_t_retransmit s) (v_now s) then
        match iter_for_sending (v_segs s) None with
        | f :: _ =>
            match send_data s h f with
            | SPanic => SPanic
            | SErr s1 e => SErr s1 e
            | SOk s1 SdEmsgsize => SErr s1 ErrSend
            | SOk s1 SdPending => SOk s1 true
            | SOk s1 SdSent =>
                let s2o := if negb (sg_probe (fs_seg f)) then on_rto_reactions cci s1 else Some s1 in
                match s2o with
                | None => SPanic
                | Some s2 =>
                    let s3 := set_t_retransmit s2 (timer_arm (v_t_retransmit s2) (v_now s2)
                                                     (retransmission_timeout (v_rtte s2)) true) in
                    SOk (set_rto_retransmissions (set_last_sent_seq_nr s3 (fs_seq f))
                                                 (v_rto_retransmissions s3 + 1)) false
                end
            end
        | [] =>
            match our_fin_if_unacked (v_state s) with
            | Some fin =>
                if v_last_sent_seq_nr s =? fin then
                  let s1 := set_last_sent_seq_nr s (wsub16 (v_last_sent_seq_nr s) 1) in
                  sbind (maybe_send_fin s1) (fun s2 sent =>
                    if sent then
                      match on_rto_reactions cci s2 with
                      | None => SPanic
                      | Some s3 =>
                          SOk (set_t_retransmit s3 (timer_arm (v_t_retransmit s3) (v_now s3)
                                                      (retransmission_timeout (v_rtte s3)) true)) false
                      end
                    else SOk s2 false)
                else SOk (set_t_retransmit s None) false
            | None => SOk (set_t_retransmit s None) false
            end
        end
      else SOk s false.

Definition stq_rec_items (s : vsock) (rc : recovering) : list for_sending :=
  take_while (fun f => seq_le (fs_seq f) (rc_recovery_point rc))
    (skip_while (fun f => seq_le (fs_seq f) (rc_high_rxt rc))
       (firstn (Z.to_nat (ss_sack_depth (v_segs s) + 1)) (iter_for_sending (v_segs s) None))).

Definition stq_rec_st0 (rc : recovering) : rec_loop_st :=
  {| rl_high_rxt := rc_high_rxt rc; rl_total := rc_total_retx rc;
     rl_pipe := rc_pipe rc; rl_cwnd := rec_cwnd rc; rl_sent := 0 |}.

Definition stq_rec_finish (s : vsock) (rc : recovering) (s1 : vsock) (res : rec_loop_st * bool)
  : step bool :=
  let rp := rc_recovery_point rc in
  let mss0 := mss (v_ss s) in
              let '(st, early) := res in
              let rc1 := {| rc_recovery_point := rp; rc_high_rxt := rl_high_rxt st;
                            rc_total_retx := rl_total st; rc_pipe := rl_pipe st;
                            rc_recalc := rc_recalc rc; rc_cwnd := rc_cwnd rc |} in
              let s2 := set_recovering s1 rc1 in
              if early then SOk s2 true
              else
                let s3 :=
                  if rl_cwnd st <? mss0 then
                    match rc_recalc rc with
                    | Some t => set_t_recovery_pipe s2 (Some t)
                    | None =>
                        if 0 <? rl_sent st then
                          set_t_recovery_pipe s2
                            (timer_arm (v_t_recovery_pipe s2) (v_now s2)
                               (calc_pipe_expiry (roundtrip_time (v_rtte s2))) true)
                        else s2
                    end
                  else s2 in
                match our_fin_if_unacked (v_state s3) with
                | Some our_fin =>
                    if rl_high_rxt st =? wsub16 our_fin 1 then
                      let rc2 := {| rc_recovery_point := rp; rc_high_rxt := our_fin;
                                    rc_total_retx := rl_total st + 1; rc_pipe := rl_pipe st;
                                    rc_recalc := rc_recalc rc; rc_cwnd := rc_cwnd rc |} in
                      SOk (set_recovering (set_last_sent_seq_nr s3 (wsub16 our_fin 1)) rc2) true
                    else SOk s3 false
                | None => SOk s3 false
                end.

Definition stq_remaining (s : vsock) : Z :=
  match remaining_cwnd (v_recovery s) (v_last_remote_window s) with
  | Some r => r
  | None => sat_sub (Z.min (cc_window cci (v_cc s)) (v_last_remote_window s))
                    (calc_flight_size (v_segs s) (v_last_sent_seq_nr s))
  end.

Definition stq_new_data (h : chdr) (s : vsock) : step unit :=
  let items := iter_for_sending (v_segs s) (Some (wadd16 (v_last_sent_seq_nr s) 1)) in
  sbind (new_data_loop items s h (stq_remaining s)) (fun s1 too_long =>
    match too_long with
    | None => SOk s1 tt
    | Some (seq, size) =>
        let '(segs', popped) := pop_mtu_probe (v_segs s1) seq in
        if popped then
          SOk (set_restart
                 (set_ss (set_segs s1 segs')
                         (disarm_cooldown (on_probe_failed (v_ss s1) size))) true) tt
        else SErr s1 (ErrBug BugEmsgSizeNoProbe)
    end).

(* the header `h` is the one computed at the entry of send_tx_queue *)
Definition stq_tail2 (h : chdr) (s : vsock) (ret : bool) : step unit :=
  if ret then SOk s tt else stq_new_data h s.

Definition stq_tail1 (h : chdr) (s : vsock) (ret : bool) : step unit :=
  if ret then SOk s tt
  else if 0 <? v_rto_retransmissions s then SOk s tt
  else match ss_segs (v_segs s) with
       | [] => SOk s tt
       | _ :: _ =>
           match rv_phase (v_recovery s) with
           | Recovering rc =>
               sbind (sbind (recovery_loop (stq_rec_items s rc) s h (mss (v_ss s)) (stq_rec_st0 rc))
                            (stq_rec_finish s rc)) (stq_tail2 h)
           | _ => stq_tail2 h s false
           end
       end.

Definition g_stq_after_rto (s : vsock) : bool :=
  if timer_expired (v_t_retransmit s) (v_now s) then
    match iter_for_sending (v_segs s) None with
    | f :: _ => g_send_data s f
    | [] =>
        match our_fin_if_unacked (v_state s) with
        | Some fin =>
            eq_ok (v_last_sent_seq_nr s) fin &&
            (if v_last_sent_seq_nr s =? fin
             then g_maybe_send_fin (set_last_sent_seq_nr s (wsub16 (v_last_sent_seq_nr s) 1))
             else true)
        | None => true
        end
    end
  else true.

(* every candidate of the recovery scan is compared with high_rxt and the recovery point *)
Definition g_stq_rec_items (s : vsock) (rc : recovering) : bool :=
  forallb (fun f => cmp_ok (fs_seq f) (rc_high_rxt rc) && cmp_ok (fs_seq f) (rc_recovery_point rc))
    (firstn (Z.to_nat (ss_sack_depth (v_segs s) + 1)) (iter_for_sending (v_segs s) None)).

Definition g_stq_rec_finish (res : rec_loop_st * bool) : bool := u16_ok (rl_high_rxt (fst res)).

Definition g_stq_new_data (h : chdr) (s : vsock) : bool :=
  (match remaining_cwnd (v_recovery s) (v_last_remote_window s) with
   | Some _ => true
   | None => g_calc_flight_size (v_segs s) (v_last_sent_seq_nr s)
   end) &&
  g_iter_for_sending (v_segs s) (Some (wadd16 (v_last_sent_seq_nr s) 1)) &&
  g_new_data_loop (iter_for_sending (v_segs s) (Some (wadd16 (v_last_sent_seq_nr s) 1))) s h
                  (stq_remaining s).

Definition g_stq_tail2 (h : chdr) (s : vsock) (ret : bool) : bool :=
  if ret then true else g_stq_new_data h s.

Definition g_stq_tail1 (h : chdr) (s : vsock) (ret : bool) : bool :=
  if ret then true
  else if 0 <? v_rto_retransmissions s then true
  else match ss_segs (v_segs s) with
       | [] => true
       | _ :: _ =>
           match rv_phase (v_recovery s) with
           | Recovering rc =>
               g_stq_rec_items s rc &&
               g_recovery_loop (stq_rec_items s rc) s h (mss (v_ss s)) (stq_rec_st0 rc) &&
               gstep (recovery_loop (stq_rec_items s rc) s h (mss (v_ss s)) (stq_rec_st0 rc))
                 (fun s1 res =>
                    g_stq_rec_finish res &&
                    gstep (stq_rec_finish s rc s1 res) (g_stq_tail2 h))
           | _ => g_stq_tail2 h s false
           end
       end.

Definition g_send_tx_queue (s : vsock) : bool :=
  if v_transport_pending s then true
  else g_stq_after_rto s && gstep (stq_after_rto s) (g_stq_tail1 (outgoing_header s)).

(* ---- split_tx_queue_into_segments ---- *)
Definition split_s1 (s : vsock) : vsock :=
  let tx_len := Z.of_nat (length (ring (v_tx s))) in
    let grow_limit := Z.min (Z.min (cc_window cci (v_cc s)) (v_last_remote_window s))
                            (o_tx_max (v_opts s)) in
    let capc := cap (v_tx s) in
      if (capc <? grow_limit) && (9 * capc <? 10 * tx_len) then
        let '(tx1, g) := grow (v_tx s) (o_tx_max (v_opts s)) in
        match g with
        | Some _ => let '(tx2, w) := wake_writer tx1 in add_wakes (set_tx s tx2) (tx_wakes w)
        | None => set_tx s tx1
        end
      else s.

Definition g_split (s : vsock) : bool :=
  if Z.of_nat (length (ring (v_tx s))) =? 0 then true
  else
    let s1 := split_s1 s in
    match snd (pop_expired_mtu_probe (v_segs s1) (timer_expired (v_t_retransmit s1) (v_now s1) && negb (is_local_fin_or_later (v_state s1)))
                                     (o_mtu_probe_max_retx (v_opts s1))) with
    | PeExpired rewind_to _ => cmp_ok (v_last_sent_seq_nr s1) rewind_to
    | _ => true
    end.

(* ---- incoming messages ---- *)
Definition g_state_table (s : vsock) (h : chdr) : bool :=
  u16_ok (ch_ack h) && u16_ok (ch_seq h) &&
  match v_state s with
  | FinWait1 our_fin => u16_ok our_fin && u16_ok (v_last_consumed s)
  | LastAck our_fin remote_fin => u16_ok our_fin && cmp_ok (ch_seq h) remote_fin
  | _ => true
  end.

Definition g_pim (s : vsock) (m : msg) : bool :=
  let h := m_hdr m in
  g_state_table s h &&
  match state_table s h with
  | TblContinue s1 =>
      g_remove_up_to_ack (v_segs s1) (ch_ack h) (ch_sack h) &&
      g_recovery_on_ack (v_recovery s1) h
        (fst (remove_up_to_ack (v_segs s1) (v_now s1) (ch_ack h) (ch_sack h)))
        (v_last_sent_seq_nr s1) &&
      cmp_ok (ch_seq h) (wadd16 (v_last_consumed s1) 1)
  | _ => true
  end.

Fixpoint g_recv_loop (fuel : list msg) (s : vsock) : bool :=
  match v_inbox s with
  | [] =>
      if v_inbox_closed s then g_maybe_send_fin (transition_to_fin_wait_1 s) else true
  | m :: rest =>
      match fuel with
      | [] => true
      | _ :: fuel' =>
          g_pim (set_inbox s rest) m &&
          gstep (process_incoming_message cci (set_inbox s rest) m) (fun s1 _ =>
            if state_is_closed (v_state s1) (o_wait_for_last_ack (v_opts s1)) || v_transport_pending s1
            then true else g_recv_loop fuel' s1)
      end
  end.

Definition g_acked_counts_as_sent (s : vsock) : bool :=
  cmp_ok (wsub16 (ss_snd_una (v_segs s)) 1) (v_last_sent_seq_nr s) &&
  cmp_ok (wsub16 (ss_snd_una (v_segs s)) 1) (v_seq_nr s).

(* the bookkeeping after the receive loop, by parts (same terms as in Conn/VSock.v) *)
Definition paim_s2 (s1 : vsock) (r : on_ack_result) : vsock :=
        if (0 <? ar_acked_segments r) || (0 <? ar_newly_sacked_segments r) then
          let s' := set_rto_retransmissions s1 0 in
          match ss_segs (v_segs s'), our_fin_if_unacked (v_state s') with
          | [], None => set_t_inactivity (set_t_retransmit s' None) None
          | _, _ =>
              restart_remote_inactivity_timer
                (set_t_retransmit s' (timer_arm (v_t_retransmit s') (v_now s')
                                        (retransmission_timeout (v_rtte s')) true))
          end
        else s1.

Definition paim_s3o (s2 : vsock) (r : on_ack_result) : step unit :=
        if 0 <? ar_acked_segments r then
          let s2 := acked_counts_as_sent s2 in
          let '(tx1, tr) := truncate_front (v_tx s2) (ar_acked_bytes r) in
          match tr with
          | TrBug _ _ => SErr (set_tx s2 tx1) (ErrBug BugTruncateFront)
          | TrOk => let '(tx2, w) := wake_writer tx1 in
                    SOk (add_wakes (set_tx s2 tx2) (tx_wakes w)) tt
          end
        else SOk s2 tt.

Definition paim_pipe (s3 : vsock) (_ : unit) : step unit :=
        match rv_phase (v_recovery s3) with
        | Recovering rc =>
            match calc_pipe (v_segs s3) (rc_high_rxt rc) (v_last_sent_seq_nr s3)
                            (roundtrip_time (v_rtte s3)) (v_now s3) with
            | None => SPanic
            | Some (segs', pipe, recalc) =>
                SOk (set_recovering (set_segs s3 segs')
                       {| rc_recovery_point := rc_recovery_point rc; rc_high_rxt := rc_high_rxt rc;
                          rc_total_retx := rc_total_retx rc; rc_pipe := pipe; rc_recalc := recalc;
                          rc_cwnd := rc_cwnd rc |}) tt
            end
        | _ => SOk s3 tt
        end.

Definition paim_rest (s1 : vsock) (res : on_ack_result * bool) : step unit :=
  let '(r, _) := res in sbind (paim_s3o (paim_s2 s1 r) r) paim_pipe.

Definition g_paim_pipe (s3 : vsock) (_ : unit) : bool :=
  match rv_phase (v_recovery s3) with
  | Recovering rc => g_calc_pipe (v_segs s3) (rc_high_rxt rc) (v_last_sent_seq_nr s3)
  | _ => true
  end.

Definition g_paim_rest (s1 : vsock) (res : on_ack_result * bool) : bool :=
  let r := fst res in
  (if 0 <? ar_acked_segments r then g_acked_counts_as_sent (paim_s2 s1 r) else true) &&
  gstep (paim_s3o (paim_s2 s1 r) r) g_paim_pipe.

Definition paim_fuel (s : vsock) : list msg :=
  v_inbox s ++ [ {| m_hdr := outgoing_header s; m_payload := [] |} ].

Definition g_process_all (s : vsock) : bool :=
  g_recv_loop (paim_fuel s) s &&
  gstep (recv_loop cci (paim_fuel s) s on_ack_result_default) g_paim_rest.

(* ---- poll ---- *)
Definition gbail {A} (m : step (CC:=CC) A) (k : vsock -> A -> bool) : bool :=
  match m with SOk s a => if v_restart s then true else k s a | _ => true end.

Definition gpend {A} (m : step (CC:=CC) A) (k : vsock -> A -> bool) : bool :=
  gbail m (fun s a => if v_transport_pending s then true
                      else if v_restart s then true else k s a).

Definition g_poll_body (s0 : vsock) : bool :=
  let s := set_restart (set_now (set_transport_pending s0 false) (v_env_now s0)) false in
  gpend (maybe_send_syn_ack s) (fun s _ =>
  gpend (if immediate_ack_to_transmit s then send_ack s else SOk s false) (fun s _ =>
  g_process_all s &&
  gpend (process_all_incoming_messages cci s) (fun s _ =>
  let '(rx1, fr, w) := rx_flush (v_rx s) in
  match fr with
  | FlPanic => true
  | FlOk _ =>
    let s := add_wakes (set_rx s rx1) (rx_wakes w) in
    if timer_expired (v_t_inactivity s) (v_now s) then true
    else
    g_split s &&
    gbail (split_tx_queue_into_segments cci s) (fun s _ =>
    g_send_tx_queue s &&
    gpend (send_tx_queue cci s) (fun s _ =>
    let s := if should_close_on_own_initiative s then transition_to_fin_wait_1 s else s in
    g_maybe_send_fin s &&
    gpend (maybe_send_fin s) (fun s _ => g_ack_to_transmit s)))
  end))).

Fixpoint g_poll_loop (fuel : nat) (s : vsock) : bool :=
  match fuel with
  | O => true
  | S fuel' =>
      g_poll_body s &&
      match poll_body cci s with
      | BrRestart s' => g_poll_loop fuel' s'
      | _ => true
      end
  end.

Definition g_poll (s : vsock) : bool :=
  g_poll_loop 64 (set_arm_in (set_wakes (set_out s []) []) None).

(* the guard of one step of the connection-level trace *)
Definition c09_guard_vstep (s : vsock) (o : vop) : bool :=
  match o with
  | VoPoll script => g_poll (set_sends s script)
  | _ => true
  end.

(* ... and of a whole trace (same stopping rule as vtrace/ftrace) *)
Fixpoint c09_guard_trace (s : vsock) (ops : list vop) : bool :=
  match ops with
  | [] => true
  | o :: rest =>
      c09_guard_vstep s o &&
      (let '(s', out, _, _) := vstep cci s o in
       if poll_finished out then true else c09_guard_trace s' rest)
  end.

(* index of the first step of a scenario that leaves the guard (for the report) *)
Fixpoint c09_guard_first_bad (s : vsock) (ops : list vop) (i : Z) : option Z :=
  match ops with
  | [] => None
  | o :: rest =>
      if c09_guard_vstep s o then
        let '(s', out, _, _) := vstep cci s o in
        if poll_finished out then None else c09_guard_first_bad s' rest (i + 1)
      else Some i
  end.

End Guard.

(* the guard of a whole scenario for the CUBIC instance (what the correspondence check can evaluate
   on the inputs of a metamorphic case: it needs the construction parameters and the op list only) *)
Section CubicGuard.
Variable cbrt : Cubic.F64.f64 -> Cubic.F64.f64.
Variable powf3 : Cubic.F64.f64 -> Cubic.F64.f64.

Definition c09_guard_trace_cubic (c : vconfig) (ops : list vop) : bool :=
  match vsock_new_cubic cbrt powf3 c with
  | Some s => c09_guard_trace (cubic_iface cbrt powf3) s ops
  | None => true
  end.
Definition c09_guard_first_bad_cubic (c : vconfig) (ops : list vop) : option Z :=
  match vsock_new_cubic cbrt powf3 c with
  | Some s => c09_guard_first_bad (cubic_iface cbrt powf3) s ops 0
  | None => None
  end.
End CubicGuard.

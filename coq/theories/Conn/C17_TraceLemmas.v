(* The receive-side relation [RX] that every function of a poll EXCEPT the processing of one incoming message
   satisfies between its entry and exit state:
     - last_consumed (the acknowledgement number), the inbox and its closed flag are untouched;
     - the connection state is kept, or moves within the handshake, or into FinWait1 ([strel]);
     - the receiver is only flushed / flagged ([rxrel]: slots popped from the front of the reassembly queue,
       bytes moved to the reader's queue, the invariant of Rx/Rx_Proofs.v kept);
     - datagrams are only appended, each of them acknowledges last_consumed and none is an ST_SYN; consumed-
       but-unacknowledged bytes (cbu) change only when a datagram goes out.
   Used by Conn/C17_Trace.v (c17_peer_fin_ok) and Conn/C04_Step.v (c04_vsock_ack_ok) through the generic
   whole-poll theorems of Conn/VSock_LemmasStep.v. *)
From Utp Require Rx.Rx_Slots.
From Utp Require Import Base.Prelude Wire.SeqNr Wire.Header Wire.Header_Proofs Rtt.Rtte Mtu.SegSizes
  Rx.Rx Rx.Rx_Proofs Tx.Ring Tx.Segments Conn.Recovery Conn.Msg Conn.VSockRec Conn.VSock Conn.VSockRun Conn.VObs
  Conn.VSock_Lemmas Conn.VSock_LemmasStep Conn.VSock_LemmasTx Conn.VSock_LemmasFin Conn.C17_Pred Conn.C17_Proofs
  Conn.C17_StepLemmas.

(* ------------------------------------------------------------------ the receiver *)
Definition dshift (r r' : rx) : Prop :=
  g_base r <= g_base r' /\
  forall (i : nat) sl, nth_error (ooq_data r') i = Some sl -> slot_is_default sl = false ->
    nth_error (ooq_data r) (i + Z.to_nat (g_base r' - g_base r)) = Some sl.

Definition rxrel (r r' : rx) : Prop :=
  (rx_inv r -> rx_inv r') /\
  consumed r' = consumed r /\
  ooq_len r' - filled_front r' = ooq_len r - filled_front r /\
  q_len_bytes r' + ooq_len_bytes r' = q_len_bytes r + ooq_len_bytes r /\
  (filled_front r = 0 -> filled_front r' = 0 /\ ooq_len r' = ooq_len r /\ q_len_bytes r' = q_len_bytes r) /\
  dshift r r'.

Lemma dshift_refl r : dshift r r.
Proof.
  split; [lia|]. intros i sl H _. replace (g_base r - g_base r) with 0 by lia.
  cbn [Z.to_nat]. rewrite Nat.add_0_r. exact H.
Qed.

Lemma dshift_trans a b c : dshift a b -> dshift b c -> dshift a c.
Proof.
  intros [A1 A2] [B1 B2]. split; [lia|]. intros i sl H Hd.
  specialize (B2 i sl H Hd). specialize (A2 _ sl B2 Hd).
  replace (i + Z.to_nat (g_base c - g_base a))%nat
    with (i + Z.to_nat (g_base c - g_base b) + Z.to_nat (g_base b - g_base a))%nat by lia.
  exact A2.
Qed.

Lemma rxrel_refl r : rxrel r r.
Proof.
  unfold rxrel. split; [auto|]. split; [reflexivity|]. split; [reflexivity|]. split; [reflexivity|].
  split; [auto|apply dshift_refl].
Qed.

Lemma rxrel_trans a b c : rxrel a b -> rxrel b c -> rxrel a c.
Proof.
  intros (A1 & A2 & A3 & A4 & A5 & A6) (B1 & B2 & B3 & B4 & B5 & B6).
  split; [auto|]. split; [congruence|]. split; [lia|]. split; [lia|].
  split; [|eapply dshift_trans; eauto].
  intro H. destruct (A5 H) as (X1 & X2 & X3). destruct (B5 X1) as (Y1 & Y2 & Y3).
  split; [exact Y1|]. split; congruence.
Qed.

Lemma rxrel_eq r r' : r' = r -> rxrel r r'.
Proof. intros ->. apply rxrel_refl. Qed.

(* flags, wakers and the reader's queue (error marker) only *)
Lemma rxrel_flags (r r' : rx) :
  ooq_data r' = ooq_data r -> filled_front r' = filled_front r -> ooq_len r' = ooq_len r ->
  ooq_len_bytes r' = ooq_len_bytes r -> ooq_capacity r' = ooq_capacity r ->
  q_len_bytes r' = q_len_bytes r -> sum_q_bytes (q r') = sum_q_bytes (q r) -> q_capacity r' = q_capacity r ->
  last_remaining_rx_window r' = last_remaining_rx_window r -> g_base r' = g_base r ->
  rxrel r r'.
Proof.
  intros E1 E2 E3 E4 E5 E6 E7 E8 E9 E10. unfold rxrel, consumed.
  split.
  { unfold rx_inv. rewrite E1, E2, E3, E4, E5, E6, E7, E8, E9, E10. auto. }
  split; [congruence|]. split; [lia|]. split; [lia|]. split; [intro; repeat split; congruence|].
  split; [lia|]. intros i sl H _. rewrite E10, E1 in *. replace (g_base r - g_base r) with 0 by lia.
  cbn [Z.to_nat]. rewrite Nat.add_0_r. exact H.
Qed.

(* ---- the flush loop: pops from the front ---- *)
Lemma nth_error_skipn_app_default (d : list slot) (m m' i : nat) sl :
  nth_error (skipn m d ++ repeat slot_default m') i = Some sl -> slot_is_default sl = false ->
  nth_error d (i + m) = Some sl.
Proof.
  intros Hn Hd. destruct (Nat.lt_ge_cases i (length (skipn m d))) as [Hlt|Hge].
  - rewrite nth_error_app1 in Hn by exact Hlt. rewrite Rx_Slots.nth_error_skipn in Hn.
    rewrite Nat.add_comm. exact Hn.
  - rewrite nth_error_app2 in Hn by exact Hge. apply Rx_Slots.nth_error_repeat in Hn. subst sl. discriminate.
Qed.

Lemma flush_loop_shape : forall fuel s w fb fp s' w' fb' fp',
  flush_loop fuel s w fb fp = Some (s', w', fb', fp') ->
  exists m m' : nat,
    ooq_data s' = skipn m (ooq_data s) ++ repeat slot_default m' /\
    g_base s' = g_base s + Z.of_nat m /\
    filled_front s' = filled_front s - Z.of_nat m /\
    ooq_len s' = ooq_len s - Z.of_nat m /\
    q_len_bytes s' + ooq_len_bytes s' = q_len_bytes s + ooq_len_bytes s /\
    (filled_front s = 0 -> s' = s).
Proof.
  induction fuel as [|fuel IH]; intros s w fb fp s' w' fb' fp'; cbn [flush_loop].
  { intro H; injection H as <- _ _ _. exists 0%nat, 0%nat. cbn [skipn repeat]. rewrite app_nil_r.
    repeat split; try lia; reflexivity. }
  assert (Hsame : Some (s, w, fb, fp) = Some (s', w', fb', fp') ->
    exists m m' : nat,
      ooq_data s' = skipn m (ooq_data s) ++ repeat slot_default m' /\
      g_base s' = g_base s + Z.of_nat m /\ filled_front s' = filled_front s - Z.of_nat m /\
      ooq_len s' = ooq_len s - Z.of_nat m /\
      q_len_bytes s' + ooq_len_bytes s' = q_len_bytes s + ooq_len_bytes s /\ (filled_front s = 0 -> s' = s)).
  { intro H; injection H as <- _ _ _. exists 0%nat, 0%nat. cbn [skipn repeat]. rewrite app_nil_r.
    repeat split; try lia; reflexivity. }
  destruct (Z.eqb_spec (filled_front s) 0) as [E0|N0]; [exact Hsame|].
  destruct (ooq_data s) as [|m rest] eqn:Ed; [discriminate|].
  destruct (w <? slot_len_bytes m); [exact Hsame|].
  destruct (reader_dropped s); [exact Hsame|].
  destruct (q_capacity s - q_len_bytes s <? slot_len_bytes m); [discriminate|].
  intro H. destruct (IH _ _ _ _ _ _ _ _ H) as (m1 & m1' & Hd & Hg & Hf & Hl & Hb & _).
  cbn [pop_front_state ooq_data g_base filled_front ooq_len q_len_bytes ooq_len_bytes] in Hd, Hg, Hf, Hl, Hb.
  destruct (Rx_Slots.skipn_app_one_default slot_default m1 rest m1') as (k' & Hk).
  exists (S m1), k'. cbn [skipn]. rewrite Hd.
  split; [exact Hk|]. split; [lia|]. split; [lia|]. split; [lia|]. split; [lia|]. intro; contradiction.
Qed.

Lemma rx_flush_rxrel (r r' : rx) fb w : rx_flush r = (r', FlOk fb, w) -> rxrel r r'.
Proof.
  intro H.
  assert (Hinv : rx_inv r -> rx_inv r').
  { intro Hi. destruct (rx_flush_spec _ _ _ _ Hi H) as (X & _). exact X. }
  revert H. unfold rx_flush.
  set (s0 := set_wakers r _ _ _).
  assert (D0 : ooq_data s0 = ooq_data r /\ g_base s0 = g_base r /\ filled_front s0 = filled_front r /\
               ooq_len s0 = ooq_len r /\ q_len_bytes s0 = q_len_bytes r /\ ooq_len_bytes s0 = ooq_len_bytes r)
    by (unfold s0; cbn; repeat split).
  destruct D0 as (D1 & D2 & D3 & D4 & D5 & D6).
  destruct (flush_loop _ s0 _ 0 0) as [[[[s1 w1] fb1] fp1]|] eqn:E; [|discriminate].
  destruct (flush_loop_shape _ _ _ _ _ _ _ _ _ E) as (m & m' & Hd & Hg & Hf & Hl & Hb & Hz).
  assert (Hres : ooq_data r' = ooq_data s1 /\ g_base r' = g_base s1 /\ filled_front r' = filled_front s1 /\
                 ooq_len r' = ooq_len s1 /\ q_len_bytes r' = q_len_bytes s1 /\
                 ooq_len_bytes r' = ooq_len_bytes s1 -> rxrel r r').
  { intros (A1 & A2 & A3 & A4 & A5 & A6). unfold rxrel, consumed.
    split; [exact Hinv|]. split; [lia|]. split; [lia|]. split; [lia|].
    split.
    { intro Z0. rewrite <- D3 in Z0. specialize (Hz Z0). subst s1. repeat split; congruence. }
    split; [lia|]. intros i sl Hn Hdf. rewrite A1, Hd, D1 in Hn.
    replace (g_base r' - g_base r) with (Z.of_nat m) by lia. rewrite Nat2Z.id.
    eapply nth_error_skipn_app_default; eauto. }
  destruct (0 <? fp1); intro H; injection H as <- _ _; apply Hres; cbn; repeat split.
Qed.

Section WithCC.
Context {CC : Type} (cci : cc_iface CC).
Notation vsock := (vsock CC).

(* ------------------------------------------------------------------ the connection state *)
Definition is_hs (a : vstate) : bool := match a with SynReceived | SynAckSent _ => true | _ => false end.

Definition strel (a a' : vstate) : Prop :=
  a' = a \/
  (is_local_fin_or_later a = false /\ ((is_hs a = true /\ is_hs a' = true) \/ exists f, a' = FinWait1 f)).

Lemma strel_refl a : strel a a.
Proof. left. reflexivity. Qed.

Lemma strel_trans a b c : strel a b -> strel b c -> strel a c.
Proof.
  intros [->|(L & [(H1 & H2)|(f & ->)])] [->|(L' & [(H1' & H2')|(f' & ->)])].
  - left. reflexivity.
  - right. split; [exact L'|left; auto].
  - right. split; [exact L'|right; eauto].
  - right. split; [exact L|left; auto].
  - right. split; [exact L|left; auto].
  - right. split; [exact L|right; eauto].
  - right. split; [exact L|right; eauto].
  - discriminate.
  - discriminate.
Qed.

Lemma strel_remote_fin a a' : strel a a' -> is_remote_fin_or_later a' = is_remote_fin_or_later a.
Proof.
  intros [->|(L & [(H1 & H2)|(f & ->)])]; [reflexivity| |];
    destruct a; try discriminate; try reflexivity; destruct a'; try discriminate; reflexivity.
Qed.

Lemma strel_last_ack a f r : strel a (LastAck f r) -> a = LastAck f r.
Proof. intros [H|(L & [(H1 & H2)|(f' & H)])]; [auto|discriminate|discriminate]. Qed.

Lemma strel_closed a : strel a Closed -> a = Closed.
Proof. intros [H|(L & [(H1 & H2)|(f' & H)])]; [auto|discriminate|discriminate]. Qed.

Lemma strel_local_fin a a' : strel a a' -> is_local_fin_or_later a = true -> a' = a.
Proof. intros [H|(L & _)] Hl; [exact H|congruence]. Qed.

Lemma strel_data_state a a' : strel a a' -> is_data_state a = true -> is_data_state a' = true.
Proof.
  intros [->|(L & [(H1 & H2)|(f & ->)])] Hd; [exact Hd| |reflexivity].
  destruct a; discriminate.
Qed.

(* ------------------------------------------------------------------ the relation *)
Definition ackp (lc : Z) (p : packet) : Prop := ch_ack (p_hdr p) = lc /\ ch_type (p_hdr p) <> ST_SYN.

Definition RX (s s' : vsock) : Prop :=
  v_last_consumed s' = v_last_consumed s /\ v_inbox s' = v_inbox s /\
  v_inbox_closed s' = v_inbox_closed s /\
  strel (v_state s) (v_state s') /\ rxrel (v_rx s) (v_rx s') /\
  exists l, v_out s' = l ++ v_out s /\ Forall (ackp (v_last_consumed s)) l /\ (l = [] -> v_cbu s' = v_cbu s).

Lemma RX_refl s : RX s s.
Proof.
  unfold RX. split; [reflexivity|]. split; [reflexivity|]. split; [reflexivity|].
  split; [apply strel_refl|]. split; [apply rxrel_refl|]. exists []. auto.
Qed.

Lemma RX_trans a b c : RX a b -> RX b c -> RX a c.
Proof.
  intros (A1 & A2 & A3 & A4 & A5 & l1 & A6 & A7 & A8) (B1 & B2 & B3 & B4 & B5 & l2 & B6 & B7 & B8).
  split; [congruence|]. split; [congruence|]. split; [congruence|].
  split; [eapply strel_trans; eauto|]. split; [eapply rxrel_trans; eauto|].
  exists (l2 ++ l1). split; [rewrite B6, A6, app_assoc; reflexivity|].
  split; [apply Forall_app; split; [rewrite <- A1; exact B7|exact A7]|].
  intro E. apply app_eq_nil in E. destruct E as [E2 E1]. rewrite B8, A8; auto.
Qed.

Lemma RX_same (s s' : vsock) :
  v_last_consumed s' = v_last_consumed s -> v_inbox s' = v_inbox s -> v_inbox_closed s' = v_inbox_closed s ->
  v_state s' = v_state s -> v_rx s' = v_rx s -> v_out s' = v_out s -> v_cbu s' = v_cbu s -> RX s s'.
Proof.
  intros E1 E2 E3 E4 E5 E6 E7. split; [exact E1|]. split; [exact E2|]. split; [exact E3|].
  split; [left; exact E4|]. split; [apply rxrel_eq; exact E5|]. exists []. auto.
Qed.

Lemma RX_emit (s s' : vsock) p :
  v_last_consumed s' = v_last_consumed s -> v_inbox s' = v_inbox s -> v_inbox_closed s' = v_inbox_closed s ->
  v_state s' = v_state s -> v_rx s' = v_rx s -> v_out s' = p :: v_out s -> ackp (v_last_consumed s) p -> RX s s'.
Proof.
  intros E1 E2 E3 E4 E5 E6 Hp. split; [exact E1|]. split; [exact E2|]. split; [exact E3|].
  split; [left; exact E4|]. split; [apply rxrel_eq; exact E5|]. exists [p]. split; [exact E6|].
  split; [constructor; [exact Hp|constructor]|discriminate].
Qed.

Ltac rx_same := apply RX_same; vsimpl; reflexivity.

Notation stRX := (stR RX).

Lemma stRX_bind {A B} s (m : step A) (f : vsock -> A -> step B) :
  stRX s m -> (forall s1 a, stRX s1 (f s1 a)) -> stRX s (sbind m f).
Proof. apply (stR_sbind RX RX_trans). Qed.

Lemma stRX_weaken {A} s0 s (m : step A) : RX s0 s -> stRX s m -> stRX s0 m.
Proof. apply (stR_weaken RX RX_trans). Qed.

(* ------------------------------------------------------------------ sending *)
Lemma next_send_RX (s : vsock) n s1 o : next_send s n = (s1, o) -> RX s s1.
Proof. intro E. apply next_send_same in E. destruct E as [->|[r ->]]; [apply RX_refl|rx_same]. Qed.

Lemma send_control_packet_RX (s : vsock) h :
  ch_ack h = v_last_consumed s -> ch_type h <> ST_SYN -> stRX s (send_control_packet s h).
Proof.
  intros Ha Ht. unfold send_control_packet. destruct (v_transport_pending s); [apply RX_refl|].
  destruct (next_send s _) as [s1 o] eqn:E. apply next_send_same in E.
  destruct o; cbn [stR].
  - destruct E as [->|[r ->]]; unfold on_packet_sent, emit;
      (eapply RX_emit; vsimpl; [reflexivity..|split; [exact Ha|exact Ht]]).
  - destruct E as [->|[r ->]]; rx_same.
  - destruct E as [->|[r ->]]; [apply RX_refl|rx_same].
  - destruct E as [->|[r ->]]; [apply RX_refl|rx_same].
Qed.

Lemma send_ack_RX (s : vsock) : stRX s (send_ack s).
Proof. unfold send_ack. apply send_control_packet_RX; [reflexivity|discriminate]. Qed.

Lemma maybe_send_fin_RX (s : vsock) : stRX s (maybe_send_fin s).
Proof.
  unfold maybe_send_fin. destruct (v_transport_pending s); [apply RX_refl|].
  destruct (our_fin_if_unacked (v_state s)) as [f|]; [|apply RX_refl].
  destruct (negb _); [apply RX_refl|].
  apply stRX_bind; [apply send_control_packet_RX; [reflexivity|discriminate]|].
  intros s1 a. destruct a; cbn [stR]; [rx_same|apply RX_refl].
Qed.

Lemma send_data_RX (s : vsock) h f : ch_ack h = v_last_consumed s -> stRX s (send_data s h f).
Proof.
  intro Ha. unfold send_data. destruct (_ =? _); [apply RX_refl|].
  destruct (_ <? 0); [exact I|]. destruct (_ <? _); [apply RX_refl|].
  destruct (_ <? _); [apply RX_refl|].
  destruct (next_send s _) as [s1 o] eqn:E. apply next_send_same in E.
  destruct o; cbn [stR].
  - cbv zeta. unfold on_packet_sent, emit.
    destruct E as [->|[r ->]]; vsimpl;
      (destruct (seq_gt (fs_seq f) _); [destruct (seq_gt (wadd16 (fs_seq f) 1) _)|]);
      (eapply RX_emit; vsimpl; [reflexivity..|split; [exact Ha|discriminate]]).
  - destruct E as [->|[r ->]]; rx_same.
  - destruct E as [->|[r ->]]; [apply RX_refl|rx_same].
  - destruct E as [->|[r ->]]; [apply RX_refl|rx_same].
Qed.

Lemma on_rto_reactions_RX s s' : on_rto_reactions cci s = Some s' -> RX s s'.
Proof. unfold on_rto_reactions. destruct (on_rto_timeout _); [|discriminate].
  intro H; injection H as <-. rx_same. Qed.

Lemma RX_lc (s s' : vsock) : RX s s' -> v_last_consumed s' = v_last_consumed s.
Proof. intros (H & _). exact H. Qed.

Lemma recovery_loop_RX : forall items s h mss0 st,
  ch_ack h = v_last_consumed s -> stRX s (recovery_loop items s h mss0 st).
Proof.
  induction items as [|f rest IH]; intros s h mss0 st Ha; cbn [recovery_loop]; [apply RX_refl|].
  destruct (negb _); [apply RX_refl|].
  destruct (_ && _); [apply IH; exact Ha|]. destruct (_ && _); [apply RX_refl|].
  pose proof (send_data_RX s h f Ha) as Hd. destruct (send_data s h f) as [s1 r|s1 e|]; cbn [stR] in *; auto.
  destruct r; cbn [stR]; auto.
  eapply stRX_weaken; [exact Hd|apply IH]. rewrite (RX_lc _ _ Hd). exact Ha.
Qed.

Lemma new_data_loop_RX : forall items s h rem,
  ch_ack h = v_last_consumed s -> stRX s (new_data_loop items s h rem).
Proof.
  induction items as [|f rest IH]; intros s h rem Ha; cbn [new_data_loop]; [apply RX_refl|].
  destruct (_ <? _); [apply RX_refl|].
  pose proof (send_data_RX s h f Ha) as Hd. destruct (send_data s h f) as [s1 r|s1 e|]; cbn [stR] in *; auto.
  destruct r; cbn [stR]; auto.
  eapply stRX_weaken; [exact Hd|apply IH]. rewrite (RX_lc _ _ Hd). exact Ha.
Qed.

Lemma set_recovering_RX (s : vsock) rc : RX s (set_recovering s rc).
Proof. unfold set_recovering. rx_same. Qed.

Lemma stRX_bind' {A B} s (m : step A) (f : vsock -> A -> step B) :
  stRX s m -> (forall s1 a, RX s s1 -> stRX s1 (f s1 a)) -> stRX s (sbind m f).
Proof.
  intros Hm Hf. destruct m as [s1 a|s1 e|]; cbn [sbind stR] in *; auto.
  specialize (Hf s1 a Hm). destruct (f s1 a); cbn [stR] in *; auto; eapply RX_trans; eauto.
Qed.

Lemma send_tx_queue_RX (s : vsock) : stRX s (send_tx_queue cci s).
Proof.
  unfold send_tx_queue. destruct (v_transport_pending s); [apply RX_refl|].
  assert (Hh : ch_ack (outgoing_header s) = v_last_consumed s) by reflexivity.
  revert Hh. generalize (outgoing_header s). intros h Hh.
  apply stRX_bind'.
  { destruct (timer_expired _ _); [|apply RX_refl].
    destruct (iter_for_sending _ _) as [|f l].
    - destruct (our_fin_if_unacked _); [|cbn [stR]; rx_same].
      destruct (_ =? _); [|cbn [stR]; rx_same].
      apply stRX_weaken with (s := set_last_sent_seq_nr s (wsub16 (v_last_sent_seq_nr s) 1)); [rx_same|].
      apply stRX_bind; [apply maybe_send_fin_RX|].
      intros s1 a. destruct a; [|apply RX_refl].
      destruct (on_rto_reactions cci s1) eqn:E; [|exact I]. apply on_rto_reactions_RX in E.
      cbn [stR]. eapply RX_trans; [exact E|]. rx_same.
    - pose proof (send_data_RX s h f Hh) as Hd.
      destruct (send_data _ _ f) as [s1 r|s1 e|]; cbn [stR] in *; auto.
      destruct r; cbn [stR]; auto.
      cbv zeta.
      match goal with |- stR _ _ (match ?o with _ => _ end) => destruct o as [s2|] eqn:E end; [|exact I].
      assert (F2 : RX s1 s2).
      { destruct (negb _); [apply on_rto_reactions_RX; exact E|injection E as <-; apply RX_refl]. }
      cbn [stR]. eapply RX_trans; [exact Hd|]. eapply RX_trans; [exact F2|]. rx_same. }
  intros s1 ret F1. destruct ret; [apply RX_refl|].
  destruct (0 <? _); [apply RX_refl|]. destruct (ss_segs _); [apply RX_refl|].
  assert (Hh1 : ch_ack h = v_last_consumed s1) by (rewrite (RX_lc _ _ F1); exact Hh).
  apply stRX_bind'.
  { destruct (rv_phase _); try apply RX_refl.
    apply stRX_bind; [apply recovery_loop_RX; exact Hh1|].
    intros s2 [st early]. cbv beta iota zeta.
    destruct early; [apply set_recovering_RX|].
    match goal with |- stR _ _ (match our_fin_if_unacked (v_state ?y) with _ => _ end) =>
      assert (F3 : RX s2 y); [|abs_as y F3 sy] end.
    { eapply RX_trans; [apply set_recovering_RX|].
      destruct (_ <? _); [|apply RX_refl]. destruct (rc_recalc _); [rx_same|].
      destruct (0 <? _); [rx_same|apply RX_refl]. }
    destruct (our_fin_if_unacked _); [destruct (_ =? _)|]; cbn [stR]; auto.
    all: try (eapply RX_trans; [exact F3|]; unfold set_recovering; rx_same). }
  intros s2 ret F2. destruct ret; [apply RX_refl|].
  assert (Hh2 : ch_ack h = v_last_consumed s2) by (rewrite (RX_lc _ _ F2); exact Hh1).
  apply stRX_bind; [apply new_data_loop_RX; exact Hh2|].
  intros s3 tl. destruct tl as [[sq sz]|]; [|apply RX_refl].
  destruct (pop_mtu_probe _ _) as [segs' popped]. destruct popped; cbn [stR]; [rx_same|apply RX_refl].
Qed.

Lemma maybe_send_ack_RX (s : vsock) : stRX s (maybe_send_ack s).
Proof.
  unfold maybe_send_ack. destruct (immediate_ack_to_transmit s); [apply send_ack_RX|].
  destruct (should_send_window_update s); [apply send_ack_RX|].
  destruct (timer_expired _ _).
  - destruct (ack_to_transmit s); [apply send_ack_RX|cbn [stR]; rx_same].
  - destruct (0 <? _); cbn [stR]; [rx_same|apply RX_refl].
Qed.

Lemma add_wakes_RX (s : vsock) w : RX s (add_wakes s w).
Proof. unfold add_wakes. rx_same. Qed.

Lemma split_cont_RX (s0 s2 : vsock) tl :
  RX s0 s2 ->
  stRX s0 (if tl <? ss_len_bytes (v_segs s2) then SErr s2 (ErrBug BugInBufferComputations)
       else match segment_loop (ring (v_tx s2)) (o_nagle (v_opts s2)) (v_ss s2) (v_segs s2)
                    (tl - ss_len_bytes (v_segs s2)) (v_last_remote_window s2) with
            | Some (ss', segs', remaining) =>
                SOk (set_unsegmented (set_segs (set_ss s2 ss') segs') remaining) tt
            | None => SPanic
            end).
Proof.
  intros F2. destruct (_ <? _); [exact F2|].
  destruct (segment_loop _ _ _ _ _ _) as [[[ss' segs'] rem]|]; [|exact I].
  cbn [stR]. eapply RX_trans; [exact F2|rx_same].
Qed.

Lemma split_RX (s : vsock) : stRX s (split_tx_queue_into_segments cci s).
Proof.
  unfold split_tx_queue_into_segments. cbv zeta. destruct (_ =? 0); [cbn [stR]; rx_same|].
  match goal with |- stR _ _ (if is_remote_fin_or_later (v_state ?x) then _ else _) =>
    assert (F : RX s x); [|abs_as x F sx] end.
  { destruct (_ && _); [|apply RX_refl]. destruct (grow _ _) as [tx1 g]. destruct g.
    - destruct (wake_writer tx1) as [tx2 w]. eapply RX_trans; [|apply add_wakes_RX]. rx_same.
    - rx_same. }
  destruct (is_remote_fin_or_later _); [exact F|].
  destruct (pop_expired_mtu_probe _ _ _) as [segs1 pe].
  destruct pe.
  - apply split_cont_RX. eapply RX_trans; [exact F|].
    destruct (seq_gt _ _); rx_same.
  - cbn [stR]. eapply RX_trans; [exact F|rx_same].
  - apply split_cont_RX. exact F.
Qed.

(* ------------------------------------------------------------------ death, closing, handshake *)
Lemma rx_mark_closed_rxrel r r1 w : rx_mark_vsock_closed r = (r1, w) -> rxrel r r1.
Proof.
  unfold rx_mark_vsock_closed. destruct (vsock_closed r); intro H; injection H as <- _; [apply rxrel_refl|].
  apply rxrel_flags; reflexivity.
Qed.

Lemma rx_enqueue_error_rxrel r r1 w : rx_enqueue_error r = (r1, w) -> rxrel r r1.
Proof.
  unfold rx_enqueue_error. intro H; injection H as <- _.
  apply rxrel_flags; try reflexivity. cbn [set_flags q]. rewrite sum_q_bytes_app. cbn. lia.
Qed.

Lemma RX_rx (s s' : vsock) :
  v_last_consumed s' = v_last_consumed s -> v_inbox s' = v_inbox s -> v_inbox_closed s' = v_inbox_closed s ->
  v_state s' = v_state s -> rxrel (v_rx s) (v_rx s') -> v_out s' = v_out s -> v_cbu s' = v_cbu s -> RX s s'.
Proof.
  intros E1 E2 E3 E4 E5 E6 E7. split; [exact E1|]. split; [exact E2|]. split; [exact E3|].
  split; [left; exact E4|]. split; [exact E5|]. exists []. auto.
Qed.

Lemma mark_both_closed_RX (s : vsock) : RX s (mark_both_closed s).
Proof.
  unfold mark_both_closed. destruct (rx_mark_vsock_closed _) as [rx1 w1] eqn:E.
  destruct (mark_vsock_closed _) as [tx1 w2].
  eapply RX_trans; [|apply add_wakes_RX].
  apply RX_rx; vsimpl; try reflexivity. eapply rx_mark_closed_rxrel; exact E.
Qed.

Lemma just_before_death_RX (s : vsock) e : RX s (just_before_death s e).
Proof.
  unfold just_before_death. cbv zeta.
  match goal with |- context [mark_both_closed ?x] => assert (F1 : RX s x); [|abs_as x F1 s1] end.
  { destruct e; [|apply RX_refl]. destruct (rx_enqueue_error _) as [rx1 w] eqn:E.
    eapply RX_trans; [|apply add_wakes_RX]. apply RX_rx; vsimpl; try reflexivity.
    eapply rx_enqueue_error_rxrel; exact E. }
  assert (F2 : RX s (mark_both_closed s1)) by (eapply RX_trans; [exact F1|apply mark_both_closed_RX]).
  abs_as (mark_both_closed s1) F2 s2.
  destruct e; [|exact F2]. destruct (negb _); [|exact F2].
  match goal with |- context [send_control_packet ?x ?h] =>
    pose proof (send_control_packet_RX x h eq_refl ltac:(discriminate)) as Hc;
    assert (F3 : RX s x) by (eapply RX_trans; [exact F2|rx_same]) end.
  destruct (send_control_packet _ _) as [s4 b|s4 e4|]; cbn [stR] in Hc.
  - eapply RX_trans; eauto.
  - eapply RX_trans; eauto.
  - exact F3.
Qed.

Lemma RX_state (s s' : vsock) :
  v_last_consumed s' = v_last_consumed s -> v_inbox s' = v_inbox s -> v_inbox_closed s' = v_inbox_closed s ->
  strel (v_state s) (v_state s') -> v_rx s' = v_rx s -> v_out s' = v_out s -> v_cbu s' = v_cbu s -> RX s s'.
Proof.
  intros E1 E2 E3 E4 E5 E6 E7. split; [exact E1|]. split; [exact E2|]. split; [exact E3|].
  split; [exact E4|]. split; [apply rxrel_eq; exact E5|]. exists []. auto.
Qed.

Lemma transition_RX (s : vsock) : RX s (transition_to_fin_wait_1 s).
Proof.
  unfold transition_to_fin_wait_1.
  destruct (v_state s) eqn:Es; try apply RX_refl;
    (apply RX_state; vsimpl; try reflexivity; rewrite Es; right; split; [reflexivity|right; eauto]).
Qed.

Lemma maybe_send_syn_ack_RX (s : vsock) : stRX s (maybe_send_syn_ack s).
Proof.
  unfold maybe_send_syn_ack.
  assert (Gg : forall c, is_hs (v_state s) = true ->
    stRX s (if c =? o_max_retx (v_opts s) then SErr s ErrMaxSynAckRetransmissionsReached
     else sbind (send_ack s) (fun s1 sent => if sent then
        SOk (set_t_syn_ack_resend (set_state s1 (SynAckSent (c + 1)))
              (timer_arm (v_t_syn_ack_resend s1) (v_now s1) SYNACK_RESEND_INTERNAL true)) tt
        else SOk s1 tt))).
  { intros c Hl. destruct (_ =? _); [apply RX_refl|].
    pose proof (send_ack_RX s) as H. unfold send_ack in H |- *.
    match goal with |- context [send_control_packet s ?h] =>
      pose proof (send_control_packet_fields s h) as Hf end.
    destruct (send_control_packet s _) as [s1 a|s1 e|]; cbn [sbind stR] in *; auto.
    destruct a; cbn [stR]; [|exact H]. eapply RX_trans; [exact H|].
    destruct Hf as (_ & _ & Hst & _).
    apply RX_state; vsimpl; try reflexivity. rewrite Hst. right.
    split; [destruct (v_state s); try discriminate; reflexivity|left; split; [exact Hl|reflexivity]]. }
  destruct (v_state s) eqn:Es; try (cbn [stR]; rx_same).
  - apply Gg. reflexivity.
  - destruct (timer_expired _ _); [apply Gg; reflexivity|apply RX_refl].
Qed.

Lemma rx_flush_RX (s : vsock) rx1 fb w :
  rx_flush (v_rx s) = (rx1, FlOk fb, w) -> RX s (add_wakes (set_rx s rx1) (rx_wakes w)).
Proof.
  intro E. eapply RX_trans; [|apply add_wakes_RX]. apply RX_rx; vsimpl; try reflexivity.
  eapply rx_flush_rxrel; exact E.
Qed.

Lemma poll_start_RX (s : vsock) : RX s (poll_start s).
Proof. unfold poll_start. rx_same. Qed.

Lemma poll_tail_RX (s : vsock) : RX s (poll_tail s).
Proof.
  unfold poll_tail.
  match goal with |- context [next_timer_to_poll ?x] => assert (F : RX s x); [|abs_as x F sx] end.
  { destruct (is_local_fin_or_later _); [rx_same|apply RX_refl]. }
  unfold next_timer_to_poll, arm_in, add_wakes. destruct (v_transport_pending sx).
  - destruct (v_t_inactivity sx); [|exact F]. destruct (_ <=? _); (eapply RX_trans; [exact F|rx_same]).
  - match goal with |- RX _ (match ?t with _ => _ end) => destruct t end;
      [destruct (_ <=? _)|]; (eapply RX_trans; [exact F|rx_same]).
Qed.

Lemma acked_counts_as_sent_RX (s : vsock) : RX s (acked_counts_as_sent s).
Proof. unfold acked_counts_as_sent. destruct (seq_gt _ _ && seq_lt _ _); [rx_same|apply RX_refl]. Qed.

Lemma pa_tail_RX (s1 : vsock) res : stRX s1 (pa_tail s1 res).
Proof.
  destruct res as [r early]. unfold pa_tail. cbv beta iota zeta.
  match goal with |- context [acked_counts_as_sent ?x] =>
    assert (F2 : RX s1 x); [|abs_as x F2 s2] end.
  { destruct (_ || _); [|apply RX_refl].
    destruct (ss_segs _); [destruct (our_fin_if_unacked _)|];
      unfold restart_remote_inactivity_timer; rx_same. }
  eapply stRX_weaken; [exact F2|].
  apply stRX_bind.
  { destruct (0 <? _); [|apply RX_refl].
    eapply stRX_weaken; [apply acked_counts_as_sent_RX|].
    generalize (acked_counts_as_sent s2). intro s2'.
    destruct (truncate_front _ _) as [tx1 tr]. destruct tr; cbn [stR]; [|rx_same].
    destruct (wake_writer tx1) as [tx2 w]. eapply RX_trans; [|apply add_wakes_RX]. rx_same. }
  intros s3 _. destruct (rv_phase _); try apply RX_refl.
  destruct (calc_pipe _ _ _ _ _) as [[[segs' pipe] recalc]|]; [|exact I].
  cbn [stR]. eapply RX_trans; [|apply set_recovering_RX]. rx_same.
Qed.

(* ------------------------------------------------------------------ a whole poll: an invariant kept by
   every RX step, by the processing of one message and by the channel-closed arm of the receive loop is kept
   by poll, whatever the result *)
Section InvPoll.
Variable Inv : vsock -> Prop.
Hypothesis Inv_RX : forall s s', RX s s' -> Inv s -> Inv s'.
Hypothesis Inv_msg : forall s m rest, Inv s -> v_inbox s = m :: rest ->
  match process_incoming_message cci (set_inbox s rest) m with
  | SOk s' _ | SErr s' _ => Inv s'
  | SPanic => True
  end.
Hypothesis Inv_closed : forall s, Inv s -> v_inbox_closed s = true -> Inv (set_state s Closed).

Definition stI {A} (m : step A) : Prop :=
  match m with SOk s' _ | SErr s' _ => Inv s' | SPanic => True end.

Lemma stRX_stI {A} s (m : step A) : Inv s -> stRX s m -> stI m.
Proof. intros Hi H. destruct m; cbn [stR stI] in *; eauto. Qed.

Lemma stI_bind {A B} (m : step A) (f : vsock -> A -> step B) :
  stI m -> (forall s1 a, Inv s1 -> stI (f s1 a)) -> stI (sbind m f).
Proof. intros Hm Hf. destruct m as [s1 a|s1 e|]; cbn [sbind stI] in *; auto. Qed.

Lemma recv_loop_Inv : forall fuel s acc, Inv s -> stI (recv_loop cci fuel s acc).
Proof.
  assert (Hbase : forall (s : vsock) (acc : on_ack_result), Inv s ->
    stI (if v_inbox_closed s
         then sbind (maybe_send_fin (transition_to_fin_wait_1 s))
                    (fun s2 _ => SOk (set_state s2 Closed) (acc, true))
         else SOk (set_inbox_waker s true) (acc, false))).
  { intros s acc Hi. destruct (v_inbox_closed s) eqn:Hc.
    - assert (H1 : Inv (transition_to_fin_wait_1 s)) by (eapply Inv_RX; [apply transition_RX|exact Hi]).
      assert (C1 : v_inbox_closed (transition_to_fin_wait_1 s) = true).
      { destruct (transition_RX s) as (_ & _ & X & _). congruence. }
      pose proof (maybe_send_fin_RX (transition_to_fin_wait_1 s)) as Hf.
      destruct (maybe_send_fin _) as [s2 b|s2 e|]; cbn [sbind stI stR] in *; auto.
      + apply Inv_closed; [eapply Inv_RX; eauto|]. destruct Hf as (_ & _ & X & _). congruence.
      + eapply Inv_RX; eauto.
    - cbn [stI]. eapply Inv_RX; [|exact Hi]. rx_same. }
  induction fuel as [|m0 fuel IH]; intros s acc Hi; cbn [recv_loop];
    destruct (v_inbox s) as [|m rest] eqn:Ei; try (apply Hbase; exact Hi); try exact I.
  apply stI_bind; [apply (Inv_msg s m rest Hi Ei)|].
  intros s1 r H1. destruct (_ || _); [exact H1|apply IH; exact H1].
Qed.

Lemma process_all_Inv (s : vsock) : Inv s -> stI (process_all_incoming_messages cci s).
Proof.
  intro Hi. rewrite process_all_eq. apply stI_bind; [apply recv_loop_Inv; exact Hi|].
  intros s1 res H1. eapply stRX_stI; [exact H1|apply pa_tail_RX].
Qed.

Definition IR (s s' : vsock) : Prop := Inv s -> Inv s'.

Lemma stRX_IR {A} s (m : step A) : stRX s m -> stR IR s m.
Proof. destruct m; cbn [stR]; unfold IR; eauto. Qed.

Theorem poll_Inv (s s' : vsock) r : poll cci s = (s', r) -> Inv (poll_init s) -> Inv s'.
Proof.
  intros H Hi. revert Hi. change (IR (poll_init s) s').
  apply (poll_R cci IR ltac:(unfold IR; auto) ltac:(unfold IR; auto)) with (r := r); try exact H.
  - intros s0. unfold IR. apply Inv_RX, poll_start_RX.
  - intros s0. apply stRX_IR, maybe_send_syn_ack_RX.
  - intros s0. apply stRX_IR, send_ack_RX.
  - intros s0. pose proof (process_all_Inv s0) as P.
    destruct (process_all_incoming_messages cci s0); cbn [stR stI] in *; unfold IR; auto.
  - intros s0 rx1 fb w E. unfold IR. apply Inv_RX. eapply rx_flush_RX; exact E.
  - intros s0. apply stRX_IR, split_RX.
  - intros s0. apply stRX_IR, send_tx_queue_RX.
  - intros s0. unfold IR. apply Inv_RX, transition_RX.
  - intros s0. apply stRX_IR, maybe_send_fin_RX.
  - intros s0. apply stRX_IR, maybe_send_ack_RX.
  - intros s0 e. unfold IR. apply Inv_RX, just_before_death_RX.
  - intros s0. unfold IR. apply Inv_RX, poll_tail_RX.
Qed.

(* the same by parts: the body of one iteration from any of its cut points, and the restart loop *)
Definition brI (r : body_res) : Prop :=
  match r with BrReturn s' _ | BrRestart s' => Inv s' | BrPanic => True end.

Lemma die_I (s : vsock) e : Inv s -> brI (die s e).
Proof. intro Hi. unfold die. cbn [brI]. eapply Inv_RX; [apply just_before_death_RX|exact Hi]. Qed.

Lemma bail_I {A} (m : step A) k :
  stI m -> (forall s1 a, Inv s1 -> brI (k s1 a)) -> brI (bail m k).
Proof.
  intros Hm Hk. unfold bail. destruct m as [s1 a|s1 e|]; cbn [stI] in Hm; [| |exact I].
  - destruct (v_restart s1); [exact Hm|apply Hk; exact Hm].
  - apply die_I; exact Hm.
Qed.

Lemma pend_I {A} (m : step A) k :
  stI m -> (forall s1 a, Inv s1 -> brI (k s1 a)) -> brI (pend m k).
Proof.
  intros Hm Hk. unfold pend. apply bail_I; [exact Hm|].
  intros s1 a H1. destruct (v_transport_pending s1); [exact H1|].
  destruct (v_restart s1); [exact H1|apply Hk; exact H1].
Qed.

Lemma body_finish_Inv (s : vsock) : Inv s -> brI (body_finish s).
Proof.
  intro Hi. unfold body_finish. destruct (state_is_closed _ _).
  { cbn [brI]. eapply Inv_RX; [apply just_before_death_RX|exact Hi]. }
  pose proof (poll_tail_RX s) as F. unfold poll_tail in F.
  destruct (next_timer_to_poll _) as [sx t]. destruct t; cbn [brI]; eapply Inv_RX; eauto.
Qed.

Lemma body_back_Inv (s6 : vsock) : Inv s6 -> brI (body_back s6).
Proof.
  intro H6. unfold body_back.
  assert (H7 : Inv (if should_close_on_own_initiative s6 then transition_to_fin_wait_1 s6 else s6)).
  { destruct (should_close_on_own_initiative s6); [eapply Inv_RX; [apply transition_RX|exact H6]|exact H6]. }
  revert H7. generalize (if should_close_on_own_initiative s6 then transition_to_fin_wait_1 s6 else s6).
  intros s7 H7.
  apply pend_I; [eapply stRX_stI; [exact H7|apply maybe_send_fin_RX]|]. intros s8 _ H8.
  apply pend_I; [eapply stRX_stI; [exact H8|apply maybe_send_ack_RX]|]. intros s9 _ H9.
  apply body_finish_Inv; exact H9.
Qed.

Lemma body_mid_back_Inv (s3 : vsock) : Inv s3 -> brI (body_mid cci body_back s3).
Proof.
  intro H3. unfold body_mid. destruct (rx_flush (v_rx s3)) as [[rx1 fr] w] eqn:Efl.
  destruct fr as [fb|]; [|exact I]. cbv beta iota zeta.
  assert (H4 : Inv (add_wakes (set_rx s3 rx1) (rx_wakes w))).
  { eapply Inv_RX; [eapply rx_flush_RX; exact Efl|exact H3]. }
  revert H4. generalize (add_wakes (set_rx s3 rx1) (rx_wakes w)). intros s4 H4.
  destruct (timer_expired _ _); [apply die_I; exact H4|].
  apply bail_I; [eapply stRX_stI; [exact H4|apply split_RX]|]. intros s5 _ H5.
  apply pend_I; [eapply stRX_stI; [exact H5|apply send_tx_queue_RX]|]. intros s6 _ H6.
  apply body_back_Inv; exact H6.
Qed.

Lemma poll_body_Inv (s0 : vsock) : Inv s0 -> brI (poll_body cci s0).
Proof.
  intro H0. rewrite poll_body_parts. unfold body_front, body_head.
  assert (Hs : Inv (body_start s0)) by (eapply Inv_RX; [apply (poll_start_RX s0)|exact H0]).
  revert Hs. generalize (body_start s0). intros s Hs.
  apply pend_I; [eapply stRX_stI; [exact Hs|apply maybe_send_syn_ack_RX]|]. intros s1 _ H1.
  apply pend_I.
  { destruct (immediate_ack_to_transmit s1); [eapply stRX_stI; [exact H1|apply send_ack_RX]|exact H1]. }
  intros s2 _ H2.
  apply pend_I; [apply process_all_Inv; exact H2|]. intros s3 _ H3.
  apply body_mid_back_Inv; exact H3.
Qed.

Lemma poll_loop_Inv : forall fuel (s : vsock), Inv s -> Inv (fst (poll_loop cci fuel s)).
Proof.
  induction fuel as [|fuel IH]; intros s Hi; cbn [poll_loop]; [exact Hi|].
  pose proof (poll_body_Inv s Hi) as B.
  destruct (poll_body cci s) as [s' r|s'|]; cbn [fst brI] in *; auto.
Qed.

End InvPoll.

End WithCC.

(* C06, trace level: guarded c06_stable_plen_ok (Conn/C06_Pred3.v c06_stable_plen_ok_g). *)
From Utp Require Conn.VSock_Inv.
From Utp Require Import Base.Prelude Wire.SeqNr Wire.SeqNr_Proofs Wire.Header Rtt.Rtte Rtt.Rtte_Proofs
  Mtu.SegSizes Rx.Rx Tx.Ring Tx.Ring_Proofs Tx.Segments Tx.Segments_Proofs Tx.Segments_ProofsOut
  Conn.Recovery Conn.Msg Conn.VSockRec Conn.VSock Conn.VSockRun Conn.VObs
  Conn.VSock_Lemmas Conn.VSock_LemmasStep Conn.VSock_LemmasReach Conn.VSock_LemmasTx
  Conn.VSock_LemmasIn Conn.VSock_LemmasTimers Conn.VSock_LemmasPipe Conn.C17_StepLemmas
  Conn.C10_Pred Conn.C05_Pred Conn.C06_Pred Conn.C0506_Pred2 Conn.C06_Pred2 Conn.C06_Pred3 Conn.C06_RecProofs
  Conn.C06_StepLemmas Conn.C06_StepLemmas2 Conn.C06_StepLemmas3 Conn.C10_Proofs Conn.C06_Step.

(* ------------------------------------------------------------------ the map, against one fingerprint *)
Definition pmap := list (Z * (Z * bool)).

(* every number of the map is named by the table, and the entry agrees with the size on record unless the
   record is that of a probe *)
Definition consistent (g : fseg) (pl : Z) (pr : bool) : Prop :=
  pr = true \/ (fg_size g = pl /\ fg_probe g = false).
Definition MInv (m : pmap) (f : vfp) : Prop :=
  forall q pl pr, assoc_z q m = Some (pl, pr) ->
    exists g, fseg_of_seq f q = Some g /\ consistent g pl pr.
(* the weak form: the numbers the table names agree *)
Definition MW (m : pmap) (f : vfp) : Prop :=
  forall q pl pr g, assoc_z q m = Some (pl, pr) -> fseg_of_seq f q = Some g -> consistent g pl pr.

(* how two tables relate across one poll, as the fingerprints show it: a number named before and after names
   a segment of the same size, not a probe, unless it named a probe before *)
Definition TS (f f' : vfp) : Prop :=
  forall q g g', fseg_of_seq f q = Some g -> fseg_of_seq f' q = Some g' ->
    fg_probe g = true \/ (fg_size g' = fg_size g /\ fg_probe g' = false).

Lemma MInv_TS_MW : forall m f f', MInv m f -> TS f f' -> MW m f'.
Proof.
  intros m f f' Hi Ht q pl pr g' Ha Hn. destruct (Hi q pl pr Ha) as (g & Hg & [Hc|[Hc1 Hc2]]).
  - left. exact Hc.
  - destruct (Ht q g g' Hg Hn) as [K|[K1 K2]]; [congruence|]. right. split; congruence.
Qed.

Lemma assoc_z_filter : forall (P : Z -> bool) (m : pmap) q,
  assoc_z q (filter (fun e : Z * (Z * bool) => P (fst e)) m) = if P q then assoc_z q m else None.
Proof.
  intros P. induction m as [|[k v] r IH]; intro q; cbn [filter assoc_z fst].
  - destruct (P q); reflexivity.
  - destruct (P k) eqn:Ek; cbn [assoc_z].
    + destruct (Z.eqb_spec q k) as [->|Hne]; [rewrite Ek; reflexivity | apply IH].
    + rewrite IH. destruct (Z.eqb_spec q k) as [->|Hne]; [rewrite Ek; reflexivity | reflexivity].
Qed.

Lemma MW_filter_MInv : forall m f,
  MW m f -> MInv (filter (fun e : Z * (Z * bool) => seq_named f (fst e)) m) f.
Proof.
  intros m f Hw q pl pr Ha. rewrite (assoc_z_filter (seq_named f)) in Ha. unfold seq_named in Ha.
  destruct (fseg_of_seq f q) as [g|] eqn:Eg; [|discriminate]. exists g. split; [reflexivity|].
  eapply Hw; eauto.
Qed.

(* one poll's packets folded into the map: every data packet names a segment of its size *)
Lemma stable_step_MW : forall (st : fstep) sc r pkts w a,
  fs_event st = FePoll sc -> fs_result st = FrPoll r pkts w a ->
  (forall p, In p pkts -> fq_is_data p = true ->
     exists g, fseg_of_seq (fs_post st) (ch_seq (fq_hdr p)) = Some g /\ fg_size g = fq_plen p) ->
  forall m, MW m (fs_post st) ->
  fst (stable_step m st) = true /\ MW (snd (stable_step m st)) (fs_post st).
Proof.
  intros st sc r pkts w a Hev Hres Hp m Hm. unfold stable_step. rewrite Hev, Hres.
  match goal with |- context [fold_left ?f _ _] => set (F := f) end.
  assert (HF : forall ok m p, F (ok, m) p =
    if fq_is_data p then
      (ok && match assoc_z (ch_seq (fq_hdr p)) m with
             | Some (pl, was_probe) => (pl =? fq_plen p) || was_probe
             | None => true
             end,
       (ch_seq (fq_hdr p), (fq_plen p,
          match fseg_of_seq (fs_post st) (ch_seq (fq_hdr p)) with Some g => fg_probe g | None => false end)) :: m)
    else (ok, m)) by reflexivity.
  clearbody F. clear Hres. revert m Hm.
  assert (G : forall ok, ok = true -> forall m, MW m (fs_post st) ->
    fst (fold_left F pkts (ok, m)) = true /\ MW (snd (fold_left F pkts (ok, m))) (fs_post st)).
  { revert Hp. induction pkts as [|p rest IH]; intros Hp ok Hok m Hm; cbn [fold_left].
    - split; [exact Hok | exact Hm].
    - rewrite HF. destruct (fq_is_data p) eqn:Ed.
      + destruct (Hp p (or_introl eq_refl) Ed) as (g0 & Hg0 & Hsz0).
        destruct (fseg_of_seq (fs_post st) (ch_seq (fq_hdr p))) as [g|] eqn:Hg; [|discriminate].
        assert (Hsz : fg_size g = fq_plen p) by congruence. clear g0 Hg0 Hsz0.
        apply IH.
        * intros p' Hin. apply Hp. right. exact Hin.
        * subst ok. cbn [andb]. destruct (assoc_z (ch_seq (fq_hdr p)) m) as [[pl wp]|] eqn:Ea; [|reflexivity].
          destruct (Hm _ _ _ g Ea Hg) as [K|[K1 K2]].
          -- rewrite K. apply orb_true_r.
          -- rewrite <- K1, Hsz, Z.eqb_refl. reflexivity.
        * intros q pl pr g0 Ha Hn. cbn [assoc_z] in Ha.
          destruct (Z.eqb_spec q (ch_seq (fq_hdr p))) as [->|Hne].
          -- injection Ha as <- <-. rewrite Hg in Hn. injection Hn as <-.
             unfold consistent. destruct (fg_probe g); [left; reflexivity | right; split; [exact Hsz | reflexivity]].
          -- eapply Hm; eauto.
      + apply IH; [intros p' Hin; apply Hp; right; exact Hin | exact Hok | exact Hm]. }
  intros m Hm. apply G; [reflexivity | exact Hm].
Qed.

Section WithCC.
Context {CC : Type} (cci : cc_iface CC).
Notation vsock := (vsock CC).

(* what the packets of a poll name (Conn/C06_StepLemmas.v OUT) in the fingerprint *)
Lemma OUT_named : forall (s' : vsock),
  seg_inv (v_segs s') -> OUT s' -> tol_ok (fp_of_vsock cci s') = true ->
  forall p, In p (map fpacket_of (rev (v_out s'))) -> fq_is_data p = true ->
    exists g, fseg_of_seq (fp_of_vsock cci s') (ch_seq (fq_hdr p)) = Some g /\ fg_size g = fq_plen p.
Proof.
  intros s' Hinv Hout Ht x Hx Hd.
  apply in_map_iff in Hx. destruct Hx as (p & <- & Hp). apply in_rev in Hp.
  unfold OUT in Hout. rewrite Forall_forall in Hout. specialize (Hout p Hp).
  assert (Hty : ch_type (p_hdr p) = ST_DATA).
  { unfold fq_is_data, fpacket_of in Hd. cbn [fq_hdr] in Hd. destruct (ch_type (p_hdr p)); try discriminate; reflexivity. }
  destruct (Hout Hty) as (j & g & A1 & A2 & A3 & A4 & A5 & A6).
  exists (fseg_of g). unfold fpacket_of. cbn [fq_hdr fq_plen]. rewrite A2. split.
  - apply (fseg_of_seq_table cci s' j g Hinv Ht A1).
  - unfold fseg_of. cbn [fg_size]. exact A5.
Qed.

Lemma MInv_segs : forall m (s s' : vsock), v_segs s' = v_segs s ->
  MInv m (fp_of_vsock cci s) -> MInv m (fp_of_vsock cci s').
Proof.
  intros m s s' E H q pl pr Ha. destruct (H q pl pr Ha) as (g & Hg & Hc). exists g. split; [|exact Hc].
  unfold fseg_of_seq in *. cbn [fp_of_vsock f_segs f_snd_una] in *. rewrite E. exact Hg.
Qed.

(* ---- TS from a relation between the two tables in the style of DM (Conn/C06_StepLemmas2.v): d entries
   dropped from the front, what stays keeps size and probe flag unless it was a probe *)
Definition SMl (d : nat) (l0 l : list seg) : Prop :=
  forall i g g', nth_error l0 (d + i) = Some g -> nth_error l i = Some g' ->
    sg_probe g = true \/ (sg_size g' = sg_size g /\ sg_probe g' = false).
Definition SM (t0 t : segments) : Prop :=
  exists d, (d <= length (ss_segs t0))%nat /\
    ss_snd_una t = wadd16 (ss_snd_una t0) (Z.of_nat d mod M16) /\ SMl d (ss_segs t0) (ss_segs t).

Lemma seq_sub_cong : forall a b, (seq_sub a b - (a - b)) mod M16 = 0.
Proof.
  intros a b. unfold seq_sub, seq_nr_offset, WRAP_TOLERANCE, wsub16, M16.
  destruct (a <? b); [destruct (_ <=? _); lia|].
  destruct (Z.eqb_spec a b); [lia|]. destruct (_ <=? _); lia.
Qed.

Lemma SM_TS : forall (s s' : vsock),
  SM (v_segs s) (v_segs s') ->
  tol_ok (fp_of_vsock cci s) = true -> tol_ok (fp_of_vsock cci s') = true ->
  TS (fp_of_vsock cci s) (fp_of_vsock cci s').
Proof.
  intros s s' (d & Hd & Hu & Hl) Ht Ht' q g g'. unfold tol_ok, fseg_of_seq in *.
  cbn [fp_of_vsock f_segs f_snd_una] in *. rewrite ?map_length in *.
  apply Z.leb_le in Ht. apply Z.leb_le in Ht'.
  pose proof (seq_sub_cong q (ss_snd_una (v_segs s))) as C1.
  pose proof (seq_sub_cong q (ss_snd_una (v_segs s'))) as C2.
  set (k := seq_sub q (ss_snd_una (v_segs s))) in *.
  set (k' := seq_sub q (ss_snd_una (v_segs s'))) in *.
  intros E1 E2.
  destruct ((0 <=? k) && (k <? Z.of_nat (length (ss_segs (v_segs s))))) eqn:R1; [|discriminate].
  destruct ((0 <=? k') && (k' <? Z.of_nat (length (ss_segs (v_segs s'))))) eqn:R2; [|discriminate].
  apply andb_true_iff in R1. destruct R1 as [R1a R1b]. apply Z.leb_le in R1a. apply Z.ltb_lt in R1b.
  apply andb_true_iff in R2. destruct R2 as [R2a R2b]. apply Z.leb_le in R2a. apply Z.ltb_lt in R2b.
  assert (Hk : k = Z.of_nat d + k').
  { rewrite Hu in C2. unfold wadd16, M16 in *. lia. }
  rewrite nth_error_map in E1, E2.
  destruct (nth_error (ss_segs (v_segs s)) (Z.to_nat k)) as [x|] eqn:N1; [|discriminate].
  destruct (nth_error (ss_segs (v_segs s')) (Z.to_nat k')) as [x'|] eqn:N2; [|discriminate].
  cbn [option_map] in E1, E2. injection E1 as <-. injection E2 as <-.
  replace (Z.to_nat k) with (d + Z.to_nat k')%nat in N1 by lia.
  unfold fseg_of. cbn [fg_probe fg_size]. exact (Hl _ _ _ N1 N2).
Qed.

(* the step of the tables over one poll that the transport cannot answer with EMSGSIZE *)
Definition TSH : Prop :=
  forall (s s' : vsock) r, LB 0 s -> EF s -> poll cci s = (s', r) ->
    tol_ok (fp_of_vsock cci s) = true -> tol_ok (fp_of_vsock cci s') = true ->
    TS (fp_of_vsock cci s) (fp_of_vsock cci s').

Theorem stable_trace_g_partial : TSH ->
  forall ops (s : vsock) m, LB 0 s -> MInv m (fp_of_vsock cci s) ->
    stable_trace_g (v_emsg_limit s) m (ftrace cci s ops) = true.
Proof.
  intros HT. induction ops as [|o rest IH]; intros s m HL Hm; [reflexivity|].
  rewrite ftrace_cons'. cbn [stable_trace_g].
  assert (Hn : lim_next (v_emsg_limit s) (fstep_of cci s o) = v_emsg_limit (vstep_state cci s o)).
  { unfold lim_next. rewrite fstep_of_event, vstep_limit. destruct o; reflexivity. }
  rewrite Hn.
  assert (HL' : LB 0 (vstep_state cci s o)) by (apply (vstep_LB cci s o HL)).
  assert (Hnp : (forall sc, o <> VoPoll sc) ->
    (let '(ok, acc') := stable_step_g (v_emsg_limit s) m (fstep_of cci s o) in
     ok && stable_trace_g (v_emsg_limit (vstep_state cci s o)) acc'
             (if poll_finished (vstep_out cci s o) then [] else ftrace cci (vstep_state cci s o) rest)) = true).
  { intro Ho. unfold stable_step_g. rewrite fstep_of_event.
    pose proof (vstep_nonpoll_segs cci s o) as Hs.
    destruct o; cbn [fevent_of andb]; try (destruct (poll_finished _); [reflexivity|];
      apply IH; [exact HL' | eapply MInv_segs; [exact Hs | exact Hm]]).
    exfalso. eapply Ho. reflexivity. }
  destruct o; try (apply Hnp; discriminate).
  clear Hnp. rename script into sc.
  destruct (poll cci (VSockRec.set_sends s sc)) as [s' r] eqn:E.
  destruct (vstep_poll cci s sc s' r E) as [Es _]. rewrite Es in *.
  rewrite (fstep_of_poll cci s sc s' r E). unfold stable_step_g, poll_noemsg.
  cbn [fs_event fs_pre fs_post].
  assert (Hrest : forall m', MInv m' (fp_of_vsock cci s') ->
    stable_trace_g (v_emsg_limit s') m'
      (if poll_finished (vstep_out cci s (VoPoll sc)) then [] else ftrace cci s' rest) = true).
  { intros m' Hm'. destruct (poll_finished _); [reflexivity|]. apply IH; assumption. }
  assert (Hnil : MInv [] (fp_of_vsock cci s')) by (intros q pl pr Ha; discriminate).
  destruct (script_legit sc) eqn:Esc; [|cbn [andb]; apply Hrest; exact Hnil].
  destruct (v_emsg_limit s) eqn:El; [cbn [andb]; apply Hrest; exact Hnil|].
  destruct (tol_ok (fp_of_vsock cci s)) eqn:Et; [|cbn [andb]; apply Hrest; exact Hnil].
  destruct (tol_ok (fp_of_vsock cci s')) eqn:Et'; [|cbn [andb]; apply Hrest; exact Hnil].
  cbn [andb].
  set (st := {| fs_now := v_env_now s'; fs_pre := fp_of_vsock cci s; fs_event := FePoll sc;
                fs_result := FrPoll r (map fpacket_of (rev (v_out s'))) (rev (v_wakes s')) (v_arm_in s');
                fs_disp_woken := false; fs_self_woken := false; fs_post := fp_of_vsock cci s' |}).
  assert (HL0 : LB 0 (VSockRec.set_sends s sc)) by (eapply LB_kp; [exact HL|]; unfold kp; auto).
  assert (HE : EF (VSockRec.set_sends s sc)) by (split; [exact Esc | exact El]).
  pose proof (poll_OUT_DM_strict_all cci _ _ _ HL0 HE E) as HO.
  assert (Hpk : forall p, In p (map fpacket_of (rev (v_out s'))) -> fq_is_data p = true ->
     exists g, fseg_of_seq (fp_of_vsock cci s') (ch_seq (fq_hdr p)) = Some g /\ fg_size g = fq_plen p).
  { destruct r; try (apply OUT_named; [apply HL' | apply HO | exact Et']).
    rewrite HO. cbn [rev map]. intros p []. }
  assert (Hts : TS (fp_of_vsock cci s) (fp_of_vsock cci s')).
  { change (fp_of_vsock cci s) with (fp_of_vsock cci (VSockRec.set_sends s sc)).
    apply (HT _ _ r HL0 HE E); [exact Et | exact Et']. }
  pose proof (MInv_TS_MW _ _ _ Hm Hts) as Hw.
  destruct (stable_step_MW st sc r _ _ _ eq_refl eq_refl Hpk m Hw) as [K1 K2].
  destruct (stable_step m st) as [ok m1]. cbn [fst snd] in K1, K2. subst ok. cbn [andb].
  apply Hrest. apply (MW_filter_MInv m1 (fp_of_vsock cci s') K2).
Qed.

(* PARTIAL: every trace from vsock_new satisfies the guarded predicate, GIVEN the table step TSH.
   What is missing is TSH itself: over one EMSGSIZE-free poll from an LB state, a sequence number named by the
   table before and after names a segment of the same size that is not a probe, unless it named a probe before.
   It is the size/probe analogue of DM (Conn/C06_StepLemmas2.v poll_OUT_DM_strict_all: d entries dropped from the
   front, delivered ones stay delivered) and has the same proof skeleton (poll_H with pim_rule / send_tx_queue_rule);
   the leaves it needs and that do not exist yet: sack_phase, recovery_on_ack, calc_pipe/pipe_loop and on_sent keep
   sg_size and sg_probe pointwise (Forall2), strip_delivered drops a prefix, pop_expired_mtu_probe removes only a
   last entry with sg_probe = true, enqueue/segment_loop append; then the index shift d + k between the two tables
   has to be carried through seq_sub (both tables within the tolerance: d + k <= 2048). *)
Theorem c06_stable_plen_ok_g_partial : TSH ->
  forall cfg mk c (s0 : vsock) ops,
    vconfig_ok c = true -> vsock_new cci mk c = Some s0 ->
    c06_stable_plen_ok_g cfg (ftrace cci s0 ops) = true.
Proof.
  intros HT cfg mk c s0 ops Hc H0. unfold c06_stable_plen_ok_g.
  assert (Hl : v_emsg_limit s0 = None).
  { unfold vsock_new in H0.
    destruct (match (if vc_incoming c then None else _) with Some r => _ | None => _ end); [|discriminate].
    inversion H0; subst. reflexivity. }
  rewrite <- Hl. apply (stable_trace_g_partial HT).
  - eapply vsock_new_LB; eassumption.
  - intros q pl pr Ha. discriminate.
Qed.

(* the same, with the missing piece stated on the tables (the form a poll_H proof would produce; SM_TS carries it
   through seq_sub).  To prove SMH along the skeleton of poll_OUT_DM_strict_all the running relation has to be
   SM strengthened by "every entry of the first table at an index >= d + length of the current table is a probe"
   (those are the popped ones: pop_expired_mtu_probe pops only a last entry with sg_probe = true, and the segment
   enqueued afterwards at that index may have another size). *)
Definition SMH : Prop :=
  forall (s s' : vsock) r, LB 0 s -> EF s -> poll cci s = (s', r) -> SM (v_segs s) (v_segs s').

Lemma SMH_TSH : SMH -> TSH.
Proof. intros H s s' r HL HE E Ht Ht'. apply SM_TS; [eapply H; eauto | exact Ht | exact Ht']. Qed.

Theorem c06_stable_plen_ok_g_partial_SM : SMH ->
  forall cfg mk c (s0 : vsock) ops,
    vconfig_ok c = true -> vsock_new cci mk c = Some s0 ->
    c06_stable_plen_ok_g cfg (ftrace cci s0 ops) = true.
Proof. intro H. apply c06_stable_plen_ok_g_partial. apply SMH_TSH. exact H. Qed.

(* ---- unconditional: within one poll (map reset at every poll) ---- *)
Theorem c06_stable_plen_poll_poll : forall cfg (s : vsock) sc,
  LB 0 s -> v_emsg_limit s = None -> script_legit sc = true ->
  c06_stable_plen_poll cfg (fstep_of cci s (VoPoll sc)) = true.
Proof.
  intros cfg s sc HL Hl Hs. unfold c06_stable_plen_poll.
  destruct (poll cci (VSockRec.set_sends s sc)) as [s' r] eqn:E.
  rewrite (fstep_of_poll cci s sc s' r E). cbn [fs_post].
  destruct (tol_ok (fp_of_vsock cci s')) eqn:Et'; [|reflexivity].
  match goal with |- fst (stable_step [] ?x) = true => set (st := x) end.
  assert (HL0 : LB 0 (VSockRec.set_sends s sc)) by (eapply LB_kp; [exact HL|]; unfold kp; auto).
  assert (HE : EF (VSockRec.set_sends s sc)) by (split; [exact Hs | exact Hl]).
  pose proof (poll_LB cci _ HL0) as HL'. rewrite E in HL'. cbn [fst] in HL'.
  pose proof (poll_OUT_DM_strict_all cci _ _ _ HL0 HE E) as HO.
  assert (Hpk : forall p, In p (map fpacket_of (rev (v_out s'))) -> fq_is_data p = true ->
     exists g, fseg_of_seq (fp_of_vsock cci s') (ch_seq (fq_hdr p)) = Some g /\ fg_size g = fq_plen p).
  { destruct r; try (apply OUT_named; [apply HL' | apply HO | exact Et']).
    rewrite HO. cbn [rev map]. intros p []. }
  assert (Hnil : MW [] (fs_post st)) by (intros q pl pr g Ha; discriminate).
  destruct (stable_step_MW st sc r _ _ _ eq_refl eq_refl Hpk [] Hnil) as [K1 _]. exact K1.
Qed.

Theorem c06_stable_plen_poll_other : forall cfg (s : vsock) o,
  (forall sc, o <> VoPoll sc) -> c06_stable_plen_poll cfg (fstep_of cci s o) = true.
Proof.
  intros cfg s o Hnp. unfold c06_stable_plen_poll. destruct (tol_ok _); [|reflexivity].
  unfold stable_step. rewrite fstep_of_event.
  destruct o; try reflexivity. exfalso. eapply Hnp. reflexivity.
Qed.

Theorem c06_stable_plen_ok_p_trace : forall cfg mk c (s0 : vsock) ops,
  vconfig_ok c = true -> vsock_new cci mk c = Some s0 ->
  c06_stable_plen_ok_p cfg (ftrace cci s0 ops) = true.
Proof.
  intros cfg mk c s0 ops Hc H0. unfold c06_stable_plen_ok_p.
  assert (Hl : v_emsg_limit s0 = None).
  { unfold vsock_new in H0.
    destruct (match (if vc_incoming c then None else _) with Some r => _ | None => _ end); [|discriminate].
    inversion H0; subst. reflexivity. }
  rewrite <- Hl. apply noemsg_scan_ok.
  - apply c06_stable_plen_poll_other.
  - apply c06_stable_plen_poll_poll.
  - eapply vsock_new_LB; eassumption.
Qed.

End WithCC.

Print Assumptions c06_stable_plen_ok_g_partial.
Print Assumptions c06_stable_plen_ok_g_partial_SM.
Print Assumptions SM_TS.

(* ------------------------------------------------------------------ non-vacuity: the scenario of
   backoff_cap_nonvacuous (Conn/C06_Step.v: one segment, retransmitted by five expiries of the timer): every poll
   meets the guard of stable_step_g, the same sequence number goes out several times (so the map is consulted),
   and both the guarded and the original predicate hold *)
Definition data_seqs (tr : list fstep) : list Z :=
  flat_map (fun st => match fs_result st with
                      | FrPoll _ pkts _ _ => map (fun p => ch_seq (fq_hdr p)) (filter fq_is_data pkts)
                      | _ => []
                      end) tr.

Lemma stable_plen_g_nonvacuous :
  exists w cfg ops,
    vconfig_ok cfg = true /\ Forall op_msg_ok ops /\
    forallb (fun st => poll_noemsg None st && tol_ok (fs_pre st) && tol_ok (fs_post st)) (wtrace w cfg ops) = true /\
    (6 <=? Z.of_nat (length (data_seqs (wtrace w cfg ops)))) = true /\
    forallb (fun q => q =? 101) (data_seqs (wtrace w cfg ops)) = true /\
    c06_stable_plen_ok_g cfg (wtrace w cfg ops) = true /\
    c06_stable_plen_ok cfg (wtrace w cfg ops) = true.
Proof.
  exists 1000, nv_cfg, nv_rto_ops.
  split; [vm_compute; reflexivity|]. split; [repeat constructor|].
  repeat split; vm_compute; reflexivity.
Qed.

(* the per-poll form on the same scenario: every poll meets its guard, data goes out in six of them *)
Lemma stable_plen_p_nonvacuous :
  exists w cfg ops,
    vconfig_ok cfg = true /\ Forall op_msg_ok ops /\
    forallb (fun st => poll_noemsg None st && tol_ok (fs_post st)) (wtrace w cfg ops) = true /\
    (6 <=? Z.of_nat (length (data_seqs (wtrace w cfg ops)))) = true /\
    c06_stable_plen_ok_p cfg (wtrace w cfg ops) = true.
Proof.
  exists 1000, nv_cfg, nv_rto_ops.
  split; [vm_compute; reflexivity|]. split; [repeat constructor|].
  repeat split; vm_compute; reflexivity.
Qed.

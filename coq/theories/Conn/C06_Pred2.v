(* C06 — guarded forms of the predicates of Conn/C06_Pred.v / Conn/C0506_Pred2.v: the forms that ARE theorems
   of every model trace (Conn/C06_Step.v).  Model-only file: no proofs.
   The guard "the transport never answers EMSGSIZE to this poll" is observable on the events of a trace:
   the script of the poll contains no EMSGSIZE and no path limit is in force (the last FeSetLimit, if any,
   removed it).  Without it a poll may restart after popping a failed MTU probe, and the messages still
   queued are then processed AFTER datagrams of the same poll went out. *)
From Utp Require Import Base.Prelude Wire.SeqNr Wire.Header Rtt.Rtte Tx.Segments Tx.Ring Conn.Recovery Conn.Msg
  Conn.VSockRun Conn.VObs Conn.C10_Pred Conn.C05_Pred Conn.C06_Pred Conn.C0506_Pred2.

Definition lim_next (lim : option Z) (st : fstep) : option Z :=
  match fs_event st with FeSetLimit m => m | _ => lim end.

Definition poll_noemsg (lim : option Z) (st : fstep) : bool :=
  match fs_event st with
  | FePoll sc => script_legit sc && match lim with None => true | Some _ => false end
  | _ => true
  end.

(* P is claimed of the steps whose poll cannot be answered EMSGSIZE (and of every other event) *)
Fixpoint noemsg_scan (P : fstep -> bool) (lim : option Z) (tr : list fstep) : bool :=
  match tr with
  | [] => true
  | st :: r => (if poll_noemsg lim st then P st else true) && noemsg_scan P (lim_next lim st) r
  end.

Definition c06_emitted_live_ok_g (cfg : vconfig) (tr : list fstep) : bool :=
  noemsg_scan (c06_emitted_live_ok cfg) None tr.

(* "never retransmits an acknowledged segment", claimed when the table after the poll is within the
   wrap tolerance too (the sequence number of a datagram is resolved against the table BEFORE the poll:
   with more than 64 k segments in the table the number could be one of the next lap) *)
Definition c06_no_resend_acked_t (cfg : vconfig) (st : fstep) : bool :=
  if tol_ok (fs_post st) then c06_no_resend_acked cfg st else true.

Definition c06_no_resend_acked_g (cfg : vconfig) (tr : list fstep) : bool :=
  noemsg_scan (c06_no_resend_acked_t cfg) None tr.

(* fast retransmit, claimed when the SACK depth the table carries is not negative (it is a length) and the
   distance from the recovery phase's high_rxt to the first undelivered segment is within the wrap tolerance:
   at most (segments in the table before the poll) + (index of the first undelivered one) < 1024 *)
Definition c06_fast_retx_ok_t (cfg : vconfig) (st : fstep) : bool :=
  if (0 <=? f_sack_depth (fs_post st)) &&
     match first_undelivered (f_segs (fs_post st)) with
     | Some (i, _) => Z.of_nat (length (f_segs (fs_pre st))) + Z.of_nat i <? 1024
     | None => true
     end
  then c06_fast_retx_ok cfg st else true.

Definition c06_fast_retx_ok_g (cfg : vconfig) (tr : list fstep) : bool :=
  noemsg_scan (c06_fast_retx_ok_t cfg) None tr.

(* Behind c02_eof_wakes: rx_inv of the receive half is an invariant of every reachable state, and
   once the connection has accepted the peer's in-sequence FIN (state LastAck) the reassembly queue
   holds something or the user queue is non-empty — the EOF marker is in one of them. *)
From Utp Require Import Base.Prelude Wire.SeqNr Wire.Header Rtt.Rtte Mtu.SegSizes Rx.Rx Rx.Rx_Proofs
  Tx.Ring Tx.Segments Conn.Recovery Conn.Msg Conn.VSockRec Conn.VSock Conn.VSockRun Conn.VObs
  Conn.VSock_LemmasTx Conn.VSock_Lemmas Conn.VSock_LemmasStep Conn.VSock_LemmasReach Conn.VSock_LemmasPark
  Conn.VSock_LemmasTimers Conn.VSock_LemmasPipe.

(* ------------------------------------------------------------------ Rx *)
Definition rxe (r : rx) : Prop := 0 < ooq_len r \/ q r <> [].

Ltac rxs := cbn [ooq_data filled_front ooq_len ooq_len_bytes ooq_capacity q q_len_bytes q_capacity
  reader_dropped vsock_closed disp_waker reader_waker max_incoming_payload last_remaining_rx_window
  current is_eof g_base g_read set_ooq set_wakers set_flags pop_front_state] in *.

Lemma app_one_not_nil {A} (l : list A) x : l ++ [x] <> [].
Proof. destruct l; discriminate. Qed.

Lemma flush_loop_rxe : forall fuel s w fb fp s1 w1 fb1 fp1,
  flush_loop fuel s w fb fp = Some (s1, w1, fb1, fp1) -> rxe s -> rxe s1.
Proof.
  induction fuel as [|fuel IH]; intros s w fb fp s1 w1 fb1 fp1; cbn [flush_loop].
  - intro H; injection H as <- _ _ _. auto.
  - destruct (filled_front s =? 0); [intro H; injection H as <- _ _ _; auto|].
    destruct (ooq_data s) as [|m rest]; [discriminate|].
    destruct (w <? _); [intro H; injection H as <- _ _ _; auto|].
    destruct (reader_dropped s); [intro H; injection H as <- _ _ _; auto|].
    destruct (_ <? _); [discriminate|].
    intros H _. eapply IH; [exact H|]. right. rxs. apply app_one_not_nil.
Qed.

Lemma rx_flush_rxe r r' fr w : rx_flush r = (r', fr, w) -> rxe r -> rxe r'.
Proof.
  unfold rx_flush. intros H He.
  set (s0 := set_wakers r _ (reader_waker r) (last_remaining_rx_window r)) in *.
  assert (He0 : rxe s0) by exact He.
  destruct (flush_loop _ s0 _ 0 0) as [[[[s1 w1] fb] fp]|] eqn:E.
  - apply (flush_loop_rxe _ _ _ _ _ _ _ _ _ E) in He0.
    destruct (0 <? fp); injection H as <- _ _; exact He0.
  - injection H as <- _ _. exact He0.
Qed.

Lemma rx_add_remove_rxe r k p off r' ar w :
  rx_inv r -> rx_add_remove r k p off = (r', ar, w) -> rxe r -> rxe r'.
Proof.
  intros Hinv H He. unfold rx_add_remove in H.
  destruct (ooq_add_remove r k p off) as [s1 a] eqn:E.
  assert (He1 : rxe s1).
  { destruct (ooq_add_remove_cases _ _ _ _ _ _ E) as [[-> _]|(m & old & _ & _ & _ & _ & _ & Hs')]; [exact He|].
    cbv zeta in Hs'. destruct Hs' as [-> _]. left. rxs. pose proof (inv_ff_bounds r Hinv). lia. }
  destruct a; try (injection H as <- _ _; exact He1).
  destruct (_ && _); [|injection H as <- _ _; exact He1].
  destruct (rx_flush s1) as [[s2 fr] w2] eqn:Ef.
  apply (rx_flush_rxe _ _ _ _ Ef) in He1. destruct fr; injection H as <- _ _; exact He1.
Qed.

(* the in-sequence FIN: afterwards the reassembly queue is not empty, or the flush moved it on *)
Lemma rx_add_fin_rxe r p r' a w :
  rx_inv r -> rx_add_remove r KFin p 0 = (r', UarOk a, w) ->
  a <> ArErrBugMissingSlot -> rxe r'.
Proof.
  intros Hinv H Ha. pose proof (inv_ff_bounds r Hinv) as Hb.
  destruct Hinv as (Hlen & Hcap & Hff & Hl & Hrest).
  unfold rx_add_remove in H. destruct (ooq_add_remove r KFin p 0) as [s1 a0] eqn:E.
  assert (He1 : rxe s1 /\ a0 <> ArErrBugMissingSlot \/ a0 = ArErrBugMissingSlot).
  { unfold ooq_add_remove in E. destruct (ooq_is_full r) eqn:Ef.
    { injection E as <- <-. left. split; [|discriminate]. left. unfold ooq_is_full in Ef. lia. }
    destruct (Z.leb_spec (Z.of_nat (length (ooq_data r))) (0 + filled_front r)) as [Hge|Hlt].
    { injection E as <- <-. left. split; [|discriminate]. left. lia. }
    destruct (nth_error (ooq_data r) (Z.to_nat (0 + filled_front r))) as [old|] eqn:En;
      [|injection E as <- <-; right; reflexivity].
    destruct (slot_is_default old) eqn:Eo; cbn [negb] in E.
    - destruct (take_while_filled _) as [n b]. injection E as <- <-. left. split; [|discriminate].
      left. rxs. lia.
    - (* the slot at filled_front is a hole *)
      exfalso. assert (Hh : slot_is_default (nth (Z.to_nat (filled_front r)) (ooq_data r) slot_default) = true).
      { rewrite Hff. apply twf_n_hole. rewrite <- Hff. lia. }
      replace (0 + filled_front r) with (filled_front r) in En by lia.
      rewrite (nth_error_nth _ _ slot_default En) in Hh. congruence. }
  destruct He1 as [[He1 Hn0]|He1]; [|subst a0].
  - destruct a0; try (injection H as <- <- _; exact He1).
    destruct (_ && _); [|injection H as <- <- _; exact He1].
    destruct (rx_flush s1) as [[s2 fr] w2] eqn:Ef.
    apply (rx_flush_rxe _ _ _ _ Ef) in He1. destruct fr; [|discriminate]. injection H as <- _ _; exact He1.
  - injection H as _ <- _. congruence.
Qed.

(* rx_inv through the dispatcher-side and the application-side operations *)
Lemma rx_dop_inv d r r' w : rx_dop d r r' w -> rx_inv r -> rx_inv r'.
Proof.
  intros H Hinv. destruct H.
  - exact (proj1 (rx_flush_spec _ _ _ _ Hinv H)).
  - exact (proj1 (rx_add_remove_spec _ _ _ _ _ _ _ Hinv H H0)).
  - assert (Hst : rx_step r OMarkClosed = (r', OutUnit, w)) by (cbn [rx_step]; rewrite H0; reflexivity).
    exact (proj1 (rx_step_spec r OMarkClosed r' OutUnit w Hinv I Hst)).
  - assert (Hst : rx_step r OEnqueueError = (r', OutUnit, w)) by (cbn [rx_step]; rewrite H0; reflexivity).
    exact (proj1 (rx_step_spec r OEnqueueError r' OutUnit w Hinv I Hst)).
Qed.

Section WithCC.
Context {CC : Type} (cci : cc_iface CC).
Notation vsock := (vsock CC).

Definition rxi (s : vsock) : Prop := rx_inv (v_rx s).

Lemma rxi_reach : forall d t (s s' : vsock), reach d t s s' -> rxi s -> rxi s'.
Proof.
  intros d t s s' H. induction H; unfold rxi in *; intro K.
  - exact K.
  - auto.
  - rewrite H. exact K.
  - eapply rx_dop_inv; eassumption.
  - rewrite H0. exact K.
  - rewrite H0. exact K.
Qed.

Theorem rxi_vstep : forall (s : vsock) o, rxi s -> rxi (vstep_state cci s o).
Proof.
  intros s o Hp. unfold vstep_state. destruct o; cbn [vstep];
    try (repeat match goal with |- context [if ?c then _ else _] => destruct c end;
         repeat match goal with |- context [let '(_, _) := ?t in _] => destruct t end;
         cbn [fst]; exact Hp).
  - destruct (poll cci (VSockRec.set_sends s script)) as [s' r] eqn:E. cbn [fst].
    apply poll_reach in E. eapply rxi_reach; [exact E|]. exact Hp.
  - destruct (reader_dropped (v_rx s)); [exact Hp|].
    destruct (rx_read (v_rx s) n) as [[rx1 r] w] eqn:E. cbn [fst].
    exact (proj1 (rx_read_spec _ _ _ _ _ Hp E)).
  - destruct (reader_dropped (v_rx s)) eqn:Ed; [exact Hp|].
    destruct (rx_drop_reader (v_rx s)) as [rx1 w] eqn:E. cbn [fst].
    assert (Hst : rx_step (v_rx s) ODropReader = (rx1, OutUnit, w)) by (cbn [rx_step]; rewrite Ed, E; reflexivity).
    exact (proj1 (rx_step_spec (v_rx s) ODropReader rx1 OutUnit w Hp I Hst)).
Qed.

Lemma rxi_vsock_new : forall mk c s, 0 < vc_rx_buf c -> vsock_new cci mk c = Some s -> rxi s.
Proof.
  intros mk c s Hb H. unfold vsock_new in H.
  destruct (match (if vc_incoming c then None else _) with Some r => _ | None => _ end); [|discriminate].
  assert (Hm : 0 < mss (ss_new {| cfg_ipv4 := vc_ipv4 c; cfg_link_mtu := vc_link_mtu c; cfg_cooldown := 3 |})).
  { apply Z.lt_le_trans with 1; [lia | apply mss_ss_new_pos]. }
  inversion H; subst. unfold rxi. cbn [v_rx]. apply build_inv; [exact Hm | exact Hb].
Qed.

(* ------------------------------------------------------------------ the FIN in sequence *)
Lemma seq_sub_same : forall x, seq_sub x x = 0.
Proof. intros x. unfold seq_sub, seq_nr_offset. rewrite Z.ltb_irrefl, Z.eqb_refl. reflexivity. Qed.

Definition isLA (st : vstate) : bool := match st with LastAck _ _ => true | _ => false end.

Definition hh (s : vsock) : Prop := rxi s /\ (isLA (v_state s) = true -> rxe (v_rx s)).
Definition hhR (s s' : vsock) : Prop := hh s -> hh s'.

Lemma hhR_refl : forall s, hhR s s. Proof. intros s H; exact H. Qed.
Lemma hhR_trans : forall a b c, hhR a b -> hhR b c -> hhR a c.
Proof. intros a b c H1 H2 H. auto. Qed.

Notation sth := (stR hhR).

Lemma hh_same : forall (s s' : vsock),
  v_rx s' = v_rx s -> (isLA (v_state s') = true -> isLA (v_state s) = true) -> hhR s s'.
Proof. intros s s' E1 E2 [H1 H2]. unfold hh, rxi. rewrite E1. split; auto. Qed.

Lemma txf_hh : forall s s', txf s s' -> hhR s s'.
Proof.
  intros s s' (A1 & _ & _ & _ & _ & _ & A7 & _). apply hh_same; [exact A1|]. rewrite A7. auto.
Qed.

Lemma stf_sth : forall X (s : vsock) (m : step X), stR txf s m -> sth s m.
Proof. intros X s m H. destruct m; cbn [stR] in *; auto using txf_hh. Qed.

Ltac hh_same_tac := apply hh_same; [exact eq_refl | let K := fresh in intro K; exact K].

(* segmentation touches neither the receive half nor the state *)
Definition srx (s s' : vsock) : Prop := v_rx s' = v_rx s /\ v_state s' = v_state s.

Lemma split_srx : forall (s : vsock), stR srx s (split_tx_queue_into_segments cci s).
Proof.
  assert (Hrefl : forall a : vsock, srx a a) by (intro a; split; reflexivity).
  assert (Htrans : forall a b c : vsock, srx a b -> srx b c -> srx a c).
  { intros a b c [A1 A2] [B1 B2]. split; congruence. }
  intros s. unfold split_tx_queue_into_segments.
  destruct (_ =? 0); [cbn [stR]; split; exact eq_refl|].
  match goal with |- context [is_remote_fin_or_later (v_state ?x)] => set (s1 := x) end.
  assert (F1 : srx s s1).
  { subst s1. destruct (_ && _); [|apply Hrefl].
    destruct (grow _ _) as [tx1 g]. destruct g; [destruct (wake_writer tx1)|]; split; exact eq_refl. }
  clearbody s1.
  destruct (is_remote_fin_or_later _); [exact F1|].
  destruct (pop_expired_mtu_probe _ _ _) as [segs1 pe].
  assert (Hcont : forall s2 : vsock, srx s s2 ->
    stR srx s
      (if Z.of_nat (length (ring (v_tx s))) <? ss_len_bytes (v_segs s2)
       then SErr s2 (ErrBug BugInBufferComputations)
       else match segment_loop (ring (v_tx s2)) (o_nagle (v_opts s2)) (v_ss s2) (v_segs s2)
                    (Z.of_nat (length (ring (v_tx s))) - ss_len_bytes (v_segs s2))
                    (v_last_remote_window s2) with
            | Some (ss', segs', remaining) =>
                SOk (set_unsegmented (VSockRec.set_segs (set_ss s2 ss') segs') remaining) tt
            | None => SPanic
            end)).
  { intros s2 F2. destruct (_ <? _); [exact F2|].
    destruct (segment_loop _ _ _ _ _ _) as [[[ss' segs'] rem']|]; [|exact I].
    cbn [stR]. eapply Htrans; [exact F2|]. split; exact eq_refl. }
  destruct pe.
  - apply Hcont. eapply Htrans; [exact F1|]. destruct (seq_gt _ _); split; exact eq_refl.
  - cbn [stR]. eapply Htrans; [exact F1|]. split; exact eq_refl.
  - apply Hcont. exact F1.
Qed.

(* the table creates LastAck only for the peer's in-sequence FIN *)
Lemma state_table_la : forall (s : vsock) h,
  match state_table s h with
  | TblDrop s1 | TblErr s1 _ =>
      v_rx s1 = v_rx s /\ (isLA (v_state s1) = true -> isLA (v_state s) = true)
  | TblContinue s1 =>
      v_rx s1 = v_rx s /\ v_last_consumed s1 = v_last_consumed s /\
      ((isLA (v_state s1) = true -> isLA (v_state s) = true) \/
       (ch_type h = ST_FIN /\ is_remote_fin_or_later (v_state s) = false /\
        ch_seq h = wadd16 (v_last_consumed s) 1))
  end.
Proof.
  intros s h. unfold state_table, restart_remote_inactivity_timer.
  destruct (ch_type h) eqn:Et; destruct (v_state s) eqn:Est;
    repeat match goal with
    | |- context [if negb (?a =? ?b) then _ else _] => destruct (Z.eqb_spec a b); cbn [negb]
    | |- context [if ?c then _ else _] => destruct c
    | |- context [match ?c with _ => _ end] => destruct c
    end;
    vsimpl_goal; rewrite ?Est; cbn [isLA is_remote_fin_or_later];
    repeat split; auto; try (left; intro HLA; discriminate HLA); try (intro HLA; discriminate HLA);
    try (right; repeat split; auto; fail).
Qed.

Lemma hh_of : forall r st (x : vsock),
  v_rx x = r -> v_state x = st -> rx_inv r -> (isLA st = true -> rxe r) -> hh x.
Proof. intros r st x E1 E2 H1 H2. unfold hh, rxi. rewrite E1, E2. auto. Qed.

Lemma process_incoming_message_hh : forall (s : vsock) m,
  hh s -> stU hh (process_incoming_message cci s m).
Proof.
  intros s m Hh. revert Hh. unfold process_incoming_message.
  pose proof (state_table_la s (m_hdr m)) as T.
  destruct (state_table s (m_hdr m)) as [s1|s1 e|s1]; cbn [stU]; auto.
  - intros [H1 H2]. destruct T as [T1 T2]. unfold hh, rxi. rewrite T1. split; auto.
  - intros [H1 H2]. destruct T as (T1 & T2 & T3).
    destruct (remove_up_to_ack _ _ _ _) as [segs1 res].
    destruct (match is_recovering _, _ with | false, Some rtt => _ | _, _ => _ end) as [rtte1|]; [|exact I].
    destruct (cc_on_ack _ _ _ _ _) as [cc3|]; [|exact I].
    destruct (recovery_on_ack _ _ _ _ _ _ _ _) as [[[rec1 segs2] cc4]|]; [|exact I].
    match goal with |- context [seq_sub _ (wadd16 (v_last_consumed ?x) 1)] =>
      assert (F2 : v_rx x = v_rx s /\ v_state x = v_state s1 /\ v_last_consumed x = v_last_consumed s);
      [|revert F2; generalize x; intros s2 F2] end.
    { split; [exact T1|]. split; [exact eq_refl | exact T2]. }
    destruct F2 as (R2 & S2 & C2).
    assert (Hold : forall x : vsock, v_rx x = v_rx s -> v_state x = v_state s1 ->
                   (isLA (v_state s1) = true -> isLA (v_state s) = true) -> hh x).
    { intros x Ex Es Hla. unfold hh, rxi. rewrite Ex, Es. split; auto. }
    destruct (ch_type (m_hdr m)) eqn:Et.
    + (* ST_DATA *)
      assert (Hla : isLA (v_state s1) = true -> isLA (v_state s) = true).
      { destruct T3 as [T3|(T3 & _)]; [exact T3|discriminate]. }
      destruct (_ <? 0) eqn:Eoff; [cbn [stU]; unfold force_immediate_ack; apply Hold; [exact R2 | exact S2 | exact Hla]|].
      match goal with |- context [rx_add_remove (v_rx ?x)] =>
        assert (F3 : v_rx x = v_rx s /\ v_state x = v_state s1); [|revert F3; generalize x; intros s3 F3] end.
      { split; [exact R2 | exact S2]. }
      destruct F3 as [R3 S3].
      match goal with |- context [rx_add_remove _ _ _ ?off] => assert (Hoff : 0 <= off) by lia end.
      destruct (rx_add_remove _ _ _ _) as [[rx1 ar] w] eqn:Ea. rewrite R3 in Ea.
      assert (I1 : rx_inv rx1) by exact (proj1 (rx_add_remove_spec _ _ _ _ _ _ _ H1 Hoff Ea)).
      assert (E1 : isLA (v_state s1) = true -> rxe rx1).
      { intro K. eapply rx_add_remove_rxe; [exact H1 | exact Ea | auto]. }
      assert (Hnew : forall x : vsock, v_rx x = rx1 -> v_state x = v_state s1 -> hh x).
      { intros x Ex Es. unfold hh, rxi. rewrite Ex, Es. split; auto. }
      assert (F4 : v_rx (add_wakes (set_rx s3 rx1) (rx_wakes w)) = rx1 /\
                   v_state (add_wakes (set_rx s3 rx1) (rx_wakes w)) = v_state s1).
      { split; [exact eq_refl | exact S3]. }
      revert F4. generalize (add_wakes (set_rx s3 rx1) (rx_wakes w)). intros s4 F4.
      destruct F4 as [R4 S4].
      destruct ar as [r|]; [|exact I].
      destruct (add_err r); [exact I|].
      match goal with |- context [send_ack (force_immediate_ack ?x)] =>
        assert (F5 : v_rx x = rx1 /\ v_state x = v_state s1); [|revert F5; generalize x; intros s5 F5] end.
      { unfold restart_remote_inactivity_timer. destruct r; (split; [exact R4 | exact S4]). }
      destruct F5 as [R5 S5].
      destruct (_ || _); [|cbn [stU]; apply Hnew; assumption].
      pose proof (send_ack_txf (force_immediate_ack s5)) as X.
      destruct (send_ack (force_immediate_ack s5)) as [s6 b| |]; cbn [sbind stU stR] in *; auto.
      destruct X as (X1 & _ & _ & _ & _ & _ & X7 & _). apply Hnew; [rewrite X1; exact R5 | rewrite X7; exact S5].
    + (* ST_FIN *)
      destruct (negb (is_remote_fin_or_later (v_state s)) && _) eqn:Eb.
      * apply andb_true_iff in Eb. destruct Eb as [Eb1 Eb2]. apply negb_true_iff in Eb1.
        match goal with |- context [rx_add_remove (v_rx ?x)] =>
          assert (F3 : v_rx x = v_rx s /\ v_state x = v_state s1); [|revert F3; generalize x; intros s4 F3] end.
        { split; [exact R2 | exact S2]. }
        destruct F3 as [R3 S3].
        match goal with |- context [rx_add_remove _ _ _ ?off] => assert (Hoff : 0 <= off) by lia end.
        destruct (rx_add_remove _ _ _ _) as [[rx1 ar] w] eqn:Ea. rewrite R3 in Ea.
        assert (I1 : rx_inv rx1) by exact (proj1 (rx_add_remove_spec _ _ _ _ _ _ _ H1 Hoff Ea)).
        destruct ar as [r|]; [|exact I].
        destruct (add_err r) eqn:Ee; [exact I|].
        destruct (mark_vsock_closed _) as [tx1 w2]. cbn [stU].
        apply (hh_of rx1 (v_state s1)); [exact eq_refl | exact S3 | exact I1|].
        intro K.
        destruct T3 as [T3|(_ & _ & T3)].
        -- (* LastAck before: the FIN had been seen *)
           specialize (T3 K). destruct (v_state s); discriminate.
        -- (* the in-sequence FIN *)
           assert (Ez : seq_sub (ch_seq (m_hdr m)) (wadd16 (v_last_consumed s2) 1) = 0)
             by (rewrite C2, T3; apply seq_sub_same).
           rewrite Ez in Ea. eapply rx_add_fin_rxe; [exact H1 | exact Ea|].
           intro Hr. rewrite Hr in Ee. discriminate.
      * cbn [stU]. unfold force_immediate_ack. apply Hold; [exact R2 | exact S2 |].
        destruct T3 as [T3|(_ & T3 & T4)]; [exact T3|].
        (* a new LastAck needs the branch above *)
        exfalso. rewrite T3 in Eb. cbn [negb andb] in Eb.
        assert (Ez : seq_sub (ch_seq (m_hdr m)) (wadd16 (v_last_consumed s2) 1) = 0)
          by (rewrite C2, T4; apply seq_sub_same).
        rewrite Ez in Eb. discriminate.
    + cbn [stU]. apply Hold; auto. destruct T3 as [T3|(T3 & _)]; [exact T3|discriminate].
    + cbn [stU]. apply Hold; auto. destruct T3 as [T3|(T3 & _)]; [exact T3|discriminate].
    + cbn [stU]. apply Hold; auto. destruct T3 as [T3|(T3 & _)]; [exact T3|discriminate].
Qed.

Lemma transition_to_fin_wait_1_hh : forall (s : vsock), hhR s (transition_to_fin_wait_1 s).
Proof.
  intros s. unfold transition_to_fin_wait_1.
  destruct (v_state s) eqn:Est; try apply hhR_refl;
    (apply hh_same; [exact eq_refl | intro K; discriminate K]).
Qed.

Lemma recv_loop_hh : forall fuel (s : vsock) acc, hh s -> stU hh (recv_loop cci fuel s acc).
Proof.
  assert (Hclosed : forall (s : vsock) (acc : on_ack_result), hh s ->
    stU hh (sbind (maybe_send_fin (transition_to_fin_wait_1 s))
                  (fun s2 _ => SOk (set_state s2 Closed) (acc, true)))).
  { intros s acc Hh. apply transition_to_fin_wait_1_hh in Hh.
    pose proof (maybe_send_fin_txf (transition_to_fin_wait_1 s)) as X.
    destruct (maybe_send_fin _) as [s2 b| |]; cbn [sbind stU stR] in *; auto.
    apply (txf_hh _ _ X) in Hh. revert Hh. apply hh_same; [exact eq_refl | intro K; discriminate K]. }
  induction fuel as [|x fuel IH]; intros s acc Hh.
  - cbn [recv_loop]. destruct (v_inbox s).
    + destruct (v_inbox_closed s); [apply Hclosed; exact Hh|]. cbn [stU]. exact Hh.
    + exact I.
  - cbn [recv_loop]. destruct (v_inbox s) as [|m rest].
    + destruct (v_inbox_closed s); [apply Hclosed; exact Hh|]. cbn [stU]. exact Hh.
    + assert (Hh' : hh (set_inbox s rest)) by exact Hh.
      pose proof (process_incoming_message_hh (set_inbox s rest) m Hh') as P.
      destruct (process_incoming_message cci (set_inbox s rest) m) as [s1 r| |]; cbn [sbind stU] in *; auto.
      destruct (_ || _); [exact P|]. apply IH. exact P.
Qed.

Lemma process_all_incoming_messages_hh : forall (s : vsock),
  hh s -> stU hh (process_all_incoming_messages cci s).
Proof.
  intros s Hh. rewrite paim_eq.
  pose proof (recv_loop_hh (v_inbox s ++ [ {| m_hdr := outgoing_header s; m_payload := [] |} ]) s
                on_ack_result_default Hh) as P.
  destruct (recv_loop _ _ _ _) as [s1 res| |]; cbn [sbind stU] in *; auto.
  pose proof (paim_rest_pst s1 (fst res)) as Q.
  destruct (paim_rest s1 (fst res)) as [s2 u| |]; cbn [stU stR] in *; auto.
  destruct Q as (Q1 & _ & _ & _ & _ & _ & _ & _ & _ & Q10). revert P.
  apply hh_same; [exact Q10 | rewrite Q1; auto].
Qed.

Lemma maybe_send_syn_ack_hh : forall (s : vsock), hh s -> stU hh (maybe_send_syn_ack s).
Proof.
  intros s Hh. unfold maybe_send_syn_ack.
  assert (G : forall c, stU hh
     (if c =? o_max_retx (v_opts s) then SErr s ErrMaxSynAckRetransmissionsReached
      else sbind (send_ack s) (fun s1 sent =>
        if sent then SOk (set_t_syn_ack_resend (set_state s1 (SynAckSent (c + 1)))
               (timer_arm (v_t_syn_ack_resend s1) (v_now s1) SYNACK_RESEND_INTERNAL true)) tt
        else SOk s1 tt))).
  { intros c. destruct (_ =? _); [exact I|].
    pose proof (send_ack_txf s) as X.
    destruct (send_ack s) as [s1 b| |]; cbn [sbind stU stR] in *; auto.
    apply (txf_hh _ _ X) in Hh. destruct b; cbn [stU]; [|exact Hh].
    revert Hh. apply hh_same; [exact eq_refl | intro K; discriminate K]. }
  destruct (v_state s) eqn:Est; try (cbn [stU]; exact Hh).
  - apply G.
  - destruct (timer_expired _ _); [apply G | exact Hh].
Qed.

Lemma rx_flush_hh : forall (s : vsock) rx1 fb w,
  rx_flush (v_rx s) = (rx1, FlOk fb, w) -> hh s -> hh (add_wakes (set_rx s rx1) (rx_wakes w)).
Proof.
  intros s rx1 fb w E [H1 H2].
  apply (hh_of rx1 (v_state s)); [exact eq_refl | exact eq_refl | |].
  - exact (proj1 (rx_flush_spec _ _ _ _ H1 E)).
  - intro K. eapply rx_flush_rxe; [exact E | auto].
Qed.

(* after every poll that returns Pending *)
Theorem poll_hh : forall (s s' : vsock),
  hh s -> poll cci s = (s', PollPending) -> hh s'.
Proof.
  intros s s' Hh H.
  assert (PS : pend_shape hhR (poll_init s) s').
  { apply (poll_Rp cci hhR hhR_refl hhR_trans); try exact H.
    - intros a K. exact K.
    - intros a. pose proof (maybe_send_syn_ack_hh a) as P.
      destruct (maybe_send_syn_ack a); cbn [stRk stU] in *; auto.
    - intros a. apply stR_stRk, stf_sth, send_ack_txf.
    - intros a. pose proof (process_all_incoming_messages_hh a) as P.
      destruct (process_all_incoming_messages cci a); cbn [stRk stU] in *; auto.
    - intros a rx1 fb w E K. eapply rx_flush_hh; [exact E | exact K].
    - intros a. pose proof (split_srx a) as P.
      destruct (split_tx_queue_into_segments cci a) as [b u|b e|]; cbn [stRk stR] in *; auto.
      destruct P as [P1 P2]. apply hh_same; [exact P1 | rewrite P2; auto].
    - intros a. apply stR_stRk, stf_sth, send_tx_queue_txf.
    - apply transition_to_fin_wait_1_hh.
    - intros a. apply stR_stRk, stf_sth, maybe_send_fin_txf.
    - intros a. apply stR_stRk, stf_sth, maybe_send_ack_txf. }
  assert (Hi : hh (poll_init s)) by exact Hh.
  destruct PS as [[_ R]|(sa & sb & b & R1 & _ & R2 & _ & _ & _ & E)]; [exact (R Hi)|].
  rewrite E. destruct (poll_tail_fields sb) as (_ & _ & F3 & F4 & _).
  generalize (R2 (R1 Hi)). apply hh_same; [exact F3 | rewrite F4; auto].
Qed.

End WithCC.

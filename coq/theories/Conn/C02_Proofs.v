(* C02 (the wake-up half): theorems about the model for the predicates of C02_Pred.v and
   refutation witnesses for the known classes D2 / D8 / D9. *)
From Utp Require Import Base.Prelude Wire.SeqNr Wire.Header Rtt.Rtte Mtu.SegSizes Rx.Rx Rx.Rx_Proofs
  Tx.Ring Tx.Ring_Proofs Tx.Segments Conn.Recovery Conn.Msg Conn.VSockRec Conn.VSock Conn.VSockRun
  Conn.VObs Conn.C10_Pred Conn.C02_Pred Conn.VSock_Inv Conn.C10_Proofs.

(* ------------------------------------------------------------------ witnesses *)
(* D2: P H P — the shutdown wakes nobody although the dispatcher is parked on the TX waker *)
Definition d2_ops : list vop := [VoPoll []; VoShutdown; VoPoll []].

Lemma shutdown_idle_wakes_nobody_refuted :
  exists w cfg ops,
    vconfig_ok cfg = true /\
    forallb (c02_shutdown_wakes cfg) (wtrace w cfg ops) = false /\
    existsb (c02_d2_class cfg) (wtrace w cfg ops) = true /\
    (* ... and yet the next poll does emit the FIN *)
    c02_prompt cfg (wtrace w cfg ops) = true /\
    match rev (wtrace w cfg ops) with
    | st :: _ => emits (fs_result st) (fun p => match ch_type (fq_hdr p) with ST_FIN => true | _ => false end)
    | [] => false
    end = true.
Proof.
  exists 1056, (wcfg 1048576), d2_ops. repeat split; vm_compute; reflexivity.
Qed.

(* D8: P R100 M1(FIN in sequence) P R100 — the reader parked by the first read is not woken by
   the poll that flushes the EOF; the second read returns EOF *)
Definition d8_ops : list vop :=
  [VoPoll []; VoRead 100; VoDeliver (wmsg ST_FIN 1 100 0); VoPoll []; VoRead 100].

Lemma eof_flush_wakes_nobody_refuted :
  exists w cfg ops,
    vconfig_ok cfg = true /\ Forall op_msg_ok ops /\
    forallb (c02_eof_wakes cfg) (wtrace w cfg ops) = false /\
    existsb (c02_d8_class cfg) (wtrace w cfg ops) = true /\
    match rev (wtrace w cfg ops) with st :: _ => fs_result st = FrReadEof | [] => False end.
Proof.
  exists 1056, (wcfg 1048576), d8_ops.
  split; [vm_compute; reflexivity|]. split; [repeat constructor|].
  split; [vm_compute; reflexivity|]. split; vm_compute; reflexivity.
Qed.

(* the same at the component level: `rx 100 10 r10 a1,0,0,0 f` *)
Lemma rx_eof_flush_wakes_nobody_refuted :
  exists s,
    rx_inv s /\ reader_waker s = true /\ q s = [] /\
    let '(s', r, w) := rx_flush s in
    r = FlOk 0 /\ w = [] /\ q s' = [QEof] /\ reader_waker s' = true.
Proof.
  exists (rx_run (rx_build 100 10) [ORead 10; OAddRemove KFin [] 0]).
  split; [apply rx_reachable_inv; [lia|lia|repeat constructor; cbn; lia]|].
  vm_compute. repeat split.
Qed.

(* D9: receive buffer 3000, link 1500, two 1100-byte packets: the ACK advertises window 0, no
   RX dispatcher waker is registered, the read of 2200 bytes wakes nobody *)
Definition d9_ops : list vop :=
  [VoPoll []; VoDeliver (wmsg ST_DATA 1 100 1100); VoDeliver (wmsg ST_DATA 2 100 1100); VoPoll [];
   VoRead 3000; VoPoll []].

Lemma zero_window_without_waker_refuted :
  exists w cfg ops,
    vconfig_ok cfg = true /\ Forall op_msg_ok ops /\
    forallb (c02_zero_window_waker cfg) (wtrace w cfg ops) = false /\
    existsb (c02_d9_class cfg) (wtrace w cfg ops) = true /\
    (* the read that drains the queue wakes nobody; only the next poll (made by hand) sends the update *)
    forallb (fun st => match fs_event st with FeRead _ => negb (fs_disp_woken st) | _ => true end)
            (wtrace w cfg ops) = true.
Proof.
  exists 1056, (wcfg 3000), d9_ops.
  split; [vm_compute; reflexivity|]. split.
  { repeat constructor; cbv [op_msg_ok msg_ok wmsg m_hdr ch_type m_payload]; vm_compute; discriminate. }
  split; [vm_compute; reflexivity|]. split; vm_compute; reflexivity.
Qed.

(* ------------------------------------------------------------------ theorems: application events *)
Section Thms.
Context {CC : Type} (cci : cc_iface CC).

(* one step as ftrace records it *)
Definition fstep_of (s : vsock CC) (o : vop) : fstep :=
  let '(s', out, dw, sw) := vstep cci s o in
  {| fs_now := v_env_now s'; fs_pre := fp_of_vsock cci s; fs_event := fevent_of o;
     fs_result := fresult_of out; fs_disp_woken := dw; fs_self_woken := sw;
     fs_post := fp_of_vsock cci s' |}.

Lemma ftrace_cons s o rest :
  exists tl, ftrace cci s (o :: rest) = fstep_of s o :: tl.
Proof.
  unfold fstep_of. cbn [ftrace]. destruct (vstep cci s o) as [[[s' out] dw] sw]. eexists; reflexivity.
Qed.

(* a write that stored bytes wakes the dispatcher parked on the TX waker *)
Lemma write_wakes_ok cfg s buf : c02_write_wakes cfg (fstep_of s (VoWrite buf)) = true.
Proof.
  unfold fstep_of, c02_write_wakes. cbn [vstep].
  destruct (writer_dropped (v_tx s)); [reflexivity|].
  destruct (poll_write (v_tx s) buf) as [[tx1 r] w] eqn:E.
  cbn [fs_event fevent_of fs_result fresult_of fs_pre fs_disp_woken].
  destruct r; try reflexivity.
  unfold fp_of_vsock; cbn [f_tx_disp_waker]. destruct (t_disp_waker (v_tx s)) eqn:Ed; [|reflexivity].
  destruct (write_wakes_dispatcher _ _ _ _ _ E Ed) as [-> _]. reflexivity.
Qed.

Lemma drop_writer_wakes_ok cfg s : c02_drop_writer_wakes cfg (fstep_of s VoDropWriter) = true.
Proof.
  unfold fstep_of, c02_drop_writer_wakes. cbn [vstep]. unfold drop_writer.
  cbn [fs_event fevent_of]. unfold fp_of_vsock; cbn [fs_pre f_tx_disp_waker f_tx_writer_dropped].
  destruct (writer_dropped (v_tx s)); cbn [fs_disp_woken fs_pre f_tx_disp_waker f_tx_writer_dropped negb andb];
    [rewrite andb_false_r; reflexivity|].
  destruct (t_disp_waker (v_tx s)); reflexivity.
Qed.

Lemma read_wakes_ok cfg s o :
  (exists n, o = VoRead n) \/ o = VoDropReader -> c02_read_wakes cfg (fstep_of s o) = true.
Proof.
  intros [[n ->]| ->]; unfold fstep_of, c02_read_wakes; cbn [vstep].
  - destruct (reader_dropped (v_rx s)); [reflexivity|].
    unfold rx_read. destruct (read_loop _ _ _ _) as [[[s1 out] dead] err] eqn:E.
    assert (Hdw : disp_waker s1 = disp_waker (v_rx s)).
    { assert (Hq : forall fuel r room o0 r' o' d e, read_loop fuel r room o0 = (r', o', d, e) ->
                   disp_waker r' = disp_waker r).
      { induction fuel as [|fuel IH]; intros r room o0 r' o' d e; cbn [read_loop].
        - intro H; injection H as <- _ _ _; reflexivity.
        - destruct (room <=? 0); [intro H; injection H as <- _ _ _; reflexivity|].
          destruct (current r).
          + destruct (is_eof r); [intro H; injection H as <- _ _ _; reflexivity|].
            destruct (q r) as [|item qr].
            * destruct (vsock_closed r); intro H; injection H as <- _ _ _; reflexivity.
            * destruct item; [intro H; apply IH in H; exact H|..];
                intro H; injection H as <- _ _ _; reflexivity.
          + intro H; apply IH in H; exact H. }
      eapply Hq; exact E. }
    destruct err; [reflexivity|]. destruct out as [|b bs].
    + destruct (is_eof s1); [reflexivity|]. destruct dead; reflexivity.
    + cbn [fs_event fevent_of fs_result fresult_of fs_pre fs_disp_woken].
      unfold fp_of_vsock; cbn [f_rx_disp_waker]. rewrite Hdw.
      destruct (disp_waker (v_rx s)); reflexivity.
  - cbn [fevent_of fs_event]. unfold fp_of_vsock; cbn [fs_pre f_rx_disp_waker f_rx_reader_dropped].
    destruct (reader_dropped (v_rx s)); [rewrite andb_false_r; reflexivity|].
    unfold rx_drop_reader. cbn [fs_disp_woken]. destruct (disp_waker (v_rx s)); reflexivity.
Qed.

(* D2, positive half at the component level: the shutdown leaves writer_shutdown set, which is
   what the next poll acts on (should_close_on_own_initiative) *)
Lemma shutdown_sets_flag s tx1 r w :
  poll_shutdown s = (tx1, r, w) -> ring s = [] -> t_vsock_closed s = false ->
  writer_shutdown tx1 = true /\ r = UrPending /\ w = [].
Proof.
  unfold poll_shutdown. intros H Hr Hc. rewrite Hr, Hc in H. injection H as <- <- <-. auto.
Qed.

(* the RX dispatcher waker is registered by every flush that leaves less than one creation-time
   MSS of window (D9: rx_window() rounds to the CURRENT mss instead) *)
Lemma flush_registers_waker s s' r w :
  rx_flush s = (s', r, w) ->
  sat_sub (q_window s) (filled_front_bytes s) < max_incoming_payload s -> r <> FlPanic ->
  disp_waker s' = true.
Proof.
  unfold rx_flush. intros H Hlt Hnp.
  destruct (Z.ltb_spec (sat_sub (q_window s) (filled_front_bytes s)) (max_incoming_payload s)) as [_|]; [|lia].
  set (s0 := set_wakers s true (reader_waker s) (last_remaining_rx_window s)) in *.
  assert (Hloop : forall fuel r0 w0 fb fp r1 w1 fb1 fp1,
            flush_loop fuel r0 w0 fb fp = Some (r1, w1, fb1, fp1) -> disp_waker r1 = disp_waker r0).
  { induction fuel as [|fuel IH]; intros r0 w0 fb fp r1 w1 fb1 fp1; cbn [flush_loop].
    - intro K; injection K as <- _ _ _; reflexivity.
    - destruct (filled_front r0 =? 0); [intro K; injection K as <- _ _ _; reflexivity|].
      destruct (ooq_data r0) as [|m rest]; [discriminate|].
      destruct (w0 <? _); [intro K; injection K as <- _ _ _; reflexivity|].
      destruct (reader_dropped r0); [intro K; injection K as <- _ _ _; reflexivity|].
      destruct (_ <? _); [discriminate|].
      intro K. apply IH in K. rewrite K. reflexivity. }
  destruct (flush_loop _ s0 _ 0 0) as [[[[s1 w1] fb] fp]|] eqn:E.
  - apply Hloop in E. destruct (0 <? fb); injection H as <- _ _; cbn [set_wakers disp_waker];
      rewrite E; reflexivity.
  - injection H as _ <- _. congruence.
Qed.

End Thms.

(* C02 (the wake-up half): theorems about the model for the predicates of C02_Pred.v and
   refutation witness for the known class D9, regression examples for the repaired D2 / D8 / D14. *)
From Utp Require Import Base.Prelude Wire.SeqNr Wire.Header Rtt.Rtte Mtu.SegSizes Rx.Rx Rx.Rx_Proofs
  Tx.Ring Tx.Ring_Proofs Tx.Segments Conn.Recovery Conn.Msg Conn.VSockRec Conn.VSock Conn.VSockRun
  Conn.VObs Conn.C10_Pred Conn.C02_Pred Conn.VSock_Inv Conn.C10_Proofs.

(* ------------------------------------------------------------------ witnesses *)
(* D2 (repaired in /repo): P H P — the shutdown on the idle connection wakes the dispatcher parked on
   the TX waker, and the next poll emits the FIN.  Regression example on the witness of the old defect. *)
Definition d2_ops : list vop := [VoPoll []; VoShutdown; VoPoll []].

Lemma shutdown_idle_regression :
  exists w cfg ops,
    vconfig_ok cfg = true /\
    existsb shutdown_idle_guard (wtrace w cfg ops) = true /\
    forallb (c02_shutdown_wakes cfg) (wtrace w cfg ops) = true /\
    existsb (c02_d2_class cfg) (wtrace w cfg ops) = false /\
    c02_prompt cfg (wtrace w cfg ops) = true /\
    match rev (wtrace w cfg ops) with
    | st :: _ => emits (fs_result st) (fun p => match ch_type (fq_hdr p) with ST_FIN => true | _ => false end)
    | [] => false
    end = true.
Proof.
  exists 1056, (wcfg 1048576), d2_ops. repeat split; vm_compute; reflexivity.
Qed.

(* D8 (repaired in /repo): P R100 M1(FIN in sequence) P R100 — the reader parked by the first read IS
   woken by the poll that flushes the EOF; the second read returns EOF.  Regression example. *)
Definition d8_ops : list vop :=
  [VoPoll []; VoRead 100; VoDeliver (wmsg ST_FIN 1 100 0); VoPoll []; VoRead 100].

Lemma eof_flush_regression :
  exists w cfg ops,
    vconfig_ok cfg = true /\ Forall op_msg_ok ops /\
    existsb eof_flush_guard (wtrace w cfg ops) = true /\
    forallb (c02_eof_wakes cfg) (wtrace w cfg ops) = true /\
    existsb (c02_d8_class cfg) (wtrace w cfg ops) = false /\
    match rev (wtrace w cfg ops) with st :: _ => fs_result st = FrReadEof | [] => False end.
Proof.
  exists 1056, (wcfg 1048576), d8_ops.
  split; [vm_compute; reflexivity|]. split; [repeat constructor|].
  split; [vm_compute; reflexivity|]. split; [vm_compute; reflexivity|]. split; vm_compute; reflexivity.
Qed.

(* the same at the component level: `rx 100 10 r10 a1,0,0,0 f` now fires the reader's waker *)
Lemma rx_eof_flush_regression :
  exists s,
    rx_inv s /\ reader_waker s = true /\ q s = [] /\
    let '(s', r, w) := rx_flush s in
    r = FlOk 0 /\ w = [WakeReader] /\ q s' = [QEof] /\ reader_waker s' = false.
Proof.
  exists (rx_run (rx_build 100 10) [ORead 10; OAddRemove KFin [] 0]).
  split; [apply rx_reachable_inv; [lia|lia|repeat constructor; cbn; lia]|].
  vm_compute. repeat split.
Qed.

(* D9: receive buffer 3000, link 1500, two 1100-byte packets: the ACK advertises window 0, no
   RX dispatcher waker is registered, the read of 2200 bytes wakes nobody *)
Definition d9_ops : list vop :=
  [VoPoll []; VoDeliver (wmsg ST_DATA 1 100 1100); VoDeliver (wmsg ST_DATA 2 100 1100); VoPoll [];
   VoRead 3000; VoPoll []].

Lemma zero_window_without_waker_refuted :
  exists w cfg ops,
    vconfig_ok cfg = true /\ Forall op_msg_ok ops /\
    forallb (c02_zero_window_waker cfg) (wtrace w cfg ops) = false /\
    existsb (c02_d9_class cfg) (wtrace w cfg ops) = true /\
    (* the read that drains the queue wakes nobody; only the next poll (made by hand) sends the update *)
    forallb (fun st => match fs_event st with FeRead _ => negb (fs_disp_woken st) | _ => true end)
            (wtrace w cfg ops) = true.
Proof.
  exists 1056, (wcfg 3000), d9_ops.
  split; [vm_compute; reflexivity|]. split.
  { repeat constructor; cbv [op_msg_ok msg_ok wmsg m_hdr ch_type m_payload]; vm_compute; discriminate. }
  split; [vm_compute; reflexivity|]. split; vm_compute; reflexivity.
Qed.

(* D14 (repaired in /repo): a poll that pops an expired MTU probe while other segments are still
   unacknowledged keeps a retransmission timer (re-armed for one RTO from now) instead of turning it
   off.  Regression example on the witness of the old defect (constant window 1056: nothing can be
   sent after the pop, so only the pop itself decides the timer).
   case: vsock out 1 1500 1500 32768 1048576 0 1 10000000000 0 0 65535 0 2065 1048576 2464197817 1000000
         W16434,0 P M2,0,1,524288,0,0,0,- P T520500000 P *)
Definition d14_cfg : vconfig :=
  {| vc_incoming := false; vc_ipv4 := true; vc_link_mtu := 1500; vc_rx_buf := 1500;
     vc_tx_init := 32768; vc_tx_max := 1048576; vc_nagle := false; vc_max_retx := 1;
     vc_inactivity := 10000000000; vc_wait_last_ack := false; vc_mtu_probe_max_retx := 0;
     vc_isn := 65535; vc_remote_seq := 0; vc_remote_conn_id := 2065; vc_remote_wnd := 1048576;
     vc_remote_ts := 2464197817; vc_syn_sent := 0; vc_now0 := 1000000 |}.

Definition d14_ack : msg :=
  {| m_hdr := {| ch_type := ST_STATE; ch_conn_id := 0; ch_ts := 0; ch_ts_diff := 0; ch_wnd := 524288;
                 ch_seq := 0; ch_ack := 1; ch_sack := None; ch_close_reason := None |};
     m_payload := [] |}.

Definition d14_ops : list vop :=
  [VoWrite (repeat 0 (Z.to_nat 16434)); VoPoll []; VoDeliver d14_ack; VoPoll [];
   VoSetNow 520500000; VoPoll []].

(* the situation of D14: a Pending poll with a writable transport lowered max_ss (it popped an
   expired probe) and leaves sent, undelivered segments behind *)
Definition probe_popped_outstanding (st : fstep) : bool :=
  match fs_event st, fs_result st with
  | FePoll _, FrPoll PollPending _ _ _ =>
      (f_max_ss (fs_post st) <? f_max_ss (fs_pre st)) && outstanding (fs_post st) &&
      negb (f_transport_pending (fs_post st))
  | _, _ => false
  end.

Lemma probe_expiry_rto_regression :
  exists w cfg ops,
    vconfig_ok cfg = true /\ Forall op_msg_ok ops /\
    existsb probe_popped_outstanding (wtrace w cfg ops) = true /\
    forallb (c02_rto_armed cfg) (wtrace w cfg ops) = true /\
    existsb (c02_d14_class cfg) (wtrace w cfg ops) = false /\
    (* the timer left behind is one (initial) RTO after the poll *)
    match rev (wtrace w cfg ops) with
    | st :: _ => f_t_retransmit (fs_post st) = Some (fs_now st + f_rto (fs_post st))
    | [] => False
    end.
Proof.
  exists 1056, d14_cfg, d14_ops.
  split; [vm_compute; reflexivity|]. split; [repeat constructor|].
  split; [vm_compute; reflexivity|]. split; [vm_compute; reflexivity|]. split; vm_compute; reflexivity.
Qed.

(* ------------------------------------------------------------------ theorems: application events *)
Section Thms.
Context {CC : Type} (cci : cc_iface CC).

(* one step as ftrace records it *)
Definition fstep_of (s : vsock CC) (o : vop) : fstep :=
  let '(s', out, dw, sw) := vstep cci s o in
  {| fs_now := v_env_now s'; fs_pre := fp_of_vsock cci s; fs_event := fevent_of o;
     fs_result := fresult_of out; fs_disp_woken := dw; fs_self_woken := sw;
     fs_post := fp_of_vsock cci s' |}.

Lemma ftrace_cons s o rest :
  exists tl, ftrace cci s (o :: rest) = fstep_of s o :: tl.
Proof.
  unfold fstep_of. cbn [ftrace]. destruct (vstep cci s o) as [[[s' out] dw] sw]. eexists; reflexivity.
Qed.

(* a write that stored bytes wakes the dispatcher parked on the TX waker *)
Lemma write_wakes_ok cfg s buf : c02_write_wakes cfg (fstep_of s (VoWrite buf)) = true.
Proof.
  unfold fstep_of, c02_write_wakes. cbn [vstep].
  destruct (writer_dropped (v_tx s)); [reflexivity|].
  destruct (poll_write (v_tx s) buf) as [[tx1 r] w] eqn:E.
  cbn [fs_event fevent_of fs_result fresult_of fs_pre fs_disp_woken].
  destruct r; try reflexivity.
  unfold fp_of_vsock; cbn [f_tx_disp_waker]. destruct (t_disp_waker (v_tx s)) eqn:Ed; [|reflexivity].
  destruct (write_wakes_dispatcher _ _ _ _ _ E Ed) as [-> _]. reflexivity.
Qed.

Lemma drop_writer_wakes_ok cfg s : c02_drop_writer_wakes cfg (fstep_of s VoDropWriter) = true.
Proof.
  unfold fstep_of, c02_drop_writer_wakes. cbn [vstep]. unfold drop_writer.
  cbn [fs_event fevent_of]. unfold fp_of_vsock; cbn [fs_pre f_tx_disp_waker f_tx_writer_dropped].
  destruct (writer_dropped (v_tx s)); cbn [fs_disp_woken fs_pre f_tx_disp_waker f_tx_writer_dropped negb andb];
    [rewrite andb_false_r; reflexivity|].
  destruct (t_disp_waker (v_tx s)); reflexivity.
Qed.

Lemma read_wakes_ok cfg s o :
  (exists n, o = VoRead n) \/ o = VoDropReader -> c02_read_wakes cfg (fstep_of s o) = true.
Proof.
  intros [[n ->]| ->]; unfold fstep_of, c02_read_wakes; cbn [vstep].
  - destruct (reader_dropped (v_rx s)); [reflexivity|].
    unfold rx_read. destruct (read_loop _ _ _ _) as [[[s1 out] dead] err] eqn:E.
    assert (Hdw : disp_waker s1 = disp_waker (v_rx s)).
    { assert (Hq : forall fuel r room o0 r' o' d e, read_loop fuel r room o0 = (r', o', d, e) ->
                   disp_waker r' = disp_waker r).
      { induction fuel as [|fuel IH]; intros r room o0 r' o' d e; cbn [read_loop].
        - intro H; injection H as <- _ _ _; reflexivity.
        - destruct (room <=? 0); [intro H; injection H as <- _ _ _; reflexivity|].
          destruct (current r).
          + destruct (is_eof r); [intro H; injection H as <- _ _ _; reflexivity|].
            destruct (q r) as [|item qr].
            * destruct (vsock_closed r); intro H; injection H as <- _ _ _; reflexivity.
            * destruct item; [intro H; apply IH in H; exact H|..];
                intro H; injection H as <- _ _ _; reflexivity.
          + intro H; apply IH in H; exact H. }
      eapply Hq; exact E. }
    destruct err; [reflexivity|]. destruct out as [|b bs].
    + destruct (is_eof s1); [reflexivity|]. destruct dead; reflexivity.
    + cbn [fs_event fevent_of fs_result fresult_of fs_pre fs_disp_woken].
      unfold fp_of_vsock; cbn [f_rx_disp_waker]. rewrite Hdw.
      destruct (disp_waker (v_rx s)); reflexivity.
  - cbn [fevent_of fs_event]. unfold fp_of_vsock; cbn [fs_pre f_rx_disp_waker f_rx_reader_dropped].
    destruct (reader_dropped (v_rx s)); [rewrite andb_false_r; reflexivity|].
    unfold rx_drop_reader. cbn [fs_disp_woken]. destruct (disp_waker (v_rx s)); reflexivity.
Qed.

(* D2 repaired: a shutdown on an idle established connection wakes the dispatcher parked on the TX
   waker — every state *)
Lemma shutdown_wakes_ok cfg s : c02_shutdown_wakes cfg (fstep_of s VoShutdown) = true.
Proof.
  unfold fstep_of, c02_shutdown_wakes, shutdown_idle_guard. cbn [vstep].
  destruct (writer_dropped (v_tx s)); [reflexivity|].
  destruct (poll_shutdown (v_tx s)) as [[tx1 r] w] eqn:E.
  cbn [fs_event fevent_of fs_result fresult_of fs_pre fs_disp_woken].
  destruct r; try reflexivity.
  unfold idle_established, tx_idle, fp_of_vsock;
    cbn [f_tx_len f_tx_disp_waker f_tx_writer_shutdown f_tx_closed f_segs f_state is_established].
  destruct (is_established _); [|reflexivity]. cbn [andb].
  destruct (Z.eqb_spec (Z.of_nat (length (ring (v_tx s)))) 0) as [Hl|]; [|reflexivity]. cbn [andb].
  destruct (map fseg_of _); [|reflexivity]. cbn [andb].
  destruct (t_disp_waker (v_tx s)) eqn:Ed; [|reflexivity]. cbn [andb].
  destruct (writer_shutdown (v_tx s)) eqn:Es; [reflexivity|]. cbn [negb andb].
  destruct (t_vsock_closed (v_tx s)) eqn:Ec; [reflexivity|]. cbn [negb].
  assert (Hr : ring (v_tx s) = []) by (destruct (ring (v_tx s)); [reflexivity|cbn [length] in Hl; lia]).
  destruct (shutdown_idle_wakes_dispatcher _ _ _ _ Hr Ec Es Ed E) as (_ & -> & _). reflexivity.
Qed.

(* component level: the first shutdown sets writer_shutdown (what the next poll acts on) and fires
   the dispatcher's waker when it is registered *)
Lemma shutdown_sets_flag s tx1 r w :
  poll_shutdown s = (tx1, r, w) -> ring s = [] -> t_vsock_closed s = false ->
  writer_shutdown tx1 = true /\ r = UrPending /\
  (writer_shutdown s = false -> t_disp_waker s = true -> w = [TwDispatcher]).
Proof.
  unfold poll_shutdown. intros H Hr Hc. rewrite Hr, Hc in H.
  destruct (writer_shutdown s) eqn:Es; injection H as <- <- <-.
  - repeat split. discriminate.
  - repeat split. intros _ ->. reflexivity.
Qed.

(* the RX dispatcher waker is registered by every flush that leaves less than one creation-time
   MSS of window (D9: rx_window() rounds to the CURRENT mss instead) *)
Lemma flush_registers_waker s s' r w :
  rx_flush s = (s', r, w) ->
  sat_sub (q_window s) (filled_front_bytes s) < max_incoming_payload s -> r <> FlPanic ->
  disp_waker s' = true.
Proof.
  unfold rx_flush. intros H Hlt Hnp.
  destruct (Z.ltb_spec (sat_sub (q_window s) (filled_front_bytes s)) (max_incoming_payload s)) as [_|]; [|lia].
  set (s0 := set_wakers s true (reader_waker s) (last_remaining_rx_window s)) in *.
  assert (Hloop : forall fuel r0 w0 fb fp r1 w1 fb1 fp1,
            flush_loop fuel r0 w0 fb fp = Some (r1, w1, fb1, fp1) -> disp_waker r1 = disp_waker r0).
  { induction fuel as [|fuel IH]; intros r0 w0 fb fp r1 w1 fb1 fp1; cbn [flush_loop].
    - intro K; injection K as <- _ _ _; reflexivity.
    - destruct (filled_front r0 =? 0); [intro K; injection K as <- _ _ _; reflexivity|].
      destruct (ooq_data r0) as [|m rest]; [discriminate|].
      destruct (w0 <? _); [intro K; injection K as <- _ _ _; reflexivity|].
      destruct (reader_dropped r0); [intro K; injection K as <- _ _ _; reflexivity|].
      destruct (_ <? _); [discriminate|].
      intro K. apply IH in K. rewrite K. reflexivity. }
  destruct (flush_loop _ s0 _ 0 0) as [[[[s1 w1] fb] fp]|] eqn:E.
  - apply Hloop in E. destruct (0 <? fp); injection H as <- _ _; cbn [set_wakers disp_waker];
      rewrite E; reflexivity.
  - injection H as _ <- _. congruence.
Qed.

End Thms.
